import Blots.Lemmas.FormatPieces
import Blots.Lemmas.ExprPegLemmas
/-
  The formatter on the FRAGMENT of C10 (`Frag`: operators, calls, index and field accesses, list
  literals, lambdas, conditionals), at text level (C07 / C08 end to end).

  `Lemmas/ExprPegLemmas.lean` (C10) has the character-level PEG model of the `expression` rule
  for the fragment (`Frag t`), concrete syntax trees `CST`, the printer's tree `canon t`, and
  `Relayout t c` (`c` is `canon t` with other ADMISSIBLE layout strings; for a lambda also: the
  parentheses around a single parameter may go).
  `Model/Format.lean` has the width-driven formatter `fmtImplP` / `formatExpr`.

  Here the two are joined:
  * `canonF t`          : `format_single_line t` as a CST (`canonF_text`), a `Relayout` of `t`;
  * `fmtCST w indent t` : the concrete syntax tree `format_expr_impl` writes — `canonF t`
                          wherever the single-line form fits, else per node:
                          `left ⏎ (indent+2 blanks) op ␣ right` for a binary operator (for `via` /
                          `into` / `where` with a lambda on the right: `left ␣ op ␣ lambda` or
                          `left ⏎ (indent blanks) op ␣ lambda`), the operator sign directly in
                          front of / behind the (re-formatted) operand for prefix / postfix nodes,
                          for a call / list every argument / item on its own line followed by a
                          comma and the closing bracket on its own line, `e[i]`, `e.name` with the
                          parts re-formatted and nothing added, for a lambda `head => body`,
                          `head => (body)` or `head =>⏎ (indent+2) body` (`format_lambda`, which
                          has no single-line test of its own), for a conditional the two
                          layouts of `format_conditional_multiline` with flat `else if` chains;
  * `fmtCST_text`       : its text IS `fmtImpl w indent t`, character for character;
  * `fmtCST_relayout`   : it is a `Relayout` of `t`: every layout string the formatter writes is
                          admissible at its position;
  * `formatExpr_cst`    : `formatExpr` adds at most one redundant pair of parentheses
                          (`protect_statement_start`) — a `Wraps`;
  * `formatExpr_parse`  : hence `parseText (formatExpr t mw) = some t`.
-/
set_option linter.unusedSimpArgs false
namespace Blots.FormatFrag
open Blots.ExprPeg Blots.FormatP Blots.FormatL

/-- the test of `orSingle`: the single-line text is one line and fits -/
def fits (w indent : Nat) (e : Expr) : Bool :=
  !hasNewline (fmtSingle e) && decide (indent + blen (firstLine (fmtSingle e)) ≤ w)

/-- the layout `format_binary_op_multiline` writes in front of the operator, and
    `format_call_multiline` in front of every argument: a line feed and `indent + 2` blanks -/
def breakLay (indent : Nat) : Lay := .lf :: List.replicate (indent + INDENT_SIZE) .sp

/-! ### the single-line form of the formatter (`format_single_line`) as a CST

  `format_single_line` differs from `expr_to_source` in one place that matters here: a lambda
  with ONE required parameter is written `x => e` (`lambdaArgsPart`), not `(x) => e` — but only
  where `format_single_line` itself descends (lambda bodies, call arguments, list items); below
  any other node it hands over to `expr_to_source`.  `canonF t` is that text as a CST; resetting
  its layout (`normalize` also restores the parentheses of the parameter list) gives `canon t`. -/

/-- the parameter list `format_single_line` / `format_lambda` write -/
def headF : List LArg → LamHead
  | [.req n] => .bare (.req n)
  | args => headOf args

theorem headF_args (args : List LArg) : (headF args).args = args := by
  unfold headF
  split
  · rfl
  · exact headOf_args _

theorem headF_text (args : List LArg) : (headF args).text = (lambdaArgsPart args).toList := by
  unfold headF lambdaArgsPart
  split
  · simp [LamHead.text, argText]
  · rename_i hne
    split
    · rename_i n; exact absurd rfl (hne n)
    · simp only [headOf_text, String.toList_append, String.toList_intercalate, commaSp,
        List.map_map, Function.comp_def, argText_src, List.append_assoc]
      rfl

theorem headF_ok (args : List LArg) : (headF args).ok = true := by
  unfold headF
  split
  · rfl
  · exact headOf_ok _

theorem headF_namesOk {args : List LArg} (h : (args.all fun a => nameOk a.name) = true) :
    (headF args).namesOk = true := by
  simp only [LamHead.namesOk, headF_args, h, Bool.true_and]
  cases args with
  | nil => rfl
  | cons a as =>
    cases as with
    | nil => cases a <;> rfl
    | cons b bs => cases a <;> rfl

mutual
/-- `format_single_line` as a CST -/
def canonF : Expr → CST
  | .lambda args body =>
    .lambda (headF args) [.sp] [.sp] (wrap (lambdaBodyNeedsParens body) (canonF body))
  | .call f args => mkCall (wrap (needsParens f .postfix_) (canonF f)) (canonFArgs args)
  | .list items => mkList (canonFItems items)
  | .record es => mkRecord (canonFEntries es)
  | .assign n v => .asg n [.sp] [.sp] (canonF v)
  /- only reached from `canonFArgs`: below a spread `format_single_line` is `expr_to_source` -/
  | .spread e => canon e
  | e => canon e
def canonFArgs : List Expr → List (Bool × CST)
  | [] => []
  | a :: rest => (isSpread a, canonF a) :: canonFArgs rest
def canonFItems : List Item → List (Bool × CST)
  | [] => []
  | (.mk _ e _) :: rest => (isSpread e, canonF e) :: canonFItems rest
def canonFEntries : List Entry → List Ent
  | [] => []
  | e :: rest => canonFEnt e :: canonFEntries rest
/-- `format_single_line` descends into the values and the computed keys of a record; below
    a spread entry it is `expr_to_source` -/
def canonFEnt : Entry → Ent
  | .mk lead (.static k) v tr =>
    if entPlain lead tr && (isValidIdentifier k || !bothQuotes k) then keyEnt k (canonF v)
    else .raw (.mk lead (.static k) v tr)
  | .mk lead (.dyn ke) v tr =>
    if entPlain lead tr then .pairDyn [] (canonF ke) [] [] [.sp] (canonF v)
    else .raw (.mk lead (.dyn ke) v tr)
  | .mk lead (.short n) v tr =>
    if entPlain lead tr && isNullE v then .short n else .raw (.mk lead (.short n) v tr)
  | .mk lead (.spread (.spread e)) v tr =>
    if entPlain lead tr && isNullE v then .spread (canon e)
    else .raw (.mk lead (.spread (.spread e)) v tr)
  | .mk lead (.spread e) v tr => .raw (.mk lead (.spread e) v tr)
end

mutual
theorem canonF_normalize : ∀ t : Expr, (canonF t).normalize = canon t
  | .lambda args body => by
    simp only [canonF, canon, CST.normalize, headF_args, wrap_normalize', canonF_normalize body]
  | .call f args => by
    simp only [canonF, canon, mkCall_normalize, wrap_normalize', canonF_normalize f,
      canonFArgs_normalize args]
  | .list items => by simp only [canonF, canon, mkList_normalize, canonFItems_normalize items]
  | .record es => by simp only [canonF, canon, mkRecord_normalize, canonFEntries_normalize es]
  | .spread e => by simp only [canonF, canon, canon_normalize e]
  | .assign n v => by simp only [canonF, canon, CST.normalize, canonF_normalize v]
  | .bin .. | .un .. | .fact .. | .access .. | .dot .. | .cond .. | .ident _ | .builtin _ | .bool _
  | .null | .num _ | .str _ | .inref _ | .doBlock .. | .output _ => by
    simp only [canonF]; exact canon_normalize _
theorem canonFArgs_normalize : ∀ args : List Expr, (canonFArgs args).map normPair = canonArgs args
  | [] => rfl
  | a :: rest => by
    simp only [canonFArgs, canonArgs, List.map_cons, normPair, canonF_normalize a,
      canonFArgs_normalize rest]
theorem canonFItems_normalize : ∀ items : List Item,
    (canonFItems items).map normPair = canonItems items
  | [] => rfl
  | (.mk _ e _) :: rest => by
    simp only [canonFItems, canonItems, List.map_cons, normPair, canonF_normalize e,
      canonFItems_normalize rest]
theorem canonFEntries_normalize : ∀ es : List Entry,
    (canonFEntries es).map CST.normEnt = canonEntries es
  | [] => rfl
  | e :: rest => by
    simp only [canonFEntries, canonEntries, List.map_cons, canonFEnt_normalize e,
      canonFEntries_normalize rest]
theorem canonFEnt_normalize : ∀ en : Entry, CST.normEnt (canonFEnt en) = canonEnt en
  | .mk lead (.static k) v tr => by
    simp only [canonFEnt, canonEnt]
    split
    · simp only [normEnt_keyEnt, canonF_normalize v]
    · rfl
  | .mk lead (.dyn ke) v tr => by
    simp only [canonFEnt, canonEnt]
    split
    · simp only [CST.normEnt, canonF_normalize ke, canonF_normalize v]
    · rfl
  | .mk lead (.short n) v tr => by
    simp only [canonFEnt, canonEnt]
    split <;> rfl
  | .mk lead (.spread (.spread e)) v tr => by
    simp only [canonFEnt, canonEnt]
    split
    · simp only [CST.normEnt, canon_normalize e]
    · rfl
  | .mk _ (.spread (.num _)) _ _ | .mk _ (.spread (.str _)) _ _
  | .mk _ (.spread (.bool _)) _ _ | .mk _ (.spread .null) _ _
  | .mk _ (.spread (.ident _)) _ _ | .mk _ (.spread (.inref _)) _ _
  | .mk _ (.spread (.builtin _)) _ _ | .mk _ (.spread (.list _)) _ _
  | .mk _ (.spread (.record _)) _ _ | .mk _ (.spread (.lambda _ _)) _ _
  | .mk _ (.spread (.cond _ _ _)) _ _ | .mk _ (.spread (.doBlock _ _)) _ _
  | .mk _ (.spread (.assign _ _)) _ _ | .mk _ (.spread (.output _)) _ _
  | .mk _ (.spread (.call _ _)) _ _ | .mk _ (.spread (.access _ _)) _ _
  | .mk _ (.spread (.dot _ _)) _ _ | .mk _ (.spread (.bin _ _ _)) _ _
  | .mk _ (.spread (.un _ _)) _ _ | .mk _ (.spread (.fact _)) _ _ => rfl
end

mutual
theorem canonF_layout : ∀ t : Expr, (canonF t).LayoutOk
  | .lambda args body => ⟨headF_ok args, rfl, wrap_layout (canonF_layout body)⟩
  | .call f args => mkCall_layout (wrap_layout (canonF_layout f)) (canonFArgs_layout args)
  | .list items => mkList_layout (canonFItems_layout items)
  | .record es => mkRecord_layout (canonFEntries_layout es)
  | .spread e => canon_layout e
  | .assign _ v => ⟨rfl, rfl, canonF_layout v⟩
  | .bin .. | .un .. | .fact .. | .access .. | .dot .. | .cond .. | .ident _ | .builtin _ | .bool _
  | .null | .num _ | .str _ | .inref _ | .doBlock .. | .output _ => by
    simp only [canonF]; exact canon_layout _
theorem canonFArgs_layout : ∀ (args : List Expr), ∀ q ∈ canonFArgs args, q.2.LayoutOk
  | [] => by intro q hq; cases hq
  | a :: rest => by
    intro q hq
    simp only [canonFArgs, List.mem_cons] at hq
    rcases hq with rfl | hq
    · exact canonF_layout a
    · exact canonFArgs_layout rest q hq
theorem canonFItems_layout : ∀ (items : List Item), ∀ q ∈ canonFItems items, q.2.LayoutOk
  | [] => by intro q hq; cases hq
  | (.mk lead e tr) :: rest => by
    intro q hq
    simp only [canonFItems, List.mem_cons] at hq
    rcases hq with rfl | hq
    · exact canonF_layout e
    · exact canonFItems_layout rest q hq
theorem canonFEntries_layout : ∀ (es : List Entry), ∀ q ∈ canonFEntries es, CST.EntLayoutOk q
  | [] => by intro q hq; cases hq
  | e :: rest => by
    intro q hq
    simp only [canonFEntries, List.mem_cons] at hq
    rcases hq with rfl | hq
    · exact canonFEnt_layout e
    · exact canonFEntries_layout rest q hq
theorem canonFEnt_layout : ∀ (en : Entry), CST.EntLayoutOk (canonFEnt en)
  | .mk lead (.static k) v tr => by
    simp only [canonFEnt]
    split
    · rename_i hc
      simp only [Bool.and_eq_true] at hc
      exact keyEnt_layout hc.2 (canonF_layout v)
    · trivial
  | .mk lead (.dyn ke) v tr => by
    simp only [canonFEnt]
    split
    · exact ⟨⟨rfl, rfl, rfl⟩, canonF_layout ke, canonF_layout v⟩
    · trivial
  | .mk lead (.short n) v tr => by
    simp only [canonFEnt]
    split <;> trivial
  | .mk lead (.spread (.spread e)) v tr => by
    simp only [canonFEnt]
    split
    · exact canon_layout e
    · trivial
  | .mk _ (.spread (.num _)) _ _ | .mk _ (.spread (.str _)) _ _
  | .mk _ (.spread (.bool _)) _ _ | .mk _ (.spread .null) _ _
  | .mk _ (.spread (.ident _)) _ _ | .mk _ (.spread (.inref _)) _ _
  | .mk _ (.spread (.builtin _)) _ _ | .mk _ (.spread (.list _)) _ _
  | .mk _ (.spread (.record _)) _ _ | .mk _ (.spread (.lambda _ _)) _ _
  | .mk _ (.spread (.cond _ _ _)) _ _ | .mk _ (.spread (.doBlock _ _)) _ _
  | .mk _ (.spread (.assign _ _)) _ _ | .mk _ (.spread (.output _)) _ _
  | .mk _ (.spread (.call _ _)) _ _ | .mk _ (.spread (.access _ _)) _ _
  | .mk _ (.spread (.dot _ _)) _ _ | .mk _ (.spread (.bin _ _ _)) _ _
  | .mk _ (.spread (.un _ _)) _ _ | .mk _ (.spread (.fact _)) _ _ => trivial
end

theorem canonF_relayout (t : Expr) : Relayout t (canonF t) := ⟨canonF_normalize t, canonF_layout t⟩

/-- the arguments of `format_call_multiline`: each on its own line -/
def mkArgsML (indent : Nat) : Bool × CST → List (Bool × CST) → Args
  | p, [] => .last p.1 p.2
  | p, q :: rest => .cons p.1 p.2 [] (breakLay indent) (mkArgsML indent q rest)

/-- `format_call_multiline`: `f()` or `f(⏎ a,⏎ b,⏎)` -/
def mkCallML (indent : Nat) (f : CST) : List (Bool × CST) → CST
  | [] => .call0 f []
  | p :: rest =>
    .call f (breakLay indent) (mkArgsML indent p rest)
      (.comma [] (.lf :: List.replicate indent .sp))

/-- `format_list_multiline` (no comments): `[]` or `[⏎ a,⏎ b,⏎]` -/
def mkListML (indent : Nat) : List (Bool × CST) → CST
  | [] => .list0 []
  | p :: rest =>
    .list (breakLay indent) (mkArgsML indent p rest) (.comma [] (.lf :: List.replicate indent .sp))

/-- a line feed and `indent` blanks: in front of `then` / `else` of a multi-line conditional -/
def nlLay (indent : Nat) : Lay := .lf :: List.replicate indent .sp

/-- the entries of `format_record_multiline`: each on its own line -/
def mkEntsML (indent : Nat) : Ent → List Ent → Ents
  | e, [] => .last e
  | e, q :: rest => .cons e [] (breakLay indent) (mkEntsML indent q rest)

/-- `format_record_multiline` (no comments): `{}` or `{⏎ a: 1,⏎ b,⏎}` -/
def mkRecordML (indent : Nat) : List Ent → CST
  | [] => .rec0 []
  | e :: rest =>
    .record (breakLay indent) (mkEntsML indent e rest) (.comma [] (.lf :: List.replicate indent .sp))

/-- `format_conditional_multiline`: `if c then⏎ t⏎ else…` when `if c then` fits on the line,
    else `if c⏎ then⏎ t⏎ else…` with the condition one level deeper; `l4` / `eC` = what
    `else` is followed by (a blank and the chained conditional, or a line break and the
    else-expression one level deeper) -/
def condCST (indent : Nat) (head : Bool) (cC cIn tIn : CST) (l4 : Lay) (eC : CST) : CST :=
  if head then .cond [.sp] cC [.sp] (breakLay indent) tIn (nlLay indent) l4 eC
  else .cond [.sp] cIn (nlLay indent) (breakLay indent) tIn (nlLay indent) l4 eC

/-- the test of `binLayout` for `via` / `into` / `where` with a lambda on the right: the left
    operand, the operator and the FIRST LINE of the lambda fit on the line -/
def chainFits (w indent : Nat) (op : BinOp) (l r : Expr) : Bool :=
  decide (indent + blen (render (parenP (needsParens l (.binLeft op)) (fmtImplP w indent l)) ++ " " ++
    fmtSpelling op ++ " " ++
    firstLine (render (parenP (needsParens r (.binRight op)) (fmtImplP w indent r)))) ≤ w)

/-- the test of `format_lambda`: head, `=>` and the body formatted at the same indent are one
    line that fits -/
def lamFits (w indent : Nat) (args : List LArg) (body : Expr) : Bool :=
  !hasNewline (lambdaArgsPart args ++ " =>" ++ " " ++ render (fmtImplP w indent body)) &&
    decide (indent + blen (lambdaArgsPart args ++ " =>" ++ " " ++ render (fmtImplP w indent body)) ≤ w)

/-- `via` / `into` / `where` -/
def chainOp (op : BinOp) : Bool := op == .via || op == .into || op == .where_

/-- a do-block: `format_lambda` always keeps `do {` on the line of `=>` -/
def isDoBlock : Expr → Bool
  | .doBlock _ _ => true
  | _ => false

/-- the test of `condLayout`: `if c then` fits on the line -/
def condHeadFits (w indent : Nat) (c : Expr) : Bool :=
  decide (indent + blen ("if " ++ fmtImpl w indent c ++ " then") ≤ w)

mutual
/-- the concrete syntax tree `format_expr_impl` writes for a tree of the fragment -/
def fmtCST (w indent : Nat) : Expr → CST
  | .bin op l r =>
    if fits w indent (.bin op l r) then canonF (.bin op l r)
    else if chainOp op && isLambda r then
      .bin op (wrap (needsParens l (.binLeft op)) (fmtCST w indent l))
        (if chainFits w indent op l r then [.sp] else nlLay indent) [.sp]
        (wrap (needsParens r (.binRight op)) (fmtCST w indent r))
    else
      .bin op (wrap (needsParens l (.binLeft op)) (fmtCST w indent l)) (breakLay indent) [.sp]
        (wrap (needsParens r (.binRight op)) (fmtCST w (indent + INDENT_SIZE) r))
  | .un op e =>
    if fits w indent (.un op e) then canonF (.un op e)
    else .un op (wrap (needsParens e .prefix_) (fmtCST w indent e))
  | .fact e =>
    if fits w indent (.fact e) then canonF (.fact e)
    else .fact (wrap (needsParens e .postfix_) (fmtCST w indent e))
  | .call f args =>
    if fits w indent (.call f args) then canonF (.call f args)
    else
      mkCallML indent (wrap (needsParens f .postfix_) (fmtCST w indent f))
        (fmtArgsCST w (indent + INDENT_SIZE) args)
  | .access e i =>
    if fits w indent (.access e i) then canonF (.access e i)
    else .access (wrap (needsParens e .postfix_) (fmtCST w indent e)) [] (fmtCST w indent i) []
  | .dot e n =>
    if fits w indent (.dot e n) then canonF (.dot e n)
    else .dot (wrap (needsParens e .postfix_) (fmtCST w indent e)) n
  | .list items =>
    if fits w indent (.list items) then canonF (.list items)
    else mkListML indent (fmtItemsCST w (indent + INDENT_SIZE) items)
  | .cond c t e =>
    if fits w indent (.cond c t e) then canonF (.cond c t e)
    else
      condCST indent (condHeadFits w indent c) (fmtCST w indent c)
        (fmtCST w (indent + INDENT_SIZE) c) (fmtCST w (indent + INDENT_SIZE) t)
        (match fmtChainCST w indent e with | some _ => [.sp] | none => breakLay indent)
        (match fmtChainCST w indent e with
         | some x => x
         | none => fmtCST w (indent + INDENT_SIZE) e)
  /- only reached from `fmtArgsCST`: the operand of a spread argument -/
  | .spread e => if fits w indent (.spread e) then canon e else fmtCST w indent e
  | .lambda args body =>
    if lambdaBodyNeedsParens body then
      .lambda (headF args) [.sp] [.sp] (.paren [] (fmtCST w indent body) [])
    else if isDoBlock body || lamFits w indent args body then
      .lambda (headF args) [.sp] [.sp] (fmtCST w indent body)
    else .lambda (headF args) [.sp] (breakLay indent) (fmtCST w (indent + INDENT_SIZE) body)
  | .ident n => canon (.ident n)
  | .builtin n => canon (.builtin n)
  | .bool b => canon (.bool b)
  | .null => canon .null
  | .num x => canon (.num x)
  | .str s => canon (.str s)
  | .record es =>
    if fits w indent (.record es) then canonF (.record es)
    else mkRecordML indent (fmtEntsCST w (indent + INDENT_SIZE) es)
  | .doBlock ss (.mk _ e _) =>
    .doB [.sp] (breakLay indent) (fmtStmtsCST w indent ss) [.sp] (fmtCST w (indent + INDENT_SIZE) e)
      (nlLay indent)
  | .assign n v =>
    if fits w indent (.assign n v) then canonF (.assign n v)
    else .asg n [.sp] [.sp] (fmtCST w indent v)
  | e => canon e
def fmtArgsCST (w inner : Nat) : List Expr → List (Bool × CST)
  | [] => []
  | a :: rest => (isSpread a, fmtCST w inner a) :: fmtArgsCST w inner rest
def fmtItemsCST (w inner : Nat) : List Item → List (Bool × CST)
  | [] => []
  | (.mk _ e _) :: rest => (isSpread e, fmtCST w inner e) :: fmtItemsCST w inner rest
/-- `format_do_block_multiline`: every statement on its own line one level deeper, protected as
    `protect_statement_start` does -/
def fmtStmtsCST (w indent : Nat) : List Item → Stmts
  | [] => .nil
  | (.mk _ e _) :: rest =>
    .cons (protC (fmtCST w (indent + INDENT_SIZE) e)) (.line (breakLay indent)) (fmtStmtsCST w indent rest)
def fmtEntsCST (w inner : Nat) : List Entry → List Ent
  | [] => []
  | e :: rest => fmtEntCST w inner e :: fmtEntsCST w inner rest
/-- `format_record_entry`: the key as the printer writes it, the value (and a computed key)
    formatted at the entry's indent -/
def fmtEntCST (w inner : Nat) : Entry → Ent
  | .mk lead (.static k) v tr =>
    if entPlain lead tr && (isValidIdentifier k || !bothQuotes k) then keyEnt k (fmtCST w inner v)
    else .raw (.mk lead (.static k) v tr)
  | .mk lead (.dyn ke) v tr =>
    if entPlain lead tr then .pairDyn [] (fmtCST w inner ke) [] [] [.sp] (fmtCST w inner v)
    else .raw (.mk lead (.dyn ke) v tr)
  | .mk lead (.short n) v tr =>
    if entPlain lead tr && isNullE v then .short n else .raw (.mk lead (.short n) v tr)
  | .mk lead (.spread (.spread e)) v tr =>
    if entPlain lead tr && isNullE v then .spread (fmtCST w inner (.spread e))
    else .raw (.mk lead (.spread (.spread e)) v tr)
  | .mk lead (.spread e) v tr => .raw (.mk lead (.spread e) v tr)
/-- the `else if …` chain: the multi-line layout of an else-expression that is itself a
    conditional, at the same indent and without the single-line test (`fmtChainP`) -/
def fmtChainCST (w indent : Nat) : Expr → Option CST
  | .cond c t e =>
    some (condCST indent (condHeadFits w indent c) (fmtCST w indent c)
      (fmtCST w (indent + INDENT_SIZE) c) (fmtCST w (indent + INDENT_SIZE) t)
      (match fmtChainCST w indent e with | some _ => [.sp] | none => breakLay indent)
      (match fmtChainCST w indent e with
       | some x => x
       | none => fmtCST w (indent + INDENT_SIZE) e))
  | _ => none
end

/-! ### fragment trees: no comments, no lambda; single-line text = `expr_to_source` -/

theorem frag_bin {op : BinOp} {l r : Expr} (h : Frag (.bin op l r)) : Frag l ∧ Frag r := by
  simpa [Frag, frag_bin_iff] using h

theorem frag_un {op : UnOp} {e : Expr} (h : Frag (.un op e)) : op ≠ .invert ∧ Frag e := by
  simpa [Frag, frag_un_iff] using h

theorem frag_fact {e : Expr} (h : Frag (.fact e)) : Frag e := by
  simpa [Frag, frag_fact_iff] using h

theorem frag_call {f : Expr} {args : List Expr} (h : Frag (.call f args)) :
    Frag f ∧ fragArgs args = true := by
  simpa [Frag, frag_call_iff] using h

theorem frag_access {e i : Expr} (h : Frag (.access e i)) : Frag e ∧ Frag i := by
  simpa [Frag, frag_access_iff] using h

theorem frag_list {items : List Item} (h : Frag (.list items)) : fragItems items = true := by
  simpa [Frag, frag_list_iff] using h

theorem frag_dot {e : Expr} {n : String} (h : Frag (.dot e n)) : Frag e ∧ CST.fieldOk n = true := by
  simpa [Frag, frag_dot_iff] using h

mutual
theorem fragB_noComments : ∀ (sp : Bool) (t : Expr), fragB sp t = true → containsComments t = false
  | _, .bin op l r, h => by
    simp only [fragB, Bool.and_eq_true] at h
    simp [containsComments, fragB_noComments false l h.1, fragB_noComments false r h.2]
  | _, .un op e, h => by
    simp only [fragB, Bool.and_eq_true] at h
    simp [containsComments, fragB_noComments false e h.2]
  | _, .fact e, h => by
    simp only [fragB] at h
    simp [containsComments, fragB_noComments false e h]
  | _, .call f args, h => by
    simp only [fragB, Bool.and_eq_true] at h
    simp [containsComments, fragB_noComments false f h.1, fragArgs_noComments args h.2]
  | _, .access e i, h => by
    simp only [fragB, Bool.and_eq_true] at h
    simp [containsComments, fragB_noComments false e h.1, fragB_noComments false i h.2]
  | _, .dot e n, h => by
    simp only [fragB, Bool.and_eq_true] at h
    simp [containsComments, fragB_noComments false e h.1]
  | _, .spread e, h => by
    simp only [fragB, Bool.and_eq_true] at h
    simp [containsComments, fragB_noComments false e h.2]
  | _, .list items, h => by
    simp only [fragB] at h
    simp [containsComments, fragItems_noComments items h]
  | _, .cond c t e, h => by
    simp only [fragB, Bool.and_eq_true] at h
    simp [containsComments, fragB_noComments false c h.1.1, fragB_noComments false t h.1.2,
      fragB_noComments false e h.2]
  | _, .ident _, _ | _, .builtin _, _ | _, .bool _, _ | _, .null, _ | _, .num _, _
  | _, .str _, _ => by
    simp [containsComments]
  | _, .lambda args body, h => by
    simp only [fragB, Bool.and_eq_true] at h
    simp [containsComments, fragB_noComments false body h.2]
  | _, .record es, h => by
    simp only [fragB] at h
    simp [containsComments, fragEntries_noComments es h]
  | _, .doBlock ss (.mk lead e tr), h => by
    simp only [fragB, fragRet, Bool.and_eq_true] at h
    simp [containsComments, itemContainsComments, fragStmts_noComments ss h.1,
      fragB_noComments false e h.2.2]
  | _, .assign n v, h => by
    simp only [fragB, Bool.and_eq_true] at h
    simp [containsComments, fragB_noComments false v h.2]
  | _, .inref _, h | _, .output _, h => by
    simp [fragB] at h
theorem fragArgs_noComments : ∀ args : List Expr, fragArgs args = true →
    exprsContainComments args = false
  | [], _ => rfl
  | a :: rest, h => by
    simp only [fragArgs, Bool.and_eq_true] at h
    simp [exprsContainComments, fragB_noComments true a h.1, fragArgs_noComments rest h.2]
theorem fragItems_noComments : ∀ items : List Item, fragItems items = true →
    itemsHaveComments items = false
  | [], _ => rfl
  | (.mk lead e tr) :: rest, h => by
    simp only [fragItems, Bool.and_eq_true, List.isEmpty_iff, Option.isNone_iff_eq_none] at h
    obtain ⟨⟨⟨rfl, rfl⟩, he⟩, hr⟩ := h
    simp [itemsHaveComments, itemHasOrContains, fragB_noComments true e he,
      fragItems_noComments rest hr]
theorem fragStmts_noComments : ∀ ss : List Item, fragStmts ss = true →
    stmtsContainComments ss = false
  | [], _ => rfl
  | (.mk lead e tr) :: rest, h => by
    simp only [fragStmts, Bool.and_eq_true] at h
    simp [stmtsContainComments, itemContainsComments, fragB_noComments false e h.1.2.1,
      fragStmts_noComments rest h.2]
theorem fragEntries_noComments : ∀ es : List Entry, fragEntries es = true →
    entriesHaveComments es = false
  | [], _ => rfl
  | e :: rest, h => by
    simp only [fragEntries, Bool.and_eq_true] at h
    simp [entriesHaveComments, fragEntry_noComments e h.1, fragEntries_noComments rest h.2]
theorem fragEntry_noComments : ∀ en : Entry, fragEntry en = true → entryHasOrContains en = false
  | .mk lead (.static k) v tr, h => by
    simp only [fragEntry, Bool.and_eq_true] at h
    obtain ⟨⟨hp, _⟩, hv⟩ := h
    obtain ⟨rfl, rfl⟩ := entPlain_eq hp
    simp [entryHasOrContains, keyContains, fragB_noComments false v hv]
  | .mk lead (.dyn ke) v tr, h => by
    simp only [fragEntry, Bool.and_eq_true] at h
    obtain ⟨⟨hp, hk⟩, hv⟩ := h
    obtain ⟨rfl, rfl⟩ := entPlain_eq hp
    simp [entryHasOrContains, keyContains, fragB_noComments false v hv, fragB_noComments false ke hk]
  | .mk lead (.short n) v tr, h => by
    simp only [fragEntry, Bool.and_eq_true] at h
    obtain ⟨⟨hp, _⟩, _⟩ := h
    obtain ⟨rfl, rfl⟩ := entPlain_eq hp
    simp [entryHasOrContains, keyContains]
  | .mk lead (.spread (.spread e)) v tr, h => by
    simp only [fragEntry, Bool.and_eq_true] at h
    obtain ⟨⟨hp, _⟩, he⟩ := h
    obtain ⟨rfl, rfl⟩ := entPlain_eq hp
    simp [entryHasOrContains, keyContains, containsComments, fragB_noComments false e he]
  | .mk _ (.spread (.num _)) _ _, h | .mk _ (.spread (.str _)) _ _, h
  | .mk _ (.spread (.bool _)) _ _, h | .mk _ (.spread .null) _ _, h
  | .mk _ (.spread (.ident _)) _ _, h | .mk _ (.spread (.inref _)) _ _, h
  | .mk _ (.spread (.builtin _)) _ _, h | .mk _ (.spread (.list _)) _ _, h
  | .mk _ (.spread (.record _)) _ _, h | .mk _ (.spread (.lambda _ _)) _ _, h
  | .mk _ (.spread (.cond _ _ _)) _ _, h | .mk _ (.spread (.doBlock _ _)) _ _, h
  | .mk _ (.spread (.assign _ _)) _ _, h | .mk _ (.spread (.output _)) _ _, h
  | .mk _ (.spread (.call _ _)) _ _, h | .mk _ (.spread (.access _ _)) _ _, h
  | .mk _ (.spread (.dot _ _)) _ _, h | .mk _ (.spread (.bin _ _ _)) _ _, h
  | .mk _ (.spread (.un _ _)) _ _, h | .mk _ (.spread (.fact _)) _ _, h => by
    simp [fragEntry] at h
end

theorem fragEntry_plain : ∀ en : Entry, fragEntry en = true → en.hasComments = false
  | .mk lead (.static k) v tr, h => by
    simp only [fragEntry, Bool.and_eq_true] at h
    obtain ⟨rfl, rfl⟩ := entPlain_eq h.1.1
    rfl
  | .mk lead (.dyn ke) v tr, h => by
    simp only [fragEntry, Bool.and_eq_true] at h
    obtain ⟨rfl, rfl⟩ := entPlain_eq h.1.1
    rfl
  | .mk lead (.short n) v tr, h => by
    simp only [fragEntry, Bool.and_eq_true] at h
    obtain ⟨rfl, rfl⟩ := entPlain_eq h.1.1
    rfl
  | .mk lead (.spread (.spread e)) v tr, h => by
    simp only [fragEntry, Bool.and_eq_true] at h
    obtain ⟨rfl, rfl⟩ := entPlain_eq h.1.1
    rfl
  | .mk _ (.spread (.num _)) _ _, h | .mk _ (.spread (.str _)) _ _, h
  | .mk _ (.spread (.bool _)) _ _, h | .mk _ (.spread .null) _ _, h
  | .mk _ (.spread (.ident _)) _ _, h | .mk _ (.spread (.inref _)) _ _, h
  | .mk _ (.spread (.builtin _)) _ _, h | .mk _ (.spread (.list _)) _ _, h
  | .mk _ (.spread (.record _)) _ _, h | .mk _ (.spread (.lambda _ _)) _ _, h
  | .mk _ (.spread (.cond _ _ _)) _ _, h | .mk _ (.spread (.doBlock _ _)) _ _, h
  | .mk _ (.spread (.assign _ _)) _ _, h | .mk _ (.spread (.output _)) _ _, h
  | .mk _ (.spread (.call _ _)) _ _, h | .mk _ (.spread (.access _ _)) _ _, h
  | .mk _ (.spread (.dot _ _)) _ _, h | .mk _ (.spread (.bin _ _ _)) _ _, h
  | .mk _ (.spread (.un _ _)) _ _, h | .mk _ (.spread (.fact _)) _ _, h => by
    simp [fragEntry] at h

theorem fragEntries_any : ∀ es : List Entry, fragEntries es = true →
    es.any Entry.hasComments = false
  | [], _ => rfl
  | e :: rest, h => by
    simp only [fragEntries, Bool.and_eq_true] at h
    simp [fragEntry_plain e h.1, fragEntries_any rest h.2]

theorem fragItems_any : ∀ items : List Item, fragItems items = true →
    items.any Item.hasComments = false
  | [], _ => rfl
  | (.mk lead e tr) :: rest, h => by
    simp only [fragItems, Bool.and_eq_true, List.isEmpty_iff, Option.isNone_iff_eq_none] at h
    obtain ⟨⟨⟨rfl, rfl⟩, _⟩, hr⟩ := h
    simp [Item.hasComments, Item.leading, Item.trailing, fragItems_any rest hr]

theorem frag_noComments (t : Expr) (h : Frag t) : containsComments t = false :=
  fragB_noComments false t h

theorem frag_record {es : List Entry} (h : Frag (.record es)) : fragEntries es = true := by
  simpa [Frag, frag_record_iff] using h

theorem frag_lambda {args : List LArg} {body : Expr} (h : Frag (.lambda args body)) :
    (args.all fun a => nameOk a.name) = true ∧ Frag body := by
  simpa [Frag, frag_lambda_iff] using h

theorem isSpread_of_frag {t : Expr} (h : Frag t) : isSpread t = false := by
  cases t <;> first | rfl | simp [Frag, frag, fragB] at h

mutual
/-- the text of `canonF` is `format_single_line` (an argument `...e` with its `...`) -/
theorem canonF_text : ∀ (sp : Bool) (t : Expr), fragB sp t = true →
    spreadChars (isSpread t) ++ (canonF t).text = (fmtSingle t).toList
  | _, .lambda args body, h => by
    simp only [fragB, Bool.and_eq_true] at h
    have hb := canonF_text false body h.2
    simp only [isSpread_of_frag h.2, spreadChars, Bool.false_eq_true, if_false, List.nil_append] at hb
    simp only [isSpread, spreadChars, Bool.false_eq_true, if_false, List.nil_append, canonF,
      CST.text, headF_text, wrap_text, hb, fmtSingle, layChars, LayAtom.chars]
    split <;> simp [String.toList_append]
  | _, .call f args, h => by
    simp only [fragB, Bool.and_eq_true] at h
    have hf := canonF_text false f h.1
    simp only [isSpread_of_frag h.1, spreadChars, Bool.false_eq_true, if_false, List.nil_append] at hf
    have ha := canonFArgs_text args h.2
    simp only [isSpread, spreadChars, Bool.false_eq_true, if_false, List.nil_append, canonF,
      mkCall_text, wrap_text, hf, ha, fmtSingle, String.toList_append, parenIf_toList,
      String.toList_intercalate, commaSp, List.append_assoc]
    rfl
  | _, .list items, h => by
    simp only [fragB] at h
    have ha := canonFItems_text items h
    have hany : items.any Item.hasComments = false := fragItems_any items h
    simp only [isSpread, spreadChars, Bool.false_eq_true, if_false, List.nil_append, canonF,
      mkList_text, ha, fmtSingle, hany, String.toList_append, String.toList_intercalate, commaSp,
      List.append_assoc]
    rfl
  | sp, .spread e, h => by
    have hc := fragB_noComments sp _ h
    simp only [fragB, Bool.and_eq_true] at h
    have hs : fmtSingle (.spread e) = exprToSource (.spread e) := by simp [fmtSingle, hc]
    simp only [isSpread, spreadChars, if_true, canonF, hs, canon_text_frag e h.2, spreadLit_eq]
    simp [exprToSource, exprSrc]
  | sp, .bin op l r, h => by
    have hs : fmtSingle (.bin op l r) = exprToSource (.bin op l r) := by
      simp [fmtSingle, fragB_noComments sp _ h]
    have hh : Frag (.bin op l r) := by simpa [Frag, frag, fragB] using h
    simp only [isSpread, spreadChars, Bool.false_eq_true, if_false, List.nil_append, canonF, hs]
    exact canon_text_frag _ hh
  | sp, .un op e, h => by
    have hs : fmtSingle (.un op e) = exprToSource (.un op e) := by
      simp [fmtSingle, fragB_noComments sp _ h]
    have hh : Frag (.un op e) := by simpa [Frag, frag, fragB] using h
    simp only [isSpread, spreadChars, Bool.false_eq_true, if_false, List.nil_append, canonF, hs]
    exact canon_text_frag _ hh
  | sp, .fact e, h => by
    have hs : fmtSingle (.fact e) = exprToSource (.fact e) := by
      simp [fmtSingle, fragB_noComments sp _ h]
    have hh : Frag (.fact e) := by simpa [Frag, frag, fragB] using h
    simp only [isSpread, spreadChars, Bool.false_eq_true, if_false, List.nil_append, canonF, hs]
    exact canon_text_frag _ hh
  | sp, .access e i, h => by
    have hs : fmtSingle (.access e i) = exprToSource (.access e i) := by
      simp [fmtSingle, fragB_noComments sp _ h]
    have hh : Frag (.access e i) := by simpa [Frag, frag, fragB] using h
    simp only [isSpread, spreadChars, Bool.false_eq_true, if_false, List.nil_append, canonF, hs]
    exact canon_text_frag _ hh
  | sp, .dot e n, h => by
    have hs : fmtSingle (.dot e n) = exprToSource (.dot e n) := by
      simp [fmtSingle, fragB_noComments sp _ h]
    have hh : Frag (.dot e n) := by simpa [Frag, frag, fragB] using h
    simp only [isSpread, spreadChars, Bool.false_eq_true, if_false, List.nil_append, canonF, hs]
    exact canon_text_frag _ hh
  | sp, .cond c t e, h => by
    have hs : fmtSingle (.cond c t e) = exprToSource (.cond c t e) := by
      simp [fmtSingle, fragB_noComments sp _ h]
    have hh : Frag (.cond c t e) := by simpa [Frag, frag, fragB] using h
    simp only [isSpread, spreadChars, Bool.false_eq_true, if_false, List.nil_append, canonF, hs]
    exact canon_text_frag _ hh
  | _, .ident n, h => by
    have hh : Frag (.ident n) := by simpa [Frag, frag, fragB] using h
    simp only [isSpread, spreadChars, Bool.false_eq_true, if_false, List.nil_append, canonF]
    rw [canon_text_frag _ hh]; simp [fmtSingle, containsComments]
  | _, .builtin n, h => by
    have hh : Frag (.builtin n) := by simpa [Frag, frag, fragB] using h
    simp only [isSpread, spreadChars, Bool.false_eq_true, if_false, List.nil_append, canonF]
    rw [canon_text_frag _ hh]; simp [fmtSingle, containsComments]
  | _, .bool b, h => by
    have hh : Frag (.bool b) := by simpa [Frag, frag, fragB] using h
    simp only [isSpread, spreadChars, Bool.false_eq_true, if_false, List.nil_append, canonF]
    rw [canon_text_frag _ hh]; simp [fmtSingle, containsComments]
  | _, .null, h => by
    have hh : Frag .null := by simpa [Frag, frag, fragB] using h
    simp only [isSpread, spreadChars, Bool.false_eq_true, if_false, List.nil_append, canonF]
    rw [canon_text_frag _ hh]; simp [fmtSingle, containsComments]
  | _, .num x, h => by
    have hh : Frag (.num x) := by simpa [Frag, frag, fragB] using h
    simp only [isSpread, spreadChars, Bool.false_eq_true, if_false, List.nil_append, canonF]
    rw [canon_text_frag _ hh]; simp [fmtSingle, containsComments]
  | _, .str x, h => by
    have hh : Frag (.str x) := by simpa [Frag, frag, fragB] using h
    simp only [isSpread, spreadChars, Bool.false_eq_true, if_false, List.nil_append, canonF]
    rw [canon_text_frag _ hh]; simp [fmtSingle, containsComments]
  | _, .record es, h => by
    simp only [fragB] at h
    have ha := canonFEntries_text es h
    have hany : es.any Entry.hasComments = false := fragEntries_any es h
    simp only [isSpread, spreadChars, Bool.false_eq_true, if_false, List.nil_append, canonF,
      mkRecord_text, ha, fmtSingle, hany, String.toList_append, String.toList_intercalate, commaSp,
      List.append_assoc]
    rfl
  | sp, .doBlock ss r, h => by
    have hs : fmtSingle (.doBlock ss r) = exprToSource (.doBlock ss r) := by
      simp [fmtSingle, fragB_noComments sp _ h]
    have hh : Frag (.doBlock ss r) := by
      cases r; simpa [Frag, frag, fragB] using h
    simp only [isSpread, spreadChars, Bool.false_eq_true, if_false, List.nil_append, canonF, hs]
    exact canon_text_frag _ hh
  | _, .assign n v, h => by
    simp only [fragB, Bool.and_eq_true] at h
    have hv := canonF_text false v h.2
    simp only [isSpread_of_frag h.2, spreadChars, Bool.false_eq_true, if_false, List.nil_append] at hv
    simp only [isSpread, spreadChars, Bool.false_eq_true, if_false, List.nil_append, canonF,
      CST.text, hv, fmtSingle, layChars, LayAtom.chars, String.toList_append, List.append_assoc,
      List.cons_append, List.nil_append]
    rfl
  | _, .inref _, h | _, .output _, h => by
    simp [fragB] at h
theorem canonFArgs_text : ∀ args : List Expr, fragArgs args = true →
    (canonFArgs args).map argS = (fmtSingleList args).map String.toList
  | [], _ => rfl
  | a :: rest, h => by
    simp only [fragArgs, Bool.and_eq_true] at h
    simp only [canonFArgs, fmtSingleList, List.map_cons, argS, canonF_text true a h.1,
      canonFArgs_text rest h.2]
theorem canonFItems_text : ∀ items : List Item, fragItems items = true →
    (canonFItems items).map argS = (fmtSingleItems items).map String.toList
  | [], _ => rfl
  | (.mk lead e tr) :: rest, h => by
    simp only [fragItems, Bool.and_eq_true] at h
    simp only [canonFItems, fmtSingleItems, fmtSingleItem, List.map_cons, argS,
      canonF_text true e h.1.2, canonFItems_text rest h.2]
theorem canonFEntries_text : ∀ es : List Entry, fragEntries es = true →
    (canonFEntries es).map CST.entText = (fmtSingleEntries es).map String.toList
  | [], _ => rfl
  | e :: rest, h => by
    simp only [fragEntries, Bool.and_eq_true] at h
    simp only [canonFEntries, fmtSingleEntries, List.map_cons, canonFEnt_text e h.1,
      canonFEntries_text rest h.2]
theorem canonFEnt_text : ∀ en : Entry, fragEntry en = true →
    CST.entText (canonFEnt en) = (fmtSingleEntry en).toList
  | .mk lead (.static k) v tr, h => by
    simp only [fragEntry, Bool.and_eq_true] at h
    obtain ⟨⟨hp, hk⟩, hv⟩ := h
    have hvt := canonF_text false v hv
    simp only [isSpread_of_frag hv, spreadChars, Bool.false_eq_true, if_false, List.nil_append] at hvt
    have hcs : ": ".toList = [':', ' '] := rfl
    simp only [canonFEnt, hp, hk, Bool.and_self, if_true, keyEnt_text hk, hvt, fmtSingleEntry,
      fmtSingleKeyed, String.toList_append, hcs, List.append_assoc, List.cons_append,
      List.nil_append]
  | .mk lead (.dyn ke) v tr, h => by
    simp only [fragEntry, Bool.and_eq_true] at h
    obtain ⟨⟨hp, hk⟩, hv⟩ := h
    have hvt := canonF_text false v hv
    have hkt := canonF_text false ke hk
    simp only [isSpread_of_frag hv, isSpread_of_frag hk, spreadChars, Bool.false_eq_true, if_false,
      List.nil_append] at hvt hkt
    simp only [canonFEnt, hp, if_true, CST.entText, hvt, hkt, fmtSingleEntry, fmtSingleKeyed,
      String.toList_append, layChars, LayAtom.chars, List.nil_append, List.append_assoc,
      List.cons_append]
    rfl
  | .mk lead (.short n) v tr, h => by
    simp only [fragEntry, Bool.and_eq_true] at h
    obtain ⟨⟨hp, hn⟩, _⟩ := h
    simp only [canonFEnt, hp, hn, Bool.and_self, if_true, CST.entText, fmtSingleEntry,
      fmtSingleKeyed]
  | .mk lead (.spread (.spread e)) v tr, h => by
    simp only [fragEntry, Bool.and_eq_true] at h
    obtain ⟨⟨hp, hn⟩, he⟩ := h
    have hc : containsComments (.spread e) = false := by
      simp [containsComments, fragB_noComments false e he]
    have hs : fmtSingle (.spread e) = exprToSource (.spread e) := by simp [fmtSingle, hc]
    simp only [canonFEnt, hp, hn, Bool.and_self, if_true, CST.entText, fmtSingleEntry,
      fmtSingleKeyed, hs, canon_text_frag e he, spreadLit_eq]
    simp [exprToSource, exprSrc]
  | .mk _ (.spread (.num _)) _ _, h | .mk _ (.spread (.str _)) _ _, h
  | .mk _ (.spread (.bool _)) _ _, h | .mk _ (.spread .null) _ _, h
  | .mk _ (.spread (.ident _)) _ _, h | .mk _ (.spread (.inref _)) _ _, h
  | .mk _ (.spread (.builtin _)) _ _, h | .mk _ (.spread (.list _)) _ _, h
  | .mk _ (.spread (.record _)) _ _, h | .mk _ (.spread (.lambda _ _)) _ _, h
  | .mk _ (.spread (.cond _ _ _)) _ _, h | .mk _ (.spread (.doBlock _ _)) _ _, h
  | .mk _ (.spread (.assign _ _)) _ _, h | .mk _ (.spread (.output _)) _ _, h
  | .mk _ (.spread (.call _ _)) _ _, h | .mk _ (.spread (.access _ _)) _ _, h
  | .mk _ (.spread (.dot _ _)) _ _, h | .mk _ (.spread (.bin _ _ _)) _ _, h
  | .mk _ (.spread (.un _ _)) _ _, h | .mk _ (.spread (.fact _)) _ _, h => by
    simp [fragEntry] at h
end

theorem canonF_text_frag (t : Expr) (h : Frag t) : (canonF t).text = (fmtSingle t).toList := by
  have := canonF_text false t h
  simpa [isSpread_of_frag h, spreadChars] using this

/-- without lambdas `format_single_line` is `expr_to_source` -/
theorem fmtSingle_eq_canonF (t : Expr) (h : Frag t) : fmtSingle t = String.ofList (canonF t).text := by
  rw [canonF_text_frag t h, String.ofList_toList]

/-! ### rendering -/

theorem render_parenP (b : Bool) (ps : List Piece) : render (parenP b ps) = parenIf b (render ps) := by
  cases b
  · rfl
  · simp only [parenP, parenIf, if_true, render_text, render_append, render_nil,
      String.append_empty, String.append_assoc]

theorem fmtSpelling_eq (op : BinOp) : fmtSpelling op = opSpelling op := by
  cases op <;> decide

theorem makeIndent_toList (n : Nat) : (makeIndent n).toList = List.replicate n ' ' := by
  simp [makeIndent]

theorem layChars_replicate_sp (n : Nat) :
    layChars (List.replicate n LayAtom.sp) = List.replicate n ' ' := by
  induction n with
  | zero => rfl
  | succ k ih => simp [List.replicate_succ, layChars, LayAtom.chars, ih]

theorem layChars_breakLay (indent : Nat) :
    layChars (breakLay indent) = '\n' :: List.replicate (indent + INDENT_SIZE) ' ' := by
  simp [breakLay, layChars, LayAtom.chars, layChars_replicate_sp]

/-! ### the formatter's pieces on the fragment -/

theorem fmtImplP_bin (w indent : Nat) (op : BinOp) (l r : Expr) :
    fmtImplP w indent (.bin op l r) =
      if fits w indent (.bin op l r) then [.text (fmtSingle (.bin op l r))]
      else binLayout w indent op l r (fmtImplP w indent l) (fun _ => fmtImplP w indent r)
        (fun _ => fmtImplP w (indent + INDENT_SIZE) r) := by
  rw [fmtImplP]; rfl

theorem fmtImplP_un (w indent : Nat) (op : UnOp) (e : Expr) :
    fmtImplP w indent (.un op e) =
      if fits w indent (.un op e) then [.text (fmtSingle (.un op e))]
      else .text (unaryOpToSource op) :: parenP (needsParens e .prefix_) (fmtImplP w indent e) := by
  rw [fmtImplP]; rfl

theorem fmtImplP_assign (w indent : Nat) (n : String) (v : Expr) :
    fmtImplP w indent (.assign n v) =
      if fits w indent (.assign n v) then [.text (fmtSingle (.assign n v))]
      else .text (n ++ " = ") :: fmtImplP w indent v := by
  rw [fmtImplP]; rfl

theorem frag_assign {n : String} {v : Expr} (h : Frag (.assign n v)) : nameOk n = true ∧ Frag v := by
  simpa [Frag, frag_assign_iff] using h

theorem fmtImplP_fact (w indent : Nat) (e : Expr) :
    fmtImplP w indent (.fact e) =
      if fits w indent (.fact e) then [.text (fmtSingle (.fact e))]
      else parenP (needsParens e .postfix_) (fmtImplP w indent e) ++ [.text "!"] := by
  rw [fmtImplP]; rfl

theorem fmtImplP_call (w indent : Nat) (f : Expr) (args : List Expr) :
    fmtImplP w indent (.call f args) =
      if fits w indent (.call f args) then [.text (fmtSingle (.call f args))]
      else if args.isEmpty then
        parenP (needsParens f .postfix_) (fmtImplP w indent f) ++ [.text "()"]
      else parenP (needsParens f .postfix_) (fmtImplP w indent f) ++
        .text "(" :: (fmtArgsP w (indent + INDENT_SIZE) args ++
          [.text ("\n" ++ makeIndent indent ++ ")")]) := by
  rw [fmtImplP]; rfl

theorem fmtImplP_access (w indent : Nat) (e i : Expr) :
    fmtImplP w indent (.access e i) =
      if fits w indent (.access e i) then [.text (fmtSingle (.access e i))]
      else parenP (needsParens e .postfix_) (fmtImplP w indent e) ++
        .text "[" :: (fmtImplP w indent i ++ [.text "]"]) := by
  rw [fmtImplP]; rfl

theorem fmtImplP_dot (w indent : Nat) (e : Expr) (n : String) :
    fmtImplP w indent (.dot e n) =
      if fits w indent (.dot e n) then [.text (fmtSingle (.dot e n))]
      else parenP (needsParens e .postfix_) (fmtImplP w indent e) ++ [.text ("." ++ n)] := by
  rw [fmtImplP]; rfl

theorem fmtImplP_list (w indent : Nat) (items : List Item) :
    fmtImplP w indent (.list items) =
      if fits w indent (.list items) then [.text (fmtSingle (.list items))]
      else if items.isEmpty then [.text "[]"]
      else .text "[" :: (fmtItemsP w (indent + INDENT_SIZE) items ++
        [.text ("\n" ++ makeIndent indent ++ "]")]) := by
  rw [fmtImplP]; rfl

theorem fmtImplP_record (w indent : Nat) (es : List Entry) :
    fmtImplP w indent (.record es) =
      if fits w indent (.record es) then [.text (fmtSingle (.record es))]
      else if es.isEmpty then [.text "{}"]
      else .text "{" :: (fmtEntriesP w (indent + INDENT_SIZE) es ++
        [.text ("\n" ++ makeIndent indent ++ "}")]) := by
  rw [fmtImplP]; rfl

theorem fmtImplP_doBlock (w indent : Nat) (ss : List Item) (r : Item) :
    fmtImplP w indent (.doBlock ss r) =
      .text "do {" :: (fmtStmtsP w (indent + INDENT_SIZE) ss ++
        (fmtRetP w (indent + INDENT_SIZE) r ++ [.text ("\n" ++ makeIndent indent ++ "}")])) := by
  rw [fmtImplP]

theorem fmtImplP_cond (w indent : Nat) (c t e : Expr) :
    fmtImplP w indent (.cond c t e) =
      if fits w indent (.cond c t e) then [.text (fmtSingle (.cond c t e))]
      else condLayout w indent (fmtImplP w indent c) (fun _ => fmtImplP w (indent + INDENT_SIZE) c)
        (fmtImplP w (indent + INDENT_SIZE) t)
        (elseLayout indent (fmtChainP w indent e) (fun _ => fmtImplP w (indent + INDENT_SIZE) e)) := by
  rw [fmtImplP]; rfl

theorem fmtChainP_cond (w indent : Nat) (c t e : Expr) :
    fmtChainP w indent (.cond c t e) =
      some (condLayout w indent (fmtImplP w indent c) (fun _ => fmtImplP w (indent + INDENT_SIZE) c)
        (fmtImplP w (indent + INDENT_SIZE) t)
        (elseLayout indent (fmtChainP w indent e) (fun _ => fmtImplP w (indent + INDENT_SIZE) e))) := by
  rw [fmtChainP]

theorem fmtChain_none {w indent : Nat} {t : Expr} (h : fmtChainCST w indent t = none) :
    fmtChainP w indent t = none := by
  cases t <;> first | (simp [fmtChainCST] at h; done) | (simp [fmtChainP])

theorem fmtImplP_lambda (w indent : Nat) (args : List LArg) (body : Expr) :
    fmtImplP w indent (.lambda args body) =
      lambdaLayout w indent args body (fmtImplP w indent body)
        (fun _ => fmtImplP w (indent + INDENT_SIZE) body) := by
  rw [fmtImplP]

theorem fmtImplP_spread (w indent : Nat) (e : Expr) :
    fmtImplP w indent (.spread e) =
      if fits w indent (.spread e) then [.text (fmtSingle (.spread e))]
      else .text "..." :: fmtImplP w indent e := by
  rw [fmtImplP]; rfl

/-- a leaf is printed by `expr_to_source` on both branches -/
theorem fmtImpl_leaf (w indent : Nat) (e : Expr) (h : fmtSingle e = exprToSource e) :
    render (leafP w indent e) = exprToSource e := by
  unfold leafP orSingle
  simp only [h]
  split <;> exact render_single _

/-! ### `fmtCST` is a re-layout of the printer's tree -/

/-- a line break and blanks in front of the operator, one blank behind it: admissible for
    every operator, word or symbol -/
theorem layOk_break (op : BinOp) (indent : Nat) : CST.layOk op (breakLay indent) [.sp] = true := by
  cases h : isWordOp op <;> simp [CST.layOk, h, breakLay, wsOnly, LayAtom.isWs]

/-- one blank, or a line break and `indent` blanks, in front of the operator; one blank behind -/
theorem layOk_chain (op : BinOp) (w indent : Nat) (l r : Expr) :
    CST.layOk op (if chainFits w indent op l r then [.sp] else nlLay indent) [.sp] = true := by
  cases h : isWordOp op <;> cases chainFits w indent op l r <;>
    simp [CST.layOk, h, nlLay, wsOnly, LayAtom.isWs]

theorem mkArgsML_normalize (indent : Nat) : ∀ (ps : List (Bool × CST)) (p : Bool × CST),
    CST.normArgs (mkArgsML indent p ps) = mkArgs (normPair p) (ps.map normPair)
  | [], _ => rfl
  | q :: ps, _ => by
    simp only [mkArgsML, mkArgs, CST.normArgs, mkArgsML_normalize indent ps q, List.map_cons, normPair]

theorem mkCallML_normalize (indent : Nat) (f : CST) (ps : List (Bool × CST)) :
    (mkCallML indent f ps).normalize = mkCall f.normalize (ps.map normPair) := by
  cases ps with
  | nil => rfl
  | cons p ps => simp only [mkCallML, mkCall, CST.normalize, mkArgsML_normalize, List.map_cons]

theorem condCST_normalize (indent : Nat) (head : Bool) {cC cIn tIn eC : CST} (l4 : Lay) {X : CST}
    (h1 : cC.normalize = X) (h2 : cIn.normalize = X) :
    (condCST indent head cC cIn tIn l4 eC).normalize =
      .cond [.sp] X [.sp] [.sp] tIn.normalize [.sp] [.sp] eC.normalize := by
  cases head <;> simp [condCST, CST.normalize, h1, h2]

theorem mkListML_normalize (indent : Nat) (ps : List (Bool × CST)) :
    (mkListML indent ps).normalize = mkList (ps.map normPair) := by
  cases ps with
  | nil => rfl
  | cons p ps => simp only [mkListML, mkList, CST.normalize, mkArgsML_normalize, List.map_cons]

theorem mkEntsML_normalize (indent : Nat) : ∀ (es : List Ent) (e : Ent),
    CST.normEnts (mkEntsML indent e es) = mkEnts (CST.normEnt e) (es.map CST.normEnt)
  | [], _ => rfl
  | q :: es, _ => by
    simp only [mkEntsML, mkEnts, CST.normEnts, mkEntsML_normalize indent es q, List.map_cons]

theorem mkRecordML_normalize (indent : Nat) (es : List Ent) :
    (mkRecordML indent es).normalize = mkRecord (es.map CST.normEnt) := by
  cases es with
  | nil => rfl
  | cons e es => simp only [mkRecordML, mkRecord, CST.normalize, mkEntsML_normalize, List.map_cons]

mutual
theorem fmtCST_normalize : ∀ (t : Expr) (w indent : Nat), (fmtCST w indent t).normalize = canon t
  | .bin op l r, w, indent => by
    unfold fmtCST
    split
    · exact canonF_normalize _
    · split
      · simp only [CST.normalize, wrap_normalize', fmtCST_normalize l w indent,
          fmtCST_normalize r w indent, canon]
      · simp only [CST.normalize, wrap_normalize', fmtCST_normalize l w indent,
          fmtCST_normalize r w (indent + INDENT_SIZE), canon]
  | .un op e, w, indent => by
    unfold fmtCST
    split
    · exact canonF_normalize _
    · simp only [CST.normalize, wrap_normalize', fmtCST_normalize e w indent, canon]
  | .fact e, w, indent => by
    unfold fmtCST
    split
    · exact canonF_normalize _
    · simp only [CST.normalize, wrap_normalize', fmtCST_normalize e w indent, canon]
  | .call f args, w, indent => by
    unfold fmtCST
    split
    · exact canonF_normalize _
    · simp only [mkCallML_normalize, wrap_normalize', fmtCST_normalize f w indent,
        fmtArgsCST_normalize args w (indent + INDENT_SIZE), canon]
  | .access e i, w, indent => by
    unfold fmtCST
    split
    · exact canonF_normalize _
    · simp only [CST.normalize, wrap_normalize', fmtCST_normalize e w indent,
        fmtCST_normalize i w indent, canon]
  | .dot e n, w, indent => by
    unfold fmtCST
    split
    · exact canonF_normalize _
    · simp only [CST.normalize, wrap_normalize', fmtCST_normalize e w indent, canon]
  | .spread e, w, indent => by
    unfold fmtCST
    split
    · simp only [canon, canon_normalize e]
    · simp only [fmtCST_normalize e w indent, canon]
  | .list items, w, indent => by
    unfold fmtCST
    split
    · exact canonF_normalize _
    · simp only [mkListML_normalize, fmtItemsCST_normalize items w (indent + INDENT_SIZE), canon]
  | .cond c t e, w, indent => by
    unfold fmtCST
    split
    · exact canonF_normalize _
    · rw [condCST_normalize indent _ _ (fmtCST_normalize c w indent)
        (fmtCST_normalize c w (indent + INDENT_SIZE)), fmtCST_normalize t w (indent + INDENT_SIZE)]
      have he : (match fmtChainCST w indent e with
          | some x => x
          | none => fmtCST w (indent + INDENT_SIZE) e).normalize = canon e := by
        cases hch : fmtChainCST w indent e with
        | some x => exact fmtChainCST_normalize e w indent x hch
        | none => exact fmtCST_normalize e w (indent + INDENT_SIZE)
      rw [he]; rfl
  | .ident _, _, _ | .builtin _, _, _ | .bool _, _, _ | .null, _, _ | .num _, _, _ => rfl
  | .lambda args body, w, indent => by
    unfold fmtCST
    split
    · rename_i hb
      simp only [CST.normalize, headF_args, fmtCST_normalize body w indent, canon, hb, wrap, if_true]
    · rename_i hb
      split
      · simp only [CST.normalize, headF_args, fmtCST_normalize body w indent, canon, hb, wrap,
          Bool.false_eq_true, if_false]
      · simp only [CST.normalize, headF_args, fmtCST_normalize body w (indent + INDENT_SIZE),
          canon, hb, wrap, Bool.false_eq_true, if_false]
  | .str s, _, _ => by simp only [fmtCST]; exact canon_normalize _
  | .record es, w, indent => by
    unfold fmtCST
    split
    · exact canonF_normalize _
    · simp only [mkRecordML_normalize, fmtEntsCST_normalize es w (indent + INDENT_SIZE), canon]
  | .doBlock ss (.mk _ e _), w, indent => by
    simp only [fmtCST, CST.normalize, fmtStmtsCST_normalize ss w indent,
      fmtCST_normalize e w (indent + INDENT_SIZE), canon]
  | .assign n v, w, indent => by
    unfold fmtCST
    split
    · exact canonF_normalize _
    · simp only [CST.normalize, fmtCST_normalize v w indent, canon]
  | .inref _, _, _
  | .output _, _, _ => rfl
theorem fmtChainCST_normalize : ∀ (t : Expr) (w indent : Nat) (x : CST),
    fmtChainCST w indent t = some x → x.normalize = canon t
  | .cond c t e, w, indent, x, h => by
    simp only [fmtChainCST, Option.some.injEq] at h
    subst h
    rw [condCST_normalize indent _ _ (fmtCST_normalize c w indent)
      (fmtCST_normalize c w (indent + INDENT_SIZE)), fmtCST_normalize t w (indent + INDENT_SIZE)]
    have he : (match fmtChainCST w indent e with
        | some x => x
        | none => fmtCST w (indent + INDENT_SIZE) e).normalize = canon e := by
      cases hch : fmtChainCST w indent e with
      | some x => exact fmtChainCST_normalize e w indent x hch
      | none => exact fmtCST_normalize e w (indent + INDENT_SIZE)
    rw [he]; rfl
  | .bin .., _, _, _, h | .un .., _, _, _, h | .fact .., _, _, _, h | .call .., _, _, _, h
  | .access .., _, _, _, h | .dot .., _, _, _, h | .spread .., _, _, _, h | .list .., _, _, _, h
  | .ident _, _, _, _, h | .builtin _, _, _, _, h | .bool _, _, _, _, h | .null, _, _, _, h
  | .num _, _, _, _, h | .lambda .., _, _, _, h | .str _, _, _, _, h | .inref _, _, _, _, h
  | .record _, _, _, _, h | .doBlock .., _, _, _, h | .assign .., _, _, _, h
  | .output _, _, _, _, h => by simp [fmtChainCST] at h
theorem fmtArgsCST_normalize : ∀ (args : List Expr) (w inner : Nat),
    (fmtArgsCST w inner args).map normPair = canonArgs args
  | [], _, _ => rfl
  | a :: rest, w, inner => by
    simp only [fmtArgsCST, canonArgs, List.map_cons, normPair, fmtCST_normalize a w inner,
      fmtArgsCST_normalize rest w inner]
theorem fmtItemsCST_normalize : ∀ (items : List Item) (w inner : Nat),
    (fmtItemsCST w inner items).map normPair = canonItems items
  | [], _, _ => rfl
  | (.mk _ e _) :: rest, w, inner => by
    simp only [fmtItemsCST, canonItems, List.map_cons, normPair, fmtCST_normalize e w inner,
      fmtItemsCST_normalize rest w inner]
theorem fmtStmtsCST_normalize : ∀ (ss : List Item) (w indent : Nat),
    CST.normStmts (fmtStmtsCST w indent ss) = canonStmts ss
  | [], _, _ => rfl
  | (.mk _ e _) :: rest, w, indent => by
    simp only [fmtStmtsCST, canonStmts, CST.normStmts, protC_normalize,
      fmtCST_normalize e w (indent + INDENT_SIZE), fmtStmtsCST_normalize rest w indent]
theorem fmtEntsCST_normalize : ∀ (es : List Entry) (w inner : Nat),
    (fmtEntsCST w inner es).map CST.normEnt = canonEntries es
  | [], _, _ => rfl
  | e :: rest, w, inner => by
    simp only [fmtEntsCST, canonEntries, List.map_cons, fmtEntCST_normalize e w inner,
      fmtEntsCST_normalize rest w inner]
theorem fmtEntCST_normalize : ∀ (en : Entry) (w inner : Nat),
    CST.normEnt (fmtEntCST w inner en) = canonEnt en
  | .mk lead (.static k) v tr, w, inner => by
    simp only [fmtEntCST, canonEnt]
    split
    · simp only [normEnt_keyEnt, fmtCST_normalize v w inner]
    · rfl
  | .mk lead (.dyn ke) v tr, w, inner => by
    simp only [fmtEntCST, canonEnt]
    split
    · simp only [CST.normEnt, fmtCST_normalize ke w inner, fmtCST_normalize v w inner]
    · rfl
  | .mk lead (.short n) v tr, _, _ => by
    simp only [fmtEntCST, canonEnt]
    split <;> rfl
  | .mk lead (.spread (.spread e)) v tr, w, inner => by
    simp only [fmtEntCST, canonEnt]
    split
    · have := fmtCST_normalize (.spread e) w inner
      simp only [canon] at this
      simp only [CST.normEnt, this]
    · rfl
  | .mk _ (.spread (.num _)) _ _, _, _ | .mk _ (.spread (.str _)) _ _, _, _
  | .mk _ (.spread (.bool _)) _ _, _, _ | .mk _ (.spread .null) _ _, _, _
  | .mk _ (.spread (.ident _)) _ _, _, _ | .mk _ (.spread (.inref _)) _ _, _, _
  | .mk _ (.spread (.builtin _)) _ _, _, _ | .mk _ (.spread (.list _)) _ _, _, _
  | .mk _ (.spread (.record _)) _ _, _, _ | .mk _ (.spread (.lambda _ _)) _ _, _, _
  | .mk _ (.spread (.cond _ _ _)) _ _, _, _ | .mk _ (.spread (.doBlock _ _)) _ _, _, _
  | .mk _ (.spread (.assign _ _)) _ _, _, _ | .mk _ (.spread (.output _)) _ _, _, _
  | .mk _ (.spread (.call _ _)) _ _, _, _ | .mk _ (.spread (.access _ _)) _ _, _, _
  | .mk _ (.spread (.dot _ _)) _ _, _, _ | .mk _ (.spread (.bin _ _ _)) _ _, _, _
  | .mk _ (.spread (.un _ _)) _ _, _, _ | .mk _ (.spread (.fact _)) _ _, _, _ => rfl
end

theorem mkArgsML_layout (indent : Nat) : ∀ (ps : List (Bool × CST)) (p : Bool × CST),
    p.2.LayoutOk → (∀ q ∈ ps, q.2.LayoutOk) → CST.ArgsLayoutOk (mkArgsML indent p ps)
  | [], _, hp, _ => hp
  | q :: ps, _, hp, h =>
    ⟨hp, rfl, mkArgsML_layout indent ps q (h q List.mem_cons_self)
      (fun x hx => h x (List.mem_cons_of_mem _ hx))⟩

theorem mkCallML_layout {indent : Nat} {f : CST} {ps : List (Bool × CST)} (hf : f.LayoutOk)
    (h : ∀ q ∈ ps, q.2.LayoutOk) : (mkCallML indent f ps).LayoutOk := by
  cases ps with
  | nil => exact hf
  | cons p ps =>
    exact ⟨hf, mkArgsML_layout indent ps p (h p List.mem_cons_self)
      (fun x hx => h x (List.mem_cons_of_mem _ hx)), rfl⟩

theorem condCST_layout {indent : Nat} {head : Bool} {cC cIn tIn eC : CST} {l4 : Lay} (h1 : cC.LayoutOk)
    (h2 : cIn.LayoutOk) (h3 : tIn.LayoutOk) (h4 : eC.LayoutOk) (hl : l4 ≠ []) :
    (condCST indent head cC cIn tIn l4 eC).LayoutOk := by
  cases head
  · exact ⟨⟨by simp, rfl, by simp [nlLay], by simp [breakLay], by simp [nlLay], hl⟩, h2, h3, h4⟩
  · exact ⟨⟨by simp, rfl, by simp, by simp [breakLay], by simp [nlLay], hl⟩, h1, h3, h4⟩

theorem mkListML_layout {indent : Nat} {ps : List (Bool × CST)} (h : ∀ q ∈ ps, q.2.LayoutOk) :
    (mkListML indent ps).LayoutOk := by
  cases ps with
  | nil => trivial
  | cons p ps =>
    exact ⟨mkArgsML_layout indent ps p (h p List.mem_cons_self)
      (fun x hx => h x (List.mem_cons_of_mem _ hx)), rfl⟩

theorem mkEntsML_layout (indent : Nat) : ∀ (es : List Ent) (e : Ent),
    CST.EntLayoutOk e → (∀ q ∈ es, CST.EntLayoutOk q) → CST.EntsLayoutOk (mkEntsML indent e es)
  | [], _, he, _ => he
  | q :: es, _, he, h =>
    ⟨he, rfl, mkEntsML_layout indent es q (h q List.mem_cons_self)
      (fun x hx => h x (List.mem_cons_of_mem _ hx))⟩

theorem mkRecordML_layout {indent : Nat} {es : List Ent} (h : ∀ q ∈ es, CST.EntLayoutOk q) :
    (mkRecordML indent es).LayoutOk := by
  cases es with
  | nil => trivial
  | cons e es =>
    exact ⟨mkEntsML_layout indent es e (h e List.mem_cons_self)
      (fun x hx => h x (List.mem_cons_of_mem _ hx)), rfl⟩

mutual
theorem fmtCST_layout : ∀ (t : Expr) (w indent : Nat), (fmtCST w indent t).LayoutOk
  | .bin op l r, w, indent => by
    unfold fmtCST
    split
    · exact canonF_layout _
    · split
      · exact ⟨wrap_layout (fmtCST_layout l w indent), wrap_layout (fmtCST_layout r w indent),
          layOk_chain op w indent l r⟩
      · exact ⟨wrap_layout (fmtCST_layout l w indent),
          wrap_layout (fmtCST_layout r w (indent + INDENT_SIZE)), layOk_break op indent⟩
  | .un op e, w, indent => by
    unfold fmtCST
    split
    · exact canonF_layout _
    · exact wrap_layout (fmtCST_layout e w indent)
  | .fact e, w, indent => by
    unfold fmtCST
    split
    · exact canonF_layout _
    · exact wrap_layout (fmtCST_layout e w indent)
  | .call f args, w, indent => by
    unfold fmtCST
    split
    · exact canonF_layout _
    · exact mkCallML_layout (wrap_layout (fmtCST_layout f w indent))
        (fmtArgsCST_layout args w (indent + INDENT_SIZE))
  | .access e i, w, indent => by
    unfold fmtCST
    split
    · exact canonF_layout _
    · exact ⟨wrap_layout (fmtCST_layout e w indent), fmtCST_layout i w indent, rfl, rfl⟩
  | .dot e n, w, indent => by
    unfold fmtCST
    split
    · exact canonF_layout _
    · exact wrap_layout (fmtCST_layout e w indent)
  | .spread e, w, indent => by
    unfold fmtCST
    split
    · exact canon_layout _
    · exact fmtCST_layout e w indent
  | .list items, w, indent => by
    unfold fmtCST
    split
    · exact canonF_layout _
    · exact mkListML_layout (fmtItemsCST_layout items w (indent + INDENT_SIZE))
  | .cond c t e, w, indent => by
    unfold fmtCST
    split
    · exact canonF_layout _
    · refine condCST_layout (fmtCST_layout c w indent) (fmtCST_layout c w (indent + INDENT_SIZE))
        (fmtCST_layout t w (indent + INDENT_SIZE)) ?_ ?_
      · cases hch : fmtChainCST w indent e with
        | some x => exact fmtChainCST_layout e w indent x hch
        | none => exact fmtCST_layout e w (indent + INDENT_SIZE)
      · cases fmtChainCST w indent e <;> simp [breakLay]
  | .ident _, _, _ | .builtin _, _, _ | .bool _, _, _ | .null, _, _ | .num _, _, _ => trivial
  | .lambda args body, w, indent => by
    unfold fmtCST
    split
    · exact ⟨headF_ok args, rfl, fmtCST_layout body w indent⟩
    · split
      · exact ⟨headF_ok args, rfl, fmtCST_layout body w indent⟩
      · exact ⟨headF_ok args, rfl, fmtCST_layout body w (indent + INDENT_SIZE)⟩
  | .str s, _, _ => by simp only [fmtCST]; exact canon_layout _
  | .record es, w, indent => by
    unfold fmtCST
    split
    · exact canonF_layout _
    · exact mkRecordML_layout (fmtEntsCST_layout es w (indent + INDENT_SIZE))
  | .doBlock ss (.mk _ e _), w, indent => by
    simp only [fmtCST]
    exact ⟨⟨by simp, by simp, rfl⟩, fmtStmtsCST_layout ss w indent,
      fmtCST_layout e w (indent + INDENT_SIZE)⟩
  | .assign n v, w, indent => by
    unfold fmtCST
    split
    · exact canonF_layout _
    · exact ⟨rfl, rfl, fmtCST_layout v w indent⟩
  | .inref _, _, _ | .output _, _, _ => trivial
theorem fmtChainCST_layout : ∀ (t : Expr) (w indent : Nat) (x : CST),
    fmtChainCST w indent t = some x → x.LayoutOk
  | .cond c t e, w, indent, x, h => by
    simp only [fmtChainCST, Option.some.injEq] at h
    subst h
    refine condCST_layout (fmtCST_layout c w indent) (fmtCST_layout c w (indent + INDENT_SIZE))
      (fmtCST_layout t w (indent + INDENT_SIZE)) ?_ ?_
    · cases hch : fmtChainCST w indent e with
      | some x => exact fmtChainCST_layout e w indent x hch
      | none => exact fmtCST_layout e w (indent + INDENT_SIZE)
    · cases fmtChainCST w indent e <;> simp [breakLay]
  | .bin .., _, _, _, h | .un .., _, _, _, h | .fact .., _, _, _, h | .call .., _, _, _, h
  | .access .., _, _, _, h | .dot .., _, _, _, h | .spread .., _, _, _, h | .list .., _, _, _, h
  | .ident _, _, _, _, h | .builtin _, _, _, _, h | .bool _, _, _, _, h | .null, _, _, _, h
  | .num _, _, _, _, h | .lambda .., _, _, _, h | .str _, _, _, _, h | .inref _, _, _, _, h
  | .record _, _, _, _, h | .doBlock .., _, _, _, h | .assign .., _, _, _, h
  | .output _, _, _, _, h => by simp [fmtChainCST] at h
theorem fmtArgsCST_layout : ∀ (args : List Expr) (w inner : Nat),
    ∀ q ∈ fmtArgsCST w inner args, q.2.LayoutOk
  | [], _, _ => by intro q hq; cases hq
  | a :: rest, w, inner => by
    intro q hq
    simp only [fmtArgsCST, List.mem_cons] at hq
    rcases hq with rfl | hq
    · exact fmtCST_layout a w inner
    · exact fmtArgsCST_layout rest w inner q hq
theorem fmtItemsCST_layout : ∀ (items : List Item) (w inner : Nat),
    ∀ q ∈ fmtItemsCST w inner items, q.2.LayoutOk
  | [], _, _ => by intro q hq; cases hq
  | (.mk _ e _) :: rest, w, inner => by
    intro q hq
    simp only [fmtItemsCST, List.mem_cons] at hq
    rcases hq with rfl | hq
    · exact fmtCST_layout e w inner
    · exact fmtItemsCST_layout rest w inner q hq
theorem fmtStmtsCST_layout : ∀ (ss : List Item) (w indent : Nat),
    CST.StmtsLayoutOk (fmtStmtsCST w indent ss)
  | [], _, _ => trivial
  | (.mk _ e _) :: rest, w, indent =>
    ⟨protC_layout (fmtCST_layout e w (indent + INDENT_SIZE)), by simp [Sep.ok, breakLay, LayAtom.isWs],
      fmtStmtsCST_layout rest w indent⟩
theorem fmtEntsCST_layout : ∀ (es : List Entry) (w inner : Nat),
    ∀ q ∈ fmtEntsCST w inner es, CST.EntLayoutOk q
  | [], _, _ => by intro q hq; cases hq
  | e :: rest, w, inner => by
    intro q hq
    simp only [fmtEntsCST, List.mem_cons] at hq
    rcases hq with rfl | hq
    · exact fmtEntCST_layout e w inner
    · exact fmtEntsCST_layout rest w inner q hq
theorem fmtEntCST_layout : ∀ (en : Entry) (w inner : Nat), CST.EntLayoutOk (fmtEntCST w inner en)
  | .mk lead (.static k) v tr, w, inner => by
    simp only [fmtEntCST]
    split
    · rename_i hc
      simp only [Bool.and_eq_true] at hc
      exact keyEnt_layout hc.2 (fmtCST_layout v w inner)
    · trivial
  | .mk lead (.dyn ke) v tr, w, inner => by
    simp only [fmtEntCST]
    split
    · exact ⟨⟨rfl, rfl, rfl⟩, fmtCST_layout ke w inner, fmtCST_layout v w inner⟩
    · trivial
  | .mk lead (.short n) v tr, _, _ => by
    simp only [fmtEntCST]
    split <;> trivial
  | .mk lead (.spread (.spread e)) v tr, w, inner => by
    simp only [fmtEntCST]
    split
    · exact fmtCST_layout (.spread e) w inner
    · trivial
  | .mk _ (.spread (.num _)) _ _, _, _ | .mk _ (.spread (.str _)) _ _, _, _
  | .mk _ (.spread (.bool _)) _ _, _, _ | .mk _ (.spread .null) _ _, _, _
  | .mk _ (.spread (.ident _)) _ _, _, _ | .mk _ (.spread (.inref _)) _ _, _, _
  | .mk _ (.spread (.builtin _)) _ _, _, _ | .mk _ (.spread (.list _)) _ _, _, _
  | .mk _ (.spread (.record _)) _ _, _, _ | .mk _ (.spread (.lambda _ _)) _ _, _, _
  | .mk _ (.spread (.cond _ _ _)) _ _, _, _ | .mk _ (.spread (.doBlock _ _)) _ _, _, _
  | .mk _ (.spread (.assign _ _)) _ _, _, _ | .mk _ (.spread (.output _)) _ _, _, _
  | .mk _ (.spread (.call _ _)) _ _, _, _ | .mk _ (.spread (.access _ _)) _ _, _, _
  | .mk _ (.spread (.dot _ _)) _ _, _, _ | .mk _ (.spread (.bin _ _ _)) _ _, _, _
  | .mk _ (.spread (.un _ _)) _ _, _, _ | .mk _ (.spread (.fact _)) _ _, _, _ => trivial
end

theorem fmtCST_relayout (t : Expr) (_h : Frag t) (w indent : Nat) :
    Relayout t (fmtCST w indent t) :=
  ⟨fmtCST_normalize t w indent, fmtCST_layout t w indent⟩

/-! ### … and its text is the formatter's output -/

/-- every argument on its own line behind the line-break layout `bl`, followed by a comma -/
def argsML (bl : List Char) : List (List Char) → List Char
  | [] => []
  | s :: rest => bl ++ (s ++ ',' :: argsML bl rest)

theorem mkArgsML_text (indent : Nat) : ∀ (ps : List (Bool × CST)) (p : Bool × CST) (X : List Char),
    layChars (breakLay indent) ++ (CST.argsText (mkArgsML indent p ps) ++ ',' :: X) =
      argsML (layChars (breakLay indent)) ((p :: ps).map argS) ++ X
  | [], p, X => by simp [mkArgsML, CST.argsText, argsML, argS]
  | q :: ps, p, X => by
    have ih := mkArgsML_text indent ps q X
    simp only [List.map_cons, argsML] at ih ⊢
    simp only [mkArgsML, CST.argsText, argS, layChars, List.nil_append, List.append_assoc,
      List.cons_append, ih]

theorem mkCallML_text (indent : Nat) (f : CST) (ps : List (Bool × CST)) :
    (mkCallML indent f ps).text =
      f.text ++ '(' :: (if ps.isEmpty then [')']
        else argsML (layChars (breakLay indent)) (ps.map argS) ++
          '\n' :: (List.replicate indent ' ' ++ [')'])) := by
  cases ps with
  | nil => simp [mkCallML, CST.text, layChars]
  | cons p ps =>
    have := mkArgsML_text indent ps p ('\n' :: (List.replicate indent ' ' ++ [')']))
    simp only [mkCallML, CST.text, Close.text, layChars, LayAtom.chars, List.nil_append,
      layChars_replicate_sp, List.isEmpty_cons, Bool.false_eq_true, if_false, List.cons_append,
      List.append_assoc] at this ⊢
    rw [this]

theorem mkListML_text (indent : Nat) (ps : List (Bool × CST)) :
    (mkListML indent ps).text =
      '[' :: (if ps.isEmpty then [']']
        else argsML (layChars (breakLay indent)) (ps.map argS) ++
          '\n' :: (List.replicate indent ' ' ++ [']'])) := by
  cases ps with
  | nil => simp [mkListML, CST.text, layChars]
  | cons p ps =>
    have := mkArgsML_text indent ps p ('\n' :: (List.replicate indent ' ' ++ [']']))
    simp only [mkListML, CST.text, Close.text, layChars, LayAtom.chars, List.nil_append,
      layChars_replicate_sp, List.isEmpty_cons, Bool.false_eq_true, if_false, List.cons_append,
      List.append_assoc] at this ⊢
    rw [this]

theorem mkEntsML_text (indent : Nat) : ∀ (es : List Ent) (e : Ent) (X : List Char),
    layChars (breakLay indent) ++ (CST.entsText (mkEntsML indent e es) ++ ',' :: X) =
      argsML (layChars (breakLay indent)) ((e :: es).map CST.entText) ++ X
  | [], e, X => by simp [mkEntsML, CST.entsText, argsML]
  | q :: es, e, X => by
    have ih := mkEntsML_text indent es q X
    simp only [List.map_cons, argsML] at ih ⊢
    simp only [mkEntsML, CST.entsText, layChars, List.nil_append, List.append_assoc,
      List.cons_append, ih]

theorem mkRecordML_text (indent : Nat) (es : List Ent) :
    (mkRecordML indent es).text =
      '{' :: (if es.isEmpty then ['}']
        else argsML (layChars (breakLay indent)) (es.map CST.entText) ++
          '\n' :: (List.replicate indent ' ' ++ ['}'])) := by
  cases es with
  | nil => simp [mkRecordML, CST.text, layChars]
  | cons e es =>
    have := mkEntsML_text indent es e ('\n' :: (List.replicate indent ' ' ++ ['}']))
    simp only [mkRecordML, CST.text, Close.text, layChars, LayAtom.chars, List.nil_append,
      layChars_replicate_sp, List.isEmpty_cons, Bool.false_eq_true, if_false, List.cons_append,
      List.append_assoc] at this ⊢
    rw [this]

theorem layChars_nlLay (indent : Nat) :
    layChars (nlLay indent) = '\n' :: List.replicate indent ' ' := by
  simp [nlLay, layChars, LayAtom.chars, layChars_replicate_sp]

/-- the text of the multi-line conditional CST is what `condLayout` renders -/
theorem condCST_text (w indent : Nat) (cP : List Piece) (cIn : Unit → List Piece)
    (tP elseP : List Piece) (cC cI tI eC : CST) (l4 : Lay)
    (h1 : cC.text = (render cP).toList) (h2 : cI.text = (render (cIn ())).toList)
    (h3 : tI.text = (render tP).toList)
    (h4 : elseLit ++ (layChars l4 ++ eC.text) = (render elseP).toList) :
    (condCST indent (decide (indent + blen ("if " ++ render cP ++ " then") ≤ w)) cC cI tI l4 eC).text =
      (render (condLayout w indent cP cIn tP elseP)).toList := by
  unfold condCST condLayout
  by_cases hh : indent + blen ("if " ++ render cP ++ " then") ≤ w
  · simp only [hh, decide_true, if_true, CST.text, render_text, render_append, String.toList_append,
      h1, h3, ← h4, layChars_breakLay, layChars_nlLay, makeIndent_toList, layChars, LayAtom.chars,
      thenLit, List.append_assoc, List.cons_append, List.nil_append]
    rfl
  · simp only [hh, decide_false, Bool.false_eq_true, if_false, CST.text, render_text, render_append,
      String.toList_append, h2, h3, ← h4, layChars_breakLay, layChars_nlLay, makeIndent_toList,
      layChars, LayAtom.chars, thenLit, List.append_assoc, List.cons_append, List.nil_append]
    rfl

/-- the text of the `via` / `into` / `where`-with-lambda layout of `binLayout` -/
theorem chainCST_text (indent : Nat) (op : BinOp) (lP rP : List Piece) (bl br fit : Bool) (L R : CST)
    (hL : L.text = (render lP).toList) (hR : R.text = (render rP).toList) :
    (CST.bin op (wrap bl L) (if fit then [.sp] else nlLay indent) [.sp] (wrap br R)).text =
      (render (if fit then parenP bl lP ++ .text (" " ++ fmtSpelling op ++ " ") :: parenP br rP
        else parenP bl lP ++ .text ("\n" ++ makeIndent indent ++ fmtSpelling op ++ " ") ::
          parenP br rP)).toList := by
  cases fit
  · simp only [Bool.false_eq_true, if_false, render_append, render_text, render_parenP,
      String.toList_append, parenIf_toList, CST.text, wrap_text, hL, hR, fmtSpelling_eq, spell,
      layChars_nlLay, makeIndent_toList, layChars, LayAtom.chars, List.append_assoc,
      List.cons_append, List.nil_append]
    rfl
  · simp only [if_true, render_append, render_text, render_parenP, String.toList_append,
      parenIf_toList, CST.text, wrap_text, hL, hR, fmtSpelling_eq, spell, layChars,
      LayAtom.chars, List.append_assoc, List.cons_append, List.nil_append]
    rfl

/-- the text of the layouts of `format_lambda` (a do-block body always stays on the line of `=>`) -/
theorem lamCST_text (w indent : Nat) (args : List LArg) (body : Expr)
    (b : List Piece) (bIn : Unit → List Piece) (B BIn : CST)
    (h1 : B.text = (render b).toList) (h2 : BIn.text = (render (bIn ())).toList) :
    (if lambdaBodyNeedsParens body then
        CST.lambda (headF args) [.sp] [.sp] (.paren [] B [])
      else if (isDoBlock body || (!hasNewline (lambdaArgsPart args ++ " =>" ++ " " ++ render b) &&
          decide (indent + blen (lambdaArgsPart args ++ " =>" ++ " " ++ render b) ≤ w))) then
        CST.lambda (headF args) [.sp] [.sp] B
      else CST.lambda (headF args) [.sp] (breakLay indent) BIn).text =
      (render (lambdaLayout w indent args body b bIn)).toList := by
  unfold lambdaLayout
  by_cases hp : lambdaBodyNeedsParens body = true
  · simp only [hp, if_true, CST.text, headF_text, h1, render_text, render_append, render_single,
      String.toList_append, layChars, LayAtom.chars, List.append_assoc, List.cons_append,
      List.nil_append]
    rfl
  · simp only [hp, Bool.false_eq_true, if_false]
    cases body with
    | doBlock a b' =>
      simp only [isDoBlock, Bool.true_or, if_true, CST.text, headF_text, h1, render_text,
        String.toList_append, layChars, LayAtom.chars, List.append_assoc, List.cons_append,
        List.nil_append]
      rfl
    | _ =>
      simp only [isDoBlock, Bool.false_or]
      by_cases hf : (!hasNewline (lambdaArgsPart args ++ " =>" ++ " " ++ render b) &&
          decide (indent + blen (lambdaArgsPart args ++ " =>" ++ " " ++ render b) ≤ w)) = true
      · simp only [hf, if_true, CST.text, headF_text, h1, render_text, String.toList_append,
          layChars, LayAtom.chars, List.append_assoc, List.cons_append, List.nil_append]
        rfl
      · simp only [hf, Bool.false_eq_true, if_false, CST.text, headF_text, h2, render_text,
          String.toList_append, layChars_breakLay, makeIndent_toList, layChars, LayAtom.chars,
          List.append_assoc, List.cons_append, List.nil_append]
        rfl

theorem spread_fragB {sp : Bool} {e : Expr} (h : fragB sp (.spread e) = true) : Frag e := by
  simp only [fragB, Bool.and_eq_true] at h; exact h.2

mutual
theorem fmtCST_textB : ∀ (sp : Bool) (t : Expr) (w indent : Nat), fragB sp t = true →
    spreadChars (isSpread t) ++ (fmtCST w indent t).text = (fmtImpl w indent t).toList
  | sp, .bin op l r, w, indent, h => by
    have hh : Frag (.bin op l r) := by simpa [Frag, frag, fragB] using h
    have hl := fmtCST_textB false l w indent (frag_bin hh).1
    have hr := fmtCST_textB false r w (indent + INDENT_SIZE) (frag_bin hh).2
    have hrs := fmtCST_textB false r w indent (frag_bin hh).2
    simp only [isSpread_of_frag (frag_bin hh).1, isSpread_of_frag (frag_bin hh).2, spreadChars,
      Bool.false_eq_true, if_false, List.nil_append] at hl hr hrs
    unfold fmtImpl at hl hr hrs ⊢
    rw [fmtImplP_bin]
    simp only [isSpread, spreadChars, Bool.false_eq_true, if_false, List.nil_append]
    unfold fmtCST
    split
    · rw [render_single]; exact canonF_text_frag _ hh
    · by_cases hch : (chainOp op && isLambda r) = true
      · have hch' : ((op == .via || op == .into || op == .where_) && isLambda r) = true := hch
        simp only [hch, if_true, binLayout, hch']
        have := chainCST_text indent op (fmtImplP w indent l) (fmtImplP w indent r)
          (needsParens l (.binLeft op)) (needsParens r (.binRight op)) (chainFits w indent op l r)
          _ _ hl hrs
        rw [this]
        unfold chainFits
        by_cases hfit : indent + blen (render (parenP (needsParens l (.binLeft op)) (fmtImplP w indent l)) ++
            " " ++ fmtSpelling op ++ " " ++
            firstLine (render (parenP (needsParens r (.binRight op)) (fmtImplP w indent r)))) ≤ w
        · simp only [hfit, decide_true, if_true]
        · simp only [hfit, decide_false, Bool.false_eq_true, if_false]
      · have hch' : ((op == .via || op == .into || op == .where_) && isLambda r) = false := by
          simpa [chainOp] using hch
        simp only [hch, binLayout, hch', Bool.false_eq_true, if_false, render_append, render_text,
          render_parenP, String.toList_append, parenIf_toList, CST.text, wrap_text, hl, hr,
          layChars_breakLay, makeIndent_toList, fmtSpelling_eq, spell, layChars, LayAtom.chars,
          List.append_assoc, List.cons_append, List.nil_append]
        rfl
  | sp, .un op e, w, indent, h => by
    have hh : Frag (.un op e) := by simpa [Frag, frag, fragB] using h
    have he := fmtCST_textB false e w indent (frag_un hh).2
    simp only [isSpread_of_frag (frag_un hh).2, spreadChars, Bool.false_eq_true, if_false,
      List.nil_append] at he
    unfold fmtImpl at he ⊢
    rw [fmtImplP_un]
    simp only [isSpread, spreadChars, Bool.false_eq_true, if_false, List.nil_append]
    unfold fmtCST
    split
    · rw [render_single]; exact canonF_text_frag _ hh
    · simp only [render_text, render_parenP, String.toList_append, parenIf_toList, CST.text,
        wrap_text, he]
  | sp, .fact e, w, indent, h => by
    have hh : Frag (.fact e) := by simpa [Frag, frag, fragB] using h
    have he := fmtCST_textB false e w indent (frag_fact hh)
    simp only [isSpread_of_frag (frag_fact hh), spreadChars, Bool.false_eq_true, if_false,
      List.nil_append] at he
    unfold fmtImpl at he ⊢
    rw [fmtImplP_fact]
    simp only [isSpread, spreadChars, Bool.false_eq_true, if_false, List.nil_append]
    unfold fmtCST
    split
    · rw [render_single]; exact canonF_text_frag _ hh
    · simp only [render_append, render_single, render_parenP, String.toList_append, parenIf_toList,
        CST.text, wrap_text, he]
      rfl
  | sp, .call f args, w, indent, h => by
    have hh : Frag (.call f args) := by simpa [Frag, frag, fragB] using h
    have hf := fmtCST_textB false f w indent (frag_call hh).1
    have ha := fmtArgs_text args w (indent + INDENT_SIZE) (frag_call hh).2
    simp only [isSpread_of_frag (frag_call hh).1, spreadChars, Bool.false_eq_true, if_false,
      List.nil_append] at hf
    unfold fmtImpl at hf ⊢
    rw [fmtImplP_call]
    simp only [isSpread, spreadChars, Bool.false_eq_true, if_false, List.nil_append]
    unfold fmtCST
    split
    · rw [render_single]; exact canonF_text_frag _ hh
    · rw [mkCallML_text]
      cases args with
      | nil =>
        simp only [fmtArgsCST, List.isEmpty_nil, if_true, render_append, render_single,
          render_parenP, String.toList_append, parenIf_toList, wrap_text, hf]
        rfl
      | cons a rest =>
        have hne : (fmtArgsCST w (indent + INDENT_SIZE) (a :: rest)).isEmpty = false := rfl
        simp only [hne, List.isEmpty_cons, Bool.false_eq_true, if_false, render_append,
          render_text, render_single, render_parenP, String.toList_append, parenIf_toList,
          wrap_text, hf, ha, layChars_breakLay, makeIndent_toList, List.append_assoc,
          List.cons_append]
        rfl
  | sp, .access e i, w, indent, h => by
    have hh : Frag (.access e i) := by simpa [Frag, frag, fragB] using h
    have he := fmtCST_textB false e w indent (frag_access hh).1
    have hi := fmtCST_textB false i w indent (frag_access hh).2
    simp only [isSpread_of_frag (frag_access hh).1, isSpread_of_frag (frag_access hh).2,
      spreadChars, Bool.false_eq_true, if_false, List.nil_append] at he hi
    unfold fmtImpl at he hi ⊢
    rw [fmtImplP_access]
    simp only [isSpread, spreadChars, Bool.false_eq_true, if_false, List.nil_append]
    unfold fmtCST
    split
    · rw [render_single]; exact canonF_text_frag _ hh
    · simp only [render_append, render_text, render_single, render_parenP, String.toList_append,
        parenIf_toList, CST.text, wrap_text, he, hi, layChars, List.nil_append, List.append_assoc]
      rfl
  | sp, .dot e n, w, indent, h => by
    have hh : Frag (.dot e n) := by simpa [Frag, frag, fragB] using h
    have he := fmtCST_textB false e w indent (frag_dot hh).1
    simp only [isSpread_of_frag (frag_dot hh).1, spreadChars, Bool.false_eq_true, if_false,
      List.nil_append] at he
    unfold fmtImpl at he ⊢
    rw [fmtImplP_dot]
    simp only [isSpread, spreadChars, Bool.false_eq_true, if_false, List.nil_append]
    unfold fmtCST
    split
    · rw [render_single]; exact canonF_text_frag _ hh
    · simp only [render_append, render_single, render_parenP, String.toList_append, parenIf_toList,
        CST.text, wrap_text, he, List.append_assoc]
      rfl
  | sp, .spread e, w, indent, h => by
    have hh : Frag e := spread_fragB h
    have he := fmtCST_textB false e w indent hh
    simp only [isSpread_of_frag hh, spreadChars, Bool.false_eq_true, if_false,
      List.nil_append] at he
    unfold fmtImpl at he ⊢
    rw [fmtImplP_spread]
    simp only [isSpread, spreadChars, if_true, spreadLit_eq]
    unfold fmtCST
    split
    · have hs : fmtSingle (.spread e) = exprToSource (.spread e) := by
        simp [fmtSingle, fragB_noComments sp _ h]
      rw [render_single, hs, canon_text_frag _ hh]
      simp [exprToSource, exprSrc]
    · simp only [render_text, String.toList_append, he]
      rfl
  | sp, .cond c t e, w, indent, h => by
    have hh : Frag (.cond c t e) := by simpa [Frag, frag, fragB] using h
    have hparts : Frag c ∧ Frag t ∧ Frag e := by
      simpa [Frag, frag_cond_iff, Bool.and_eq_true, and_assoc] using hh
    have hc := fmtCST_textB false c w indent hparts.1
    have hci := fmtCST_textB false c w (indent + INDENT_SIZE) hparts.1
    have ht := fmtCST_textB false t w (indent + INDENT_SIZE) hparts.2.1
    have he := fmtCST_textB false e w (indent + INDENT_SIZE) hparts.2.2
    simp only [isSpread_of_frag hparts.1, isSpread_of_frag hparts.2.1,
      isSpread_of_frag hparts.2.2, spreadChars, Bool.false_eq_true, if_false,
      List.nil_append] at hc hci ht he
    unfold fmtImpl at hc hci ht he ⊢
    rw [fmtImplP_cond]
    simp only [isSpread, spreadChars, Bool.false_eq_true, if_false, List.nil_append]
    unfold fmtCST
    split
    · rw [render_single]; exact canonF_text_frag _ hh
    · refine condCST_text w indent _ _ _ _ _ _ _ _ _ hc hci ht ?_
      cases hch : fmtChainCST w indent e with
      | some x =>
        obtain ⟨ps, hps, hx⟩ := fmtChain_text e w indent x hparts.2.2 hch
        simp only [hps, elseLayout, render_text, String.toList_append, hx, layChars, LayAtom.chars,
          elseLit, List.append_assoc, List.cons_append, List.nil_append]
        rfl
      | none =>
        simp only [fmtChain_none hch, elseLayout, render_text, String.toList_append, he,
          layChars_breakLay, makeIndent_toList, elseLit, List.append_assoc, List.cons_append,
          List.nil_append]
        rfl
  | sp, .list items, w, indent, h => by
    have hh : Frag (.list items) := by simpa [Frag, frag, fragB] using h
    have ha := fmtItems_text items w (indent + INDENT_SIZE) (frag_list hh)
    unfold fmtImpl
    rw [fmtImplP_list]
    simp only [isSpread, spreadChars, Bool.false_eq_true, if_false, List.nil_append]
    unfold fmtCST
    split
    · rw [render_single]; exact canonF_text_frag _ hh
    · rw [mkListML_text]
      cases items with
      | nil =>
        simp only [fmtItemsCST, List.isEmpty_nil, if_true, render_single]
        rfl
      | cons a rest =>
        obtain ⟨lead, e, tr⟩ := a
        have hne : (fmtItemsCST w (indent + INDENT_SIZE) (Item.mk lead e tr :: rest)).isEmpty = false := rfl
        simp only [hne, List.isEmpty_cons, Bool.false_eq_true, if_false, render_append,
          render_text, render_single, String.toList_append, ha, layChars_breakLay,
          makeIndent_toList, List.append_assoc, List.cons_append]
        rfl
  | _, .ident n, w, indent, h => by
    have hh : Frag (.ident n) := by simpa [Frag, frag, fragB] using h
    unfold fmtImpl; rw [fmtImplP, fmtImpl_leaf _ _ _ (by simp [fmtSingle, containsComments])]
    exact canon_text_frag _ hh
  | _, .builtin n, w, indent, h => by
    have hh : Frag (.builtin n) := by simpa [Frag, frag, fragB] using h
    unfold fmtImpl; rw [fmtImplP, fmtImpl_leaf _ _ _ (by simp [fmtSingle, containsComments])]
    exact canon_text_frag _ hh
  | _, .bool b, w, indent, h => by
    have hh : Frag (.bool b) := by simpa [Frag, frag, fragB] using h
    unfold fmtImpl; rw [fmtImplP, fmtImpl_leaf _ _ _ (by simp [fmtSingle, containsComments])]
    exact canon_text_frag _ hh
  | _, .null, w, indent, h => by
    have hh : Frag .null := by simpa [Frag, frag, fragB] using h
    unfold fmtImpl; rw [fmtImplP, fmtImpl_leaf _ _ _ (by simp [fmtSingle, containsComments])]
    exact canon_text_frag _ hh
  | _, .num x, w, indent, h => by
    have hh : Frag (.num x) := by simpa [Frag, frag, fragB] using h
    unfold fmtImpl; rw [fmtImplP, fmtImpl_leaf _ _ _ (by simp [fmtSingle, containsComments])]
    exact canon_text_frag _ hh
  | _, .str x, w, indent, h => by
    have hh : Frag (.str x) := by simpa [Frag, frag, fragB] using h
    unfold fmtImpl; rw [fmtImplP, fmtImpl_leaf _ _ _ (by simp [fmtSingle, containsComments])]
    exact canon_text_frag _ hh
  | sp, .lambda args body, w, indent, h => by
    have hh : Frag (.lambda args body) := by simpa [Frag, frag, fragB] using h
    obtain ⟨_, hb⟩ := frag_lambda hh
    have hb1 := fmtCST_textB false body w indent hb
    have hb2 := fmtCST_textB false body w (indent + INDENT_SIZE) hb
    simp only [isSpread_of_frag hb, spreadChars, Bool.false_eq_true, if_false,
      List.nil_append] at hb1 hb2
    unfold fmtImpl at hb1 hb2 ⊢
    rw [fmtImplP_lambda]
    simp only [isSpread, spreadChars, Bool.false_eq_true, if_false, List.nil_append]
    unfold fmtCST lamFits
    exact lamCST_text w indent args body _ _ _ _ hb1 hb2
  | sp, .record es, w, indent, h => by
    have hh : Frag (.record es) := by simpa [Frag, frag, fragB] using h
    have ha := fmtEnts_text es w (indent + INDENT_SIZE) (frag_record hh)
    unfold fmtImpl
    rw [fmtImplP_record]
    simp only [isSpread, spreadChars, Bool.false_eq_true, if_false, List.nil_append]
    unfold fmtCST
    split
    · rw [render_single]; exact canonF_text_frag _ hh
    · rw [mkRecordML_text]
      cases es with
      | nil =>
        simp only [fmtEntsCST, List.isEmpty_nil, if_true, render_single]
        rfl
      | cons a rest =>
        have hne : (fmtEntsCST w (indent + INDENT_SIZE) (a :: rest)).isEmpty = false := rfl
        simp only [hne, List.isEmpty_cons, Bool.false_eq_true, if_false, render_append,
          render_text, render_single, String.toList_append, ha, layChars_breakLay,
          makeIndent_toList, List.append_assoc, List.cons_append]
        rfl
  | sp, .doBlock ss (.mk lead e tr), w, indent, h => by
    simp only [fragB, fragRet, Bool.and_eq_true] at h
    obtain ⟨hss, hp, he⟩ := h
    obtain ⟨rfl, rfl⟩ := entPlain_eq hp
    have hre := fmtCST_textB false e w (indent + INDENT_SIZE) he
    simp only [isSpread_of_frag he, spreadChars, Bool.false_eq_true, if_false, List.nil_append] at hre
    have hst := fmtStmts_text ss w indent hss
    unfold fmtImpl at hre ⊢
    rw [fmtImplP_doBlock]
    simp only [isSpread, spreadChars, Bool.false_eq_true, if_false, List.nil_append, fmtCST,
      CST.text, fmtRetP, leadP, render_text, render_append, render_single, String.toList_append,
      hre, layChars_nlLay, makeIndent_toList, List.append_assoc]
    have e1 : layChars (breakLay indent) ++ (CST.stmtsText (fmtStmtsCST w indent ss) ++ (retLit ++
        (layChars [LayAtom.sp] ++ ((render (fmtImplP w (indent + INDENT_SIZE) e)).toList ++
          ('\n' :: List.replicate indent ' ' ++ ['}']))))) =
        (layChars (breakLay indent) ++ CST.stmtsText (fmtStmtsCST w indent ss)) ++ (retLit ++
        (layChars [LayAtom.sp] ++ ((render (fmtImplP w (indent + INDENT_SIZE) e)).toList ++
          ('\n' :: List.replicate indent ' ' ++ ['}'])))) := by
      simp only [List.append_assoc]
    rw [e1, hst]
    simp [layChars, LayAtom.chars, layChars_breakLay, retLit, render_nil]
  | sp, .assign n v, w, indent, h => by
    have hh : Frag (.assign n v) := by simpa [Frag, frag, fragB] using h
    have hv := fmtCST_textB false v w indent (frag_assign hh).2
    simp only [isSpread_of_frag (frag_assign hh).2, spreadChars, Bool.false_eq_true, if_false,
      List.nil_append] at hv
    unfold fmtImpl at hv ⊢
    rw [fmtImplP_assign]
    simp only [isSpread, spreadChars, Bool.false_eq_true, if_false, List.nil_append]
    unfold fmtCST
    split
    · rw [render_single]; exact canonF_text_frag _ hh
    · simp only [render_text, String.toList_append, CST.text, hv, layChars, LayAtom.chars,
        List.append_assoc, List.cons_append, List.nil_append]
      rfl
  | _, .inref _, _, _, h | _, .output _, _, _, h => by simp [fragB] at h
theorem fmtChain_text : ∀ (t : Expr) (w indent : Nat) (x : CST), Frag t →
    fmtChainCST w indent t = some x →
    ∃ ps, fmtChainP w indent t = some ps ∧ x.text = (render ps).toList
  | .cond c t e, w, indent, x, hh, hx => by
    have hparts : Frag c ∧ Frag t ∧ Frag e := by
      simpa [Frag, frag_cond_iff, Bool.and_eq_true, and_assoc] using hh
    have hc := fmtCST_textB false c w indent hparts.1
    have hci := fmtCST_textB false c w (indent + INDENT_SIZE) hparts.1
    have ht := fmtCST_textB false t w (indent + INDENT_SIZE) hparts.2.1
    have he := fmtCST_textB false e w (indent + INDENT_SIZE) hparts.2.2
    simp only [isSpread_of_frag hparts.1, isSpread_of_frag hparts.2.1,
      isSpread_of_frag hparts.2.2, spreadChars, Bool.false_eq_true, if_false,
      List.nil_append] at hc hci ht he
    unfold fmtImpl at hc hci ht he
    simp only [fmtChainCST, Option.some.injEq] at hx
    subst hx
    refine ⟨_, fmtChainP_cond w indent c t e, ?_⟩
    refine condCST_text w indent _ _ _ _ _ _ _ _ _ hc hci ht ?_
    cases hch : fmtChainCST w indent e with
    | some x =>
      obtain ⟨ps, hps, hx⟩ := fmtChain_text e w indent x hparts.2.2 hch
      simp only [hps, elseLayout, render_text, String.toList_append, hx, layChars, LayAtom.chars,
        elseLit, List.append_assoc, List.cons_append, List.nil_append]
      rfl
    | none =>
      simp only [fmtChain_none hch, elseLayout, render_text, String.toList_append, he,
        layChars_breakLay, makeIndent_toList, elseLit, List.append_assoc, List.cons_append,
        List.nil_append]
      rfl
  | .bin .., _, _, _, _, h | .un .., _, _, _, _, h | .fact .., _, _, _, _, h
  | .call .., _, _, _, _, h | .access .., _, _, _, _, h | .dot .., _, _, _, _, h
  | .spread .., _, _, _, _, h | .list .., _, _, _, _, h | .ident _, _, _, _, _, h
  | .builtin _, _, _, _, _, h | .bool _, _, _, _, _, h | .null, _, _, _, _, h
  | .num _, _, _, _, _, h | .lambda .., _, _, _, _, h | .str _, _, _, _, _, h
  | .inref _, _, _, _, _, h | .record _, _, _, _, _, h | .doBlock .., _, _, _, _, h
  | .assign .., _, _, _, _, h | .output _, _, _, _, _, h => by simp [fmtChainCST] at h
theorem fmtArgs_text : ∀ (args : List Expr) (w inner : Nat), fragArgs args = true →
    (render (fmtArgsP w inner args)).toList =
      argsML ('\n' :: List.replicate inner ' ') ((fmtArgsCST w inner args).map argS)
  | [], _, _, _ => rfl
  | a :: rest, w, inner, h => by
    simp only [fragArgs, Bool.and_eq_true] at h
    have ha := fmtCST_textB true a w inner h.1
    have hr := fmtArgs_text rest w inner h.2
    unfold fmtImpl at ha
    simp only [fmtArgsP, fmtArgsCST, List.map_cons, argsML, argS, render_text, render_append,
      String.toList_append, makeIndent_toList, ha, hr, List.append_assoc]
    rfl
theorem fmtItems_text : ∀ (items : List Item) (w inner : Nat), fragItems items = true →
    (render (fmtItemsP w inner items)).toList =
      argsML ('\n' :: List.replicate inner ' ') ((fmtItemsCST w inner items).map argS)
  | [], _, _, _ => rfl
  | (.mk lead e tr) :: rest, w, inner, h => by
    simp only [fragItems, Bool.and_eq_true, List.isEmpty_iff, Option.isNone_iff_eq_none] at h
    obtain ⟨⟨⟨rfl, rfl⟩, he⟩, hr⟩ := h
    have ha := fmtCST_textB true e w inner he
    have hrr := fmtItems_text rest w inner hr
    unfold fmtImpl at ha
    simp only [fmtItemsP, fmtItemP, leadP, trailP, List.nil_append, List.append_nil, fmtItemsCST,
      List.map_cons, argsML, argS, render_text, render_append, String.toList_append,
      makeIndent_toList, ha, hrr, List.append_assoc]
    rfl
theorem fmtStmts_text : ∀ (ss : List Item) (w indent : Nat), fragStmts ss = true →
    layChars (breakLay indent) ++ CST.stmtsText (fmtStmtsCST w indent ss) =
      (render (fmtStmtsP w (indent + INDENT_SIZE) ss)).toList ++ layChars (breakLay indent)
  | [], _, _, _ => by simp [fmtStmtsCST, CST.stmtsText, fmtStmtsP, render_nil]
  | (.mk lead e tr) :: rest, w, indent, h => by
    simp only [fragStmts, Bool.and_eq_true] at h
    obtain ⟨⟨hp, he, hho⟩, hr⟩ := h
    obtain ⟨rfl, rfl⟩ := entPlain_eq hp
    have hte := fmtCST_textB false e w (indent + INDENT_SIZE) he
    simp only [isSpread_of_frag he, spreadChars, Bool.false_eq_true, if_false, List.nil_append] at hte
    have hfr : Frag e := he
    obtain ⟨hwf, _, _⟩ := relayout_wf hfr (fmtCST_relayout e hfr w (indent + INDENT_SIZE))
    have hP := protC_text (fmtCST w (indent + INDENT_SIZE) e) hwf.1 hwf.2 (fun hm => by
      apply CST.headOk_of_normalize
      rw [fmtCST_normalize]
      refine headOk_canon e he hho ?_
      rw [← fmtCST_normalize e w (indent + INDENT_SIZE), CST.startsMinus_normalize]
      exact hm)
    rw [hte, String.ofList_toList] at hP
    have ih := fmtStmts_text rest w indent hr
    simp only [fmtStmtsCST, CST.stmtsText, Sep.text, fmtStmtsP, fmtStmtP, leadP, trailP,
      List.nil_append, List.append_nil, render_text, render_append, render_protectP,
      String.toList_append, makeIndent_toList, hP, List.append_assoc]
    unfold fmtImpl
    rw [ih]
    simp [layChars_breakLay, List.append_assoc]
theorem fmtEnts_text : ∀ (es : List Entry) (w inner : Nat), fragEntries es = true →
    (render (fmtEntriesP w inner es)).toList =
      argsML ('\n' :: List.replicate inner ' ') ((fmtEntsCST w inner es).map CST.entText)
  | [], _, _, _ => rfl
  | e :: rest, w, inner, h => by
    simp only [fragEntries, Bool.and_eq_true] at h
    have ha := fmtEnt_text e w inner h.1
    have hr := fmtEnts_text rest w inner h.2
    simp only [fmtEntriesP, fmtEntsCST, List.map_cons, argsML, render_append, String.toList_append,
      ha, hr, List.append_assoc, List.singleton_append]
theorem fmtEnt_text : ∀ (en : Entry) (w inner : Nat), fragEntry en = true →
    (render (fmtEntryP w inner en)).toList =
      '\n' :: List.replicate inner ' ' ++ (CST.entText (fmtEntCST w inner en) ++ [','])
  | .mk lead (.static k) v tr, w, inner, h => by
    simp only [fragEntry, Bool.and_eq_true] at h
    obtain ⟨⟨hp, hk⟩, hv⟩ := h
    obtain ⟨rfl, rfl⟩ := entPlain_eq hp
    have hvt := fmtCST_textB false v w inner hv
    simp only [isSpread_of_frag hv, spreadChars, Bool.false_eq_true, if_false, List.nil_append] at hvt
    unfold fmtImpl at hvt
    have hcs : ": ".toList = [':', ' '] := rfl
    simp only [fmtEntryP, fmtKeyedP, fmtEntCST, hp, hk, Bool.and_self, if_true, keyEnt_text hk,
      leadP, trailP, List.nil_append, List.append_nil, render_text, render_append,
      String.toList_append, makeIndent_toList, hvt, hcs, List.append_assoc, List.cons_append]
    rfl
  | .mk lead (.dyn ke) v tr, w, inner, h => by
    simp only [fragEntry, Bool.and_eq_true] at h
    obtain ⟨⟨hp, hk⟩, hv⟩ := h
    obtain ⟨rfl, rfl⟩ := entPlain_eq hp
    have hvt := fmtCST_textB false v w inner hv
    have hkt := fmtCST_textB false ke w inner hk
    simp only [isSpread_of_frag hv, isSpread_of_frag hk, spreadChars, Bool.false_eq_true, if_false,
      List.nil_append] at hvt hkt
    unfold fmtImpl at hvt hkt
    simp only [fmtEntryP, fmtKeyedP, fmtEntCST, hp, if_true, CST.entText, leadP, trailP,
      List.nil_append, List.append_nil, render_text, render_append, String.toList_append,
      makeIndent_toList, hvt, hkt, layChars, LayAtom.chars, List.append_assoc, List.cons_append]
    rfl
  | .mk lead (.short n) v tr, w, inner, h => by
    simp only [fragEntry, Bool.and_eq_true] at h
    obtain ⟨⟨hp, hn⟩, _⟩ := h
    obtain ⟨rfl, rfl⟩ := entPlain_eq hp
    simp only [fmtEntryP, fmtKeyedP, fmtEntCST, hp, hn, Bool.and_self, if_true, CST.entText,
      leadP, trailP, List.nil_append, List.append_nil, render_text, render_append, render_single,
      String.toList_append, makeIndent_toList, List.append_assoc, List.cons_append]
    rfl
  | .mk lead (.spread (.spread e)) v tr, w, inner, h => by
    simp only [fragEntry, Bool.and_eq_true] at h
    obtain ⟨⟨hp, hn⟩, he⟩ := h
    obtain ⟨rfl, rfl⟩ := entPlain_eq hp
    have hst := fmtCST_textB true (.spread e) w inner (by simp [fragB, he])
    simp only [isSpread, spreadChars, if_true] at hst
    unfold fmtImpl at hst
    simp only [fmtEntryP, fmtKeyedP, fmtEntCST, hp, hn, Bool.and_self, if_true, CST.entText,
      leadP, trailP, List.nil_append, List.append_nil, render_text, render_append,
      String.toList_append, makeIndent_toList, ← hst, List.append_assoc, List.cons_append]
    rfl
  | .mk _ (.spread (.num _)) _ _, _, _, h | .mk _ (.spread (.str _)) _ _, _, _, h
  | .mk _ (.spread (.bool _)) _ _, _, _, h | .mk _ (.spread .null) _ _, _, _, h
  | .mk _ (.spread (.ident _)) _ _, _, _, h | .mk _ (.spread (.inref _)) _ _, _, _, h
  | .mk _ (.spread (.builtin _)) _ _, _, _, h | .mk _ (.spread (.list _)) _ _, _, _, h
  | .mk _ (.spread (.record _)) _ _, _, _, h | .mk _ (.spread (.lambda _ _)) _ _, _, _, h
  | .mk _ (.spread (.cond _ _ _)) _ _, _, _, h | .mk _ (.spread (.doBlock _ _)) _ _, _, _, h
  | .mk _ (.spread (.assign _ _)) _ _, _, _, h | .mk _ (.spread (.output _)) _ _, _, _, h
  | .mk _ (.spread (.call _ _)) _ _, _, _, h | .mk _ (.spread (.access _ _)) _ _, _, _, h
  | .mk _ (.spread (.dot _ _)) _ _, _, _, h | .mk _ (.spread (.bin _ _ _)) _ _, _, _, h
  | .mk _ (.spread (.un _ _)) _ _, _, _, h | .mk _ (.spread (.fact _)) _ _, _, _, h => by simp [fragEntry] at h
end

theorem fmtCST_text (t : Expr) (w indent : Nat) (h : Frag t) :
    (fmtCST w indent t).text = (fmtImpl w indent t).toList := by
  have := fmtCST_textB false t w indent h
  simpa [isSpread_of_frag h, spreadChars] using this

/-- the string `format_expr_impl` returns is the text of `fmtCST` -/
theorem fmtImpl_eq_text (t : Expr) (h : Frag t) (w indent : Nat) :
    fmtImpl w indent t = String.ofList (fmtCST w indent t).text := by
  rw [fmtCST_text t w indent h, String.ofList_toList]

/-! ### the two shapes of the output, as strings -/

/-- a do-block never "fits on one line": its single-line text has line breaks -/
theorem fits_doBlock (w indent : Nat) (ss : List Item) (r : Item) :
    fits w indent (.doBlock ss r) = false := by
  have : hasNewline (fmtSingle (.doBlock ss r)) = true := by
    simp only [fmtSingle]
    split
    · decide
    · obtain ⟨lead, e, tr⟩ := r
      simp [exprToSource, exprSrc, retSrc, hasNewline, String.toList_append]
  simp [fits, this]

/-- where the single-line form fits, the formatter's text is `format_single_line` (for
    everything but a lambda at the top, which `format_expr_impl` lays out by `format_lambda`) -/
theorem fmtImpl_fits (t : Expr) (h : Frag t) (w indent : Nat) (hf : fits w indent t = true)
    (hl : isLambda t = false) : fmtImpl w indent t = fmtSingle t := by
  rw [fmtImpl_eq_text t h, fmtSingle_eq_canonF t h]
  cases t <;> first
    | (simp [Frag, frag, fragB] at h; done)
    | (simp [isLambda] at hl; done)
    | (rw [fits_doBlock] at hf; cases hf)
    | (unfold fmtCST; rw [if_pos hf])
    | (unfold fmtCST canonF; rfl)

/-- where it does not, a binary operator goes to a new line, two columns deeper, followed by
    one blank; the operands are formatted again (the right one at the deeper indent) -/
theorem fmtImpl_bin_break (w indent : Nat) (op : BinOp) (l r : Expr) (hr : isLambda r = false)
    (hf : fits w indent (.bin op l r) = false) :
    fmtImpl w indent (.bin op l r) =
      parenIf (needsParens l (.binLeft op)) (fmtImpl w indent l) ++ "\n" ++
        makeIndent (indent + INDENT_SIZE) ++ opSpelling op ++ " " ++
        parenIf (needsParens r (.binRight op)) (fmtImpl w (indent + INDENT_SIZE) r) := by
  unfold fmtImpl
  rw [fmtImplP_bin, hf]
  simp only [Bool.false_eq_true, if_false, binLayout, hr, Bool.and_false, render_append,
    render_text, render_parenP, fmtSpelling_eq, String.append_assoc]

theorem fmtImpl_un_break (w indent : Nat) (op : UnOp) (e : Expr)
    (hf : fits w indent (.un op e) = false) :
    fmtImpl w indent (.un op e) =
      unaryOpToSource op ++ parenIf (needsParens e .prefix_) (fmtImpl w indent e) := by
  unfold fmtImpl
  rw [fmtImplP_un, hf]
  simp only [Bool.false_eq_true, if_false, render_text, render_parenP]

theorem fmtImpl_fact_break (w indent : Nat) (e : Expr) (hf : fits w indent (.fact e) = false) :
    fmtImpl w indent (.fact e) = parenIf (needsParens e .postfix_) (fmtImpl w indent e) ++ "!" := by
  unfold fmtImpl
  rw [fmtImplP_fact, hf]
  simp only [Bool.false_eq_true, if_false, render_append, render_single, render_parenP]

/-- a call that does not fit: every argument on its own line two columns deeper, each followed
    by a comma, the closing parenthesis on a line of its own (`fmtArgsP`) -/
theorem fmtImpl_call_break (w indent : Nat) (f a : Expr) (rest : List Expr)
    (hf : fits w indent (.call f (a :: rest)) = false) :
    fmtImpl w indent (.call f (a :: rest)) =
      parenIf (needsParens f .postfix_) (fmtImpl w indent f) ++ "(" ++
        render (fmtArgsP w (indent + INDENT_SIZE) (a :: rest)) ++ "\n" ++ makeIndent indent ++ ")" := by
  unfold fmtImpl
  rw [fmtImplP_call, hf]
  simp only [Bool.false_eq_true, if_false, List.isEmpty_cons, render_append, render_text,
    render_nil, render_parenP, String.append_assoc, String.append_empty]

theorem fmtImpl_access_break (w indent : Nat) (e i : Expr)
    (hf : fits w indent (.access e i) = false) :
    fmtImpl w indent (.access e i) =
      parenIf (needsParens e .postfix_) (fmtImpl w indent e) ++ "[" ++ fmtImpl w indent i ++ "]" := by
  unfold fmtImpl
  rw [fmtImplP_access, hf]
  simp only [Bool.false_eq_true, if_false, render_append, render_text, render_nil,
    render_parenP, String.append_assoc, String.append_empty]

theorem fmtImpl_dot_break (w indent : Nat) (e : Expr) (n : String)
    (hf : fits w indent (.dot e n) = false) :
    fmtImpl w indent (.dot e n) =
      parenIf (needsParens e .postfix_) (fmtImpl w indent e) ++ "." ++ n := by
  unfold fmtImpl
  rw [fmtImplP_dot, hf]
  simp only [Bool.false_eq_true, if_false, render_append, render_single, render_parenP,
    String.append_assoc]

/-! ### `format_expr` = `protect_statement_start ∘ format_expr_impl` -/

/-- the concrete syntax tree of `format_expr`'s result: a statement that starts with `-`, or with
    `via` / `into` / `where` followed by a blank, gets one extra pair of parentheses -/
def formatCST (t : Expr) (mw : Option Nat) : CST :=
  let c := fmtCST (mw.getD DEFAULT_MAX_COLUMNS) 0 t
  if protectDecide c.text then .paren [] c [] else c

theorem formatCST_wraps (t : Expr) (mw : Option Nat) :
    Wraps (fmtCST (mw.getD DEFAULT_MAX_COLUMNS) 0 t) (formatCST t mw) := by
  unfold formatCST
  simp only
  split
  · exact .step (.refl _) (.here [] _ [])
  · exact .refl _

theorem formatCST_text (t : Expr) (h : Frag t) (mw : Option Nat) :
    formatExpr t mw = String.ofList (formatCST t mw).text := by
  have ht := fmtCST_text t (mw.getD DEFAULT_MAX_COLUMNS) 0 h
  unfold formatExpr formatCST protectStatementStart
  generalize fmtImpl (mw.getD DEFAULT_MAX_COLUMNS) 0 t = s at ht ⊢
  generalize fmtCST (mw.getD DEFAULT_MAX_COLUMNS) 0 t = c at ht ⊢
  apply String.toList_inj.mp
  simp only [ht, String.toList_ofList]
  split
  · simp only [String.toList_append, CST.text, layChars, List.nil_append, ht]
    rfl
  · exact ht.symm

/-- END TO END: what `format_expr` returns for a fragment tree is read back — PEG recogniser,
    then Pratt parser — to the tree, at every width -/
theorem formatExpr_parse (t : Expr) (h : Frag t) (mw : Option Nat) :
    parseText (formatExpr t mw) = some t := by
  obtain ⟨hwf, _, ht⟩ := relayout_wf h (fmtCST_relayout t h (mw.getD DEFAULT_MAX_COLUMNS) 0)
  obtain ⟨ht', hwf'⟩ := wraps_facts (formatCST_wraps t mw) hwf
  have := cst_roundtrip _ hwf'
  rw [ht', ht] at this
  rw [formatCST_text t h mw]
  exact this

end Blots.FormatFrag
