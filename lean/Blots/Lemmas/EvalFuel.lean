import Blots.Lemmas.EvalBin
/-
  Fuel monotonicity of the evaluator: the fuel argument of the fifteen mutually recursive
  functions of `Model/Eval.lean` only decides WHETHER an answer is produced, never WHICH:
  if a call returns anything but `Outcome.fuel` with fuel `n`, it returns the same outcome and
  the same state with every larger fuel.
-/
namespace Blots

/-- `NF x`: the call `x` did not run out of fuel (plain syntax for `x.1 ≠ .fuel`) -/
local macro "NF " x:term:max : term => `(Prod.fst $x ≠ Outcome.fuel)

/-- `sort_by`: no key call ran out of fuel -/
def NFK (x : List (Value × Outcome Value) × ES) : Prop := ∀ kr ∈ x.1, kr.2 ≠ Outcome.fuel

theorem any_fuel_key_iff (keyed : List (Value × Outcome Value)) (s : ES) :
    (keyed.any fun kr => match kr.2 with | .fuel => true | _ => false) = false ↔ NFK (keyed, s) := by
  simp only [NFK, List.any_eq_false]
  constructor
  · intro h kr hk hf; have := h kr hk; rw [hf] at this; simp at this
  · intro h kr hk; have := h kr hk; cases hr : kr.2 <;> simp_all

/-- one step of fuel monotonicity, for all fifteen functions at once -/
structure FuelStep (ops : NumOps) (n : Nat) : Prop where
  eval : ∀ d e s, NF (eval ops n d e s) → eval ops (n+1) d e s = eval ops n d e s
  evalList : ∀ d es s, NF (evalList ops n d es s) → evalList ops (n+1) d es s = evalList ops n d es s
  evalItems : ∀ d es s, NF (evalItems ops n d es s) → evalItems ops (n+1) d es s = evalItems ops n d es s
  evalEntries : ∀ d es acc s, NF (evalEntries ops n d es acc s) →
    evalEntries ops (n+1) d es acc s = evalEntries ops n d es acc s
  evalDoStmt : ∀ d e s, NF (evalDoStmt ops n d e s) → evalDoStmt ops (n+1) d e s = evalDoStmt ops n d e s
  evalDo : ∀ d st ret s, NF (evalDo ops n d st ret s) → evalDo ops (n+1) d st ret s = evalDo ops n d st ret s
  callFn : ∀ fv this args d s, NF (callFn ops n fv this args d s) →
    callFn ops (n+1) fv this args d s = callFn ops n fv this args d s
  mapCalls : ∀ f w L i d s, NF (mapCalls ops n f w L i d s) →
    mapCalls ops (n+1) f w L i d s = mapCalls ops n f w L i d s
  quantCalls : ∀ f w q L i d s, NF (quantCalls ops n f w q L i d s) →
    quantCalls ops (n+1) f w q L i d s = quantCalls ops n f w q L i d s
  foldCalls : ∀ f w acc L i d s, NF (foldCalls ops n f w acc L i d s) →
    foldCalls ops (n+1) f w acc L i d s = foldCalls ops n f w acc L i d s
  keyCalls : ∀ f L d s, NFK (keyCalls ops n f L d s) → keyCalls ops (n+1) f L d s = keyCalls ops n f L d s
  callHof : ∀ name args d s, NF (callHof ops n name args d s) →
    callHof ops (n+1) name args d s = callHof ops n name args d s
  evalBin : ∀ d op a b s, NF (evalBin ops n d op a b s) → evalBin ops (n+1) d op a b s = evalBin ops n d op a b s
  viaPairs : ∀ la lb d s, NF (viaPairs ops n la lb d s) → viaPairs ops (n+1) la lb d s = viaPairs ops n la lb d s
  whereCalls : ∀ f w L i d s, NF (whereCalls ops n f w L i d s) →
    whereCalls ops (n+1) f w L i d s = whereCalls ops n f w L i d s

/- `unfold_step eqn`: unfold `F ops (n+1+1) …` on the left, `F ops (n+1) …` on the right and
   in `h`, with the given equation -/
syntax "unfold_step " ident : tactic
set_option hygiene false in
macro_rules
  | `(tactic| unfold_step $f) => `(tactic|
      (rw [$f:ident] at h; try dsimp only at h
       conv => lhs; rw [$f:ident]
       conv => rhs; rw [$f:ident]
       try dsimp only))

/- `replay`: split the hypothesis along the evaluation that happened, then replay it one fuel
   higher with the induction hypotheses (all in the context) -/
set_option hygiene false in
macro "replay" : tactic => `(tactic|
  ((repeat' split at h) <;> (try simp at h) <;> (try simp [*]) <;> (try (split <;> simp_all))))

theorem fuelStep_zero (ops : NumOps) : FuelStep ops 0 := by
  constructor
  case keyCalls =>
    intro f L d s h
    cases L with
    | nil => simp [keyCalls]
    | cons x xs => simp [NFK, keyCalls] at h
  all_goals
    intros
    rename_i h
    first
      | (rw [eval] at h; simp at h)
      | (rw [evalList] at h; simp at h)
      | (rw [evalItems] at h; simp at h)
      | (rw [evalEntries] at h; simp at h)
      | (rw [evalDoStmt] at h; simp at h)
      | (rw [evalDo] at h; simp at h)
      | (rw [callFn] at h; simp at h)
      | (rw [mapCalls] at h; simp at h)
      | (rw [quantCalls] at h; simp at h)
      | (rw [foldCalls] at h; simp at h)
      | (rw [callHof] at h; simp at h)
      | (rw [evalBin] at h; simp at h)
      | (rw [viaPairs] at h; simp at h)
      | (rw [whereCalls] at h; simp at h)

section step
variable {ops : NumOps} {n : Nat}

theorem mapCalls_step (ih : FuelStep ops n) (f : Value) (w : Bool) (L : List Value) (i d : Nat) (s : ES)
    (h : NF (mapCalls ops (n+1) f w L i d s)) :
    mapCalls ops (n+1+1) f w L i d s = mapCalls ops (n+1) f w L i d s := by
  obtain ⟨_, _, _, _, _, _, ihCall, ihMap, _, _, _, _, _, _, _⟩ := ih
  cases L with
  | nil => simp [mapCalls]
  | cons x xs =>
    unfold_step mapCalls.eq_3
    replay

theorem whereCalls_step (ih : FuelStep ops n) (f : Value) (w : Bool) (L : List Value) (i d : Nat) (s : ES)
    (h : NF (whereCalls ops (n+1) f w L i d s)) :
    whereCalls ops (n+1+1) f w L i d s = whereCalls ops (n+1) f w L i d s := by
  obtain ⟨_, _, _, _, _, _, ihCall, _, _, _, _, _, _, _, ihWhere⟩ := ih
  cases L with
  | nil => simp [whereCalls]
  | cons x xs =>
    unfold_step whereCalls.eq_3
    replay

theorem quantCalls_step (ih : FuelStep ops n) (f : Value) (w q : Bool) (L : List Value) (i d : Nat) (s : ES)
    (h : NF (quantCalls ops (n+1) f w q L i d s)) :
    quantCalls ops (n+1+1) f w q L i d s = quantCalls ops (n+1) f w q L i d s := by
  obtain ⟨_, _, _, _, _, _, ihCall, _, ihQ, _, _, _, _, _, _⟩ := ih
  cases L with
  | nil => simp [quantCalls]
  | cons x xs =>
    unfold_step quantCalls.eq_3
    replay

theorem foldCalls_step (ih : FuelStep ops n) (f : Value) (w : Bool) (acc : Value) (L : List Value)
    (i d : Nat) (s : ES) (h : NF (foldCalls ops (n+1) f w acc L i d s)) :
    foldCalls ops (n+1+1) f w acc L i d s = foldCalls ops (n+1) f w acc L i d s := by
  obtain ⟨_, _, _, _, _, _, ihCall, _, _, ihF, _, _, _, _, _⟩ := ih
  cases L with
  | nil => simp [foldCalls]
  | cons x xs =>
    unfold_step foldCalls.eq_3
    replay

theorem viaPairs_step (ih : FuelStep ops n) (la lb : List Value) (d : Nat) (s : ES)
    (h : NF (viaPairs ops (n+1) la lb d s)) :
    viaPairs ops (n+1+1) la lb d s = viaPairs ops (n+1) la lb d s := by
  obtain ⟨_, _, _, _, _, _, ihCall, _, _, _, _, _, _, ihVia, _⟩ := ih
  unfold_step viaPairs.eq_def
  replay

theorem evalList_step (ih : FuelStep ops n) (d : Nat) (es : List Expr) (s : ES)
    (h : NF (evalList ops (n+1) d es s)) : evalList ops (n+1+1) d es s = evalList ops (n+1) d es s := by
  obtain ⟨ihEval, ihList, _, _, _, _, _, _, _, _, _, _, _, _, _⟩ := ih
  cases es with
  | nil => simp [evalList]
  | cons x xs =>
    unfold_step evalList.eq_3
    replay

theorem evalItems_step (ih : FuelStep ops n) (d : Nat) (es : List Item) (s : ES)
    (h : NF (evalItems ops (n+1) d es s)) : evalItems ops (n+1+1) d es s = evalItems ops (n+1) d es s := by
  obtain ⟨ihEval, _, ihItems, _, _, _, _, _, _, _, _, _, _, _, _⟩ := ih
  cases es with
  | nil => simp [evalItems]
  | cons x xs =>
    cases x
    unfold_step evalItems.eq_3
    replay

theorem evalEntries_step (ih : FuelStep ops n) (d : Nat) (es : List Entry) (acc : Frame) (s : ES)
    (h : NF (evalEntries ops (n+1) d es acc s)) :
    evalEntries ops (n+1+1) d es acc s = evalEntries ops (n+1) d es acc s := by
  obtain ⟨ihEval, _, _, ihEntries, _, _, _, _, _, _, _, _, _, _, _⟩ := ih
  cases es with
  | nil => simp [evalEntries]
  | cons x xs =>
    obtain ⟨l, k, v, t⟩ := x
    cases k
    · unfold_step evalEntries.eq_3
      replay
    · unfold_step evalEntries.eq_4
      replay
    · unfold_step evalEntries.eq_5
      replay
    · unfold_step evalEntries.eq_6
      replay

theorem evalDoStmt_step (ih : FuelStep ops n) (d : Nat) (e : Expr) (s : ES)
    (h : NF (evalDoStmt ops (n+1) d e s)) : evalDoStmt ops (n+1+1) d e s = evalDoStmt ops (n+1) d e s := by
  obtain ⟨ihEval, _, _, _, _, _, _, _, _, _, _, _, _, _, _⟩ := ih
  unfold_step evalDoStmt.eq_def
  replay

theorem evalDo_step (ih : FuelStep ops n) (d : Nat) (st : List Item) (ret : Item) (s : ES)
    (h : NF (evalDo ops (n+1) d st ret s)) : evalDo ops (n+1+1) d st ret s = evalDo ops (n+1) d st ret s := by
  obtain ⟨_, _, _, _, ihStmt, ihDo, _, _, _, _, _, _, _, _, _⟩ := ih
  cases st with
  | nil =>
    cases ret
    unfold_step evalDo.eq_2
    exact ihStmt _ _ _ h
  | cons x xs =>
    cases x
    unfold_step evalDo.eq_3
    replay

theorem callFn_step (ih : FuelStep ops n) (fv this : Value) (args : List Value) (d : Nat) (s : ES)
    (h : NF (callFn ops (n+1) fv this args d s)) :
    callFn ops (n+1+1) fv this args d s = callFn ops (n+1) fv this args d s := by
  obtain ⟨ihEval, _, _, _, _, _, _, _, _, _, _, ihHof, _, _, _⟩ := ih
  unfold_step callFn.eq_def
  replay

theorem evalBin_step (ih : FuelStep ops n) (d : Nat) (op : BinOp) (a b : Value) (s : ES)
    (h : NF (evalBin ops (n+1) d op a b s)) :
    evalBin ops (n+1+1) d op a b s = evalBin ops (n+1) d op a b s := by
  obtain ⟨_, _, _, _, _, _, ihCall, ihMap, _, _, _, _, _, ihVia, ihWhere⟩ := ih
  unfold_step evalBin_succ
  replay

theorem keyCalls_step (ih : FuelStep ops n) (f : Value) (L : List Value) (d : Nat) (s : ES)
    (h : NFK (keyCalls ops (n+1) f L d s)) :
    keyCalls ops (n+1+1) f L d s = keyCalls ops (n+1) f L d s := by
  obtain ⟨_, _, _, _, _, _, ihCall, _, _, _, ihKey, _, _, _, _⟩ := ih
  cases L with
  | nil => simp [keyCalls]
  | cons x xs =>
    rw [keyCalls.eq_3] at h
    conv => lhs; rw [keyCalls.eq_3]
    conv => rhs; rw [keyCalls.eq_3]
    simp only [NFK, List.mem_cons, forall_eq_or_imp] at h
    obtain ⟨h1, h2⟩ := h
    rw [ihCall _ _ _ _ _ h1]
    cases hc : callFn ops n f f [x] d s with
    | mk r s1 =>
      rw [hc] at h2
      simp only []
      rw [ihKey _ _ _ _ h2]

theorem callHof_step (ih : FuelStep ops n) (name : String) (args : List Value) (d : Nat) (s : ES)
    (h : NF (callHof ops (n+1) name args d s)) :
    callHof ops (n+1+1) name args d s = callHof ops (n+1) name args d s := by
  obtain ⟨_, _, _, _, _, _, _, ihMap, ihQuant, ihFold, ihKey, _, _, _, ihWhere⟩ := ih
  unfold_step callHof.eq_2
  split at h
  · split at h
    · -- sort_by
      split at h
      · split at h
        · simp [*]
        · split at h
          · simp at h
          · rename_i hany
            have hnfk : NFK (keyCalls ops n _ _ _ _) :=
              (any_fuel_key_iff _ (keyCalls ops n _ _ _ _).2).mp (Bool.eq_false_iff.mpr hany)
            simp [ihKey _ _ _ _ hnfk, *]
      · simp [*]
    · replay
  · replay

theorem eval_step (ih : FuelStep ops n) (d : Nat) (e : Expr) (s : ES)
    (h : NF (eval ops (n+1) d e s)) : eval ops (n+1+1) d e s = eval ops (n+1) d e s := by
  obtain ⟨ihEval, ihList, ihItems, ihEntries, _, ihDo, ihCall, _, _, _, _, _, ihBin, _, _⟩ := ih
  cases e <;> unfold_step eval <;> replay

theorem fuelStep_succ (ih : FuelStep ops n) : FuelStep ops (n+1) :=
  ⟨eval_step ih, evalList_step ih, evalItems_step ih, evalEntries_step ih, evalDoStmt_step ih,
   evalDo_step ih, callFn_step ih, mapCalls_step ih, quantCalls_step ih, foldCalls_step ih,
   keyCalls_step ih, callHof_step ih, evalBin_step ih, viaPairs_step ih, whereCalls_step ih⟩

end step

theorem fuelStep (ops : NumOps) : ∀ n, FuelStep ops n
  | 0 => fuelStep_zero ops
  | n + 1 => fuelStep_succ (fuelStep ops n)

/-- from one step to any larger fuel -/
theorem mono_of_step {α : Type} (F : Nat → α) (P : α → Prop) (hstep : ∀ n, P (F n) → F (n+1) = F n)
    (n : Nat) (hP : P (F n)) : ∀ m, n ≤ m → F m = F n := by
  intro m hm
  induction m with
  | zero => have : n = 0 := by omega
            subst this; rfl
  | succ k ih =>
    by_cases hk : n ≤ k
    · have e := ih hk
      rw [hstep k (by rw [e]; exact hP), e]
    · have : n = k + 1 := by omega
      subst this; rfl

/-! ### fuel monotonicity: a non-`fuel` answer is the answer for every larger fuel -/

theorem eval_fuel_mono (ops : NumOps) {n m : Nat} (hm : n ≤ m) {d e} {s : ES}
    (h : NF (eval ops n d e s)) : eval ops m d e s = eval ops n d e s :=
  mono_of_step (fun k => eval ops k d e s) (fun x => NF x)
    (fun k hk => (fuelStep ops k).eval _ _ _ hk) n h m hm

theorem evalList_fuel_mono (ops : NumOps) {n m : Nat} (hm : n ≤ m) {d es} {s : ES}
    (h : NF (evalList ops n d es s)) : evalList ops m d es s = evalList ops n d es s :=
  mono_of_step (fun k => evalList ops k d es s) (fun x => NF x)
    (fun k hk => (fuelStep ops k).evalList _ _ _ hk) n h m hm

theorem evalItems_fuel_mono (ops : NumOps) {n m : Nat} (hm : n ≤ m) {d es} {s : ES}
    (h : NF (evalItems ops n d es s)) : evalItems ops m d es s = evalItems ops n d es s :=
  mono_of_step (fun k => evalItems ops k d es s) (fun x => NF x)
    (fun k hk => (fuelStep ops k).evalItems _ _ _ hk) n h m hm

theorem evalEntries_fuel_mono (ops : NumOps) {n m : Nat} (hm : n ≤ m) {d es acc} {s : ES}
    (h : NF (evalEntries ops n d es acc s)) : evalEntries ops m d es acc s = evalEntries ops n d es acc s :=
  mono_of_step (fun k => evalEntries ops k d es acc s) (fun x => NF x)
    (fun k hk => (fuelStep ops k).evalEntries _ _ _ _ hk) n h m hm

theorem evalDoStmt_fuel_mono (ops : NumOps) {n m : Nat} (hm : n ≤ m) {d e} {s : ES}
    (h : NF (evalDoStmt ops n d e s)) : evalDoStmt ops m d e s = evalDoStmt ops n d e s :=
  mono_of_step (fun k => evalDoStmt ops k d e s) (fun x => NF x)
    (fun k hk => (fuelStep ops k).evalDoStmt _ _ _ hk) n h m hm

theorem evalDo_fuel_mono (ops : NumOps) {n m : Nat} (hm : n ≤ m) {d st ret} {s : ES}
    (h : NF (evalDo ops n d st ret s)) : evalDo ops m d st ret s = evalDo ops n d st ret s :=
  mono_of_step (fun k => evalDo ops k d st ret s) (fun x => NF x)
    (fun k hk => (fuelStep ops k).evalDo _ _ _ _ hk) n h m hm

theorem callFn_fuel_mono (ops : NumOps) {n m : Nat} (hm : n ≤ m) {fv this args d} {s : ES}
    (h : NF (callFn ops n fv this args d s)) : callFn ops m fv this args d s = callFn ops n fv this args d s :=
  mono_of_step (fun k => callFn ops k fv this args d s) (fun x => NF x)
    (fun k hk => (fuelStep ops k).callFn _ _ _ _ _ hk) n h m hm

theorem mapCalls_fuel_mono (ops : NumOps) {n m : Nat} (hm : n ≤ m) {f w L i d} {s : ES}
    (h : NF (mapCalls ops n f w L i d s)) : mapCalls ops m f w L i d s = mapCalls ops n f w L i d s :=
  mono_of_step (fun k => mapCalls ops k f w L i d s) (fun x => NF x)
    (fun k hk => (fuelStep ops k).mapCalls _ _ _ _ _ _ hk) n h m hm

theorem quantCalls_fuel_mono (ops : NumOps) {n m : Nat} (hm : n ≤ m) {f w q L i d} {s : ES}
    (h : NF (quantCalls ops n f w q L i d s)) : quantCalls ops m f w q L i d s = quantCalls ops n f w q L i d s :=
  mono_of_step (fun k => quantCalls ops k f w q L i d s) (fun x => NF x)
    (fun k hk => (fuelStep ops k).quantCalls _ _ _ _ _ _ _ hk) n h m hm

theorem foldCalls_fuel_mono (ops : NumOps) {n m : Nat} (hm : n ≤ m) {f w acc L i d} {s : ES}
    (h : NF (foldCalls ops n f w acc L i d s)) : foldCalls ops m f w acc L i d s = foldCalls ops n f w acc L i d s :=
  mono_of_step (fun k => foldCalls ops k f w acc L i d s) (fun x => NF x)
    (fun k hk => (fuelStep ops k).foldCalls _ _ _ _ _ _ _ hk) n h m hm

theorem callHof_fuel_mono (ops : NumOps) {n m : Nat} (hm : n ≤ m) {name args d} {s : ES}
    (h : NF (callHof ops n name args d s)) : callHof ops m name args d s = callHof ops n name args d s :=
  mono_of_step (fun k => callHof ops k name args d s) (fun x => NF x)
    (fun k hk => (fuelStep ops k).callHof _ _ _ _ hk) n h m hm

theorem evalBin_fuel_mono (ops : NumOps) {n m : Nat} (hm : n ≤ m) {d op a b} {s : ES}
    (h : NF (evalBin ops n d op a b s)) : evalBin ops m d op a b s = evalBin ops n d op a b s :=
  mono_of_step (fun k => evalBin ops k d op a b s) (fun x => NF x)
    (fun k hk => (fuelStep ops k).evalBin _ _ _ _ _ hk) n h m hm

theorem viaPairs_fuel_mono (ops : NumOps) {n m : Nat} (hm : n ≤ m) {la lb d} {s : ES}
    (h : NF (viaPairs ops n la lb d s)) : viaPairs ops m la lb d s = viaPairs ops n la lb d s :=
  mono_of_step (fun k => viaPairs ops k la lb d s) (fun x => NF x)
    (fun k hk => (fuelStep ops k).viaPairs _ _ _ _ hk) n h m hm

theorem whereCalls_fuel_mono (ops : NumOps) {n m : Nat} (hm : n ≤ m) {f w L i d} {s : ES}
    (h : NF (whereCalls ops n f w L i d s)) : whereCalls ops m f w L i d s = whereCalls ops n f w L i d s :=
  mono_of_step (fun k => whereCalls ops k f w L i d s) (fun x => NF x)
    (fun k hk => (fuelStep ops k).whereCalls _ _ _ _ _ _ hk) n h m hm

theorem keyCalls_fuel_mono (ops : NumOps) {n m : Nat} (hm : n ≤ m) {f : Value} {L : List Value} {d : Nat}
    {s : ES} (h : NFK (keyCalls ops n f L d s)) : keyCalls ops m f L d s = keyCalls ops n f L d s :=
  mono_of_step (fun k => keyCalls ops k f L d s) NFK
    (fun k hk => (fuelStep ops k).keyCalls _ _ _ _ hk) n h m hm

/-- the form asked for: if a call returns `(r, s')` with `r ≠ .fuel`, every larger fuel gives
    the same `(r, s')` (shown for `callFn` and `eval`; the other thirteen are the
    `*_fuel_mono` lemmas above) -/
theorem callFn_fuel_mono' (ops : NumOps) {n m : Nat} (hm : n ≤ m) {fv this : Value} {args : List Value}
    {d : Nat} {s s' : ES} {r : Outcome Value} (h : callFn ops n fv this args d s = (r, s'))
    (hr : r ≠ .fuel) : callFn ops m fv this args d s = (r, s') := by
  rw [callFn_fuel_mono ops hm (by rw [h]; exact hr), h]

theorem eval_fuel_mono' (ops : NumOps) {n m : Nat} (hm : n ≤ m) {d : Nat} {e : Expr} {s s' : ES}
    {r : Outcome Value} (h : eval ops n d e s = (r, s')) (hr : r ≠ .fuel) :
    eval ops m d e s = (r, s') := by
  rw [eval_fuel_mono ops hm (by rw [h]; exact hr), h]

end Blots
