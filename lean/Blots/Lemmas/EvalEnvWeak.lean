import Blots.Lemmas.EvalEnv
/-
  Weakening (C02 (4)): binding a fresh name that is not mentioned does not change evaluation.
-/
namespace Blots

/-! ### weakening: an unused fresh name -/

mutual
/-- `t` occurs in `e` as an identifier, assignment target, parameter or shorthand key
    (`#field` counts as an occurrence of `inputs`) -/
def mentions (t : String) : Expr → Bool
  | .ident n => n == t
  | .inref _ => t == "inputs"
  | .lambda args body => args.any (fun a => a.name == t) || mentions t body
  | .assign n v => n == t || mentions t v
  | .bin _ l r => mentions t l || mentions t r
  | .un _ e => mentions t e
  | .fact e => mentions t e
  | .spread e => mentions t e
  | .output e => mentions t e
  | .call f args => mentions t f || mentionsList t args
  | .access e i => mentions t e || mentions t i
  | .dot e _ => mentions t e
  | .cond c a b => mentions t c || mentions t a || mentions t b
  | .list items => mentionsItems t items
  | .record es => mentionsEntries t es
  | .doBlock stmts ret => mentionsItems t stmts || mentionsItem t ret
  | _ => false
def mentionsList (t : String) : List Expr → Bool
  | [] => false
  | e :: es => mentions t e || mentionsList t es
def mentionsItem (t : String) : Item → Bool
  | .mk _ e _ => mentions t e
def mentionsItems (t : String) : List Item → Bool
  | [] => false
  | i :: is => mentionsItem t i || mentionsItems t is
def mentionsEntry (t : String) : Entry → Bool
  | .mk _ k v _ => mentionsKey t k || mentions t v
def mentionsEntries (t : String) : List Entry → Bool
  | [] => false
  | e :: es => mentionsEntry t e || mentionsEntries t es
def mentionsKey (t : String) : Key → Bool
  | .static _ => false
  | .dyn e => mentions t e
  | .short n => n == t
  | .spread e => mentions t e
end

mutual
/-- no function application: no call expression, no `via` / `into` / `where` -/
def callFree : Expr → Bool
  | .call _ _ => false
  | .bin op l r => op != .via && op != .into && op != .where_ && callFree l && callFree r
  | .lambda _ body => callFree body
  | .assign _ v => callFree v
  | .un _ e => callFree e
  | .fact e => callFree e
  | .spread e => callFree e
  | .output e => callFree e
  | .access e i => callFree e && callFree i
  | .dot e _ => callFree e
  | .cond c a b => callFree c && callFree a && callFree b
  | .list items => callFreeItems items
  | .record es => callFreeEntries es
  | .doBlock stmts ret => callFreeItems stmts && callFreeItem ret
  | _ => true
def callFreeItem : Item → Bool
  | .mk _ e _ => callFree e
def callFreeItems : List Item → Bool
  | [] => true
  | i :: is => callFreeItem i && callFreeItems is
def callFreeEntry : Entry → Bool
  | .mk _ k v _ => callFreeKey k && callFree v
def callFreeEntries : List Entry → Bool
  | [] => true
  | e :: es => callFreeEntry e && callFreeEntries es
def callFreeKey : Key → Bool
  | .dyn e => callFree e
  | .spread e => callFree e
  | _ => true
end

theorem evalBin_nocall (ops : NumOps) (fuel depth : Nat) (op : BinOp) (a b : Value) (s s' : ES)
    (h : (op != .via && op != .into && op != .where_) = true) :
    evalBin ops fuel depth op a b s' = ((evalBin ops fuel depth op a b s).1, s') := by
  cases fuel with
  | zero => simp [evalBin]
  | succ fuel =>
    rw [evalBin.eq_def, evalBin.eq_def]
    dsimp only
    split
    · rfl
    split
    · rfl
    split
    all_goals repeat' split
    all_goals first | rfl | exact absurd h (by decide)

/-! #### free variables are mentioned -/

mutual
theorem freeVars_mentions : ∀ (e : Expr) (bound : List String) (x : String),
    x ∈ freeVars bound e → mentions x e = true
  | .num _, _, _, h | .str _, _, _, h | .bool _, _, _, h | .null, _, _, h | .inref _, _, _, h
  | .builtin _, _, _, h | .output _, _, _, h => by simp [freeVars] at h
  | .ident n, bound, x, h => by
    simp only [freeVars] at h
    split at h
    · simp at h
    · simp at h; simp [mentions, h]
  | .lambda args body, bound, x, h => by
    simp only [freeVars] at h
    simp [mentions, freeVars_mentions body _ x h]
  | .bin _ l r, bound, x, h => by
    simp only [freeVars, List.mem_append] at h
    rcases h with h | h
    · simp [mentions, freeVars_mentions l bound x h]
    · simp [mentions, freeVars_mentions r bound x h]
  | .un _ e, bound, x, h => by
    simp only [freeVars] at h; simp [mentions, freeVars_mentions e bound x h]
  | .fact e, bound, x, h => by
    simp only [freeVars] at h; simp [mentions, freeVars_mentions e bound x h]
  | .spread e, bound, x, h => by
    simp only [freeVars] at h; simp [mentions, freeVars_mentions e bound x h]
  | .call f args, bound, x, h => by
    simp only [freeVars, List.mem_append] at h
    rcases h with h | h
    · simp [mentions, freeVars_mentions f bound x h]
    · simp [mentions, freeVarsList_mentions args bound x h]
  | .access e i, bound, x, h => by
    simp only [freeVars, List.mem_append] at h
    rcases h with h | h
    · simp [mentions, freeVars_mentions e bound x h]
    · simp [mentions, freeVars_mentions i bound x h]
  | .dot e _, bound, x, h => by
    simp only [freeVars] at h; simp [mentions, freeVars_mentions e bound x h]
  | .cond c a b, bound, x, h => by
    simp only [freeVars, List.mem_append] at h
    rcases h with (h | h) | h
    · simp [mentions, freeVars_mentions c bound x h]
    · simp [mentions, freeVars_mentions a bound x h]
    · simp [mentions, freeVars_mentions b bound x h]
  | .assign _ v, bound, x, h => by
    simp only [freeVars] at h; simp [mentions, freeVars_mentions v bound x h]
  | .list items, bound, x, h => by
    simp only [freeVars] at h; simp [mentions, freeVarsItems_mentions items bound x h]
  | .record es, bound, x, h => by
    simp only [freeVars] at h; simp [mentions, freeVarsEntries_mentions es bound x h]
  | .doBlock stmts (.mk _ re _), bound, x, h => by
    simp only [freeVars, List.mem_append, freeVarsItem] at h
    rcases h with h | h
    · simp [mentions, freeVarsStmts_mentions stmts bound x h]
    · simp [mentions, mentionsItem, freeVars_mentions re _ x h]
theorem freeVarsList_mentions : ∀ (es : List Expr) (bound : List String) (x : String),
    x ∈ freeVarsList bound es → mentionsList x es = true
  | [], _, _, h => by simp [freeVarsList] at h
  | e :: es, bound, x, h => by
    simp only [freeVarsList, List.mem_append] at h
    rcases h with h | h
    · simp [mentionsList, freeVars_mentions e bound x h]
    · simp [mentionsList, freeVarsList_mentions es bound x h]
theorem freeVarsItems_mentions : ∀ (is : List Item) (bound : List String) (x : String),
    x ∈ freeVarsItems bound is → mentionsItems x is = true
  | [], _, _, h => by simp [freeVarsItems] at h
  | .mk _ e _ :: is, bound, x, h => by
    simp only [freeVarsItems, freeVarsItem, List.mem_append] at h
    rcases h with h | h
    · simp [mentionsItems, mentionsItem, freeVars_mentions e bound x h]
    · simp [mentionsItems, freeVarsItems_mentions is bound x h]
theorem freeVarsStmts_mentions : ∀ (is : List Item) (bound : List String) (x : String),
    x ∈ freeVarsStmts bound is → mentionsItems x is = true
  | [], _, _, h => by simp [freeVarsStmts] at h
  | .mk _ e _ :: is, bound, x, h => by
    simp only [freeVarsStmts, freeVarsItem, List.mem_append] at h
    rcases h with h | h
    · simp [mentionsItems, mentionsItem, freeVars_mentions e bound x h]
    · simp [mentionsItems, freeVarsStmts_mentions is _ x h]
theorem freeVarsEntries_mentions : ∀ (es : List Entry) (bound : List String) (x : String),
    x ∈ freeVarsEntries bound es → mentionsEntries x es = true
  | [], _, _, h => by simp [freeVarsEntries] at h
  | .mk _ k v _ :: es, bound, x, h => by
    simp only [freeVarsEntries, freeVarsEntry, List.mem_append] at h
    rcases h with h | h
    · cases k with
      | static _ =>
        simp only [freeVarsKey] at h
        simp [mentionsEntries, mentionsEntry, freeVars_mentions v bound x h]
      | dyn ke =>
        simp only [freeVarsKey, List.mem_append] at h
        rcases h with h | h
        · simp [mentionsEntries, mentionsEntry, mentionsKey, freeVars_mentions ke bound x h]
        · simp [mentionsEntries, mentionsEntry, freeVars_mentions v bound x h]
      | short n =>
        simp only [freeVarsKey] at h
        split at h
        · simp at h
        · simp at h; simp [mentionsEntries, mentionsEntry, mentionsKey, h]
      | spread se =>
        simp only [freeVarsKey] at h
        simp [mentionsEntries, mentionsEntry, mentionsKey, freeVars_mentions se bound x h]
    · simp [mentionsEntries, freeVarsEntries_mentions es bound x h]
end

/-! #### the extra binding -/

/-- `E` with the extra binding `(t, w)` at the head of the frame at depth `k` -/
def addAt (t : String) (w : Value) : Nat → List Frame → List Frame
  | 0, f :: r => ((t, w) :: f) :: r
  | k + 1, g :: E => g :: addAt t w k E
  | _, [] => []

def addT (t : String) (w : Value) (k : Nat) (s : ES) : ES := { s with env := addAt t w k s.env }

theorem envGet_addAt (t : String) (w : Value) {x : String} (hx : x ≠ t) : ∀ (k : Nat) (E : List Frame),
    envGet (addAt t w k E) x = envGet E x
  | 0, f :: r => by simp [addAt, envGet, lookupAL, Ne.symm hx]
  | k + 1, g :: E => by simp only [addAt, envGet, envGet_addAt t w hx k E]
  | 0, [] => rfl
  | _ + 1, [] => rfl

theorem envInsert_addAt (t : String) (w : Value) {n : String} (v : Value) (hn : n ≠ t) :
    ∀ (k : Nat) (E : List Frame), k < E.length →
    envInsert (addAt t w k E) n v = addAt t w k (envInsert E n v)
  | 0, f :: r, _ => by simp [addAt, envInsert, insertAL, Ne.symm hn]
  | k + 1, g :: E, _ => rfl
  | 0, [], h => by simp at h
  | _ + 1, [], h => by simp at h

theorem alreadyDefined_addAt (t : String) (w : Value) {n : String} (hn : n ≠ t) (depth k : Nat)
    (E : List Frame) : alreadyDefined depth (addAt t w k E) n = alreadyDefined depth E n := by
  unfold alreadyDefined
  split
  · cases k with
    | zero =>
      cases E with
      | nil => rfl
      | cons f r => simp [addAt, lookupAL, Ne.symm hn]
    | succ k =>
      cases E with
      | nil => rfl
      | cons f r => rfl
  · simp [envContains, envGet_addAt t w hn]

theorem addAt_drop (t : String) (w : Value) (k : Nat) : ∀ (E : List Frame),
    (addAt t w (k + 1) E).drop 1 = addAt t w k (E.drop 1)
  | [] => by cases k <;> rfl
  | g :: E => rfl

theorem addAt_length (t : String) (w : Value) : ∀ (k : Nat) (E : List Frame), (addAt t w k E).length = E.length
  | 0, f :: r => rfl
  | k + 1, g :: E => by simp [addAt, addAt_length t w k E]
  | 0, [] => rfl
  | _ + 1, [] => rfl

theorem captureScope_congr (E E' : List Frame) : ∀ (vars : List String) (sc : Frame),
    (∀ y ∈ vars, envGet E' y = envGet E y) →
    vars.foldl (fun sc y => match envGet E' y with
        | some v => insertAL y v sc
        | none => sc) sc =
    vars.foldl (fun sc y => match envGet E y with
        | some v => insertAL y v sc
        | none => sc) sc
  | [], _, _ => rfl
  | y :: vars, sc, h => by
    simp only [List.foldl_cons, h y (List.mem_cons_self ..)]
    exact captureScope_congr E E' vars _ (fun z hz => h z (List.mem_cons_of_mem _ hz))

theorem setNameIfLambda_addT (t : String) (w : Value) (k : Nat) (s : ES) (n : String) (v : Value) :
    setNameIfLambda (addT t w k s) n v = addT t w k (setNameIfLambda s n v) := by
  cases v with
  | lambda id a b sc =>
    simp only [setNameIfLambda, addT]
    cases nameOf s.names id <;> rfl
  | _ => rfl

theorem len_of_ext {E E' : List Frame} (h : SameBelow E E') {k : Nat} (hk : k < E.length) : k < E'.length := by
  have : E ≠ [] := by intro e; subst e; simp at hk
  rw [h.length this]; exact hk

/-! #### the induction -/

section
variable (ops : NumOps) (t : String) (w : Value)

/-- weakening for expressions without function application, all evaluator functions involved,
    by induction on the fuel: evaluating in a state with the extra binding gives the same
    outcome, and the same state with the extra binding -/
theorem weak_group (ht : t ≠ "inputs") : ∀ fuel : Nat,
    (∀ depth e k s, mentions t e = false → callFree e = true → k < s.env.length →
      eval ops fuel depth e (addT t w k s) =
        ((eval ops fuel depth e s).1, addT t w k (eval ops fuel depth e s).2)) ∧
    (∀ depth is k s, mentionsItems t is = false → callFreeItems is = true → k < s.env.length →
      evalItems ops fuel depth is (addT t w k s) =
        ((evalItems ops fuel depth is s).1, addT t w k (evalItems ops fuel depth is s).2)) ∧
    (∀ depth es acc k s, mentionsEntries t es = false → callFreeEntries es = true → k < s.env.length →
      evalEntries ops fuel depth es acc (addT t w k s) =
        ((evalEntries ops fuel depth es acc s).1, addT t w k (evalEntries ops fuel depth es acc s).2)) ∧
    (∀ depth e k s, mentions t e = false → callFree e = true → k < s.env.length →
      evalDoStmt ops fuel depth e (addT t w k s) =
        ((evalDoStmt ops fuel depth e s).1, addT t w k (evalDoStmt ops fuel depth e s).2)) ∧
    (∀ depth stmts ret k s, mentionsItems t stmts = false → mentionsItem t ret = false →
      callFreeItems stmts = true → callFreeItem ret = true → k < s.env.length →
      evalDo ops fuel depth stmts ret (addT t w k s) =
        ((evalDo ops fuel depth stmts ret s).1, addT t w k (evalDo ops fuel depth stmts ret s).2)) := by
  intro fuel
  induction fuel with
  | zero =>
    refine ⟨?_, ?_, ?_, ?_, ?_⟩ <;> intros <;> simp [eval, evalItems, evalEntries, evalDoStmt, evalDo]
  | succ fuel ih =>
    obtain ⟨ihE, ihI, ihR, ihS, ihD⟩ := ih
    have lenE : ∀ depth e (s : ES) k, k < s.env.length → k < (eval ops fuel depth e s).2.env.length :=
      fun depth e s k hk => len_of_ext (eval_topExt ops fuel depth e s).below hk
    refine ⟨?_, ?_, ?_, ?_, ?_⟩
    · intro depth e k s hm hc hk
      cases e with
      | num x => simp [eval]
      | str x => simp [eval]
      | bool x => simp [eval]
      | null => simp [eval]
      | builtin n => simp [eval]
      | call f args => simp [callFree] at hc
      | ident n =>
        have hn : n ≠ t := by simpa [mentions] using hm
        rw [eval, eval]
        simp only [addT, envGet_addAt t w hn]
        repeat' split
        all_goals rfl
      | inref field =>
        rw [eval, eval]
        simp only [addT, envGet_addAt t w (Ne.symm ht)]
        repeat' split
        all_goals first | rfl | simp_all
      | un op inner =>
        simp only [mentions, callFree] at hm hc
        rw [eval, eval, ihE _ inner k s hm hc hk]
        generalize eval ops fuel depth inner s = p
        obtain ⟨r, s1⟩ := p
        cases r <;> try rfl
        dsimp only
        split <;> rfl
      | fact inner =>
        simp only [mentions, callFree] at hm hc
        rw [eval, eval, ihE _ inner k s hm hc hk]
        generalize eval ops fuel depth inner s = p
        obtain ⟨r, s1⟩ := p
        cases r <;> try rfl
        rename_i v
        cases v <;> try rfl
        dsimp only
        split <;> rfl
      | spread inner =>
        simp only [mentions, callFree] at hm hc
        rw [eval, eval, ihE _ inner k s hm hc hk]
        generalize eval ops fuel depth inner s = p
        obtain ⟨r, s1⟩ := p
        cases r <;> try rfl
        rename_i v
        cases v <;> rfl
      | dot inner field =>
        simp only [mentions, callFree] at hm hc
        rw [eval, eval, ihE _ inner k s hm hc hk]
        generalize eval ops fuel depth inner s = p
        obtain ⟨r, s1⟩ := p
        cases r <;> try rfl
        rename_i v
        cases v <;> rfl
      | output inner =>
        simp only [mentions, callFree] at hm hc
        rw [eval, eval, ihE _ inner k s hm hc hk]
      | cond c a b =>
        simp only [mentions, callFree, Bool.or_eq_false_iff, Bool.and_eq_true] at hm hc
        rw [eval, eval, ihE _ c k s hm.1.1 hc.1.1 hk]
        have hk1 := lenE depth c s k hk
        generalize eval ops fuel depth c s = p at hk1 ⊢
        obtain ⟨r, s1⟩ := p
        cases r <;> try rfl
        rename_i v
        cases v <;> try rfl
        rename_i bv
        cases bv
        · exact ihE _ b k s1 hm.2 hc.2 hk1
        · exact ihE _ a k s1 hm.1.2 hc.1.2 hk1
      | access e i =>
        simp only [mentions, callFree, Bool.or_eq_false_iff, Bool.and_eq_true] at hm hc
        rw [eval, eval, ihE _ e k s hm.1 hc.1 hk]
        have hk1 := lenE depth e s k hk
        generalize eval ops fuel depth e s = p at hk1 ⊢
        obtain ⟨r, s1⟩ := p
        cases r <;> try rfl
        dsimp only
        rw [ihE _ i k s1 hm.2 hc.2 hk1]
        generalize eval ops fuel depth i s1 = q
        obtain ⟨r2, s2⟩ := q
        cases r2 <;> try rfl
        dsimp only
        repeat' split
        all_goals rfl
      | bin op l r =>
        simp only [mentions, callFree, Bool.or_eq_false_iff, Bool.and_eq_true] at hm hc
        rw [eval, eval, ihE _ l k s hm.1 hc.1.2 hk]
        have hk1 := lenE depth l s k hk
        generalize eval ops fuel depth l s = p at hk1 ⊢
        obtain ⟨r1, s1⟩ := p
        cases r1 <;> try rfl
        dsimp only
        rw [ihE _ r k s1 hm.2 hc.2 hk1]
        generalize eval ops fuel depth r s1 = q
        obtain ⟨r2, s2⟩ := q
        cases r2 <;> try rfl
        dsimp only
        rw [evalBin_nocall ops fuel depth op _ _ s2 (addT t w k s2) (by simpa using hc.1.1),
          evalBin_nocall ops fuel depth op _ _ s2 s2 (by simpa using hc.1.1)]
      | assign n v =>
        simp only [mentions, Bool.or_eq_false_iff, beq_eq_false_iff_ne, callFree] at hm hc
        have hcont : ∀ s : ES, alreadyDefined depth (addT t w k s).env n = alreadyDefined depth s.env n :=
          fun s => alreadyDefined_addAt t w hm.1 depth k s.env
        rw [eval, eval, hcont]
        split
        · rfl
        split
        · rfl
        split
        · rfl
        rw [ihE _ v k s hm.2 hc hk]
        have hk1 := lenE depth v s k hk
        generalize eval ops fuel depth v s = p at hk1 ⊢
        obtain ⟨r, s1⟩ := p
        cases r <;> try rfl
        dsimp only
        rw [hcont]
        split
        · rfl
        · rename_i val _
          rw [setNameIfLambda_addT]
          simp only [show (addT t w k s).nextId = s.nextId from rfl]
          generalize createdSince s.nextId val = cv
          have hk2 : k < (setNameIfLambda s1 n cv).env.length := by rw [setNameIfLambda_env]; exact hk1
          generalize setNameIfLambda s1 n cv = s2 at hk2
          simp only [addT, envInsert_addAt t w val hm.1 k s2.env hk2]
      | lambda args body =>
        simp only [mentions, Bool.or_eq_false_iff, callFree] at hm hc
        rw [eval, eval]
        split
        · rfl
        have : captureScope (addT t w k s).env (freeVars (args.map LArg.name) body) =
            captureScope s.env (freeVars (args.map LArg.name) body) := by
          unfold captureScope
          apply captureScope_congr
          intro y hy
          have hyt : y ≠ t := by
            intro e; subst e
            have := freeVars_mentions body _ y hy
            rw [hm.2] at this; cases this
          exact envGet_addAt t w hyt k s.env
        simp only [this]
        rfl
      | list items =>
        simp only [mentions, callFree] at hm hc
        rw [eval, eval, ihI _ items k s hm hc hk]
        generalize evalItems ops fuel depth items s = p
        obtain ⟨r, s1⟩ := p
        cases r <;> rfl
      | record es =>
        simp only [mentions, callFree] at hm hc
        rw [eval, eval, ihR _ es [] k s hm hc hk]
        generalize evalEntries ops fuel depth es [] s = p
        obtain ⟨r, s1⟩ := p
        cases r <;> rfl
      | doBlock stmts ret =>
        simp only [mentions, Bool.or_eq_false_iff, callFree, Bool.and_eq_true] at hm hc
        rw [eval, eval]
        have h1 := ihD depth stmts ret (k + 1) { s with env := [] :: s.env } hm.1 hm.2 hc.1 hc.2
          (by simp; omega)
        have e1 : ({ addT t w k s with env := [] :: (addT t w k s).env } : ES) =
            addT t w (k + 1) { s with env := [] :: s.env } := rfl
        rw [e1, h1]
        generalize evalDo ops fuel depth stmts ret { s with env := [] :: s.env } = p
        obtain ⟨r, s1⟩ := p
        simp only [addT, addAt_drop]
    · -- evalItems
      intro depth is k s hm hc hk
      cases is with
      | nil => simp [evalItems]
      | cons i is =>
        obtain ⟨_, e, _⟩ := i
        simp only [mentionsItems, mentionsItem, Bool.or_eq_false_iff, callFreeItems, callFreeItem,
          Bool.and_eq_true] at hm hc
        rw [evalItems, evalItems, ihE _ e k s hm.1 hc.1 hk]
        have hk1 := lenE depth e s k hk
        generalize eval ops fuel depth e s = p at hk1 ⊢
        obtain ⟨r, s1⟩ := p
        cases r <;> try rfl
        dsimp only
        rw [ihI _ is k s1 hm.2 hc.2 hk1]
        generalize evalItems ops fuel depth is s1 = q
        obtain ⟨r2, s2⟩ := q
        cases r2 <;> rfl
    · -- evalEntries
      intro depth es acc k s hm hc hk
      cases es with
      | nil => simp [evalEntries]
      | cons en es =>
        obtain ⟨_, key, value, _⟩ := en
        simp only [mentionsEntries, mentionsEntry, Bool.or_eq_false_iff, callFreeEntries, callFreeEntry,
          Bool.and_eq_true] at hm hc
        cases key with
        | static kk =>
          rw [evalEntries, evalEntries, ihE _ value k s hm.1.2 hc.1.2 hk]
          have hk1 := lenE depth value s k hk
          generalize eval ops fuel depth value s = p at hk1 ⊢
          obtain ⟨r, s1⟩ := p
          cases r <;> try rfl
          exact ihR _ es _ k s1 hm.2 hc.2 hk1
        | dyn ke =>
          simp only [mentionsKey, callFreeKey] at hm hc
          rw [evalEntries, evalEntries, ihE _ ke k s hm.1.1 hc.1.1 hk]
          have hk1 := lenE depth ke s k hk
          generalize eval ops fuel depth ke s = p at hk1 ⊢
          obtain ⟨r, s1⟩ := p
          cases r <;> try rfl
          rename_i kv
          cases kv <;> try rfl
          dsimp only
          rw [ihE _ value k s1 hm.1.2 hc.1.2 hk1]
          have hk2 := lenE depth value s1 k hk1
          generalize eval ops fuel depth value s1 = q at hk2 ⊢
          obtain ⟨r2, s2⟩ := q
          cases r2 <;> try rfl
          exact ihR _ es _ k s2 hm.2 hc.2 hk2
        | short n =>
          simp only [mentionsKey, beq_eq_false_iff_ne] at hm
          rw [evalEntries, evalEntries]
          have : envGet (addT t w k s).env n = envGet s.env n := envGet_addAt t w hm.1.1 k s.env
          rw [this]
          cases envGet s.env n with
          | none => rfl
          | some v => exact ihR _ es _ k s hm.2 hc.2 hk
        | spread se =>
          simp only [mentionsKey, callFreeKey] at hm hc
          rw [evalEntries, evalEntries, ihE _ se k s hm.1.1 hc.1.1 hk]
          have hk1 := lenE depth se s k hk
          generalize eval ops fuel depth se s = p at hk1 ⊢
          obtain ⟨r, s1⟩ := p
          cases r <;> try rfl
          rename_i sv
          cases sv <;> first | exact ihR _ es _ k s1 hm.2 hc.2 hk1 | skip
    · -- evalDoStmt
      intro depth e k s hm hc hk
      rw [evalDoStmt.eq_def, evalDoStmt.eq_def]
      dsimp only
      cases e with
      | assign n v =>
        simp only [mentions, Bool.or_eq_false_iff, beq_eq_false_iff_ne, callFree] at hm hc
        dsimp only
        split
        · rfl
        rw [ihE _ v k s hm.2 hc hk]
        have hk1 := lenE depth v s k hk
        generalize eval ops fuel depth v s = p at hk1 ⊢
        obtain ⟨r, s1⟩ := p
        cases r <;> try rfl
        dsimp only
        rename_i val
        rw [setNameIfLambda_addT]
        simp only [show (addT t w k s).nextId = s.nextId from rfl]
        generalize createdSince s.nextId val = cv
        have hk2 : k < (setNameIfLambda s1 n cv).env.length := by rw [setNameIfLambda_env]; exact hk1
        generalize setNameIfLambda s1 n cv = s2 at hk2
        simp only [addT, envInsert_addAt t w val hm.1 k s2.env hk2]
      | _ => exact ihE _ _ k s hm hc hk
    · -- evalDo
      intro depth stmts ret k s hm1 hm2 hc1 hc2 hk
      cases stmts with
      | nil =>
        obtain ⟨_, e, _⟩ := ret
        rw [evalDo, evalDo]
        exact ihS _ e k s hm2 hc2 hk
      | cons i rest =>
        obtain ⟨_, e, _⟩ := i
        simp only [mentionsItems, mentionsItem, Bool.or_eq_false_iff, callFreeItems, callFreeItem,
          Bool.and_eq_true] at hm1 hc1
        rw [evalDo, evalDo, ihS _ e k s hm1.1 hc1.1 hk]
        have hk1 : k < (evalDoStmt ops fuel depth e s).2.env.length :=
          len_of_ext ((eval_group_ext ops fuel).2.2.2.2.1 depth e s) hk
        generalize evalDoStmt ops fuel depth e s = p at hk1 ⊢
        obtain ⟨r, s1⟩ := p
        cases r <;> try rfl
        exact ihD _ rest ret k s1 hm1.2 hm2 hc1.2 hc2 hk1
end

/-! #### function values that mention a name (for the full statement) -/

mutual
/-- some function value inside `v` mentions `t`: as a parameter, in its body, or as a key of
    its captured scope -/
def valueMentions (t : String) : Value → Bool
  | .list l => valueMentionsList t l
  | .record r => valueMentionsFields t r
  | .lambda _ ps body scope =>
    ps.any (fun a => a.name == t) || mentions t body || scopeMentions t scope
  | .spread v => valueMentions t v
  | _ => false
def valueMentionsList (t : String) : List Value → Bool
  | [] => false
  | v :: vs => valueMentions t v || valueMentionsList t vs
def valueMentionsFields (t : String) : List (String × Value) → Bool
  | [] => false
  | (_, v) :: r => valueMentions t v || valueMentionsFields t r
def scopeMentions (t : String) : List (String × Value) → Bool
  | [] => false
  | (k, v) :: r => k == t || valueMentions t v || scopeMentions t r
end

end Blots
