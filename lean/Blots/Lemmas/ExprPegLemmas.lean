import Blots.Model.ExprPeg
import Blots.Lemmas.ExprPegFuel
import Blots.Lemmas.IdentLemmas
import Blots.Lemmas.PrattRoundTrip
import Blots.Lemmas.SrcNumber
import Blots.Lemmas.PrintLemmas
/-
  Text-level round trip for the operator fragment (C10):

  * `CST`            : concrete syntax trees of the fragment — operator trees with the layout
                       strings and the parentheses written out; `CST.text` the characters,
                       `CST.items` the item sequence pest hands to the Pratt parser,
                       `CST.tree` the abstract tree (parentheses erased);
  * `CST.WF`         : parentheses present wherever `needsParens` asks for them (more are
                       allowed), atoms of the fragment, admissible layout;
  * `lex_cst`        : the PEG model `exprR` splits `c.text` into exactly `c.items`
                       (continuation-passing induction over the tree, unbounded depth);
  * `cparses`        : the Pratt model reads `c.items` back to `c.tree`
                       (generalises `PrattRT.items_parse` to redundant parentheses);
  * `canon`          : the CST the printer `exprToSource` writes.
-/
set_option linter.unusedSimpArgs false
namespace Blots.ExprPeg
open Blots.Ident

/-! ### (0) layout strings -/

/-- the layout atoms the theorems range over: space, tab, line feed, CR LF.  (The grammar's
    NEWLINE also admits an `inline_comment` before the line break; comments are part of the
    MODEL (`newline`) but are left out of the layout theorems: a comment directly after `/`
    would read `///…`, which the grammar takes as a comment, not as the operator.) -/
inductive LayAtom where
  | sp | tab | lf | crlf
  deriving DecidableEq, Repr

abbrev Lay := List LayAtom

def LayAtom.chars : LayAtom → List Char
  | .sp => [' ']
  | .tab => ['\t']
  | .lf => ['\n']
  | .crlf => ['\r', '\n']

/-- WHITESPACE atoms (the only ones allowed after a word operator) -/
def LayAtom.isWs : LayAtom → Bool
  | .sp | .tab => true
  | _ => false

def layChars : Lay → List Char
  | [] => []
  | a :: l => a.chars ++ layChars l

theorem layChars_append (a b : Lay) : layChars (a ++ b) = layChars a ++ layChars b := by
  induction a with
  | nil => rfl
  | cons x a ih => simp [layChars, ih]

/-- a character that can follow layout in the fragment without being layout itself: not a
    blank, not part of a line break, not `/` (which could start a comment) -/
def notLayoutStart (c : Char) : Bool := !(c == ' ' || c == '\t' || c == '\n' || c == '\r' || c == '/')

theorem layoutAtom_atom (a : LayAtom) (rest : List Char) :
    layoutAtom (a.chars ++ rest) = some rest := by
  cases a <;> simp [LayAtom.chars, layoutAtom, orElse, whitespace, isWs, newline, inlineComment,
    plainNewline, lit]

theorem layoutAtom_nil : layoutAtom [] = none := by
  simp [layoutAtom, orElse, whitespace, newline, inlineComment, plainNewline, lit]

theorem layoutAtom_none {c : Char} {r : List Char} (h : notLayoutStart c = true) :
    layoutAtom (c :: r) = none := by
  simp only [notLayoutStart, Bool.not_eq_true', Bool.or_eq_false_iff, beq_eq_false_iff_ne, ne_eq] at h
  obtain ⟨⟨⟨⟨h1, h2⟩, h3⟩, h4⟩, h5⟩ := h
  have e1 : ¬ ('/' = c) := fun e => h5 e.symm
  have e2 : ¬ ('\r' = c) := fun e => h4 e.symm
  have e3 : ¬ ('\n' = c) := fun e => h3 e.symm
  simp [layoutAtom, orElse, whitespace, isWs, newline, inlineComment, plainNewline, lit, h1, h2,
    e1, e2, e3]

/-- `/` followed by something that is not `/` is not layout either (the divide operator) -/
theorem layoutAtom_slash {c : Char} {r : List Char} (h : c ≠ '/') :
    layoutAtom ('/' :: c :: r) = none := by
  have e1 : ¬ ('/' = c) := fun e => h e.symm
  simp [layoutAtom, orElse, whitespace, isWs, newline, inlineComment, plainNewline, lit, e1]

theorem star_layout_run (n : Nat) (l : Lay) (rest : List Char) (hn : l.length < n)
    (hr : layoutAtom rest = none) : star layoutAtom n (layChars l ++ rest) = rest := by
  induction n generalizing l with
  | zero => exact absurd hn (Nat.not_lt_zero _)
  | succ m ih =>
    cases l with
    | nil => simp [layChars, star, hr]
    | cons a l =>
      simp only [layChars, List.append_assoc, star, layoutAtom_atom]
      exact ih l (by simp only [List.length_cons] at hn; omega)

theorem LayAtom.chars_length_pos (a : LayAtom) : 0 < a.chars.length := by
  cases a <;> simp [LayAtom.chars]

theorem layChars_length (l : Lay) : l.length ≤ (layChars l).length := by
  induction l with
  | nil => simp [layChars]
  | cons a l ih =>
    have := a.chars_length_pos
    simp only [layChars, List.length_cons, List.length_append]; omega

/-- `(WHITESPACE | NEWLINE)*` consumes exactly a layout string in front of non-layout -/
theorem layoutStar_run (l : Lay) (rest : List Char) (hr : layoutAtom rest = none) :
    layoutStar (layChars l ++ rest) = rest := by
  unfold layoutStar
  apply star_layout_run _ _ _ _ hr
  have := layChars_length l
  simp only [List.length_append]; omega

theorem layoutPlus_run (l : Lay) (hl : l ≠ []) (rest : List Char) (hr : layoutAtom rest = none) :
    layoutPlus (layChars l ++ rest) = some rest := by
  cases l with
  | nil => exact absurd rfl hl
  | cons a l =>
    simp only [layoutPlus, layChars, List.append_assoc, layoutAtom_atom, Option.map_some,
      layoutStar_run l rest hr]

theorem layoutPlus_none {cs : List Char} (h : layoutAtom cs = none) : layoutPlus cs = none := by
  simp [layoutPlus, h]

/-- WHITESPACE-only layout -/
def wsOnly (l : Lay) : Bool := l.all LayAtom.isWs

theorem wsPlus_run (l : Lay) (hl : l ≠ []) (hw : wsOnly l = true) (c : Char) (rest : List Char)
    (hc : isWs c = false) : wsPlus (layChars l ++ c :: rest) = some (c :: rest) := by
  have key : ∀ l : Lay, wsOnly l = true → (layChars l ++ c :: rest).dropWhile isWs = c :: rest := by
    intro l
    induction l with
    | nil => intro _; simp [layChars, List.dropWhile, hc]
    | cons a l ih =>
      intro h
      simp only [wsOnly, List.all_cons, Bool.and_eq_true] at h
      have := ih h.2
      cases a <;> simp_all [LayAtom.isWs, LayAtom.chars, layChars, List.dropWhile, isWs]
  cases l with
  | nil => exact absurd rfl hl
  | cons a l =>
    simp only [wsOnly, List.all_cons, Bool.and_eq_true] at hw
    have := key l hw.2
    cases a <;> simp_all [LayAtom.isWs, LayAtom.chars, layChars, wsPlus, plus, isWs]

theorem lay_head (b : Lay) (c : Char) (tl : List Char) (P : Char → Prop)
    (h1 : P ' ') (h2 : P '\t') (h3 : P '\n') (h4 : P '\r') (hc : P c) :
    ∃ d tl', layChars b ++ c :: tl = d :: tl' ∧ P d := by
  cases b with
  | nil => exact ⟨c, tl, rfl, hc⟩
  | cons a b => cases a <;> simp [layChars, LayAtom.chars, *]

/-! ### (1) ordered choice over operator literals -/

/-- no alternative starts with the character the input starts with -/
theorem firstRule_none_of_heads {L : List (String × List Char)} {c : Char} {tl : List Char}
    (h : ∀ x ∈ L, ∃ a t, x.2 = a :: t ∧ a ≠ c) : firstRule L (c :: tl) = none := by
  induction L with
  | nil => rfl
  | cons x L ih =>
    obtain ⟨r', s'⟩ := x
    obtain ⟨a, t, e, hne⟩ := h (r', s') List.mem_cons_self
    simp only at e
    subst e
    simp only [firstRule, lit, hne, if_false]
    exact ih (fun y hy => h y (List.mem_cons_of_mem _ hy))

theorem firstRule_nil (L : List (String × List Char)) (h : ∀ x ∈ L, x.2 ≠ []) :
    firstRule L [] = none := by
  induction L with
  | nil => rfl
  | cons x L ih =>
    obtain ⟨r', s'⟩ := x
    have : s' ≠ [] := h (r', s') List.mem_cons_self
    cases s' with
    | nil => exact absurd rfl this
    | cons a t =>
      simp only [firstRule, lit]
      exact ih (fun y hy => h y (List.mem_cons_of_mem _ hy))

/-- For the literal `s` of `rule` in the ordered choice `L`: the characters that, directly
    after `s`, would let an alternative listed BEFORE it match instead (`none`: `s` is not
    reachable at all — an earlier literal is a prefix of it, or it is not in the list). -/
def hitBad : List (String × List Char) → String → List Char → Option (List Char)
  | [], _, _ => none
  | (r', s') :: more, rule, s =>
    if s' = s then (if r' = rule then some [] else none)
    else if (lit s' s).isSome then none
    else
      match lit s s' with
      | some (c :: _) => (hitBad more rule s).map (c :: ·)
      | _ => hitBad more rule s

theorem firstRule_hit {L : List (String × List Char)} {rule : String} {s bad : List Char}
    {c : Char} {tl : List Char} (h : hitBad L rule s = some bad) (hc : c ∉ bad) :
    firstRule L (s ++ c :: tl) = some (rule, c :: tl) := by
  induction L generalizing bad with
  | nil => simp [hitBad] at h
  | cons x L ih =>
    obtain ⟨r', s'⟩ := x
    simp only [hitBad] at h
    by_cases e : s' = s
    · subst e
      simp only [if_true] at h
      split at h
      · rename_i hr; subst hr
        simp [firstRule, lit_append]
      · cases h
    · simp only [e, if_false] at h
      split at h
      · cases h
      · rename_i hpre
        -- `s'` does not match at `s ++ c :: tl`
        have hno : lit s' (s ++ c :: tl) = none := by
          cases hl : lit s' (s ++ c :: tl) with
          | none => rfl
          | some r =>
            exfalso
            have he := lit_eq_some.mp hl
            rcases List.append_eq_append_iff.mp he with ⟨a', hsa, hra⟩ | ⟨c', hsc, _⟩
            · cases a' with
              | nil => simp only [List.append_nil] at hsa; exact e hsa
              | cons x a'' =>
                simp only [List.cons_append, List.cons.injEq] at hra
                obtain ⟨rfl, _⟩ := hra
                have hls : lit s s' = some (c :: a'') := lit_eq_some.mpr hsa
                rw [hls] at h
                simp only [Option.map_eq_some_iff] at h
                obtain ⟨b', _, rfl⟩ := h
                exact hc List.mem_cons_self
            · have : lit s' s = some c' := lit_eq_some.mpr hsc
              rw [this] at hpre
              exact hpre rfl
        simp only [firstRule, hno]
        split at h
        · simp only [Option.map_eq_some_iff] at h
          obtain ⟨b', hb, rfl⟩ := h
          exact ih hb (fun hm => hc (List.mem_cons_of_mem _ hm))
        · exact ih h hc

/-! ### (2) the operator tables -/

/-- the word operators (`natural_infix_op`) -/
def isWordOp (op : BinOp) : Bool := Gen.naturalOrder.contains (PrattRT.ruleOf op)

/-- spelling the printer uses, as characters -/
def spell (op : BinOp) : List Char := (opSpelling op).toList

/-- what the proofs need to know about a symbol operator -/
def symOk (op : BinOp) : Bool :=
  (match hitBad infixLits (PrattRT.ruleOf op) (spell op) with
   | some bad => bad.all (· == '=')
   | none => false) &&
  (match spell op with
   | [] => false
   | h :: t =>
     (notLayoutStart h || (h == '/' && t.isEmpty)) && !isIdentChar h &&
       naturalLits.all (fun x => match x.2 with | [] => false | a :: _ => a != h))

/-- what the proofs need to know about a word operator -/
def wordOk (op : BinOp) : Bool :=
  (match hitBad naturalLits (PrattRT.ruleOf op) (spell op) with
   | some bad => bad.all (fun c => !isWs c)
   | none => false) &&
  (match spell op with
   | [] => false
   | h :: _ => notLayoutStart h)

theorem all_opFacts :
    (BinOp.all.all fun op => if isWordOp op then wordOk op else symOk op) = true := by
  decide +kernel

theorem symOk_of (op : BinOp) (h : isWordOp op = false) : symOk op = true := by
  have := List.all_eq_true.mp all_opFacts op (PrattRT.BinOp.mem_all op)
  simpa [h] using this

theorem wordOk_of (op : BinOp) (h : isWordOp op = true) : wordOk op = true := by
  have := List.all_eq_true.mp all_opFacts op (PrattRT.BinOp.mem_all op)
  simpa [h] using this

theorem prefixLits_eq : prefixLits = [("negation", ['-']), ("invert", ['!'])] := by decide +kernel
theorem naturalPrefixLits_eq : naturalPrefixLits = [("natural_not", ['n', 'o', 't'])] := by
  decide +kernel
theorem postfixLits_eq : postfixLits = [("factorial", ['!'])] := by decide +kernel
theorem infixLits_ne : ∀ x ∈ infixLits, x.2 ≠ [] := by decide +kernel
theorem naturalLits_ne : ∀ x ∈ naturalLits, x.2 ≠ [] := by decide +kernel

/-- every literal of the list starts with a character other than `c` -/
def headsNe (L : List (String × List Char)) (c : Char) : Bool :=
  L.all fun x => match x.2 with | [] => false | a :: _ => a != c

theorem firstRule_none_of_headsNe {L : List (String × List Char)} {c : Char} {tl : List Char}
    (h : headsNe L c = true) : firstRule L (c :: tl) = none := by
  apply firstRule_none_of_heads
  intro x hx
  have := List.all_eq_true.mp h x hx
  split at this
  · cases this
  · rename_i a t e; exact ⟨a, t, e, by simpa using this⟩

/-- first character of an operand text: a prefix operator, an opening parenthesis, or the
    first character of a word / number -/
def startChar (c : Char) : Bool := c == '-' || c == '!' || c == '(' || isIdentChar c

theorem isIdentChar_cases {c : Char} (h : isIdentChar c = true) :
    c ≠ ' ' ∧ c ≠ '\t' ∧ c ≠ '\n' ∧ c ≠ '\r' ∧ c ≠ '/' ∧ c ≠ '=' ∧ c ≠ '!' ∧ c ≠ '-' ∧ c ≠ '(' ∧
      c ≠ ')' := by
  refine ⟨?_, ?_, ?_, ?_, ?_, ?_, ?_, ?_, ?_, ?_⟩ <;> (intro e; subst e; revert h; decide)

theorem startChar_facts {c : Char} (h : startChar c = true) :
    notLayoutStart c = true ∧ c ≠ '=' ∧ c ≠ '/' ∧ isWs c = false ∧ c ≠ ')' := by
  simp only [startChar, Bool.or_eq_true, beq_iff_eq] at h
  rcases h with ((h | h) | h) | h
  · subst h; decide
  · subst h; decide
  · subst h; decide
  · obtain ⟨h1, h2, h3, h4, h5, h6, _, _, _, h10⟩ := isIdentChar_cases h
    simp [notLayoutStart, isWs, *]

/-! ### (3) `infix_usage` on an operator with its layout -/

/-- when the word-operator alternative of `infix_usage` fails, the symbol alternative decides -/
theorem infixUsage_alt2 {cs : List Char}
    (h : ∀ r, layoutPlus cs = some r → firstRule naturalLits r = none) :
    infixUsage cs = (firstRule infixLits (layoutStar cs)).map fun x => (x.1, layoutStar x.2) := by
  unfold infixUsage
  cases hp : layoutPlus cs with
  | none =>
    simp only []
    cases firstRule infixLits (layoutStar cs) with
    | none => rfl
    | some x => obtain ⟨_, _⟩ := x; rfl
  | some r =>
    simp only [h r hp]
    cases firstRule infixLits (layoutStar cs) with
    | none => rfl
    | some x => obtain ⟨_, _⟩ := x; rfl

theorem infixUsage_sym (op : BinOp) (hw : isWordOp op = false) (a b : Lay) (c : Char)
    (tl : List Char) (hc : startChar c = true) :
    infixUsage (layChars a ++ (spell op ++ (layChars b ++ c :: tl))) =
      some (PrattRT.ruleOf op, c :: tl) := by
  have hs := symOk_of op hw
  obtain ⟨hc1, hc2, hc3, _, _⟩ := startChar_facts hc
  simp only [symOk, Bool.and_eq_true] at hs
  obtain ⟨hs1, hs2⟩ := hs
  obtain ⟨d, tl', hX, hd1, hd2⟩ := lay_head b c tl (fun d => d ≠ '=' ∧ d ≠ '/')
    (by decide) (by decide) (by decide) (by decide) ⟨hc2, hc3⟩
  -- the operator literal is found
  have hinf : firstRule infixLits (spell op ++ (layChars b ++ c :: tl)) =
      some (PrattRT.ruleOf op, layChars b ++ c :: tl) := by
    split at hs1
    · rename_i bad hbad
      rw [hX]
      apply firstRule_hit hbad
      intro hm
      have := List.all_eq_true.mp hs1 d hm
      exact hd1 (by simpa using this)
    · cases hs1
  have hLS : layoutStar (layChars b ++ c :: tl) = c :: tl := layoutStar_run b _ (layoutAtom_none hc1)
  split at hs2
  · cases hs2
  · rename_i h t hsp
    simp only [Bool.and_eq_true, Bool.or_eq_true, beq_iff_eq, List.isEmpty_iff,
      Bool.not_eq_true'] at hs2
    obtain ⟨⟨hl, _⟩, hnat⟩ := hs2
    have hLA : layoutAtom (spell op ++ (layChars b ++ c :: tl)) = none := by
      rw [hsp]
      rcases hl with hl | ⟨rfl, rfl⟩
      · exact layoutAtom_none hl
      · rw [List.cons_append, List.nil_append, hX]; exact layoutAtom_slash hd2
    have hNA : firstRule naturalLits (spell op ++ (layChars b ++ c :: tl)) = none := by
      rw [hsp, List.cons_append]
      exact firstRule_none_of_headsNe hnat
    have hpl : ∀ r, layoutPlus (layChars a ++ (spell op ++ (layChars b ++ c :: tl))) = some r →
        firstRule naturalLits r = none := by
      intro r hr
      cases a with
      | nil => simp only [layChars, List.nil_append, layoutPlus_none hLA] at hr; cases hr
      | cons x a =>
        rw [layoutPlus_run (x :: a) (by simp) _ hLA] at hr
        cases hr; exact hNA
    rw [infixUsage_alt2 hpl, layoutStar_run a _ hLA, hinf]
    simp only [Option.map_some, hLS]

theorem infixUsage_word (op : BinOp) (hw : isWordOp op = true) (a b : Lay) (c : Char)
    (tl : List Char) (ha : a ≠ []) (hb : b ≠ []) (hbw : wsOnly b = true) (hc : startChar c = true) :
    infixUsage (layChars a ++ (spell op ++ (layChars b ++ c :: tl))) =
      some (PrattRT.ruleOf op, c :: tl) := by
  have hs := wordOk_of op hw
  obtain ⟨_, _, _, hc4, _⟩ := startChar_facts hc
  simp only [wordOk, Bool.and_eq_true] at hs
  obtain ⟨hs1, hs2⟩ := hs
  -- the layout after the operator starts with a blank
  obtain ⟨d, tl', hX, hd⟩ : ∃ d tl', layChars b ++ c :: tl = d :: tl' ∧ isWs d = true := by
    cases b with
    | nil => exact absurd rfl hb
    | cons x b =>
      simp only [wsOnly, List.all_cons, Bool.and_eq_true] at hbw
      cases x <;> simp_all [LayAtom.isWs, layChars, LayAtom.chars, isWs]
  have hnat : firstRule naturalLits (spell op ++ (layChars b ++ c :: tl)) =
      some (PrattRT.ruleOf op, layChars b ++ c :: tl) := by
    split at hs1
    · rename_i bad hbad
      rw [hX]
      apply firstRule_hit hbad
      intro hm
      have := List.all_eq_true.mp hs1 d hm
      simp [hd] at this
    · cases hs1
  split at hs2
  · cases hs2
  · rename_i h t hsp
    have hLA : layoutAtom (spell op ++ (layChars b ++ c :: tl)) = none := by
      rw [hsp]; exact layoutAtom_none hs2
    simp only [infixUsage, layoutPlus_run a ha _ hLA, hnat, wsPlus_run b hb hbw c tl hc4,
      Option.map_some]

theorem layoutStar_nil : layoutStar [] = [] := by
  simp [layoutStar, star, layoutAtom_nil]

theorem infixUsage_nil : infixUsage [] = none := by
  simp [infixUsage, layoutPlus, layoutAtom_nil, layoutStar_nil,
    firstRule_nil _ infixLits_ne]

theorem close_heads : headsNe infixLits ')' = true ∧ headsNe naturalLits ')' = true := by
  decide +kernel

/-- at the closing parenthesis (after any layout) no operator follows -/
theorem infixUsage_close (b : Lay) (rest : List Char) :
    infixUsage (layChars b ++ ')' :: rest) = none := by
  have hLA : layoutAtom (')' :: rest) = none := layoutAtom_none (by decide)
  have h1 : firstRule naturalLits (')' :: rest) = none := firstRule_none_of_headsNe close_heads.2
  have h2 : firstRule infixLits (')' :: rest) = none := firstRule_none_of_headsNe close_heads.1
  have hpl : ∀ r, layoutPlus (layChars b ++ ')' :: rest) = some r →
      firstRule naturalLits r = none := by
    intro r hr
    cases b with
    | nil => simp only [layChars, List.nil_append, layoutPlus_none hLA] at hr; cases hr
    | cons x b =>
      rw [layoutPlus_run (x :: b) (by simp) _ hLA] at hr
      cases hr; exact h1
  rw [infixUsage_alt2 hpl, layoutStar_run b _ hLA, h2]
  rfl

/-! ### (4) prefix and postfix operators -/

theorem prefixUsage_minus (X : List Char) : prefixUsage ('-' :: X) = some (.pre "negation", X) := by
  simp [prefixUsage, naturalPrefixLits_eq, prefixLits_eq, firstRule, lit]

theorem prefixUsage_bang (X : List Char) : prefixUsage ('!' :: X) = some (.pre "invert", X) := by
  simp [prefixUsage, naturalPrefixLits_eq, prefixLits_eq, firstRule, lit]

theorem prefixUsage_paren (X : List Char) : prefixUsage ('(' :: X) = none := by
  simp [prefixUsage, naturalPrefixLits_eq, prefixLits_eq, firstRule, lit]

theorem prefixStar_cons {c : Char} {X : List Char} {it : PItem}
    (h : prefixUsage (c :: X) = some (it, X)) :
    prefixStar (c :: X) = (it :: (prefixStar X).1, (prefixStar X).2) := by
  simp [prefixStar, starItems, h]

theorem prefixStar_none {cs : List Char} (h : prefixUsage cs = none) : prefixStar cs = ([], cs) := by
  simp [prefixStar, starItems, h]

theorem postfixStar_bang (X : List Char) :
    postfixStar ('!' :: X) = (.postFact :: (postfixStar X).1, (postfixStar X).2) := by
  simp [postfixStar, starItems, postfixOp, postfixLits_eq, firstRule, lit]

theorem postfixStar_other {c : Char} (X : List Char) (h : c ≠ '!') :
    postfixStar (c :: X) = ([], c :: X) := by
  have : ¬ ('!' = c) := fun e => h e.symm
  simp [postfixStar, starItems, postfixOp, postfixLits_eq, firstRule, lit, this]

theorem postfixStar_nil : postfixStar [] = ([], []) := by
  simp [postfixStar, starItems, postfixOp, postfixLits_eq, firstRule, lit]

/-- a word of identifier characters other than `not` is not taken for a prefix operator -/
theorem prefixUsage_word {w rest : List Char} (hne : w ≠ []) (hw : ∀ x ∈ w, isIdentChar x = true)
    (hnot : w ≠ ['n', 'o', 't']) (hb : Boundary rest) : prefixUsage (w ++ rest) = none := by
  have h2 : firstRule prefixLits (w ++ rest) = none := by
    cases w with
    | nil => exact absurd rfl hne
    | cons c w =>
      obtain ⟨_, _, _, _, _, _, h7, h8, _, _⟩ := isIdentChar_cases (hw c List.mem_cons_self)
      rw [prefixLits_eq, List.cons_append]
      apply firstRule_none_of_heads
      intro x hx
      simp only [List.mem_cons, List.not_mem_nil, or_false] at hx
      rcases hx with rfl | rfl
      · exact ⟨'-', [], rfl, fun e => h8 e.symm⟩
      · exact ⟨'!', [], rfl, fun e => h7 e.symm⟩
  unfold prefixUsage
  cases hf : firstRule naturalPrefixLits (w ++ rest) with
  | none => simp only [h2, Option.map_none]
  | some x =>
    obtain ⟨rule, r⟩ := x
    obtain ⟨s, hs, he⟩ := firstRule_some hf
    rw [naturalPrefixLits_eq] at hs
    simp only [List.mem_cons, Prod.mk.injEq, List.not_mem_nil, or_false] at hs
    obtain ⟨_, rfl⟩ := hs
    -- `r` starts with an identifier character or `w` would be `not`
    have : wsPlus r = none := by
      rcases List.append_eq_append_iff.mp he with ⟨a', hsa, hra⟩ | ⟨c', hwc, hrc⟩
      · cases a' with
        | nil => simp only [List.append_nil] at hsa; exact absurd hsa.symm hnot
        | cons x a' =>
          exfalso
          have hx : isIdentChar x = true := by
            have : x ∈ ['n', 'o', 't'] := by rw [hsa]; simp
            revert this; simp only [List.mem_cons, List.not_mem_nil, or_false]
            rintro (rfl | rfl | rfl) <;> decide
          have := boundary_class hb isIdentChar (fun _ h => h) x (a' ++ r) (by simpa using hra)
          rw [hx] at this; cases this
      · cases c' with
        | nil => simp only [List.append_nil] at hwc; exact absurd hwc hnot
        | cons x c' =>
          subst hrc
          have hx : isIdentChar x = true := hw x (by simp [hwc])
          obtain ⟨h1, h2, _⟩ := isIdentChar_cases hx
          simp [wsPlus, plus, isWs, h1, h2]
    simp only [this, Option.map_none, h2]

/-! ### (5) the atoms of the fragment -/

def isBuiltinName (n : String) : Bool := (Gen.fromIdent.find? (fun r => r.1 == n)).isSome

/-- the terms of the fragment: identifiers that are not reserved words (a built-in function
    name is the `builtin` node), non-negative integer literals below 10^15 (printed as plain
    digits), `true` / `false` / `null` -/
def atomOk : Expr → Bool
  | .ident n => identShape n.toList && !Gen.grammarReserved.contains n && !isBuiltinName n
  | .builtin n => isBuiltinName n
  | .bool _ => true
  | .null => true
  | .num x => x.isFinite && x.isIntegral && !x.neg && F64.flt x.abs f64_1e15
  | _ => false

/-- the text of an atom -/
def atomText (e : Expr) : List Char := (exprToSource e).toList

theorem consumed_append (w rest : List Char) : consumed (w ++ rest) rest = w := by
  simp [consumed]

/-- every built-in name is identifier-shaped, not reserved, and converted to its own node -/
def builtinRowOk (r : String × String) : Bool :=
  identShape r.1.toList && !Gen.grammarReserved.contains r.1 &&
    (match nameTerm r.1 with | .builtin m => m == r.1 | _ => false)

theorem all_builtinRowOk : Gen.fromIdent.all builtinRowOk = true := by decide +kernel

theorem builtin_facts {n : String} (h : isBuiltinName n = true) :
    IdentShape n.toList ∧ n ∉ Gen.grammarReserved ∧ nameTerm n = .builtin n := by
  unfold isBuiltinName at h
  cases hf : Gen.fromIdent.find? (fun r => r.1 == n) with
  | none => rw [hf] at h; cases h
  | some r =>
    have hm := List.mem_of_find?_eq_some hf
    have hp := List.find?_some hf
    simp only [beq_iff_eq] at hp
    have := List.all_eq_true.mp all_builtinRowOk r hm
    simp only [builtinRowOk, Bool.and_eq_true, Bool.not_eq_true', hp] at this
    obtain ⟨⟨h1, h2⟩, h3⟩ := this
    refine ⟨h1, by simpa using h2, ?_⟩
    split at h3
    · rename_i m hm'; rw [hm']; simp only [beq_iff_eq] at h3; rw [h3]
    · cases h3

theorem isDigit_val {d : Char} (h : isDigit d = true) : 48 ≤ d.toNat ∧ d.toNat ≤ 57 := by
  simp only [isDigit, Bool.and_eq_true, decide_eq_true_eq, Char.le_def, UInt32.le_iff_toNat_le] at h
  exact h

theorem isDigit_not_start {d : Char} (h : isDigit d = true) : isIdentStart d = false := by
  have ⟨h1, h2⟩ := isDigit_val h
  have hu : d ≠ '_' := by intro e; subst e; revert h; decide
  simp only [isIdentStart, isAlpha, isUnderscore, Bool.or_eq_false_iff, Bool.and_eq_false_iff,
    decide_eq_false_iff_not, Char.le_def, UInt32.le_iff_toNat_le, beq_eq_false_iff_ne, ne_eq]
  refine ⟨⟨?_, ?_⟩, hu⟩
  · left; show ¬ (97 ≤ d.toNat); omega
  · left; show ¬ (65 ≤ d.toNat); omega

theorem dropWhile_all_true {p : Char → Bool} {l : List Char} (h : ∀ c ∈ l, p c = true) :
    l.dropWhile p = [] := by
  induction l with
  | nil => rfl
  | cons a l ih =>
    simp only [List.dropWhile, h a List.mem_cons_self]
    exact ih (fun c hc => h c (List.mem_cons_of_mem _ hc))

theorem firstLit_none_of_heads {L : List (List Char)} {c : Char} {tl : List Char}
    (h : ∀ s ∈ L, ∃ a t, s = a :: t ∧ a ≠ c) : firstLit L (c :: tl) = none := by
  induction L with
  | nil => rfl
  | cons s L ih =>
    obtain ⟨a, t, rfl, hne⟩ := h s List.mem_cons_self
    simp only [firstLit, lit, hne, if_false]
    exact ih (fun y hy => h y (List.mem_cons_of_mem _ hy))

/-- an atom's text is one word `w` of identifier characters (not `not`), and in front of
    anything that is not an identifier character `term` reads it back as the atom -/
theorem atom_word {e : Expr} (h : atomOk e = true) :
    atomText e ≠ [] ∧ (∀ x ∈ atomText e, isIdentChar x = true) ∧ atomText e ≠ ['n', 'o', 't'] ∧
      ∀ rest, Boundary rest → termAtom (atomText e ++ rest) = some (e, rest) := by
  cases e with
  | ident n =>
    simp only [atomOk, Bool.and_eq_true, Bool.not_eq_true'] at h
    obtain ⟨⟨hs, hr⟩, hb⟩ := h
    have hw : IdentShape n.toList := hs
    have hres : n ∉ Gen.grammarReserved := by simpa using hr
    have hnot : n.toList ∉ reservedLits := fun hm => hres (by
      have := mem_reservedLits.mp hm; rwa [String.ofList_toList] at this)
    have ht : atomText (.ident n) = n.toList := by simp [atomText, exprToSource, exprSrc, lookupAL]
    rw [ht]
    refine ⟨hw.ne_nil, hw.all, ?_, ?_⟩
    · intro e
      apply hres
      have : n = "not" := by rw [← String.ofList_toList (s := n), e]
      rw [this]; decide
    · intro rest hbd
      have hname : nameTerm n = .ident n := by
        unfold isBuiltinName at hb
        simp only [Option.isSome_eq_false_iff, Option.isNone_iff_eq_none] at hb
        simp [nameTerm, hb]
      simp only [termAtom, boolRule_none hw hnot hbd, nullRule_none hw hnot hbd,
        identifier_run hw hnot hbd, consumed_append, String.ofList_toList, hname]
  | builtin n =>
    simp only [atomOk] at h
    obtain ⟨hw, hres, hname⟩ := builtin_facts h
    have hnot : n.toList ∉ reservedLits := fun hm => hres (by
      have := mem_reservedLits.mp hm; rwa [String.ofList_toList] at this)
    have ht : atomText (.builtin n) = n.toList := by simp [atomText, exprToSource, exprSrc]
    rw [ht]
    refine ⟨hw.ne_nil, hw.all, ?_, ?_⟩
    · intro e
      apply hres
      have : n = "not" := by rw [← String.ofList_toList (s := n), e]
      rw [this]; decide
    · intro rest hbd
      simp only [termAtom, boolRule_none hw hnot hbd, nullRule_none hw hnot hbd,
        identifier_run hw hnot hbd, consumed_append, String.ofList_toList, hname]
  | bool b =>
    cases b with
    | true =>
      have ht : atomText (.bool true) = trueLit := by
        simp [atomText, exprToSource, exprSrc, trueLit]
      rw [ht]
      refine ⟨by decide, by decide, by decide, ?_⟩
      intro rest hbd
      have hf : firstLit [trueLit, falseLit] (trueLit ++ rest) = some (trueLit, rest) := by
        simp [firstLit, lit_append]
      simp [termAtom, boolRule, keyword_isSome_of_firstLit hf hbd]
    | false =>
      have ht : atomText (.bool false) = falseLit := by
        simp [atomText, exprToSource, exprSrc, falseLit]
      rw [ht]
      refine ⟨by decide, by decide, by decide, ?_⟩
      intro rest hbd
      have hf : firstLit [trueLit, falseLit] (falseLit ++ rest) = some (falseLit, rest) := by
        have : lit trueLit (falseLit ++ rest) = none := by simp [trueLit, falseLit, lit]
        simp [firstLit, this, lit_append]
      have hne : (falseLit == trueLit) = false := by decide
      simp [termAtom, boolRule, keyword_isSome_of_firstLit hf hbd, hne]
  | null =>
    have ht : atomText .null = nullLit := by simp [atomText, exprToSource, exprSrc, nullLit]
    rw [ht]
    refine ⟨by decide, by decide, by decide, ?_⟩
    intro rest hbd
    have hb : boolRule (nullLit ++ rest) = none := by
      have : firstLit [trueLit, falseLit] (nullLit ++ rest) = none := by
        simp [firstLit, trueLit, falseLit, nullLit, lit]
      simp [boolRule, keyword, this]
    have hf : firstLit [nullLit] (nullLit ++ rest) = some (nullLit, rest) := by
      simp [firstLit, lit_append]
    simp [termAtom, hb, nullRule, keyword_isSome_of_firstLit hf hbd]
  | num x =>
    simp only [atomOk, Bool.and_eq_true, Bool.not_eq_true'] at h
    obtain ⟨⟨⟨hf, hi⟩, hn⟩, hlt⟩ := h
    have hinf := F64.isInf_of_isFinite x hf
    have hsrc : exprToSource (.num x) = x.toFixed 0 := by
      simp only [exprToSource, exprSrc]
      exact PrintL.numberToSource_int x (by simp [hinf]) hi hlt
    have hfix := F64.toFixed_zero_of_integral x hf (F64.ratio_integral_of_isIntegral x hi)
    simp only [hn, Bool.false_eq_true, if_false, String.empty_append] at hfix
    have ht : atomText (.num x) = (F64.natDigits (x.ratio.1 / x.ratio.2)).toList := by
      simp only [atomText, hsrc, hfix]
    have hdig : ∀ c ∈ atomText (.num x), isDigit c = true := by
      rw [ht]; exact F64.natDigits_all_isDigit _
    have hne : atomText (.num x) ≠ [] := by rw [ht]; exact F64.natDigits_toList_ne_nil _
    refine ⟨hne, fun c hc => digit_identChar c (hdig c hc), ?_, ?_⟩
    · intro e
      have := hdig 'n' (by rw [e]; simp)
      revert this; decide
    · intro rest hbd
      have hval : NumText.literalValue (String.ofList (atomText (.num x))) = some x := by
        rw [NumText.literalValue_plain _ (fun c hc => Or.inl (hdig c hc))]
        simp only [atomText, String.ofList_toList, hsrc]
        exact F64.parseDec_toFixed_zero x hf hi
      generalize atomText (.num x) = ds at hdig hne hval
      cases ds with
      | nil => exact absurd rfl hne
      | cons d ds =>
        have hd := hdig d List.mem_cons_self
        have hds : ∀ c ∈ ds, isDigit c = true := fun c hc => hdig c (List.mem_cons_of_mem _ hc)
        have c1 : d ≠ 't' := by intro e; subst e; revert hd; decide
        have c2 : d ≠ 'f' := by intro e; subst e; revert hd; decide
        have c3 : d ≠ 'n' := by intro e; subst e; revert hd; decide
        have hb : boolRule (d :: ds ++ rest) = none := by
          have : firstLit [trueLit, falseLit] (d :: (ds ++ rest)) = none := by
            apply firstLit_none_of_heads
            intro s hs
            simp only [List.mem_cons, List.not_mem_nil, or_false] at hs
            rcases hs with rfl | rfl
            · exact ⟨'t', _, rfl, fun e => c1 e.symm⟩
            · exact ⟨'f', _, rfl, fun e => c2 e.symm⟩
          simp [boolRule, keyword, this]
        have hnl : nullRule (d :: ds ++ rest) = none := by
          have : firstLit [nullLit] (d :: (ds ++ rest)) = none := by
            apply firstLit_none_of_heads
            intro s hs
            simp only [List.mem_cons, List.not_mem_nil, or_false] at hs
            subst hs
            exact ⟨'n', _, rfl, fun e => c3 e.symm⟩
          simp [nullRule, keyword, this]
        have hid : identifier (d :: ds ++ rest) = none := by
          have : nameBody (d :: (ds ++ rest)) = none := by
            simp [nameBody, plus, isDigit_not_start hd]
          simp only [identifier, List.cons_append, this]
          split <;> rfl
        have hpl : plus isDigit (d :: ds ++ rest) = some rest := by
          have h1 := dropWhile_append_of_boundary isDigit ds rest
            (boundary_class hbd _ digit_identChar)
          have h2 : ds.dropWhile isDigit = [] := dropWhile_all_true hds
          simp [plus, hd, h1, h2]
        have hcons : consumed (d :: ds ++ rest) rest = d :: ds := consumed_append (d :: ds) rest
        simp only [termAtom, hb, hnl, hid, hpl, hcons, hval, Option.map_some]
  | _ => simp [atomOk] at h

/-! ### (6) concrete syntax trees -/

/-- concrete syntax of the operator fragment: the operator tree with every layout string and
    every pair of parentheses written out -/
inductive CST where
  /-- a term of the fragment, written as the printer writes it -/
  | atom : Expr → CST
  /-- `l  lay₁ op lay₂  r` -/
  | bin : BinOp → CST → Lay → Lay → CST → CST
  /-- prefix operator directly in front of its operand (the grammar admits no layout there) -/
  | un : UnOp → CST → CST
  /-- postfix `!` directly behind its operand -/
  | fact : CST → CST
  /-- `( lay₁ e lay₂ )` -/
  | paren : Lay → CST → Lay → CST

namespace CST

def text : CST → List Char
  | .atom e => atomText e
  | .bin op l a b r => l.text ++ (layChars a ++ (spell op ++ (layChars b ++ r.text)))
  | .un op e => (unaryOpToSource op).toList ++ e.text
  | .fact e => e.text ++ ['!']
  | .paren a e b => '(' :: (layChars a ++ (e.text ++ (layChars b ++ [')'])))

/-- the abstract tree: parentheses and layout erased -/
def tree : CST → Expr
  | .atom e => e
  | .bin op l _ _ r => .bin op l.tree r.tree
  | .un op e => .un op e.tree
  | .fact e => .fact e.tree
  | .paren _ e _ => e.tree

/-- the item sequence of the `expression` pair: a parenthesised sub-expression is ONE
    primary, already converted to its tree -/
def items : CST → List PItem
  | .atom e => [.prim e]
  | .bin op l _ _ r => l.items ++ .inf (PrattRT.ruleOf op) :: r.items
  | .un op e => .pre (PrattRT.preRule op) :: e.items
  | .fact e => e.items ++ [.postFact]
  | .paren _ e _ => [.prim e.tree]

def isParen : CST → Bool
  | .paren .. => true
  | _ => false

/-- admissible layout around a binary operator: a word operator needs layout before it and
    blanks (no line break) after it; a symbol operator takes any layout on both sides,
    including none — except that a symbol starting with `!` (`!=`) directly behind its left
    operand would be read as the postfix `!` -/
def layOk (op : BinOp) (a b : Lay) : Bool :=
  if isWordOp op then !a.isEmpty && !b.isEmpty && wsOnly b
  else !(a.isEmpty && (spell op).head? == some '!')

/-- layout everywhere admissible -/
def LayoutOk : CST → Prop
  | .atom _ => True
  | .bin op l a b r => l.LayoutOk ∧ r.LayoutOk ∧ layOk op a b = true
  | .un _ e => e.LayoutOk
  | .fact e => e.LayoutOk
  | .paren _ e _ => e.LayoutOk

/-- atoms of the fragment, no `~`, and parentheses wherever the printer's rule `needsParens`
    asks for them (additional ones are allowed anywhere) -/
def Shaped : CST → Prop
  | .atom e => atomOk e = true
  | .bin op l _ _ r =>
    l.Shaped ∧ r.Shaped ∧ (l.isParen = false → needsParens l.tree (.binLeft op) = false) ∧
      (r.isParen = false → needsParens r.tree (.binRight op) = false)
  | .un op e => op ≠ .invert ∧ e.Shaped ∧ (e.isParen = false → needsParens e.tree .prefix_ = false)
  | .fact e => e.Shaped ∧ (e.isParen = false → needsParens e.tree .postfix_ = false)
  | .paren _ e _ => e.Shaped

/-- well-formed concrete syntax -/
def WF (c : CST) : Prop := c.Shaped ∧ c.LayoutOk

end CST

/-! ### (7) the PEG model splits the text of a CST into its items -/

/-- `expression` at `cs` yields `its` and leaves `r` (with enough fuel) -/
def EX (cs : List Char) (its : List PItem) (r : List Char) : Prop := ∃ f, exprR f cs = .ok (its, r)

/-- what happens after a term when `rest` follows: `postfix_op*`, then the operator tail -/
def After (rest : List Char) (its : List PItem) (r : List Char) : Prop :=
  ∃ its2 f, tailR f (postfixStar rest).2 = .ok (its2, r) ∧ its = (postfixStar rest).1 ++ its2

theorem ex_intro {cs : List Char} {its1 : List PItem} {r1 : List Char} {its2 : List PItem}
    {r : List Char} {f g : Nat} (ho : operandR f cs = .ok (its1, r1))
    (ht : tailR g r1 = .ok (its2, r)) : EX cs (its1 ++ its2) r := by
  refine ⟨max f g + 1, ?_⟩
  rw [exprR_succ, operandR_mono (Nat.le_max_left f g) ho]
  simp only [tailR_mono (Nat.le_max_right f g) ht]

theorem ex_elim {cs : List Char} {its : List PItem} {r : List Char} {f : Nat}
    (h : exprR f cs = .ok (its, r)) :
    ∃ g its1 r1 its2, f = g + 1 ∧ operandR g cs = .ok (its1, r1) ∧ tailR g r1 = .ok (its2, r) ∧
      its = its1 ++ its2 := by
  cases f with
  | zero => rw [exprR_zero] at h; cases h
  | succ g =>
    rw [exprR_succ] at h
    cases ho : operandR g cs with
    | out => rw [ho] at h; cases h
    | fail => rw [ho] at h; cases h
    | ok x =>
      obtain ⟨its1, r1⟩ := x
      rw [ho] at h
      simp only at h
      cases ht : tailR g r1 with
      | out => rw [ht] at h; cases h
      | fail => rw [ht] at h; cases h
      | ok y =>
        obtain ⟨its2, r'⟩ := y
        rw [ht] at h
        simp only [Res.ok.injEq, Prod.mk.injEq] at h
        obtain ⟨rfl, rfl⟩ := h
        exact ⟨g, its1, r1, its2, rfl, ho, ht, rfl⟩

/-- an operand followed by `rest`: from the operand result to the whole expression -/
theorem ex_of_operand {cs rest : List Char} {e : Expr} {pre : List PItem} {its : List PItem}
    {r : List Char} {f : Nat}
    (ho : operandR f cs = .ok (pre ++ .prim e :: (postfixStar rest).1, (postfixStar rest).2))
    (hk : After rest its r) : EX cs (pre ++ .prim e :: its) r := by
  obtain ⟨its2, g, ht, rfl⟩ := hk
  have := ex_intro ho ht
  simpa using this

/-- a prefix operator in front of an expression -/
theorem ex_prefix {c : Char} {X : List Char} {it : PItem} {its : List PItem} {r : List Char}
    (hp : prefixUsage (c :: X) = some (it, X)) (h : EX X its r) : EX (c :: X) (it :: its) r := by
  obtain ⟨f, h⟩ := h
  obtain ⟨g, its1, r1, its2, rfl, ho, ht, rfl⟩ := ex_elim h
  have ho' : operandR g (c :: X) = .ok (it :: its1, r1) := by
    cases g with
    | zero => rw [operandR_zero] at ho; cases ho
    | succ k =>
      rw [operandR_succ] at ho ⊢
      rw [prefixStar_cons hp]
      simp only
      split at ho
      · rename_i e r1' he
        simp only [Res.ok.injEq, Prod.mk.injEq] at ho
        obtain ⟨rfl, rfl⟩ := ho
        rfl
      · rename_i hn
        split at ho
        · rename_i r1' hpr
          split at ho
          · rename_i its' r2 hex
            split at ho
            · rename_i r3 hl
              split at ho
              · rename_i e' hpp
                simp only [Res.ok.injEq, Prod.mk.injEq] at ho
                obtain ⟨rfl, rfl⟩ := ho
                rfl
              · cases ho
            · cases ho
          · cases ho
          · cases ho
        · cases ho
  have := ex_intro ho' ht
  simpa using this

/-- the operator tail starting with an `infix_usage` -/
theorem after_infix {Y X : List Char} {rule : String} {its : List PItem} {r : List Char}
    (hi : infixUsage Y = some (rule, X)) (hY : (postfixStar Y) = ([], Y)) (h : EX X its r) :
    After Y (.inf rule :: its) r := by
  obtain ⟨f, h⟩ := h
  obtain ⟨g, its1, r1, its2, rfl, ho, ht, rfl⟩ := ex_elim h
  refine ⟨.inf rule :: (its1 ++ its2), g + 1, ?_, by simp [hY]⟩
  rw [hY, tailR_succ]
  simp only [hi, ho, ht]

theorem after_close (b : Lay) (rest : List Char) :
    After (layChars b ++ ')' :: rest) [] (layChars b ++ ')' :: rest) := by
  have hp : postfixStar (layChars b ++ ')' :: rest) = ([], layChars b ++ ')' :: rest) := by
    obtain ⟨d, tl', hX, hd⟩ := lay_head b ')' rest (fun d => d ≠ '!')
      (by decide) (by decide) (by decide) (by decide) (by decide)
    rw [hX]; exact postfixStar_other _ hd
  refine ⟨[], 1, ?_, by simp [hp]⟩
  rw [hp, tailR_succ]
  simp only [infixUsage_close]

theorem after_nil : After [] [] [] := by
  refine ⟨[], 1, ?_, by simp [postfixStar_nil]⟩
  rw [postfixStar_nil, tailR_succ]
  simp only [infixUsage_nil]

theorem after_bang {rest : List Char} {its : List PItem} {r : List Char} (h : After rest its r) :
    After ('!' :: rest) (.postFact :: its) r := by
  obtain ⟨its2, f, ht, rfl⟩ := h
  exact ⟨its2, f, by rw [postfixStar_bang]; exact ht, by rw [postfixStar_bang]; rfl⟩

/-! ### (8) the Pratt model reads the items of a CST back to its tree -/

section pratt
open PrattRT

/-- the statement proved for every operand by induction (cf. `PrattRT.Parses`): a
    parenthesised operand is a primary and needs no side condition -/
def CParses (c : CST) : Prop :=
  ∀ rbp rest, rbp ≤ P - 1 → (c.isParen = false → Fits c.tree rbp rest) →
    ∀ e' rest', PLoop rbp c.tree rest e' rest' → PExpr rbp (c.items ++ rest) e' rest'

theorem atom_not_compound {e : Expr} (h : atomOk e = true) : isCompound e = false := by
  cases e <;> simp [atomOk] at h <;> rfl

theorem cparses : ∀ (c : CST), c.Shaped → CParses c
  | .atom e, _ => by
    intro rbp rest _ _ e' rest' hk
    exact PExpr.prim hk
  | .paren _ e _, _ => by
    intro rbp rest _ _ e' rest' hk
    exact PExpr.prim hk
  | .bin op l a b r, h => by
    obtain ⟨hl, hr, hnl, hnr⟩ := h
    have ihl := cparses l hl
    have ihr := cparses r hr
    intro rbp rest hrbp hfit e' rest' hk
    obtain ⟨hlt, n, hlb, hn⟩ := hfit rfl
    simp only [CST.items, List.append_assoc, List.cons_append]
    apply ihl rbp _ hrbp (fun hp => fits_left _ (hnl hp) hlt)
    have hrhs : PExpr (rbpR op) (r.items ++ rest) r.tree rest :=
      ihr (rbpR op) rest (rbpR_le_P op) (fun hp => fits_right (hnr hp) hlb hn) _ _
        (PLoop.stop hlb (by omega))
    have hm := mapInfix_ruleOf op l.tree r.tree
    have ho := opLookup_ruleOf op
    cases hra : ra op
    · simp only [rbpR, hra] at hrhs ho
      exact PLoop.infL (lbp_inf op _) hlt ho hrhs hm hk
    · simp only [rbpR, hra] at hrhs ho
      exact PLoop.infR (lbp_inf op _) hlt ho hrhs hm hk
  | .un op e, h => by
    obtain ⟨hop, he, hne⟩ := h
    have ih := cparses e he
    intro rbp rest hrbp hfit e' rest' hk
    obtain ⟨n, hlb, hn⟩ := hfit rfl
    simp only [CST.items, List.cons_append]
    have hrhs : PExpr (P - 1) (e.items ++ rest) e.tree rest :=
      ih (P - 1) rest (Nat.le_refl _) (fun hp => fits_prefix (hne hp) hlb hn) _ _
        (PLoop.stop hlb (by omega))
    cases op with
    | negate => exact PExpr.pre opLookup_negation hrhs rfl hk
    | not => exact PExpr.pre opLookup_invert hrhs rfl hk
    | invert => exact absurd rfl hop
  | .fact e, h => by
    obtain ⟨he, hne⟩ := h
    have ih := cparses e he
    intro rbp rest hrbp _ e' rest' hk
    simp only [CST.items, List.append_assoc, List.singleton_append]
    exact ih rbp _ hrbp (fun hp => fits_postfix (hne hp))
      _ _ (PLoop.fact (lbp_postFact rest) (by have := P_le_fact; omega) hk)

/-- the items of a well-shaped CST parse back to its tree -/
theorem cst_pratt (c : CST) (h : c.Shaped) : prattParse c.items = some c.tree := by
  have hfit : c.isParen = false → Fits c.tree 0 [] := by
    intro _
    cases c with
    | bin op l a b r => exact ⟨bp_pos op, 0, rfl, Nat.zero_le _⟩
    | un o e => exact ⟨0, rfl, Nat.zero_le _⟩
    | atom e =>
      have := atom_not_compound (e := e) h
      cases e <;> first | trivial | simp [isCompound] at this
    | fact e => trivial
    | paren a e b => rename_i hp; cases hp
  have := cparses c h 0 [] (Nat.zero_le _) hfit c.tree [] (PLoop.stop lbp_nil (by omega))
  simp only [List.append_nil] at this
  exact this.parse

end pratt

/-! ### (9) main lemma: lexing the text of a CST -/

theorem boundary_cons {d : Char} {tl : List Char} (h : isIdentChar d = false) : Boundary (d :: tl) := by
  simp [Boundary, boundary, h]

theorem text_start : ∀ (c : CST), c.Shaped → ∃ x tl, c.text = x :: tl ∧ startChar x = true
  | .atom e, h => by
    obtain ⟨hne, hall, _, _⟩ := atom_word (e := e) h
    simp only [CST.text]
    cases hw : atomText e with
    | nil => exact absurd hw hne
    | cons x tl =>
      refine ⟨x, tl, rfl, ?_⟩
      have := hall x (by rw [hw]; exact List.mem_cons_self)
      simp [startChar, this]
  | .bin op l a b r, h => by
    obtain ⟨x, tl, hx, hs⟩ := text_start l h.1
    exact ⟨x, _, by simp only [CST.text, hx, List.cons_append]; rfl, hs⟩
  | .un op e, h => by
    cases op with
    | negate => exact ⟨'-', e.text, rfl, by decide⟩
    | not => exact ⟨'!', e.text, rfl, by decide⟩
    | invert => exact absurd rfl h.1
  | .fact e, h => by
    obtain ⟨x, tl, hx, hs⟩ := text_start e h.1
    exact ⟨x, _, by simp only [CST.text, hx, List.cons_append]; rfl, hs⟩
  | .paren a e b, _ => ⟨'(', _, rfl, by decide⟩

theorem termAtom_paren (X : List Char) : termAtom ('(' :: X) = none := by
  have h1 : boolRule ('(' :: X) = none := by
    simp [boolRule, keyword, firstLit, trueLit, falseLit, lit]
  have h2 : nullRule ('(' :: X) = none := by
    simp [nullRule, keyword, firstLit, nullLit, lit]
  have h3 : identifier ('(' :: X) = none := by
    have : nameBody ('(' :: X) = none := by
      have : isIdentStart '(' = false := by decide
      simp [nameBody, plus, this]
    simp only [identifier, this]
    split <;> rfl
  have h4 : plus isDigit ('(' :: X) = none := by
    have : isDigit '(' = false := by decide
    simp [plus, this]
  simp only [termAtom, h1, h2, h3, h4]

/-- the text between an operand and the next one: layout, operator, layout -/
theorem op_gap (op : BinOp) (a b : Lay) (hl : CST.layOk op a b = true) (x : Char) (tl : List Char)
    (hx : startChar x = true) :
    let Y := layChars a ++ (spell op ++ (layChars b ++ x :: tl))
    infixUsage Y = some (PrattRT.ruleOf op, x :: tl) ∧ postfixStar Y = ([], Y) ∧ Boundary Y := by
  intro Y
  cases hw : isWordOp op with
  | true =>
    simp only [CST.layOk, hw, if_true, Bool.and_eq_true, Bool.not_eq_true', List.isEmpty_eq_false_iff]
      at hl
    obtain ⟨⟨ha, hb⟩, hbw⟩ := hl
    refine ⟨infixUsage_word op hw a b x tl ha hb hbw hx, ?_⟩
    cases a with
    | nil => exact absurd rfl ha
    | cons y a =>
      have : ∃ d tl', Y = d :: tl' ∧ d ≠ '!' ∧ isIdentChar d = false := by
        cases y <;> exact ⟨_, _, rfl, by decide, by decide⟩
      obtain ⟨d, tl', hY, hd1, hd2⟩ := this
      rw [hY]
      exact ⟨postfixStar_other _ hd1, boundary_cons hd2⟩
  | false =>
    simp only [CST.layOk, hw, Bool.false_eq_true, if_false, Bool.not_eq_true', Bool.and_eq_false_iff,
      List.isEmpty_eq_false_iff, beq_eq_false_iff_ne, ne_eq] at hl
    refine ⟨infixUsage_sym op hw a b x tl hx, ?_⟩
    have hs := symOk_of op hw
    simp only [symOk, Bool.and_eq_true] at hs
    obtain ⟨_, hs2⟩ := hs
    split at hs2
    · cases hs2
    · rename_i h t hsp
      simp only [Bool.and_eq_true, Bool.not_eq_true'] at hs2
      obtain ⟨⟨_, hid⟩, _⟩ := hs2
      have : ∃ d tl', Y = d :: tl' ∧ d ≠ '!' ∧ isIdentChar d = false := by
        cases a with
        | nil =>
          refine ⟨h, _, by simp only [Y, layChars, List.nil_append, hsp, List.cons_append]; rfl, ?_, hid⟩
          rcases hl with hl | hl
          · exact absurd rfl hl
          · intro e; apply hl; rw [hsp, e]; rfl
        | cons y a => cases y <;> exact ⟨_, _, rfl, by decide, by decide⟩
      obtain ⟨d, tl', hY, hd1, hd2⟩ := this
      rw [hY]
      exact ⟨postfixStar_other _ hd1, boundary_cons hd2⟩

/-- MAIN LEMMA (unbounded depth): in front of any `rest` that does not continue a word, and
    whatever happens after it (`After`: postfix operators, then the operator tail), the
    `expression` rule splits the text of a well-formed CST into exactly its items. -/
theorem lex_cst : ∀ (c : CST), c.Shaped → c.LayoutOk → ∀ rest its r, Boundary rest →
    After rest its r → EX (c.text ++ rest) (c.items ++ its) r
  | .atom e, h, _ => by
    intro rest its r hb hk
    obtain ⟨hne, hall, hnot, hterm⟩ := atom_word (e := e) h
    have hp : prefixStar (atomText e ++ rest) = ([], atomText e ++ rest) :=
      prefixStar_none (prefixUsage_word hne hall hnot hb)
    have ho : operandR 1 (atomText e ++ rest) =
        .ok ([] ++ .prim e :: (postfixStar rest).1, (postfixStar rest).2) := by
      rw [operandR_succ, hp]
      simp only [hterm rest hb]
    exact ex_of_operand ho hk
  | .bin op l a b r, h, hl => by
    intro rest its r' hb hk
    obtain ⟨hsl, hsr, _, _⟩ := h
    obtain ⟨hll, hlr, hlo⟩ := hl
    obtain ⟨x, tl, hx, hsx⟩ := text_start r hsr
    have exr := lex_cst r hsr hlr rest its r' hb hk
    obtain ⟨hi, hY, hB⟩ := op_gap op a b hlo x (tl ++ rest) hsx
    have hk' := after_infix hi hY (by rw [hx, List.cons_append] at exr; exact exr)
    have := lex_cst l hsl hll _ _ r' hB hk'
    simp only [CST.text, CST.items, List.append_assoc, List.cons_append, hx]
    exact this
  | .un op e, h, hl => by
    intro rest its r hb hk
    obtain ⟨hop, hse, _⟩ := h
    have ih := lex_cst e hse hl rest its r hb hk
    cases op with
    | negate => exact ex_prefix (prefixUsage_minus _) ih
    | not => exact ex_prefix (prefixUsage_bang _) ih
    | invert => exact absurd rfl hop
  | .fact e, h, hl => by
    intro rest its r hb hk
    have ih := lex_cst e h.1 hl ('!' :: rest) (.postFact :: its) r (boundary_cons (by decide))
      (after_bang hk)
    simp only [CST.text, CST.items, List.append_assoc, List.singleton_append]
    exact ih
  | .paren a e b, h, hl => by
    intro rest its r hb hk
    have hse : e.Shaped := h
    obtain ⟨x, tl, hx, hsx⟩ := text_start e hse
    have hbd : Boundary (layChars b ++ ')' :: rest) := by
      obtain ⟨d, tl', hX, hd⟩ := lay_head b ')' rest (fun d => isIdentChar d = false)
        (by decide) (by decide) (by decide) (by decide) (by decide)
      rw [hX]; exact boundary_cons hd
    obtain ⟨f, hf⟩ := lex_cst e hse hl (layChars b ++ ')' :: rest) [] _ hbd (after_close b rest)
    simp only [List.append_nil] at hf
    have hla : layoutAtom (e.text ++ (layChars b ++ ')' :: rest)) = none := by
      rw [hx, List.cons_append]; exact layoutAtom_none (startChar_facts hsx).1
    have ho : operandR (f + 1) ('(' :: (layChars a ++ (e.text ++ (layChars b ++ ')' :: rest)))) =
        .ok ([] ++ .prim e.tree :: (postfixStar rest).1, (postfixStar rest).2) := by
      rw [operandR_succ, prefixStar_none (prefixUsage_paren _)]
      simp only [termAtom_paren, layoutStar_run a _ hla, hf,
        layoutStar_run b _ (layoutAtom_none (c := ')') (by decide)), cst_pratt e hse]
    have := ex_of_operand ho hk
    simp only [CST.text, CST.items, List.append_assoc, List.cons_append, List.nil_append] at this ⊢
    exact this

/-! ### (10) whole texts -/

/-- a well-formed CST is lexed into its items, with nothing left over, by every fuel from
    `fuelFor` upwards -/
theorem cst_lex (c : CST) (h : c.WF) (fuel : Nat) (hf : fuelFor c.text ≤ fuel) :
    exprItems fuel c.text = some (c.items, []) := by
  obtain ⟨f, hx⟩ := lex_cst c h.1 h.2 [] [] [] rfl after_nil
  simp only [List.append_nil] at hx
  exact exprItems_of_exprR hx fuel hf

/-- … and parsed to its tree -/
theorem cst_roundtrip (c : CST) (h : c.WF) : parseText (String.ofList c.text) = some c.tree := by
  have h1 := cst_lex c h (fuelFor c.text) (Nat.le_refl _)
  unfold parseText
  rw [String.toList_ofList, h1]
  exact cst_pratt c h.1

/-! ### (11) the CST the printer writes -/

/-- the operator fragment of the abstract syntax: binary operators, prefix `-` / `!`, postfix
    `!` over the atoms of `atomOk` -/
def frag : Expr → Bool
  | .bin _ l r => frag l && frag r
  | .un op e => op != .invert && frag e
  | .fact e => frag e
  | .ident n => atomOk (.ident n)
  | .builtin n => atomOk (.builtin n)
  | .bool b => atomOk (.bool b)
  | .null => atomOk .null
  | .num x => atomOk (.num x)
  | _ => false

abbrev Frag (t : Expr) : Prop := frag t = true

def wrap (b : Bool) (c : CST) : CST := if b then .paren [] c [] else c

/-- what `exprToSource` writes, as a CST: one blank on each side of a binary operator,
    nothing else, parentheses exactly where `needsParens` says -/
def canon : Expr → CST
  | .bin op l r =>
    .bin op (wrap (needsParens l (.binLeft op)) (canon l)) [.sp] [.sp]
      (wrap (needsParens r (.binRight op)) (canon r))
  | .un op e => .un op (wrap (needsParens e .prefix_) (canon e))
  | .fact e => .fact (wrap (needsParens e .postfix_) (canon e))
  | .ident n => .atom (.ident n)
  | .builtin n => .atom (.builtin n)
  | .bool b => .atom (.bool b)
  | .null => .atom .null
  | .num x => .atom (.num x)
  | e => .atom e

theorem wrap_tree (b : Bool) (c : CST) : (wrap b c).tree = c.tree := by
  cases b <;> rfl

theorem wrap_text (b : Bool) (c : CST) :
    (wrap b c).text = if b then '(' :: (c.text ++ [')']) else c.text := by
  cases b <;> simp [wrap, CST.text, layChars]

theorem wrap_items (b : Bool) (c : CST) :
    (wrap b c).items = if b then [.prim c.tree] else c.items := by
  cases b <;> rfl

theorem wrap_shaped {b : Bool} {c : CST} (h : c.Shaped) : (wrap b c).Shaped := by
  cases b <;> exact h

theorem wrap_layout {b : Bool} {c : CST} (h : c.LayoutOk) : (wrap b c).LayoutOk := by
  cases b <;> exact h

theorem wrap_isParen {b : Bool} {c : CST} (_hc : c.isParen = false) (h : (wrap b c).isParen = false) :
    b = false := by
  cases b
  · rfl
  · simp [wrap, CST.isParen] at h

theorem parenIf_toList (b : Bool) (s : String) :
    (parenIf b s).toList = if b then '(' :: (s.toList ++ [')']) else s.toList := by
  cases b <;> simp [parenIf]

theorem canon_tree : ∀ t : Expr, Frag t → (canon t).tree = t
  | .bin op l r, h => by
    simp only [Frag, frag, Bool.and_eq_true] at h
    simp only [canon, CST.tree, wrap_tree, canon_tree l h.1, canon_tree r h.2]
  | .un op e, h => by
    simp only [Frag, frag, Bool.and_eq_true] at h
    simp only [canon, CST.tree, wrap_tree, canon_tree e h.2]
  | .fact e, h => by
    simp only [Frag, frag] at h
    simp only [canon, CST.tree, wrap_tree, canon_tree e h]
  | .ident _, _ | .builtin _, _ | .bool _, _ | .null, _ | .num _, _ => rfl
  | .str _, h | .inref _, h | .list _, h | .record _, h | .lambda _ _, h | .cond _ _ _, h
  | .doBlock _ _, h | .assign _ _, h | .output _, h | .call _ _, h | .access _ _, h | .dot _ _, h
  | .spread _, h => by simp [Frag, frag] at h

theorem canon_isParen : ∀ t : Expr, (canon t).isParen = false := by
  intro t; cases t <;> rfl

theorem canon_text : ∀ t : Expr, Frag t → (canon t).text = (exprToSource t).toList
  | .bin op l r, h => by
    simp only [Frag, frag, Bool.and_eq_true] at h
    have hl := canon_text l h.1
    have hr := canon_text r h.2
    simp only [exprToSource] at hl hr ⊢
    simp only [canon, CST.text, wrap_text, hl, hr, exprSrc, String.toList_append, parenIf_toList,
      layChars, LayAtom.chars, spell, List.append_assoc, List.cons_append, List.nil_append]
    rfl
  | .un op e, h => by
    simp only [Frag, frag, Bool.and_eq_true] at h
    have he := canon_text e h.2
    simp only [exprToSource] at he ⊢
    simp only [canon, CST.text, wrap_text, he, exprSrc, String.toList_append, parenIf_toList]
  | .fact e, h => by
    simp only [Frag, frag] at h
    have he := canon_text e h
    simp only [exprToSource] at he ⊢
    simp only [canon, CST.text, wrap_text, he, exprSrc, String.toList_append, parenIf_toList]
    rfl
  | .ident _, _ | .builtin _, _ | .bool _, _ | .null, _ | .num _, _ => rfl
  | .str _, h | .inref _, h | .list _, h | .record _, h | .lambda _ _, h | .cond _ _ _, h
  | .doBlock _ _, h | .assign _ _, h | .output _, h | .call _ _, h | .access _ _, h | .dot _ _, h
  | .spread _, h => by simp [Frag, frag] at h

theorem canon_items : ∀ t : Expr, Frag t → (canon t).items = PrattRT.items t
  | .bin op l r, h => by
    simp only [Frag, frag, Bool.and_eq_true] at h
    simp only [canon, CST.items, wrap_items, wrap_tree, canon_tree l h.1, canon_tree r h.2,
      canon_items l h.1, canon_items r h.2, PrattRT.items_bin, PrattRT.child]
  | .un op e, h => by
    simp only [Frag, frag, Bool.and_eq_true] at h
    simp only [canon, CST.items, wrap_items, canon_tree e h.2, canon_items e h.2,
      PrattRT.items_un, PrattRT.child]
  | .fact e, h => by
    simp only [Frag, frag] at h
    simp only [canon, CST.items, wrap_items, canon_tree e h, canon_items e h,
      PrattRT.items_fact, PrattRT.child]
  | .ident _, _ | .builtin _, _ | .bool _, _ | .null, _ | .num _, _ => rfl
  | .str _, h | .inref _, h | .list _, h | .record _, h | .lambda _ _, h | .cond _ _ _, h
  | .doBlock _ _, h | .assign _ _, h | .output _, h | .call _ _, h | .access _ _, h | .dot _ _, h
  | .spread _, h => by simp [Frag, frag] at h

theorem canon_shaped : ∀ t : Expr, Frag t → (canon t).Shaped
  | .bin op l r, h => by
    simp only [Frag, frag, Bool.and_eq_true] at h
    refine ⟨wrap_shaped (canon_shaped l h.1), wrap_shaped (canon_shaped r h.2), ?_, ?_⟩
    · intro hp
      rw [wrap_tree, canon_tree l h.1]
      exact wrap_isParen (canon_isParen l) hp
    · intro hp
      rw [wrap_tree, canon_tree r h.2]
      exact wrap_isParen (canon_isParen r) hp
  | .un op e, h => by
    simp only [Frag, frag, Bool.and_eq_true, bne_iff_ne, ne_eq] at h
    refine ⟨h.1, wrap_shaped (canon_shaped e h.2), ?_⟩
    intro hp
    rw [wrap_tree, canon_tree e h.2]
    exact wrap_isParen (canon_isParen e) hp
  | .fact e, h => by
    simp only [Frag, frag] at h
    refine ⟨wrap_shaped (canon_shaped e h), ?_⟩
    intro hp
    rw [wrap_tree, canon_tree e h]
    exact wrap_isParen (canon_isParen e) hp
  | .ident _, h | .builtin _, h | .bool _, h | .null, h | .num _, h => by
    simp only [Frag, frag] at h; exact h
  | .str _, h | .inref _, h | .list _, h | .record _, h | .lambda _ _, h | .cond _ _ _, h
  | .doBlock _ _, h | .assign _ _, h | .output _, h | .call _ _, h | .access _ _, h | .dot _ _, h
  | .spread _, h => by simp [Frag, frag] at h

/-- one blank on each side is admissible for every operator -/
theorem layOk_sp (op : BinOp) : CST.layOk op [.sp] [.sp] = true := by
  cases h : isWordOp op <;> simp [CST.layOk, h, wsOnly, LayAtom.isWs]

theorem canon_layout : ∀ t : Expr, (canon t).LayoutOk
  | .bin op l r => ⟨wrap_layout (canon_layout l), wrap_layout (canon_layout r), layOk_sp op⟩
  | .un _ e => wrap_layout (canon_layout e)
  | .fact e => wrap_layout (canon_layout e)
  | .ident _ | .builtin _ | .bool _ | .null | .num _ => trivial
  | .str _ | .inref _ | .list _ | .record _ | .lambda _ _ | .cond _ _ _
  | .doBlock _ _ | .assign _ _ | .output _ | .call _ _ | .access _ _ | .dot _ _
  | .spread _ => trivial

theorem canon_wf (t : Expr) (h : Frag t) : (canon t).WF := ⟨canon_shaped t h, canon_layout t⟩

theorem frag_noInvert : ∀ t : Expr, Frag t → PrattRT.NoInvert t
  | .bin op l r, h => by
    simp only [Frag, frag, Bool.and_eq_true] at h
    simp [PrattRT.NoInvert, PrattRT.noInvert, frag_noInvert l h.1, frag_noInvert r h.2]
  | .un op e, h => by
    simp only [Frag, frag, Bool.and_eq_true] at h
    simp [PrattRT.NoInvert, PrattRT.noInvert, frag_noInvert e h.2, h.1]
  | .fact e, h => by
    simp only [Frag, frag] at h
    simp [PrattRT.NoInvert, PrattRT.noInvert, frag_noInvert e h]
  | .ident _, _ | .builtin _, _ | .bool _, _ | .null, _ | .num _, _ => rfl
  | .str _, h | .inref _, h | .list _, h | .record _, h | .lambda _ _, h | .cond _ _ _, h
  | .doBlock _ _, h | .assign _ _, h | .output _, h | .call _ _, h | .access _ _, h | .dot _ _, h
  | .spread _, h => by simp [Frag, frag] at h

/-! ### (12) re-layout -/

namespace CST

/-- every layout string reset to what the printer writes: one blank on each side of a binary
    operator, nothing inside parentheses -/
def normalize : CST → CST
  | .atom e => .atom e
  | .bin op l _ _ r => .bin op l.normalize [.sp] [.sp] r.normalize
  | .un op e => .un op e.normalize
  | .fact e => .fact e.normalize
  | .paren _ e _ => .paren [] e.normalize []

theorem normalize_tree : ∀ c : CST, c.normalize.tree = c.tree
  | .atom _ => rfl
  | .bin _ l _ _ r => by simp only [normalize, tree, normalize_tree l, normalize_tree r]
  | .un _ e => by simp only [normalize, tree, normalize_tree e]
  | .fact e => by simp only [normalize, tree, normalize_tree e]
  | .paren _ e _ => by simp only [normalize, tree, normalize_tree e]

theorem normalize_items : ∀ c : CST, c.normalize.items = c.items
  | .atom _ => rfl
  | .bin _ l _ _ r => by simp only [normalize, items, normalize_items l, normalize_items r]
  | .un _ e => by simp only [normalize, items, normalize_items e]
  | .fact e => by simp only [normalize, items, normalize_items e]
  | .paren _ e _ => by simp only [normalize, items, normalize_tree e]

theorem normalize_isParen (c : CST) : c.normalize.isParen = c.isParen := by
  cases c <;> rfl

theorem shaped_of_normalize : ∀ c : CST, c.normalize.Shaped → c.Shaped
  | .atom _, h => h
  | .bin _ l _ _ r, h => by
    simp only [normalize, Shaped, normalize_tree, normalize_isParen] at h
    exact ⟨shaped_of_normalize l h.1, shaped_of_normalize r h.2.1, h.2.2.1, h.2.2.2⟩
  | .un _ e, h => by
    simp only [normalize, Shaped, normalize_tree, normalize_isParen] at h
    exact ⟨h.1, shaped_of_normalize e h.2.1, h.2.2⟩
  | .fact e, h => by
    simp only [normalize, Shaped, normalize_tree, normalize_isParen] at h
    exact ⟨shaped_of_normalize e h.1, h.2⟩
  | .paren _ e _, h => by
    simp only [normalize, Shaped] at h
    exact shaped_of_normalize e h

end CST

/-- `c` is a RE-LAYOUT of the printed `t`: resetting every layout string of `c` gives the
    printer's CST (same atoms, operators, parentheses), and every layout string of `c` is
    admissible at its position (`CST.layOk`; anything between a parenthesis and its content) -/
def Relayout (t : Expr) (c : CST) : Prop := c.normalize = canon t ∧ c.LayoutOk

theorem wrap_normalize {b : Bool} {c : CST} (h : c.normalize = c) :
    (wrap b c).normalize = wrap b c := by
  cases b <;> simp [wrap, CST.normalize, h]

theorem canon_normalize : ∀ t : Expr, Frag t → (canon t).normalize = canon t
  | .bin op l r, h => by
    simp only [Frag, frag, Bool.and_eq_true] at h
    simp only [canon, CST.normalize, wrap_normalize (canon_normalize l h.1),
      wrap_normalize (canon_normalize r h.2)]
  | .un op e, h => by
    simp only [Frag, frag, Bool.and_eq_true] at h
    simp only [canon, CST.normalize, wrap_normalize (canon_normalize e h.2)]
  | .fact e, h => by
    simp only [Frag, frag] at h
    simp only [canon, CST.normalize, wrap_normalize (canon_normalize e h)]
  | .ident _, _ | .builtin _, _ | .bool _, _ | .null, _ | .num _, _ => rfl
  | .str _, h | .inref _, h | .list _, h | .record _, h | .lambda _ _, h | .cond _ _ _, h
  | .doBlock _ _, h | .assign _ _, h | .output _, h | .call _ _, h | .access _ _, h | .dot _ _, h
  | .spread _, h => by simp [Frag, frag] at h

theorem relayout_self (t : Expr) (h : Frag t) : Relayout t (canon t) :=
  ⟨canon_normalize t h, canon_layout t⟩

theorem relayout_wf {t : Expr} {c : CST} (h : Frag t) (hr : Relayout t c) :
    c.WF ∧ c.items = PrattRT.items t ∧ c.tree = t := by
  obtain ⟨hn, hl⟩ := hr
  refine ⟨⟨CST.shaped_of_normalize c (hn ▸ canon_shaped t h), hl⟩, ?_, ?_⟩
  · rw [← CST.normalize_items, hn, canon_items t h]
  · rw [← CST.normalize_tree, hn, canon_tree t h]

/-! ### (13) redundant parentheses -/

/-- `Wrap c c'`: `c'` is `c` with ONE sub-expression (any, at any depth — possibly all of
    `c`) put into an extra pair of parentheses, with any layout inside them -/
inductive Wrap : CST → CST → Prop
  | here (a : Lay) (c : CST) (b : Lay) : Wrap c (.paren a c b)
  | binL {l l' : CST} (op : BinOp) (a b : Lay) (r : CST) : Wrap l l' → Wrap (.bin op l a b r) (.bin op l' a b r)
  | binR {r r' : CST} (op : BinOp) (l : CST) (a b : Lay) : Wrap r r' → Wrap (.bin op l a b r) (.bin op l a b r')
  | un {e e' : CST} (op : UnOp) : Wrap e e' → Wrap (.un op e) (.un op e')
  | fact {e e' : CST} : Wrap e e' → Wrap (.fact e) (.fact e')
  | paren {e e' : CST} (a b : Lay) : Wrap e e' → Wrap (.paren a e b) (.paren a e' b)

theorem wrap_facts {c c' : CST} (hw : Wrap c c') :
    c'.tree = c.tree ∧ (c'.isParen = false → c.isParen = false) ∧ (c.Shaped → c'.Shaped) ∧
      (c.LayoutOk → c'.LayoutOk) := by
  induction hw with
  | here a c b => exact ⟨rfl, fun h => by simp [CST.isParen] at h, fun h => h, fun h => h⟩
  | binL op a b r _ ih =>
    obtain ⟨i1, i2, i3, i4⟩ := ih
    refine ⟨by simp only [CST.tree, i1], fun _ => rfl, ?_, ?_⟩
    · rintro ⟨h1, h2, h3, h4⟩
      exact ⟨i3 h1, h2, fun hp => by rw [i1]; exact h3 (i2 hp), h4⟩
    · rintro ⟨h1, h2, h3⟩
      exact ⟨i4 h1, h2, h3⟩
  | binR op l a b _ ih =>
    obtain ⟨i1, i2, i3, i4⟩ := ih
    refine ⟨by simp only [CST.tree, i1], fun _ => rfl, ?_, ?_⟩
    · rintro ⟨h1, h2, h3, h4⟩
      exact ⟨h1, i3 h2, h3, fun hp => by rw [i1]; exact h4 (i2 hp)⟩
    · rintro ⟨h1, h2, h3⟩
      exact ⟨h1, i4 h2, h3⟩
  | un op _ ih =>
    obtain ⟨i1, i2, i3, i4⟩ := ih
    refine ⟨by simp only [CST.tree, i1], fun _ => rfl, ?_, i4⟩
    rintro ⟨h1, h2, h3⟩
    exact ⟨h1, i3 h2, fun hp => by rw [i1]; exact h3 (i2 hp)⟩
  | fact _ ih =>
    obtain ⟨i1, i2, i3, i4⟩ := ih
    refine ⟨by simp only [CST.tree, i1], fun _ => rfl, ?_, i4⟩
    rintro ⟨h1, h2⟩
    exact ⟨i3 h1, fun hp => by rw [i1]; exact h2 (i2 hp)⟩
  | paren a b _ ih =>
    obtain ⟨i1, _, i3, i4⟩ := ih
    exact ⟨by simp only [CST.tree, i1], fun h => by simp [CST.isParen] at h, i3, i4⟩

/-- any number of extra pairs of parentheses, one after the other, anywhere -/
inductive Wraps : CST → CST → Prop
  | refl (c : CST) : Wraps c c
  | step {c c' c'' : CST} : Wraps c c' → Wrap c' c'' → Wraps c c''

theorem wraps_facts {c c' : CST} (hw : Wraps c c') (h : c.WF) : c'.tree = c.tree ∧ c'.WF := by
  induction hw with
  | refl => exact ⟨rfl, h⟩
  | step _ hs ih =>
    obtain ⟨i1, _, i3, i4⟩ := wrap_facts hs
    exact ⟨i1.trans ih.1, i3 ih.2.1, i4 ih.2.2⟩

end Blots.ExprPeg
