import Blots.Lemmas.ExprPegOps
/-
  Text-level round trip for the fragment (C10), part 2 (part 1: `Lemmas/ExprPegOps.lean`):

  * `CST` / `Args`   : concrete syntax trees of the fragment — operator trees, calls, index and
                       field accesses, with the layout strings and the parentheses written
                       out; `CST.text` the characters, `CST.items` the item sequence pest hands
                       to the Pratt parser, `CST.tree` the abstract tree (parentheses erased);
  * `CST.WF`         : parentheses present wherever `needsParens` asks for them (more are
                       allowed), atoms of the fragment, admissible layout;
  * `lex_cst`        : the PEG model `exprR` splits `c.text` into exactly `c.items`
                       (continuation-passing induction over the tree, unbounded depth);
  * `cparses`        : the Pratt model reads `c.items` back to `c.tree`
                       (generalises `PrattRT.items_parse` to redundant parentheses);
  * `canon`          : the CST the printer `exprToSource` writes.
-/
set_option linter.unusedSimpArgs false
namespace Blots.ExprPeg
open Blots.Ident

/-! ### (6) concrete syntax trees -/

/-- the end of a `call_list` / `list` behind its last element: layout and the closing bracket,
    or a trailing comma — blanks, `,`, layout, the closing bracket -/
inductive Close where
  | plain (l : Lay)
  | comma (w l : Lay)

def spreadChars (sp : Bool) : List Char := if sp then spreadLit else []

def argTree (sp : Bool) (t : Expr) : Expr := if sp then .spread t else t

/-- the closing text, up to and including the closing bracket `br` -/
def Close.text (br : Char) : Close → List Char
  | .plain l => layChars l ++ [br]
  | .comma w l => layChars w ++ ',' :: (layChars l ++ [br])

/-- admissible closing of a call: blanks only in front of the trailing comma, and the layout
    behind it has a line break (`("," ~ NEWLINE)?`: after blanks, a line break must come) -/
def Close.okCall : Close → Bool
  | .plain _ => true
  | .comma w l => wsOnly w && l.any fun a => !a.isWs

/-- admissible closing of a list: blanks only in front of the trailing comma -/
def Close.okList : Close → Bool
  | .plain _ => true
  | .comma w _ => wsOnly w

/-- text of a lambda argument -/
def argText : LArg → List Char
  | .req n => n.toList
  | .opt n => n.toList ++ ['?']
  | .rest n => spreadLit ++ n.toList

/-- the argument list of a lambda: one bare argument (`x`, `x?`), `( lay )`, or
    `( lay a₁ blanks , lay a₂ … close` with the layout rules of `call_list` -/
inductive LamHead where
  | bare (a : LArg)
  | unit (l : Lay)
  | parens (l0 : Lay) (first : LArg) (more : List (Lay × Lay × LArg)) (close : Close)

def moreText : List (Lay × Lay × LArg) → List Char
  | [] => []
  | (w, l, a) :: rest => layChars w ++ ',' :: (layChars l ++ (argText a ++ moreText rest))

def LamHead.text : LamHead → List Char
  | .bare a => argText a
  | .unit l => '(' :: (layChars l ++ [')'])
  | .parens l0 a more c => '(' :: (layChars l0 ++ (argText a ++ (moreText more ++ c.text ')')))

def LamHead.args : LamHead → List LArg
  | .bare a => [a]
  | .unit _ => []
  | .parens _ a more _ => a :: more.map fun x => x.2.2

/-- admissible layout of an argument list (blanks only in front of a comma, a trailing comma
    only in front of a line break); the parentheses may be left out around a single argument
    that is not a rest argument -/
def LamHead.ok : LamHead → Bool
  | .bare a => (match a with | .rest _ => false | _ => true)
  | .unit _ => true
  | .parens _ _ more c => more.all (fun x => wsOnly x.1) && c.okCall

/-- the names of the arguments are identifiers; a bare argument is not a rest argument
    (`...r => e` as an argument of a call would be the spread of `r => e`) -/
def LamHead.namesOk (h : LamHead) : Bool :=
  (h.args.all fun a => nameOk a.name) &&
    (match h with | .bare (.rest _) => false | _ => true)

/-- no `via` / `into` / `where` among the operators of an item sequence (what the top level of
    a lambda body may contain) -/
def LamSafe (its : List PItem) : Prop :=
  ∀ op : BinOp, PItem.inf (PrattRT.ruleOf op) ∈ its → isChain op = false

/-- what separates two statements of a do-block (and the last one from `return`): blanks, `;`,
    any layout — or a layout string with a line break in it -/
inductive Sep where
  | semi (w l : Lay)
  | line (g : Lay)

def Sep.text : Sep → List Char
  | .semi w l => layChars w ++ ';' :: layChars l
  | .line g => layChars g

def Sep.isLine : Sep → Bool
  | .semi .. => false
  | .line _ => true

/-- blanks only in front of a `;`; a line-break separator has a line break -/
def Sep.ok : Sep → Bool
  | .semi w _ => wsOnly w
  | .line g => g.any fun a => !a.isWs

def retLit : List Char := ['r', 'e', 't', 'u', 'r', 'n']

mutual
/-- concrete syntax of the fragment: the tree with every layout string and every pair of
    parentheses written out -/
inductive CST where
  /-- a term of the fragment, written as the printer writes it -/
  | atom : Expr → CST
  /-- a string literal `"s"` (`dq`) / `'s'` -/
  | str : Bool → String → CST
  /-- `l  lay₁ op lay₂  r` -/
  | bin : BinOp → CST → Lay → Lay → CST → CST
  /-- prefix operator directly in front of its operand (the grammar admits no layout there) -/
  | un : UnOp → CST → CST
  /-- postfix `!` directly behind its operand -/
  | fact : CST → CST
  /-- `( lay₁ e lay₂ )` -/
  | paren : Lay → CST → Lay → CST
  /-- `f( lay )` : a call without arguments, directly behind `f` -/
  | call0 : CST → Lay → CST
  /-- `f( lay args close` -/
  | call : CST → Lay → Args → Close → CST
  /-- `e[ nl₁ i nl₂ ]` -/
  | access : CST → Lay → CST → Lay → CST
  /-- `e.name` -/
  | dot : CST → String → CST
  /-- `[ lay ]` : the empty list -/
  | list0 : Lay → CST
  /-- `[ lay items close` -/
  | list : Lay → Args → Close → CST
  /-- `head blanks => lay body` -/
  | lambda : LamHead → Lay → Lay → CST → CST
  /-- `if blanks c lay then lay t lay else lay e` -/
  | cond : Lay → CST → Lay → Lay → CST → Lay → Lay → CST → CST
  /-- `{ lay }` : the empty record -/
  | rec0 : Lay → CST
  /-- `{ lay entries close` -/
  | record : Lay → Ents → Close → CST
  /-- `do lay { lay statements return blanks e lay }` -/
  | doB : Lay → Lay → Stmts → Lay → CST → Lay → CST
  /-- `name blanks = blanks value` : an assignment -/
  | asg : String → Lay → Lay → CST → CST
/-- a non-empty argument / item list: each element possibly spread (`...a`), separated by
    `blanks , layout` -/
inductive Args where
  | last : Bool → CST → Args
  | cons : Bool → CST → Lay → Lay → Args → Args
/-- one entry of a record -/
inductive Ent where
  /-- `k blanks : lay v` : a bare key (an identifier) -/
  | pairId : String → Lay → Lay → CST → Ent
  /-- `"k" blanks : lay v` / `'k' blanks : lay v` : a key written as a string literal -/
  | pairStr : Bool → String → Lay → Lay → CST → Ent
  /-- `[ blanks e blanks ] blanks : lay v` : a computed key -/
  | pairDyn : Lay → CST → Lay → Lay → Lay → CST → Ent
  /-- `n` : shorthand -/
  | short : String → Ent
  /-- `...e` -/
  | spread : CST → Ent
  /-- an entry outside the fragment (comments, a key with both kinds of quote, …) as the
      printer writes it: never well-shaped -/
  | raw : Entry → Ent
/-- a non-empty entry list, separated by `blanks , layout` -/
inductive Ents where
  | last : Ent → Ents
  | cons : Ent → Lay → Lay → Ents → Ents
/-- the statements of a do-block, each with the separator behind it -/
inductive Stmts where
  | nil : Stmts
  | cons : CST → Sep → Stmts → Stmts
end

namespace CST

mutual
def text : CST → List Char
  | .atom e => atomText e
  | .str dq s => quoteChar dq :: (s.toList ++ [quoteChar dq])
  | .bin op l a b r => l.text ++ (layChars a ++ (spell op ++ (layChars b ++ r.text)))
  | .un op e => (unaryOpToSource op).toList ++ e.text
  | .fact e => e.text ++ ['!']
  | .paren a e b => '(' :: (layChars a ++ (e.text ++ (layChars b ++ [')'])))
  | .call0 f l => f.text ++ '(' :: (layChars l ++ [')'])
  | .call f l as c => f.text ++ '(' :: (layChars l ++ (argsText as ++ c.text ')'))
  | .access e a i b => e.text ++ '[' :: (layChars a ++ (i.text ++ (layChars b ++ [']'])))
  | .dot e n => e.text ++ '.' :: n.toList
  | .list0 l => '[' :: (layChars l ++ [']'])
  | .list l as c => '[' :: (layChars l ++ (argsText as ++ c.text ']'))
  | .lambda hd w l b => hd.text ++ (layChars w ++ '=' :: '>' :: (layChars l ++ b.text))
  | .cond w c l1 l2 t l3 l4 e =>
    'i' :: 'f' :: (layChars w ++ (c.text ++ (layChars l1 ++ (thenLit ++ (layChars l2 ++
      (t.text ++ (layChars l3 ++ (elseLit ++ (layChars l4 ++ e.text)))))))))
  | .rec0 l => '{' :: (layChars l ++ ['}'])
  | .record l es c => '{' :: (layChars l ++ (entsText es ++ c.text '}'))
  | .doB l0 l1 ss w e l2 =>
    'd' :: 'o' :: (layChars l0 ++ '{' :: (layChars l1 ++ (stmtsText ss ++ (retLit ++
      (layChars w ++ (e.text ++ (layChars l2 ++ ['}'])))))))
  | .asg n w l v => n.toList ++ (layChars w ++ '=' :: (layChars l ++ v.text))
def argsText : Args → List Char
  | .last sp a => spreadChars sp ++ a.text
  | .cons sp a w l rest =>
    spreadChars sp ++ (a.text ++ (layChars w ++ ',' :: (layChars l ++ argsText rest)))
def entText : Ent → List Char
  | .pairId k w l v => k.toList ++ (layChars w ++ ':' :: (layChars l ++ v.text))
  | .pairStr dq s w l v =>
    quoteChar dq :: (s.toList ++ quoteChar dq :: (layChars w ++ ':' :: (layChars l ++ v.text)))
  | .pairDyn a e b w l v =>
    '[' :: (layChars a ++ (e.text ++ (layChars b ++ ']' :: (layChars w ++ ':' :: (layChars l ++ v.text)))))
  | .short n => n.toList
  | .spread e => spreadLit ++ e.text
  | .raw en => (entrySrc [] en).toList
def entsText : Ents → List Char
  | .last e => entText e
  | .cons e w l rest => entText e ++ (layChars w ++ ',' :: (layChars l ++ entsText rest))
def stmtsText : Stmts → List Char
  | .nil => []
  | .cons s sep rest => s.text ++ (sep.text ++ stmtsText rest)
end

mutual
/-- the abstract tree: parentheses and layout erased -/
def tree : CST → Expr
  | .atom e => e
  | .str _ s => .str s
  | .bin op l _ _ r => .bin op l.tree r.tree
  | .un op e => .un op e.tree
  | .fact e => .fact e.tree
  | .paren _ e _ => e.tree
  | .call0 f _ => .call f.tree []
  | .call f _ as _ => .call f.tree (argsTrees as)
  | .access e _ i _ => .access e.tree i.tree
  | .dot e n => .dot e.tree n
  | .list0 _ => .list []
  | .list _ as _ => .list (mkItems (argsTrees as))
  | .lambda hd _ _ b => .lambda hd.args b.tree
  | .cond _ c _ _ t _ _ e => .cond c.tree t.tree e.tree
  | .rec0 _ => .record []
  | .record _ es _ => .record (entsTrees es)
  | .doB _ _ ss _ e _ => .doBlock (stmtsTrees ss) (.mk [] e.tree none)
  | .asg n _ _ v => .assign n v.tree
def argsTrees : Args → List Expr
  | .last sp a => [argTree sp a.tree]
  | .cons sp a _ _ rest => argTree sp a.tree :: argsTrees rest
/-- the entry as `parse_record_entry` builds it (without `preserve_comments`) -/
def entTree : Ent → Entry
  | .pairId k _ _ v => .mk [] (.static k) v.tree none
  | .pairStr _ s _ _ v => .mk [] (.static s) v.tree none
  | .pairDyn _ e _ _ _ v => .mk [] (.dyn e.tree) v.tree none
  | .short n => .mk [] (.short n) .null none
  | .spread e => .mk [] (.spread (.spread e.tree)) .null none
  | .raw en => en
def entsTrees : Ents → List Entry
  | .last e => [entTree e]
  | .cons e _ _ rest => entTree e :: entsTrees rest
/-- the statements as the conversion without `preserve_comments` builds them -/
def stmtsTrees : Stmts → List Item
  | .nil => []
  | .cons s _ rest => .mk [] s.tree none :: stmtsTrees rest
end

/-- the item sequence of the `expression` pair: a parenthesised sub-expression is ONE
    primary, already converted to its tree; a postfix item carries its converted payload -/
def items : CST → List PItem
  | .atom e => [.prim e]
  | .str _ s => [.prim (.str s)]
  | .bin op l _ _ r => l.items ++ .inf (PrattRT.ruleOf op) :: r.items
  | .un op e => .pre (PrattRT.preRule op) :: e.items
  | .fact e => e.items ++ [.postFact]
  | .paren _ e _ => [.prim e.tree]
  | .call0 f _ => f.items ++ [.postCall []]
  | .call f _ as _ => f.items ++ [.postCall (argsTrees as)]
  | .access e _ i _ => e.items ++ [.postAccess i.tree]
  | .dot e n => e.items ++ [.postDot n]
  | .list0 _ => [.prim (.list [])]
  | .list _ as _ => [.prim (.list (mkItems (argsTrees as)))]
  | .lambda hd _ _ b => [.prim (.lambda hd.args b.tree)]
  | .cond _ c _ _ t _ _ e => [.prim (.cond c.tree t.tree e.tree)]
  | .rec0 _ => [.prim (.record [])]
  | .record _ es _ => [.prim (.record (entsTrees es))]
  | .doB _ _ ss _ e _ => [.prim (.doBlock (stmtsTrees ss) (.mk [] e.tree none))]
  | .asg n _ _ v => [.prim (.assign n v.tree)]

def isParen : CST → Bool
  | .paren .. => true
  | _ => false

/-- the text is one of the word operators `and` / `or` / `via` / `into` / `where` -/
def wordOpText (w : List Char) : Bool := naturalLits.any fun x => x.2 == w

/-- a parameter list that `format_single_line` may write as one bare name that is a word
    operator (`via => …`) -/
def lamHeadOk : List LArg → Bool
  | [a] => !wordOpText a.name.toList
  | _ => true

/-- THE TEXT IS NOT TAKEN FOR THE CONTINUATION OF AN EXPRESSION ON THE LINE BEFORE IT: it does
    not start with a prefix minus (a binary minus for the grammar), and its first word is not
    one of the word operators that are no reserved words (`via`, `into`, `where`) — as the name
    of a variable at the start of a statement `where into x` would continue the statement
    before it (`a` ⏎ `where into x` is `a where into` and a stray `x`). -/
def headOk : CST → Prop
  | .atom e => wordOpText (atomText e) = false
  | .str _ _ => True
  | .bin _ l _ _ _ => l.headOk
  | .un op _ => op = .not
  | .fact e => e.headOk
  | .paren _ _ _ => True
  | .call0 f _ => f.headOk
  | .call f _ _ _ => f.headOk
  | .access e _ _ _ => e.headOk
  | .dot e _ => e.headOk
  | .list0 _ => True
  | .list _ _ _ => True
  | .lambda hd _ _ _ => lamHeadOk hd.args = true
  | .cond .. => True
  | .rec0 _ => True
  | .record _ _ _ => True
  | .doB .. => True
  | .asg n _ _ _ => wordOpText n.toList = false

/-- the text starts with a prefix minus (decided on the structure: the leftmost leaf) -/
def startsMinus : CST → Bool
  | .atom e => (match e with | .str _ => false | _ => (atomText e).head? == some '-')
  | .bin _ l _ _ _ => l.startsMinus
  | .un op _ => op == .negate
  | .fact e => e.startsMinus
  | .call0 f _ => f.startsMinus
  | .call f _ _ _ => f.startsMinus
  | .access e _ _ _ => e.startsMinus
  | .dot e _ => e.startsMinus
  | _ => false

/-- admissible layout around a binary operator: a word operator needs layout before it and
    blanks (no line break) after it; a symbol operator takes any layout on both sides,
    including none — except that a symbol starting with `!` (`!=`) directly behind its left
    operand would be read as the postfix `!` -/
def layOk (op : BinOp) (a b : Lay) : Bool :=
  if isWordOp op then !a.isEmpty && !b.isEmpty && wsOnly b
  else !(a.isEmpty && (spell op).head? == some '!')

mutual
/-- layout everywhere admissible (for a string literal: the quote character chosen does not
    occur in the string — the grammar has no escapes) -/
def LayoutOk : CST → Prop
  | .atom _ => True
  | .str dq s => s.toList.contains (quoteChar dq) = false
  | .bin op l a b r => l.LayoutOk ∧ r.LayoutOk ∧ layOk op a b = true
  | .un _ e => e.LayoutOk
  | .fact e => e.LayoutOk
  | .paren _ e _ => e.LayoutOk
  | .call0 f _ => f.LayoutOk
  | .call f _ as c => f.LayoutOk ∧ ArgsLayoutOk as ∧ c.okCall = true
  | .access e a i b => e.LayoutOk ∧ i.LayoutOk ∧ nlOnly a = true ∧ nlOnly b = true
  | .dot e _ => e.LayoutOk
  | .list0 _ => True
  | .list _ as c => ArgsLayoutOk as ∧ c.okList = true
  | .lambda hd w _ b => hd.ok = true ∧ wsOnly w = true ∧ b.LayoutOk
  | .cond w c l1 l2 t l3 l4 e =>
    (w ≠ [] ∧ wsOnly w = true ∧ l1 ≠ [] ∧ l2 ≠ [] ∧ l3 ≠ [] ∧ l4 ≠ []) ∧
      c.LayoutOk ∧ t.LayoutOk ∧ e.LayoutOk
  | .rec0 _ => True
  | .record _ es c => EntsLayoutOk es ∧ c.okList = true
  | .doB l0 _ ss w e _ =>
    (l0 ≠ [] ∧ w ≠ [] ∧ wsOnly w = true) ∧ StmtsLayoutOk ss ∧ e.LayoutOk
  | .asg _ w l v => wsOnly w = true ∧ wsOnly l = true ∧ v.LayoutOk
/-- in front of a comma blanks only; behind it anything -/
def ArgsLayoutOk : Args → Prop
  | .last _ a => a.LayoutOk
  | .cons _ a w _ rest => a.LayoutOk ∧ wsOnly w = true ∧ ArgsLayoutOk rest
/-- blanks only in front of the colon, anything behind it; a key is written bare only when it
    is an identifier, as a literal only with a quote character that does not occur in it;
    blanks only inside the brackets of a computed key -/
def EntLayoutOk : Ent → Prop
  | .pairId k w _ v => nameOk k = true ∧ wsOnly w = true ∧ v.LayoutOk
  | .pairStr dq s w _ v => s.toList.contains (quoteChar dq) = false ∧ wsOnly w = true ∧ v.LayoutOk
  | .pairDyn a e b w _ v =>
    (wsOnly a = true ∧ wsOnly b = true ∧ wsOnly w = true) ∧ e.LayoutOk ∧ v.LayoutOk
  | .short _ => True
  | .spread e => e.LayoutOk
  | .raw _ => True
def EntsLayoutOk : Ents → Prop
  | .last e => EntLayoutOk e
  | .cons e w _ rest => EntLayoutOk e ∧ wsOnly w = true ∧ EntsLayoutOk rest
def StmtsLayoutOk : Stmts → Prop
  | .nil => True
  | .cons s sep rest => s.LayoutOk ∧ sep.ok = true ∧ StmtsLayoutOk rest
end

/-- the next statement (if any; else `return` follows) may stand behind a line break -/
def StmtsHeadOk : Stmts → Prop
  | .nil => True
  | .cons s _ _ => s.headOk

/-- a field name: identifier-shaped and not a reserved word (the `identifier` rule) -/
def fieldOk (n : String) : Bool := identShape n.toList && !Gen.grammarReserved.contains n

mutual
/-- atoms of the fragment, no `~`, and parentheses wherever the printer's rule `needsParens`
    asks for them (additional ones are allowed anywhere) -/
def Shaped : CST → Prop
  | .atom e => atomOk e = true
  | .str _ _ => True
  | .bin op l _ _ r =>
    l.Shaped ∧ r.Shaped ∧ (l.isParen = false → needsParens l.tree (.binLeft op) = false) ∧
      (r.isParen = false → needsParens r.tree (.binRight op) = false)
  | .un op e => op ≠ .invert ∧ e.Shaped ∧ (e.isParen = false → needsParens e.tree .prefix_ = false)
  | .fact e => e.Shaped ∧ (e.isParen = false → needsParens e.tree .postfix_ = false)
  | .paren _ e _ => e.Shaped
  | .call0 f _ => f.Shaped ∧ (f.isParen = false → needsParens f.tree .postfix_ = false)
  | .call f _ as _ =>
    f.Shaped ∧ (f.isParen = false → needsParens f.tree .postfix_ = false) ∧ ArgsShaped as
  | .access e _ i _ =>
    e.Shaped ∧ (e.isParen = false → needsParens e.tree .postfix_ = false) ∧ i.Shaped
  | .dot e n =>
    e.Shaped ∧ (e.isParen = false → needsParens e.tree .postfix_ = false) ∧ fieldOk n = true
  | .list0 _ => True
  | .list _ as _ => ArgsShaped as
  | .lambda hd _ _ b =>
    hd.namesOk = true ∧ b.Shaped ∧ (b.isParen = false → lambdaBodyNeedsParens b.tree = false) ∧
      LamSafe b.items
  | .cond _ c _ _ t _ _ e => c.Shaped ∧ t.Shaped ∧ e.Shaped
  | .rec0 _ => True
  | .record _ es _ => EntsShaped es
  | .doB _ _ ss _ e _ => StmtsShaped ss ∧ e.Shaped
  | .asg n _ _ v => nameOk n = true ∧ v.Shaped
def ArgsShaped : Args → Prop
  | .last _ a => a.Shaped
  | .cons _ a _ _ rest => a.Shaped ∧ ArgsShaped rest
def EntShaped : Ent → Prop
  | .pairId _ _ _ v => v.Shaped
  | .pairStr _ _ _ _ v => v.Shaped
  | .pairDyn _ e _ _ _ v => e.Shaped ∧ v.Shaped
  | .short n => nameOk n = true
  | .spread e => e.Shaped
  | .raw _ => False
def EntsShaped : Ents → Prop
  | .last e => EntShaped e
  | .cons e _ _ rest => EntShaped e ∧ EntsShaped rest
/-- a statement behind a line break does not continue the one before it (`headOk`) -/
def StmtsShaped : Stmts → Prop
  | .nil => True
  | .cons s sep rest => s.Shaped ∧ (sep.isLine = true → StmtsHeadOk rest) ∧ StmtsShaped rest
end

/-- well-formed concrete syntax -/
def WF (c : CST) : Prop := c.Shaped ∧ c.LayoutOk

end CST

/-! ### (7) the PEG model splits the text of a CST into its items -/

/-- `expression` (`lam = false`) / `lambda_expression` (`lam = true`) at `cs` yields `its` and
    leaves `r` (with enough fuel) -/
def EX (lam : Bool) (cs : List Char) (its : List PItem) (r : List Char) : Prop :=
  ∃ f, exprR lam f cs = .ok (its, r)

/-- what happens after a term when `rest` follows: `postfix_op*`, then the operator tail -/
def After (lam : Bool) (rest : List Char) (its : List PItem) (r : List Char) : Prop :=
  ∃ its1 r1 its2 f, postR f rest = .ok (its1, r1) ∧ tailR lam f r1 = .ok (its2, r) ∧
    its = its1 ++ its2

/-- the end of a term: the text behind it continues neither a word nor a lambda head -/
def TEnd (rest : List Char) : Prop := Boundary rest ∧ NoLam rest

/-- nothing continues an expression here: no postfix operator, no operator of either kind of
    expression (what must follow an operand that ends with a lambda body) -/
def Closes (rest : List Char) : Prop := postNone rest ∧ ∀ lam, infixUsage lam rest = none

theorem ex_intro {lam : Bool} {cs : List Char} {its1 : List PItem} {r1 : List Char}
    {its2 : List PItem} {r : List Char} {f g : Nat} (ho : operandR lam f cs = .ok (its1, r1))
    (ht : tailR lam g r1 = .ok (its2, r)) : EX lam cs (its1 ++ its2) r := by
  refine ⟨max f g + 1, ?_⟩
  rw [exprR_succ, operandR_mono (Nat.le_max_left f g) ho]
  simp only [tailR_mono (Nat.le_max_right f g) ht]

theorem ex_elim {lam : Bool} {cs : List Char} {its : List PItem} {r : List Char} {f : Nat}
    (h : exprR lam f cs = .ok (its, r)) :
    ∃ g its1 r1 its2, f = g + 1 ∧ operandR lam g cs = .ok (its1, r1) ∧
      tailR lam g r1 = .ok (its2, r) ∧ its = its1 ++ its2 := by
  cases f with
  | zero => rw [exprR_zero] at h; cases h
  | succ g =>
    rw [exprR_succ] at h
    cases ho : operandR lam g cs with
    | out => rw [ho] at h; cases h
    | fail => rw [ho] at h; cases h
    | ok x =>
      obtain ⟨its1, r1⟩ := x
      rw [ho] at h
      simp only at h
      cases ht : tailR lam g r1 with
      | out => rw [ht] at h; cases h
      | fail => rw [ht] at h; cases h
      | ok y =>
        obtain ⟨its2, r'⟩ := y
        rw [ht] at h
        simp only [Res.ok.injEq, Prod.mk.injEq] at h
        obtain ⟨rfl, rfl⟩ := h
        exact ⟨g, its1, r1, its2, rfl, ho, ht, rfl⟩

/-- a term followed by `rest`: from the term result to the whole expression -/
theorem ex_of_term {lam : Bool} {cs cs' rest : List Char} {e : Expr} {pre : List PItem}
    {its : List PItem} {r : List Char} {f : Nat} (hp : prefixStar cs = (pre, cs'))
    (ht : termR f cs' = .ok (e, rest)) (hk : After lam rest its r) :
    EX lam cs (pre ++ .prim e :: its) r := by
  obtain ⟨its1, r1, its2, g, hpo, hta, rfl⟩ := hk
  have ho : operandR lam (max f g + 1) cs = .ok (pre ++ .prim e :: its1, r1) := by
    rw [operandR_succ, hp]
    simp only [termR_mono (Nat.le_max_left f g) ht, postR_mono (Nat.le_max_right f g) hpo]
  have := ex_intro ho hta
  simpa using this

/-- a term that is neither a conditional nor a do-block nor a lambda nor an assignment -/
theorem termR_of_term2 {cs : List Char} {x : Expr × List Char} {f : Nat}
    (hc : ifHead cs = none) (hd : doHead cs = none) (hl : lambdaHead cs = none)
    (ha : asgHead cs = none)
    (h : term2R f cs = .ok x) : termR (f + 1) cs = .ok x := by
  cases f with
  | zero => rw [term2R_zero] at h; cases h
  | succ g =>
    rw [termR_succ, condR_succ, hc, doR_succ, hd, lamR_succ, hl, asgR_succ, ha]
    exact h

/-- a prefix operator in front of an operand -/
theorem operandR_prefix {lam : Bool} {c : Char} {X : List Char} {it : PItem} (f : Nat)
    (hp : prefixUsage (c :: X) = some (it, X)) :
    operandR lam f (c :: X) =
      match operandR lam f X with
      | .ok (its, r) => .ok (it :: its, r)
      | .fail => .fail
      | .out => .out := by
  cases f with
  | zero => rw [operandR_zero, operandR_zero]
  | succ k =>
    rw [operandR_succ, operandR_succ, prefixStar_cons hp]
    simp only
    cases termR k (prefixStar X).2 with
    | out => rfl
    | fail => rfl
    | ok x =>
      obtain ⟨e, r1⟩ := x
      simp only
      cases postR k r1 with
      | out => rfl
      | fail => rfl
      | ok y => rfl

/-- a prefix operator in front of an expression -/
theorem ex_prefix {lam : Bool} {c : Char} {X : List Char} {it : PItem} {its : List PItem}
    {r : List Char} (hp : prefixUsage (c :: X) = some (it, X)) (h : EX lam X its r) :
    EX lam (c :: X) (it :: its) r := by
  obtain ⟨f, h⟩ := h
  obtain ⟨g, its1, r1, its2, rfl, ho, ht, rfl⟩ := ex_elim h
  have ho' : operandR lam g (c :: X) = .ok (it :: its1, r1) := by
    rw [operandR_prefix g hp, ho]
  have := ex_intro ho' ht
  simpa using this

/-- the operator tail starting with an `infix_usage` -/
theorem after_infix {lam : Bool} {Y X : List Char} {rule : String} {its : List PItem}
    {r : List Char} (hi : infixUsage lam Y = some (rule, X)) (hY : postNone Y)
    (h : EX lam X its r) : After lam Y (.inf rule :: its) r := by
  obtain ⟨f, h⟩ := h
  obtain ⟨g, its1, r1, its2, rfl, ho, ht, rfl⟩ := ex_elim h
  refine ⟨[], Y, .inf rule :: (its1 ++ its2), g + 2, postR_none hY g, ?_, by simp⟩
  rw [tailR_succ]
  simp only [hi, operandR_mono (Nat.le_succ g) ho, tailR_mono (Nat.le_succ g) ht]

/-- nothing follows: no postfix operator, no operator -/
theorem after_none {lam : Bool} {Y : List Char} (hY : postNone Y) (hi : infixUsage lam Y = none) :
    After lam Y [] Y := by
  refine ⟨[], Y, [], 2, postR_none hY 0, ?_, rfl⟩
  rw [tailR_succ]
  simp only [hi]

theorem after_closes {lam : Bool} {Y : List Char} (h : Closes Y) : After lam Y [] Y :=
  after_none h.1 (h.2 lam)

theorem postNone_stop (b : Lay) {c : Char} (rest : List Char) (hc : stopChar c = true) :
    postNone (layChars b ++ c :: rest) := by
  apply postNone_lay
  simp only [stopChar, Bool.or_eq_true, beq_iff_eq] at hc
  rcases hc with ((rfl | rfl) | rfl) | rfl <;>
    exact postNone_of_char (by decide) (by decide) (by decide) (by decide)

theorem closes_stop (b : Lay) {c : Char} (rest : List Char) (hc : stopChar c = true) :
    Closes (layChars b ++ c :: rest) :=
  ⟨postNone_stop b rest hc, fun lam => infixUsage_stop lam b c rest hc⟩

theorem closes_nil : Closes [] := ⟨trivial, infixUsage_nil⟩

/-- at a closing bracket / comma (after any layout) the expression ends -/
theorem after_stop (lam : Bool) (b : Lay) {c : Char} (rest : List Char) (hc : stopChar c = true) :
    After lam (layChars b ++ c :: rest) [] (layChars b ++ c :: rest) :=
  after_closes (closes_stop b rest hc)

theorem after_nil (lam : Bool) : After lam [] [] [] := after_closes closes_nil

/-- one more postfix operator -/
theorem after_post {lam : Bool} {rest rest' : List Char} {it : PItem} {its : List PItem}
    {r : List Char} {g : Nat} (hq : postOpR g rest = .ok (it, rest')) (h : After lam rest' its r) :
    After lam rest (it :: its) r := by
  obtain ⟨its1, r1, its2, f, hpo, hta, rfl⟩ := h
  refine ⟨it :: its1, r1, its2, max f g + 1, ?_, tailR_mono (by omega) hta, rfl⟩
  rw [postR_succ]
  simp only [postOpR_mono (Nat.le_max_right f g) hq, postR_mono (Nat.le_max_left f g) hpo]

theorem postOpR_bang (f : Nat) (X : List Char) : postOpR (f + 1) ('!' :: X) = .ok (.postFact, X) := by
  rw [postOpR_succ, firstRule_postfix_bang]

theorem boundary_cons {d : Char} {tl : List Char} (h : isIdentChar d = false) : Boundary (d :: tl) := by
  simp [Boundary, boundary, h]

/-- a character that is neither an identifier character nor a blank nor `=` / `?` ends a term -/
theorem tend_cons {d : Char} {tl : List Char} (h : isIdentChar d = false) (hw : isWs d = false)
    (h1 : d ≠ '=') (h2 : d ≠ '?') : TEnd (d :: tl) :=
  ⟨boundary_cons h, noLam_of_head hw h1 h2⟩

theorem tend_nil : TEnd [] := ⟨rfl, noLam_nil⟩

/-- layout, then a character that ends a term -/
theorem tend_lay (b : Lay) {c : Char} (rest : List Char) (h : isIdentChar c = false)
    (hw : isWs c = false) (h1 : c ≠ '=') (h2 : c ≠ '?') : TEnd (layChars b ++ c :: rest) := by
  refine ⟨?_, noLam_lay b (noLam_of_head hw h1 h2)⟩
  obtain ⟨d, tl', hX, hd⟩ := lay_head b c rest (fun d => isIdentChar d = false)
    (by decide) (by decide) (by decide) (by decide) h
  rw [hX]; exact boundary_cons hd

theorem tend_stop (b : Lay) {c : Char} (rest : List Char) (hc : stopChar c = true) :
    TEnd (layChars b ++ c :: rest) := by
  obtain ⟨_, _, _, h4, h5⟩ := stop_heads hc
  have : c ≠ '=' ∧ c ≠ '?' := by
    simp only [stopChar, Bool.or_eq_true, beq_iff_eq] at hc
    rcases hc with ((rfl | rfl) | rfl) | rfl <;> decide
  exact tend_lay b rest h4 h5 this.1 this.2

theorem postOpR_dot (f : Nat) {n : String} {rest : List Char} (hn : CST.fieldOk n = true)
    (hb : Boundary rest) : postOpR (f + 1) ('.' :: (n.toList ++ rest)) = .ok (.postDot n, rest) := by
  simp only [CST.fieldOk, Bool.and_eq_true, Bool.not_eq_true'] at hn
  have hw : IdentShape n.toList := hn.1
  have hres : n ∉ Gen.grammarReserved := by simpa using hn.2
  have hnot : n.toList ∉ reservedLits := fun hm => hres (by
    have := mem_reservedLits.mp hm; rwa [String.ofList_toList] at this)
  rw [postOpR_succ, firstRule_postfix_none _ (by decide)]
  simp only [identifier_run hw hnot hb, consumed_append, String.ofList_toList]

/-! ### (8) the Pratt model reads the items of a CST back to its tree -/

section pratt
open PrattRT

/-- the statement proved for every operand by induction (cf. `PrattRT.Parses`): a
    parenthesised operand is a primary and needs no side condition -/
def CParses (c : CST) : Prop :=
  ∀ rbp rest, rbp ≤ P - 1 → (c.isParen = false → Fits c.tree rbp rest) →
    ∀ e' rest', PLoop rbp c.tree rest e' rest' → PExpr rbp (c.items ++ rest) e' rest'

theorem atom_not_compound {e : Expr} (h : atomOk e = true) : isCompound e = false := by
  cases e <;> simp [atomOk] at h <;> rfl

theorem cparses : ∀ (c : CST), c.Shaped → CParses c
  | .atom e, _ => by
    intro rbp rest _ _ e' rest' hk
    exact PExpr.prim hk
  | .str _ _, _ => by
    intro rbp rest _ _ e' rest' hk
    exact PExpr.prim hk
  | .paren _ e _, _ => by
    intro rbp rest _ _ e' rest' hk
    exact PExpr.prim hk
  | .bin op l a b r, h => by
    obtain ⟨hl, hr, hnl, hnr⟩ := h
    have ihl := cparses l hl
    have ihr := cparses r hr
    intro rbp rest hrbp hfit e' rest' hk
    obtain ⟨hlt, n, hlb, hn⟩ := hfit rfl
    simp only [CST.items, List.append_assoc, List.cons_append]
    apply ihl rbp _ hrbp (fun hp => fits_left _ (hnl hp) hlt)
    have hrhs : PExpr (rbpR op) (r.items ++ rest) r.tree rest :=
      ihr (rbpR op) rest (rbpR_le_P op) (fun hp => fits_right (hnr hp) hlb hn) _ _
        (PLoop.stop hlb (by omega))
    have hm := mapInfix_ruleOf op l.tree r.tree
    have ho := opLookup_ruleOf op
    cases hra : ra op
    · simp only [rbpR, hra] at hrhs ho
      exact PLoop.infL (lbp_inf op _) hlt ho hrhs hm hk
    · simp only [rbpR, hra] at hrhs ho
      exact PLoop.infR (lbp_inf op _) hlt ho hrhs hm hk
  | .un op e, h => by
    obtain ⟨hop, he, hne⟩ := h
    have ih := cparses e he
    intro rbp rest hrbp hfit e' rest' hk
    obtain ⟨n, hlb, hn⟩ := hfit rfl
    simp only [CST.items, List.cons_append]
    have hrhs : PExpr (P - 1) (e.items ++ rest) e.tree rest :=
      ih (P - 1) rest (Nat.le_refl _) (fun hp => fits_prefix (hne hp) hlb hn) _ _
        (PLoop.stop hlb (by omega))
    cases op with
    | negate => exact PExpr.pre opLookup_negation hrhs rfl hk
    | not => exact PExpr.pre opLookup_invert hrhs rfl hk
    | invert => exact absurd rfl hop
  | .fact e, h => by
    obtain ⟨he, hne⟩ := h
    have ih := cparses e he
    intro rbp rest hrbp _ e' rest' hk
    simp only [CST.items, List.append_assoc, List.singleton_append]
    exact ih rbp _ hrbp (fun hp => fits_postfix (hne hp))
      _ _ (PLoop.fact (lbp_postFact rest) (by have := P_le_fact; omega) hk)
  | .call0 f l, h => by
    obtain ⟨he, hne⟩ := h
    have ih := cparses f he
    intro rbp rest hrbp _ e' rest' hk
    simp only [CST.items, List.append_assoc, List.singleton_append]
    exact ih rbp _ hrbp (fun hp => fits_postfix (hne hp))
      _ _ (PLoop.call (lbp_postCall _ rest) (by have := P_le_call; omega) hk)
  | .call f l as c, h => by
    obtain ⟨he, hne, _⟩ := h
    have ih := cparses f he
    intro rbp rest hrbp _ e' rest' hk
    simp only [CST.items, List.append_assoc, List.singleton_append]
    exact ih rbp _ hrbp (fun hp => fits_postfix (hne hp))
      _ _ (PLoop.call (lbp_postCall _ rest) (by have := P_le_call; omega) hk)
  | .access e a i b, h => by
    obtain ⟨he, hne, _⟩ := h
    have ih := cparses e he
    intro rbp rest hrbp _ e' rest' hk
    simp only [CST.items, List.append_assoc, List.singleton_append]
    exact ih rbp _ hrbp (fun hp => fits_postfix (hne hp))
      _ _ (PLoop.access (lbp_postAccess _ rest) (by have := P_le_access; omega) hk)
  | .dot e n, h => by
    obtain ⟨he, hne, _⟩ := h
    have ih := cparses e he
    intro rbp rest hrbp _ e' rest' hk
    simp only [CST.items, List.append_assoc, List.singleton_append]
    exact ih rbp _ hrbp (fun hp => fits_postfix (hne hp))
      _ _ (PLoop.dot (lbp_postDot _ rest) (by have := P_le_dot; omega) hk)
  | .list0 _, _ => by
    intro rbp rest _ _ e' rest' hk
    exact PExpr.prim hk
  | .list _ _ _, _ => by
    intro rbp rest _ _ e' rest' hk
    exact PExpr.prim hk
  | .lambda _ _ _ _, _ => by
    intro rbp rest _ _ e' rest' hk
    exact PExpr.prim hk
  | .cond _ _ _ _ _ _ _ _, _ => by
    intro rbp rest _ _ e' rest' hk
    exact PExpr.prim hk
  | .rec0 _, _ => by
    intro rbp rest _ _ e' rest' hk
    exact PExpr.prim hk
  | .record _ _ _, _ => by
    intro rbp rest _ _ e' rest' hk
    exact PExpr.prim hk
  | .doB .., _ => by
    intro rbp rest _ _ e' rest' hk
    exact PExpr.prim hk
  | .asg .., _ => by
    intro rbp rest _ _ e' rest' hk
    exact PExpr.prim hk

/-- the items of a well-shaped CST parse back to its tree -/
theorem cst_pratt (c : CST) (h : c.Shaped) : prattParse c.items = some c.tree := by
  have hfit : c.isParen = false → Fits c.tree 0 [] := by
    intro _
    cases c with
    | bin op l a b r => exact ⟨bp_pos op, 0, rfl, Nat.zero_le _⟩
    | un o e => exact ⟨0, rfl, Nat.zero_le _⟩
    | atom e =>
      have := atom_not_compound (e := e) h
      cases e <;> first | trivial | simp [isCompound] at this
    | str dq s => trivial
    | fact e => trivial
    | call0 f l => trivial
    | call f l as c => trivial
    | access e a i b => trivial
    | dot e n => trivial
    | list0 l => trivial
    | list l as c => trivial
    | lambda hd w l b => trivial
    | cond w c l1 l2 t l3 l4 e => trivial
    | rec0 l => trivial
    | record l es c => trivial
    | doB l0 l1 ss w e l2 => trivial
    | asg n w l v => trivial
    | paren a e b => rename_i hp; cases hp
  have := cparses c h 0 [] (Nat.zero_le _) hfit c.tree [] (PLoop.stop lbp_nil (by omega))
  simp only [List.append_nil] at this
  exact this.parse

end pratt

/-! ### (9) main lemma: lexing the text of a CST -/

theorem spreadLit_eq : spreadLit = ['.', '.', '.'] := by decide +kernel

theorem name_start {n : String} (h : nameOk n = true) :
    ∃ x tl, n.toList = x :: tl ∧ isIdentChar x = true := by
  obtain ⟨hw, _⟩ := nameOk_facts h
  cases hn : n.toList with
  | nil => exact absurd hn hw.ne_nil
  | cons x tl => exact ⟨x, tl, rfl, hw.all x (by rw [hn]; exact List.mem_cons_self)⟩

theorem lamHead_start (hd : LamHead) (h : hd.namesOk = true) :
    ∃ x tl, hd.text = x :: tl ∧ startChar x = true := by
  cases hd with
  | unit l => exact ⟨'(', _, rfl, by decide⟩
  | parens l0 a more c => exact ⟨'(', _, rfl, by decide⟩
  | bare a =>
    simp only [LamHead.namesOk, LamHead.args, List.all_cons, List.all_nil, Bool.and_true,
      Bool.and_eq_true] at h
    cases a with
    | rest n => simp at h
    | req n =>
      obtain ⟨x, tl, hx, hc⟩ := name_start (n := n) h.1
      exact ⟨x, tl, by simp only [LamHead.text, argText, hx], by simp [startChar, hc]⟩
    | opt n =>
      obtain ⟨x, tl, hx, hc⟩ := name_start (n := n) h.1
      exact ⟨x, tl ++ ['?'], by simp only [LamHead.text, argText, hx, List.cons_append],
        by simp [startChar, hc]⟩

mutual
theorem text_start : ∀ (c : CST), c.Shaped → ∃ x tl, c.text = x :: tl ∧ startChar x = true
  | .atom e, h => by
    obtain ⟨hne, hall, _, _⟩ := atom_word (e := e) h
    simp only [CST.text]
    cases hw : atomText e with
    | nil => exact absurd hw hne
    | cons x tl =>
      refine ⟨x, tl, rfl, ?_⟩
      have := hall x (by rw [hw]; exact List.mem_cons_self)
      simp [startChar, this]
  | .str dq s, _ => ⟨quoteChar dq, _, rfl, by cases dq <;> decide⟩
  | .bin op l a b r, h => by
    obtain ⟨x, tl, hx, hs⟩ := text_start l h.1
    exact ⟨x, _, by simp only [CST.text, hx, List.cons_append]; rfl, hs⟩
  | .un op e, h => by
    cases op with
    | negate => exact ⟨'-', e.text, rfl, by decide⟩
    | not => exact ⟨'!', e.text, rfl, by decide⟩
    | invert => exact absurd rfl h.1
  | .fact e, h => by
    obtain ⟨x, tl, hx, hs⟩ := text_start e h.1
    exact ⟨x, _, by simp only [CST.text, hx, List.cons_append]; rfl, hs⟩
  | .paren a e b, _ => ⟨'(', _, rfl, by decide⟩
  | .call0 f l, h => by
    obtain ⟨x, tl, hx, hs⟩ := text_start f h.1
    exact ⟨x, _, by simp only [CST.text, hx, List.cons_append]; rfl, hs⟩
  | .call f l as c, h => by
    obtain ⟨x, tl, hx, hs⟩ := text_start f h.1
    exact ⟨x, _, by simp only [CST.text, hx, List.cons_append]; rfl, hs⟩
  | .access e a i b, h => by
    obtain ⟨x, tl, hx, hs⟩ := text_start e h.1
    exact ⟨x, _, by simp only [CST.text, hx, List.cons_append]; rfl, hs⟩
  | .dot e n, h => by
    obtain ⟨x, tl, hx, hs⟩ := text_start e h.1
    exact ⟨x, _, by simp only [CST.text, hx, List.cons_append]; rfl, hs⟩
  | .list0 l, _ => ⟨'[', _, rfl, by decide⟩
  | .list l as c, _ => ⟨'[', _, rfl, by decide⟩
  | .lambda hd w l b, h => by
    obtain ⟨x, tl, hx, hs⟩ := lamHead_start hd h.1
    exact ⟨x, _, by simp only [CST.text, hx, List.cons_append]; rfl, hs⟩
  | .cond w c l1 l2 t l3 l4 e, _ => ⟨'i', _, rfl, by decide⟩
  | .rec0 l, _ => ⟨'{', _, rfl, by decide⟩
  | .record l es c, _ => ⟨'{', _, rfl, by decide⟩
  | .doB .., _ => ⟨'d', _, rfl, by decide⟩
  | .asg n w l v, h => by
    obtain ⟨x, tl, hx, hc⟩ := name_start (n := n) h.1
    exact ⟨x, _, by simp only [CST.text, hx, List.cons_append]; rfl, by simp [startChar, hc]⟩
end

/-- first character of an argument list: that of an operand, or the `.` of `...` -/
theorem args_start : ∀ (as : Args), CST.ArgsShaped as →
    ∃ x tl, CST.argsText as = x :: tl ∧ (startChar x = true ∨ x = '.')
  | .last sp a, h => by
    obtain ⟨x, tl, hx, hs⟩ := text_start a h
    cases sp
    · exact ⟨x, tl, by simp [CST.argsText, spreadChars, hx], Or.inl hs⟩
    · exact ⟨'.', _, by simp only [CST.argsText, spreadChars, spreadLit_eq, if_true, List.cons_append]; rfl, Or.inr rfl⟩
  | .cons sp a w l rest, h => by
    obtain ⟨x, tl, hx, hs⟩ := text_start a h.1
    cases sp
    · exact ⟨x, _, by simp only [CST.argsText, spreadChars, hx, List.cons_append]; rfl, Or.inl hs⟩
    · exact ⟨'.', _, by simp only [CST.argsText, spreadChars, spreadLit_eq, if_true, List.cons_append]; rfl, Or.inr rfl⟩

theorem notLayoutStart_of_argStart {x : Char} (h : startChar x = true ∨ x = '.') :
    notLayoutStart x = true := by
  rcases h with h | rfl
  · exact (startChar_facts h).1
  · decide

theorem termAtom_paren (X : List Char) : termAtom ('(' :: X) = none := by
  have h1 : boolRule ('(' :: X) = none := by
    simp [boolRule, keyword, firstLit, trueLit, falseLit, lit]
  have h2 : nullRule ('(' :: X) = none := by
    simp [nullRule, keyword, firstLit, nullLit, lit]
  have h3 : identifier ('(' :: X) = none := identifier_none_of_start X (by decide)
  have h4 : plus isDigit ('(' :: X) = none := by
    have : isDigit '(' = false := by decide
    simp [plus, this]
  simp only [termAtom, h1, stringRule_none_of_head X (c := '(') (by decide) (by decide), h2, h3, h4]

/-- the text between an operand and the next one: layout, operator, layout -/
theorem word_head (op : BinOp) (hw : isWordOp op = true) :
    ∃ h t, spell op = h :: t ∧ isWs h = false ∧ h ≠ '=' ∧ h ≠ '?' := by
  have : (BinOp.all.all fun op => !isWordOp op ||
      (match spell op with | h :: _ => !isWs h && h != '=' && h != '?' | [] => false)) = true := by
    decide +kernel
  have := List.all_eq_true.mp this op (PrattRT.BinOp.mem_all op)
  simp only [hw, Bool.not_true, Bool.false_or] at this
  split at this
  · rename_i h t hsp
    simp only [Bool.and_eq_true, Bool.not_eq_true', bne_iff_ne, ne_eq] at this
    exact ⟨h, t, hsp, this.1.1, this.1.2, this.2⟩
  · cases this

theorem op_gap (lam : Bool) (op : BinOp) (hlam : lam = true → isChain op = false) (a b : Lay)
    (hl : CST.layOk op a b = true) (x : Char) (tl : List Char) (hx : startChar x = true) :
    let Y := layChars a ++ (spell op ++ (layChars b ++ x :: tl))
    infixUsage lam Y = some (PrattRT.ruleOf op, x :: tl) ∧ postNone Y ∧ TEnd Y := by
  intro Y
  cases hw : isWordOp op with
  | true =>
    simp only [CST.layOk, hw, if_true, Bool.and_eq_true, Bool.not_eq_true', List.isEmpty_eq_false_iff]
      at hl
    obtain ⟨⟨ha, hb⟩, hbw⟩ := hl
    refine ⟨infixUsage_word lam op hw hlam a b x tl ha hb hbw hx, ?_⟩
    have hnl : NoLam Y := by
      obtain ⟨h, t, hsp, h1, h2, h3⟩ := word_head op hw
      apply noLam_lay
      rw [hsp, List.cons_append]
      exact noLam_of_head h1 h2 h3
    cases a with
    | nil => exact absurd rfl ha
    | cons y a =>
      have : ∃ d tl', Y = d :: tl' ∧ (d ≠ '!' ∧ d ≠ '[' ∧ d ≠ '(' ∧ d ≠ '.') ∧
          isIdentChar d = false := by
        cases y <;> exact ⟨_, _, rfl, by decide, by decide⟩
      obtain ⟨d, tl', hY, ⟨hd1, hd2, hd3, hd4⟩, hd5⟩ := this
      refine ⟨?_, ?_, hnl⟩
      · rw [hY]; exact postNone_of_char hd1 hd2 hd3 hd4
      · rw [hY]; exact boundary_cons hd5
  | false =>
    simp only [CST.layOk, hw, Bool.false_eq_true, if_false, Bool.not_eq_true', Bool.and_eq_false_iff,
      List.isEmpty_eq_false_iff, beq_eq_false_iff_ne, ne_eq] at hl
    refine ⟨infixUsage_sym lam op hw a b x tl hx, ?_⟩
    have hnl : NoLam Y := noLam_lay a (noLam_sym op hw _)
    have hs := symOk_of op hw
    have hp := symPostOk_of op hw
    simp only [symOk, Bool.and_eq_true] at hs
    obtain ⟨_, hs2⟩ := hs
    unfold symPostOk at hp
    split at hs2
    · cases hs2
    · rename_i h t hsp
      simp only [Bool.and_eq_true, Bool.not_eq_true'] at hs2
      obtain ⟨⟨_, hid⟩, _⟩ := hs2
      rw [hsp] at hp
      simp only [Bool.and_eq_true, bne_iff_ne, ne_eq, Bool.or_eq_true] at hp
      obtain ⟨⟨hp1, hp2⟩, hp3⟩ := hp
      cases a with
      | nil =>
        have hY : Y = h :: (t ++ (layChars b ++ x :: tl)) := by
          simp only [Y, layChars, List.nil_append, hsp, List.cons_append]
        rw [hY]
        refine ⟨⟨?_, hp2, hp1, ?_⟩, boundary_cons hid, hY ▸ hnl⟩
        · rcases hl with hl | hl
          · exact absurd rfl hl
          · intro e; apply hl; rw [hsp, e]; rfl
        · intro e
          rcases hp3 with hp3 | hp3
          · exact absurd e hp3
          · cases t with
            | nil => cases hp3
            | cons c t' =>
              simp only [Bool.not_eq_true'] at hp3
              exact identifier_none_of_start _ hp3
      | cons y a =>
        have : ∃ d tl', Y = d :: tl' ∧ (d ≠ '!' ∧ d ≠ '[' ∧ d ≠ '(' ∧ d ≠ '.') ∧
            isIdentChar d = false := by
          cases y <;> exact ⟨_, _, rfl, by decide, by decide⟩
        obtain ⟨d, tl', hY, ⟨hd1, hd2, hd3, hd4⟩, hd5⟩ := this
        refine ⟨?_, ?_, hnl⟩
        · rw [hY]; exact postNone_of_char hd1 hd2 hd3 hd4
        · rw [hY]; exact boundary_cons hd5

/-! #### the end of an argument list -/

theorem prefixUsage_stop {c : Char} (X : List Char) (hc : stopChar c = true) :
    prefixUsage (c :: X) = none := by
  simp only [stopChar, Bool.or_eq_true, beq_iff_eq] at hc
  rcases hc with ((rfl | rfl) | rfl) | rfl <;>
    simp [prefixUsage, naturalPrefixLits_eq, prefixLits_eq, firstRule, lit]

/-- a character at which no operand starts: no prefix operator, no word, number, literal, list,
    record, parenthesis, `...` -/
def NoStart (c : Char) : Prop :=
  (isIdentStart c = false ∧ isDigit c = false ∧ c ≠ 't' ∧ c ≠ 'f' ∧ c ≠ 'n' ∧ c ≠ '"' ∧ c ≠ '\'') ∧
    (c ≠ '(' ∧ c ≠ '[' ∧ c ≠ '{') ∧ c ≠ 'i' ∧ c ≠ 'd' ∧ c ≠ '.' ∧ c ≠ '-' ∧ c ≠ '!'

theorem noStart_stop {c : Char} (hc : stopChar c = true) : NoStart c := by
  simp only [stopChar, Bool.or_eq_true, beq_iff_eq] at hc
  rcases hc with ((rfl | rfl) | rfl) | rfl <;> (unfold NoStart; decide)

theorem noStart_eq : NoStart '=' := by unfold NoStart; decide

theorem prefixUsage_nostart {c : Char} (X : List Char) (hc : NoStart c) :
    prefixUsage (c :: X) = none := by
  obtain ⟨⟨_, _, _, _, c3, _, _⟩, _, _, _, _, c8, c9⟩ := hc
  have e1 : ¬ ('n' = c) := fun e => c3 e.symm
  have e2 : ¬ ('-' = c) := fun e => c8 e.symm
  have e3 : ¬ ('!' = c) := fun e => c9 e.symm
  simp [prefixUsage, naturalPrefixLits_eq, prefixLits_eq, firstRule, lit, e1, e2, e3]

theorem termAtom_nostart {c : Char} (X : List Char) (hc : NoStart c) :
    termAtom (c :: X) = none := by
  obtain ⟨h1, h2, c1, c2, c3, c4, c5⟩ := hc.1
  have hb : boolRule (c :: X) = none := by
    have : firstLit [trueLit, falseLit] (c :: X) = none := by
      apply firstLit_none_of_heads
      intro s hs
      simp only [List.mem_cons, List.not_mem_nil, or_false] at hs
      rcases hs with rfl | rfl
      · exact ⟨'t', _, rfl, fun e => c1 e.symm⟩
      · exact ⟨'f', _, rfl, fun e => c2 e.symm⟩
    simp [boolRule, keyword, this]
  have hnl : nullRule (c :: X) = none := by
    have : firstLit [nullLit] (c :: X) = none := by
      apply firstLit_none_of_heads
      intro s hs
      simp only [List.mem_cons, List.not_mem_nil, or_false] at hs
      subst hs
      exact ⟨'n', _, rfl, fun e => c3 e.symm⟩
    simp [nullRule, keyword, this]
  have hpl : plus isDigit (c :: X) = none := by simp [plus, h2]
  simp only [termAtom, hb, stringRule_none_of_head X c4 c5, hnl, identifier_none_of_start X h1, hpl]

theorem termAtom_stop {c : Char} (X : List Char) (hc : stopChar c = true) :
    termAtom (c :: X) = none := termAtom_nostart X (noStart_stop hc)

theorem lambdaHead_nostart {c : Char} (X : List Char) (hc : NoStart c) :
    lambdaHead (c :: X) = none := by
  have h : isIdentStart c = false ∧ c ≠ '.' ∧ c ≠ '(' := ⟨hc.1.1, hc.2.2.2.2.1, hc.2.1.1⟩
  refine lambdaHead_noarg ?_ (fun r e => by simp only [List.cons.injEq] at e; exact h.2.2 e.1)
  have : ¬ ('.' = c) := fun e => h.2.1 e.symm
  simp [argumentR, identifier_none_of_start X h.1, spreadLit_eq, lit, this]

theorem lambdaHead_stop {c : Char} (X : List Char) (hc : stopChar c = true) :
    lambdaHead (c :: X) = none := lambdaHead_nostart X (noStart_stop hc)

/-- no expression starts at a character at which no operand starts -/
theorem exprR_nostart (lam : Bool) {c : Char} (X : List Char) (hc : NoStart c) (f : Nat) :
    exprR lam (f + 4) (c :: X) = .fail := by
  have hne : c ≠ '(' ∧ c ≠ '[' ∧ c ≠ '{' := hc.2.1
  have ht2 : term2R (f + 1) (c :: X) = .fail := by
    rw [term2R_succ, termAtom_nostart X hc]
    simp only
    split
    · rename_i r1 heq; simp only [List.cons.injEq] at heq; exact absurd heq.1 hne.1
    · rename_i r1 heq; simp only [List.cons.injEq] at heq; exact absurd heq.1 hne.2.1
    · rename_i r1 heq; simp only [List.cons.injEq] at heq; exact absurd heq.1 hne.2.2
    · rfl
  have hci : c ≠ 'i' := hc.2.2.1
  have hcd : c ≠ 'd' := hc.2.2.2.1
  have ht : termR (f + 2) (c :: X) = .fail := by
    rw [termR_succ, condR_succ, ifHead_none_of_head X hci, doR_succ, doHead_none_of_head X hcd,
      lamR_succ, lambdaHead_nostart X hc, asgR_succ, asgHead_none_of_start X hc.1.1]
    exact ht2
  rw [exprR_succ, operandR_succ, prefixStar_none (prefixUsage_nostart X hc), ht]

/-- no expression starts at a closing bracket or a comma -/
theorem exprR_stop (lam : Bool) {c : Char} (X : List Char) (hc : stopChar c = true) (f : Nat) :
    exprR lam (f + 4) (c :: X) = .fail := exprR_nostart lam X (noStart_stop hc) f

/-- a term in front of `==` (or of anything that is no `=`): the `assignment` alternative takes
    the name and the first `=`, then finds no expression -/
theorem termR_of_term2' {cs : List Char} {x : Expr × List Char} {f : Nat}
    (hc : ifHead cs = none) (hd : doHead cs = none) (hl : lambdaHead cs = none)
    (ha : ∀ m r, asgHead cs = some (m, r) → ∃ r', r = '=' :: r')
    (h : term2R f cs = .ok x) : termR (f + 6) cs = .ok x := by
  rw [termR_succ, condR_succ, hc, doR_succ, hd, lamR_succ, hl, asgR_succ]
  cases hh : asgHead cs with
  | none => exact term2R_mono (by omega) h
  | some y =>
    obtain ⟨m, r⟩ := y
    obtain ⟨r', rfl⟩ := ha m r hh
    simp only [exprR_nostart false r' noStart_eq f]
    exact term2R_mono (by omega) h

theorem lit_spread_none {c : Char} (X : List Char) (h : c ≠ '.') : lit spreadLit (c :: X) = none := by
  have : ¬ ('.' = c) := fun e => h e.symm
  simp [spreadLit_eq, lit, this]

theorem argR_stop (lst : Bool) {c : Char} (X : List Char) (hc : stopChar c = true) (f : Nat) :
    argR lst (f + 5) (c :: X) = .fail := by
  have hne : c ≠ '.' := by
    simp only [stopChar, Bool.or_eq_true, beq_iff_eq] at hc
    rcases hc with ((rfl | rfl) | rfl) | rfl <;> decide
  rw [argR_succ, lit_spread_none X hne, exprR_stop false X hc]

theorem layChars_singleton (a : LayAtom) : layChars [a] = a.chars := by simp [layChars]

theorem skipWs_cons {c : Char} (r : List Char) (h : isWs c = false) : skipWs (c :: r) = c :: r := by
  simp [skipWs, List.dropWhile, h]

/-- a layout string with a line break in it: blanks, the first line break, the rest -/
theorem lay_split_nl : ∀ (l : Lay), (l.any fun a => !a.isWs) = true →
    ∃ w' nl l', l = w' ++ nl :: l' ∧ wsOnly w' = true ∧ nl.isWs = false
  | [], h => by simp at h
  | a :: l, h => by
    cases ha : a.isWs with
    | false => exact ⟨[], a, l, rfl, rfl, ha⟩
    | true =>
      simp only [List.any_cons, ha, Bool.not_true, Bool.false_or] at h
      obtain ⟨w', nl, l', rfl, hw, hn⟩ := lay_split_nl l h
      exact ⟨a :: w', nl, l', rfl, by simp [wsOnly, ha] at hw ⊢; exact hw, hn⟩

theorem callClose_text (c : Close) (hc : c.okCall = true) (rest : List Char) :
    callClose (c.text ')' ++ rest) = some rest := by
  cases c with
  | plain l =>
    obtain ⟨l', hl'⟩ := skipWs_lay l ')' rest (by decide)
    simp only [Close.text, List.append_assoc, List.singleton_append, callClose, hl',
      trailComma_other (lay_head_ne_comma l' (c := ')') rest (by decide)),
      layoutStar_run l' _ (layoutAtom_none (c := ')') (by decide))]
  | comma w l0 =>
    simp only [Close.okCall, Bool.and_eq_true] at hc
    obtain ⟨hw, hl0⟩ := hc
    obtain ⟨w', nl, l, rfl, hw', hnl⟩ := lay_split_nl l0 hl0
    have h1 : skipWs (layChars w ++ ',' :: (layChars w' ++ (nl.chars ++ (layChars l ++ ')' :: rest)))) =
        ',' :: (layChars w' ++ (nl.chars ++ (layChars l ++ ')' :: rest))) :=
      skipWs_run w hw ',' _ (by decide)
    have h2 : skipWs (layChars w' ++ (nl.chars ++ (layChars l ++ ')' :: rest))) =
        nl.chars ++ (layChars l ++ ')' :: rest) := by
      cases nl <;> simp [LayAtom.isWs] at hnl
      · exact skipWs_run w' hw' '\n' _ (by decide)
      · exact skipWs_run w' hw' '\r' _ (by decide)
    simp only [Close.text, layChars_append, layChars, List.append_assoc, List.cons_append,
      List.singleton_append, List.nil_append, callClose, h1, trailComma, h2, newline_atom hnl,
      layoutStar_run l _ (layoutAtom_none (c := ')') (by decide))]

theorem listClose_text (c : Close) (hc : c.okList = true) (rest : List Char) :
    listClose (itemTrail (c.text ']' ++ rest)) = some rest := by
  cases c with
  | plain l =>
    obtain ⟨l', hl', hs'⟩ := itemTrail_lay l (c := ']') rest (by decide)
    have hT : Close.text ']' (.plain l) ++ rest = layChars l ++ ']' :: rest := by simp [Close.text]
    rw [hT, hl', listClose_eq]
    have hcm : listComma (layChars l' ++ ']' :: rest) = layChars l' ++ ']' :: rest := by
      unfold listComma
      rw [hs']
      split
      · rename_i r heq; exact absurd heq (lay_head_ne_comma l' rest (by decide) r)
      · rfl
    rw [hcm, gapH_run l' rest (by decide)]
    rfl
  | comma w l =>
    have hw : wsOnly w = true := hc
    have hT : Close.text ']' (.comma w l) ++ rest = layChars w ++ ',' :: (layChars l ++ ']' :: rest) := by
      simp [Close.text]
    rw [hT, itemTrail_ws w hw _ (by decide), listClose_eq]
    have hcm : listComma (',' :: (layChars l ++ ']' :: rest)) = ']' :: rest := by
      unfold listComma
      rw [skipWs_cons _ (by decide)]
      exact wnStar_run l rest (by decide)
    rw [hcm]
    have := gapH_run [] (c := ']') rest (by decide)
    simp only [layChars, List.nil_append] at this
    rw [this]
    rfl

/-- what `argR` leaves behind an element: in a list the blanks (and a comment) behind it
    belong to the item -/
def trailL (lst : Bool) (T : List Char) : List Char := if lst then itemTrail T else T

/-- the closing bracket of the two bracketed sequences -/
def closeBr (lst : Bool) : Char := if lst then ']' else ')'

def Close.okFor (lst : Bool) (c : Close) : Bool := if lst then c.okList else c.okCall

/-- what the text behind the last argument / item has to satisfy -/
def ArgStop (lst : Bool) (T : List Char) : Prop :=
  TEnd T ∧ Closes T ∧ ∃ g, argsTailR lst g (trailL lst T) = .ok ([], trailL lst T)

theorem closeBr_stop (lst : Bool) : stopChar (closeBr lst) = true := by cases lst <;> rfl

theorem close_argStop (lst : Bool) (c : Close) (hc : c.okFor lst = true) (rest : List Char) :
    ArgStop lst (c.text (closeBr lst) ++ rest) := by
  have hbr := closeBr_stop lst
  obtain ⟨_, _, hbr3, hbr4, hbr5⟩ := stop_heads hbr
  have hbrc : closeBr lst ≠ ',' := by cases lst <;> decide
  cases c with
  | plain l =>
    have hT : Close.text (closeBr lst) (.plain l) ++ rest = layChars l ++ closeBr lst :: rest := by
      simp [Close.text]
    rw [hT]
    refine ⟨tend_stop l rest hbr, closes_stop l rest hbr, 1, ?_⟩
    · -- the text `argsTailR` sees: a suffix of the layout, which `skip` leaves alone after
      -- its blanks
      have key : ∃ l', skipWs (trailL lst (layChars l ++ closeBr lst :: rest)) =
          layChars l' ++ closeBr lst :: rest := by
        cases lst with
        | false => exact skipWs_lay l _ rest hbr5
        | true =>
          obtain ⟨l', h1, h2⟩ := itemTrail_lay l (c := closeBr true) rest hbr3
          exact ⟨l', by simp only [trailL, if_true, h1, h2]⟩
      obtain ⟨l', hl'⟩ := key
      rw [argsTailR_succ, hl']
      split
      · rename_i r heq; exact absurd heq (lay_head_ne_comma l' rest hbrc r)
      · rfl
  | comma w l =>
    have hw : wsOnly w = true := by
      cases lst
      · simp only [Close.okFor, Bool.false_eq_true, if_false, Close.okCall, Bool.and_eq_true] at hc
        exact hc.1
      · exact hc
    have hT : Close.text (closeBr lst) (.comma w l) ++ rest =
        layChars w ++ ',' :: (layChars l ++ closeBr lst :: rest) := by
      simp [Close.text]
    rw [hT]
    refine ⟨tend_stop w _ (by decide), closes_stop w _ (by decide), 6, ?_⟩
    · have hsk : skipWs (trailL lst (layChars w ++ ',' :: (layChars l ++ closeBr lst :: rest))) =
          ',' :: (layChars l ++ closeBr lst :: rest) := by
        cases lst with
        | false => exact skipWs_run w hw ',' _ (by decide)
        | true =>
          simp only [trailL, if_true, itemTrail_ws w hw _ (c := ',') (by decide)]
          exact skipWs_cons _ (by decide)
      have hgap : (if lst then gapG (layChars l ++ closeBr lst :: rest)
          else layoutStar (layChars l ++ closeBr lst :: rest)) = closeBr lst :: rest := by
        cases lst with
        | false => exact layoutStar_run l _ (layoutAtom_none hbr3)
        | true => exact gapG_run l rest hbr3
      rw [argsTailR_succ, hsk]
      simp only [hgap, argR_stop lst rest hbr 0]

/-! #### where no lambda starts: the first word of an operand and what follows it -/

/-- `d` (followed by `tl`) stops an argument list: it is not layout, not a blank, not `,`, not `)` -/
def Stopper (d : Char) (tl : List Char) : Prop :=
  (notLayoutStart d = true ∨ (d = '/' ∧ ∃ x t, tl = x :: t ∧ x ≠ '/')) ∧ isWs d = false ∧
    d ≠ ',' ∧ d ≠ ')'

/-- … and when it is `?` (which `optional_arg` would take) what follows it stops as well -/
def ContChar (d : Char) (tl : List Char) : Prop :=
  Stopper d tl ∧ (d = '?' → ∃ l2 d2 tl2, tl = layChars l2 ++ d2 :: tl2 ∧ Stopper d2 tl2)

/-- the text behind the first word of an operand, when there is any: layout, then a character
    that stops an argument list -/
def Cont (cont : List Char) : Prop :=
  Boundary cont ∧ ∃ l d tl, cont = layChars l ++ d :: tl ∧ ContChar d tl

theorem Stopper.append {d : Char} {tl : List Char} (h : Stopper d tl) (Y : List Char) :
    Stopper d (tl ++ Y) := by
  obtain ⟨h1, h2, h3, h4⟩ := h
  refine ⟨?_, h2, h3, h4⟩
  rcases h1 with h1 | ⟨rfl, x, t, rfl, hx⟩
  · exact Or.inl h1
  · exact Or.inr ⟨rfl, x, t ++ Y, rfl, hx⟩

theorem Stopper.layoutAtom {d : Char} {tl : List Char} (h : Stopper d tl) :
    layoutAtom (d :: tl) = none := by
  rcases h.1 with h1 | ⟨rfl, x, t, rfl, hx⟩
  · exact layoutAtom_none h1
  · exact layoutAtom_slash hx

theorem Stopper.of_char {d : Char} (tl : List Char) (h1 : notLayoutStart d = true)
    (h2 : isWs d = false) (h3 : d ≠ ',') (h4 : d ≠ ')') : Stopper d tl := ⟨Or.inl h1, h2, h3, h4⟩

theorem ContChar.append {d : Char} {tl : List Char} (h : ContChar d tl) (Y : List Char) :
    ContChar d (tl ++ Y) := by
  refine ⟨h.1.append Y, fun e => ?_⟩
  obtain ⟨l2, d2, tl2, rfl, hs⟩ := h.2 e
  exact ⟨l2, d2, tl2 ++ Y, by simp, hs.append Y⟩

theorem boundary_append_ne {cont : List Char} (h : Boundary cont) (hne : cont ≠ []) (Y : List Char) :
    Boundary (cont ++ Y) := by
  cases cont with
  | nil => exact absurd rfl hne
  | cons c t => exact h

theorem Cont.append {cont : List Char} (h : Cont cont) (Y : List Char) : Cont (cont ++ Y) := by
  obtain ⟨hb, l, d, tl, rfl, hc⟩ := h
  refine ⟨boundary_append_ne hb (by simp) Y, l, d, tl ++ Y, by simp, hc.append Y⟩

/-- a single character that is not `?` -/
theorem Cont.of_char {d : Char} (tl : List Char) (hi : isIdentChar d = false)
    (h1 : notLayoutStart d = true) (h2 : isWs d = false) (h3 : d ≠ ',') (h4 : d ≠ ')')
    (h5 : d ≠ '?') : Cont (d :: tl) :=
  ⟨boundary_cons hi, [], d, tl, rfl, Stopper.of_char tl h1 h2 h3 h4, fun e => absurd e h5⟩

/-- the first word of an operand text: a non-word start (`-` `!` `(` `[` a digit), or a word of
    identifier characters — a name, or a word `identifier` rejects — that is the whole text or
    is followed by a `Cont` -/
def Lead (c : CST) : Prop :=
  (∃ d tl, c.text = d :: tl ∧ startChar d = true ∧ isIdentStart d = false) ∨
  (∃ w cont, c.text = w ++ cont ∧ IdentShape w ∧ (cont = [] ∨ Cont cont) ∧
    (w ∉ reservedLits ∨ ∀ X, Boundary X → identifier (w ++ X) = none))

/-- a postfix-like continuation `d :: tl` behind an operand with the property `Lead` -/
theorem lead_suffix {t : List Char} {d : Char} {tl : List Char}
    (h : (∃ x xs, t = x :: xs ∧ startChar x = true ∧ isIdentStart x = false) ∨
      (∃ w cont, t = w ++ cont ∧ IdentShape w ∧ (cont = [] ∨ Cont cont) ∧
        (w ∉ reservedLits ∨ ∀ X, Boundary X → identifier (w ++ X) = none)))
    (hc : Cont (d :: tl)) :
    (∃ x xs, t ++ d :: tl = x :: xs ∧ startChar x = true ∧ isIdentStart x = false) ∨
      (∃ w cont, t ++ d :: tl = w ++ cont ∧ IdentShape w ∧ (cont = [] ∨ Cont cont) ∧
        (w ∉ reservedLits ∨ ∀ X, Boundary X → identifier (w ++ X) = none)) := by
  rcases h with ⟨x, xs, rfl, h1, h2⟩ | ⟨w, cont, rfl, hw, hcont, hid⟩
  · exact Or.inl ⟨x, xs ++ d :: tl, rfl, h1, h2⟩
  · refine Or.inr ⟨w, cont ++ d :: tl, by simp, hw, Or.inr ?_, hid⟩
    rcases hcont with rfl | hcont
    · simpa using hc
    · exact hcont.append _

theorem word_head2 (op : BinOp) (hw : isWordOp op = true) :
    ∃ h t, spell op = h :: t ∧ notLayoutStart h = true ∧ isWs h = false ∧ h ≠ ',' ∧ h ≠ ')' ∧ h ≠ '?' := by
  have : (BinOp.all.all fun op => !isWordOp op ||
      (match spell op with
       | h :: _ => notLayoutStart h && !isWs h && h != ',' && h != ')' && h != '?'
       | [] => false)) = true := by
    decide +kernel
  have := List.all_eq_true.mp this op (PrattRT.BinOp.mem_all op)
  simp only [hw, Bool.not_true, Bool.false_or] at this
  split at this
  · rename_i h t hsp
    simp only [Bool.and_eq_true, Bool.not_eq_true', bne_iff_ne, ne_eq] at this
    exact ⟨h, t, hsp, this.1.1.1.1, this.1.1.1.2, this.1.1.2, this.1.2, this.2⟩
  · cases this

/-- the gap between two operands — layout, operator, layout, the next operand — is a `Cont` -/
theorem cont_gap (op : BinOp) (a b : Lay) (hl : CST.layOk op a b = true) (x : Char) (tl : List Char)
    (hx : startChar x = true) : Cont (layChars a ++ (spell op ++ (layChars b ++ x :: tl))) := by
  obtain ⟨_, _, hB, _⟩ := op_gap false op (fun e => by cases e) a b hl x tl hx
  refine ⟨hB, ?_⟩
  cases hw : isWordOp op with
  | true =>
    obtain ⟨h, t, hsp, h1, h2, h3, h4, h5⟩ := word_head2 op hw
    exact ⟨a, h, t ++ (layChars b ++ x :: tl), by rw [hsp]; simp,
      Stopper.of_char _ h1 h2 h3 h4, fun e => absurd e h5⟩
  | false =>
    have hs := symOk_of op hw
    have hq := symLamOk_of op hw
    simp only [symOk, Bool.and_eq_true] at hs
    obtain ⟨_, hs2⟩ := hs
    unfold symLamOk at hq
    split at hs2
    · cases hs2
    · rename_i h t hsp
      rw [hsp] at hq
      simp only [Bool.and_eq_true, bne_iff_ne, ne_eq, Bool.not_eq_true', Bool.or_eq_true,
        beq_iff_eq, List.isEmpty_iff] at hs2 hq
      obtain ⟨⟨hlay, _⟩, _⟩ := hs2
      obtain ⟨⟨⟨⟨hq1, hq2⟩, hq3⟩, _⟩, hq5⟩ := hq
      obtain ⟨_, _, hx3, _, _⟩ := startChar_facts hx
      have hst : Stopper h (t ++ (layChars b ++ x :: tl)) := by
        refine ⟨?_, hq3, hq1, hq2⟩
        rcases hlay with hlay | ⟨rfl, rfl⟩
        · exact Or.inl hlay
        · obtain ⟨d, tl', hX, hd⟩ := lay_head b x tl (fun d => d ≠ '/')
            (by decide) (by decide) (by decide) (by decide) hx3
          exact Or.inr ⟨rfl, d, tl', by simpa using hX, hd⟩
      refine ⟨a, h, t ++ (layChars b ++ x :: tl), by rw [hsp]; simp, hst, ?_⟩
      intro e
      subst e
      rcases hq5 with hq5 | hq5
      · exact absurd rfl hq5
      · cases t with
        | nil => cases hq5
        | cons c t' =>
          simp only [beq_iff_eq] at hq5
          subst hq5
          exact ⟨[], '?', t' ++ (layChars b ++ x :: tl), by simp [layChars],
            Stopper.of_char _ (by decide) (by decide) (by decide) (by decide)⟩

theorem lead : ∀ (c : CST), c.Shaped → c.LayoutOk → Lead c
  | .atom e, h, _ => by
    obtain ⟨hne, hall, _, _⟩ := atom_word (e := e) h
    rcases atom_ident h with ⟨n, hn, hw, hnot⟩ | hid
    · exact Or.inr ⟨n.toList, [], by simp [CST.text, hn], hw, Or.inl rfl, Or.inl hnot⟩
    · -- a reserved literal or a number
      cases hw : atomText e with
      | nil => exact absurd hw hne
      | cons d ds =>
        by_cases hs : isIdentStart d = true
        · refine Or.inr ⟨atomText e, [], by simp [CST.text], ?_, Or.inl rfl, Or.inr hid⟩
          simp only [IdentShape, identShape, hw, hs, Bool.true_and, List.all_eq_true]
          intro x hx
          exact hall x (by rw [hw]; exact List.mem_cons_of_mem _ hx)
        · refine Or.inl ⟨d, ds, by simp [CST.text, hw], ?_, by simpa using hs⟩
          have := hall d (by rw [hw]; exact List.mem_cons_self)
          simp [startChar, this]
  | .str dq s, _, _ => Or.inl ⟨quoteChar dq, _, rfl, by cases dq <;> decide, by cases dq <;> decide⟩
  | .bin op l a b r, h, hl => by
    obtain ⟨x, tl, hx, hsx⟩ := text_start r h.2.1
    have hc := cont_gap op a b hl.2.2 x tl hsx
    obtain ⟨d, t, hdt⟩ := List.exists_cons_of_ne_nil
      (l := layChars a ++ (spell op ++ (layChars b ++ x :: tl))) (by simp)
    have := lead_suffix (lead l h.1 hl.1) (d := d) (tl := t) (hdt ▸ hc)
    simpa only [Lead, CST.text, hx, hdt] using this
  | .un op e, h, _ => by
    cases op with
    | negate => exact Or.inl ⟨'-', e.text, rfl, by decide, by decide⟩
    | not => exact Or.inl ⟨'!', e.text, rfl, by decide, by decide⟩
    | invert => exact absurd rfl h.1
  | .fact e, h, hl => by
    have := lead_suffix (lead e h.1 hl) (d := '!') (tl := [])
      (Cont.of_char [] (by decide) (by decide) (by decide) (by decide) (by decide) (by decide))
    simpa only [Lead, CST.text] using this
  | .paren a e b, _, _ => Or.inl ⟨'(', _, rfl, by decide, by decide⟩
  | .call0 f l, h, hl => by
    have := lead_suffix (lead f h.1 hl) (d := '(') (tl := layChars l ++ [')'])
      (Cont.of_char _ (by decide) (by decide) (by decide) (by decide) (by decide) (by decide))
    simpa only [Lead, CST.text] using this
  | .call f l as c, h, hl => by
    have := lead_suffix (lead f h.1 hl.1) (d := '(') (tl := layChars l ++ (CST.argsText as ++ c.text ')'))
      (Cont.of_char _ (by decide) (by decide) (by decide) (by decide) (by decide) (by decide))
    simpa only [Lead, CST.text] using this
  | .access e a i b, h, hl => by
    have := lead_suffix (lead e h.1 hl.1) (d := '[') (tl := layChars a ++ (i.text ++ (layChars b ++ [']'])))
      (Cont.of_char _ (by decide) (by decide) (by decide) (by decide) (by decide) (by decide))
    simpa only [Lead, CST.text] using this
  | .dot e n, h, hl => by
    have := lead_suffix (lead e h.1 hl) (d := '.') (tl := n.toList)
      (Cont.of_char _ (by decide) (by decide) (by decide) (by decide) (by decide) (by decide))
    simpa only [Lead, CST.text] using this
  | .list0 l, _, _ => Or.inl ⟨'[', _, rfl, by decide, by decide⟩
  | .list l as c, _, _ => Or.inl ⟨'[', _, rfl, by decide, by decide⟩
  | .rec0 l, _, _ => Or.inl ⟨'{', _, rfl, by decide, by decide⟩
  | .record l es c, _, _ => Or.inl ⟨'{', _, rfl, by decide, by decide⟩
  | .doB l0 l1 ss w e l2, _, hl => by
    obtain ⟨⟨hl0, _, _⟩, _⟩ := hl
    refine Or.inr ⟨['d', 'o'], layChars l0 ++ '{' :: (layChars l1 ++ (CST.stmtsText ss ++ (retLit ++
      (layChars w ++ (e.text ++ (layChars l2 ++ ['}'])))))), by simp [CST.text],
      by decide, Or.inr ?_, Or.inr ?_⟩
    · refine ⟨?_, l0, '{', _, rfl,
        Stopper.of_char _ (by decide) (by decide) (by decide) (by decide), fun e => by cases e⟩
      cases l0 with
      | nil => exact absurd rfl hl0
      | cons a w' => cases a <;> exact boundary_cons (by decide)
    · intro X hb
      have hf : firstLit reservedLits (['d', 'o'] ++ X) = some (['d', 'o'], X) := by
        simp [firstLit, reservedLits, Gen.grammarReserved, lit]
      have hk := keyword_isSome_of_firstLit hf hb
      simp only [List.cons_append, List.nil_append] at hk ⊢
      simp [identifier, hk]
  | .asg n w l v, h, _ => by
    obtain ⟨hw, hnot⟩ := nameOk_facts h.1
    have hbd : Boundary (layChars w ++ '=' :: (layChars l ++ v.text)) := by
      obtain ⟨d, tl', hX, hd⟩ := lay_head w '=' (layChars l ++ v.text) (fun d => isIdentChar d = false)
        (by decide) (by decide) (by decide) (by decide) (by decide)
      rw [hX]; exact boundary_cons hd
    exact Or.inr ⟨n.toList, layChars w ++ '=' :: (layChars l ++ v.text), by simp [CST.text], hw,
      Or.inr ⟨hbd, w, '=', _, rfl,
        Stopper.of_char _ (by decide) (by decide) (by decide) (by decide), fun e => by cases e⟩,
      Or.inl hnot⟩
  | .cond w c l1 l2 t l3 l4 e, h, hl => by
    obtain ⟨x, tl, hx, hsx⟩ := text_start c h.1
    obtain ⟨hx1, _, _, hx4, hx5⟩ := startChar_facts hsx
    have hxc : x ≠ ',' := by intro e; subst e; revert hsx; decide
    have hxq : x ≠ '?' := by intro e; subst e; revert hsx; decide
    obtain ⟨⟨hw, hws, _⟩, _⟩ := hl
    refine Or.inr ⟨['i', 'f'], layChars w ++ (c.text ++ (layChars l1 ++ (thenLit ++ (layChars l2 ++
      (t.text ++ (layChars l3 ++ (elseLit ++ (layChars l4 ++ e.text)))))))), by simp [CST.text],
      by decide, Or.inr ?_, Or.inr ?_⟩
    · refine ⟨?_, w, x, tl ++ (layChars l1 ++ (thenLit ++ (layChars l2 ++
        (t.text ++ (layChars l3 ++ (elseLit ++ (layChars l4 ++ e.text))))))), by simp [hx],
        Stopper.of_char _ hx1 hx4 hxc hx5, fun e => absurd e hxq⟩
      cases w with
      | nil => exact absurd rfl hw
      | cons a w' => cases a <;> exact boundary_cons (by decide)
    · intro X hb
      have hf : firstLit reservedLits (['i', 'f'] ++ X) = some (['i', 'f'], X) := by
        simp [firstLit, reservedLits, Gen.grammarReserved, lit]
      have hk := keyword_isSome_of_firstLit hf hb
      simp only [List.cons_append, List.nil_append] at hk ⊢
      simp [identifier, hk]
  | .lambda hd w l b, h, hl => by
    cases hd with
    | unit l0 => exact Or.inl ⟨'(', _, rfl, by decide, by decide⟩
    | parens l0 a more c => exact Or.inl ⟨'(', _, rfl, by decide, by decide⟩
    | bare a =>
      have hn := h.1
      simp only [LamHead.namesOk, LamHead.args, List.all_cons, List.all_nil, Bool.and_true,
        Bool.and_eq_true] at hn
      -- the text behind the name: blanks and `=>`
      have harrow : ∀ T, Stopper '=' T := fun T =>
        Stopper.of_char T (by decide) (by decide) (by decide) (by decide)
      have hbd : ∀ T, Boundary (layChars w ++ '=' :: T) := fun T => by
        obtain ⟨d, tl', hX, hd⟩ := lay_head w '=' T (fun d => isIdentChar d = false)
          (by decide) (by decide) (by decide) (by decide) (by decide)
        rw [hX]; exact boundary_cons hd
      cases a with
      | rest n => simp at hn
      | req n =>
        obtain ⟨hw, hnot⟩ := nameOk_facts hn.1
        refine Or.inr ⟨n.toList, layChars w ++ '=' :: '>' :: (layChars l ++ b.text),
          by simp [CST.text, LamHead.text, argText], hw, Or.inr ?_, Or.inl hnot⟩
        exact ⟨hbd _, w, '=', _, rfl, harrow _, fun e => by cases e⟩
      | opt n =>
        obtain ⟨hw, hnot⟩ := nameOk_facts hn.1
        refine Or.inr ⟨n.toList, '?' :: (layChars w ++ '=' :: '>' :: (layChars l ++ b.text)),
          by simp [CST.text, LamHead.text, argText], hw, Or.inr ?_, Or.inl hnot⟩
        refine ⟨boundary_cons (by decide), [], '?', _, rfl,
          Stopper.of_char _ (by decide) (by decide) (by decide) (by decide), fun _ => ?_⟩
        exact ⟨w, '=', _, rfl, harrow _⟩

/-- no lambda starts at an atom that is not followed by `=>` -/
theorem lambdaHead_atom {e : Expr} (h : atomOk e = true) {rest : List Char} (ht : TEnd rest) :
    lambdaHead (atomText e ++ rest) = none := by
  obtain ⟨hne, hall, _, _⟩ := atom_word (e := e) h
  rcases atom_ident h with ⟨n, hn, hw, hnot⟩ | hid
  · have hnok : nameOk n = true := by
      simp only [nameOk, Bool.and_eq_true, Bool.not_eq_true']
      refine ⟨hw, ?_⟩
      cases hc : Gen.grammarReserved.contains n with
      | false => rfl
      | true =>
        exact absurd (mem_reservedLits.mpr (by rw [String.ofList_toList]; simpa using hc)) hnot
    rw [hn]
    exact lambdaHead_name hnok ht.1 ht.2
  · cases hw : atomText e with
    | nil => exact absurd hw hne
    | cons d ds =>
      have := hid rest ht.1
      rw [hw, List.cons_append] at this
      rw [List.cons_append]
      exact lambdaHead_nonname this (hall d (by rw [hw]; exact List.mem_cons_self))

theorem asgHead_atom {e : Expr} (h : atomOk e = true) {rest : List Char} (ht : TEnd rest) :
    ∀ m r, asgHead (atomText e ++ rest) = some (m, r) → ∃ r', r = '=' :: r' := by
  rcases atom_ident h with ⟨n, hn, hw, hnot⟩ | hid
  · have hnok : nameOk n = true := by
      simp only [nameOk, Bool.and_eq_true, Bool.not_eq_true']
      refine ⟨hw, ?_⟩
      cases hc : Gen.grammarReserved.contains n with
      | false => rfl
      | true =>
        exact absurd (mem_reservedLits.mpr (by rw [String.ofList_toList]; simpa using hc)) hnot
    rw [hn]
    exact asgHead_name_noLam hnok ht.1 ht.2
  · intro m r h'
    rw [asgHead_none_of_ident (hid rest ht.1)] at h'
    cases h'

theorem lambdaHead_bracket (X : List Char) : lambdaHead ('[' :: X) = none := by
  refine lambdaHead_noarg ?_ (fun r e => by cases e)
  simp [argumentR, identifier_none_of_start X (c := '[') (by decide), spreadLit_eq, lit]

theorem argumentR_paren (X : List Char) : argumentR ('(' :: X) = none := by
  simp [argumentR, identifier_none_of_start X (c := '(') (by decide), spreadLit_eq, lit]

/-- `argument` on a word `w` followed by `X` where `identifier` reads exactly `w` -/
theorem argumentR_word_q {w X r' : List Char} (hid : identifier (w ++ X) = some X)
    (hs : skipWs X = '?' :: r') : argumentR (w ++ X) = some (.opt (String.ofList w), r') := by
  simp only [argumentR, hid, consumed_append', hs]

theorem argumentR_word_nq {w X : List Char} (hid : identifier (w ++ X) = some X)
    (hs : ∀ r', skipWs X = '?' :: r' → False) :
    argumentR (w ++ X) = some (.req (String.ofList w), X) := by
  -- the side condition of the second `match` alternative is discharged from `hs`
  simp only [argumentR, hid, consumed_append']

/-- `argument` on a word that `identifier` rejects -/
theorem argumentR_reject {c : Char} {t : List Char} (hid : identifier (c :: t) = none)
    (hc : c ≠ '.') : argumentR (c :: t) = none := by
  have : ¬ ('.' = c) := fun e => hc e.symm
  simp [argumentR, hid, spreadLit_eq, lit, this]

theorem argumentTailClose_stop (a0 : LArg) (l : Lay) {d : Char} (tl : List Char) (h : Stopper d tl) :
    argumentTailClose a0 (layChars l ++ d :: tl) = none := by
  simp only [argumentTailClose, argumentsTail_stop _ l tl h.2.1 h.2.2.1,
    callClose_fail l tl h.layoutAtom h.2.1 h.2.2.1 h.2.2.2, Option.map_none]

theorem lay_cons_q {l : Lay} {d : Char} {T r' : List Char} (h : layChars l ++ d :: T = '?' :: r') :
    l = [] ∧ d = '?' ∧ r' = T := by
  cases l with
  | nil =>
    simp only [layChars, List.nil_append, List.cons.injEq] at h
    exact ⟨rfl, h.1, h.2.symm⟩
  | cons a l => cases a <;> simp [layChars, LayAtom.chars] at h

/-- between parentheses the text of an expression is an argument list only when it is one
    name; then the list ends at the closing parenthesis -/
theorem argumentListParen_paren (a : Lay) (e : CST) (b : Lay) (rest : List Char) (hs : e.Shaped)
    (hl : e.LayoutOk) :
    argumentListParen (layChars a ++ (e.text ++ (layChars b ++ ')' :: rest))) = none ∨
      ∃ args, argumentListParen (layChars a ++ (e.text ++ (layChars b ++ ')' :: rest))) =
        some (args, rest) := by
  obtain ⟨x, tl, hx, hsx⟩ := text_start e hs
  obtain ⟨hx1, _, _, hx4, hx5⟩ := startChar_facts hsx
  have hxc : x ≠ ',' := by intro e; subst e; revert hsx; decide
  have hla : layoutAtom (e.text ++ (layChars b ++ ')' :: rest)) = none := by
    rw [hx, List.cons_append]; exact layoutAtom_none hx1
  have hclose0 : callClose (e.text ++ (layChars b ++ ')' :: rest)) = none := by
    rw [hx, List.cons_append]
    exact callClose_fail [] _ (layoutAtom_none hx1) hx4 hxc hx5
  unfold argumentListParen
  rw [layoutStar_run a _ hla]
  rcases lead e hs hl with ⟨d, t, hd, hd1, hd2⟩ | ⟨w, cont, hw, hshape, hcont, hid⟩
  · -- not a word: no argument
    left
    have hnone : argumentR (e.text ++ (layChars b ++ ')' :: rest)) = none := by
      rw [hd, List.cons_append]
      exact argumentR_reject (identifier_none_of_start _ hd2)
        (by intro e; subst e; revert hd1; decide)
    simp only [hnone, hclose0, Option.map_none]
  · have hZ : Boundary (layChars b ++ ')' :: rest) := (tend_stop b rest (by decide)).1
    have hbX : Boundary (cont ++ (layChars b ++ ')' :: rest)) := by
      rcases hcont with rfl | hc
      · simpa using hZ
      · exact (hc.append _).1
    rcases hid with hnot | hid
    · -- a name
      have hidn := identifier_run hshape hnot hbX
      rw [hw, List.append_assoc]
      rcases hcont with rfl | hc
      · -- the parentheses hold just the name: `(w)` is an argument list
        right
        simp only [List.nil_append] at hidn ⊢
        obtain ⟨b', hb'⟩ := skipWs_lay b ')' rest (by decide)
        have hq : ∀ r', skipWs (layChars b ++ ')' :: rest) = '?' :: r' → False := by
          intro r' e
          rw [hb'] at e
          obtain ⟨hh, _⟩ := lay_cons_q e
          obtain ⟨_, h2, _⟩ := lay_cons_q e
          exact absurd h2 (by decide)
        have hc := callClose_text (.plain b) rfl rest
        simp only [Close.text, List.append_assoc, List.singleton_append] at hc
        refine ⟨[.req (String.ofList w)], ?_⟩
        simp only [argumentR_word_nq hidn hq, argumentTailClose,
          argumentsTail_stop _ b rest (d := ')') (by decide) (by decide), hc, Option.map_some]
      · left
        obtain ⟨_, l0, d0, t0, rfl, hcc⟩ := hc
        have hX : (layChars l0 ++ d0 :: t0) ++ (layChars b ++ ')' :: rest) =
            layChars l0 ++ d0 :: (t0 ++ (layChars b ++ ')' :: rest)) := by simp
        rw [hX] at hidn ⊢
        have hcc' := hcc.append (layChars b ++ ')' :: rest)
        obtain ⟨l', hl'⟩ := skipWs_lay l0 d0 (t0 ++ (layChars b ++ ')' :: rest)) hcc'.1.2.1
        by_cases hqq : ∃ r', skipWs (layChars l0 ++ d0 :: (t0 ++ (layChars b ++ ')' :: rest))) = '?' :: r'
        · -- `w ?…`: the `?` is taken by `optional_arg`; what follows stops the list
          obtain ⟨r', hr'⟩ := hqq
          have e := hr'
          rw [hl'] at e
          obtain ⟨_, hd0, hrr⟩ := lay_cons_q e
          subst hd0
          obtain ⟨l2, d2, tl2, htl, hst⟩ := hcc'.2 rfl
          rw [argumentR_word_q hidn hr', hrr, htl]
          exact argumentTailClose_stop _ l2 tl2 hst
        · have hq : ∀ r', skipWs (layChars l0 ++ d0 :: (t0 ++ (layChars b ++ ')' :: rest))) =
              '?' :: r' → False := fun r' e => hqq ⟨r', e⟩
          rw [argumentR_word_nq hidn hq]
          exact argumentTailClose_stop _ l0 _ hcc'.1
    · -- a word `identifier` rejects
      left
      have hnone : argumentR (e.text ++ (layChars b ++ ')' :: rest)) = none := by
        have := hid _ hbX
        rw [hw, List.append_assoc]
        cases hwc : w with
        | nil => exact absurd hwc hshape.ne_nil
        | cons c t =>
          rw [hwc] at this
          have hc : isIdentChar c = true := hshape.all c (by rw [hwc]; exact List.mem_cons_self)
          rw [List.cons_append] at this ⊢
          exact argumentR_reject this (by intro e; subst e; revert hc; decide)
      simp only [hnone, hclose0, Option.map_none]

/-- no lambda starts at a parenthesised expression that is not followed by `=>`: either the
    text between the parentheses is not an argument list, or (a single name) it is and the
    `=>` is missing -/
theorem lambdaHead_paren (a : Lay) (e : CST) (b : Lay) (rest : List Char) (hs : e.Shaped)
    (hl : e.LayoutOk) (hn : NoLam rest) :
    lambdaHead ('(' :: (layChars a ++ (e.text ++ (layChars b ++ ')' :: rest)))) = none := by
  simp only [lambdaHead, argumentList, argumentR_paren]
  rcases argumentListParen_paren a e b rest hs hl with h | ⟨args, h⟩
  · simp only [h]
  · simp only [h, lit_arrow_none hn.1.1, Option.map_none]

/-! #### the head of a lambda is read back -/

theorem argText_start {a : LArg} (h : nameOk a.name = true) :
    ∃ x tl, argText a = x :: tl ∧ notLayoutStart x = true := by
  cases a with
  | rest n => exact ⟨'.', '.' :: '.' :: n.toList, by simp [argText, spreadLit_eq], by decide⟩
  | req n =>
    obtain ⟨x, tl, hx, hc⟩ := name_start (n := n) h
    exact ⟨x, tl, by simp [argText, hx], by
      obtain ⟨h1, h2, h3, h4, h5, _⟩ := isIdentChar_cases hc
      simp [notLayoutStart, *]⟩
  | opt n =>
    obtain ⟨x, tl, hx, hc⟩ := name_start (n := n) h
    exact ⟨x, tl ++ ['?'], by simp [argText, hx], by
      obtain ⟨h1, h2, h3, h4, h5, _⟩ := isIdentChar_cases hc
      simp [notLayoutStart, *]⟩

/-- an argument in front of blanks / layout and a comma or closing parenthesis -/
theorem argumentR_argText (a : LArg) (hn : nameOk a.name = true) (lw : Lay) {c0 : Char}
    (hc0 : stopChar c0 = true) (M' : List Char) :
    argumentR (argText a ++ (layChars lw ++ c0 :: M')) = some (a, layChars lw ++ c0 :: M') := by
  have hb : Boundary (layChars lw ++ c0 :: M') := (tend_stop lw M' hc0).1
  cases a with
  | req n =>
    refine argumentR_req hn hb ?_
    intro r e
    obtain ⟨_, _, _, _, h5⟩ := stop_heads hc0
    obtain ⟨l', hl'⟩ := skipWs_lay lw c0 M' h5
    rw [hl'] at e
    obtain ⟨_, hd, _⟩ := lay_cons_q e
    subst hd
    revert hc0; decide
  | opt n =>
    have : argText (.opt n) ++ (layChars lw ++ c0 :: M') = n.toList ++ '?' :: (layChars lw ++ c0 :: M') := by
      simp [argText]
    rw [this]
    exact argumentR_opt hn _
  | rest n =>
    have : argText (.rest n) ++ (layChars lw ++ c0 :: M') =
        spreadLit ++ (n.toList ++ (layChars lw ++ c0 :: M')) := by simp [argText]
    rw [this]
    exact argumentR_rest hn hb

/-- the end of the argument list: `C` starts (after layout) with `,` or `)`, and no further
    argument is read from it -/
def ArgsEnd (C : List Char) : Prop :=
  (∃ lw c0 C', C = layChars lw ++ c0 :: C' ∧ stopChar c0 = true) ∧
    ∀ n, argumentsTail (n + 1) C = ([], C)

theorem more_head (more : List (Lay × Lay × LArg)) {C : List Char}
    (hC : ∃ lw c0 C', C = layChars lw ++ c0 :: C' ∧ stopChar c0 = true) :
    ∃ lw c0 C', moreText more ++ C = layChars lw ++ c0 :: C' ∧ stopChar c0 = true := by
  cases more with
  | nil => simpa [moreText] using hC
  | cons x rest =>
    obtain ⟨w, l, a⟩ := x
    exact ⟨w, ',', layChars l ++ (argText a ++ (moreText rest ++ C)), by simp [moreText], rfl⟩

theorem argumentsTail_more : ∀ (more : List (Lay × Lay × LArg)) (n : Nat) (C : List Char),
    more.length < n → (∀ x ∈ more, wsOnly x.1 = true ∧ nameOk x.2.2.name = true) → ArgsEnd C →
    argumentsTail n (moreText more ++ C) = (more.map (fun x => x.2.2), C)
  | [], n, C, hn, _, hC => by
    cases n with
    | zero => exact absurd hn (Nat.not_lt_zero _)
    | succ k => simpa [moreText] using hC.2 k
  | (w, l, a) :: rest, n, C, hn, hall, hC => by
    cases n with
    | zero => exact absurd hn (Nat.not_lt_zero _)
    | succ k =>
      obtain ⟨hw, hna⟩ := hall (w, l, a) List.mem_cons_self
      obtain ⟨x, tl, hx, hxs⟩ := argText_start hna
      obtain ⟨lw, c0, C', hM, hc0⟩ := more_head rest hC.1
      have ih := argumentsTail_more rest k C (by simp only [List.length_cons] at hn; omega)
        (fun y hy => hall y (List.mem_cons_of_mem _ hy)) hC
      have hlay : layoutAtom (argText a ++ (moreText rest ++ C)) = none := by
        rw [hx, List.cons_append]; exact layoutAtom_none hxs
      have htxt : moreText ((w, l, a) :: rest) ++ C =
          layChars w ++ ',' :: (layChars l ++ (argText a ++ (moreText rest ++ C))) := by
        simp [moreText]
      rw [htxt, argumentsTail, skipWs_run w hw ',' _ (by decide)]
      simp only [layoutStar_run l _ hlay]
      rw [hM, argumentR_argText a hna lw hc0 C', ← hM]
      simp only [ih, List.map_cons]

theorem close_argsEnd (c : Close) (hc : c.okCall = true) (Y : List Char) :
    ArgsEnd (c.text ')' ++ Y) := by
  cases c with
  | plain l =>
    have hT : Close.text ')' (.plain l) ++ Y = layChars l ++ ')' :: Y := by simp [Close.text]
    rw [hT]
    exact ⟨⟨l, ')', Y, rfl, rfl⟩, fun n => argumentsTail_stop _ l Y (by decide) (by decide)⟩
  | comma w l =>
    simp only [Close.okCall, Bool.and_eq_true] at hc
    have hT : Close.text ')' (.comma w l) ++ Y = layChars w ++ ',' :: (layChars l ++ ')' :: Y) := by
      simp [Close.text]
    rw [hT]
    refine ⟨⟨w, ',', _, rfl, rfl⟩, fun n => ?_⟩
    have hnone : argumentR (')' :: Y) = none :=
      argumentR_reject (identifier_none_of_start Y (by decide)) (by decide)
    simp only [argumentsTail, skipWs_run w hc.1 ',' _ (by decide),
      layoutStar_run l _ (layoutAtom_none (c := ')') (by decide)), hnone]

theorem moreText_length (more : List (Lay × Lay × LArg)) : more.length ≤ (moreText more).length := by
  induction more with
  | nil => simp [moreText]
  | cons x rest ih =>
    obtain ⟨w, l, a⟩ := x
    simp only [moreText, List.length_cons, List.length_append]
    omega

/-- the head of a lambda — argument list, blanks, `=>`, layout — in front of the body `X` -/
theorem lambdaHead_text (hd : LamHead) (hok : hd.ok = true) (hnm : hd.namesOk = true) (w l : Lay)
    (hw : wsOnly w = true) (X : List Char) (hX : layoutAtom X = none) :
    lambdaHead (hd.text ++ (layChars w ++ '=' :: '>' :: (layChars l ++ X))) = some (hd.args, X) := by
  -- behind the argument list
  have harrow : ∀ args : List LArg,
      (lit ['=', '>'] (skipWs (layChars w ++ '=' :: '>' :: (layChars l ++ X)))).map
        (fun r' => (args, layoutStar r')) = some (args, X) := by
    intro args
    rw [skipWs_run w hw '=' _ (by decide)]
    simp only [lit, if_true, Option.map_some, layoutStar_run l X hX]
  have hbY : Boundary (layChars w ++ '=' :: '>' :: (layChars l ++ X)) := by
    obtain ⟨d, tl', hXX, hd⟩ := lay_head w '=' ('>' :: (layChars l ++ X))
      (fun d => isIdentChar d = false) (by decide) (by decide) (by decide) (by decide) (by decide)
    rw [hXX]; exact boundary_cons hd
  simp only [LamHead.namesOk, Bool.and_eq_true, List.all_eq_true] at hnm
  obtain ⟨hnames, hbare⟩ := hnm
  cases hd with
  | bare a =>
    have hna : nameOk a.name = true := hnames a (by simp [LamHead.args])
    cases a with
    | rest n => simp at hbare
    | req n =>
      have harg : argumentR (n.toList ++ (layChars w ++ '=' :: '>' :: (layChars l ++ X))) =
          some (.req n, layChars w ++ '=' :: '>' :: (layChars l ++ X)) := by
        refine argumentR_req hna hbY ?_
        intro r e
        rw [skipWs_run w hw '=' _ (by decide)] at e
        cases e
      simp only [LamHead.text, argText, LamHead.args, lambdaHead, argumentList, harg, harrow]
    | opt n =>
      have htxt : (n.toList ++ ['?']) ++ (layChars w ++ '=' :: '>' :: (layChars l ++ X)) =
          n.toList ++ '?' :: (layChars w ++ '=' :: '>' :: (layChars l ++ X)) := by simp
      have harg := argumentR_opt (n := n) hna (layChars w ++ '=' :: '>' :: (layChars l ++ X))
      simp only [LamHead.text, argText, LamHead.args, htxt]
      simp only [lambdaHead, argumentList, harg, harrow]
  | unit l0 =>
    have hnone : argumentR (')' :: (layChars w ++ '=' :: '>' :: (layChars l ++ X))) = none :=
      argumentR_reject (identifier_none_of_start _ (by decide)) (by decide)
    have hc := callClose_text (.plain []) rfl (layChars w ++ '=' :: '>' :: (layChars l ++ X))
    simp only [Close.text, layChars, List.nil_append, List.singleton_append] at hc
    simp only [LamHead.text, LamHead.args, List.cons_append, List.append_assoc,
      List.singleton_append, List.nil_append]
    simp only [lambdaHead, argumentList, argumentR_paren, argumentListParen,
      layoutStar_run l0 _ (layoutAtom_none (c := ')') (by decide)), hnone, hc, Option.map_some,
      harrow]
  | parens l0 a more c =>
    simp only [LamHead.ok, Bool.and_eq_true, List.all_eq_true] at hok
    obtain ⟨hmw, hcc⟩ := hok
    have hna : nameOk a.name = true := hnames a (by simp [LamHead.args])
    have hall : ∀ x ∈ more, wsOnly x.1 = true ∧ nameOk x.2.2.name = true := fun x hx =>
      ⟨hmw x hx, hnames x.2.2 (by simp only [LamHead.args, List.mem_cons, List.mem_map]; exact Or.inr ⟨x, hx, rfl⟩)⟩
    obtain ⟨x, tl, hx, hxs⟩ := argText_start hna
    have hend := close_argsEnd c hcc (layChars w ++ '=' :: '>' :: (layChars l ++ X))
    obtain ⟨lw, c0, C', hM, hc0⟩ := more_head more hend.1
    have hlay : layoutAtom (argText a ++ (moreText more ++
        (c.text ')' ++ (layChars w ++ '=' :: '>' :: (layChars l ++ X))))) = none := by
      rw [hx, List.cons_append]; exact layoutAtom_none hxs
    have htail := argumentsTail_more more
      ((moreText more ++ (c.text ')' ++ (layChars w ++ '=' :: '>' :: (layChars l ++ X)))).length + 1)
      _ (by have := moreText_length more; simp only [List.length_append]; omega) hall hend
    have htc : argumentTailClose a (moreText more ++
        (c.text ')' ++ (layChars w ++ '=' :: '>' :: (layChars l ++ X)))) =
        some (a :: more.map (fun x => x.2.2), layChars w ++ '=' :: '>' :: (layChars l ++ X)) := by
      simp only [argumentTailClose, htail, callClose_text c hcc, Option.map_some]
    have harg := argumentR_argText a hna lw hc0 C'
    rw [← hM] at harg
    simp only [LamHead.text, LamHead.args, List.cons_append, List.append_assoc]
    simp only [lambdaHead, argumentList, argumentR_paren, argumentListParen,
      layoutStar_run l0 _ hlay, harg, htc, harrow]

/-! #### the main lemma -/

/-- the argument / item list at `X` is read as `trees`, leaving `R` -/
def ArgsLex (lst : Bool) (X : List Char) (trees : List Expr) (R : List Char) : Prop :=
  ∃ f a more r1, argR lst f X = .ok (a, r1) ∧ argsTailR lst f r1 = .ok (more, R) ∧ trees = a :: more

theorem argR_of_ex (lst : Bool) {X R : List Char} {its : List PItem} {t : Expr} (sp : Bool)
    {x : Char} {tl : List Char} (hX : X = x :: tl) (hx : startChar x = true) {f : Nat}
    (he : exprR false f X = .ok (its, R)) (hp : prattParse its = some t) :
    argR lst (f + 1) (spreadChars sp ++ X) = .ok (argTree sp t, trailL lst R) := by
  have hne : x ≠ '.' := by intro e; subst e; revert hx; decide
  cases sp
  · simp only [spreadChars, Bool.false_eq_true, if_false, List.nil_append, argTree]
    rw [argR_succ, hX, lit_spread_none tl hne, ← hX, he]
    simp only [hp, trailL]
  · simp only [spreadChars, if_true, argTree]
    rw [argR_succ, lit_append]
    simp only [he, hp, trailL]

theorem termAtom_bracket (X : List Char) : termAtom ('[' :: X) = none := by
  have h1 : boolRule ('[' :: X) = none := by
    simp [boolRule, keyword, firstLit, trueLit, falseLit, lit]
  have h2 : nullRule ('[' :: X) = none := by
    simp [nullRule, keyword, firstLit, nullLit, lit]
  have h3 : identifier ('[' :: X) = none := identifier_none_of_start X (by decide)
  have h4 : plus isDigit ('[' :: X) = none := by
    have : isDigit '[' = false := by decide
    simp [plus, this]
  simp only [termAtom, h1, stringRule_none_of_head X (c := '[') (by decide) (by decide), h2, h3, h4]

theorem prefixUsage_bracket (X : List Char) : prefixUsage ('[' :: X) = none := by
  simp [prefixUsage, naturalPrefixLits_eq, prefixLits_eq, firstRule, lit]

theorem lamSafe_left {a b : List PItem} (h : LamSafe (a ++ b)) : LamSafe a :=
  fun op hm => h op (List.mem_append_left _ hm)
theorem lamSafe_right {a b : List PItem} (h : LamSafe (a ++ b)) : LamSafe b :=
  fun op hm => h op (List.mem_append_right _ hm)
theorem lamSafe_tail {x : PItem} {a : List PItem} (h : LamSafe (x :: a)) : LamSafe a :=
  fun op hm => h op (List.mem_cons_of_mem _ hm)

theorem endsOpen_of_left {c : Expr} {op : BinOp} (h : needsParens c (.binLeft op) = false) :
    endsOpen c = false := by
  unfold needsParens at h
  simp only [Bool.or_eq_false_iff] at h
  exact h.1

theorem endsOpen_of_postfix {c : Expr} (h : needsParens c .postfix_ = false) :
    endsOpen c = false := by
  unfold needsParens at h
  simp only [Bool.or_eq_false_iff] at h
  exact h.1

/-- a name is not taken for a prefix operator -/
theorem prefixUsage_name {n : String} (hn : nameOk n = true) {Y : List Char} (hb : Boundary Y) :
    prefixUsage (n.toList ++ Y) = none := by
  obtain ⟨hw, hnot⟩ := nameOk_facts hn
  refine prefixUsage_word hw.ne_nil hw.all ?_ hb
  intro e
  apply hnot
  rw [e]
  decide +kernel

theorem lamHead_prefix (hd : LamHead) (hnm : hd.namesOk = true) (w : Lay) (T : List Char) :
    prefixUsage (hd.text ++ (layChars w ++ '=' :: T)) = none := by
  have hbY : Boundary (layChars w ++ '=' :: T) := by
    obtain ⟨d, tl', hXX, hd⟩ := lay_head w '=' T
      (fun d => isIdentChar d = false) (by decide) (by decide) (by decide) (by decide) (by decide)
    rw [hXX]; exact boundary_cons hd
  simp only [LamHead.namesOk, Bool.and_eq_true, List.all_eq_true] at hnm
  cases hd with
  | unit l0 => exact prefixUsage_paren _
  | parens l0 a more c => exact prefixUsage_paren _
  | bare a =>
    have hna : nameOk a.name = true := hnm.1 a (by simp [LamHead.args])
    cases a with
    | rest n => simp at hnm
    | req n => exact prefixUsage_name hna hbY
    | opt n =>
      have : LamHead.text (.bare (.opt n)) ++ (layChars w ++ '=' :: T) =
          n.toList ++ '?' :: (layChars w ++ '=' :: T) := by simp [LamHead.text, argText]
      rw [this]
      exact prefixUsage_name hna (boundary_cons (by decide))

theorem ifHead_atom {e : Expr} (h : atomOk e = true) {rest : List Char} (hb : Boundary rest) :
    ifHead (atomText e ++ rest) = none := by
  obtain ⟨hne, hall, _, _⟩ := atom_word (e := e) h
  exact ifHead_word hall (atomText_ne_if h) hne hb

theorem ifHead_lamHead (hd : LamHead) (hnm : hd.namesOk = true) (w : Lay) (T : List Char) :
    ifHead (hd.text ++ (layChars w ++ '=' :: T)) = none := by
  have hbY : Boundary (layChars w ++ '=' :: T) := by
    obtain ⟨d, tl', hXX, hd⟩ := lay_head w '=' T
      (fun d => isIdentChar d = false) (by decide) (by decide) (by decide) (by decide) (by decide)
    rw [hXX]; exact boundary_cons hd
  simp only [LamHead.namesOk, Bool.and_eq_true, List.all_eq_true] at hnm
  have hname : ∀ n : String, nameOk n = true → ∀ Y, Boundary Y → ifHead (n.toList ++ Y) = none := by
    intro n hn Y hY
    obtain ⟨hw, hnot⟩ := nameOk_facts hn
    refine ifHead_word hw.all (fun e => hnot ?_) hw.ne_nil hY
    rw [e]; decide +kernel
  cases hd with
  | unit l0 => exact ifHead_none_of_head _ (by decide)
  | parens l0 a more c => exact ifHead_none_of_head _ (by decide)
  | bare a =>
    have hna : nameOk a.name = true := hnm.1 a (by simp [LamHead.args])
    cases a with
    | rest n => simp at hnm
    | req n => exact hname n hna _ hbY
    | opt n =>
      have : LamHead.text (.bare (.opt n)) ++ (layChars w ++ '=' :: T) =
          n.toList ++ '?' :: (layChars w ++ '=' :: T) := by simp [LamHead.text, argText]
      rw [this]
      exact hname n hna _ (boundary_cons (by decide))

theorem doHead_atom {e : Expr} (h : atomOk e = true) {rest : List Char} (hb : Boundary rest) :
    doHead (atomText e ++ rest) = none := by
  obtain ⟨hne, hall, _, _⟩ := atom_word (e := e) h
  exact doHead_word hall (atomText_ne_do h) hne hb

theorem doHead_lamHead (hd : LamHead) (hnm : hd.namesOk = true) (w : Lay) (T : List Char) :
    doHead (hd.text ++ (layChars w ++ '=' :: T)) = none := by
  have hbY : Boundary (layChars w ++ '=' :: T) := by
    obtain ⟨d, tl', hXX, hd⟩ := lay_head w '=' T
      (fun d => isIdentChar d = false) (by decide) (by decide) (by decide) (by decide) (by decide)
    rw [hXX]; exact boundary_cons hd
  simp only [LamHead.namesOk, Bool.and_eq_true, List.all_eq_true] at hnm
  have hname : ∀ n : String, nameOk n = true → ∀ Y, Boundary Y → doHead (n.toList ++ Y) = none := by
    intro n hn Y hY
    obtain ⟨hw, hnot⟩ := nameOk_facts hn
    refine doHead_word hw.all (fun e => hnot ?_) hw.ne_nil hY
    rw [e]; decide +kernel
  cases hd with
  | unit l0 => exact doHead_none_of_head _ (by decide)
  | parens l0 a more c => exact doHead_none_of_head _ (by decide)
  | bare a =>
    have hna : nameOk a.name = true := hnm.1 a (by simp [LamHead.args])
    cases a with
    | rest n => simp at hnm
    | req n => exact hname n hna _ hbY
    | opt n =>
      have : LamHead.text (.bare (.opt n)) ++ (layChars w ++ '=' :: T) =
          n.toList ++ '?' :: (layChars w ++ '=' :: T) := by simp [LamHead.text, argText]
      rw [this]
      exact hname n hna _ (boundary_cons (by decide))

/-- in front of `then` / `else` (behind layout) a term ends and nothing continues an expression -/
theorem kw_ends {kw : List Char} (h : kw = thenLit ∨ kw = elseLit) (l : Lay) (hl : l ≠ [])
    (T : List Char) : TEnd (layChars l ++ (kw ++ T)) ∧ Closes (layChars l ++ (kw ++ T)) := by
  have hhead : ∃ d tl, layChars l ++ (kw ++ T) = d :: tl ∧ isIdentChar d = false ∧
      (d ≠ '!' ∧ d ≠ '[' ∧ d ≠ '(' ∧ d ≠ '.') := by
    cases l with
    | nil => exact absurd rfl hl
    | cons a l' => cases a <;> exact ⟨_, _, rfl, by decide, by decide⟩
  obtain ⟨d, tl, hd, hd1, hd2, hd3, hd4, hd5⟩ := hhead
  have hnl : NoLam (kw ++ T) := by
    rcases h with rfl | rfl
    · exact noLam_of_head (c := 't') (by decide) (by decide) (by decide)
    · exact noLam_of_head (c := 'e') (by decide) (by decide) (by decide)
  refine ⟨⟨?_, noLam_lay l hnl⟩, ?_, fun lam => infixUsage_kw lam h l T⟩
  · rw [hd]; exact boundary_cons hd1
  · rw [hd]; exact postNone_of_char hd2 hd3 hd4 hd5

/-! #### records -/

theorem termAtom_brace (X : List Char) : termAtom ('{' :: X) = none := by
  have h1 : boolRule ('{' :: X) = none := by
    simp [boolRule, keyword, firstLit, trueLit, falseLit, lit]
  have h2 : nullRule ('{' :: X) = none := by
    simp [nullRule, keyword, firstLit, nullLit, lit]
  have h3 : identifier ('{' :: X) = none := identifier_none_of_start X (by decide)
  have h4 : plus isDigit ('{' :: X) = none := by
    have : isDigit '{' = false := by decide
    simp [plus, this]
  simp only [termAtom, h1, stringRule_none_of_head X (c := '{') (by decide) (by decide), h2, h3, h4]

theorem prefixUsage_brace (X : List Char) : prefixUsage ('{' :: X) = none := by
  simp [prefixUsage, naturalPrefixLits_eq, prefixLits_eq, firstRule, lit]

theorem lambdaHead_brace (X : List Char) : lambdaHead ('{' :: X) = none := by
  refine lambdaHead_noarg ?_ (fun r e => by cases e)
  simp [argumentR, identifier_none_of_start X (c := '{') (by decide), spreadLit_eq, lit]

theorem recordClose_text (c : Close) (hc : c.okList = true) (rest : List Char) :
    recordClose (itemTrail (c.text '}' ++ rest)) = some rest := by
  cases c with
  | plain l =>
    obtain ⟨l', hl', hs'⟩ := itemTrail_lay l (c := '}') rest (by decide)
    have hT : Close.text '}' (.plain l) ++ rest = layChars l ++ '}' :: rest := by simp [Close.text]
    rw [hT, hl', recordClose_eq]
    have hcm : listComma (layChars l' ++ '}' :: rest) = layChars l' ++ '}' :: rest := by
      unfold listComma
      rw [hs']
      split
      · rename_i r heq; exact absurd heq (lay_head_ne_comma l' rest (by decide) r)
      · rfl
    rw [hcm, gapH_run l' rest (by decide)]
    rfl
  | comma w l =>
    have hw : wsOnly w = true := hc
    have hT : Close.text '}' (.comma w l) ++ rest = layChars w ++ ',' :: (layChars l ++ '}' :: rest) := by
      simp [Close.text]
    rw [hT, itemTrail_ws w hw _ (by decide), recordClose_eq]
    have hcm : listComma (',' :: (layChars l ++ '}' :: rest)) = '}' :: rest := by
      unfold listComma
      rw [skipWs_cons _ (by decide)]
      exact wnStar_run l rest (by decide)
    rw [hcm]
    have := gapH_run [] (c := '}') rest (by decide)
    simp only [layChars, List.nil_append] at this
    rw [this]
    rfl

/-- what the text behind a record entry has to satisfy: it ends a term, continues no
    expression, and does not start (after blanks) with a colon -/
def EntStop (T : List Char) : Prop := TEnd T ∧ Closes T ∧ ∀ r, skipWs T ≠ ':' :: r

theorem entStop_stop (b : Lay) {c : Char} (rest : List Char) (hc : stopChar c = true) :
    EntStop (layChars b ++ c :: rest) := by
  refine ⟨tend_stop b rest hc, closes_stop b rest hc, ?_⟩
  obtain ⟨_, _, _, _, h5⟩ := stop_heads hc
  have hcc : c ≠ ':' := by
    simp only [stopChar, Bool.or_eq_true, beq_iff_eq] at hc
    rcases hc with ((rfl | rfl) | rfl) | rfl <;> decide
  obtain ⟨l', hl'⟩ := skipWs_lay b c rest h5
  obtain ⟨d, tl', hX, hd⟩ := lay_head l' c rest (fun d => d ≠ ':')
    (by decide) (by decide) (by decide) (by decide) hcc
  intro r e
  rw [hl', hX] at e
  simp only [List.cons.injEq] at e
  exact hd e.1

/-- … and behind the last entry: no further entry is read from it -/
def EntStopLast (T : List Char) : Prop :=
  EntStop T ∧ ∃ g, recTailR g (itemTrail T) = .ok ([], itemTrail T)

/-- the entry list at `X` is read as `trees`, leaving `R` -/
def EntsLex (X : List Char) (trees : List Entry) (R : List Char) : Prop :=
  ∃ f e more r1, recItemR f X = .ok (e, r1) ∧ recTailR f r1 = .ok (more, R) ∧ trees = e :: more

theorem recKeyR_nokey {c : Char} (X : List Char) (h1 : isIdentStart c = false) (h2 : c ≠ '"')
    (h3 : c ≠ '\'') (h4 : c ≠ '[') (f : Nat) : recKeyR (f + 1) (c :: X) = .fail := by
  rw [recKeyR_succ, identifier_none_of_start X h1, stringRule_none_of_head X h2 h3]
  simp only
  split
  · rename_i r1 heq; simp only [List.cons.injEq] at heq; exact absurd heq.1 h4
  · rfl

theorem recPairR_nokey {c : Char} (X : List Char) (h1 : isIdentStart c = false) (h2 : c ≠ '"')
    (h3 : c ≠ '\'') (h4 : c ≠ '[') (f : Nat) : recPairR (f + 2) (c :: X) = .fail := by
  rw [recPairR_succ, recKeyR_nokey X h1 h2 h3 h4]

theorem recItemR_brace (X : List Char) (f : Nat) : recItemR (f + 3) ('}' :: X) = .fail := by
  rw [recItemR_succ, recPairR_nokey X (by decide) (by decide) (by decide) (by decide)]
  simp only [identifier_none_of_start X (c := '}') (by decide), lit_spread_none X (c := '}') (by decide)]

theorem close_entStop (c : Close) (hc : c.okList = true) (rest : List Char) :
    EntStopLast (c.text '}' ++ rest) := by
  cases c with
  | plain l =>
    have hT : Close.text '}' (.plain l) ++ rest = layChars l ++ '}' :: rest := by simp [Close.text]
    rw [hT]
    refine ⟨entStop_stop l rest (by decide), 1, ?_⟩
    obtain ⟨l', h1, h2⟩ := itemTrail_lay l (c := '}') rest (by decide)
    rw [recTailR_succ, h1, h2]
    split
    · rename_i r heq; exact absurd heq (lay_head_ne_comma l' rest (by decide) r)
    · rfl
  | comma w l =>
    have hw : wsOnly w = true := hc
    have hT : Close.text '}' (.comma w l) ++ rest = layChars w ++ ',' :: (layChars l ++ '}' :: rest) := by
      simp [Close.text]
    rw [hT]
    refine ⟨entStop_stop w _ (by decide), 4, ?_⟩
    rw [itemTrail_ws w hw _ (c := ',') (by decide), recTailR_succ, skipWs_cons _ (by decide)]
    simp only [gapG_run l rest (c := '}') (by decide), recItemR_brace rest 0]

theorem notLayoutStart_of_identChar {x : Char} (hc : isIdentChar x = true) : notLayoutStart x = true := by
  obtain ⟨h1, h2, h3, h4, h5, _⟩ := isIdentChar_cases hc
  simp [notLayoutStart, *]

theorem ent_start : ∀ (e : Ent), CST.EntShaped e → CST.EntLayoutOk e →
    ∃ x tl, CST.entText e = x :: tl ∧ notLayoutStart x = true
  | .pairId k w l v, _, hl => by
    obtain ⟨x, tl, hx, hc⟩ := name_start (n := k) hl.1
    exact ⟨x, _, by simp only [CST.entText, hx, List.cons_append]; rfl, notLayoutStart_of_identChar hc⟩
  | .pairStr dq s w l v, _, _ => ⟨quoteChar dq, _, rfl, by cases dq <;> decide⟩
  | .pairDyn a e b w l v, _, _ => ⟨'[', _, rfl, by decide⟩
  | .short n, hs, _ => by
    obtain ⟨x, tl, hx, hc⟩ := name_start (n := n) hs
    exact ⟨x, tl, by simp only [CST.entText, hx], notLayoutStart_of_identChar hc⟩
  | .spread e, _, _ => ⟨'.', _, by simp only [CST.entText, spreadLit_eq, List.cons_append]; rfl, by decide⟩
  | .raw _, hs, _ => hs.elim

theorem ents_start : ∀ (es : Ents), CST.EntsShaped es → CST.EntsLayoutOk es →
    ∃ x tl, CST.entsText es = x :: tl ∧ notLayoutStart x = true
  | .last e, hs, hl => ent_start e hs hl
  | .cons e w l rest, hs, hl => by
    obtain ⟨x, tl, hx, hc⟩ := ent_start e hs.1 hl.1
    exact ⟨x, _, by simp only [CST.entsText, hx, List.cons_append]; rfl, hc⟩

/-- a `record_pair` from its parts: the key, blanks and the colon, layout, the value -/
theorem recItemR_pair {cs : List Char} {k : Key} {r1 X T : List Char} {v : CST} {g f : Nat}
    (hkey : recKeyR g cs = .ok (k, r1)) (hsk : skipWs r1 = ':' :: X)
    (hls : layoutStar X = v.text ++ T) (hv : exprR false f (v.text ++ T) = .ok (v.items, T))
    (hp : prattParse v.items = some v.tree) :
    recItemR (max f g + 2) cs = .ok (.mk [] k v.tree none, itemTrail T) := by
  rw [recItemR_succ, recPairR_succ, recKeyR_mono (Nat.le_max_right f g) hkey]
  simp only [hsk, hls, exprR_mono (Nat.le_max_left f g) hv, hp]

theorem boundary_lay_colon (w : Lay) (T : List Char) : Boundary (layChars w ++ ':' :: T) := by
  obtain ⟨d, tl', hXX, hd⟩ := lay_head w ':' T (fun d => isIdentChar d = false)
    (by decide) (by decide) (by decide) (by decide) (by decide)
  rw [hXX]; exact boundary_cons hd

/-! #### do-blocks -/

theorem naturalLits_identChars : ∀ x ∈ naturalLits, ∀ c ∈ x.2, isIdentChar c = true := by
  decide +kernel

theorem CST.wordOpText_false {w : List Char} (h : CST.wordOpText w = false) : ∀ x ∈ naturalLits, x.2 ≠ w := by
  intro x hx e
  have : CST.wordOpText w = true := by
    simp only [CST.wordOpText, List.any_eq_true, beq_iff_eq]
    exact ⟨x, hx, e⟩
  rw [h] at this; cases this

/-- a word that is none of the literals: where one of them is found at its start, no blank
    follows it -/
theorem firstRule_word_ws {L : List (String × List Char)}
    (hL : ∀ x ∈ L, ∀ c ∈ x.2, isIdentChar c = true) {w X : List Char}
    (hall : ∀ x ∈ w, isIdentChar x = true) (hb : Boundary X) (hnot : ∀ x ∈ L, x.2 ≠ w)
    {rule : String} {r : List Char} (h : firstRule L (w ++ X) = some (rule, r)) :
    wsPlus r = none := by
  obtain ⟨s, hs, he⟩ := firstRule_some h
  rcases List.append_eq_append_iff.mp he with ⟨a', hsa, hra⟩ | ⟨c', hwc, hrc⟩
  · cases a' with
    | nil => simp only [List.append_nil] at hsa; exact absurd hsa (hnot _ hs)
    | cons x a'' =>
      exfalso
      have hx : isIdentChar x = true := hL _ hs x (by rw [hsa]; simp)
      have := boundary_class hb isIdentChar (fun _ h => h) x (a'' ++ r) (by simpa using hra)
      rw [hx] at this; cases this
  · cases c' with
    | nil => simp only [List.append_nil] at hwc; exact absurd hwc.symm (hnot _ hs)
    | cons x c'' =>
      subst hrc
      have hx : isIdentChar x = true := hall x (by simp [hwc])
      obtain ⟨h1, h2, _⟩ := isIdentChar_cases hx
      simp [wsPlus, plus, isWs, h1, h2]

theorem infixLits_noIdentHead :
    (infixLits.all fun x => match x.2 with | [] => false | a :: _ => !isIdentChar a) = true := by
  decide +kernel

theorem headsNe_infix_identChar {c : Char} (h : isIdentChar c = true) : headsNe infixLits c = true := by
  simp only [headsNe, List.all_eq_true]
  intro x hx
  have := List.all_eq_true.mp infixLits_noIdentHead x hx
  split at this
  · cases this
  · rename_i a t e
    rw [e]
    simp only [bne_iff_ne, ne_eq]
    intro e'; subst e'
    simp [h] at this

/-- a word of identifier characters that is no word operator, behind any layout, is not taken
    for an operator -/
theorem infixUsage_word_none (lam : Bool) (g : Lay) {w X : List Char} (hne : w ≠ [])
    (hall : ∀ x ∈ w, isIdentChar x = true) (hb : Boundary X) (hnot : CST.wordOpText w = false) :
    infixUsage lam (layChars g ++ (w ++ X)) = none := by
  cases hw : w with
  | nil => exact absurd hw hne
  | cons c w' =>
    have hc : isIdentChar c = true := hall c (by rw [hw]; exact List.mem_cons_self)
    have hLA : layoutAtom (c :: w' ++ X) = none := layoutAtom_none (notLayoutStart_of_identChar hc)
    have hstar : layoutStar (layChars g ++ (c :: w' ++ X)) = c :: w' ++ X := layoutStar_run g _ hLA
    have h2 : firstRule infixLits (c :: w' ++ X) = none :=
      firstRule_none_of_headsNe (headsNe_infix_identChar hc)
    have hws : ∀ rule r1, firstRule (if lam then lamNaturalLits else naturalLits) (c :: w' ++ X) =
        some (rule, r1) → wsPlus r1 = none := by
      intro rule r1 hf
      rw [← hw] at hf
      cases lam with
      | false => exact firstRule_word_ws naturalLits_identChars hall hb (CST.wordOpText_false hnot) hf
      | true =>
        exact firstRule_word_ws (fun x hx => naturalLits_identChars x (lamNaturalLits_sub x hx)) hall hb
          (fun x hx => CST.wordOpText_false hnot x (lamNaturalLits_sub x hx)) hf
    unfold infixUsage
    cases g with
    | nil =>
      simp only [layChars, List.nil_append, layoutPlus_none hLA]
      have : layoutStar (c :: w' ++ X) = c :: w' ++ X := by simpa [layChars] using layoutStar_run [] _ hLA
      simp only [this, h2]
    | cons a g' =>
      rw [layoutPlus_run (a :: g') (by simp) _ hLA, hstar, h2]
      cases hf : firstRule (if lam then lamNaturalLits else naturalLits) (c :: w' ++ X) with
      | none => simp only [hf]
      | some p =>
        obtain ⟨rule, r1⟩ := p
        simp only [hf, hws rule r1 hf, Option.map_none]

theorem open_heads : ∀ c ∈ ['"', '\'', '(', '[', '{'],
    headsNe infixLits c = true ∧ headsNe naturalLits c = true ∧ notLayoutStart c = true := by
  decide +kernel

theorem infixLits_bang :
    (infixLits.all fun x => match x.2 with
      | [] => false
      | a :: t => a != '!' || (match t with | b :: _ => b == '=' | [] => false)) = true := by
  decide +kernel

theorem firstRule_none_of_lit {L : List (String × List Char)} {cs : List Char}
    (h : ∀ p ∈ L, lit p.2 cs = none) : firstRule L cs = none := by
  induction L with
  | nil => rfl
  | cons x L ih =>
    obtain ⟨r', s'⟩ := x
    simp only [firstRule, h (r', s') List.mem_cons_self]
    exact ih (fun p hp => h p (List.mem_cons_of_mem _ hp))

/-- `!x` behind any layout, `x` not `=`, is not taken for an operator -/
theorem infixUsage_bang (lam : Bool) (g : Lay) {x : Char} (tl : List Char) (hx : x ≠ '=') :
    infixUsage lam (layChars g ++ '!' :: x :: tl) = none := by
  have hLA : layoutAtom ('!' :: x :: tl) = none := layoutAtom_none (by decide)
  have h1 : firstRule (natTable lam) ('!' :: x :: tl) = none :=
    firstRule_none_of_headsNe (headsNe_nat lam (by decide +kernel))
  have h2 : firstRule infixLits ('!' :: x :: tl) = none := by
    apply firstRule_none_of_lit
    intro p hp
    have := List.all_eq_true.mp infixLits_bang p hp
    split at this
    · cases this
    · rename_i a t e
      rw [e]
      simp only [Bool.or_eq_true, bne_iff_ne, ne_eq] at this
      rcases this with ha | hb
      · have : ¬ (a = '!') := ha
        simp [lit, this]
      · cases t with
        | nil => cases hb
        | cons b t' =>
          simp only [beq_iff_eq] at hb
          subst hb
          have : ¬ ('=' = x) := fun e => hx e.symm
          by_cases ha : a = '!'
          · subst ha; simp [lit, this]
          · simp [lit, ha]
  have hpl : ∀ r, layoutPlus (layChars g ++ '!' :: x :: tl) = some r →
      firstRule (natTable lam) r = none := by
    intro r hr
    cases g with
    | nil => simp only [layChars, List.nil_append, layoutPlus_none hLA] at hr; cases hr
    | cons y g' =>
      rw [layoutPlus_run (y :: g') (by simp) _ hLA] at hr
      cases hr; exact h1
  rw [infixUsage_alt2 hpl, layoutStar_run g _ hLA, h2]
  rfl

theorem lay_ne_boundary {g : Lay} (hg : g ≠ []) (X : List Char) : Boundary (layChars g ++ X) := by
  cases g with
  | nil => exact absurd rfl hg
  | cons a g' => cases a <;> exact boundary_cons (by decide)

theorem postNone_lay_ne {g : Lay} (hg : g ≠ []) (X : List Char) : postNone (layChars g ++ X) := by
  cases g with
  | nil => exact absurd rfl hg
  | cons a g' =>
    cases a <;> exact postNone_of_char (by decide) (by decide) (by decide) (by decide)

/-- layout with a line break in it: no lambda head ends in front of it -/
theorem noLam_lay_nl : ∀ (g : Lay), (g.any fun a => !a.isWs) = true → ∀ X, NoLam (layChars g ++ X)
  | [], h, _ => by simp at h
  | a :: g', h, X => by
    cases a
    · have e : skipWs (layChars (LayAtom.sp :: g') ++ X) = skipWs (layChars g' ++ X) := by
        simp only [layChars, LayAtom.chars, List.cons_append, List.nil_append, List.append_assoc]
        exact skipWs_ws _ (by decide)
      have ih := noLam_lay_nl g' (by simpa [LayAtom.isWs] using h) X
      exact ⟨⟨fun ⟨r, hr⟩ => ih.1.1 ⟨r, e ▸ hr⟩, fun r1 hr => ih.1.2 r1 (e ▸ hr)⟩,
        fun r1 hr => ih.2 r1 (e ▸ hr)⟩
    · have e : skipWs (layChars (LayAtom.tab :: g') ++ X) = skipWs (layChars g' ++ X) := by
        simp only [layChars, LayAtom.chars, List.cons_append, List.nil_append, List.append_assoc]
        exact skipWs_ws _ (by decide)
      have ih := noLam_lay_nl g' (by simpa [LayAtom.isWs] using h) X
      exact ⟨⟨fun ⟨r, hr⟩ => ih.1.1 ⟨r, e ▸ hr⟩, fun r1 hr => ih.1.2 r1 (e ▸ hr)⟩,
        fun r1 hr => ih.2 r1 (e ▸ hr)⟩
    · simp only [layChars, LayAtom.chars, List.cons_append, List.nil_append, List.append_assoc]
      exact noLam_of_head (by decide) (by decide) (by decide)
    · simp only [layChars, LayAtom.chars, List.cons_append, List.nil_append, List.append_assoc]
      exact noLam_of_head (by decide) (by decide) (by decide)

theorem any_nl_ne {g : Lay} (h : (g.any fun a => !a.isWs) = true) : g ≠ [] := by
  intro e; subst e; simp at h

/-- a statement that may stand behind a line break (`headOk`) is not taken for the continuation
    of the expression before it -/
theorem infixUsage_headOk : ∀ (c : CST), c.headOk → c.Shaped → c.LayoutOk →
    ∀ (g : Lay) (X : List Char) (lam : Bool), Boundary X →
      infixUsage lam (layChars g ++ (c.text ++ X)) = none
  | .atom e, hh, hs, _ => by
    intro g X lam hb
    obtain ⟨hne, hall, _, _⟩ := atom_word (e := e) hs
    exact infixUsage_word_none lam g hne hall hb hh
  | .str dq s, _, _, _ => by
    intro g X lam _
    cases dq
    · obtain ⟨h1, h2, h3⟩ := open_heads '\'' (by simp)
      exact infixUsage_none_of_heads lam g '\'' _ h1 h2 h3
    · obtain ⟨h1, h2, h3⟩ := open_heads '"' (by simp)
      exact infixUsage_none_of_heads lam g '"' _ h1 h2 h3
  | .bin op l a b r, hh, hs, hl => by
    intro g X lam _
    obtain ⟨x, tl, hx, hsx⟩ := text_start r hs.2.1
    obtain ⟨_, _, hB⟩ := op_gap false op (fun e => by cases e) a b hl.2.2 x (tl ++ X) hsx
    have := infixUsage_headOk l hh hs.1 hl.1 g
      (layChars a ++ (spell op ++ (layChars b ++ x :: (tl ++ X)))) lam hB.1
    simpa only [CST.text, hx, List.append_assoc, List.cons_append] using this
  | .un op e, hh, hs, _ => by
    intro g X lam _
    have hop : op = .not := hh
    subst hop
    obtain ⟨x, tl, hx, hsx⟩ := text_start e hs.2.1
    have := infixUsage_bang lam g (x := x) (tl ++ X) (startChar_facts hsx).2.1
    have ht : (CST.un .not e).text ++ X = '!' :: x :: (tl ++ X) := by
      simp only [CST.text, hx, List.cons_append, List.append_assoc]; rfl
    rw [ht]; exact this
  | .fact e, hh, hs, hl => by
    intro g X lam _
    have := infixUsage_headOk e hh hs.1 hl g ('!' :: X) lam (boundary_cons (by decide))
    simpa only [CST.text, List.append_assoc, List.cons_append, List.nil_append] using this
  | .paren a e b, _, _, _ => by
    intro g X lam _
    obtain ⟨h1, h2, h3⟩ := open_heads '(' (by simp)
    exact infixUsage_none_of_heads lam g '(' _ h1 h2 h3
  | .call0 f l, hh, hs, hl => by
    intro g X lam _
    have := infixUsage_headOk f hh hs.1 hl g ('(' :: (layChars l ++ ')' :: X)) lam
      (boundary_cons (by decide))
    simpa only [CST.text, List.append_assoc, List.cons_append, List.nil_append] using this
  | .call f l as c, hh, hs, hl => by
    intro g X lam _
    have := infixUsage_headOk f hh hs.1 hl.1 g
      ('(' :: (layChars l ++ (CST.argsText as ++ (c.text ')' ++ X)))) lam (boundary_cons (by decide))
    simpa only [CST.text, List.append_assoc, List.cons_append, List.nil_append] using this
  | .access e a i b, hh, hs, hl => by
    intro g X lam _
    have := infixUsage_headOk e hh hs.1 hl.1 g
      ('[' :: (layChars a ++ (i.text ++ (layChars b ++ ']' :: X)))) lam (boundary_cons (by decide))
    simpa only [CST.text, List.append_assoc, List.cons_append, List.nil_append] using this
  | .dot e n, hh, hs, hl => by
    intro g X lam _
    have := infixUsage_headOk e hh hs.1 hl g ('.' :: (n.toList ++ X)) lam (boundary_cons (by decide))
    simpa only [CST.text, List.append_assoc, List.cons_append, List.nil_append] using this
  | .list0 l, _, _, _ => by
    intro g X lam _
    obtain ⟨h1, h2, h3⟩ := open_heads '[' (by simp)
    exact infixUsage_none_of_heads lam g '[' _ h1 h2 h3
  | .list l as c, _, _, _ => by
    intro g X lam _
    obtain ⟨h1, h2, h3⟩ := open_heads '[' (by simp)
    exact infixUsage_none_of_heads lam g '[' _ h1 h2 h3
  | .rec0 l, _, _, _ => by
    intro g X lam _
    obtain ⟨h1, h2, h3⟩ := open_heads '{' (by simp)
    exact infixUsage_none_of_heads lam g '{' _ h1 h2 h3
  | .record l es c, _, _, _ => by
    intro g X lam _
    obtain ⟨h1, h2, h3⟩ := open_heads '{' (by simp)
    exact infixUsage_none_of_heads lam g '{' _ h1 h2 h3
  | .cond w c l1 l2 t l3 l4 e, _, _, hl => by
    intro g X lam _
    have hw : w ≠ [] := hl.1.1
    have := infixUsage_word_none lam g (w := ['i', 'f']) (by simp) (by decide)
      (lay_ne_boundary hw (c.text ++ (layChars l1 ++ (thenLit ++ (layChars l2 ++ (t.text ++
        (layChars l3 ++ (elseLit ++ (layChars l4 ++ (e.text ++ X))))))))))
      (by decide +kernel)
    simpa only [CST.text, List.append_assoc, List.cons_append, List.nil_append] using this
  | .doB l0 l1 ss w e l2, _, _, hl => by
    intro g X lam _
    have hl0 : l0 ≠ [] := hl.1.1
    have := infixUsage_word_none lam g (w := ['d', 'o']) (by simp) (by decide)
      (lay_ne_boundary hl0 ('{' :: (layChars l1 ++ (CST.stmtsText ss ++ (retLit ++ (layChars w ++
        (e.text ++ (layChars l2 ++ '}' :: X))))))))
      (by decide +kernel)
    simpa only [CST.text, List.append_assoc, List.cons_append, List.nil_append] using this
  | .asg n w l v, hh, hs, _ => by
    intro g X lam _
    obtain ⟨hshape, _⟩ := nameOk_facts hs.1
    have hbd : Boundary (layChars w ++ '=' :: (layChars l ++ (v.text ++ X))) := by
      obtain ⟨d, tl', hXX, hd⟩ := lay_head w '=' (layChars l ++ (v.text ++ X))
        (fun d => isIdentChar d = false) (by decide) (by decide) (by decide) (by decide) (by decide)
      rw [hXX]; exact boundary_cons hd
    have := infixUsage_word_none lam g hshape.ne_nil hshape.all hbd hh
    simpa only [CST.text, List.append_assoc, List.cons_append] using this
  | .lambda hd w l b, hh, hs, hl => by
    intro g X lam _
    have hnm := hs.1
    cases hd with
    | unit l0 =>
      obtain ⟨h1, h2, h3⟩ := open_heads '(' (by simp)
      exact infixUsage_none_of_heads lam g '(' _ h1 h2 h3
    | parens l0 a more c =>
      obtain ⟨h1, h2, h3⟩ := open_heads '(' (by simp)
      exact infixUsage_none_of_heads lam g '(' _ h1 h2 h3
    | bare a =>
      simp only [LamHead.namesOk, LamHead.args, List.all_cons, List.all_nil, Bool.and_true,
        Bool.and_eq_true] at hnm
      have hho : CST.wordOpText a.name.toList = false := by
        have : CST.lamHeadOk [a] = true := hh
        simpa [CST.lamHeadOk] using this
      obtain ⟨hshape, _⟩ := nameOk_facts hnm.1
      cases a with
      | rest n => simp at hnm
      | req n =>
        have hbd : Boundary (layChars w ++ '=' :: '>' :: (layChars l ++ (b.text ++ X))) := by
          obtain ⟨d, tl', hXX, hd⟩ := lay_head w '=' ('>' :: (layChars l ++ (b.text ++ X)))
            (fun d => isIdentChar d = false) (by decide) (by decide) (by decide) (by decide) (by decide)
          rw [hXX]; exact boundary_cons hd
        have := infixUsage_word_none lam g hshape.ne_nil hshape.all hbd hho
        simpa only [CST.text, LamHead.text, argText, LArg.name, List.append_assoc, List.cons_append]
          using this
      | opt n =>
        have := infixUsage_word_none lam g hshape.ne_nil hshape.all
          (X := '?' :: (layChars w ++ '=' :: '>' :: (layChars l ++ (b.text ++ X))))
          (boundary_cons (by decide)) hho
        simpa only [CST.text, LamHead.text, argText, LArg.name, List.append_assoc, List.cons_append,
          List.nil_append] using this

/-! the fixed parts of a do-block on given texts -/

theorem doHead_run (l0 l1 : Lay) (h0 : l0 ≠ []) {c : Char} (rest : List Char)
    (hc : notLayoutStart c = true) :
    doHead ('d' :: 'o' :: (layChars l0 ++ '{' :: (layChars l1 ++ c :: rest))) = some (c :: rest) := by
  cases l0 with
  | nil => exact absurd rfl h0
  | cons a l0' =>
    have hw : wnPlus (layChars (a :: l0') ++ '{' :: (layChars l1 ++ c :: rest)) =
        some ('{' :: (layChars l1 ++ c :: rest)) := by
      simp only [wnPlus, layChars, List.append_assoc, wnAtom_atom, Option.map_some,
        wnStar_run l0' _ (c := '{') (by decide)]
    simp only [doHead, lit, if_true, hw, gapG_run l1 rest hc]

theorem retHead_run (w : Lay) (hw : w ≠ []) (hws : wsOnly w = true) (x : Char) (tl : List Char)
    (hx : isWs x = false) : retHead (retLit ++ (layChars w ++ x :: tl)) = some (x :: tl) := by
  have hsk : skipWs (retLit ++ (layChars w ++ x :: tl)) = retLit ++ (layChars w ++ x :: tl) :=
    skipWs_head _ (by decide)
  simp only [retHead, hsk]
  show (match lit retLit (retLit ++ (layChars w ++ x :: tl)) with
    | some r => wsPlus r | none => none) = some (x :: tl)
  rw [lit_append]
  exact wsPlus_run w hw hws x tl hx

/-- no expression starts at `return` -/
theorem exprR_return {Y : List Char} (hb : Boundary Y) (f : Nat) :
    exprR false (f + 4) (retLit ++ Y) = .fail := by
  have hall : ∀ x ∈ retLit, isIdentChar x = true := by decide
  have hp : prefixUsage (retLit ++ Y) = none :=
    prefixUsage_word (w := retLit) (by decide) hall (by decide) hb
  have hid : identifier (retLit ++ Y) = none := by
    have hf : firstLit reservedLits (retLit ++ Y) = some (retLit, Y) := by
      simp [firstLit, reservedLits, Gen.grammarReserved, retLit, lit]
    have hk := keyword_isSome_of_firstLit hf hb
    simp only [retLit, List.cons_append, List.nil_append] at hk ⊢
    simp [identifier, hk]
  have hta : termAtom (retLit ++ Y) = none := by
    have h1 : boolRule (retLit ++ Y) = none := by
      simp [retLit, boolRule, keyword, firstLit, trueLit, falseLit, lit]
    have h2 : nullRule (retLit ++ Y) = none := by
      simp [retLit, nullRule, keyword, firstLit, nullLit, lit]
    have h4 : plus isDigit (retLit ++ Y) = none := by
      have : isDigit 'r' = false := by decide
      simp [retLit, plus, this]
    simp only [termAtom, h1, stringRule_none_word (w := retLit) (by decide) hall Y, h2, hid, h4]
  have ht2 : term2R (f + 1) (retLit ++ Y) = .fail := by
    rw [term2R_succ, hta]
    simp only [retLit, List.cons_append, List.nil_append]
    split
    · rename_i r1 heq; simp at heq
    · rename_i r1 heq; simp at heq
    · rename_i r1 heq; simp at heq
    · rfl
  have hlam : lambdaHead (retLit ++ Y) = none := by
    refine lambdaHead_noarg ?_ (fun r e => by simp [retLit] at e)
    simp only [argumentR, hid]
    simp [retLit, spreadLit_eq, lit]
  have ht : termR (f + 2) (retLit ++ Y) = .fail := by
    rw [termR_succ, condR_succ,
      show ifHead (retLit ++ Y) = none from ifHead_none_of_head _ (by decide), doR_succ,
      show doHead (retLit ++ Y) = none from doHead_none_of_head _ (by decide), lamR_succ, hlam,
      asgR_succ, asgHead_none_of_ident hid]
    exact ht2
  rw [exprR_succ, operandR_succ, prefixStar_none hp, ht]

/-- a greedy run of line breaks consumes a prefix of a layout string -/
theorem star_plainNewline_lay (n : Nat) (l : Lay) {c : Char} (rest : List Char)
    (hc : notLayoutStart c = true) :
    ∃ l2, star plainNewline n (layChars l ++ c :: rest) = layChars l2 ++ c :: rest := by
  induction n generalizing l with
  | zero => exact ⟨l, rfl⟩
  | succ m ih =>
    cases l with
    | nil =>
      refine ⟨[], ?_⟩
      have : plainNewline (c :: rest) = none := by
        have := (list_atoms_none (r := rest) hc).1
        simp only [wnAtom, orElse] at this
        split at this
        · cases this
        · exact this
      simp only [layChars, List.nil_append, star, this]
    | cons a l' =>
      cases a
      · exact ⟨.sp :: l', by simp [star, layChars, LayAtom.chars, plainNewline, orElse, lit]⟩
      · exact ⟨.tab :: l', by simp [star, layChars, LayAtom.chars, plainNewline, orElse, lit]⟩
      · obtain ⟨l2, h2⟩ := ih l'
        exact ⟨l2, by simpa [star, layChars, LayAtom.chars, plainNewline, orElse, lit] using h2⟩
      · obtain ⟨l2, h2⟩ := ih l'
        exact ⟨l2, by simpa [star, layChars, LayAtom.chars, plainNewline, orElse, lit] using h2⟩

/-- behind a statement: blanks, `;`, any layout -/
theorem stmtSep_semi (w l : Lay) (hw : wsOnly w = true) {c : Char} (rest : List Char)
    (hc : notLayoutStart c = true) :
    (stmtSep (skipWs (itemTrail (layChars w ++ ';' :: (layChars l ++ c :: rest))))).map gapG =
      some (c :: rest) := by
  rw [itemTrail_ws w hw _ (c := ';') (by decide), skipWs_cons _ (by decide)]
  have : plainNewline (';' :: (layChars l ++ c :: rest)) = none := by
    simp [plainNewline, orElse, lit]
  simp only [stmtSep, this, Option.map_some, gapG_run l rest hc]

/-- … or a layout string with a line break in it -/
theorem stmtSep_line (g : Lay) (hg : (g.any fun a => !a.isWs) = true) {c : Char} (rest : List Char)
    (hc : notLayoutStart c = true) :
    (stmtSep (skipWs (itemTrail (layChars g ++ c :: rest)))).map gapG = some (c :: rest) := by
  obtain ⟨w', nl, l', rfl, hw', hnl⟩ := lay_split_nl g hg
  have hws : isWs c = false := by
    simp only [notLayoutStart, Bool.not_eq_true', Bool.or_eq_false_iff, beq_eq_false_iff_ne,
      ne_eq] at hc
    simp [isWs, hc.1.1.1.1, hc.1.1.1.2]
  have h1 : skipWs (layChars (w' ++ nl :: l') ++ c :: rest) = nl.chars ++ (layChars l' ++ c :: rest) := by
    simp only [layChars_append, layChars, List.append_assoc]
    cases nl <;> simp [LayAtom.isWs] at hnl
    · exact skipWs_run w' hw' '\n' _ (by decide)
    · exact skipWs_run w' hw' '\r' _ (by decide)
  have hit : itemTrail (layChars (w' ++ nl :: l') ++ c :: rest) =
      nl.chars ++ (layChars l' ++ c :: rest) := by
    unfold itemTrail
    rw [h1, inlineComment_atom]
  have hsk : skipWs (nl.chars ++ (layChars l' ++ c :: rest)) = nl.chars ++ (layChars l' ++ c :: rest) := by
    cases nl <;> simp [LayAtom.isWs] at hnl <;> exact skipWs_head _ (by decide)
  have hpn : plainNewline (nl.chars ++ (layChars l' ++ c :: rest)) = some (layChars l' ++ c :: rest) := by
    cases nl <;> simp [LayAtom.isWs] at hnl <;> simp [LayAtom.chars, plainNewline, orElse, lit]
  obtain ⟨l2, h2⟩ := star_plainNewline_lay ((layChars l' ++ c :: rest).length + 1) l' rest hc
  rw [hit, hsk]
  simp only [stmtSep, hpn, Option.map_some, h2, gapG_run l2 rest hc]

theorem sep_boundary (sep : Sep) (hs : sep.ok = true) (Z : List Char) : Boundary (sep.text ++ Z) := by
  cases sep with
  | semi w l =>
    obtain ⟨d, tl', hXX, hd⟩ := lay_head w ';' (layChars l ++ Z) (fun d => isIdentChar d = false)
      (by decide) (by decide) (by decide) (by decide) (by decide)
    have : Sep.text (.semi w l) ++ Z = layChars w ++ ';' :: (layChars l ++ Z) := by simp [Sep.text]
    rw [this, hXX]; exact boundary_cons hd
  | line g =>
    exact lay_ne_boundary (any_nl_ne hs) Z

theorem semi_heads : headsNe infixLits ';' = true ∧ headsNe naturalLits ';' = true := by
  decide +kernel

/-- first character of the statements and the `return` behind them -/
theorem stmts_start : ∀ (ss : Stmts), CST.StmtsShaped ss → ∀ Y,
    ∃ x tl, CST.stmtsText ss ++ (retLit ++ Y) = x :: tl ∧ notLayoutStart x = true
  | .nil, _, Y => ⟨'r', _, rfl, by decide⟩
  | .cons s sep rest, hs, Y => by
    obtain ⟨x, tl, hx, hsx⟩ := text_start s hs.1
    exact ⟨x, _, by simp only [CST.stmtsText, hx, List.append_assoc, List.cons_append]; rfl,
      (startChar_facts hsx).1⟩

/-! #### string literals -/

theorem prefixUsage_quote (dq : Bool) (X : List Char) : prefixUsage (quoteChar dq :: X) = none := by
  cases dq <;> simp [quoteChar, prefixUsage, naturalPrefixLits_eq, prefixLits_eq, firstRule, lit]

theorem lambdaHead_quote (dq : Bool) (X : List Char) : lambdaHead (quoteChar dq :: X) = none := by
  refine lambdaHead_noarg ?_ (fun r e => by cases dq <;> cases e)
  cases dq
  · simp [quoteChar, argumentR, identifier_none_of_start X (c := '\'') (by decide), spreadLit_eq, lit]
  · simp [quoteChar, argumentR, identifier_none_of_start X (c := '"') (by decide), spreadLit_eq, lit]

/-- a string literal whose quote character does not occur in it is read back by `term` -/
theorem termAtom_string (dq : Bool) (s : String) (h : s.toList.contains (quoteChar dq) = false)
    (rest : List Char) :
    termAtom (quoteChar dq :: (s.toList ++ quoteChar dq :: rest)) = some (.str s, rest) := by
  have hb : boolRule (quoteChar dq :: (s.toList ++ quoteChar dq :: rest)) = none := by
    cases dq <;> simp [quoteChar, boolRule, keyword, firstLit, trueLit, falseLit, lit]
  have hs := stringRule_quoted dq s.toList rest (by simpa using h)
  simp only [termAtom, hb, hs, String.ofList_toList]

mutual
/-- MAIN LEMMA (unbounded depth): in front of any `rest` that ends a term (it continues
    neither a word nor a lambda head) and — when the tree ends with a lambda body — continues no
    expression, and whatever happens after it (`After`: postfix operators, then the operator
    tail), the `expression` rule (`lam = false`) / the `lambda_expression` rule (`lam = true`,
    for a tree without `via` / `into` / `where` at its top level) splits the text of a
    well-formed CST into exactly its items. -/
theorem lex_cst : ∀ (lam : Bool) (c : CST), c.Shaped → c.LayoutOk → (lam = true → LamSafe c.items) →
    ∀ rest its r, TEnd rest → (c.isParen = false → endsOpen c.tree = true → Closes rest) →
    After lam rest its r → EX lam (c.text ++ rest) (c.items ++ its) r
  | lam, .atom e, h, _, _ => by
    intro rest its r hb _ hk
    obtain ⟨hne, hall, hnot, hterm⟩ := atom_word (e := e) h
    have hp : prefixStar (atomText e ++ rest) = ([], atomText e ++ rest) :=
      prefixStar_none (prefixUsage_word hne hall hnot hb.1)
    have ht2 : term2R 1 (atomText e ++ rest) = .ok (e, rest) := by
      rw [term2R_succ, hterm rest hb.1]
    exact ex_of_term hp (termR_of_term2' (ifHead_atom h hb.1) (doHead_atom h hb.1)
      (lambdaHead_atom h hb) (asgHead_atom h hb) ht2) hk
  | lam, .str dq s, _, hl, _ => by
    intro rest its r hb _ hk
    have ht2 : term2R 1 (quoteChar dq :: (s.toList ++ quoteChar dq :: rest)) = .ok (.str s, rest) := by
      rw [term2R_succ, termAtom_string dq s hl rest]
    have := ex_of_term (prefixStar_none (prefixUsage_quote dq _))
      (termR_of_term2 (ifHead_none_of_head _ (by cases dq <;> decide))
        (doHead_none_of_head _ (by cases dq <;> decide)) (lambdaHead_quote dq _)
        (asgHead_none_of_start _ (by cases dq <;> decide)) ht2) hk
    simp only [CST.text, CST.items, List.append_assoc, List.cons_append, List.nil_append,
      List.singleton_append] at this ⊢
    exact this
  | lam, .bin op l a b r, h, hl, hls => by
    intro rest its r' hb hco hk
    obtain ⟨hsl, hsr, hnl, _⟩ := h
    obtain ⟨hll, hlr, hlo⟩ := hl
    obtain ⟨x, tl, hx, hsx⟩ := text_start r hsr
    have hop : lam = true → isChain op = false := fun e =>
      hls e op (by simp [CST.items])
    have exr := lex_cst lam r hsr hlr (fun e => lamSafe_tail (lamSafe_right (hls e))) rest its r' hb
      (fun hp ho => hco rfl (by simpa [CST.tree, endsOpen] using ho)) hk
    obtain ⟨hi, hY, hB⟩ := op_gap lam op hop a b hlo x (tl ++ rest) hsx
    have hk' := after_infix hi hY (by rw [hx, List.cons_append] at exr; exact exr)
    have := lex_cst lam l hsl hll (fun e => lamSafe_left (hls e)) _ _ r' hB
      (fun hp ho => by rw [endsOpen_of_left (hnl hp)] at ho; cases ho) hk'
    simp only [CST.text, CST.items, List.append_assoc, List.cons_append, hx]
    exact this
  | lam, .un op e, h, hl, hls => by
    intro rest its r hb hco hk
    obtain ⟨hop, hse, _⟩ := h
    have ih := lex_cst lam e hse hl (fun e' => lamSafe_tail (hls e')) rest its r hb
      (fun hp ho => hco rfl (by simpa [CST.tree, endsOpen] using ho)) hk
    cases op with
    | negate => exact ex_prefix (prefixUsage_minus _) ih
    | not => exact ex_prefix (prefixUsage_bang _) ih
    | invert => exact absurd rfl hop
  | lam, .fact e, h, hl, hls => by
    intro rest its r hb _ hk
    have ih := lex_cst lam e h.1 hl (fun e' => lamSafe_left (hls e')) ('!' :: rest)
      (.postFact :: its) r (tend_cons (by decide) (by decide) (by decide) (by decide))
      (fun hp ho => by rw [endsOpen_of_postfix (h.2 hp)] at ho; cases ho)
      (after_post (postOpR_bang 0 rest) hk)
    simp only [CST.text, CST.items, List.append_assoc, List.singleton_append]
    exact ih
  | lam, .paren a e b, h, hl, _ => by
    intro rest its r hb _ hk
    have hse : e.Shaped := h
    obtain ⟨x, tl, hx, hsx⟩ := text_start e hse
    obtain ⟨f, hf⟩ := lex_cst false e hse hl (fun e' => by cases e') (layChars b ++ ')' :: rest) [] _
      (tend_stop b rest (by decide)) (fun _ _ => closes_stop b rest (by decide))
      (after_stop false b rest (by decide))
    simp only [List.append_nil] at hf
    have hla : layoutAtom (e.text ++ (layChars b ++ ')' :: rest)) = none := by
      rw [hx, List.cons_append]; exact layoutAtom_none (startChar_facts hsx).1
    have ht2 : term2R (f + 1) ('(' :: (layChars a ++ (e.text ++ (layChars b ++ ')' :: rest)))) =
        .ok (e.tree, rest) := by
      rw [term2R_succ]
      simp only [termAtom_paren, layoutStar_run a _ hla, hf,
        layoutStar_run b _ (layoutAtom_none (c := ')') (by decide)), cst_pratt e hse]
    have := ex_of_term (prefixStar_none (prefixUsage_paren _))
      (termR_of_term2 (ifHead_none_of_head _ (by decide)) (doHead_none_of_head _ (by decide))
        (lambdaHead_paren a e b rest hse hl hb.2) (asgHead_none_of_start _ (by decide)) ht2) hk
    simp only [CST.text, CST.items, List.append_assoc, List.cons_append, List.nil_append] at this ⊢
    exact this
  | lam, .call0 f l, h, hl, hls => by
    intro rest its r hb _ hk
    obtain ⟨hsf, hnf⟩ := h
    have hq : postOpR 6 ('(' :: (layChars l ++ ')' :: rest)) = .ok (.postCall [], rest) := by
      rw [postOpR_succ, firstRule_postfix_none _ (by decide)]
      have hc := callClose_text (.plain []) rfl rest
      simp only [Close.text, layChars, List.nil_append, List.singleton_append] at hc
      simp only [layoutStar_run l _ (layoutAtom_none (c := ')') (by decide)),
        argR_stop false (c := ')') rest (by decide) 0, hc]
    have ih := lex_cst lam f hsf hl (fun e' => lamSafe_left (hls e'))
      ('(' :: (layChars l ++ ')' :: rest)) (.postCall [] :: its) r
      (tend_cons (by decide) (by decide) (by decide) (by decide))
      (fun hp ho => by rw [endsOpen_of_postfix (hnf hp)] at ho; cases ho) (after_post hq hk)
    simp only [CST.text, CST.items, List.append_assoc, List.cons_append, List.singleton_append,
      List.nil_append] at ih ⊢
    exact ih
  | lam, .call f l as c, h, hl, hls => by
    intro rest its r hb _ hk
    obtain ⟨hsf, hnf, hsa⟩ := h
    obtain ⟨hlf, hla, hlc⟩ := hl
    obtain ⟨g, a, more, r1, ha, hm, htr⟩ :=
      lex_args false as hsa hla (c.text ')' ++ rest) (close_argStop false c hlc rest)
    obtain ⟨x, tl, hx, hsx⟩ := args_start as hsa
    have hq : postOpR (g + 1) ('(' :: (layChars l ++ (CST.argsText as ++ (c.text ')' ++ rest)))) =
        .ok (.postCall (CST.argsTrees as), rest) := by
      rw [postOpR_succ, firstRule_postfix_none _ (by decide)]
      have hlay : layoutAtom (CST.argsText as ++ (c.text ')' ++ rest)) = none := by
        rw [hx, List.cons_append]; exact layoutAtom_none (notLayoutStart_of_argStart hsx)
      simp only [trailL, Bool.false_eq_true, if_false] at hm
      simp only [layoutStar_run l _ hlay, ha, hm, callClose_text c hlc rest, htr]
    have ih := lex_cst lam f hsf hlf (fun e' => lamSafe_left (hls e')) _
      (.postCall (CST.argsTrees as) :: its) r
      (tend_cons (d := '(') (by decide) (by decide) (by decide) (by decide))
      (fun hp ho => by rw [endsOpen_of_postfix (hnf hp)] at ho; cases ho) (after_post hq hk)
    simp only [CST.text, CST.items, List.append_assoc, List.cons_append, List.singleton_append,
      List.nil_append] at ih ⊢
    exact ih
  | lam, .access e a i b, h, hl, hls => by
    intro rest its r hb _ hk
    obtain ⟨hse, hne, hsi⟩ := h
    obtain ⟨hle, hli, hna, hnb⟩ := hl
    obtain ⟨x, tl, hx, hsx⟩ := text_start i hsi
    obtain ⟨g, hg⟩ := lex_cst false i hsi hli (fun e' => by cases e') (layChars b ++ ']' :: rest) [] _
      (tend_stop b rest (by decide)) (fun _ _ => closes_stop b rest (by decide))
      (after_stop false b rest (by decide))
    simp only [List.append_nil] at hg
    have hq : postOpR (g + 1) ('[' :: (layChars a ++ (i.text ++ (layChars b ++ ']' :: rest)))) =
        .ok (.postAccess i.tree, rest) := by
      rw [postOpR_succ, firstRule_postfix_none _ (by decide)]
      have hn1 : newline (i.text ++ (layChars b ++ ']' :: rest)) = none := by
        rw [hx, List.cons_append]
        exact newline_none_of_layoutAtom (layoutAtom_none (startChar_facts hsx).1)
      have hn2 : newline (']' :: rest) = none :=
        newline_none_of_layoutAtom (layoutAtom_none (c := ']') (by decide))
      simp only [nlStar_run a _ hna hn1, hg, nlStar_run b _ hnb hn2, cst_pratt i hsi]
    have ih := lex_cst lam e hse hle (fun e' => lamSafe_left (hls e')) _
      (.postAccess i.tree :: its) r
      (tend_cons (d := '[') (by decide) (by decide) (by decide) (by decide))
      (fun hp ho => by rw [endsOpen_of_postfix (hne hp)] at ho; cases ho) (after_post hq hk)
    simp only [CST.text, CST.items, List.append_assoc, List.cons_append, List.singleton_append,
      List.nil_append] at ih ⊢
    exact ih
  | lam, .dot e n, h, hl, hls => by
    intro rest its r hb _ hk
    obtain ⟨hse, hne, hn⟩ := h
    have ih := lex_cst lam e hse hl (fun e' => lamSafe_left (hls e')) _ (.postDot n :: its) r
      (tend_cons (d := '.') (by decide) (by decide) (by decide) (by decide))
      (fun hp ho => by rw [endsOpen_of_postfix (hne hp)] at ho; cases ho)
      (after_post (postOpR_dot 0 hn hb.1) hk)
    simp only [CST.text, CST.items, List.append_assoc, List.cons_append, List.singleton_append,
      List.nil_append] at ih ⊢
    exact ih
  | lam, .list0 l, _, _, _ => by
    intro rest its r hb _ hk
    have ht2 : term2R 6 ('[' :: (layChars l ++ ']' :: rest)) = .ok (.list [], rest) := by
      rw [term2R_succ]
      have hc := listClose_text (.plain []) rfl rest
      have hit : itemTrail (']' :: rest) = ']' :: rest := by
        have := itemTrail_ws [] rfl (c := ']') rest (by decide)
        simpa [layChars] using this
      simp only [Close.text, layChars, List.nil_append, List.singleton_append, hit] at hc
      simp only [termAtom_bracket, gapG_run l rest (c := ']') (by decide),
        argR_stop true (c := ']') rest (by decide) 0, hc]
    have := ex_of_term (prefixStar_none (prefixUsage_bracket _))
      (termR_of_term2 (ifHead_none_of_head _ (by decide)) (doHead_none_of_head _ (by decide))
        (lambdaHead_bracket _) (asgHead_none_of_start _ (by decide)) ht2) hk
    simp only [CST.text, CST.items, List.append_assoc, List.cons_append, List.nil_append,
      List.singleton_append] at this ⊢
    exact this
  | lam, .list l as c, h, hl, _ => by
    intro rest its r hb _ hk
    have hsa : CST.ArgsShaped as := h
    obtain ⟨hla, hlc⟩ := hl
    obtain ⟨g, a, more, r1, ha, hm, htr⟩ :=
      lex_args true as hsa hla (c.text ']' ++ rest) (close_argStop true c hlc rest)
    obtain ⟨x, tl, hx, hsx⟩ := args_start as hsa
    have ht2 : term2R (g + 1) ('[' :: (layChars l ++ (CST.argsText as ++ (c.text ']' ++ rest)))) =
        .ok (.list (mkItems (CST.argsTrees as)), rest) := by
      rw [term2R_succ]
      have hgap : gapG (layChars l ++ (CST.argsText as ++ (c.text ']' ++ rest))) =
          CST.argsText as ++ (c.text ']' ++ rest) := by
        rw [hx, List.cons_append]; exact gapG_run l _ (notLayoutStart_of_argStart hsx)
      simp only [trailL, if_true] at hm
      simp only [termAtom_bracket, hgap, ha, hm, listClose_text c hlc rest, htr]
    have := ex_of_term (prefixStar_none (prefixUsage_bracket _))
      (termR_of_term2 (ifHead_none_of_head _ (by decide)) (doHead_none_of_head _ (by decide))
        (lambdaHead_bracket _) (asgHead_none_of_start _ (by decide)) ht2) hk
    simp only [CST.text, CST.items, List.append_assoc, List.cons_append, List.nil_append,
      List.singleton_append] at this ⊢
    exact this
  | lam, .lambda hd w l b, h, hl, _ => by
    intro rest its r hb hco hk
    obtain ⟨hnm, hsb, _, hsafe⟩ := h
    obtain ⟨hok, hw, hlb⟩ := hl
    have hcl : Closes rest := hco rfl rfl
    obtain ⟨x, tl, hx, hsx⟩ := text_start b hsb
    obtain ⟨g, hg⟩ := lex_cst true b hsb hlb (fun _ => hsafe) rest [] rest hb (fun _ _ => hcl)
      (after_closes hcl)
    simp only [List.append_nil] at hg
    have hX : layoutAtom (b.text ++ rest) = none := by
      rw [hx, List.cons_append]; exact layoutAtom_none (startChar_facts hsx).1
    have ht : termR (g + 2) (hd.text ++ (layChars w ++ '=' :: '>' :: (layChars l ++ (b.text ++ rest)))) =
        .ok (.lambda hd.args b.tree, rest) := by
      rw [termR_succ, condR_succ, ifHead_lamHead hd hnm w _, doR_succ, doHead_lamHead hd hnm w _,
        lamR_succ, lambdaHead_text hd hok hnm w l hw _ hX]
      simp only [hg, cst_pratt b hsb]
    have := ex_of_term (prefixStar_none (lamHead_prefix hd hnm w _)) ht hk
    simp only [CST.text, CST.items, List.append_assoc, List.cons_append, List.nil_append,
      List.singleton_append] at this ⊢
    exact this
  | lam, .asg n w l v, h, hl, _ => by
    intro rest its r hb hco hk
    obtain ⟨hnm, hsv⟩ := h
    obtain ⟨hw, hlw, hlv⟩ := hl
    have hcl : Closes rest := hco rfl rfl
    obtain ⟨x, tl, hx, hsx⟩ := text_start v hsv
    obtain ⟨g, hg⟩ := lex_cst false v hsv hlv (fun e' => by cases e') rest [] rest hb
      (fun _ _ => hcl) (after_closes hcl)
    simp only [List.append_nil] at hg
    have hnm' : (LamHead.bare (.req n)).namesOk = true := by
      simp [LamHead.namesOk, LamHead.args, LArg.name, hnm]
    have hxgt : x ≠ '>' := by intro e; subst e; revert hsx; decide
    have ht : termR (g + 2) (n.toList ++ (layChars w ++ '=' :: (layChars l ++ (v.text ++ rest)))) =
        .ok (.assign n v.tree, rest) := by
      have h1 := ifHead_lamHead (.bare (.req n)) hnm' w (layChars l ++ (v.text ++ rest))
      have h2 := doHead_lamHead (.bare (.req n)) hnm' w (layChars l ++ (v.text ++ rest))
      simp only [LamHead.text, argText] at h1 h2
      rw [termR_succ, condR_succ, h1, doR_succ, h2, lamR_succ]
      rw [hx, List.cons_append] at hg ⊢
      rw [lambdaHead_asg hnm w l hw x _ hxgt, asgR_succ,
        asgHead_run hnm w l hw hlw x _ (startChar_facts hsx).2.2.2.1]
      simp only [hg, cst_pratt v hsv]
    have hp := lamHead_prefix (.bare (.req n)) hnm' w (layChars l ++ (v.text ++ rest))
    simp only [LamHead.text, argText] at hp
    have := ex_of_term (prefixStar_none hp) ht hk
    simp only [CST.text, CST.items, List.append_assoc, List.cons_append, List.nil_append,
      List.singleton_append] at this ⊢
    exact this
  | lam, .cond w c l1 l2 t l3 l4 e, h, hl, _ => by
    intro rest its r hb hco hk
    obtain ⟨hsc, hst, hse⟩ := h
    obtain ⟨⟨hw, hws, h1, h2, h3, h4⟩, hlc, hlt, hle⟩ := hl
    have hcl : Closes rest := hco rfl rfl
    obtain ⟨xc, tlc, hxc, hsxc⟩ := text_start c hsc
    obtain ⟨xt, tlt, hxt, hsxt⟩ := text_start t hst
    obtain ⟨xe, tle, hxe, hsxe⟩ := text_start e hse
    -- the three parts, each up to the keyword (or the end) behind it
    obtain ⟨g3, hg3⟩ := lex_cst false e hse hle (fun e' => by cases e') rest [] rest hb
      (fun _ _ => hcl) (after_closes hcl)
    simp only [List.append_nil] at hg3
    have hke := kw_ends (Or.inr rfl) l3 h3 (layChars l4 ++ (e.text ++ rest))
    obtain ⟨g2, hg2⟩ := lex_cst false t hst hlt (fun e' => by cases e') _ [] _ hke.1
      (fun _ _ => hke.2) (after_closes hke.2)
    simp only [List.append_nil] at hg2
    have hkt := kw_ends (Or.inl rfl) l1 h1
      (layChars l2 ++ (t.text ++ (layChars l3 ++ (elseLit ++ (layChars l4 ++ (e.text ++ rest))))))
    obtain ⟨g1, hg1⟩ := lex_cst false c hsc hlc (fun e' => by cases e') _ [] _ hkt.1
      (fun _ _ => hkt.2) (after_closes hkt.2)
    simp only [List.append_nil] at hg1
    have hXe : layoutAtom (e.text ++ rest) = none := by
      rw [hxe, List.cons_append]; exact layoutAtom_none (startChar_facts hsxe).1
    have hXt : layoutAtom (t.text ++ (layChars l3 ++ (elseLit ++ (layChars l4 ++ (e.text ++ rest))))) =
        none := by
      rw [hxt, List.cons_append]; exact layoutAtom_none (startChar_facts hsxt).1
    let G := max g1 (max g2 g3)
    have ht : termR (G + 2) ('i' :: 'f' :: (layChars w ++ (c.text ++ (layChars l1 ++ (thenLit ++
        (layChars l2 ++ (t.text ++ (layChars l3 ++ (elseLit ++ (layChars l4 ++
          (e.text ++ rest))))))))))) = .ok (.cond c.tree t.tree e.tree, rest) := by
      rw [termR_succ, condR_succ]
      have hif : ifHead ('i' :: 'f' :: (layChars w ++ (c.text ++ (layChars l1 ++ (thenLit ++
          (layChars l2 ++ (t.text ++ (layChars l3 ++ (elseLit ++ (layChars l4 ++
            (e.text ++ rest))))))))))) = some (c.text ++ (layChars l1 ++ (thenLit ++
          (layChars l2 ++ (t.text ++ (layChars l3 ++ (elseLit ++ (layChars l4 ++
            (e.text ++ rest))))))))) := by
        rw [hxc, List.cons_append]
        exact ifHead_run w hw hws xc _ (startChar_facts hsxc).2.2.2.1
      simp only [hif, exprR_mono (Nat.le_max_left g1 (max g2 g3)) hg1,
        kwGap_run (Or.inl rfl) l1 l2 h1 h2 _ hXt,
        exprR_mono (Nat.le_trans (Nat.le_max_left g2 g3) (Nat.le_max_right g1 _)) hg2,
        kwGap_run (Or.inr rfl) l3 l4 h3 h4 _ hXe,
        exprR_mono (Nat.le_trans (Nat.le_max_right g2 g3) (Nat.le_max_right g1 _)) hg3,
        cst_pratt c hsc, cst_pratt t hst, cst_pratt e hse, G]
    have hp : prefixUsage ('i' :: 'f' :: (layChars w ++ (c.text ++ (layChars l1 ++ (thenLit ++
        (layChars l2 ++ (t.text ++ (layChars l3 ++ (elseLit ++ (layChars l4 ++
          (e.text ++ rest))))))))))) = none := by
      have hbw : Boundary (layChars w ++ (c.text ++ (layChars l1 ++ (thenLit ++
          (layChars l2 ++ (t.text ++ (layChars l3 ++ (elseLit ++ (layChars l4 ++
            (e.text ++ rest)))))))))) := by
        cases w with
        | nil => exact absurd rfl hw
        | cons a w' => cases a <;> exact boundary_cons (by decide)
      exact prefixUsage_word (w := ['i', 'f']) (by decide) (by decide) (by decide) hbw
    have := ex_of_term (prefixStar_none hp) ht hk
    simp only [CST.text, CST.items, List.append_assoc, List.cons_append, List.nil_append,
      List.singleton_append] at this ⊢
    exact this
  | lam, .rec0 l, _, _, _ => by
    intro rest its r hb _ hk
    have ht2 : term2R 4 ('{' :: (layChars l ++ '}' :: rest)) = .ok (.record [], rest) := by
      rw [term2R_succ]
      have hc := recordClose_text (.plain []) rfl rest
      have hit : itemTrail ('}' :: rest) = '}' :: rest := by
        have := itemTrail_ws [] rfl (c := '}') rest (by decide)
        simpa [layChars] using this
      simp only [Close.text, layChars, List.nil_append, List.singleton_append, hit] at hc
      simp only [termAtom_brace, gapG_run l rest (c := '}') (by decide), recItemR_brace rest 0, hc]
    have := ex_of_term (prefixStar_none (prefixUsage_brace _))
      (termR_of_term2 (ifHead_none_of_head _ (by decide)) (doHead_none_of_head _ (by decide))
        (lambdaHead_brace _) (asgHead_none_of_start _ (by decide)) ht2) hk
    simp only [CST.text, CST.items, List.append_assoc, List.cons_append, List.nil_append,
      List.singleton_append] at this ⊢
    exact this
  | lam, .record l es c, h, hl, _ => by
    intro rest its r hb _ hk
    have hse : CST.EntsShaped es := h
    obtain ⟨hle, hlc⟩ := hl
    obtain ⟨g, a, more, r1, ha, hm, htr⟩ :=
      lex_ents es hse hle (c.text '}' ++ rest) (close_entStop c hlc rest)
    obtain ⟨x, tl, hx, hsx⟩ := ents_start es hse hle
    have ht2 : term2R (g + 1) ('{' :: (layChars l ++ (CST.entsText es ++ (c.text '}' ++ rest)))) =
        .ok (.record (CST.entsTrees es), rest) := by
      rw [term2R_succ]
      have hgap : gapG (layChars l ++ (CST.entsText es ++ (c.text '}' ++ rest))) =
          CST.entsText es ++ (c.text '}' ++ rest) := by
        rw [hx, List.cons_append]; exact gapG_run l _ hsx
      simp only [termAtom_brace, hgap, ha, hm, recordClose_text c hlc rest, htr]
    have := ex_of_term (prefixStar_none (prefixUsage_brace _))
      (termR_of_term2 (ifHead_none_of_head _ (by decide)) (doHead_none_of_head _ (by decide))
        (lambdaHead_brace _) (asgHead_none_of_start _ (by decide)) ht2) hk
    simp only [CST.text, CST.items, List.append_assoc, List.cons_append, List.nil_append,
      List.singleton_append] at this ⊢
    exact this
  | lam, .doB l0 l1 ss w e l2, h, hl, _ => by
    intro rest its r hb _ hk
    obtain ⟨hss, hse⟩ := h
    obtain ⟨⟨hl0, hw, hws⟩, hls, hle⟩ := hl
    obtain ⟨x, tl, hx, hsx⟩ := text_start e hse
    obtain ⟨g2, hg2⟩ := lex_cst false e hse hle (fun e' => by cases e') (layChars l2 ++ '}' :: rest) [] _
      (tend_stop l2 rest (by decide)) (fun _ _ => closes_stop l2 rest (by decide))
      (after_stop false l2 rest (by decide))
    simp only [List.append_nil] at hg2
    have hY : Boundary (layChars w ++ (e.text ++ (layChars l2 ++ '}' :: rest))) := lay_ne_boundary hw _
    obtain ⟨g1, hg1⟩ := lex_stmts ss hss hls (layChars w ++ (e.text ++ (layChars l2 ++ '}' :: rest))) hY
    obtain ⟨y, tly, hy, hsy⟩ := stmts_start ss hss (layChars w ++ (e.text ++ (layChars l2 ++ '}' :: rest)))
    have hgh : gapH (retLit ++ (layChars w ++ (e.text ++ (layChars l2 ++ '}' :: rest)))) =
        retLit ++ (layChars w ++ (e.text ++ (layChars l2 ++ '}' :: rest))) := by
      have := gapH_run [] (c := 'r') ('e' :: 't' :: 'u' :: 'r' :: 'n' ::
        (layChars w ++ (e.text ++ (layChars l2 ++ '}' :: rest)))) (by decide)
      simpa [layChars, retLit] using this
    have ht : termR (max g1 g2 + 2) ('d' :: 'o' :: (layChars l0 ++ '{' :: (layChars l1 ++
        (CST.stmtsText ss ++ (retLit ++ (layChars w ++ (e.text ++ (layChars l2 ++ '}' :: rest)))))))) =
        .ok (.doBlock (CST.stmtsTrees ss) (.mk [] e.tree none), rest) := by
      rw [termR_succ, condR_succ, ifHead_none_of_head _ (by decide), doR_succ]
      have hdh : doHead ('d' :: 'o' :: (layChars l0 ++ '{' :: (layChars l1 ++
          (CST.stmtsText ss ++ (retLit ++ (layChars w ++ (e.text ++ (layChars l2 ++ '}' :: rest)))))))) =
          some (CST.stmtsText ss ++ (retLit ++ (layChars w ++ (e.text ++ (layChars l2 ++ '}' :: rest))))) := by
        rw [hy]; exact doHead_run l0 l1 hl0 tly hsy
      have hrh : retHead (retLit ++ (layChars w ++ (e.text ++ (layChars l2 ++ '}' :: rest)))) =
          some (e.text ++ (layChars l2 ++ '}' :: rest)) := by
        rw [hx, List.cons_append]
        exact retHead_run w hw hws x _ (startChar_facts hsx).2.2.2.1
      simp only [hdh, doStmtsR_mono (Nat.le_max_left g1 g2) hg1, hgh, hrh,
        exprR_mono (Nat.le_max_right g1 g2) hg2, wnStar_run l2 rest (c := '}') (by decide),
        cst_pratt e hse]
    have hp : prefixUsage ('d' :: 'o' :: (layChars l0 ++ '{' :: (layChars l1 ++
        (CST.stmtsText ss ++ (retLit ++ (layChars w ++ (e.text ++ (layChars l2 ++ '}' :: rest)))))))) = none :=
      prefixUsage_word (w := ['d', 'o']) (by decide) (by decide) (by decide) (lay_ne_boundary hl0 _)
    have := ex_of_term (prefixStar_none hp) ht hk
    simp only [CST.text, CST.items, List.append_assoc, List.cons_append, List.nil_append,
      List.singleton_append] at this ⊢
    exact this
/-- … and `call_list` / `list` read an argument / item list, up to the text `T` that closes it -/
theorem lex_args : ∀ (lst : Bool) (as : Args), CST.ArgsShaped as → CST.ArgsLayoutOk as → ∀ T,
    ArgStop lst T → ArgsLex lst (CST.argsText as ++ T) (CST.argsTrees as) (trailL lst T)
  | lst, .last sp a, h, hl => by
    intro T hT
    obtain ⟨hb, hcl, g, hg⟩ := hT
    obtain ⟨x, tl, hx, hsx⟩ := text_start a h
    obtain ⟨f, hf⟩ := lex_cst false a h hl (fun e' => by cases e') T [] T hb (fun _ _ => hcl)
      (after_closes hcl)
    simp only [List.append_nil] at hf
    have ha := argR_of_ex lst sp (X := a.text ++ T) (by rw [hx, List.cons_append]) hsx hf
      (cst_pratt a h)
    refine ⟨max (f + 1) g, argTree sp a.tree, [], _, argR_mono (Nat.le_max_left _ _) ?_,
      argsTailR_mono (Nat.le_max_right _ _) hg, rfl⟩
    simpa only [CST.argsText, List.append_assoc] using ha
  | lst, .cons sp a w l rest, h, hl => by
    intro T hT
    obtain ⟨hsa, hsr⟩ := h
    obtain ⟨hla, hw, hlr⟩ := hl
    obtain ⟨g, a', more, r1, ha', hm, htr⟩ := lex_args lst rest hsr hlr T hT
    obtain ⟨x, tl, hx, hsx⟩ := text_start a hsa
    obtain ⟨y, tl', hy, hsy⟩ := args_start rest hsr
    obtain ⟨f, hf⟩ := lex_cst false a hsa hla (fun e' => by cases e') _ [] _
      (tend_stop w (layChars l ++ (CST.argsText rest ++ T)) (c := ',') (by decide))
      (fun _ _ => closes_stop w _ (by decide)) (after_stop false w _ (by decide))
    simp only [List.append_nil] at hf
    have ha := argR_of_ex lst sp (X := a.text ++ (layChars w ++ ',' :: (layChars l ++
      (CST.argsText rest ++ T)))) (by rw [hx, List.cons_append]) hsx hf (cst_pratt a hsa)
    have hsk : skipWs (trailL lst (layChars w ++ ',' :: (layChars l ++ (CST.argsText rest ++ T)))) =
        ',' :: (layChars l ++ (CST.argsText rest ++ T)) := by
      cases lst with
      | false => exact skipWs_run w hw ',' _ (by decide)
      | true =>
        simp only [trailL, if_true, itemTrail_ws w hw _ (c := ',') (by decide)]
        exact skipWs_cons _ (by decide)
    have hgap : (if lst then gapG (layChars l ++ (CST.argsText rest ++ T))
        else layoutStar (layChars l ++ (CST.argsText rest ++ T))) = CST.argsText rest ++ T := by
      rw [hy, List.cons_append]
      cases lst with
      | false => exact layoutStar_run l _ (layoutAtom_none (notLayoutStart_of_argStart hsy))
      | true => exact gapG_run l _ (notLayoutStart_of_argStart hsy)
    have htl : argsTailR lst (g + 1)
        (trailL lst (layChars w ++ ',' :: (layChars l ++ (CST.argsText rest ++ T)))) =
        .ok (a' :: more, trailL lst T) := by
      rw [argsTailR_succ, hsk]
      simp only [hgap, ha', hm]
    refine ⟨max (f + 1) (g + 1), argTree sp a.tree, a' :: more, _,
      argR_mono (Nat.le_max_left _ _) ?_, argsTailR_mono (Nat.le_max_right _ _) htl,
      by simp only [CST.argsTrees, htr]⟩
    simpa only [CST.argsText, List.append_assoc, List.cons_append] using ha
/-- … `record_item` reads one entry, up to the text `T` behind it -/
theorem lex_ent : ∀ (e : Ent), CST.EntShaped e → CST.EntLayoutOk e → ∀ T, EntStop T →
    ∃ f, recItemR f (CST.entText e ++ T) = .ok (CST.entTree e, itemTrail T)
  | .pairId k w l v, hs, hl => by
    intro T hT
    obtain ⟨hk, hw, hlv⟩ := hl
    obtain ⟨hb, hcl, _⟩ := hT
    obtain ⟨x, tl, hx, hsx⟩ := text_start v hs
    obtain ⟨f, hf⟩ := lex_cst false v hs hlv (fun e' => by cases e') T [] T hb (fun _ _ => hcl)
      (after_closes hcl)
    simp only [List.append_nil] at hf
    obtain ⟨hshape, hnot⟩ := nameOk_facts hk
    have hkey : recKeyR 1 (k.toList ++ (layChars w ++ ':' :: (layChars l ++ (v.text ++ T)))) =
        .ok (.static k, layChars w ++ ':' :: (layChars l ++ (v.text ++ T))) := by
      rw [recKeyR_succ]
      simp only [identifier_run hshape hnot (boundary_lay_colon w _), consumed_append,
        String.ofList_toList]
    have hla : layoutAtom (v.text ++ T) = none := by
      rw [hx, List.cons_append]; exact layoutAtom_none (startChar_facts hsx).1
    have := recItemR_pair hkey (skipWs_run w hw ':' _ (by decide)) (layoutStar_run l _ hla) hf
      (cst_pratt v hs)
    exact ⟨_, by simpa only [CST.entText, CST.entTree, List.append_assoc, List.cons_append] using this⟩
  | .pairStr dq s w l v, hs, hl => by
    intro T hT
    obtain ⟨hq, hw, hlv⟩ := hl
    obtain ⟨hb, hcl, _⟩ := hT
    obtain ⟨x, tl, hx, hsx⟩ := text_start v hs
    obtain ⟨f, hf⟩ := lex_cst false v hs hlv (fun e' => by cases e') T [] T hb (fun _ _ => hcl)
      (after_closes hcl)
    simp only [List.append_nil] at hf
    have hkey : recKeyR 1 (quoteChar dq :: (s.toList ++ quoteChar dq ::
        (layChars w ++ ':' :: (layChars l ++ (v.text ++ T))))) =
        .ok (.static s, layChars w ++ ':' :: (layChars l ++ (v.text ++ T))) := by
      rw [recKeyR_succ]
      have hid : identifier (quoteChar dq :: (s.toList ++ quoteChar dq ::
          (layChars w ++ ':' :: (layChars l ++ (v.text ++ T))))) = none :=
        identifier_none_of_start _ (by cases dq <;> decide)
      simp only [hid, stringRule_quoted dq s.toList _ (by simpa using hq), String.ofList_toList]
    have hla : layoutAtom (v.text ++ T) = none := by
      rw [hx, List.cons_append]; exact layoutAtom_none (startChar_facts hsx).1
    have := recItemR_pair hkey (skipWs_run w hw ':' _ (by decide)) (layoutStar_run l _ hla) hf
      (cst_pratt v hs)
    exact ⟨_, by simpa only [CST.entText, CST.entTree, List.append_assoc, List.cons_append] using this⟩
  | .pairDyn a e b w l v, hs, hl => by
    intro T hT
    obtain ⟨hse, hsv⟩ := hs
    obtain ⟨⟨ha, hbw, hw⟩, hle, hlv⟩ := hl
    obtain ⟨hb, hcl, _⟩ := hT
    obtain ⟨x, tl, hx, hsx⟩ := text_start v hsv
    obtain ⟨y, tly, hy, hsy⟩ := text_start e hse
    obtain ⟨f, hf⟩ := lex_cst false v hsv hlv (fun e' => by cases e') T [] T hb (fun _ _ => hcl)
      (after_closes hcl)
    simp only [List.append_nil] at hf
    obtain ⟨g, hg⟩ := lex_cst false e hse hle (fun e' => by cases e')
      (layChars b ++ ']' :: (layChars w ++ ':' :: (layChars l ++ (v.text ++ T)))) [] _
      (tend_stop b _ (by decide)) (fun _ _ => closes_stop b _ (by decide))
      (after_stop false b _ (by decide))
    simp only [List.append_nil] at hg
    have hkey : recKeyR (g + 1) ('[' :: (layChars a ++ (e.text ++ (layChars b ++ ']' ::
        (layChars w ++ ':' :: (layChars l ++ (v.text ++ T))))))) =
        .ok (.dyn e.tree, layChars w ++ ':' :: (layChars l ++ (v.text ++ T))) := by
      rw [recKeyR_succ, identifier_none_of_start _ (by decide),
        stringRule_none_of_head _ (by decide) (by decide)]
      have h1 : skipWs (layChars a ++ (e.text ++ (layChars b ++ ']' ::
          (layChars w ++ ':' :: (layChars l ++ (v.text ++ T)))))) =
          e.text ++ (layChars b ++ ']' :: (layChars w ++ ':' :: (layChars l ++ (v.text ++ T)))) := by
        rw [hy, List.cons_append]
        exact skipWs_run a ha y _ (startChar_facts hsy).2.2.2.1
      simp only [h1, hg, skipWs_run b hbw ']' _ (by decide), cst_pratt e hse]
    have hla : layoutAtom (v.text ++ T) = none := by
      rw [hx, List.cons_append]; exact layoutAtom_none (startChar_facts hsx).1
    have := recItemR_pair hkey (skipWs_run w hw ':' _ (by decide)) (layoutStar_run l _ hla) hf
      (cst_pratt v hsv)
    exact ⟨_, by simpa only [CST.entText, CST.entTree, List.append_assoc, List.cons_append] using this⟩
  | .short n, hs, _ => by
    intro T hT
    obtain ⟨hb, _, hcolon⟩ := hT
    obtain ⟨hshape, hnot⟩ := nameOk_facts (n := n) hs
    have hid := identifier_run hshape hnot hb.1
    refine ⟨3, ?_⟩
    have hp : recPairR 2 (n.toList ++ T) = .fail := by
      rw [recPairR_succ, recKeyR_succ]
      simp only [hid]
    show recItemR 3 (n.toList ++ T) = .ok (.mk [] (.short n) .null none, itemTrail T)
    rw [recItemR_succ, hp]
    simp only [hid, consumed_append, String.ofList_toList]
  | .spread e, hs, hl => by
    intro T hT
    obtain ⟨hb, hcl, _⟩ := hT
    obtain ⟨f, hf⟩ := lex_cst false e hs hl (fun e' => by cases e') T [] T hb (fun _ _ => hcl)
      (after_closes hcl)
    simp only [List.append_nil] at hf
    refine ⟨f + 3, ?_⟩
    have htxt : CST.entText (.spread e) ++ T = '.' :: '.' :: '.' :: (e.text ++ T) := by
      simp [CST.entText, spreadLit_eq]
    rw [htxt, recItemR_succ, recPairR_nokey _ (by decide) (by decide) (by decide) (by decide)]
    have hl3 : lit spreadLit ('.' :: '.' :: '.' :: (e.text ++ T)) = some (e.text ++ T) := by
      rw [spreadLit_eq]; simp [lit]
    simp only [identifier_none_of_start _ (c := '.') (by decide), hl3,
      exprR_mono (Nat.le_add_right f 2) hf, cst_pratt e hs, CST.entTree]
  | .raw _, hs, _ => hs.elim
/-- … and `record` reads an entry list, up to the text `T` that closes it -/
theorem lex_ents : ∀ (es : Ents), CST.EntsShaped es → CST.EntsLayoutOk es → ∀ T, EntStopLast T →
    EntsLex (CST.entsText es ++ T) (CST.entsTrees es) (itemTrail T)
  | .last e, hs, hl => by
    intro T hT
    obtain ⟨hst, g, hg⟩ := hT
    obtain ⟨f, hf⟩ := lex_ent e hs hl T hst
    exact ⟨max f g, _, [], _, recItemR_mono (Nat.le_max_left _ _) hf,
      recTailR_mono (Nat.le_max_right _ _) hg, rfl⟩
  | .cons e w l rest, hs, hl => by
    intro T hT
    obtain ⟨hse, hsr⟩ := hs
    obtain ⟨hle, hw, hlr⟩ := hl
    obtain ⟨g, e', more, r1, he', hm, htr⟩ := lex_ents rest hsr hlr T hT
    obtain ⟨y, tl', hy, hsy⟩ := ents_start rest hsr hlr
    obtain ⟨f, hf⟩ := lex_ent e hse hle (layChars w ++ ',' :: (layChars l ++ (CST.entsText rest ++ T)))
      (entStop_stop w _ (by decide))
    rw [itemTrail_ws w hw _ (c := ',') (by decide)] at hf
    have hgap : gapG (layChars l ++ (CST.entsText rest ++ T)) = CST.entsText rest ++ T := by
      rw [hy, List.cons_append]; exact gapG_run l _ hsy
    have htl : recTailR (g + 1) (',' :: (layChars l ++ (CST.entsText rest ++ T))) =
        .ok (e' :: more, itemTrail T) := by
      rw [recTailR_succ, skipWs_cons _ (by decide)]
      simp only [hgap, he', hm]
    refine ⟨max f (g + 1), CST.entTree e, e' :: more, _, recItemR_mono (Nat.le_max_left _ _) ?_,
      recTailR_mono (Nat.le_max_right _ _) htl, by simp only [CST.entsTrees, htr]⟩
    simpa only [CST.entsText, List.append_assoc, List.cons_append] using hf
/-- … the statement loop of `do_block` reads the statements and stops in front of `return` -/
theorem lex_stmts : ∀ (ss : Stmts), CST.StmtsShaped ss → CST.StmtsLayoutOk ss → ∀ (Y : List Char),
    Boundary Y →
    ∃ f, doStmtsR f (CST.stmtsText ss ++ (retLit ++ Y)) = .ok (CST.stmtsTrees ss, retLit ++ Y)
  | .nil, _, _ => by
    intro Y hY
    refine ⟨6, ?_⟩
    have hsk : skipWs (retLit ++ Y) = retLit ++ Y := skipWs_head _ (by decide)
    have hic : inlineComment (retLit ++ Y) = none := by simp [retLit, inlineComment, lit]
    show doStmtsR 6 (retLit ++ Y) = .ok ([], retLit ++ Y)
    rw [doStmtsR_succ, hsk, doStmtR_succ, exprR_return hY 0]
    simp only [hic]
  | .cons s sep rest, hs, hl => by
    intro Y hY
    obtain ⟨hss, hho, hsr⟩ := hs
    obtain ⟨hls, hsep, hlr⟩ := hl
    obtain ⟨g, hg⟩ := lex_stmts rest hsr hlr Y hY
    obtain ⟨x, tl, hx, hsx⟩ := text_start s hss
    obtain ⟨y, tly, hy, hsy⟩ := stmts_start rest hsr Y
    -- the text behind the statement ends its expression
    have hR : TEnd (sep.text ++ (CST.stmtsText rest ++ (retLit ++ Y))) ∧
        Closes (sep.text ++ (CST.stmtsText rest ++ (retLit ++ Y))) := by
      cases sep with
      | semi w l =>
        have hT : Sep.text (.semi w l) ++ (CST.stmtsText rest ++ (retLit ++ Y)) =
            layChars w ++ ';' :: (layChars l ++ (CST.stmtsText rest ++ (retLit ++ Y))) := by
          simp [Sep.text]
        rw [hT]
        refine ⟨tend_lay w _ (by decide) (by decide) (by decide) (by decide), ?_, fun lam => ?_⟩
        · exact postNone_lay w ';' _ (postNone_of_char (by decide) (by decide) (by decide) (by decide))
        · exact infixUsage_none_of_heads lam w ';' _ semi_heads.1 semi_heads.2 (by decide)
      | line g =>
        have hg' : (g.any fun a => !a.isWs) = true := hsep
        have hne := any_nl_ne hg'
        refine ⟨⟨lay_ne_boundary hne _, noLam_lay_nl g hg' _⟩, postNone_lay_ne hne _, fun lam => ?_⟩
        show infixUsage lam (layChars g ++ (CST.stmtsText rest ++ (retLit ++ Y))) = none
        cases rest with
        | nil =>
          exact infixUsage_word_none lam g (w := retLit) (by decide) (by decide) hY (by decide +kernel)
        | cons s' sep' rest' =>
          have hh : s'.headOk := hho rfl
          have := infixUsage_headOk s' hh hsr.1 hlr.1 g
            (sep'.text ++ (CST.stmtsText rest' ++ (retLit ++ Y))) lam (sep_boundary sep' hlr.2.1 _)
          simpa only [CST.stmtsText, List.append_assoc] using this
    obtain ⟨f, hf⟩ := lex_cst false s hss hls (fun e' => by cases e')
      (sep.text ++ (CST.stmtsText rest ++ (retLit ++ Y))) [] _ hR.1 (fun _ _ => hR.2)
      (after_closes hR.2)
    simp only [List.append_nil] at hf
    have hsepr : (stmtSep (skipWs (itemTrail (sep.text ++ (CST.stmtsText rest ++ (retLit ++ Y)))))).map gapG =
        some (CST.stmtsText rest ++ (retLit ++ Y)) := by
      rw [hy]
      cases sep with
      | semi w l =>
        have hT : Sep.text (.semi w l) ++ y :: tly = layChars w ++ ';' :: (layChars l ++ y :: tly) := by
          simp [Sep.text]
        rw [hT]; exact stmtSep_semi w l hsep tly hsy
      | line g => exact stmtSep_line g hsep tly hsy
    cases hss' : stmtSep (skipWs (itemTrail (sep.text ++ (CST.stmtsText rest ++ (retLit ++ Y))))) with
    | none => rw [hss'] at hsepr; cases hsepr
    | some r2 =>
      rw [hss'] at hsepr
      simp only [Option.map_some, Option.some.injEq] at hsepr
      refine ⟨max f g + 2, ?_⟩
      have hsk : skipWs (s.text ++ (sep.text ++ (CST.stmtsText rest ++ (retLit ++ Y)))) =
          s.text ++ (sep.text ++ (CST.stmtsText rest ++ (retLit ++ Y))) := by
        rw [hx, List.cons_append]; exact skipWs_head _ (startChar_facts hsx).2.2.2.1
      have htxt : CST.stmtsText (.cons s sep rest) ++ (retLit ++ Y) =
          s.text ++ (sep.text ++ (CST.stmtsText rest ++ (retLit ++ Y))) := by
        simp only [CST.stmtsText, List.append_assoc]
      rw [htxt, doStmtsR_succ, hsk, doStmtR_succ, exprR_mono (Nat.le_max_left f g) hf]
      simp only [cst_pratt s hss, hss', hsepr, doStmtsR_mono (Nat.le_succ_of_le (Nat.le_max_right f g)) hg,
        consStmt, CST.stmtsTrees]
end

/-! ### (10) whole texts -/

/-- a well-formed CST is lexed into its items, with nothing left over, by every fuel from
    `fuelFor` upwards -/
theorem cst_lex (c : CST) (h : c.WF) (fuel : Nat) (hf : fuelFor c.text ≤ fuel) :
    exprItems fuel c.text = some (c.items, []) := by
  obtain ⟨f, hx⟩ := lex_cst false c h.1 h.2 (fun e => by cases e) [] [] [] tend_nil
    (fun _ _ => closes_nil) (after_nil false)
  simp only [List.append_nil] at hx
  exact exprItems_of_exprR hx fuel hf

/-- … and parsed to its tree -/
theorem cst_roundtrip (c : CST) (h : c.WF) : parseText (String.ofList c.text) = some c.tree := by
  have h1 := cst_lex c h (fuelFor c.text) (Nat.le_refl _)
  unfold parseText
  rw [String.toList_ofList, h1]
  exact cst_pratt c h.1

/-! ### (11) the CST the printer writes -/

/-! #### no `via` / `into` / `where` at the top level of a lambda body the printer leaves bare -/

section lamsafe
open PrattRT

def chainRule (r : String) : Bool := r == "via" || r == "into" || r == "where_"

/-- no chain operator among the operators of an item sequence, by rule name -/
def NoChain (its : List PItem) : Prop := ∀ rule, PItem.inf rule ∈ its → chainRule rule = false

theorem chain_facts :
    (BinOp.all.all fun op =>
      (chainRule (ruleOf op) == isChain op) && (!isChain op || pp op == pp .via) &&
        decide (pp .via ≤ pp op) && (!(pp op == pp .via) || !ra op)) = true := by
  decide +kernel

theorem chain_fact (op : BinOp) :
    chainRule (ruleOf op) = isChain op ∧ (isChain op = true → pp op = pp .via) ∧
      pp .via ≤ pp op ∧ (pp op = pp .via → ra op = false) := by
  have := List.all_eq_true.mp chain_facts op (BinOp.mem_all op)
  simp only [Bool.and_eq_true, beq_iff_eq, Bool.or_eq_true, Bool.not_eq_true', decide_eq_true_eq] at this
  obtain ⟨⟨⟨h1, h2⟩, h3⟩, h4⟩ := this
  refine ⟨h1, fun h => ?_, h3, fun h => ?_⟩
  · rcases h2 with h2 | h2
    · rw [h] at h2; cases h2
    · exact h2
  · rcases h4 with h4 | h4
    · exact absurd h (by simpa using h4)
    · exact h4

theorem NoChain.lamSafe {its : List PItem} (h : NoChain its) : LamSafe its := by
  intro op hm
  rw [← (chain_fact op).1]
  exact h _ hm

theorem noChain_append {a b : List PItem} (ha : NoChain a) (hb : NoChain b) : NoChain (a ++ b) := by
  intro rule hm
  rcases List.mem_append.mp hm with h | h
  · exact ha rule h
  · exact hb rule h

theorem noChain_single_noninf {x : PItem} (h : ∀ r, x ≠ .inf r) : NoChain [x] := by
  intro rule hm
  simp only [List.mem_singleton] at hm
  exact absurd hm.symm (h rule)

theorem noChain_cons_noninf {x : PItem} {a : List PItem} (h : ∀ r, x ≠ .inf r) (ha : NoChain a) :
    NoChain (x :: a) := noChain_append (noChain_single_noninf h) ha

/-- the top operator of `t`, if it is a binary one, binds tighter than the chain operators -/
def hiOK : Expr → Prop
  | .bin op _ _ => pp .via < pp op
  | _ => True

theorem hiOK_left {op lop : BinOp} {a b : Expr} (h : needsParens (.bin lop a b) (.binLeft op) = false)
    (hop : pp .via < pp op) : hiOK (.bin lop a b) := by
  obtain ⟨h1, _⟩ := left_noparens h
  have := pp_lt_iff lop op
  show pp .via < pp lop
  have hle : ¬ pp lop < pp op := fun hlt => by have := this.mp hlt; omega
  omega

theorem hiOK_right {op rop : BinOp} {a b : Expr}
    (h : needsParens (.bin rop a b) (.binRight op) = false) : hiOK (.bin rop a b) := by
  obtain ⟨h1, h2⟩ := right_noparens h
  have hlt := pp_lt_iff rop op
  have heq := pp_eq_iff rop op
  have hle : ¬ pp rop < pp op := fun hl => by have := hlt.mp hl; omega
  have hv := (chain_fact op).2.2.1
  show pp .via < pp rop
  by_cases he : pp rop = pp .via
  · -- then `op` is at the chain level too, same level, so `op` is right-associative: it is not
    exfalso
    have hpo : pp op = pp .via := by omega
    have hra := (chain_fact op).2.2.2 hpo
    have hbp : bp rop = bp op := heq.mp (by omega)
    rw [(h2 hbp).1] at hra
    cases hra
  · have := (chain_fact rop).2.2.1; omega

theorem noChain_hi : ∀ t : Expr, hiOK t → NoChain (items t)
  | .bin op l r, h => by
    have hop : chainRule (ruleOf op) = false := by
      rw [(chain_fact op).1]
      cases hc : isChain op with
      | false => rfl
      | true => have := (chain_fact op).2.1 hc; simp only [hiOK] at h; omega
    rw [items_bin]
    refine noChain_append ?_ ?_
    · unfold child
      split
      · exact noChain_single_noninf (fun r e => by cases e)
      · rename_i hnp
        simp only [Bool.not_eq_true] at hnp
        refine noChain_hi l ?_
        cases l with
        | bin lop a b => exact hiOK_left hnp h
        | _ => trivial
    · intro rule hm
      simp only [List.mem_cons] at hm
      rcases hm with hm | hm
      · cases hm; exact hop
      · revert rule
        show NoChain (child r (.binRight op))
        unfold child
        split
        · exact noChain_single_noninf (fun r e => by cases e)
        · rename_i hnp
          simp only [Bool.not_eq_true] at hnp
          refine noChain_hi r ?_
          cases r with
          | bin rop a b => exact hiOK_right hnp
          | _ => trivial
  | .un op e, _ => by
    rw [items_un]
    refine noChain_cons_noninf (fun r e => by cases e) ?_
    unfold child
    split
    · exact noChain_single_noninf (fun r e => by cases e)
    · rename_i hnp
      refine noChain_hi e ?_
      cases e with
      | bin cop a b => simp [np_bin_prefix] at hnp
      | _ => trivial
  | .fact e, _ => by
    rw [items_fact]
    refine noChain_append ?_ (noChain_single_noninf (fun r e => by cases e))
    unfold child
    split
    · exact noChain_single_noninf (fun r e => by cases e)
    · rename_i hnp
      refine noChain_hi e ?_
      cases e with
      | bin cop a b => simp [np_bin_postfix] at hnp
      | _ => trivial
  | .access e i, _ => by
    rw [items_access]
    refine noChain_append ?_ (noChain_single_noninf (fun r e => by cases e))
    unfold child
    split
    · exact noChain_single_noninf (fun r e => by cases e)
    · rename_i hnp
      refine noChain_hi e ?_
      cases e with
      | bin cop a b => simp [np_bin_postfix] at hnp
      | _ => trivial
  | .dot e f, _ => by
    rw [items_dot]
    refine noChain_append ?_ (noChain_single_noninf (fun r e => by cases e))
    unfold child
    split
    · exact noChain_single_noninf (fun r e => by cases e)
    · rename_i hnp
      refine noChain_hi e ?_
      cases e with
      | bin cop a b => simp [np_bin_postfix] at hnp
      | _ => trivial
  | .call f args, _ => by
    rw [items_call]
    refine noChain_append ?_ (noChain_single_noninf (fun r e => by cases e))
    unfold child
    split
    · exact noChain_single_noninf (fun r e => by cases e)
    · rename_i hnp
      refine noChain_hi f ?_
      cases f with
      | bin cop a b => simp [np_bin_postfix] at hnp
      | _ => trivial
  | .num _, _ | .str _, _ | .bool _, _ | .null, _ | .ident _, _ | .inref _, _ | .builtin _, _
  | .list _, _ | .record _, _ | .lambda _ _, _ | .cond _ _ _, _ | .doBlock _ _, _ | .assign _ _, _
  | .output _, _ | .spread _, _ => noChain_single_noninf (fun r e => by cases e)

/-- a lambda body the printer writes without parentheses has no chain operator at its top
    level (left spine at the chain level included) -/
theorem noChain_body : ∀ t : Expr, lambdaBodyNeedsParens t = false → NoChain (items t)
  | .bin op l r, h => by
    simp only [lambdaBodyNeedsParens, Bool.or_eq_false_iff, beq_eq_false_iff_ne, ne_eq,
      Bool.and_eq_false_iff] at h
    obtain ⟨⟨⟨h1, h2⟩, h3⟩, h4⟩ := h
    have hnc : isChain op = false := by simp [isChain, h1, h2, h3]
    have hop : chainRule (ruleOf op) = false := by rw [(chain_fact op).1]; exact hnc
    rw [items_bin]
    refine noChain_append ?_ ?_
    · unfold child
      split
      · exact noChain_single_noninf (fun r e => by cases e)
      · rename_i hnp
        simp only [Bool.not_eq_true] at hnp
        rcases h4 with h4 | h4
        · -- `op` is above the chain level
          have hv := (chain_fact op).2.2.1
          have hlt : pp .via < pp op := by
            have : pp op ≠ pp .via := h4
            omega
          refine noChain_hi l ?_
          cases l with
          | bin lop a b => exact hiOK_left hnp hlt
          | _ => trivial
        · exact noChain_body l h4
    · intro rule hm
      simp only [List.mem_cons] at hm
      rcases hm with hm | hm
      · cases hm; exact hop
      · revert rule
        show NoChain (child r (.binRight op))
        unfold child
        split
        · exact noChain_single_noninf (fun r e => by cases e)
        · rename_i hnp
          simp only [Bool.not_eq_true] at hnp
          refine noChain_hi r ?_
          cases r with
          | bin rop a b => exact hiOK_right hnp
          | _ => trivial
  | .un op e, _ => noChain_hi _ trivial
  | .fact e, _ => noChain_hi _ trivial
  | .access e i, _ => noChain_hi _ trivial
  | .dot e f, _ => noChain_hi _ trivial
  | .call f args, _ => noChain_hi _ trivial
  | .num _, _ | .str _, _ | .bool _, _ | .null, _ | .ident _, _ | .inref _, _ | .builtin _, _
  | .list _, _ | .record _, _ | .lambda _ _, _ | .cond _ _ _, _ | .doBlock _ _, _ | .assign _ _, _
  | .output _, _ | .spread _, _ => noChain_single_noninf (fun r e => by cases e)

end lamsafe



/-- both kinds of quote occur in the string: no literal denotes it (the grammar has no escapes;
    the printer writes a concatenation `("a" + '"' + "b")` instead, see `strConcat`) -/
def bothQuotes (s : String) : Bool := s.toList.contains '"' && s.toList.contains '\''

/-- a record entry without comments -/
def entPlain (lead : List String) (tr : Option String) : Bool := lead.isEmpty && tr.isNone

/-- the value `null` (what the parser stores for a shorthand and for a spread entry) -/
def isNullE : Expr → Bool
  | .null => true
  | _ => false

theorem isNullE_eq {v : Expr} (h : isNullE v = true) : v = .null := by
  cases v <;> first | rfl | simp [isNullE] at h

theorem entPlain_eq {lead : List String} {tr : Option String} (h : entPlain lead tr = true) :
    lead = [] ∧ tr = none := by
  simpa [entPlain] using h

/-- THE LEFTMOST NAME OF THE PRINTED STATEMENT IS NO WORD OPERATOR (`via` / `into` / `where`; a
    parenthesised operand and a prefix operator shield it).  A statement that starts with such a
    name followed by a blank is parenthesised by the printer (repo commit 1decf6c) but NOT by
    every layout of the formatter (`via` ⏎ `+ b` needs no parentheses): the concrete syntax
    then depends on the width, so these statements are left out of the fragment. -/
def stmtHeadOk : Expr → Bool
  | .bin op l _ => needsParens l (.binLeft op) || stmtHeadOk l
  | .fact e => needsParens e .postfix_ || stmtHeadOk e
  | .call e _ => needsParens e .postfix_ || stmtHeadOk e
  | .access e _ => needsParens e .postfix_ || stmtHeadOk e
  | .dot e _ => needsParens e .postfix_ || stmtHeadOk e
  | .ident n => !CST.wordOpText n.toList
  | .builtin n => !CST.wordOpText n.toList
  | .lambda args _ => CST.lamHeadOk args
  | .assign n _ => !CST.wordOpText n.toList
  | _ => true

mutual
/-- the fragment of the abstract syntax: binary operators, prefix `-` / `!`, postfix `!`,
    calls (arguments possibly spread: the flag says whether a `...e` is admitted here), index
    and field accesses, list literals (items possibly spread, no comments), lambdas (argument
    names that are identifiers), conditionals, record literals, do-blocks (statements without
    comments whose leftmost name is no word operator, `stmtHeadOk`), assignments `name = value`
    over the atoms of `atomOk` and string literals that do not contain both kinds of quote -/
def fragB : Bool → Expr → Bool
  | _, .bin _ l r => fragB false l && fragB false r
  | _, .un op e => op != .invert && fragB false e
  | _, .fact e => fragB false e
  | _, .call f args => fragB false f && fragArgs args
  | _, .access e i => fragB false e && fragB false i
  | _, .dot e n => fragB false e && CST.fieldOk n
  | sp, .spread e => sp && fragB false e
  | _, .list items => fragItems items
  | _, .lambda args body => args.all (fun a => nameOk a.name) && fragB false body
  | _, .cond c t e => fragB false c && fragB false t && fragB false e
  | _, .ident n => atomOk (.ident n)
  | _, .builtin n => atomOk (.builtin n)
  | _, .bool b => atomOk (.bool b)
  | _, .null => atomOk .null
  | _, .num x => atomOk (.num x)
  | _, .str s => !bothQuotes s
  | _, .record es => fragEntries es
  | _, .doBlock ss r => fragStmts ss && fragRet r
  | _, .assign n v => nameOk n && fragB false v
  | _, _ => false
/-- the returned expression of a do-block: no comments, in the fragment -/
def fragRet : Item → Bool
  | .mk lead e tr => entPlain lead tr && fragB false e
/-- arguments: fragment trees, or `...e` with `e` in the fragment -/
def fragArgs : List Expr → Bool
  | [] => true
  | a :: rest => fragB true a && fragArgs rest
/-- record entries: no comments; a static key that is an identifier or has a string literal
    (not both kinds of quote); a computed key in the fragment; a shorthand that is an identifier;
    `...e`; values in the fragment (`null` where the parser stores none) -/
def fragEntries : List Entry → Bool
  | [] => true
  | e :: rest => fragEntry e && fragEntries rest
/-- do-block statements: no comments, fragment trees whose leftmost name is no word operator -/
def fragStmts : List Item → Bool
  | [] => true
  | (.mk lead e tr) :: rest => (entPlain lead tr && (fragB false e && stmtHeadOk e)) && fragStmts rest
def fragEntry : Entry → Bool
  | .mk lead (.static k) v tr =>
    entPlain lead tr && (isValidIdentifier k || !bothQuotes k) && fragB false v
  | .mk lead (.dyn ke) v tr => entPlain lead tr && fragB false ke && fragB false v
  | .mk lead (.short n) v tr => entPlain lead tr && isNullE v && nameOk n
  | .mk lead (.spread (.spread e)) v tr => entPlain lead tr && isNullE v && fragB false e
  | .mk _ (.spread _) _ _ => false
/-- list items: no comments, fragment trees, or `...e` with `e` in the fragment -/
def fragItems : List Item → Bool
  | [] => true
  | (.mk lead e tr) :: rest => lead.isEmpty && tr.isNone && fragB true e && fragItems rest
end

def frag (t : Expr) : Bool := fragB false t

abbrev Frag (t : Expr) : Prop := frag t = true

theorem frag_bin_iff (op : BinOp) (l r : Expr) : frag (.bin op l r) = (frag l && frag r) := by
  simp [frag, fragB]
theorem frag_un_iff (op : UnOp) (e : Expr) : frag (.un op e) = (op != .invert && frag e) := by
  simp [frag, fragB]
theorem frag_fact_iff (e : Expr) : frag (.fact e) = frag e := by simp [frag, fragB]
theorem frag_call_iff (f : Expr) (args : List Expr) :
    frag (.call f args) = (frag f && fragArgs args) := by simp [frag, fragB]
theorem frag_access_iff (e i : Expr) : frag (.access e i) = (frag e && frag i) := by
  simp [frag, fragB]
theorem frag_dot_iff (e : Expr) (n : String) : frag (.dot e n) = (frag e && CST.fieldOk n) := by
  simp [frag, fragB]
theorem frag_list_iff (items : List Item) : frag (.list items) = fragItems items := by
  simp [frag, fragB]
theorem frag_cond_iff (c t e : Expr) : frag (.cond c t e) = (frag c && frag t && frag e) := by
  simp [frag, fragB]
theorem frag_str_iff (s : String) : frag (.str s) = !bothQuotes s := by simp [frag, fragB]
theorem frag_record_iff (es : List Entry) : frag (.record es) = fragEntries es := by
  simp [frag, fragB]
theorem frag_doBlock_iff (ss : List Item) (lead : List String) (e : Expr) (tr : Option String) :
    frag (.doBlock ss (.mk lead e tr)) = (fragStmts ss && (entPlain lead tr && frag e)) := by
  simp [frag, fragB, fragRet]
theorem frag_assign_iff (n : String) (v : Expr) :
    frag (.assign n v) = (nameOk n && frag v) := by
  simp [frag, fragB]
theorem frag_lambda_iff (args : List LArg) (body : Expr) :
    frag (.lambda args body) = (args.all (fun a => nameOk a.name) && frag body) := by
  simp [frag, fragB]

/-- the operand of an argument (`...e` ↦ `e`) and whether it is spread -/
def isSpread : Expr → Bool
  | .spread _ => true
  | _ => false

def unSpread : Expr → Expr
  | .spread e => e
  | e => e

theorem fragB_true (a : Expr) (h : fragB true a = true) :
    Frag (unSpread a) ∧ argTree (isSpread a) (unSpread a) = a := by
  cases a with
  | doBlock ss r =>
    refine ⟨?_, rfl⟩
    cases r
    simpa [Frag, frag, fragB, fragRet, unSpread] using h
  | _ => refine ⟨?_, rfl⟩ <;> simp_all [Frag, frag, fragB, unSpread]

def wrap (b : Bool) (c : CST) : CST := if b then .paren [] c [] else c

/-- the argument list as the printer writes it: `a, b, c` -/
def mkArgs : Bool × CST → List (Bool × CST) → Args
  | p, [] => .last p.1 p.2
  | p, q :: rest => .cons p.1 p.2 [] [.sp] (mkArgs q rest)

def mkCall (f : CST) : List (Bool × CST) → CST
  | [] => .call0 f []
  | p :: rest => .call f [] (mkArgs p rest) (.plain [])

/-- the argument list of a lambda as the printer writes it: `()` or `(a, b?, ...c)` -/
def headOf : List LArg → LamHead
  | [] => .unit []
  | a :: as => .parens [] a (as.map fun x => ([], [.sp], x)) (.plain [])

/-- `[]` or `[a, b, c]` as the printer writes it -/
def mkList : List (Bool × CST) → CST
  | [] => .list0 []
  | p :: rest => .list [] (mkArgs p rest) (.plain [])

/-- the literal `string_to_source` writes: in double quotes unless the string contains one, then
    in single quotes (outside the fragment — both kinds occur — an opaque atom) -/
def canonStr (s : String) : CST :=
  if bothQuotes s then .atom (.str s) else .str (!s.toList.contains '"') s

theorem canonStr_tree (s : String) : (canonStr s).tree = .str s := by
  unfold canonStr; split <;> rfl

theorem canonStr_items (s : String) : (canonStr s).items = [.prim (.str s)] := by
  unfold canonStr; split <;> rfl

theorem canonStr_isParen (s : String) : (canonStr s).isParen = false := by
  unfold canonStr; split <;> rfl

theorem canonStr_layout (s : String) : (canonStr s).LayoutOk := by
  unfold canonStr
  split
  · trivial
  · rename_i h
    simp only [CST.LayoutOk]
    cases hd : s.toList.contains '"' with
    | false => simpa [quoteChar] using hd
    | true =>
      simp only [bothQuotes, hd, Bool.true_and, Bool.not_eq_true] at h
      simpa [quoteChar] using h

theorem canonStr_shaped (s : String) (h : bothQuotes s = false) : (canonStr s).Shaped := by
  unfold canonStr; rw [h]; trivial

theorem canonStr_text (s : String) (h : bothQuotes s = false) :
    (canonStr s).text = (stringToSource s).toList := by
  unfold canonStr
  simp only [h, Bool.false_eq_true, if_false, CST.text]
  cases hd : s.toList.contains '"' with
  | false =>
    rw [PrintL.stringToSource_dq s (by simpa using hd)]
    simp [quoteChar]
  | true =>
    simp only [bothQuotes, hd, Bool.true_and] at h
    rw [PrintL.stringToSource_sq s (by simpa using hd) (by simpa using h)]
    simp [quoteChar]

/-- the entry list as the printer writes it: `a: 1, b, ...c` -/
def mkEnts : Ent → List Ent → Ents
  | e, [] => .last e
  | e, q :: rest => .cons e [] [.sp] (mkEnts q rest)

/-- `{}` or `{a: 1, b}` as the printer writes it -/
def mkRecord : List Ent → CST
  | [] => .rec0 []
  | e :: rest => .record [] (mkEnts e rest) (.plain [])

/-- `format_record_key` in front of `: value`: bare when the key is an identifier, else as a
    string literal -/
def keyEnt (k : String) (v : CST) : Ent :=
  if isValidIdentifier k then .pairId k [] [.sp] v
  else .pairStr (!k.toList.contains '"') k [] [.sp] v

/-- `protect_statement_start` on a statement of the fragment: parentheses when it starts with a
    prefix minus (the test for `via` / `into` / `where` never fires on the fragment) -/
def protC (c : CST) : CST := if c.startsMinus then .paren [] c [] else c

/-- the layout the single-line printer writes in front of every statement and of `return` -/
def stmtLay : Lay := [.lf, .sp, .sp]

mutual
/-- what `exprToSource` writes, as a CST: one blank on each side of a binary operator, `, `
    between arguments, nothing else, parentheses exactly where `needsParens` says -/
def canon : Expr → CST
  | .bin op l r =>
    .bin op (wrap (needsParens l (.binLeft op)) (canon l)) [.sp] [.sp]
      (wrap (needsParens r (.binRight op)) (canon r))
  | .un op e => .un op (wrap (needsParens e .prefix_) (canon e))
  | .fact e => .fact (wrap (needsParens e .postfix_) (canon e))
  | .call f args => mkCall (wrap (needsParens f .postfix_) (canon f)) (canonArgs args)
  | .access e i => .access (wrap (needsParens e .postfix_) (canon e)) [] (canon i) []
  | .dot e n => .dot (wrap (needsParens e .postfix_) (canon e)) n
  | .list items => mkList (canonItems items)
  | .lambda args body =>
    .lambda (headOf args) [.sp] [.sp] (wrap (lambdaBodyNeedsParens body) (canon body))
  | .cond c t e => .cond [.sp] (canon c) [.sp] [.sp] (canon t) [.sp] [.sp] (canon e)
  | .ident n => .atom (.ident n)
  | .builtin n => .atom (.builtin n)
  | .bool b => .atom (.bool b)
  | .null => .atom .null
  | .num x => .atom (.num x)
  | .str s => canonStr s
  | .record es => mkRecord (canonEntries es)
  | .doBlock ss (.mk _ e _) => .doB [.sp] stmtLay (canonStmts ss) [.sp] (canon e) [.lf]
  | .assign n v => .asg n [.sp] [.sp] (canon v)
  /- only reached from `canonArgs`: the operand of a spread argument -/
  | .spread e => canon e
  | e => .atom e
def canonArgs : List Expr → List (Bool × CST)
  | [] => []
  | a :: rest => (isSpread a, canon a) :: canonArgs rest
def canonItems : List Item → List (Bool × CST)
  | [] => []
  | (.mk _ e _) :: rest => (isSpread e, canon e) :: canonItems rest
/-- the statements of a do-block as the printer writes them: each on its own line -/
def canonStmts : List Item → Stmts
  | [] => .nil
  | (.mk _ e _) :: rest => .cons (protC (canon e)) (.line stmtLay) (canonStmts rest)
def canonEntries : List Entry → List Ent
  | [] => []
  | e :: rest => canonEnt e :: canonEntries rest
/-- an entry outside the fragment (comments, a key with both kinds of quote, a shorthand or
    spread entry with a value) stays opaque -/
def canonEnt : Entry → Ent
  | .mk lead (.static k) v tr =>
    if entPlain lead tr && (isValidIdentifier k || !bothQuotes k) then keyEnt k (canon v)
    else .raw (.mk lead (.static k) v tr)
  | .mk lead (.dyn ke) v tr =>
    if entPlain lead tr then .pairDyn [] (canon ke) [] [] [.sp] (canon v)
    else .raw (.mk lead (.dyn ke) v tr)
  | .mk lead (.short n) v tr =>
    if entPlain lead tr && isNullE v then .short n else .raw (.mk lead (.short n) v tr)
  | .mk lead (.spread (.spread e)) v tr =>
    if entPlain lead tr && isNullE v then .spread (canon e)
    else .raw (.mk lead (.spread (.spread e)) v tr)
  | .mk lead (.spread e) v tr => .raw (.mk lead (.spread e) v tr)
end

theorem canon_unSpread (a : Expr) : canon a = canon (unSpread a) := by
  cases a <;> first | rfl | simp [canon, unSpread]

theorem wrap_tree (b : Bool) (c : CST) : (wrap b c).tree = c.tree := by
  cases b <;> rfl

theorem wrap_text (b : Bool) (c : CST) :
    (wrap b c).text = if b then '(' :: (c.text ++ [')']) else c.text := by
  cases b <;> simp [wrap, CST.text, layChars]

theorem wrap_items (b : Bool) (c : CST) :
    (wrap b c).items = if b then [.prim c.tree] else c.items := by
  cases b <;> rfl

theorem wrap_shaped {b : Bool} {c : CST} (h : c.Shaped) : (wrap b c).Shaped := by
  cases b <;> exact h

theorem wrap_layout {b : Bool} {c : CST} (h : c.LayoutOk) : (wrap b c).LayoutOk := by
  cases b <;> exact h

theorem wrap_isParen {b : Bool} {c : CST} (_hc : c.isParen = false) (h : (wrap b c).isParen = false) :
    b = false := by
  cases b
  · rfl
  · simp [wrap, CST.isParen] at h

theorem parenIf_toList (b : Bool) (s : String) :
    (parenIf b s).toList = if b then '(' :: (s.toList ++ [')']) else s.toList := by
  cases b <;> simp [parenIf]

/-! #### argument lists as the printer writes them -/

/-- tree of an argument (spread flag, operand) -/
def argT (q : Bool × CST) : Expr := argTree q.1 q.2.tree
/-- text of an argument -/
def argS (q : Bool × CST) : List Char := spreadChars q.1 ++ q.2.text

theorem intercalate_cons2 {α} (sep x y : List α) (ys : List (List α)) :
    sep.intercalate (x :: y :: ys) = x ++ (sep ++ sep.intercalate (y :: ys)) := by
  simp [List.intercalate]

theorem mkArgs_trees : ∀ (ps : List (Bool × CST)) (p : Bool × CST),
    CST.argsTrees (mkArgs p ps) = argT p :: ps.map argT
  | [], p => rfl
  | q :: ps, p => by simp only [mkArgs, CST.argsTrees, mkArgs_trees ps q, List.map_cons, argT]

theorem mkArgs_text : ∀ (ps : List (Bool × CST)) (p : Bool × CST),
    CST.argsText (mkArgs p ps) = [',', ' '].intercalate (argS p :: ps.map argS)
  | [], p => by simp [mkArgs, CST.argsText, argS, List.intercalate]
  | q :: ps, p => by
    simp only [mkArgs, CST.argsText, mkArgs_text ps q, List.map_cons, intercalate_cons2, argS,
      layChars, LayAtom.chars, List.append_assoc, List.nil_append, List.cons_append]

theorem mkArgs_shaped : ∀ (ps : List (Bool × CST)) (p : Bool × CST),
    p.2.Shaped → (∀ q ∈ ps, q.2.Shaped) → CST.ArgsShaped (mkArgs p ps)
  | [], _, hp, _ => hp
  | q :: ps, _, hp, h =>
    ⟨hp, mkArgs_shaped ps q (h q List.mem_cons_self) (fun x hx => h x (List.mem_cons_of_mem _ hx))⟩

theorem mkArgs_layout : ∀ (ps : List (Bool × CST)) (p : Bool × CST),
    p.2.LayoutOk → (∀ q ∈ ps, q.2.LayoutOk) → CST.ArgsLayoutOk (mkArgs p ps)
  | [], _, hp, _ => hp
  | q :: ps, _, hp, h =>
    ⟨hp, rfl, mkArgs_layout ps q (h q List.mem_cons_self) (fun x hx => h x (List.mem_cons_of_mem _ hx))⟩

theorem mkCall_tree (f : CST) (ps : List (Bool × CST)) :
    (mkCall f ps).tree = .call f.tree (ps.map argT) := by
  cases ps with
  | nil => rfl
  | cons p ps => simp only [mkCall, CST.tree, mkArgs_trees, List.map_cons]

theorem mkCall_items (f : CST) (ps : List (Bool × CST)) :
    (mkCall f ps).items = f.items ++ [.postCall (ps.map argT)] := by
  cases ps with
  | nil => rfl
  | cons p ps => simp only [mkCall, CST.items, mkArgs_trees, List.map_cons]

theorem mkCall_text (f : CST) (ps : List (Bool × CST)) :
    (mkCall f ps).text = f.text ++ '(' :: ([',', ' '].intercalate (ps.map argS) ++ [')']) := by
  cases ps with
  | nil => simp [mkCall, CST.text, layChars, List.intercalate]
  | cons p ps =>
    simp only [mkCall, CST.text, mkArgs_text, List.map_cons, Close.text, layChars, List.nil_append]

theorem mkCall_isParen (f : CST) (ps : List (Bool × CST)) : (mkCall f ps).isParen = false := by
  cases ps <;> rfl

theorem mkCall_shaped {f : CST} {ps : List (Bool × CST)} (hf : f.Shaped)
    (hp : f.isParen = false → needsParens f.tree .postfix_ = false) (h : ∀ q ∈ ps, q.2.Shaped) :
    (mkCall f ps).Shaped := by
  cases ps with
  | nil => exact ⟨hf, hp⟩
  | cons p ps =>
    exact ⟨hf, hp, mkArgs_shaped ps p (h p List.mem_cons_self)
      (fun x hx => h x (List.mem_cons_of_mem _ hx))⟩

theorem mkCall_layout {f : CST} {ps : List (Bool × CST)} (hf : f.LayoutOk)
    (h : ∀ q ∈ ps, q.2.LayoutOk) : (mkCall f ps).LayoutOk := by
  cases ps with
  | nil => exact hf
  | cons p ps =>
    exact ⟨hf, mkArgs_layout ps p (h p List.mem_cons_self)
      (fun x hx => h x (List.mem_cons_of_mem _ hx)), rfl⟩

theorem mkList_tree (ps : List (Bool × CST)) :
    (mkList ps).tree = .list (mkItems (ps.map argT)) := by
  cases ps with
  | nil => rfl
  | cons p ps => simp only [mkList, CST.tree, mkArgs_trees, List.map_cons]

theorem mkList_items (ps : List (Bool × CST)) :
    (mkList ps).items = [.prim (.list (mkItems (ps.map argT)))] := by
  cases ps with
  | nil => rfl
  | cons p ps => simp only [mkList, CST.items, mkArgs_trees, List.map_cons]

theorem mkList_text (ps : List (Bool × CST)) :
    (mkList ps).text = '[' :: ([',', ' '].intercalate (ps.map argS) ++ [']']) := by
  cases ps with
  | nil => simp [mkList, CST.text, layChars, List.intercalate]
  | cons p ps =>
    simp only [mkList, CST.text, mkArgs_text, List.map_cons, Close.text, layChars, List.nil_append]

theorem mkList_isParen (ps : List (Bool × CST)) : (mkList ps).isParen = false := by
  cases ps <;> rfl

theorem mkList_shaped {ps : List (Bool × CST)} (h : ∀ q ∈ ps, q.2.Shaped) : (mkList ps).Shaped := by
  cases ps with
  | nil => trivial
  | cons p ps =>
    exact mkArgs_shaped ps p (h p List.mem_cons_self) (fun x hx => h x (List.mem_cons_of_mem _ hx))

theorem mkList_layout {ps : List (Bool × CST)} (h : ∀ q ∈ ps, q.2.LayoutOk) :
    (mkList ps).LayoutOk := by
  cases ps with
  | nil => trivial
  | cons p ps =>
    exact ⟨mkArgs_layout ps p (h p List.mem_cons_self)
      (fun x hx => h x (List.mem_cons_of_mem _ hx)), rfl⟩

/-! #### records as the printer writes them -/

theorem mkEnts_trees : ∀ (es : List Ent) (e : Ent),
    CST.entsTrees (mkEnts e es) = CST.entTree e :: es.map CST.entTree
  | [], e => rfl
  | q :: es, e => by simp only [mkEnts, CST.entsTrees, mkEnts_trees es q, List.map_cons]

theorem mkEnts_text : ∀ (es : List Ent) (e : Ent),
    CST.entsText (mkEnts e es) = [',', ' '].intercalate (CST.entText e :: es.map CST.entText)
  | [], e => by simp [mkEnts, CST.entsText, List.intercalate]
  | q :: es, e => by
    simp only [mkEnts, CST.entsText, mkEnts_text es q, List.map_cons, intercalate_cons2,
      layChars, LayAtom.chars, List.append_assoc, List.nil_append, List.cons_append]

theorem mkEnts_shaped : ∀ (es : List Ent) (e : Ent),
    CST.EntShaped e → (∀ q ∈ es, CST.EntShaped q) → CST.EntsShaped (mkEnts e es)
  | [], _, he, _ => he
  | q :: es, _, he, h =>
    ⟨he, mkEnts_shaped es q (h q List.mem_cons_self) (fun x hx => h x (List.mem_cons_of_mem _ hx))⟩

theorem mkEnts_layout : ∀ (es : List Ent) (e : Ent),
    CST.EntLayoutOk e → (∀ q ∈ es, CST.EntLayoutOk q) → CST.EntsLayoutOk (mkEnts e es)
  | [], _, he, _ => he
  | q :: es, _, he, h =>
    ⟨he, rfl, mkEnts_layout es q (h q List.mem_cons_self) (fun x hx => h x (List.mem_cons_of_mem _ hx))⟩

theorem mkRecord_tree (es : List Ent) : (mkRecord es).tree = .record (es.map CST.entTree) := by
  cases es with
  | nil => rfl
  | cons e es => simp only [mkRecord, CST.tree, mkEnts_trees, List.map_cons]

theorem mkRecord_items (es : List Ent) :
    (mkRecord es).items = [.prim (.record (es.map CST.entTree))] := by
  cases es with
  | nil => rfl
  | cons e es => simp only [mkRecord, CST.items, mkEnts_trees, List.map_cons]

theorem mkRecord_text (es : List Ent) :
    (mkRecord es).text = '{' :: ([',', ' '].intercalate (es.map CST.entText) ++ ['}']) := by
  cases es with
  | nil => simp [mkRecord, CST.text, layChars, List.intercalate]
  | cons e es =>
    simp only [mkRecord, CST.text, mkEnts_text, List.map_cons, Close.text, layChars, List.nil_append]

theorem mkRecord_isParen (es : List Ent) : (mkRecord es).isParen = false := by
  cases es <;> rfl

theorem mkRecord_shaped {es : List Ent} (h : ∀ q ∈ es, CST.EntShaped q) : (mkRecord es).Shaped := by
  cases es with
  | nil => trivial
  | cons e es =>
    exact mkEnts_shaped es e (h e List.mem_cons_self) (fun x hx => h x (List.mem_cons_of_mem _ hx))

theorem mkRecord_layout {es : List Ent} (h : ∀ q ∈ es, CST.EntLayoutOk q) :
    (mkRecord es).LayoutOk := by
  cases es with
  | nil => trivial
  | cons e es =>
    exact ⟨mkEnts_layout es e (h e List.mem_cons_self)
      (fun x hx => h x (List.mem_cons_of_mem _ hx)), rfl⟩

/-- a bare key of the printer is an identifier of the grammar -/
theorem nameOk_of_valid {k : String} (h : isValidIdentifier k = true) : nameOk k = true := by
  obtain ⟨hres, c, rest, hk, hc, hrest⟩ := PrintL.isValidIdentifier_spec k h
  rw [PrintL.reserved_lists_agree] at hres
  simp only [nameOk, Bool.and_eq_true, Bool.not_eq_true']
  refine ⟨?_, ?_⟩
  · rw [hk]
    simp only [identShape, Bool.and_eq_true, List.all_eq_true]
    refine ⟨?_, fun d hd => ?_⟩
    · rcases hc with hc | hc
      · simp only [isIdentStart, Bool.or_eq_true]; exact Or.inl hc
      · subst hc; decide
    · rcases hrest d hd with h1 | h1 | h1
      · simp only [isIdentChar, Bool.or_eq_true]; exact Or.inl (Or.inl h1)
      · simp only [isIdentChar, Bool.or_eq_true]; exact Or.inl (Or.inr h1)
      · subst h1; decide
  · cases hcn : Gen.grammarReserved.contains k with
    | false => rfl
    | true => exact absurd (List.contains_iff_mem.mp hcn) hres

theorem keyEnt_tree (k : String) (v : CST) : CST.entTree (keyEnt k v) = .mk [] (.static k) v.tree none := by
  unfold keyEnt; split <;> rfl

theorem keyEnt_shaped {k : String} {v : CST} (hv : v.Shaped) : CST.EntShaped (keyEnt k v) := by
  unfold keyEnt; split <;> exact hv

theorem keyEnt_shaped_inv {k : String} {v : CST} (h : CST.EntShaped (keyEnt k v)) : v.Shaped := by
  unfold keyEnt at h; split at h <;> exact h

theorem keyEnt_layout {k : String} {v : CST} (h : (isValidIdentifier k || !bothQuotes k) = true)
    (hv : v.LayoutOk) : CST.EntLayoutOk (keyEnt k v) := by
  unfold keyEnt
  split
  · rename_i hval
    exact ⟨nameOk_of_valid hval, rfl, hv⟩
  · rename_i hval
    simp only [hval, Bool.false_or, Bool.not_eq_true'] at h
    refine ⟨?_, rfl, hv⟩
    cases hd : k.toList.contains '"' with
    | false => simpa [quoteChar] using hd
    | true =>
      simp only [bothQuotes, hd, Bool.true_and] at h
      simpa [quoteChar] using h

theorem keyEnt_text {k : String} {v : CST} (h : (isValidIdentifier k || !bothQuotes k) = true) :
    CST.entText (keyEnt k v) = (formatRecordKey k).toList ++ (':' :: ' ' :: v.text) := by
  unfold keyEnt formatRecordKey
  split
  · simp [CST.entText, layChars, LayAtom.chars]
  · rename_i hval
    simp only [hval, Bool.false_or, Bool.not_eq_true'] at h
    have hnb : (k.toList.contains '"' && k.toList.contains '\'') = false := h
    simp only [hnb, Bool.not_false, if_true]
    have := canonStr_text k h
    simp only [canonStr, h, Bool.false_eq_true, if_false, CST.text] at this
    simp only [CST.entText, layChars, LayAtom.chars, List.nil_append, ← this, List.append_assoc,
      List.cons_append, List.singleton_append]

theorem headOf_args (args : List LArg) : (headOf args).args = args := by
  cases args with
  | nil => rfl
  | cons a as => simp [headOf, LamHead.args, List.map_map, Function.comp_def]

theorem moreText_canon (as : List LArg) :
    moreText (as.map fun x => (([] : Lay), [LayAtom.sp], x)) =
      (as.map fun x => [',', ' '] ++ argText x).flatten := by
  induction as with
  | nil => rfl
  | cons a as ih => simp [moreText, layChars, LayAtom.chars, ih]

theorem intercalate_cons_flatten {α} (sep x : List α) (xs : List (List α)) :
    sep.intercalate (x :: xs) = x ++ (xs.map fun y => sep ++ y).flatten := by
  induction xs generalizing x with
  | nil => simp [List.intercalate]
  | cons y ys ih => rw [intercalate_cons2, ih]; simp

theorem headOf_text (args : List LArg) :
    (headOf args).text = '(' :: ([',', ' '].intercalate (args.map argText) ++ [')']) := by
  cases args with
  | nil => simp [headOf, LamHead.text, layChars, List.intercalate]
  | cons a as =>
    simp only [headOf, LamHead.text, layChars, List.nil_append, moreText_canon, Close.text,
      List.map_cons, intercalate_cons_flatten, List.append_assoc, List.map_map, Function.comp_def]

theorem headOf_ok (args : List LArg) : (headOf args).ok = true := by
  cases args with
  | nil => rfl
  | cons a as => simp [headOf, LamHead.ok, wsOnly, Close.okCall]

theorem headOf_namesOk {args : List LArg} (h : (args.all fun a => nameOk a.name) = true) :
    (headOf args).namesOk = true := by
  simp only [LamHead.namesOk, headOf_args, h, Bool.true_and]
  cases args <;> rfl

theorem argText_src (a : LArg) : (lambdaArgToSource a).toList = argText a := by
  cases a <;> simp [lambdaArgToSource, argText, spreadLit_eq]

theorem foldl_scopeRemove_nil (args : List LArg) :
    args.foldl (fun s a => scopeRemove s a.name) ([] : Scope) = [] := by
  induction args with
  | nil => rfl
  | cons a as ih => simpa [List.foldl, scopeRemove] using ih

/-! #### `canon` -/

theorem unSpread_of_frag {t : Expr} (h : Frag t) : unSpread t = t := by
  cases t <;> first | rfl | simp [Frag, frag, fragB] at h

theorem fragB_weaken {sp : Bool} {t : Expr} (h : fragB sp t = true) : Frag (unSpread t) := by
  cases t with
  | doBlock ss r =>
    cases r
    simpa [Frag, frag, fragB, fragRet, unSpread] using h
  | _ => simp_all [Frag, frag, fragB, unSpread]

theorem protC_tree (c : CST) : (protC c).tree = c.tree := by
  unfold protC; split <;> rfl

theorem protC_shaped {c : CST} (h : c.Shaped) : (protC c).Shaped := by
  unfold protC; split <;> exact h

theorem protC_layout {c : CST} (h : c.LayoutOk) : (protC c).LayoutOk := by
  unfold protC; split <;> exact h

mutual
theorem canon_tree : ∀ (sp : Bool) (t : Expr), fragB sp t = true → (canon t).tree = unSpread t
  | _, .bin op l r, h => by
    simp only [fragB, Bool.and_eq_true] at h
    have hl := (canon_tree false l h.1).trans (unSpread_of_frag h.1)
    have hr := (canon_tree false r h.2).trans (unSpread_of_frag h.2)
    simp only [canon, CST.tree, wrap_tree, hl, hr]; rfl
  | _, .un op e, h => by
    simp only [fragB, Bool.and_eq_true] at h
    have he := (canon_tree false e h.2).trans (unSpread_of_frag h.2)
    simp only [canon, CST.tree, wrap_tree, he]; rfl
  | _, .fact e, h => by
    simp only [fragB] at h
    have he := (canon_tree false e h).trans (unSpread_of_frag h)
    simp only [canon, CST.tree, wrap_tree, he]; rfl
  | _, .call f args, h => by
    simp only [fragB, Bool.and_eq_true] at h
    have hf := (canon_tree false f h.1).trans (unSpread_of_frag h.1)
    simp only [canon, mkCall_tree, wrap_tree, hf, canonArgs_tree args h.2]; rfl
  | _, .access e i, h => by
    simp only [fragB, Bool.and_eq_true] at h
    have he := (canon_tree false e h.1).trans (unSpread_of_frag h.1)
    have hi := (canon_tree false i h.2).trans (unSpread_of_frag h.2)
    simp only [canon, CST.tree, wrap_tree, he, hi]; rfl
  | _, .dot e n, h => by
    simp only [fragB, Bool.and_eq_true] at h
    have he := (canon_tree false e h.1).trans (unSpread_of_frag h.1)
    simp only [canon, CST.tree, wrap_tree, he]; rfl
  | sp, .spread e, h => by
    simp only [fragB, Bool.and_eq_true] at h
    have he := (canon_tree false e h.2).trans (unSpread_of_frag h.2)
    simp only [canon, he]; rfl
  | _, .list items, h => by
    simp only [fragB] at h
    simp only [canon, mkList_tree, canonItems_tree items h]; rfl
  | _, .lambda args body, h => by
    simp only [fragB, Bool.and_eq_true] at h
    have hb := (canon_tree false body h.2).trans (unSpread_of_frag h.2)
    simp only [canon, CST.tree, headOf_args, wrap_tree, hb]; rfl
  | _, .cond c t e, h => by
    simp only [fragB, Bool.and_eq_true] at h
    have hc := (canon_tree false c h.1.1).trans (unSpread_of_frag h.1.1)
    have ht := (canon_tree false t h.1.2).trans (unSpread_of_frag h.1.2)
    have he := (canon_tree false e h.2).trans (unSpread_of_frag h.2)
    simp only [canon, CST.tree, hc, ht, he]; rfl
  | _, .ident _, _ | _, .builtin _, _ | _, .bool _, _ | _, .null, _ | _, .num _, _ => rfl
  | _, .str s, _ => by simp only [canon, canonStr_tree]; rfl
  | _, .record es, h => by
    simp only [fragB] at h
    simp only [canon, mkRecord_tree, canonEntries_tree es h]; rfl
  | _, .doBlock ss (.mk lead e tr), h => by
    simp only [fragB, fragRet, Bool.and_eq_true] at h
    obtain ⟨hss, hp, he⟩ := h
    obtain ⟨rfl, rfl⟩ := entPlain_eq hp
    have het := (canon_tree false e he).trans (unSpread_of_frag he)
    simp only [canon, CST.tree, canonStmts_tree ss hss, het]; rfl
  | _, .assign n v, h => by
    simp only [fragB, Bool.and_eq_true] at h
    have hv := (canon_tree false v h.2).trans (unSpread_of_frag h.2)
    simp only [canon, CST.tree, hv]; rfl
  | _, .inref _, h | _, .output _, h => by
    simp [fragB] at h
theorem canonArgs_tree : ∀ (args : List Expr), fragArgs args = true →
    (canonArgs args).map argT = args
  | [], _ => rfl
  | a :: rest, h => by
    simp only [fragArgs, Bool.and_eq_true] at h
    simp only [canonArgs, List.map_cons, argT, canon_tree true a h.1, canonArgs_tree rest h.2,
      (fragB_true a h.1).2]
theorem canonItems_tree : ∀ (items : List Item), fragItems items = true →
    mkItems ((canonItems items).map argT) = items
  | [], _ => rfl
  | (.mk lead e tr) :: rest, h => by
    simp only [fragItems, Bool.and_eq_true, List.isEmpty_iff, Option.isNone_iff_eq_none] at h
    obtain ⟨⟨⟨rfl, rfl⟩, he⟩, hr⟩ := h
    have ih := canonItems_tree rest hr
    simp only [mkItems] at ih ⊢
    simp only [canonItems, List.map_cons, argT, canon_tree true e he, ih, (fragB_true e he).2]
theorem canonStmts_tree : ∀ (ss : List Item), fragStmts ss = true →
    CST.stmtsTrees (canonStmts ss) = ss
  | [], _ => rfl
  | (.mk lead e tr) :: rest, h => by
    simp only [fragStmts, Bool.and_eq_true] at h
    obtain ⟨⟨hp, he, _⟩, hr⟩ := h
    obtain ⟨rfl, rfl⟩ := entPlain_eq hp
    have het := (canon_tree false e he).trans (unSpread_of_frag he)
    simp only [canonStmts, CST.stmtsTrees, protC_tree, het, canonStmts_tree rest hr]
theorem canonEntries_tree : ∀ (es : List Entry), fragEntries es = true →
    (canonEntries es).map CST.entTree = es
  | [], _ => rfl
  | e :: rest, h => by
    simp only [fragEntries, Bool.and_eq_true] at h
    simp only [canonEntries, List.map_cons, canonEnt_tree e h.1, canonEntries_tree rest h.2]
theorem canonEnt_tree : ∀ (en : Entry), fragEntry en = true → CST.entTree (canonEnt en) = en
  | .mk lead (.static k) v tr, h => by
    simp only [fragEntry, Bool.and_eq_true] at h
    obtain ⟨⟨hp, hk⟩, hv⟩ := h
    obtain ⟨rfl, rfl⟩ := entPlain_eq hp
    have hvt := (canon_tree false v hv).trans (unSpread_of_frag hv)
    simp only [canonEnt, hp, hk, Bool.and_self, if_true, keyEnt_tree, hvt]
  | .mk lead (.dyn ke) v tr, h => by
    simp only [fragEntry, Bool.and_eq_true] at h
    obtain ⟨⟨hp, hk⟩, hv⟩ := h
    obtain ⟨rfl, rfl⟩ := entPlain_eq hp
    have hvt := (canon_tree false v hv).trans (unSpread_of_frag hv)
    have hkt := (canon_tree false ke hk).trans (unSpread_of_frag hk)
    simp only [canonEnt, hp, if_true, CST.entTree, hvt, hkt]
  | .mk lead (.short n) v tr, h => by
    simp only [fragEntry, Bool.and_eq_true] at h
    obtain ⟨⟨hp, hn⟩, _⟩ := h
    obtain ⟨rfl, rfl⟩ := entPlain_eq hp
    have := isNullE_eq hn
    subst this
    simp only [canonEnt, hp, hn, Bool.and_self, if_true, CST.entTree]
  | .mk lead (.spread (.spread e)) v tr, h => by
    simp only [fragEntry, Bool.and_eq_true] at h
    obtain ⟨⟨hp, hn⟩, he⟩ := h
    obtain ⟨rfl, rfl⟩ := entPlain_eq hp
    have := isNullE_eq hn
    subst this
    have het := (canon_tree false e he).trans (unSpread_of_frag he)
    simp only [canonEnt, hp, hn, Bool.and_self, if_true, CST.entTree, het]
  | .mk _ (.spread (.num _)) _ _, h | .mk _ (.spread (.str _)) _ _, h
  | .mk _ (.spread (.bool _)) _ _, h | .mk _ (.spread .null) _ _, h
  | .mk _ (.spread (.ident _)) _ _, h | .mk _ (.spread (.inref _)) _ _, h
  | .mk _ (.spread (.builtin _)) _ _, h | .mk _ (.spread (.list _)) _ _, h
  | .mk _ (.spread (.record _)) _ _, h | .mk _ (.spread (.lambda _ _)) _ _, h
  | .mk _ (.spread (.cond _ _ _)) _ _, h | .mk _ (.spread (.doBlock _ _)) _ _, h
  | .mk _ (.spread (.assign _ _)) _ _, h | .mk _ (.spread (.output _)) _ _, h
  | .mk _ (.spread (.call _ _)) _ _, h | .mk _ (.spread (.access _ _)) _ _, h
  | .mk _ (.spread (.dot _ _)) _ _, h | .mk _ (.spread (.bin _ _ _)) _ _, h
  | .mk _ (.spread (.un _ _)) _ _, h | .mk _ (.spread (.fact _)) _ _, h => by
    simp [fragEntry] at h
end

theorem canon_tree_frag (t : Expr) (h : Frag t) : (canon t).tree = t :=
  (canon_tree false t h).trans (unSpread_of_frag h)

theorem canon_isParen : ∀ t : Expr, (canon t).isParen = false
  | .call f args => by simp only [canon, mkCall_isParen]
  | .spread e => by simp only [canon, canon_isParen e]
  | .list items => by simp only [canon, mkList_isParen]
  | .lambda _ _ => rfl
  | .cond _ _ _ => rfl
  | .str s => by simp only [canon, canonStr_isParen]
  | .record es => by simp only [canon, mkRecord_isParen]
  | .doBlock _ (.mk _ _ _) => rfl
  | .bin .. | .un .. | .fact .. | .access .. | .dot .. | .ident _ | .builtin _ | .bool _ | .null
  | .num _ | .inref _
  | .assign _ _ | .output _ => rfl

theorem canon_items : ∀ (sp : Bool) (t : Expr), fragB sp t = true →
    (canon t).items = PrattRT.items (unSpread t)
  | _, .bin op l r, h => by
    simp only [fragB, Bool.and_eq_true] at h
    have hl := canon_items false l h.1
    have hr := canon_items false r h.2
    rw [unSpread_of_frag h.1] at hl
    rw [unSpread_of_frag h.2] at hr
    simp only [unSpread, canon, CST.items, wrap_items, wrap_tree, canon_tree_frag l h.1,
      canon_tree_frag r h.2, hl, hr, PrattRT.items_bin, PrattRT.child]
  | _, .un op e, h => by
    simp only [fragB, Bool.and_eq_true] at h
    have he := canon_items false e h.2
    rw [unSpread_of_frag h.2] at he
    simp only [unSpread, canon, CST.items, wrap_items, canon_tree_frag e h.2, he,
      PrattRT.items_un, PrattRT.child]
  | _, .fact e, h => by
    simp only [fragB] at h
    have he := canon_items false e h
    rw [unSpread_of_frag h] at he
    simp only [unSpread, canon, CST.items, wrap_items, canon_tree_frag e h, he,
      PrattRT.items_fact, PrattRT.child]
  | _, .call f args, h => by
    simp only [fragB, Bool.and_eq_true] at h
    have hf := canon_items false f h.1
    rw [unSpread_of_frag h.1] at hf
    simp only [unSpread, canon, mkCall_items, wrap_items, canon_tree_frag f h.1, hf,
      canonArgs_tree args h.2, PrattRT.items_call, PrattRT.child]
  | _, .access e i, h => by
    simp only [fragB, Bool.and_eq_true] at h
    have he := canon_items false e h.1
    rw [unSpread_of_frag h.1] at he
    simp only [unSpread, canon, CST.items, wrap_items, canon_tree_frag e h.1,
      canon_tree_frag i h.2, he, PrattRT.items_access, PrattRT.child]
  | _, .dot e n, h => by
    simp only [fragB, Bool.and_eq_true] at h
    have he := canon_items false e h.1
    rw [unSpread_of_frag h.1] at he
    simp only [unSpread, canon, CST.items, wrap_items, canon_tree_frag e h.1, he,
      PrattRT.items_dot, PrattRT.child]
  | sp, .spread e, h => by
    simp only [fragB, Bool.and_eq_true] at h
    have he := canon_items false e h.2
    rw [unSpread_of_frag h.2] at he
    simp only [canon, he, unSpread]
  | _, .list items, h => by
    simp only [fragB] at h
    simp only [canon, mkList_items, canonItems_tree items h]; rfl
  | _, .lambda args body, h => by
    simp only [fragB, Bool.and_eq_true] at h
    simp only [canon, CST.items, headOf_args, wrap_tree, canon_tree_frag body h.2]; rfl
  | _, .cond c t e, h => by
    simp only [fragB, Bool.and_eq_true] at h
    simp only [canon, CST.items, canon_tree_frag c h.1.1, canon_tree_frag t h.1.2,
      canon_tree_frag e h.2]; rfl
  | _, .ident _, _ | _, .builtin _, _ | _, .bool _, _ | _, .null, _ | _, .num _, _ => rfl
  | _, .str s, _ => by simp only [canon, canonStr_items]; rfl
  | _, .record es, h => by
    simp only [fragB] at h
    simp only [canon, mkRecord_items, canonEntries_tree es h]; rfl
  | _, .doBlock ss (.mk lead e tr), h => by
    simp only [fragB, fragRet, Bool.and_eq_true] at h
    obtain ⟨hss, hp, he⟩ := h
    obtain ⟨rfl, rfl⟩ := entPlain_eq hp
    simp only [canon, CST.items, canonStmts_tree ss hss, canon_tree_frag e he]; rfl
  | _, .assign n v, h => by
    simp only [fragB, Bool.and_eq_true] at h
    simp only [unSpread, canon, CST.items, canon_tree_frag v h.2]; rfl
  | _, .inref _, h | _, .output _, h => by
    simp [fragB] at h

theorem canon_items_frag (t : Expr) (h : Frag t) : (canon t).items = PrattRT.items t := by
  rw [canon_items false t h, unSpread_of_frag h]

/-! #### statements of a do-block as the printer writes them -/

theorem mkCall_headOk (f : CST) (ps : List (Bool × CST)) : (mkCall f ps).headOk = f.headOk := by
  cases ps <;> rfl

theorem mkCall_startsMinus (f : CST) (ps : List (Bool × CST)) :
    (mkCall f ps).startsMinus = f.startsMinus := by
  cases ps <;> rfl

theorem mkList_headOk (ps : List (Bool × CST)) : (mkList ps).headOk := by
  cases ps <;> trivial

theorem mkRecord_headOk (es : List Ent) : (mkRecord es).headOk := by
  cases es <;> trivial

theorem canonStr_headOk {s : String} (h : bothQuotes s = false) : (canonStr s).headOk := by
  unfold canonStr; rw [h]; trivial

def isNumE : Expr → Bool
  | .num _ => true
  | _ => false

theorem naturalLits_notNum :
    (naturalLits.all fun x => match termAtom x.2 with | some (e, _) => !isNumE e | none => true) = true := by
  decide +kernel

theorem wordOpText_atom {e : Expr} (h : atomOk e = true) (hk : ∀ n, e ≠ .ident n)
    (hb : ∀ n, e ≠ .builtin n) : CST.wordOpText (atomText e) = false := by
  cases e with
  | ident n => exact absurd rfl (hk n)
  | builtin n => exact absurd rfl (hb n)
  | bool b => cases b <;> decide +kernel
  | null => decide +kernel
  | num x =>
    cases hw : CST.wordOpText (atomText (.num x)) with
    | false => rfl
    | true =>
      exfalso
      simp only [CST.wordOpText, List.any_eq_true, beq_iff_eq] at hw
      obtain ⟨l, hl, hlt⟩ := hw
      have h1 := (atom_word h).2.2.2 [] rfl
      rw [List.append_nil, ← hlt] at h1
      have := List.all_eq_true.mp naturalLits_notNum l hl
      rw [h1] at this
      simp [isNumE] at this
  | _ => simp [atomOk] at h

/-- a statement of the fragment that does not start with a prefix minus may stand behind a
    line break -/
theorem headOk_canon : ∀ (t : Expr), fragB false t = true → stmtHeadOk t = true →
    (canon t).startsMinus = false → (canon t).headOk
  | .bin op l r, h, hs, hm => by
    simp only [fragB, Bool.and_eq_true] at h
    simp only [stmtHeadOk, Bool.or_eq_true] at hs
    simp only [canon, CST.headOk, CST.startsMinus] at hm ⊢
    cases hp : needsParens l (.binLeft op) with
    | true => simp only [wrap, if_true]; trivial
    | false =>
      rw [hp] at hm hs
      simp only [wrap, Bool.false_eq_true, if_false] at hm ⊢
      exact headOk_canon l h.1 (by simpa using hs) hm
  | .un op e, h, _, hm => by
    simp only [fragB, Bool.and_eq_true, bne_iff_ne, ne_eq] at h
    simp only [canon, CST.startsMinus] at hm
    simp only [canon, CST.headOk]
    cases op with
    | negate => simp at hm
    | not => rfl
    | invert => exact absurd rfl h.1
  | .fact e, h, hs, hm => by
    simp only [fragB] at h
    simp only [stmtHeadOk, Bool.or_eq_true] at hs
    simp only [canon, CST.headOk, CST.startsMinus] at hm ⊢
    cases hp : needsParens e .postfix_ with
    | true => simp only [wrap, if_true]; trivial
    | false =>
      rw [hp] at hm hs
      simp only [wrap, Bool.false_eq_true, if_false] at hm ⊢
      exact headOk_canon e h (by simpa using hs) hm
  | .call f args, h, hs, hm => by
    simp only [fragB, Bool.and_eq_true] at h
    simp only [stmtHeadOk, Bool.or_eq_true] at hs
    simp only [canon, mkCall_headOk, mkCall_startsMinus] at hm ⊢
    cases hp : needsParens f .postfix_ with
    | true => simp only [wrap, if_true]; trivial
    | false =>
      rw [hp] at hm hs
      simp only [wrap, Bool.false_eq_true, if_false] at hm ⊢
      exact headOk_canon f h.1 (by simpa using hs) hm
  | .access e i, h, hs, hm => by
    simp only [fragB, Bool.and_eq_true] at h
    simp only [stmtHeadOk, Bool.or_eq_true] at hs
    simp only [canon, CST.headOk, CST.startsMinus] at hm ⊢
    cases hp : needsParens e .postfix_ with
    | true => simp only [wrap, if_true]; trivial
    | false =>
      rw [hp] at hm hs
      simp only [wrap, Bool.false_eq_true, if_false] at hm ⊢
      exact headOk_canon e h.1 (by simpa using hs) hm
  | .dot e n, h, hs, hm => by
    simp only [fragB, Bool.and_eq_true] at h
    simp only [stmtHeadOk, Bool.or_eq_true] at hs
    simp only [canon, CST.headOk, CST.startsMinus] at hm ⊢
    cases hp : needsParens e .postfix_ with
    | true => simp only [wrap, if_true]; trivial
    | false =>
      rw [hp] at hm hs
      simp only [wrap, Bool.false_eq_true, if_false] at hm ⊢
      exact headOk_canon e h.1 (by simpa using hs) hm
  | .list items, _, _, _ => by simp only [canon]; exact mkList_headOk _
  | .record es, _, _, _ => by simp only [canon]; exact mkRecord_headOk _
  | .lambda args body, _, hs, _ => by
    simp only [stmtHeadOk] at hs
    simp only [canon, CST.headOk, headOf_args, hs]
  | .cond c t e, _, _, _ => trivial
  | .doBlock ss (.mk _ e _), _, _, _ => trivial
  | .str s, h, _, _ => by
    simp only [fragB, Bool.not_eq_true'] at h
    simp only [canon]; exact canonStr_headOk h
  | .ident n, _, hs, _ => by
    simp only [stmtHeadOk, Bool.not_eq_true'] at hs
    have : atomText (.ident n) = n.toList := by simp [atomText, exprToSource, exprSrc, lookupAL]
    simp only [canon, CST.headOk, this, hs]
  | .builtin n, _, hs, _ => by
    simp only [stmtHeadOk, Bool.not_eq_true'] at hs
    have : atomText (.builtin n) = n.toList := by simp [atomText, exprToSource, exprSrc]
    simp only [canon, CST.headOk, this, hs]
  | .bool b, h, _, _ => by
    simp only [fragB] at h
    exact wordOpText_atom h (fun n e => by cases e) (fun n e => by cases e)
  | .null, h, _, _ => by
    simp only [fragB] at h
    exact wordOpText_atom h (fun n e => by cases e) (fun n e => by cases e)
  | .num x, h, _, _ => by
    simp only [fragB] at h
    exact wordOpText_atom h (fun n e => by cases e) (fun n e => by cases e)
  | .assign n v, _, hs, _ => by
    simp only [stmtHeadOk, Bool.not_eq_true'] at hs
    simp only [canon, CST.headOk, hs]
  | .spread _, h, _, _ | .inref _, h, _, _ | .output _, h, _, _ => by
    simp [fragB] at h

theorem headOk_protC_canon (t : Expr) (h : fragB false t = true) (hs : stmtHeadOk t = true) :
    (protC (canon t)).headOk := by
  unfold protC
  split
  · trivial
  · rename_i hm
    exact headOk_canon t h hs (by simpa using hm)

mutual
theorem canon_shaped : ∀ (sp : Bool) (t : Expr), fragB sp t = true → (canon t).Shaped
  | _, .bin op l r, h => by
    simp only [fragB, Bool.and_eq_true] at h
    refine ⟨wrap_shaped (canon_shaped false l h.1), wrap_shaped (canon_shaped false r h.2), ?_, ?_⟩
    · intro hp
      rw [wrap_tree, canon_tree_frag l h.1]
      exact wrap_isParen (canon_isParen l) hp
    · intro hp
      rw [wrap_tree, canon_tree_frag r h.2]
      exact wrap_isParen (canon_isParen r) hp
  | _, .un op e, h => by
    simp only [fragB, Bool.and_eq_true, bne_iff_ne, ne_eq] at h
    refine ⟨h.1, wrap_shaped (canon_shaped false e h.2), ?_⟩
    intro hp
    rw [wrap_tree, canon_tree_frag e h.2]
    exact wrap_isParen (canon_isParen e) hp
  | _, .fact e, h => by
    simp only [fragB] at h
    refine ⟨wrap_shaped (canon_shaped false e h), ?_⟩
    intro hp
    rw [wrap_tree, canon_tree_frag e h]
    exact wrap_isParen (canon_isParen e) hp
  | _, .call f args, h => by
    simp only [fragB, Bool.and_eq_true] at h
    refine mkCall_shaped (wrap_shaped (canon_shaped false f h.1)) ?_ (canonArgs_shaped args h.2)
    intro hp
    rw [wrap_tree, canon_tree_frag f h.1]
    exact wrap_isParen (canon_isParen f) hp
  | _, .access e i, h => by
    simp only [fragB, Bool.and_eq_true] at h
    refine ⟨wrap_shaped (canon_shaped false e h.1), ?_, canon_shaped false i h.2⟩
    intro hp
    rw [wrap_tree, canon_tree_frag e h.1]
    exact wrap_isParen (canon_isParen e) hp
  | _, .dot e n, h => by
    simp only [fragB, Bool.and_eq_true] at h
    refine ⟨wrap_shaped (canon_shaped false e h.1), ?_, h.2⟩
    intro hp
    rw [wrap_tree, canon_tree_frag e h.1]
    exact wrap_isParen (canon_isParen e) hp
  | sp, .spread e, h => by
    simp only [fragB, Bool.and_eq_true] at h
    exact canon_shaped false e h.2
  | _, .list items, h => by
    simp only [fragB] at h
    exact mkList_shaped (canonItems_shaped items h)
  | _, .lambda args body, h => by
    simp only [fragB, Bool.and_eq_true] at h
    refine ⟨headOf_namesOk h.1, wrap_shaped (canon_shaped false body h.2), ?_, ?_⟩
    · intro hp
      rw [wrap_tree, canon_tree_frag body h.2]
      exact wrap_isParen (canon_isParen body) hp
    · rw [wrap_items]
      split
      · intro op hm; simp at hm
      · rename_i hnp
        rw [canon_items_frag body h.2]
        exact (noChain_body body (by simpa using hnp)).lamSafe
  | _, .cond c t e, h => by
    simp only [fragB, Bool.and_eq_true] at h
    exact ⟨canon_shaped false c h.1.1, canon_shaped false t h.1.2, canon_shaped false e h.2⟩
  | _, .ident _, h | _, .builtin _, h | _, .bool _, h | _, .null, h | _, .num _, h => by
    simp only [fragB] at h; exact h
  | _, .str s, h => by
    simp only [fragB, Bool.not_eq_true'] at h
    exact canonStr_shaped s h
  | _, .record es, h => by
    simp only [fragB] at h
    exact mkRecord_shaped (canonEntries_shaped es h)
  | _, .doBlock ss (.mk lead e tr), h => by
    simp only [fragB, fragRet, Bool.and_eq_true] at h
    exact ⟨canonStmts_shaped ss h.1, canon_shaped false e h.2.2⟩
  | _, .assign n v, h => by
    simp only [fragB, Bool.and_eq_true] at h
    exact ⟨h.1, canon_shaped false v h.2⟩
  | _, .inref _, h | _, .output _, h => by
    simp [fragB] at h
theorem canonArgs_shaped : ∀ (args : List Expr), fragArgs args = true →
    ∀ q ∈ canonArgs args, q.2.Shaped
  | [], _ => by intro q hq; cases hq
  | a :: rest, h => by
    simp only [fragArgs, Bool.and_eq_true] at h
    intro q hq
    simp only [canonArgs, List.mem_cons] at hq
    rcases hq with rfl | hq
    · exact canon_shaped true a h.1
    · exact canonArgs_shaped rest h.2 q hq
theorem canonItems_shaped : ∀ (items : List Item), fragItems items = true →
    ∀ q ∈ canonItems items, q.2.Shaped
  | [], _ => by intro q hq; cases hq
  | (.mk lead e tr) :: rest, h => by
    simp only [fragItems, Bool.and_eq_true] at h
    intro q hq
    simp only [canonItems, List.mem_cons] at hq
    rcases hq with rfl | hq
    · exact canon_shaped true e h.1.2
    · exact canonItems_shaped rest h.2 q hq
theorem canonStmts_shaped : ∀ (ss : List Item), fragStmts ss = true →
    CST.StmtsShaped (canonStmts ss)
  | [], _ => trivial
  | (.mk lead e tr) :: rest, h => by
    simp only [fragStmts, Bool.and_eq_true] at h
    obtain ⟨⟨_, he, _⟩, hr⟩ := h
    refine ⟨protC_shaped (canon_shaped false e he), fun _ => ?_, canonStmts_shaped rest hr⟩
    cases rest with
    | nil => trivial
    | cons i rest' =>
      obtain ⟨lead', e', tr'⟩ := i
      simp only [fragStmts, Bool.and_eq_true] at hr
      exact headOk_protC_canon e' hr.1.2.1 hr.1.2.2
theorem canonEntries_shaped : ∀ (es : List Entry), fragEntries es = true →
    ∀ q ∈ canonEntries es, CST.EntShaped q
  | [], _ => by intro q hq; cases hq
  | e :: rest, h => by
    simp only [fragEntries, Bool.and_eq_true] at h
    intro q hq
    simp only [canonEntries, List.mem_cons] at hq
    rcases hq with rfl | hq
    · exact canonEnt_shaped e h.1
    · exact canonEntries_shaped rest h.2 q hq
theorem canonEnt_shaped : ∀ (en : Entry), fragEntry en = true → CST.EntShaped (canonEnt en)
  | .mk lead (.static k) v tr, h => by
    simp only [fragEntry, Bool.and_eq_true] at h
    obtain ⟨⟨hp, hk⟩, hv⟩ := h
    simp only [canonEnt, hp, hk, Bool.and_self, if_true]
    exact keyEnt_shaped (canon_shaped false v hv)
  | .mk lead (.dyn ke) v tr, h => by
    simp only [fragEntry, Bool.and_eq_true] at h
    obtain ⟨⟨hp, hk⟩, hv⟩ := h
    simp only [canonEnt, hp, if_true]
    exact ⟨canon_shaped false ke hk, canon_shaped false v hv⟩
  | .mk lead (.short n) v tr, h => by
    simp only [fragEntry, Bool.and_eq_true] at h
    obtain ⟨⟨hp, hn⟩, hname⟩ := h
    simp only [canonEnt, hp, hn, Bool.and_self, if_true]
    exact hname
  | .mk lead (.spread (.spread e)) v tr, h => by
    simp only [fragEntry, Bool.and_eq_true] at h
    obtain ⟨⟨hp, hn⟩, he⟩ := h
    simp only [canonEnt, hp, hn, Bool.and_self, if_true]
    exact canon_shaped false e he
  | .mk _ (.spread (.num _)) _ _, h | .mk _ (.spread (.str _)) _ _, h
  | .mk _ (.spread (.bool _)) _ _, h | .mk _ (.spread .null) _ _, h
  | .mk _ (.spread (.ident _)) _ _, h | .mk _ (.spread (.inref _)) _ _, h
  | .mk _ (.spread (.builtin _)) _ _, h | .mk _ (.spread (.list _)) _ _, h
  | .mk _ (.spread (.record _)) _ _, h | .mk _ (.spread (.lambda _ _)) _ _, h
  | .mk _ (.spread (.cond _ _ _)) _ _, h | .mk _ (.spread (.doBlock _ _)) _ _, h
  | .mk _ (.spread (.assign _ _)) _ _, h | .mk _ (.spread (.output _)) _ _, h
  | .mk _ (.spread (.call _ _)) _ _, h | .mk _ (.spread (.access _ _)) _ _, h
  | .mk _ (.spread (.dot _ _)) _ _, h | .mk _ (.spread (.bin _ _ _)) _ _, h
  | .mk _ (.spread (.un _ _)) _ _, h | .mk _ (.spread (.fact _)) _ _, h => by
    simp [fragEntry] at h
end

/-- one blank on each side is admissible for every operator -/
theorem layOk_sp (op : BinOp) : CST.layOk op [.sp] [.sp] = true := by
  cases h : isWordOp op <;> simp [CST.layOk, h, wsOnly, LayAtom.isWs]

mutual
theorem canon_layout : ∀ t : Expr, (canon t).LayoutOk
  | .bin op l r => ⟨wrap_layout (canon_layout l), wrap_layout (canon_layout r), layOk_sp op⟩
  | .un _ e => wrap_layout (canon_layout e)
  | .fact e => wrap_layout (canon_layout e)
  | .call f args => mkCall_layout (wrap_layout (canon_layout f)) (canonArgs_layout args)
  | .access e i => ⟨wrap_layout (canon_layout e), canon_layout i, rfl, rfl⟩
  | .dot e _ => wrap_layout (canon_layout e)
  | .spread e => canon_layout e
  | .list items => mkList_layout (canonItems_layout items)
  | .lambda args body => ⟨headOf_ok args, rfl, wrap_layout (canon_layout body)⟩
  | .cond c t e =>
    ⟨⟨by simp, rfl, by simp, by simp, by simp, by simp⟩, canon_layout c, canon_layout t,
      canon_layout e⟩
  | .ident _ | .builtin _ | .bool _ | .null | .num _ => trivial
  | .str s => canonStr_layout s
  | .record es => mkRecord_layout (canonEntries_layout es)
  | .doBlock ss (.mk _ e _) =>
    ⟨⟨by simp, by simp, rfl⟩, canonStmts_layout ss, canon_layout e⟩
  | .assign _ v => ⟨rfl, rfl, canon_layout v⟩
  | .inref _ | .output _ => trivial
theorem canonArgs_layout : ∀ (args : List Expr), ∀ q ∈ canonArgs args, q.2.LayoutOk
  | [] => by intro q hq; cases hq
  | a :: rest => by
    intro q hq
    simp only [canonArgs, List.mem_cons] at hq
    rcases hq with rfl | hq
    · exact canon_layout a
    · exact canonArgs_layout rest q hq
theorem canonItems_layout : ∀ (items : List Item), ∀ q ∈ canonItems items, q.2.LayoutOk
  | [] => by intro q hq; cases hq
  | (.mk lead e tr) :: rest => by
    intro q hq
    simp only [canonItems, List.mem_cons] at hq
    rcases hq with rfl | hq
    · exact canon_layout e
    · exact canonItems_layout rest q hq
theorem canonStmts_layout : ∀ (ss : List Item), CST.StmtsLayoutOk (canonStmts ss)
  | [] => trivial
  | (.mk _ e _) :: rest => ⟨protC_layout (canon_layout e), rfl, canonStmts_layout rest⟩
theorem canonEntries_layout : ∀ (es : List Entry), ∀ q ∈ canonEntries es, CST.EntLayoutOk q
  | [] => by intro q hq; cases hq
  | e :: rest => by
    intro q hq
    simp only [canonEntries, List.mem_cons] at hq
    rcases hq with rfl | hq
    · exact canonEnt_layout e
    · exact canonEntries_layout rest q hq
theorem canonEnt_layout : ∀ (en : Entry), CST.EntLayoutOk (canonEnt en)
  | .mk lead (.static k) v tr => by
    simp only [canonEnt]
    split
    · rename_i hc
      simp only [Bool.and_eq_true] at hc
      exact keyEnt_layout hc.2 (canon_layout v)
    · trivial
  | .mk lead (.dyn ke) v tr => by
    simp only [canonEnt]
    split
    · exact ⟨⟨rfl, rfl, rfl⟩, canon_layout ke, canon_layout v⟩
    · trivial
  | .mk lead (.short n) v tr => by
    simp only [canonEnt]
    split <;> trivial
  | .mk lead (.spread (.spread e)) v tr => by
    simp only [canonEnt]
    split
    · exact canon_layout e
    · trivial
  | .mk _ (.spread (.num _)) _ _ | .mk _ (.spread (.str _)) _ _
  | .mk _ (.spread (.bool _)) _ _ | .mk _ (.spread .null) _ _
  | .mk _ (.spread (.ident _)) _ _ | .mk _ (.spread (.inref _)) _ _
  | .mk _ (.spread (.builtin _)) _ _ | .mk _ (.spread (.list _)) _ _
  | .mk _ (.spread (.record _)) _ _ | .mk _ (.spread (.lambda _ _)) _ _
  | .mk _ (.spread (.cond _ _ _)) _ _ | .mk _ (.spread (.doBlock _ _)) _ _
  | .mk _ (.spread (.assign _ _)) _ _ | .mk _ (.spread (.output _)) _ _
  | .mk _ (.spread (.call _ _)) _ _ | .mk _ (.spread (.access _ _)) _ _
  | .mk _ (.spread (.dot _ _)) _ _ | .mk _ (.spread (.bin _ _ _)) _ _
  | .mk _ (.spread (.un _ _)) _ _ | .mk _ (.spread (.fact _)) _ _ => trivial
end

/-! #### the text of a protected statement -/

theorem lamHead_not_minus (hd : LamHead) (h : hd.namesOk = true) (T : List Char) :
    (hd.text ++ T).head? ≠ some '-' := by
  cases hd with
  | unit l => simp [LamHead.text]
  | parens l0 a more c => simp [LamHead.text]
  | bare a =>
    simp only [LamHead.namesOk, LamHead.args, List.all_cons, List.all_nil, Bool.and_true,
      Bool.and_eq_true] at h
    obtain ⟨x, tl, hx, hc⟩ := name_start (n := a.name) h.1
    obtain ⟨_, _, _, _, _, _, _, h8, _, _⟩ := isIdentChar_cases hc
    cases a <;> simp_all [LamHead.text, argText, LArg.name]

/-- on a well-shaped tree the structural test is the test on the text -/
theorem startsMinus_text : ∀ (c : CST), c.Shaped → ∀ T,
    (c.startsMinus = true ↔ (c.text ++ T).head? = some '-')
  | .atom e, h, T => by
    obtain ⟨hne, hall, _, _⟩ := atom_word (e := e) h
    have hstr : ∀ s, e ≠ .str s := by
      intro s he; subst he
      have h' : atomOk (.str s) = true := h
      simp [atomOk] at h'
    cases hw : atomText e with
    | nil => exact absurd hw hne
    | cons x tl =>
      have hx : x ≠ '-' := (isIdentChar_cases (hall x (by rw [hw]; exact List.mem_cons_self))).2.2.2.2.2.2.2.1
      have e1 : CST.startsMinus (.atom e) = false := by
        cases e <;> simp [CST.startsMinus, hw, hx] <;> exact absurd rfl (hstr _)
      simp [CST.text, hw, e1, hx]
  | .str dq s, _, T => by cases dq <;> simp [CST.startsMinus, CST.text, quoteChar]
  | .bin op l a b r, h, T => by
    have := startsMinus_text l h.1 (layChars a ++ (spell op ++ (layChars b ++ r.text)) ++ T)
    simpa only [CST.startsMinus, CST.text, List.append_assoc] using this
  | .un op e, h, T => by
    cases op with
    | negate => simp [CST.startsMinus, CST.text, unaryOpToSource]
    | not => simp [CST.startsMinus, CST.text, unaryOpToSource]
    | invert => exact absurd rfl h.1
  | .fact e, h, T => by
    have := startsMinus_text e h.1 (['!'] ++ T)
    simpa only [CST.startsMinus, CST.text, List.append_assoc] using this
  | .paren a e b, _, T => by simp [CST.startsMinus, CST.text]
  | .call0 f l, h, T => by
    have := startsMinus_text f h.1 ('(' :: (layChars l ++ [')']) ++ T)
    simpa only [CST.startsMinus, CST.text, List.append_assoc] using this
  | .call f l as c, h, T => by
    have := startsMinus_text f h.1 ('(' :: (layChars l ++ (CST.argsText as ++ c.text ')')) ++ T)
    simpa only [CST.startsMinus, CST.text, List.append_assoc] using this
  | .access e a i b, h, T => by
    have := startsMinus_text e h.1 ('[' :: (layChars a ++ (i.text ++ (layChars b ++ [']']))) ++ T)
    simpa only [CST.startsMinus, CST.text, List.append_assoc] using this
  | .dot e n, h, T => by
    have := startsMinus_text e h.1 ('.' :: n.toList ++ T)
    simpa only [CST.startsMinus, CST.text, List.append_assoc] using this
  | .list0 l, _, T => by simp [CST.startsMinus, CST.text]
  | .list l as c, _, T => by simp [CST.startsMinus, CST.text]
  | .rec0 l, _, T => by simp [CST.startsMinus, CST.text]
  | .record l es c, _, T => by simp [CST.startsMinus, CST.text]
  | .cond .., _, T => by simp [CST.startsMinus, CST.text]
  | .doB .., _, T => by simp [CST.startsMinus, CST.text]
  | .asg n w l v, h, T => by
    obtain ⟨x, tl, hx, hc⟩ := name_start (n := n) h.1
    have hx' : x ≠ '-' := (isIdentChar_cases hc).2.2.2.2.2.2.2.1
    simp [CST.startsMinus, CST.text, hx, hx']
  | .lambda hd w l b, h, T => by
    have := lamHead_not_minus hd h.1 (layChars w ++ '=' :: '>' :: (layChars l ++ b.text) ++ T)
    simp only [CST.startsMinus, CST.text, List.append_assoc, Bool.false_eq_true, false_iff]
    simpa only [List.append_assoc] using this

theorem isPrefixOf_split : ∀ (p cs : List Char), p.isPrefixOf cs = true → ∃ r, cs = p ++ r
  | [], cs, _ => ⟨cs, rfl⟩
  | d :: p', [], h => by simp [List.isPrefixOf] at h
  | d :: p', c :: cs', h => by
    simp only [List.isPrefixOf, Bool.and_eq_true, beq_iff_eq] at h
    obtain ⟨r, hr⟩ := isPrefixOf_split p' cs' h.2
    exact ⟨r, by rw [h.1, hr]; rfl⟩

theorem spell_words : spell .via = "via".toList ∧ spell .into = "into".toList ∧
    spell .where_ = "where".toList ∧ isWordOp .via = true ∧ isWordOp .into = true ∧
    isWordOp .where_ = true := by decide +kernel

/-- a word operator followed by a blank, behind a blank, IS taken for an operator -/
theorem infixUsage_wordop (op : BinOp) (hw : isWordOp op = true) (b : Char) (hb : isWs b = true)
    (r : List Char) : infixUsage false (' ' :: (spell op ++ b :: r)) ≠ none := by
  have hs := wordOk_of op hw
  simp only [wordOk, Bool.and_eq_true] at hs
  obtain ⟨hs1, hs2⟩ := hs
  split at hs1
  · rename_i bad hbad
    have hnat : firstRule naturalLits (spell op ++ b :: r) = some (PrattRT.ruleOf op, b :: r) := by
      apply firstRule_hit hbad
      intro hm
      have := List.all_eq_true.mp hs1 b hm
      simp [hb] at this
    split at hs2
    · cases hs2
    · rename_i h t hsp
      have hLA : layoutAtom (spell op ++ b :: r) = none := by
        rw [hsp]; exact layoutAtom_none hs2
      have hlp : layoutPlus (' ' :: (spell op ++ b :: r)) = some (spell op ++ b :: r) := by
        have := layoutPlus_run [.sp] (by simp) _ hLA
        simpa [layChars, LayAtom.chars] using this
      have hwp : (wsPlus (b :: r)).isSome = true := by simp [wsPlus, plus, hb]
      unfold infixUsage
      simp only [hlp, Bool.false_eq_true, if_false, hnat]
      cases hq : wsPlus (b :: r) with
      | none => rw [hq] at hwp; cases hwp
      | some r2 => simp
  · cases hs1

theorem wos_infix {cs : List Char} (h : wordOperatorStart cs = true) :
    infixUsage false (' ' :: cs) ≠ none := by
  simp only [wordOperatorStart, List.any_cons, List.any_nil, Bool.or_false, Bool.or_eq_true] at h
  obtain ⟨s1, s2, s3, w1, w2, w3⟩ := spell_words
  rcases h with (h | h) | (h | h) | (h | h)
  all_goals
    obtain ⟨r, hr⟩ := isPrefixOf_split _ _ h
    rw [hr]
  · have := infixUsage_wordop .via w1 ' ' (by decide) r
    simpa [s1] using this
  · have := infixUsage_wordop .via w1 '\t' (by decide) r
    simpa [s1] using this
  · have := infixUsage_wordop .into w2 ' ' (by decide) r
    simpa [s2] using this
  · have := infixUsage_wordop .into w2 '\t' (by decide) r
    simpa [s2] using this
  · have := infixUsage_wordop .where_ w3 ' ' (by decide) r
    simpa [s3] using this
  · have := infixUsage_wordop .where_ w3 '\t' (by decide) r
    simpa [s3] using this

/-- `protect_statement_start` on the text of a statement of the fragment -/
theorem protC_text (c : CST) (hs : c.Shaped) (hl : c.LayoutOk)
    (hh : c.startsMinus = false → c.headOk) :
    (protC c).text = (protectStatementStart (String.ofList c.text)).toList := by
  have hsm := startsMinus_text c hs []
  simp only [List.append_nil] at hsm
  unfold protC
  cases hm : c.startsMinus with
  | true =>
    have := hsm.mp hm
    rw [PrintL.protectStatementStart_minus _ (by simpa using this)]
    simp [CST.text, layChars]
  | false =>
    have hhead : c.text.head? ≠ some '-' := fun e => by
      have := hsm.mpr e; rw [hm] at this; cases this
    have hwos : wordOperatorStart c.text = false := by
      cases hw : wordOperatorStart c.text with
      | false => rfl
      | true =>
        exfalso
        have h1 := infixUsage_headOk c (hh hm) hs hl [.sp] [] false rfl
        simp only [layChars, LayAtom.chars, List.append_nil, List.cons_append, List.nil_append] at h1
        exact wos_infix hw h1
    rw [PrintL.protectStatementStart_id _ (by simpa using hhead) (by simpa using hwos)]
    simp

theorem scopeAfterStmt_nil' (i : Item) : scopeAfterStmt [] i = [] := by
  obtain ⟨l, e, t⟩ := i
  cases e <;> simp [scopeAfterStmt, scopeRemove]

theorem scopeAfterStmts_nil' : ∀ ss : List Item, scopeAfterStmts [] ss = []
  | [] => rfl
  | i :: rest => by
    simp only [scopeAfterStmts, List.foldl_cons, scopeAfterStmt_nil']
    exact scopeAfterStmts_nil' rest

theorem argS_src (a : Expr) :
    spreadChars (isSpread a) ++ (exprToSource (unSpread a)).toList = (exprToSource a).toList := by
  cases a <;> simp [isSpread, unSpread, spreadChars, spreadLit_eq, exprToSource, exprSrc]

theorem commaSp : ", ".toList = [',', ' '] := rfl

mutual
theorem canon_text : ∀ (sp : Bool) (t : Expr), fragB sp t = true →
    (canon t).text = (exprToSource (unSpread t)).toList
  | _, .bin op l r, h => by
    simp only [fragB, Bool.and_eq_true] at h
    have hl := canon_text false l h.1
    have hr := canon_text false r h.2
    rw [unSpread_of_frag h.1] at hl
    rw [unSpread_of_frag h.2] at hr
    simp only [exprToSource] at hl hr ⊢
    simp only [unSpread, canon, CST.text, wrap_text, hl, hr, exprSrc, String.toList_append,
      parenIf_toList, layChars, LayAtom.chars, spell, List.append_assoc, List.cons_append,
      List.nil_append]
    rfl
  | _, .un op e, h => by
    simp only [fragB, Bool.and_eq_true] at h
    have he := canon_text false e h.2
    rw [unSpread_of_frag h.2] at he
    simp only [exprToSource] at he ⊢
    simp only [unSpread, canon, CST.text, wrap_text, he, exprSrc, String.toList_append,
      parenIf_toList]
  | _, .fact e, h => by
    simp only [fragB] at h
    have he := canon_text false e h
    rw [unSpread_of_frag h] at he
    simp only [exprToSource] at he ⊢
    simp only [unSpread, canon, CST.text, wrap_text, he, exprSrc, String.toList_append,
      parenIf_toList]
    rfl
  | _, .call f args, h => by
    simp only [fragB, Bool.and_eq_true] at h
    have hf := canon_text false f h.1
    rw [unSpread_of_frag h.1] at hf
    have ha := canonArgs_text args h.2
    simp only [exprToSource] at hf ⊢
    simp only [unSpread, canon, mkCall_text, wrap_text, hf, ha, exprSrc, String.toList_append,
      parenIf_toList, String.toList_intercalate, commaSp, List.append_assoc]
    rfl
  | _, .access e i, h => by
    simp only [fragB, Bool.and_eq_true] at h
    have he := canon_text false e h.1
    have hi := canon_text false i h.2
    rw [unSpread_of_frag h.1] at he
    rw [unSpread_of_frag h.2] at hi
    simp only [exprToSource] at he hi ⊢
    simp only [unSpread, canon, CST.text, wrap_text, he, hi, exprSrc, String.toList_append,
      parenIf_toList, layChars, List.append_assoc, List.nil_append]
    rfl
  | _, .dot e n, h => by
    simp only [fragB, Bool.and_eq_true] at h
    have he := canon_text false e h.1
    rw [unSpread_of_frag h.1] at he
    simp only [exprToSource] at he ⊢
    simp only [unSpread, canon, CST.text, wrap_text, he, exprSrc, String.toList_append,
      parenIf_toList, List.append_assoc]
    rfl
  | sp, .spread e, h => by
    simp only [fragB, Bool.and_eq_true] at h
    have he := canon_text false e h.2
    rw [unSpread_of_frag h.2] at he
    simp only [canon, he, unSpread]
  | _, .list items, h => by
    simp only [fragB] at h
    have ha := canonItems_text items h
    simp only [exprToSource]
    simp only [unSpread, canon, mkList_text, ha, exprSrc, String.toList_append,
      String.toList_intercalate, commaSp, List.append_assoc]
    rfl
  | _, .lambda args body, h => by
    simp only [fragB, Bool.and_eq_true] at h
    have hb := canon_text false body h.2
    rw [unSpread_of_frag h.2] at hb
    simp only [exprToSource] at hb ⊢
    simp only [unSpread, canon, CST.text, headOf_text, wrap_text, hb, exprSrc,
      foldl_scopeRemove_nil, String.toList_append, String.toList_intercalate, commaSp,
      List.map_map, Function.comp_def, argText_src, parenIf_toList, layChars, LayAtom.chars,
      List.append_assoc, List.cons_append, List.nil_append]
    rfl
  | _, .cond c t e, h => by
    simp only [fragB, Bool.and_eq_true] at h
    have hc := canon_text false c h.1.1
    have ht := canon_text false t h.1.2
    have he := canon_text false e h.2
    rw [unSpread_of_frag h.1.1] at hc
    rw [unSpread_of_frag h.1.2] at ht
    rw [unSpread_of_frag h.2] at he
    simp only [exprToSource] at hc ht he ⊢
    simp only [unSpread, canon, CST.text, hc, ht, he, exprSrc, String.toList_append, layChars,
      LayAtom.chars, thenLit, elseLit, List.append_assoc, List.cons_append, List.nil_append]
    rfl
  | _, .ident _, _ | _, .builtin _, _ | _, .bool _, _ | _, .null, _ | _, .num _, _ => rfl
  | _, .str s, h => by
    simp only [fragB, Bool.not_eq_true'] at h
    simp only [canon, canonStr_text s h, unSpread, exprToSource, exprSrc]
  | _, .record es, h => by
    simp only [fragB] at h
    have ha := canonEntries_text es h
    simp only [exprToSource]
    simp only [unSpread, canon, mkRecord_text, ha, exprSrc, String.toList_append,
      String.toList_intercalate, commaSp, List.append_assoc]
    rfl
  | _, .doBlock ss (.mk lead e tr), h => by
    simp only [fragB, fragRet, Bool.and_eq_true] at h
    obtain ⟨hss, hp, he⟩ := h
    obtain ⟨rfl, rfl⟩ := entPlain_eq hp
    have het := canon_text false e he
    rw [unSpread_of_frag he] at het
    have hst := canonStmts_text ss hss
    simp only [exprToSource] at het ⊢
    simp only [unSpread, canon, CST.text, exprSrc, retSrc, scopeAfterStmts_nil', commentLines,
      List.map_nil, String.join, List.foldl_nil, String.toList_append, String.empty_append, het]
    have e1 : layChars stmtLay ++ (CST.stmtsText (canonStmts ss) ++ (retLit ++ (layChars [LayAtom.sp] ++
        ((exprSrc [] e).toList ++ (layChars [LayAtom.lf] ++ ['}']))))) =
        (layChars stmtLay ++ CST.stmtsText (canonStmts ss)) ++ (retLit ++ (layChars [LayAtom.sp] ++
        ((exprSrc [] e).toList ++ (layChars [LayAtom.lf] ++ ['}'])))) := by
      simp only [List.append_assoc]
    rw [e1, hst]
    simp [layChars, LayAtom.chars, stmtLay, retLit]
  | _, .assign n v, h => by
    simp only [fragB, Bool.and_eq_true] at h
    have hv := canon_text false v h.2
    rw [unSpread_of_frag h.2] at hv
    simp only [exprToSource] at hv ⊢
    simp only [unSpread, canon, CST.text, hv, exprSrc, String.toList_append, layChars,
      LayAtom.chars, List.append_assoc, List.cons_append, List.nil_append]
    rfl
  | _, .inref _, h | _, .output _, h => by
    simp [fragB] at h
theorem canonArgs_text : ∀ (args : List Expr), fragArgs args = true →
    (canonArgs args).map argS = (exprsSrc [] args).map String.toList
  | [], _ => rfl
  | a :: rest, h => by
    simp only [fragArgs, Bool.and_eq_true] at h
    have ha := canon_text true a h.1
    have := argS_src a
    simp only [exprToSource] at ha this
    simp only [canonArgs, List.map_cons, argS, ha, this, canonArgs_text rest h.2, exprsSrc]
theorem canonItems_text : ∀ (items : List Item), fragItems items = true →
    (canonItems items).map argS = (itemsSrc [] items).map String.toList
  | [], _ => rfl
  | (.mk lead e tr) :: rest, h => by
    simp only [fragItems, Bool.and_eq_true] at h
    have ha := canon_text true e h.1.2
    have := argS_src e
    simp only [exprToSource] at ha this
    simp only [canonItems, List.map_cons, argS, ha, this, canonItems_text rest h.2, itemsSrc,
      itemSrc]
theorem canonStmts_text : ∀ (ss : List Item), fragStmts ss = true →
    layChars stmtLay ++ CST.stmtsText (canonStmts ss) = (doStmtsSrc [] ss).toList ++ layChars stmtLay
  | [], _ => by simp [canonStmts, CST.stmtsText, doStmtsSrc]
  | (.mk lead e tr) :: rest, h => by
    simp only [fragStmts, Bool.and_eq_true] at h
    obtain ⟨⟨hp, he, hho⟩, hr⟩ := h
    obtain ⟨rfl, rfl⟩ := entPlain_eq hp
    have het := canon_text false e he
    rw [unSpread_of_frag he] at het
    simp only [exprToSource] at het
    have hP := protC_text (canon e) (canon_shaped false e he) (canon_layout e)
      (fun hm => headOk_canon e he hho hm)
    rw [het, String.ofList_toList] at hP
    have ih := canonStmts_text rest hr
    simp only [canonStmts, CST.stmtsText, Sep.text, doStmtsSrc, stmtSrc, scopeAfterStmt_nil',
      commentLines, List.map_nil, String.join, List.foldl_nil, String.toList_append,
      String.empty_append, String.append_empty, hP, List.append_assoc]
    rw [ih]
    simp [layChars, LayAtom.chars, stmtLay]
theorem canonEntries_text : ∀ (es : List Entry), fragEntries es = true →
    (canonEntries es).map CST.entText = (entriesSrc [] es).map String.toList
  | [], _ => rfl
  | e :: rest, h => by
    simp only [fragEntries, Bool.and_eq_true] at h
    simp only [canonEntries, entriesSrc, List.map_cons, canonEnt_text e h.1,
      canonEntries_text rest h.2]
theorem canonEnt_text : ∀ (en : Entry), fragEntry en = true →
    CST.entText (canonEnt en) = (entrySrc [] en).toList
  | .mk lead (.static k) v tr, h => by
    simp only [fragEntry, Bool.and_eq_true] at h
    obtain ⟨⟨hp, hk⟩, hv⟩ := h
    have hvt := canon_text false v hv
    rw [unSpread_of_frag hv] at hvt
    simp only [exprToSource] at hvt
    have hcs : ": ".toList = [':', ' '] := rfl
    simp only [canonEnt, hp, hk, Bool.and_self, if_true, keyEnt_text hk, hvt, entrySrc, keyedSrc,
      String.toList_append, hcs, List.append_assoc, List.cons_append, List.nil_append]
  | .mk lead (.dyn ke) v tr, h => by
    simp only [fragEntry, Bool.and_eq_true] at h
    obtain ⟨⟨hp, hk⟩, hv⟩ := h
    have hvt := canon_text false v hv
    have hkt := canon_text false ke hk
    rw [unSpread_of_frag hv] at hvt
    rw [unSpread_of_frag hk] at hkt
    simp only [exprToSource] at hvt hkt
    simp only [canonEnt, hp, if_true, CST.entText, hvt, hkt, entrySrc, keyedSrc,
      String.toList_append, layChars, LayAtom.chars, List.nil_append, List.append_assoc,
      List.cons_append]
    rfl
  | .mk lead (.short n) v tr, h => by
    simp only [fragEntry, Bool.and_eq_true] at h
    obtain ⟨⟨hp, hn⟩, _⟩ := h
    simp only [canonEnt, hp, hn, Bool.and_self, if_true, CST.entText, entrySrc, keyedSrc, lookupAL]
  | .mk lead (.spread (.spread e)) v tr, h => by
    simp only [fragEntry, Bool.and_eq_true] at h
    obtain ⟨⟨hp, hn⟩, he⟩ := h
    have het := canon_text false e he
    rw [unSpread_of_frag he] at het
    simp only [exprToSource] at het
    simp only [canonEnt, hp, hn, Bool.and_self, if_true, CST.entText, het, entrySrc, keyedSrc,
      exprSrc, String.toList_append, spreadLit_eq]
    rfl
  | .mk _ (.spread (.num _)) _ _, h | .mk _ (.spread (.str _)) _ _, h
  | .mk _ (.spread (.bool _)) _ _, h | .mk _ (.spread .null) _ _, h
  | .mk _ (.spread (.ident _)) _ _, h | .mk _ (.spread (.inref _)) _ _, h
  | .mk _ (.spread (.builtin _)) _ _, h | .mk _ (.spread (.list _)) _ _, h
  | .mk _ (.spread (.record _)) _ _, h | .mk _ (.spread (.lambda _ _)) _ _, h
  | .mk _ (.spread (.cond _ _ _)) _ _, h | .mk _ (.spread (.doBlock _ _)) _ _, h
  | .mk _ (.spread (.assign _ _)) _ _, h | .mk _ (.spread (.output _)) _ _, h
  | .mk _ (.spread (.call _ _)) _ _, h | .mk _ (.spread (.access _ _)) _ _, h
  | .mk _ (.spread (.dot _ _)) _ _, h | .mk _ (.spread (.bin _ _ _)) _ _, h
  | .mk _ (.spread (.un _ _)) _ _, h | .mk _ (.spread (.fact _)) _ _, h => by
    simp [fragEntry] at h
end

theorem canon_text_frag (t : Expr) (h : Frag t) : (canon t).text = (exprToSource t).toList := by
  rw [canon_text false t h, unSpread_of_frag h]

theorem canon_wf (t : Expr) (h : Frag t) : (canon t).WF := ⟨canon_shaped false t h, canon_layout t⟩

theorem frag_noInvert : ∀ (sp : Bool) (t : Expr), fragB sp t = true → PrattRT.NoInvert t
  | _, .bin op l r, h => by
    simp only [fragB, Bool.and_eq_true] at h
    simp [PrattRT.NoInvert, PrattRT.noInvert, frag_noInvert false l h.1, frag_noInvert false r h.2]
  | _, .un op e, h => by
    simp only [fragB, Bool.and_eq_true] at h
    simp [PrattRT.NoInvert, PrattRT.noInvert, frag_noInvert false e h.2, h.1]
  | _, .fact e, h => by
    simp only [fragB] at h
    simp [PrattRT.NoInvert, PrattRT.noInvert, frag_noInvert false e h]
  | _, .call f _, h => by
    simp only [fragB, Bool.and_eq_true] at h
    simp [PrattRT.NoInvert, PrattRT.noInvert, frag_noInvert false f h.1]
  | _, .access e _, h => by
    simp only [fragB, Bool.and_eq_true] at h
    simp [PrattRT.NoInvert, PrattRT.noInvert, frag_noInvert false e h.1]
  | _, .dot e _, h => by
    simp only [fragB, Bool.and_eq_true] at h
    simp [PrattRT.NoInvert, PrattRT.noInvert, frag_noInvert false e h.1]
  | _, .spread _, _ => rfl
  | _, .list _, _ => rfl
  | _, .lambda _ _, _ => rfl
  | _, .cond _ _ _, _ => rfl
  | _, .ident _, _ | _, .builtin _, _ | _, .bool _, _ | _, .null, _ | _, .num _, _ => rfl
  | _, .str _, _ => rfl
  | _, .record _, _ => rfl
  | _, .doBlock _ _, _ => rfl
  | _, .assign _ _, _ => rfl
  | _, .inref _, h | _, .output _, h => by
    simp [fragB] at h

/-! ### (12) re-layout -/

namespace CST

mutual
/-- every layout string reset to what the printer writes: one blank on each side of a binary
    operator, `, ` between arguments, no trailing comma, nothing inside brackets; the quote
    character of a string literal reset to the printer's choice -/
def normalize : CST → CST
  | .atom e => .atom e
  | .str _ s => canonStr s
  | .bin op l _ _ r => .bin op l.normalize [.sp] [.sp] r.normalize
  | .un op e => .un op e.normalize
  | .fact e => .fact e.normalize
  | .paren _ e _ => .paren [] e.normalize []
  | .call0 f _ => .call0 f.normalize []
  | .call f _ as _ => .call f.normalize [] (normArgs as) (.plain [])
  | .access e _ i _ => .access e.normalize [] i.normalize []
  | .dot e n => .dot e.normalize n
  | .list0 _ => .list0 []
  | .list _ as _ => .list [] (normArgs as) (.plain [])
  | .lambda hd _ _ b => .lambda (headOf hd.args) [.sp] [.sp] b.normalize
  | .cond _ c _ _ t _ _ e => .cond [.sp] c.normalize [.sp] [.sp] t.normalize [.sp] [.sp] e.normalize
  | .rec0 _ => .rec0 []
  | .record _ es _ => .record [] (normEnts es) (.plain [])
  | .doB _ _ ss _ e _ => .doB [.sp] stmtLay (normStmts ss) [.sp] e.normalize [.lf]
  | .asg n _ _ v => .asg n [.sp] [.sp] v.normalize
def normArgs : Args → Args
  | .last sp a => .last sp a.normalize
  | .cons sp a _ _ rest => .cons sp a.normalize [] [.sp] (normArgs rest)
/-- a static key is reset to the form the printer chooses: bare when it is an identifier, else a
    string literal in the printer's quotes -/
def normEnt : Ent → Ent
  | .pairId k _ _ v => keyEnt k v.normalize
  | .pairStr _ s _ _ v => keyEnt s v.normalize
  | .pairDyn _ e _ _ _ v => .pairDyn [] e.normalize [] [] [.sp] v.normalize
  | .short n => .short n
  | .spread e => .spread e.normalize
  | .raw en => .raw en
def normEnts : Ents → Ents
  | .last e => .last (normEnt e)
  | .cons e _ _ rest => .cons (normEnt e) [] [.sp] (normEnts rest)
/-- every statement on its own line, as the printer writes them -/
def normStmts : Stmts → Stmts
  | .nil => .nil
  | .cons s _ rest => .cons s.normalize (.line stmtLay) (normStmts rest)
end

mutual
theorem normalize_tree : ∀ c : CST, c.normalize.tree = c.tree
  | .atom _ => rfl
  | .str _ s => by simp only [normalize, canonStr_tree, tree]
  | .bin _ l _ _ r => by simp only [normalize, tree, normalize_tree l, normalize_tree r]
  | .un _ e => by simp only [normalize, tree, normalize_tree e]
  | .fact e => by simp only [normalize, tree, normalize_tree e]
  | .paren _ e _ => by simp only [normalize, tree, normalize_tree e]
  | .call0 f _ => by simp only [normalize, tree, normalize_tree f]
  | .call f _ as _ => by simp only [normalize, tree, normalize_tree f, normArgs_trees as]
  | .access e _ i _ => by simp only [normalize, tree, normalize_tree e, normalize_tree i]
  | .dot e _ => by simp only [normalize, tree, normalize_tree e]
  | .list0 _ => rfl
  | .list _ as _ => by simp only [normalize, tree, normArgs_trees as]
  | .lambda hd _ _ b => by simp only [normalize, tree, headOf_args, normalize_tree b]
  | .cond _ c _ _ t _ _ e => by
    simp only [normalize, tree, normalize_tree c, normalize_tree t, normalize_tree e]
  | .rec0 _ => rfl
  | .record _ es _ => by simp only [normalize, tree, normEnts_trees es]
  | .doB _ _ ss _ e _ => by simp only [normalize, tree, normStmts_trees ss, normalize_tree e]
  | .asg _ _ _ v => by simp only [normalize, tree, normalize_tree v]
theorem normArgs_trees : ∀ as : Args, argsTrees (normArgs as) = argsTrees as
  | .last _ a => by simp only [normArgs, argsTrees, normalize_tree a]
  | .cons _ a _ _ rest => by simp only [normArgs, argsTrees, normalize_tree a, normArgs_trees rest]
theorem normEnt_tree : ∀ e : Ent, entTree (normEnt e) = entTree e
  | .pairId k _ _ v => by simp only [normEnt, keyEnt_tree, entTree, normalize_tree v]
  | .pairStr _ s _ _ v => by simp only [normEnt, keyEnt_tree, entTree, normalize_tree v]
  | .pairDyn _ e _ _ _ v => by simp only [normEnt, entTree, normalize_tree e, normalize_tree v]
  | .short _ => rfl
  | .spread e => by simp only [normEnt, entTree, normalize_tree e]
  | .raw _ => rfl
theorem normEnts_trees : ∀ es : Ents, entsTrees (normEnts es) = entsTrees es
  | .last e => by simp only [normEnts, entsTrees, normEnt_tree e]
  | .cons e _ _ rest => by simp only [normEnts, entsTrees, normEnt_tree e, normEnts_trees rest]
theorem normStmts_trees : ∀ ss : Stmts, stmtsTrees (normStmts ss) = stmtsTrees ss
  | .nil => rfl
  | .cons s _ rest => by simp only [normStmts, stmtsTrees, normalize_tree s, normStmts_trees rest]
end

theorem normalize_items : ∀ c : CST, c.normalize.items = c.items
  | .atom _ => rfl
  | .str _ s => by simp only [normalize, canonStr_items, items]
  | .bin _ l _ _ r => by simp only [normalize, items, normalize_items l, normalize_items r]
  | .un _ e => by simp only [normalize, items, normalize_items e]
  | .fact e => by simp only [normalize, items, normalize_items e]
  | .paren _ e _ => by simp only [normalize, items, normalize_tree e]
  | .call0 f _ => by simp only [normalize, items, normalize_items f]
  | .call f _ as _ => by simp only [normalize, items, normalize_items f, normArgs_trees as]
  | .access e _ i _ => by simp only [normalize, items, normalize_items e, normalize_tree i]
  | .dot e _ => by simp only [normalize, items, normalize_items e]
  | .list0 _ => rfl
  | .list _ as _ => by simp only [normalize, items, normArgs_trees as]
  | .lambda hd _ _ b => by simp only [normalize, items, headOf_args, normalize_tree b]
  | .cond _ c _ _ t _ _ e => by
    simp only [normalize, items, normalize_tree c, normalize_tree t, normalize_tree e]
  | .rec0 _ => rfl
  | .record _ es _ => by simp only [normalize, items, normEnts_trees es]
  | .doB _ _ ss _ e _ => by simp only [normalize, items, normStmts_trees ss, normalize_tree e]
  | .asg _ _ _ v => by simp only [normalize, items, normalize_tree v]

theorem normalize_isParen (c : CST) : c.normalize.isParen = c.isParen := by
  cases c with
  | str dq s => exact canonStr_isParen s
  | _ => simp [normalize, isParen]

theorem namesOk_of_norm {hd : LamHead} (h : (headOf hd.args).namesOk = true) (hok : hd.ok = true) :
    hd.namesOk = true := by
  simp only [LamHead.namesOk, headOf_args, Bool.and_eq_true] at h ⊢
  refine ⟨h.1, ?_⟩
  cases hd with
  | bare a => cases a <;> first | rfl | (simp [LamHead.ok] at hok)
  | unit l => rfl
  | parens l0 a more c => rfl

theorem canonStr_startsMinus (s : String) : (canonStr s).startsMinus = false := by
  unfold canonStr; split <;> rfl

theorem startsMinus_normalize : ∀ c : CST, c.normalize.startsMinus = c.startsMinus
  | .atom _ => rfl
  | .str _ s => by simp only [normalize, canonStr_startsMinus, startsMinus]
  | .bin _ l _ _ _ => by simp only [normalize, startsMinus, startsMinus_normalize l]
  | .un _ _ => rfl
  | .fact e => by simp only [normalize, startsMinus, startsMinus_normalize e]
  | .paren _ _ _ => rfl
  | .call0 f _ => by simp only [normalize, startsMinus, startsMinus_normalize f]
  | .call f _ _ _ => by simp only [normalize, startsMinus, startsMinus_normalize f]
  | .access e _ _ _ => by simp only [normalize, startsMinus, startsMinus_normalize e]
  | .dot e _ => by simp only [normalize, startsMinus, startsMinus_normalize e]
  | .list0 _ | .list _ _ _ | .lambda _ _ _ _ | .cond .. | .rec0 _ | .record _ _ _ | .doB ..
  | .asg .. => rfl

theorem headOk_of_normalize : ∀ c : CST, c.normalize.headOk → c.headOk
  | .atom _, h => h
  | .str _ _, _ => trivial
  | .bin _ l _ _ _, h => headOk_of_normalize l h
  | .un _ _, h => h
  | .fact e, h => headOk_of_normalize e h
  | .paren _ _ _, _ => trivial
  | .call0 f _, h => headOk_of_normalize f h
  | .call f _ _ _, h => headOk_of_normalize f h
  | .access e _ _ _, h => headOk_of_normalize e h
  | .dot e _, h => headOk_of_normalize e h
  | .list0 _, _ | .list _ _ _, _ | .cond .., _ | .rec0 _, _ | .record _ _ _, _ | .doB .., _ => trivial
  | .asg _ _ _ _, h => h
  | .lambda hd _ _ _, h => by
    simpa only [normalize, headOk, headOf_args] using h

theorem stmtsHeadOk_of_normalize : ∀ ss : Stmts, StmtsHeadOk (normStmts ss) → StmtsHeadOk ss
  | .nil, _ => trivial
  | .cons s _ _, h => headOk_of_normalize s h

mutual
theorem shaped_of_normalize : ∀ c : CST, c.normalize.Shaped → c.LayoutOk → c.Shaped
  | .atom _, h, _ => h
  | .str _ _, _, _ => trivial
  | .bin _ l _ _ r, h, hl => by
    simp only [normalize, Shaped, normalize_tree, normalize_isParen] at h
    exact ⟨shaped_of_normalize l h.1 hl.1, shaped_of_normalize r h.2.1 hl.2.1, h.2.2.1, h.2.2.2⟩
  | .un _ e, h, hl => by
    simp only [normalize, Shaped, normalize_tree, normalize_isParen] at h
    exact ⟨h.1, shaped_of_normalize e h.2.1 hl, h.2.2⟩
  | .fact e, h, hl => by
    simp only [normalize, Shaped, normalize_tree, normalize_isParen] at h
    exact ⟨shaped_of_normalize e h.1 hl, h.2⟩
  | .paren _ e _, h, hl => by
    simp only [normalize, Shaped] at h
    exact shaped_of_normalize e h hl
  | .call0 f _, h, hl => by
    simp only [normalize, Shaped, normalize_tree, normalize_isParen] at h
    exact ⟨shaped_of_normalize f h.1 hl, h.2⟩
  | .call f _ as _, h, hl => by
    simp only [normalize, Shaped, normalize_tree, normalize_isParen] at h
    exact ⟨shaped_of_normalize f h.1 hl.1, h.2.1, argsShaped_of_normalize as h.2.2 hl.2.1⟩
  | .access e _ i _, h, hl => by
    simp only [normalize, Shaped, normalize_tree, normalize_isParen] at h
    exact ⟨shaped_of_normalize e h.1 hl.1, h.2.1, shaped_of_normalize i h.2.2 hl.2.1⟩
  | .dot e _, h, hl => by
    simp only [normalize, Shaped, normalize_tree, normalize_isParen] at h
    exact ⟨shaped_of_normalize e h.1 hl, h.2.1, h.2.2⟩
  | .list0 _, _, _ => trivial
  | .list _ as _, h, hl => by
    simp only [normalize, Shaped] at h
    exact argsShaped_of_normalize as h hl.1
  | .lambda hd _ _ b, h, hl => by
    simp only [normalize, Shaped, normalize_tree, normalize_isParen, normalize_items] at h
    exact ⟨namesOk_of_norm h.1 hl.1, shaped_of_normalize b h.2.1 hl.2.2, h.2.2.1, h.2.2.2⟩
  | .cond _ c _ _ t _ _ e, h, hl => by
    simp only [normalize, Shaped] at h
    exact ⟨shaped_of_normalize c h.1 hl.2.1, shaped_of_normalize t h.2.1 hl.2.2.1,
      shaped_of_normalize e h.2.2 hl.2.2.2⟩
  | .rec0 _, _, _ => trivial
  | .record _ es _, h, hl => by
    simp only [normalize, Shaped] at h
    exact entsShaped_of_normalize es h hl.1
  | .doB _ _ ss _ e _, h, hl => by
    simp only [normalize, Shaped] at h
    exact ⟨stmtsShaped_of_normalize ss h.1 hl.2.1, shaped_of_normalize e h.2 hl.2.2⟩
  | .asg _ _ _ v, h, hl => by
    simp only [normalize, Shaped] at h
    exact ⟨h.1, shaped_of_normalize v h.2 hl.2.2⟩
theorem argsShaped_of_normalize : ∀ as : Args, ArgsShaped (normArgs as) → ArgsLayoutOk as →
    ArgsShaped as
  | .last _ a, h, hl => shaped_of_normalize a h hl
  | .cons _ a _ _ rest, h, hl =>
    ⟨shaped_of_normalize a h.1 hl.1, argsShaped_of_normalize rest h.2 hl.2.2⟩
theorem entShaped_of_normalize : ∀ e : Ent, EntShaped (normEnt e) → EntLayoutOk e → EntShaped e
  | .pairId k _ _ v, h, hl => by
    simp only [normEnt] at h
    exact shaped_of_normalize v (keyEnt_shaped_inv h) hl.2.2
  | .pairStr _ s _ _ v, h, hl => by
    simp only [normEnt] at h
    exact shaped_of_normalize v (keyEnt_shaped_inv h) hl.2.2
  | .pairDyn _ e _ _ _ v, h, hl =>
    ⟨shaped_of_normalize e h.1 hl.2.1, shaped_of_normalize v h.2 hl.2.2⟩
  | .short _, h, _ => h
  | .spread e, h, hl => shaped_of_normalize e h hl
  | .raw _, h, _ => h
theorem entsShaped_of_normalize : ∀ es : Ents, EntsShaped (normEnts es) → EntsLayoutOk es →
    EntsShaped es
  | .last e, h, hl => entShaped_of_normalize e h hl
  | .cons e _ _ rest, h, hl =>
    ⟨entShaped_of_normalize e h.1 hl.1, entsShaped_of_normalize rest h.2 hl.2.2⟩
theorem stmtsShaped_of_normalize : ∀ ss : Stmts, StmtsShaped (normStmts ss) → StmtsLayoutOk ss →
    StmtsShaped ss
  | .nil, _, _ => trivial
  | .cons s sep rest, h, hl =>
    ⟨shaped_of_normalize s h.1 hl.1, fun _ => stmtsHeadOk_of_normalize rest (h.2.1 rfl),
      stmtsShaped_of_normalize rest h.2.2 hl.2.2⟩
end

end CST

/-- `c` is a RE-LAYOUT of the printed `t`: resetting every layout string of `c` gives the
    printer's CST (same atoms, operators, parentheses, arguments, items), and every layout
    string of `c` is admissible at its position (`CST.LayoutOk`: `CST.layOk` around a binary
    operator; anything between a parenthesis and its content; in a call and in a list anything
    behind the opening bracket and behind a comma, blanks only in front of a comma, an optional
    trailing comma — in a call followed, after blanks, by a line break; line breaks only
    inside `[ ]` of an index) -/
def Relayout (t : Expr) (c : CST) : Prop := c.normalize = canon t ∧ c.LayoutOk

theorem wrap_normalize' (b : Bool) (c : CST) : (wrap b c).normalize = wrap b c.normalize := by
  cases b <;> rfl

def normPair (q : Bool × CST) : Bool × CST := (q.1, q.2.normalize)

theorem mkArgs_normalize : ∀ (ps : List (Bool × CST)) (p : Bool × CST),
    CST.normArgs (mkArgs p ps) = mkArgs (normPair p) (ps.map normPair)
  | [], _ => rfl
  | q :: ps, _ => by simp only [mkArgs, CST.normArgs, mkArgs_normalize ps q, List.map_cons, normPair]

theorem mkCall_normalize (f : CST) (ps : List (Bool × CST)) :
    (mkCall f ps).normalize = mkCall f.normalize (ps.map normPair) := by
  cases ps with
  | nil => rfl
  | cons p ps => simp only [mkCall, CST.normalize, mkArgs_normalize, List.map_cons]

theorem mkList_normalize (ps : List (Bool × CST)) :
    (mkList ps).normalize = mkList (ps.map normPair) := by
  cases ps with
  | nil => rfl
  | cons p ps => simp only [mkList, CST.normalize, mkArgs_normalize, List.map_cons]

theorem normEnt_keyEnt (k : String) (v : CST) : CST.normEnt (keyEnt k v) = keyEnt k v.normalize := by
  unfold keyEnt
  split
  · rename_i h; simp only [CST.normEnt, keyEnt, h, if_true]
  · rename_i h; simp only [CST.normEnt, keyEnt, h, Bool.false_eq_true, if_false]

theorem protC_normalize (c : CST) : (protC c).normalize = protC c.normalize := by
  unfold protC
  rw [CST.startsMinus_normalize]
  split <;> rfl

theorem mkEnts_normalize : ∀ (es : List Ent) (e : Ent),
    CST.normEnts (mkEnts e es) = mkEnts (CST.normEnt e) (es.map CST.normEnt)
  | [], _ => rfl
  | q :: es, _ => by simp only [mkEnts, CST.normEnts, mkEnts_normalize es q, List.map_cons]

theorem mkRecord_normalize (es : List Ent) :
    (mkRecord es).normalize = mkRecord (es.map CST.normEnt) := by
  cases es with
  | nil => rfl
  | cons e es => simp only [mkRecord, CST.normalize, mkEnts_normalize, List.map_cons]

mutual
theorem canon_normalize : ∀ t : Expr, (canon t).normalize = canon t
  | .bin op l r => by
    simp only [canon, CST.normalize, wrap_normalize', canon_normalize l, canon_normalize r]
  | .un op e => by simp only [canon, CST.normalize, wrap_normalize', canon_normalize e]
  | .fact e => by simp only [canon, CST.normalize, wrap_normalize', canon_normalize e]
  | .call f args => by
    simp only [canon, mkCall_normalize, wrap_normalize', canon_normalize f,
      canonArgs_normalize args]
  | .access e i => by
    simp only [canon, CST.normalize, wrap_normalize', canon_normalize e, canon_normalize i]
  | .dot e n => by simp only [canon, CST.normalize, wrap_normalize', canon_normalize e]
  | .spread e => by simp only [canon, canon_normalize e]
  | .list items => by simp only [canon, mkList_normalize, canonItems_normalize items]
  | .lambda args body => by
    simp only [canon, CST.normalize, headOf_args, wrap_normalize', canon_normalize body]
  | .cond c t e => by
    simp only [canon, CST.normalize, canon_normalize c, canon_normalize t, canon_normalize e]
  | .ident _ | .builtin _ | .bool _ | .null | .num _ => rfl
  | .str s => by
    simp only [canon]
    unfold canonStr
    split
    · rfl
    · rename_i h
      simp [CST.normalize, canonStr, h]
  | .record es => by simp only [canon, mkRecord_normalize, canonEntries_normalize es]
  | .doBlock ss (.mk _ e _) => by
    simp only [canon, CST.normalize, canonStmts_normalize ss, canon_normalize e]
  | .assign n v => by simp only [canon, CST.normalize, canon_normalize v]
  | .inref _ | .output _ => rfl
theorem canonArgs_normalize : ∀ args : List Expr, (canonArgs args).map normPair = canonArgs args
  | [] => rfl
  | a :: rest => by
    simp only [canonArgs, List.map_cons, normPair, canon_normalize a, canonArgs_normalize rest]
theorem canonItems_normalize : ∀ items : List Item,
    (canonItems items).map normPair = canonItems items
  | [] => rfl
  | (.mk _ e _) :: rest => by
    simp only [canonItems, List.map_cons, normPair, canon_normalize e, canonItems_normalize rest]
theorem canonStmts_normalize : ∀ ss : List Item, CST.normStmts (canonStmts ss) = canonStmts ss
  | [] => rfl
  | (.mk _ e _) :: rest => by
    simp only [canonStmts, CST.normStmts, protC_normalize, canon_normalize e,
      canonStmts_normalize rest]
theorem canonEntries_normalize : ∀ es : List Entry,
    (canonEntries es).map CST.normEnt = canonEntries es
  | [] => rfl
  | e :: rest => by
    simp only [canonEntries, List.map_cons, canonEnt_normalize e, canonEntries_normalize rest]
theorem canonEnt_normalize : ∀ en : Entry, CST.normEnt (canonEnt en) = canonEnt en
  | .mk lead (.static k) v tr => by
    simp only [canonEnt]
    split
    · simp only [normEnt_keyEnt, canon_normalize v]
    · rfl
  | .mk lead (.dyn ke) v tr => by
    simp only [canonEnt]
    split
    · simp only [CST.normEnt, canon_normalize ke, canon_normalize v]
    · rfl
  | .mk lead (.short n) v tr => by
    simp only [canonEnt]
    split <;> rfl
  | .mk lead (.spread (.spread e)) v tr => by
    simp only [canonEnt]
    split
    · simp only [CST.normEnt, canon_normalize e]
    · rfl
  | .mk _ (.spread (.num _)) _ _ | .mk _ (.spread (.str _)) _ _
  | .mk _ (.spread (.bool _)) _ _ | .mk _ (.spread .null) _ _
  | .mk _ (.spread (.ident _)) _ _ | .mk _ (.spread (.inref _)) _ _
  | .mk _ (.spread (.builtin _)) _ _ | .mk _ (.spread (.list _)) _ _
  | .mk _ (.spread (.record _)) _ _ | .mk _ (.spread (.lambda _ _)) _ _
  | .mk _ (.spread (.cond _ _ _)) _ _ | .mk _ (.spread (.doBlock _ _)) _ _
  | .mk _ (.spread (.assign _ _)) _ _ | .mk _ (.spread (.output _)) _ _
  | .mk _ (.spread (.call _ _)) _ _ | .mk _ (.spread (.access _ _)) _ _
  | .mk _ (.spread (.dot _ _)) _ _ | .mk _ (.spread (.bin _ _ _)) _ _
  | .mk _ (.spread (.un _ _)) _ _ | .mk _ (.spread (.fact _)) _ _ => rfl
end

theorem relayout_self (t : Expr) : Relayout t (canon t) :=
  ⟨canon_normalize t, canon_layout t⟩

theorem relayout_wf {t : Expr} {c : CST} (h : Frag t) (hr : Relayout t c) :
    c.WF ∧ c.items = PrattRT.items t ∧ c.tree = t := by
  obtain ⟨hn, hl⟩ := hr
  refine ⟨⟨CST.shaped_of_normalize c (hn ▸ canon_shaped false t h) hl, hl⟩, ?_, ?_⟩
  · rw [← CST.normalize_items, hn, canon_items_frag t h]
  · rw [← CST.normalize_tree, hn, canon_tree_frag t h]

/-! ### (13) redundant parentheses -/

mutual
/-- `Wrap c c'`: `c'` is `c` with ONE sub-expression (any, at any depth — possibly all of
    `c`; also inside an argument or an index) put into an extra pair of parentheses, with any
    layout inside them -/
inductive Wrap : CST → CST → Prop
  | here (a : Lay) (c : CST) (b : Lay) : Wrap c (.paren a c b)
  | binL {l l' : CST} (op : BinOp) (a b : Lay) (r : CST) : Wrap l l' → Wrap (.bin op l a b r) (.bin op l' a b r)
  | binR {r r' : CST} (op : BinOp) (l : CST) (a b : Lay) : Wrap r r' → Wrap (.bin op l a b r) (.bin op l a b r')
  | un {e e' : CST} (op : UnOp) : Wrap e e' → Wrap (.un op e) (.un op e')
  | fact {e e' : CST} : Wrap e e' → Wrap (.fact e) (.fact e')
  | paren {e e' : CST} (a b : Lay) : Wrap e e' → Wrap (.paren a e b) (.paren a e' b)
  | call0 {f f' : CST} (l : Lay) : Wrap f f' → Wrap (.call0 f l) (.call0 f' l)
  | callF {f f' : CST} (l : Lay) (as : Args) (c : Close) : Wrap f f' → Wrap (.call f l as c) (.call f' l as c)
  | callA {as as' : Args} (f : CST) (l : Lay) (c : Close) : WrapArgs as as' → Wrap (.call f l as c) (.call f l as' c)
  | accE {e e' : CST} (a : Lay) (i : CST) (b : Lay) : Wrap e e' → Wrap (.access e a i b) (.access e' a i b)
  | accI {i i' : CST} (e : CST) (a b : Lay) : Wrap i i' → Wrap (.access e a i b) (.access e a i' b)
  | dot {e e' : CST} (n : String) : Wrap e e' → Wrap (.dot e n) (.dot e' n)
  | listA {as as' : Args} (l : Lay) (c : Close) : WrapArgs as as' → Wrap (.list l as c) (.list l as' c)
  | lamB {b b' : CST} (hd : LamHead) (w l : Lay) : Wrap b b' → Wrap (.lambda hd w l b) (.lambda hd w l b')
  | condC {c c' : CST} (w l1 l2 : Lay) (t : CST) (l3 l4 : Lay) (e : CST) : Wrap c c' →
      Wrap (.cond w c l1 l2 t l3 l4 e) (.cond w c' l1 l2 t l3 l4 e)
  | condT {t t' : CST} (w : Lay) (c : CST) (l1 l2 l3 l4 : Lay) (e : CST) : Wrap t t' →
      Wrap (.cond w c l1 l2 t l3 l4 e) (.cond w c l1 l2 t' l3 l4 e)
  | condE {e e' : CST} (w : Lay) (c : CST) (l1 l2 : Lay) (t : CST) (l3 l4 : Lay) : Wrap e e' →
      Wrap (.cond w c l1 l2 t l3 l4 e) (.cond w c l1 l2 t l3 l4 e')
  | recA {es es' : Ents} (l : Lay) (c : Close) : WrapEnts es es' → Wrap (.record l es c) (.record l es' c)
  | doS {ss ss' : Stmts} (l0 l1 w : Lay) (e : CST) (l2 : Lay) : WrapStmts ss ss' →
      Wrap (.doB l0 l1 ss w e l2) (.doB l0 l1 ss' w e l2)
  | doE {e e' : CST} (l0 l1 : Lay) (ss : Stmts) (w l2 : Lay) : Wrap e e' →
      Wrap (.doB l0 l1 ss w e l2) (.doB l0 l1 ss w e' l2)
  | asgV {v v' : CST} (n : String) (w l : Lay) : Wrap v v' → Wrap (.asg n w l v) (.asg n w l v')
inductive WrapArgs : Args → Args → Prop
  | last {a a' : CST} (sp : Bool) : Wrap a a' → WrapArgs (.last sp a) (.last sp a')
  | consA {a a' : CST} (sp : Bool) (w l : Lay) (rest : Args) : Wrap a a' → WrapArgs (.cons sp a w l rest) (.cons sp a' w l rest)
  | consR {rest rest' : Args} (sp : Bool) (a : CST) (w l : Lay) : WrapArgs rest rest' → WrapArgs (.cons sp a w l rest) (.cons sp a w l rest')
/-- … inside a record entry: in its value, in its computed key, in the operand of a spread -/
inductive WrapEnt : Ent → Ent → Prop
  | pairIdV {v v' : CST} (k : String) (w l : Lay) : Wrap v v' → WrapEnt (.pairId k w l v) (.pairId k w l v')
  | pairStrV {v v' : CST} (dq : Bool) (s : String) (w l : Lay) : Wrap v v' →
      WrapEnt (.pairStr dq s w l v) (.pairStr dq s w l v')
  | pairDynK {e e' : CST} (a b w l : Lay) (v : CST) : Wrap e e' →
      WrapEnt (.pairDyn a e b w l v) (.pairDyn a e' b w l v)
  | pairDynV {v v' : CST} (a : Lay) (e : CST) (b w l : Lay) : Wrap v v' →
      WrapEnt (.pairDyn a e b w l v) (.pairDyn a e b w l v')
  | spread {e e' : CST} : Wrap e e' → WrapEnt (.spread e) (.spread e')
inductive WrapEnts : Ents → Ents → Prop
  | last {e e' : Ent} : WrapEnt e e' → WrapEnts (.last e) (.last e')
  | consE {e e' : Ent} (w l : Lay) (rest : Ents) : WrapEnt e e' → WrapEnts (.cons e w l rest) (.cons e' w l rest)
  | consR {rest rest' : Ents} (e : Ent) (w l : Lay) : WrapEnts rest rest' → WrapEnts (.cons e w l rest) (.cons e w l rest')
/-- … inside one statement of a do-block -/
inductive WrapStmts : Stmts → Stmts → Prop
  | here {s s' : CST} (sep : Sep) (rest : Stmts) : Wrap s s' → WrapStmts (.cons s sep rest) (.cons s' sep rest)
  | rest {r r' : Stmts} (s : CST) (sep : Sep) : WrapStmts r r' → WrapStmts (.cons s sep r) (.cons s sep r')
end

/-- extra parentheses only remove operators from the top-level item sequence -/
theorem wrap_infs : ∀ {c c' : CST}, Wrap c c' → ∀ rule, PItem.inf rule ∈ c'.items →
    PItem.inf rule ∈ c.items
  | _, _, .here a c b => by intro rule hm; simp [CST.items] at hm
  | _, _, .binL op a b r hw => by
    intro rule hm
    simp only [CST.items, List.mem_append, List.mem_cons] at hm ⊢
    rcases hm with hm | hm
    · exact Or.inl (wrap_infs hw rule hm)
    · exact Or.inr hm
  | _, _, .binR op l a b hw => by
    intro rule hm
    simp only [CST.items, List.mem_append, List.mem_cons] at hm ⊢
    rcases hm with hm | hm | hm
    · exact Or.inl hm
    · exact Or.inr (Or.inl hm)
    · exact Or.inr (Or.inr (wrap_infs hw rule hm))
  | _, _, .un op hw => by
    intro rule hm
    simp only [CST.items, List.mem_cons] at hm ⊢
    rcases hm with hm | hm
    · cases hm
    · exact Or.inr (wrap_infs hw rule hm)
  | _, _, .fact hw => by
    intro rule hm
    simp only [CST.items, List.mem_append, List.mem_singleton] at hm ⊢
    rcases hm with hm | hm
    · exact Or.inl (wrap_infs hw rule hm)
    · cases hm
  | _, _, .paren a b hw => by intro rule hm; simp [CST.items] at hm
  | _, _, .call0 l hw => by
    intro rule hm
    simp only [CST.items, List.mem_append, List.mem_singleton] at hm ⊢
    rcases hm with hm | hm
    · exact Or.inl (wrap_infs hw rule hm)
    · cases hm
  | _, _, .callF l as c hw => by
    intro rule hm
    simp only [CST.items, List.mem_append, List.mem_singleton] at hm ⊢
    rcases hm with hm | hm
    · exact Or.inl (wrap_infs hw rule hm)
    · cases hm
  | _, _, .callA f l c hw => by
    intro rule hm
    simp only [CST.items, List.mem_append, List.mem_singleton] at hm ⊢
    rcases hm with hm | hm
    · exact Or.inl hm
    · cases hm
  | _, _, .accE a i b hw => by
    intro rule hm
    simp only [CST.items, List.mem_append, List.mem_singleton] at hm ⊢
    rcases hm with hm | hm
    · exact Or.inl (wrap_infs hw rule hm)
    · cases hm
  | _, _, .accI e a b hw => by
    intro rule hm
    simp only [CST.items, List.mem_append, List.mem_singleton] at hm ⊢
    rcases hm with hm | hm
    · exact Or.inl hm
    · cases hm
  | _, _, .dot n hw => by
    intro rule hm
    simp only [CST.items, List.mem_append, List.mem_singleton] at hm ⊢
    rcases hm with hm | hm
    · exact Or.inl (wrap_infs hw rule hm)
    · cases hm
  | _, _, .listA l c hw => by intro rule hm; simp [CST.items] at hm
  | _, _, .lamB hd w l hw => by intro rule hm; simp [CST.items] at hm
  | _, _, .condC w l1 l2 t l3 l4 e hw => by intro rule hm; simp [CST.items] at hm
  | _, _, .condT w c l1 l2 l3 l4 e hw => by intro rule hm; simp [CST.items] at hm
  | _, _, .condE w c l1 l2 t l3 l4 hw => by intro rule hm; simp [CST.items] at hm
  | _, _, .recA l c hw => by intro rule hm; simp [CST.items] at hm
  | _, _, .doS l0 l1 w e l2 hw => by intro rule hm; simp [CST.items] at hm
  | _, _, .doE l0 l1 ss w l2 hw => by intro rule hm; simp [CST.items] at hm
  | _, _, .asgV n w l hw => by intro rule hm; simp [CST.items] at hm

/-- extra parentheses do not expose a word operator at the start -/
theorem wrap_headOk : ∀ {c c' : CST}, Wrap c c' → c.headOk → c'.headOk
  | _, _, .here a c b, _ => trivial
  | _, _, @Wrap.binL l l' op a b r hw, h => wrap_headOk (c := l) (c' := l') hw h
  | _, _, .binR op l a b hw, h => h
  | _, _, .un op hw, h => h
  | _, _, @Wrap.fact e e' hw, h => wrap_headOk (c := e) (c' := e') hw h
  | _, _, .paren a b hw, _ => trivial
  | _, _, @Wrap.call0 f f' l hw, h => wrap_headOk (c := f) (c' := f') hw h
  | _, _, @Wrap.callF f f' l as c hw, h => wrap_headOk (c := f) (c' := f') hw h
  | _, _, .callA f l c hw, h => h
  | _, _, @Wrap.accE e e' a i b hw, h => wrap_headOk (c := e) (c' := e') hw h
  | _, _, .accI e a b hw, h => h
  | _, _, @Wrap.dot e e' n hw, h => wrap_headOk (c := e) (c' := e') hw h
  | _, _, .listA l c hw, _ => trivial
  | _, _, .lamB hd w l hw, h => h
  | _, _, .condC .., _ => trivial
  | _, _, .condT .., _ => trivial
  | _, _, .condE .., _ => trivial
  | _, _, .recA l c hw, _ => trivial
  | _, _, .doS .., _ => trivial
  | _, _, .doE .., _ => trivial
  | _, _, .asgV n w l hw, h => h

theorem wrap_lamSafe {c c' : CST} (hw : Wrap c c') (h : LamSafe c.items) : LamSafe c'.items :=
  fun op hm => h op (wrap_infs hw _ hm)

mutual
theorem wrap_facts : ∀ {c c' : CST}, Wrap c c' →
    c'.tree = c.tree ∧ (c'.isParen = false → c.isParen = false) ∧ (c.Shaped → c'.Shaped) ∧
      (c.LayoutOk → c'.LayoutOk)
  | _, _, .here a c b => ⟨rfl, fun h => by simp [CST.isParen] at h, fun h => h, fun h => h⟩
  | _, _, .binL op a b r hw => by
    obtain ⟨i1, i2, i3, i4⟩ := wrap_facts hw
    refine ⟨by simp only [CST.tree, i1], fun _ => rfl, ?_, ?_⟩
    · rintro ⟨h1, h2, h3, h4⟩
      exact ⟨i3 h1, h2, fun hp => by rw [i1]; exact h3 (i2 hp), h4⟩
    · rintro ⟨h1, h2, h3⟩
      exact ⟨i4 h1, h2, h3⟩
  | _, _, .binR op l a b hw => by
    obtain ⟨i1, i2, i3, i4⟩ := wrap_facts hw
    refine ⟨by simp only [CST.tree, i1], fun _ => rfl, ?_, ?_⟩
    · rintro ⟨h1, h2, h3, h4⟩
      exact ⟨h1, i3 h2, h3, fun hp => by rw [i1]; exact h4 (i2 hp)⟩
    · rintro ⟨h1, h2, h3⟩
      exact ⟨h1, i4 h2, h3⟩
  | _, _, .un op hw => by
    obtain ⟨i1, i2, i3, i4⟩ := wrap_facts hw
    refine ⟨by simp only [CST.tree, i1], fun _ => rfl, ?_, i4⟩
    rintro ⟨h1, h2, h3⟩
    exact ⟨h1, i3 h2, fun hp => by rw [i1]; exact h3 (i2 hp)⟩
  | _, _, .fact hw => by
    obtain ⟨i1, i2, i3, i4⟩ := wrap_facts hw
    refine ⟨by simp only [CST.tree, i1], fun _ => rfl, ?_, i4⟩
    rintro ⟨h1, h2⟩
    exact ⟨i3 h1, fun hp => by rw [i1]; exact h2 (i2 hp)⟩
  | _, _, .paren a b hw => by
    obtain ⟨i1, _, i3, i4⟩ := wrap_facts hw
    exact ⟨by simp only [CST.tree, i1], fun h => by simp [CST.isParen] at h, i3, i4⟩
  | _, _, .call0 l hw => by
    obtain ⟨i1, i2, i3, i4⟩ := wrap_facts hw
    refine ⟨by simp only [CST.tree, i1], fun _ => rfl, ?_, i4⟩
    rintro ⟨h1, h2⟩
    exact ⟨i3 h1, fun hp => by rw [i1]; exact h2 (i2 hp)⟩
  | _, _, .callF l as c hw => by
    obtain ⟨i1, i2, i3, i4⟩ := wrap_facts hw
    refine ⟨by simp only [CST.tree, i1], fun _ => rfl, ?_, ?_⟩
    · rintro ⟨h1, h2, h3⟩
      exact ⟨i3 h1, fun hp => by rw [i1]; exact h2 (i2 hp), h3⟩
    · rintro ⟨h1, h2, h3⟩
      exact ⟨i4 h1, h2, h3⟩
  | _, _, .callA f l c hw => by
    obtain ⟨j1, j2, j3⟩ := wrapArgs_facts hw
    refine ⟨by simp only [CST.tree, j1], fun _ => rfl, ?_, ?_⟩
    · rintro ⟨h1, h2, h3⟩
      exact ⟨h1, h2, j2 h3⟩
    · rintro ⟨h1, h2, h3⟩
      exact ⟨h1, j3 h2, h3⟩
  | _, _, .accE a i b hw => by
    obtain ⟨i1, i2, i3, i4⟩ := wrap_facts hw
    refine ⟨by simp only [CST.tree, i1], fun _ => rfl, ?_, ?_⟩
    · rintro ⟨h1, h2, h3⟩
      exact ⟨i3 h1, fun hp => by rw [i1]; exact h2 (i2 hp), h3⟩
    · rintro ⟨h1, h2, h3⟩
      exact ⟨i4 h1, h2, h3⟩
  | _, _, .accI e a b hw => by
    obtain ⟨i1, _, i3, i4⟩ := wrap_facts hw
    refine ⟨by simp only [CST.tree, i1], fun _ => rfl, ?_, ?_⟩
    · rintro ⟨h1, h2, h3⟩
      exact ⟨h1, h2, i3 h3⟩
    · rintro ⟨h1, h2, h3⟩
      exact ⟨h1, i4 h2, h3⟩
  | _, _, .dot n hw => by
    obtain ⟨i1, i2, i3, i4⟩ := wrap_facts hw
    refine ⟨by simp only [CST.tree, i1], fun _ => rfl, ?_, i4⟩
    rintro ⟨h1, h2, h3⟩
    exact ⟨i3 h1, fun hp => by rw [i1]; exact h2 (i2 hp), h3⟩
  | _, _, .listA l c hw => by
    obtain ⟨j1, j2, j3⟩ := wrapArgs_facts hw
    refine ⟨by simp only [CST.tree, j1], fun _ => rfl, j2, ?_⟩
    rintro ⟨h1, h2⟩
    exact ⟨j3 h1, h2⟩
  | _, _, .lamB hd w l hw => by
    obtain ⟨i1, i2, i3, i4⟩ := wrap_facts hw
    refine ⟨by simp only [CST.tree, i1], fun _ => rfl, ?_, ?_⟩
    · rintro ⟨h1, h2, h3, h4⟩
      refine ⟨h1, i3 h2, fun hp => by rw [i1]; exact h3 (i2 hp), ?_⟩
      -- the items of the body: unchanged, or one primary
      exact wrap_lamSafe hw h4
    · rintro ⟨h1, h2, h3⟩
      exact ⟨h1, h2, i4 h3⟩
  | _, _, .condC w l1 l2 t l3 l4 e hw => by
    obtain ⟨i1, _, i3, i4⟩ := wrap_facts hw
    refine ⟨by simp only [CST.tree, i1], fun _ => rfl, ?_, ?_⟩
    · rintro ⟨h1, h2, h3⟩; exact ⟨i3 h1, h2, h3⟩
    · rintro ⟨h0, h1, h2, h3⟩; exact ⟨h0, i4 h1, h2, h3⟩
  | _, _, .condT w c l1 l2 l3 l4 e hw => by
    obtain ⟨i1, _, i3, i4⟩ := wrap_facts hw
    refine ⟨by simp only [CST.tree, i1], fun _ => rfl, ?_, ?_⟩
    · rintro ⟨h1, h2, h3⟩; exact ⟨h1, i3 h2, h3⟩
    · rintro ⟨h0, h1, h2, h3⟩; exact ⟨h0, h1, i4 h2, h3⟩
  | _, _, .condE w c l1 l2 t l3 l4 hw => by
    obtain ⟨i1, _, i3, i4⟩ := wrap_facts hw
    refine ⟨by simp only [CST.tree, i1], fun _ => rfl, ?_, ?_⟩
    · rintro ⟨h1, h2, h3⟩; exact ⟨h1, h2, i3 h3⟩
    · rintro ⟨h0, h1, h2, h3⟩; exact ⟨h0, h1, h2, i4 h3⟩
  | _, _, .recA l c hw => by
    obtain ⟨j1, j2, j3⟩ := wrapEnts_facts hw
    refine ⟨by simp only [CST.tree, j1], fun _ => rfl, j2, ?_⟩
    rintro ⟨h1, h2⟩
    exact ⟨j3 h1, h2⟩
  | _, _, .doS l0 l1 w e l2 hw => by
    obtain ⟨j1, _, j2, j3⟩ := wrapStmts_facts hw
    refine ⟨by simp only [CST.tree, j1], fun _ => rfl, ?_, ?_⟩
    · rintro ⟨h1, h2⟩; exact ⟨j2 h1, h2⟩
    · rintro ⟨h0, h1, h2⟩; exact ⟨h0, j3 h1, h2⟩
  | _, _, .doE l0 l1 ss w l2 hw => by
    obtain ⟨i1, _, i3, i4⟩ := wrap_facts hw
    refine ⟨by simp only [CST.tree, i1], fun _ => rfl, ?_, ?_⟩
    · rintro ⟨h1, h2⟩; exact ⟨h1, i3 h2⟩
    · rintro ⟨h0, h1, h2⟩; exact ⟨h0, h1, i4 h2⟩
  | _, _, .asgV n w l hw => by
    obtain ⟨i1, _, i3, i4⟩ := wrap_facts hw
    refine ⟨by simp only [CST.tree, i1], fun _ => rfl, ?_, ?_⟩
    · rintro ⟨h1, h2⟩; exact ⟨h1, i3 h2⟩
    · rintro ⟨h0, h1, h2⟩; exact ⟨h0, h1, i4 h2⟩
theorem wrapArgs_facts : ∀ {as as' : Args}, WrapArgs as as' →
    CST.argsTrees as' = CST.argsTrees as ∧ (CST.ArgsShaped as → CST.ArgsShaped as') ∧
      (CST.ArgsLayoutOk as → CST.ArgsLayoutOk as')
  | _, _, .last sp hw => by
    obtain ⟨i1, _, i3, i4⟩ := wrap_facts hw
    exact ⟨by simp only [CST.argsTrees, i1], i3, i4⟩
  | _, _, .consA sp w l rest hw => by
    obtain ⟨i1, _, i3, i4⟩ := wrap_facts hw
    refine ⟨by simp only [CST.argsTrees, i1], ?_, ?_⟩
    · rintro ⟨h1, h2⟩; exact ⟨i3 h1, h2⟩
    · rintro ⟨h1, h2, h3⟩; exact ⟨i4 h1, h2, h3⟩
  | _, _, .consR sp a w l hw => by
    obtain ⟨j1, j2, j3⟩ := wrapArgs_facts hw
    refine ⟨by simp only [CST.argsTrees, j1], ?_, ?_⟩
    · rintro ⟨h1, h2⟩; exact ⟨h1, j2 h2⟩
    · rintro ⟨h1, h2, h3⟩; exact ⟨h1, h2, j3 h3⟩
theorem wrapEnt_facts : ∀ {e e' : Ent}, WrapEnt e e' →
    CST.entTree e' = CST.entTree e ∧ (CST.EntShaped e → CST.EntShaped e') ∧
      (CST.EntLayoutOk e → CST.EntLayoutOk e')
  | _, _, .pairIdV k w l hw => by
    obtain ⟨i1, _, i3, i4⟩ := wrap_facts hw
    refine ⟨by simp only [CST.entTree, i1], i3, ?_⟩
    rintro ⟨h1, h2, h3⟩; exact ⟨h1, h2, i4 h3⟩
  | _, _, .pairStrV dq s w l hw => by
    obtain ⟨i1, _, i3, i4⟩ := wrap_facts hw
    refine ⟨by simp only [CST.entTree, i1], i3, ?_⟩
    rintro ⟨h1, h2, h3⟩; exact ⟨h1, h2, i4 h3⟩
  | _, _, .pairDynK a b w l v hw => by
    obtain ⟨i1, _, i3, i4⟩ := wrap_facts hw
    refine ⟨by simp only [CST.entTree, i1], ?_, ?_⟩
    · rintro ⟨h1, h2⟩; exact ⟨i3 h1, h2⟩
    · rintro ⟨h1, h2, h3⟩; exact ⟨h1, i4 h2, h3⟩
  | _, _, .pairDynV a e b w l hw => by
    obtain ⟨i1, _, i3, i4⟩ := wrap_facts hw
    refine ⟨by simp only [CST.entTree, i1], ?_, ?_⟩
    · rintro ⟨h1, h2⟩; exact ⟨h1, i3 h2⟩
    · rintro ⟨h1, h2, h3⟩; exact ⟨h1, h2, i4 h3⟩
  | _, _, .spread hw => by
    obtain ⟨i1, _, i3, i4⟩ := wrap_facts hw
    exact ⟨by simp only [CST.entTree, i1], i3, i4⟩
theorem wrapEnts_facts : ∀ {es es' : Ents}, WrapEnts es es' →
    CST.entsTrees es' = CST.entsTrees es ∧ (CST.EntsShaped es → CST.EntsShaped es') ∧
      (CST.EntsLayoutOk es → CST.EntsLayoutOk es')
  | _, _, .last hw => by
    obtain ⟨i1, i3, i4⟩ := wrapEnt_facts hw
    exact ⟨by simp only [CST.entsTrees, i1], i3, i4⟩
  | _, _, .consE w l rest hw => by
    obtain ⟨i1, i3, i4⟩ := wrapEnt_facts hw
    refine ⟨by simp only [CST.entsTrees, i1], ?_, ?_⟩
    · rintro ⟨h1, h2⟩; exact ⟨i3 h1, h2⟩
    · rintro ⟨h1, h2, h3⟩; exact ⟨i4 h1, h2, h3⟩
  | _, _, .consR e w l hw => by
    obtain ⟨j1, j2, j3⟩ := wrapEnts_facts hw
    refine ⟨by simp only [CST.entsTrees, j1], ?_, ?_⟩
    · rintro ⟨h1, h2⟩; exact ⟨h1, j2 h2⟩
    · rintro ⟨h1, h2, h3⟩; exact ⟨h1, h2, j3 h3⟩
theorem wrapStmts_facts : ∀ {ss ss' : Stmts}, WrapStmts ss ss' →
    CST.stmtsTrees ss' = CST.stmtsTrees ss ∧ (CST.StmtsHeadOk ss → CST.StmtsHeadOk ss') ∧
      (CST.StmtsShaped ss → CST.StmtsShaped ss') ∧ (CST.StmtsLayoutOk ss → CST.StmtsLayoutOk ss')
  | _, _, .here sep rest hw => by
    obtain ⟨i1, _, i3, i4⟩ := wrap_facts hw
    refine ⟨by simp only [CST.stmtsTrees, i1], wrap_headOk hw, ?_, ?_⟩
    · rintro ⟨h1, h2, h3⟩; exact ⟨i3 h1, h2, h3⟩
    · rintro ⟨h1, h2, h3⟩; exact ⟨i4 h1, h2, h3⟩
  | _, _, .rest s sep hw => by
    obtain ⟨j1, j0, j2, j3⟩ := wrapStmts_facts hw
    refine ⟨by simp only [CST.stmtsTrees, j1], fun h => h, ?_, ?_⟩
    · rintro ⟨h1, h2, h3⟩; exact ⟨h1, fun hl => j0 (h2 hl), j2 h3⟩
    · rintro ⟨h1, h2, h3⟩; exact ⟨h1, h2, j3 h3⟩
end

/-- any number of extra pairs of parentheses, one after the other, anywhere -/
inductive Wraps : CST → CST → Prop
  | refl (c : CST) : Wraps c c
  | step {c c' c'' : CST} : Wraps c c' → Wrap c' c'' → Wraps c c''

theorem wraps_facts {c c' : CST} (hw : Wraps c c') (h : c.WF) : c'.tree = c.tree ∧ c'.WF := by
  induction hw with
  | refl => exact ⟨rfl, h⟩
  | step _ hs ih =>
    obtain ⟨i1, _, i3, i4⟩ := wrap_facts hs
    exact ⟨i1.trans ih.1, i3 ih.2.1, i4 ih.2.2⟩

/-! ### (14) a string with BOTH kinds of quote: the printed concatenation

  No literal denotes such a string (the grammar has no escapes), so `string_to_source` writes
  `("a" + '"' + "b")` (`PrintL.stringToSource_both`).  That text is a CST of the fragment —
  a parenthesised left-nested `+` of string literals — and is read back to that sum
  (`bothTree`), NOT to the string node it was printed from. -/

section bothq
open PrintL

/-- the literal of one (delimiter, content) pair -/
def pieceCST (qc : Char × List Char) : CST := .str (qc.1 == '"') (String.ofList qc.2)

/-- `acc + p₁ + p₂ + …` as the printer writes it (left-nested, one blank around each `+`) -/
def sumCST (acc : CST) (rest : List (Char × List Char)) : CST :=
  rest.foldl (fun a qc => .bin .add a [.sp] [.sp] (pieceCST qc)) acc

/-- the left-nested sum of string literals -/
def strSum (acc : Expr) (rest : List (List Char)) : Expr :=
  rest.foldl (fun a p => .bin .add a (.str (String.ofList p))) acc

/-- the CST of the printed form of a string with both kinds of quote -/
def bothCST (s : String) : CST :=
  match quotedPieces s.toList with
  | [] => .atom (.str s)
  | q0 :: rest => .paren [] (sumCST (pieceCST q0) rest) []

/-- what the printed form of a string with both kinds of quote is read back to: the
    left-nested `+` of the string literals of its pieces (`PrintL.pieces`: their contents
    concatenate to the string, `PrintL.pieces_flatten`) -/
def bothTree (s : String) : Expr :=
  match pieces s.toList with
  | [] => .str s
  | p0 :: rest => strSum (.str (String.ofList p0)) rest

theorem pieceCST_text (qc : Char × List Char) (hq : qc.1 = '"' ∨ qc.1 = '\'') :
    (pieceCST qc).text = (litOf qc).toList := by
  obtain ⟨q, c⟩ := qc
  rcases hq with h | h <;> simp only at h <;> subst h <;>
    simp [pieceCST, CST.text, litOf, quoteChar]

theorem pieceCST_layout (qc : Char × List Char) (hq : qc.1 = '"' ∨ qc.1 = '\'') (hf : qc.1 ∉ qc.2) :
    (pieceCST qc).LayoutOk := by
  obtain ⟨q, c⟩ := qc
  rcases hq with h | h <;> simp only at h hf <;> subst h <;>
    simpa [pieceCST, CST.LayoutOk, quoteChar] using hf

/-- what the induction over the sum carries -/
def SumOk (c : CST) : Prop :=
  c.Shaped ∧ c.LayoutOk ∧ c.isParen = false ∧ needsParens c.tree (.binLeft .add) = false

theorem sumOk_piece (qc : Char × List Char) (hq : qc.1 = '"' ∨ qc.1 = '\'') (hf : qc.1 ∉ qc.2) :
    SumOk (pieceCST qc) :=
  ⟨trivial, pieceCST_layout qc hq hf, rfl, rfl⟩

theorem sumOk_step {a : CST} (ha : SumOk a) (qc : Char × List Char) (hq : qc.1 = '"' ∨ qc.1 = '\'')
    (hf : qc.1 ∉ qc.2) : SumOk (.bin .add a [.sp] [.sp] (pieceCST qc)) := by
  obtain ⟨h1, h2, h3, h4⟩ := ha
  refine ⟨⟨h1, trivial, fun _ => h4, fun _ => rfl⟩, ⟨h2, pieceCST_layout qc hq hf, layOk_sp .add⟩, rfl, ?_⟩
  show needsParens (.bin .add a.tree (.str (String.ofList qc.2))) (.binLeft .add) = false
  rw [PrattRT.np_left]
  simp only [endsOpen]
  decide

theorem sumCST_ok : ∀ (rest : List (Char × List Char)) (acc : CST), SumOk acc →
    (∀ qc ∈ rest, (qc.1 = '"' ∨ qc.1 = '\'') ∧ qc.1 ∉ qc.2) → SumOk (sumCST acc rest)
  | [], _, ha, _ => ha
  | qc :: rest, acc, ha, h => by
    have hq := h qc List.mem_cons_self
    exact sumCST_ok rest _ (sumOk_step ha qc hq.1 hq.2) (fun x hx => h x (List.mem_cons_of_mem _ hx))

theorem sumCST_tree : ∀ (rest : List (Char × List Char)) (acc : CST),
    (sumCST acc rest).tree = strSum acc.tree (rest.map (·.2))
  | [], _ => rfl
  | qc :: rest, acc => by
    have := sumCST_tree rest (.bin .add acc [.sp] [.sp] (pieceCST qc))
    simpa [sumCST, strSum, CST.tree, pieceCST] using this

theorem sumCST_text : ∀ (rest : List (Char × List Char)) (acc : CST),
    (∀ qc ∈ rest, qc.1 = '"' ∨ qc.1 = '\'') →
    (sumCST acc rest).text = acc.text ++ (rest.map fun qc => [' ', '+', ' '] ++ (litOf qc).toList).flatten
  | [], _, _ => by simp [sumCST]
  | qc :: rest, acc, h => by
    have ih := sumCST_text rest (.bin .add acc [.sp] [.sp] (pieceCST qc))
      (fun x hx => h x (List.mem_cons_of_mem _ hx))
    have hsp : spell .add = ['+'] := by decide +kernel
    simp only [sumCST, List.foldl_cons] at ih ⊢
    rw [ih]
    simp [CST.text, pieceCST_text qc (h qc List.mem_cons_self), layChars, LayAtom.chars, hsp]

theorem bothCST_facts (s : String) (h1 : '"' ∈ s.toList) (h2 : '\'' ∈ s.toList) :
    (bothCST s).WF ∧ (bothCST s).tree = bothTree s ∧
      (bothCST s).text = (exprToSource (.str s)).toList := by
  have hne := quotedPieces_ne_nil s.toList h1
  have hok := quotedPieces_ok s.toList
  have hsrc := stringToSource_both s h1 h2
  unfold bothCST bothTree pieces
  cases hq : quotedPieces s.toList with
  | nil => exact absurd hq hne
  | cons q0 rest =>
    rw [hq] at hok hsrc
    have h0 := hok q0 List.mem_cons_self
    have hr : ∀ qc ∈ rest, (qc.1 = '"' ∨ qc.1 = '\'') ∧ qc.1 ∉ qc.2 :=
      fun x hx => hok x (List.mem_cons_of_mem _ hx)
    obtain ⟨w1, w2, _, _⟩ := sumCST_ok rest _ (sumOk_piece q0 h0.1 h0.2) hr
    refine ⟨⟨w1, w2⟩, ?_, ?_⟩
    · simp only [CST.tree, sumCST_tree, List.map_cons, pieceCST]
    · have ht := sumCST_text rest (pieceCST q0) (fun x hx => (hr x hx).1)
      simp only [exprToSource, exprSrc, hsrc, CST.text, layChars, List.nil_append, ht,
        pieceCST_text q0 h0.1, String.toList_append, String.toList_intercalate, List.map_cons,
        intercalate_cons_flatten, List.map_map, Function.comp_def, List.append_assoc]
      rfl

/-- the printed form of a string with both kinds of quote is read back to the sum of its pieces -/
theorem both_quotes_parse (s : String) (h1 : '"' ∈ s.toList) (h2 : '\'' ∈ s.toList) :
    parseText (exprToSource (.str s)) = some (bothTree s) := by
  obtain ⟨hwf, ht, htx⟩ := bothCST_facts s h1 h2
  have := cst_roundtrip (bothCST s) hwf
  rwa [htx, String.ofList_toList, ht] at this

def isBinNode : Expr → Bool
  | .bin .. => true
  | _ => false

theorem strSum_isBin : ∀ (rest : List (List Char)) (acc : Expr), isBinNode acc = true →
    isBinNode (strSum acc rest) = true
  | [], _, h => h
  | p :: rest, acc, _ => strSum_isBin rest (.bin .add acc (.str (String.ofList p))) rfl

/-- … and that sum is never the string node itself: the round trip fails exactly there -/
theorem bothTree_ne_str (s : String) (h1 : '"' ∈ s.toList) (h2 : '\'' ∈ s.toList) :
    bothTree s ≠ .str s := by
  have hne := quotedPieces_ne_nil s.toList h1
  have hok := quotedPieces_ok s.toList
  unfold bothTree pieces
  cases hq : quotedPieces s.toList with
  | nil => exact absurd hq hne
  | cons q0 rest =>
    simp only [List.map_cons]
    cases rest with
    | nil =>
      intro he
      simp only [List.map_nil, strSum, List.foldl_nil, Expr.str.injEq] at he
      have hp : q0.2 = s.toList := by rw [← he, String.toList_ofList]
      obtain ⟨hq1, hq2⟩ := hok q0 (by rw [hq]; exact List.mem_cons_self)
      rw [hp] at hq2
      rcases hq1 with e | e <;> rw [e] at hq2
      · exact hq2 h1
      · exact hq2 h2
    | cons q1 rest' =>
      intro he
      have := strSum_isBin (rest'.map (·.2))
        (.bin .add (.str (String.ofList q0.2)) (.str (String.ofList q1.2))) rfl
      simp only [List.map_cons, strSum, List.foldl_cons] at he
      simp only [strSum] at this
      rw [he] at this
      cases this

/-- THE ROUND TRIP OF A STRING LITERAL holds exactly when the string does not contain both
    kinds of quote -/
theorem string_roundtrip_iff (s : String) :
    parseText (exprToSource (.str s)) = some (.str s) ↔ Frag (.str s) := by
  constructor
  · intro h
    simp only [Frag, frag_str_iff, Bool.not_eq_true']
    cases hb : bothQuotes s with
    | false => rfl
    | true =>
      exfalso
      simp only [bothQuotes, Bool.and_eq_true, List.contains_iff_mem] at hb
      have := both_quotes_parse s hb.1 hb.2
      rw [h] at this
      simp only [Option.some.injEq] at this
      exact bothTree_ne_str s hb.1 hb.2 this.symm
  · intro h
    have := cst_roundtrip (canon (.str s)) (canon_wf _ h)
    rwa [canon_text_frag _ h, String.ofList_toList, canon_tree_frag _ h] at this

end bothq

end Blots.ExprPeg
