import Blots.Model.ExprPeg
import Blots.Lemmas.ExprPegFuel
import Blots.Lemmas.IdentLemmas
import Blots.Lemmas.PrattRoundTrip
import Blots.Lemmas.SrcNumber
import Blots.Lemmas.PrintLemmas
/-
  Text-level lemmas for the PEG model of `expression` (C10), part 1: the pieces.
    (0) layout strings `Lay` and what `layoutStar` / `layoutPlus` / `wsPlus` / `nlStar` /
        `skipWs` do on them;
    (1) ordered choice over operator literals (`hitBad`, `firstRule_hit`);
    (2) the operator tables (`symOk`, `wordOk`, `symPostOk`: whole-table facts by evaluation);
    (3) `infix_usage` on an operator with its layout, and at a closing bracket / comma;
    (4) prefix operators, "no postfix operator here" (`postNone`);
    (5) the atoms of the fragment (`atomOk`, `atom_word`).
  Part 2 (`Lemmas/ExprPegLemmas.lean`): concrete syntax trees and the round trip.
-/
set_option linter.unusedSimpArgs false
namespace Blots.ExprPeg
open Blots.Ident

/-! ### (0) layout strings -/

/-- the layout atoms the theorems range over: space, tab, line feed, CR LF.  (The grammar's
    NEWLINE also admits an `inline_comment` before the line break; comments are part of the
    MODEL (`newline`) but are left out of the layout theorems: a comment directly after `/`
    would read `///…`, which the grammar takes as a comment, not as the operator.) -/
inductive LayAtom where
  | sp | tab | lf | crlf
  deriving DecidableEq, Repr

abbrev Lay := List LayAtom

def LayAtom.chars : LayAtom → List Char
  | .sp => [' ']
  | .tab => ['\t']
  | .lf => ['\n']
  | .crlf => ['\r', '\n']

/-- WHITESPACE atoms (the only ones allowed after a word operator) -/
def LayAtom.isWs : LayAtom → Bool
  | .sp | .tab => true
  | _ => false

def layChars : Lay → List Char
  | [] => []
  | a :: l => a.chars ++ layChars l

theorem layChars_append (a b : Lay) : layChars (a ++ b) = layChars a ++ layChars b := by
  induction a with
  | nil => rfl
  | cons x a ih => simp [layChars, ih]

/-- a character that can follow layout in the fragment without being layout itself: not a
    blank, not part of a line break, not `/` (which could start a comment) -/
def notLayoutStart (c : Char) : Bool := !(c == ' ' || c == '\t' || c == '\n' || c == '\r' || c == '/')

theorem layoutAtom_atom (a : LayAtom) (rest : List Char) :
    layoutAtom (a.chars ++ rest) = some rest := by
  cases a <;> simp [LayAtom.chars, layoutAtom, orElse, whitespace, isWs, newline, inlineComment,
    plainNewline, lit]

theorem layoutAtom_nil : layoutAtom [] = none := by
  simp [layoutAtom, orElse, whitespace, newline, inlineComment, plainNewline, lit]

theorem layoutAtom_none {c : Char} {r : List Char} (h : notLayoutStart c = true) :
    layoutAtom (c :: r) = none := by
  simp only [notLayoutStart, Bool.not_eq_true', Bool.or_eq_false_iff, beq_eq_false_iff_ne, ne_eq] at h
  obtain ⟨⟨⟨⟨h1, h2⟩, h3⟩, h4⟩, h5⟩ := h
  have e1 : ¬ ('/' = c) := fun e => h5 e.symm
  have e2 : ¬ ('\r' = c) := fun e => h4 e.symm
  have e3 : ¬ ('\n' = c) := fun e => h3 e.symm
  simp [layoutAtom, orElse, whitespace, isWs, newline, inlineComment, plainNewline, lit, h1, h2,
    e1, e2, e3]

/-- `/` followed by something that is not `/` is not layout either (the divide operator) -/
theorem layoutAtom_slash {c : Char} {r : List Char} (h : c ≠ '/') :
    layoutAtom ('/' :: c :: r) = none := by
  have e1 : ¬ ('/' = c) := fun e => h e.symm
  simp [layoutAtom, orElse, whitespace, isWs, newline, inlineComment, plainNewline, lit, e1]

theorem star_layout_run (n : Nat) (l : Lay) (rest : List Char) (hn : l.length < n)
    (hr : layoutAtom rest = none) : star layoutAtom n (layChars l ++ rest) = rest := by
  induction n generalizing l with
  | zero => exact absurd hn (Nat.not_lt_zero _)
  | succ m ih =>
    cases l with
    | nil => simp [layChars, star, hr]
    | cons a l =>
      simp only [layChars, List.append_assoc, star, layoutAtom_atom]
      exact ih l (by simp only [List.length_cons] at hn; omega)

theorem LayAtom.chars_length_pos (a : LayAtom) : 0 < a.chars.length := by
  cases a <;> simp [LayAtom.chars]

theorem layChars_length (l : Lay) : l.length ≤ (layChars l).length := by
  induction l with
  | nil => simp [layChars]
  | cons a l ih =>
    have := a.chars_length_pos
    simp only [layChars, List.length_cons, List.length_append]; omega

/-- `(WHITESPACE | NEWLINE)*` consumes exactly a layout string in front of non-layout -/
theorem layoutStar_run (l : Lay) (rest : List Char) (hr : layoutAtom rest = none) :
    layoutStar (layChars l ++ rest) = rest := by
  unfold layoutStar
  apply star_layout_run _ _ _ _ hr
  have := layChars_length l
  simp only [List.length_append]; omega

theorem layoutPlus_run (l : Lay) (hl : l ≠ []) (rest : List Char) (hr : layoutAtom rest = none) :
    layoutPlus (layChars l ++ rest) = some rest := by
  cases l with
  | nil => exact absurd rfl hl
  | cons a l =>
    simp only [layoutPlus, layChars, List.append_assoc, layoutAtom_atom, Option.map_some,
      layoutStar_run l rest hr]

theorem layoutPlus_none {cs : List Char} (h : layoutAtom cs = none) : layoutPlus cs = none := by
  simp [layoutPlus, h]

/-- WHITESPACE-only layout -/
def wsOnly (l : Lay) : Bool := l.all LayAtom.isWs

theorem wsPlus_run (l : Lay) (hl : l ≠ []) (hw : wsOnly l = true) (c : Char) (rest : List Char)
    (hc : isWs c = false) : wsPlus (layChars l ++ c :: rest) = some (c :: rest) := by
  have key : ∀ l : Lay, wsOnly l = true → (layChars l ++ c :: rest).dropWhile isWs = c :: rest := by
    intro l
    induction l with
    | nil => intro _; simp [layChars, List.dropWhile, hc]
    | cons a l ih =>
      intro h
      simp only [wsOnly, List.all_cons, Bool.and_eq_true] at h
      have := ih h.2
      cases a <;> simp_all [LayAtom.isWs, LayAtom.chars, layChars, List.dropWhile, isWs]
  cases l with
  | nil => exact absurd rfl hl
  | cons a l =>
    simp only [wsOnly, List.all_cons, Bool.and_eq_true] at hw
    have := key l hw.2
    cases a <;> simp_all [LayAtom.isWs, LayAtom.chars, layChars, wsPlus, plus, isWs]

theorem lay_head (b : Lay) (c : Char) (tl : List Char) (P : Char → Prop)
    (h1 : P ' ') (h2 : P '\t') (h3 : P '\n') (h4 : P '\r') (hc : P c) :
    ∃ d tl', layChars b ++ c :: tl = d :: tl' ∧ P d := by
  cases b with
  | nil => exact ⟨c, tl, rfl, hc⟩
  | cons a b => cases a <;> simp [layChars, LayAtom.chars, *]

/-! ### (1) ordered choice over operator literals -/

/-- no alternative starts with the character the input starts with -/
theorem firstRule_none_of_heads {L : List (String × List Char)} {c : Char} {tl : List Char}
    (h : ∀ x ∈ L, ∃ a t, x.2 = a :: t ∧ a ≠ c) : firstRule L (c :: tl) = none := by
  induction L with
  | nil => rfl
  | cons x L ih =>
    obtain ⟨r', s'⟩ := x
    obtain ⟨a, t, e, hne⟩ := h (r', s') List.mem_cons_self
    simp only at e
    subst e
    simp only [firstRule, lit, hne, if_false]
    exact ih (fun y hy => h y (List.mem_cons_of_mem _ hy))

theorem firstRule_nil (L : List (String × List Char)) (h : ∀ x ∈ L, x.2 ≠ []) :
    firstRule L [] = none := by
  induction L with
  | nil => rfl
  | cons x L ih =>
    obtain ⟨r', s'⟩ := x
    have : s' ≠ [] := h (r', s') List.mem_cons_self
    cases s' with
    | nil => exact absurd rfl this
    | cons a t =>
      simp only [firstRule, lit]
      exact ih (fun y hy => h y (List.mem_cons_of_mem _ hy))

/-- For the literal `s` of `rule` in the ordered choice `L`: the characters that, directly
    after `s`, would let an alternative listed BEFORE it match instead (`none`: `s` is not
    reachable at all — an earlier literal is a prefix of it, or it is not in the list). -/
def hitBad : List (String × List Char) → String → List Char → Option (List Char)
  | [], _, _ => none
  | (r', s') :: more, rule, s =>
    if s' = s then (if r' = rule then some [] else none)
    else if (lit s' s).isSome then none
    else
      match lit s s' with
      | some (c :: _) => (hitBad more rule s).map (c :: ·)
      | _ => hitBad more rule s

theorem firstRule_hit {L : List (String × List Char)} {rule : String} {s bad : List Char}
    {c : Char} {tl : List Char} (h : hitBad L rule s = some bad) (hc : c ∉ bad) :
    firstRule L (s ++ c :: tl) = some (rule, c :: tl) := by
  induction L generalizing bad with
  | nil => simp [hitBad] at h
  | cons x L ih =>
    obtain ⟨r', s'⟩ := x
    simp only [hitBad] at h
    by_cases e : s' = s
    · subst e
      simp only [if_true] at h
      split at h
      · rename_i hr; subst hr
        simp [firstRule, lit_append]
      · cases h
    · simp only [e, if_false] at h
      split at h
      · cases h
      · rename_i hpre
        -- `s'` does not match at `s ++ c :: tl`
        have hno : lit s' (s ++ c :: tl) = none := by
          cases hl : lit s' (s ++ c :: tl) with
          | none => rfl
          | some r =>
            exfalso
            have he := lit_eq_some.mp hl
            rcases List.append_eq_append_iff.mp he with ⟨a', hsa, hra⟩ | ⟨c', hsc, _⟩
            · cases a' with
              | nil => simp only [List.append_nil] at hsa; exact e hsa
              | cons x a'' =>
                simp only [List.cons_append, List.cons.injEq] at hra
                obtain ⟨rfl, _⟩ := hra
                have hls : lit s s' = some (c :: a'') := lit_eq_some.mpr hsa
                rw [hls] at h
                simp only [Option.map_eq_some_iff] at h
                obtain ⟨b', _, rfl⟩ := h
                exact hc List.mem_cons_self
            · have : lit s' s = some c' := lit_eq_some.mpr hsc
              rw [this] at hpre
              exact hpre rfl
        simp only [firstRule, hno]
        split at h
        · simp only [Option.map_eq_some_iff] at h
          obtain ⟨b', hb, rfl⟩ := h
          exact ih hb (fun hm => hc (List.mem_cons_of_mem _ hm))
        · exact ih h hc

/-! ### (2) the operator tables -/

/-- the word operators (`natural_infix_op`) -/
def isWordOp (op : BinOp) : Bool := Gen.naturalOrder.contains (PrattRT.ruleOf op)

/-- spelling the printer uses, as characters -/
def spell (op : BinOp) : List Char := (opSpelling op).toList

/-- what the proofs need to know about a symbol operator -/
def symOk (op : BinOp) : Bool :=
  (match hitBad infixLits (PrattRT.ruleOf op) (spell op) with
   | some bad => bad.all (· == '=')
   | none => false) &&
  (match spell op with
   | [] => false
   | h :: t =>
     (notLayoutStart h || (h == '/' && t.isEmpty)) && !isIdentChar h &&
       naturalLits.all (fun x => match x.2 with | [] => false | a :: _ => a != h))

/-- what the proofs need to know about a word operator -/
def wordOk (op : BinOp) : Bool :=
  (match hitBad naturalLits (PrattRT.ruleOf op) (spell op) with
   | some bad => bad.all (fun c => !isWs c)
   | none => false) &&
  (match spell op with
   | [] => false
   | h :: _ => notLayoutStart h)

theorem all_opFacts :
    (BinOp.all.all fun op => if isWordOp op then wordOk op else symOk op) = true := by
  decide +kernel

theorem symOk_of (op : BinOp) (h : isWordOp op = false) : symOk op = true := by
  have := List.all_eq_true.mp all_opFacts op (PrattRT.BinOp.mem_all op)
  simpa [h] using this

theorem wordOk_of (op : BinOp) (h : isWordOp op = true) : wordOk op = true := by
  have := List.all_eq_true.mp all_opFacts op (PrattRT.BinOp.mem_all op)
  simpa [h] using this

/-- a symbol operator directly behind its left operand is not taken for a postfix operator:
    it does not start with `(` or `[`, and after a leading `.` no identifier follows -/
def symPostOk (op : BinOp) : Bool :=
  match spell op with
  | [] => false
  | h :: t =>
    h != '(' && h != '[' &&
      (h != '.' || (match t with | c :: _ => !isIdentStart c | [] => false))

theorem all_symPostOk : (BinOp.all.all fun op => isWordOp op || symPostOk op) = true := by
  decide +kernel

theorem symPostOk_of (op : BinOp) (h : isWordOp op = false) : symPostOk op = true := by
  have := List.all_eq_true.mp all_symPostOk op (PrattRT.BinOp.mem_all op)
  simpa [h] using this

/-- the `via` / `into` / `where` operators: not admitted at the top level of a lambda body -/
def isChain (op : BinOp) : Bool := op == .via || op == .into || op == .where_

/-- the natural-operator table of the two `infix_usage` rules -/
def natTable (lam : Bool) : List (String × List Char) := if lam then lamNaturalLits else naturalLits

/-- what the proofs need to know about a word operator inside a lambda body -/
def wordOkL (op : BinOp) : Bool :=
  match hitBad lamNaturalLits (PrattRT.ruleOf op) (spell op) with
  | some bad => bad.all (fun c => !isWs c)
  | none => false

theorem all_opFactsL :
    (BinOp.all.all fun op => !(isWordOp op && !isChain op) || wordOkL op) = true := by
  decide +kernel

theorem wordOkL_of (op : BinOp) (h : isWordOp op = true) (hc : isChain op = false) :
    wordOkL op = true := by
  have := List.all_eq_true.mp all_opFactsL op (PrattRT.BinOp.mem_all op)
  simpa [h, hc] using this

theorem lamNaturalLits_sub : ∀ x ∈ lamNaturalLits, x ∈ naturalLits := by decide +kernel
theorem lamNaturalLits_ne : ∀ x ∈ lamNaturalLits, x.2 ≠ [] := by decide +kernel

theorem prefixLits_eq : prefixLits = [("negation", ['-']), ("invert", ['!'])] := by decide +kernel
theorem naturalPrefixLits_eq : naturalPrefixLits = [("natural_not", ['n', 'o', 't'])] := by
  decide +kernel
theorem postfixLits_eq : postfixLits = [("factorial", ['!'])] := by decide +kernel
theorem infixLits_ne : ∀ x ∈ infixLits, x.2 ≠ [] := by decide +kernel
theorem naturalLits_ne : ∀ x ∈ naturalLits, x.2 ≠ [] := by decide +kernel

/-- every literal of the list starts with a character other than `c` -/
def headsNe (L : List (String × List Char)) (c : Char) : Bool :=
  L.all fun x => match x.2 with | [] => false | a :: _ => a != c

theorem headsNe_lam {c : Char} (h : headsNe naturalLits c = true) :
    headsNe lamNaturalLits c = true := by
  simp only [headsNe, List.all_eq_true] at h ⊢
  exact fun x hx => h x (lamNaturalLits_sub x hx)

theorem headsNe_nat (lam : Bool) {c : Char} (h : headsNe naturalLits c = true) :
    headsNe (natTable lam) c = true := by
  cases lam
  · exact h
  · exact headsNe_lam h

theorem firstRule_none_of_headsNe {L : List (String × List Char)} {c : Char} {tl : List Char}
    (h : headsNe L c = true) : firstRule L (c :: tl) = none := by
  apply firstRule_none_of_heads
  intro x hx
  have := List.all_eq_true.mp h x hx
  split at this
  · cases this
  · rename_i a t e; exact ⟨a, t, e, by simpa using this⟩

/-- first character of an operand text: a prefix operator, an opening parenthesis or bracket
    (a list), a quote (a string literal), a brace (a record), or the first character of a word /
    number -/
def startChar (c : Char) : Bool :=
  c == '-' || c == '!' || c == '(' || c == '[' || c == '"' || c == '\'' || c == '{' || isIdentChar c

theorem isIdentChar_cases {c : Char} (h : isIdentChar c = true) :
    c ≠ ' ' ∧ c ≠ '\t' ∧ c ≠ '\n' ∧ c ≠ '\r' ∧ c ≠ '/' ∧ c ≠ '=' ∧ c ≠ '!' ∧ c ≠ '-' ∧ c ≠ '(' ∧
      c ≠ ')' := by
  refine ⟨?_, ?_, ?_, ?_, ?_, ?_, ?_, ?_, ?_, ?_⟩ <;> (intro e; subst e; revert h; decide)

theorem startChar_facts {c : Char} (h : startChar c = true) :
    notLayoutStart c = true ∧ c ≠ '=' ∧ c ≠ '/' ∧ isWs c = false ∧ c ≠ ')' := by
  simp only [startChar, Bool.or_eq_true, beq_iff_eq] at h
  rcases h with ((((((h | h) | h) | h) | h) | h) | h) | h
  · subst h; decide
  · subst h; decide
  · subst h; decide
  · subst h; decide
  · subst h; decide
  · subst h; decide
  · subst h; decide
  · obtain ⟨h1, h2, h3, h4, h5, h6, _, _, _, h10⟩ := isIdentChar_cases h
    simp [notLayoutStart, isWs, *]

/-! ### (3) `infix_usage` on an operator with its layout -/

/-- when the word-operator alternative of `infix_usage` fails, the symbol alternative decides -/
theorem infixUsage_alt2 {lam : Bool} {cs : List Char}
    (h : ∀ r, layoutPlus cs = some r → firstRule (natTable lam) r = none) :
    infixUsage lam cs = (firstRule infixLits (layoutStar cs)).map fun x => (x.1, layoutStar x.2) := by
  unfold infixUsage natTable at *
  cases hp : layoutPlus cs with
  | none =>
    simp only []
    cases firstRule infixLits (layoutStar cs) with
    | none => rfl
    | some x => obtain ⟨_, _⟩ := x; rfl
  | some r =>
    simp only [h r hp]
    cases firstRule infixLits (layoutStar cs) with
    | none => rfl
    | some x => obtain ⟨_, _⟩ := x; rfl

theorem infixUsage_sym (lam : Bool) (op : BinOp) (hw : isWordOp op = false) (a b : Lay) (c : Char)
    (tl : List Char) (hc : startChar c = true) :
    infixUsage lam (layChars a ++ (spell op ++ (layChars b ++ c :: tl))) =
      some (PrattRT.ruleOf op, c :: tl) := by
  have hs := symOk_of op hw
  obtain ⟨hc1, hc2, hc3, _, _⟩ := startChar_facts hc
  simp only [symOk, Bool.and_eq_true] at hs
  obtain ⟨hs1, hs2⟩ := hs
  obtain ⟨d, tl', hX, hd1, hd2⟩ := lay_head b c tl (fun d => d ≠ '=' ∧ d ≠ '/')
    (by decide) (by decide) (by decide) (by decide) ⟨hc2, hc3⟩
  -- the operator literal is found
  have hinf : firstRule infixLits (spell op ++ (layChars b ++ c :: tl)) =
      some (PrattRT.ruleOf op, layChars b ++ c :: tl) := by
    split at hs1
    · rename_i bad hbad
      rw [hX]
      apply firstRule_hit hbad
      intro hm
      have := List.all_eq_true.mp hs1 d hm
      exact hd1 (by simpa using this)
    · cases hs1
  have hLS : layoutStar (layChars b ++ c :: tl) = c :: tl := layoutStar_run b _ (layoutAtom_none hc1)
  split at hs2
  · cases hs2
  · rename_i h t hsp
    simp only [Bool.and_eq_true, Bool.or_eq_true, beq_iff_eq, List.isEmpty_iff,
      Bool.not_eq_true'] at hs2
    obtain ⟨⟨hl, _⟩, hnat⟩ := hs2
    have hLA : layoutAtom (spell op ++ (layChars b ++ c :: tl)) = none := by
      rw [hsp]
      rcases hl with hl | ⟨rfl, rfl⟩
      · exact layoutAtom_none hl
      · rw [List.cons_append, List.nil_append, hX]; exact layoutAtom_slash hd2
    have hNA : firstRule (natTable lam) (spell op ++ (layChars b ++ c :: tl)) = none := by
      rw [hsp, List.cons_append]
      exact firstRule_none_of_headsNe (headsNe_nat lam hnat)
    have hpl : ∀ r, layoutPlus (layChars a ++ (spell op ++ (layChars b ++ c :: tl))) = some r →
        firstRule (natTable lam) r = none := by
      intro r hr
      cases a with
      | nil => simp only [layChars, List.nil_append, layoutPlus_none hLA] at hr; cases hr
      | cons x a =>
        rw [layoutPlus_run (x :: a) (by simp) _ hLA] at hr
        cases hr; exact hNA
    rw [infixUsage_alt2 hpl, layoutStar_run a _ hLA, hinf]
    simp only [Option.map_some, hLS]

theorem infixUsage_word (lam : Bool) (op : BinOp) (hw : isWordOp op = true)
    (hlam : lam = true → isChain op = false) (a b : Lay) (c : Char)
    (tl : List Char) (ha : a ≠ []) (hb : b ≠ []) (hbw : wsOnly b = true) (hc : startChar c = true) :
    infixUsage lam (layChars a ++ (spell op ++ (layChars b ++ c :: tl))) =
      some (PrattRT.ruleOf op, c :: tl) := by
  have hs := wordOk_of op hw
  obtain ⟨_, _, _, hc4, _⟩ := startChar_facts hc
  simp only [wordOk, Bool.and_eq_true] at hs
  obtain ⟨hs1, hs2⟩ := hs
  -- the layout after the operator starts with a blank
  obtain ⟨d, tl', hX, hd⟩ : ∃ d tl', layChars b ++ c :: tl = d :: tl' ∧ isWs d = true := by
    cases b with
    | nil => exact absurd rfl hb
    | cons x b =>
      simp only [wsOnly, List.all_cons, Bool.and_eq_true] at hbw
      cases x <;> simp_all [LayAtom.isWs, layChars, LayAtom.chars, isWs]
  have hnat : firstRule (natTable lam) (spell op ++ (layChars b ++ c :: tl)) =
      some (PrattRT.ruleOf op, layChars b ++ c :: tl) := by
    cases lam with
    | false =>
      split at hs1
      · rename_i bad hbad
        rw [hX]
        apply firstRule_hit hbad
        intro hm
        have := List.all_eq_true.mp hs1 d hm
        simp [hd] at this
      · cases hs1
    | true =>
      have hl := wordOkL_of op hw (hlam rfl)
      unfold wordOkL at hl
      split at hl
      · rename_i bad hbad
        rw [hX]
        apply firstRule_hit hbad
        intro hm
        have := List.all_eq_true.mp hl d hm
        simp [hd] at this
      · cases hl
  split at hs2
  · cases hs2
  · rename_i h t hsp
    have hLA : layoutAtom (spell op ++ (layChars b ++ c :: tl)) = none := by
      rw [hsp]; exact layoutAtom_none hs2
    unfold natTable at hnat
    simp only [infixUsage, layoutPlus_run a ha _ hLA, hnat, wsPlus_run b hb hbw c tl hc4,
      Option.map_some]

theorem layoutStar_nil : layoutStar [] = [] := by
  simp [layoutStar, star, layoutAtom_nil]

theorem infixUsage_nil (lam : Bool) : infixUsage lam [] = none := by
  simp [infixUsage, layoutPlus, layoutAtom_nil, layoutStar_nil,
    firstRule_nil _ infixLits_ne]

/-- characters that end an expression inside brackets: `)` `,` `]` `}` -/
def stopChar (c : Char) : Bool := c == ')' || c == ',' || c == ']' || c == '}'

theorem stop_heads {c : Char} (h : stopChar c = true) :
    headsNe infixLits c = true ∧ headsNe naturalLits c = true ∧ notLayoutStart c = true ∧
      isIdentChar c = false ∧ isWs c = false := by
  simp only [stopChar, Bool.or_eq_true, beq_iff_eq] at h
  rcases h with ((rfl | rfl) | rfl) | rfl <;> decide +kernel

/-- no operator starts with the character `c` (after any layout): the operator tail ends -/
theorem infixUsage_none_of_heads (lam : Bool) (b : Lay) (c : Char) (rest : List Char)
    (hh1 : headsNe infixLits c = true) (hh2 : headsNe naturalLits c = true)
    (hh3 : notLayoutStart c = true) : infixUsage lam (layChars b ++ c :: rest) = none := by
  have hLA : layoutAtom (c :: rest) = none := layoutAtom_none hh3
  have h1 : firstRule (natTable lam) (c :: rest) = none :=
    firstRule_none_of_headsNe (headsNe_nat lam hh2)
  have h2 : firstRule infixLits (c :: rest) = none := firstRule_none_of_headsNe hh1
  have hpl : ∀ r, layoutPlus (layChars b ++ c :: rest) = some r →
      firstRule (natTable lam) r = none := by
    intro r hr
    cases b with
    | nil => simp only [layChars, List.nil_append, layoutPlus_none hLA] at hr; cases hr
    | cons x b =>
      rw [layoutPlus_run (x :: b) (by simp) _ hLA] at hr
      cases hr; exact h1
  rw [infixUsage_alt2 hpl, layoutStar_run b _ hLA, h2]
  rfl

/-- at a closing bracket or a comma (after any layout) no operator follows -/
theorem infixUsage_stop (lam : Bool) (b : Lay) (c : Char) (rest : List Char)
    (hc : stopChar c = true) : infixUsage lam (layChars b ++ c :: rest) = none := by
  obtain ⟨hh1, hh2, hh3, _, _⟩ := stop_heads hc
  exact infixUsage_none_of_heads lam b c rest hh1 hh2 hh3

/-! ### (4) prefix and postfix operators -/

theorem prefixUsage_minus (X : List Char) : prefixUsage ('-' :: X) = some (.pre "negation", X) := by
  simp [prefixUsage, naturalPrefixLits_eq, prefixLits_eq, firstRule, lit]

theorem prefixUsage_bang (X : List Char) : prefixUsage ('!' :: X) = some (.pre "invert", X) := by
  simp [prefixUsage, naturalPrefixLits_eq, prefixLits_eq, firstRule, lit]

theorem prefixUsage_paren (X : List Char) : prefixUsage ('(' :: X) = none := by
  simp [prefixUsage, naturalPrefixLits_eq, prefixLits_eq, firstRule, lit]

theorem prefixStar_cons {c : Char} {X : List Char} {it : PItem}
    (h : prefixUsage (c :: X) = some (it, X)) :
    prefixStar (c :: X) = (it :: (prefixStar X).1, (prefixStar X).2) := by
  simp [prefixStar, starItems, h]

theorem prefixStar_none {cs : List Char} (h : prefixUsage cs = none) : prefixStar cs = ([], cs) := by
  simp [prefixStar, starItems, h]

theorem spreadLit_eq' : spreadLit = ['.', '.', '.'] := by decide +kernel

theorem firstRule_postfix_none {c : Char} (X : List Char) (h : c ≠ '!') :
    firstRule postfixLits (c :: X) = none := by
  have : ¬ ('!' = c) := fun e => h e.symm
  simp [postfixLits_eq, firstRule, lit, this]

theorem firstRule_postfix_nil : firstRule postfixLits [] = none := by
  simp [postfixLits_eq, firstRule, lit]

theorem firstRule_postfix_bang (X : List Char) :
    firstRule postfixLits ('!' :: X) = some ("factorial", X) := by
  simp [postfixLits_eq, firstRule, lit]

theorem identifier_none_of_start {c : Char} (X : List Char) (h : isIdentStart c = false) :
    identifier (c :: X) = none := by
  have : nameBody (c :: X) = none := by simp [nameBody, plus, h]
  simp only [identifier, this]
  split <;> rfl

/-- no postfix operator starts here -/
def postNone : List Char → Prop
  | [] => True
  | d :: tl => d ≠ '!' ∧ d ≠ '[' ∧ d ≠ '(' ∧ (d = '.' → identifier tl = none)

theorem postOpR_none {cs : List Char} (h : postNone cs) (f : Nat) : postOpR (f + 1) cs = .fail := by
  rw [postOpR_succ]
  cases cs with
  | nil => simp only [firstRule_postfix_nil]
  | cons d tl =>
    obtain ⟨h1, h2, h3, h4⟩ := h
    simp only [firstRule_postfix_none tl h1]
    split
    · rename_i r1 heq; simp only [List.cons.injEq] at heq; exact absurd heq.1 h2
    · rename_i r1 heq; simp only [List.cons.injEq] at heq; exact absurd heq.1 h3
    · rename_i r1 heq
      simp only [List.cons.injEq] at heq
      obtain ⟨rfl, rfl⟩ := heq
      simp only [h4 rfl]
    · rfl

theorem postR_none {cs : List Char} (h : postNone cs) (f : Nat) :
    postR (f + 2) cs = .ok ([], cs) := by
  rw [postR_succ, postOpR_none h]

/-- a character that is not `!`, `[`, `(`, `.` starts no postfix operator -/
theorem postNone_of_char {d : Char} {tl : List Char} (h1 : d ≠ '!') (h2 : d ≠ '[') (h3 : d ≠ '(')
    (h4 : d ≠ '.') : postNone (d :: tl) := ⟨h1, h2, h3, fun e => absurd e h4⟩

theorem postNone_lay (b : Lay) (c : Char) (tl : List Char) (hc : postNone (c :: tl)) :
    postNone (layChars b ++ c :: tl) := by
  cases b with
  | nil => exact hc
  | cons a b => cases a <;> exact postNone_of_char (by decide) (by decide) (by decide) (by decide)

/-! ### layout inside `access` and `call_list` -/

theorem newline_atom {a : LayAtom} (h : a.isWs = false) (rest : List Char) :
    newline (a.chars ++ rest) = some rest := by
  cases a <;> simp [LayAtom.isWs] at h <;>
    simp [LayAtom.chars, newline, inlineComment, plainNewline, orElse, lit]

theorem newline_none_of_layoutAtom {cs : List Char} (h : layoutAtom cs = none) : newline cs = none := by
  simp only [layoutAtom, orElse] at h
  split at h
  · cases h
  · exact h

/-- line breaks only (what `NEWLINE*` admits in the atomic `access`) -/
def nlOnly (l : Lay) : Bool := l.all fun a => !a.isWs

theorem star_newline_run (n : Nat) (l : Lay) (rest : List Char) (hn : l.length < n)
    (hl : nlOnly l = true) (hr : newline rest = none) :
    star newline n (layChars l ++ rest) = rest := by
  induction n generalizing l with
  | zero => exact absurd hn (Nat.not_lt_zero _)
  | succ m ih =>
    cases l with
    | nil => simp [layChars, star, hr]
    | cons a l =>
      simp only [nlOnly, List.all_cons, Bool.and_eq_true, Bool.not_eq_true'] at hl
      simp only [layChars, List.append_assoc, star, newline_atom hl.1]
      exact ih l (by simp only [List.length_cons] at hn; omega) (by simpa [nlOnly] using hl.2)

theorem nlStar_run (l : Lay) (rest : List Char) (hl : nlOnly l = true) (hr : newline rest = none) :
    nlStar (layChars l ++ rest) = rest := by
  unfold nlStar
  apply star_newline_run _ _ _ _ hl hr
  have := layChars_length l
  simp only [List.length_append]; omega

theorem skipWs_run (l : Lay) (hw : wsOnly l = true) (c : Char) (rest : List Char)
    (hc : isWs c = false) : skipWs (layChars l ++ c :: rest) = c :: rest := by
  induction l with
  | nil => simp [skipWs, layChars, List.dropWhile, hc]
  | cons a l ih =>
    simp only [wsOnly, List.all_cons, Bool.and_eq_true] at hw
    have := ih hw.2
    cases a <;> simp_all [LayAtom.isWs, LayAtom.chars, layChars, skipWs, List.dropWhile, isWs]

/-- `skip` in front of any layout stops at a line break or at the character behind it -/
theorem skipWs_lay (l : Lay) (c : Char) (rest : List Char) (hc : isWs c = false) :
    ∃ l', skipWs (layChars l ++ c :: rest) = layChars l' ++ c :: rest := by
  induction l with
  | nil => exact ⟨[], by simp [skipWs, layChars, List.dropWhile, hc]⟩
  | cons a l ih =>
    obtain ⟨l', h'⟩ := ih
    cases a
    · exact ⟨l', by simpa [skipWs, layChars, LayAtom.chars, List.dropWhile, isWs] using h'⟩
    · exact ⟨l', by simpa [skipWs, layChars, LayAtom.chars, List.dropWhile, isWs] using h'⟩
    · exact ⟨.lf :: l, by simp [skipWs, layChars, LayAtom.chars, List.dropWhile, isWs]⟩
    · exact ⟨.crlf :: l, by simp [skipWs, layChars, LayAtom.chars, List.dropWhile, isWs]⟩

theorem trailComma_other {cs : List Char} (h : ∀ r, cs ≠ ',' :: r) : trailComma cs = cs := by
  unfold trailComma
  split
  · rename_i r; exact absurd rfl (h r)
  · rfl

/-! ### layout inside `list` -/

/-- a greedy star over a recogniser that accepts every layout atom consumes a layout string -/
theorem star_lay_run (e : List Char → Option (List Char))
    (he : ∀ (a : LayAtom) rest, e (a.chars ++ rest) = some rest) (n : Nat) (l : Lay)
    (rest : List Char) (hn : l.length < n) (hr : e rest = none) :
    star e n (layChars l ++ rest) = rest := by
  induction n generalizing l with
  | zero => exact absurd hn (Nat.not_lt_zero _)
  | succ m ih =>
    cases l with
    | nil => simp [layChars, star, hr]
    | cons a l =>
      simp only [layChars, List.append_assoc, star, he]
      exact ih l (by simp only [List.length_cons] at hn; omega)

theorem wnAtom_atom (a : LayAtom) (rest : List Char) : wnAtom (a.chars ++ rest) = some rest := by
  cases a <;> simp [LayAtom.chars, wnAtom, orElse, whitespace, isWs, plainNewline, lit]

theorem inlineComment_atom (a : LayAtom) (rest : List Char) :
    inlineComment (a.chars ++ rest) = none := by
  cases a <;> simp [LayAtom.chars, inlineComment, lit]

theorem gAtom_atom (a : LayAtom) (rest : List Char) : gAtom (a.chars ++ rest) = some rest := by
  simp only [gAtom, inlineComment_atom, wnAtom_atom]

theorem hAtom_atom (a : LayAtom) (rest : List Char) : hAtom (a.chars ++ rest) = some rest := by
  simp only [hAtom, inlineComment_atom, wnAtom_atom]

theorem list_atoms_none {c : Char} {r : List Char} (h : notLayoutStart c = true) :
    wnAtom (c :: r) = none ∧ gAtom (c :: r) = none ∧ hAtom (c :: r) = none ∧
      inlineComment (c :: r) = none := by
  simp only [notLayoutStart, Bool.not_eq_true', Bool.or_eq_false_iff, beq_eq_false_iff_ne, ne_eq] at h
  obtain ⟨⟨⟨⟨h1, h2⟩, h3⟩, h4⟩, h5⟩ := h
  have e1 : ¬ ('/' = c) := fun e => h5 e.symm
  have e2 : ¬ ('\r' = c) := fun e => h4 e.symm
  have e3 : ¬ ('\n' = c) := fun e => h3 e.symm
  have hw : wnAtom (c :: r) = none := by
    simp [wnAtom, orElse, whitespace, isWs, plainNewline, lit, h1, h2, e2, e3]
  have hc : inlineComment (c :: r) = none := by simp [inlineComment, lit, e1]
  exact ⟨hw, by simp only [gAtom, hc, hw], by simp only [hAtom, hc, hw], hc⟩

theorem wnStar_run (l : Lay) {c : Char} (rest : List Char) (hc : notLayoutStart c = true) :
    wnStar (layChars l ++ c :: rest) = c :: rest := by
  unfold wnStar
  apply star_lay_run _ wnAtom_atom _ _ _ _ (list_atoms_none hc).1
  have := layChars_length l
  simp only [List.length_append]; omega

theorem gapG_run (l : Lay) {c : Char} (rest : List Char) (hc : notLayoutStart c = true) :
    gapG (layChars l ++ c :: rest) = c :: rest := by
  unfold gapG
  apply star_lay_run _ gAtom_atom _ _ _ _ (list_atoms_none hc).2.1
  have := layChars_length l
  simp only [List.length_append]; omega

theorem gapH_run (l : Lay) {c : Char} (rest : List Char) (hc : notLayoutStart c = true) :
    gapH (layChars l ++ c :: rest) = c :: rest := by
  unfold gapH
  apply star_lay_run _ hAtom_atom _ _ _ _ (list_atoms_none hc).2.2.1
  have := layChars_length l
  simp only [List.length_append]; omega

/-- behind an item: blanks are skipped, a line break or any other non-comment character stops -/
theorem itemTrail_ws (w : Lay) (hw : wsOnly w = true) {c : Char} (rest : List Char)
    (hc : notLayoutStart c = true) : itemTrail (layChars w ++ c :: rest) = c :: rest := by
  have hws : isWs c = false := by
    simp only [notLayoutStart, Bool.not_eq_true', Bool.or_eq_false_iff, beq_eq_false_iff_ne,
      ne_eq] at hc
    simp [isWs, hc.1.1.1.1, hc.1.1.1.2]
  unfold itemTrail
  rw [skipWs_run w hw c rest hws, (list_atoms_none hc).2.2.2]

theorem itemTrail_lay (l : Lay) {c : Char} (rest : List Char) (hc : notLayoutStart c = true) :
    ∃ l', itemTrail (layChars l ++ c :: rest) = layChars l' ++ c :: rest ∧
      skipWs (layChars l' ++ c :: rest) = layChars l' ++ c :: rest := by
  have hws : isWs c = false := by
    simp only [notLayoutStart, Bool.not_eq_true', Bool.or_eq_false_iff, beq_eq_false_iff_ne,
      ne_eq] at hc
    simp [isWs, hc.1.1.1.1, hc.1.1.1.2]
  induction l with
  | nil =>
    refine ⟨[], ?_, by simp [skipWs, layChars, List.dropWhile, hws]⟩
    unfold itemTrail
    simp only [layChars, List.nil_append]
    have : skipWs (c :: rest) = c :: rest := by simp [skipWs, List.dropWhile, hws]
    rw [this, (list_atoms_none hc).2.2.2]
  | cons a l ih =>
    obtain ⟨l', h1, h2⟩ := ih
    cases a
    · refine ⟨l', ?_, h2⟩
      unfold itemTrail at h1 ⊢
      simpa [skipWs, layChars, LayAtom.chars, List.dropWhile, isWs] using h1
    · refine ⟨l', ?_, h2⟩
      unfold itemTrail at h1 ⊢
      simpa [skipWs, layChars, LayAtom.chars, List.dropWhile, isWs] using h1
    · refine ⟨.lf :: l, ?_, by simp [skipWs, layChars, LayAtom.chars, List.dropWhile, isWs]⟩
      unfold itemTrail
      simp [skipWs, layChars, LayAtom.chars, List.dropWhile, isWs, inlineComment, lit]
    · refine ⟨.crlf :: l, ?_, by simp [skipWs, layChars, LayAtom.chars, List.dropWhile, isWs]⟩
      unfold itemTrail
      simp [skipWs, layChars, LayAtom.chars, List.dropWhile, isWs, inlineComment, lit]

/-- a word of identifier characters other than `not` is not taken for a prefix operator -/
theorem prefixUsage_word {w rest : List Char} (hne : w ≠ []) (hw : ∀ x ∈ w, isIdentChar x = true)
    (hnot : w ≠ ['n', 'o', 't']) (hb : Boundary rest) : prefixUsage (w ++ rest) = none := by
  have h2 : firstRule prefixLits (w ++ rest) = none := by
    cases w with
    | nil => exact absurd rfl hne
    | cons c w =>
      obtain ⟨_, _, _, _, _, _, h7, h8, _, _⟩ := isIdentChar_cases (hw c List.mem_cons_self)
      rw [prefixLits_eq, List.cons_append]
      apply firstRule_none_of_heads
      intro x hx
      simp only [List.mem_cons, List.not_mem_nil, or_false] at hx
      rcases hx with rfl | rfl
      · exact ⟨'-', [], rfl, fun e => h8 e.symm⟩
      · exact ⟨'!', [], rfl, fun e => h7 e.symm⟩
  unfold prefixUsage
  cases hf : firstRule naturalPrefixLits (w ++ rest) with
  | none => simp only [h2, Option.map_none]
  | some x =>
    obtain ⟨rule, r⟩ := x
    obtain ⟨s, hs, he⟩ := firstRule_some hf
    rw [naturalPrefixLits_eq] at hs
    simp only [List.mem_cons, Prod.mk.injEq, List.not_mem_nil, or_false] at hs
    obtain ⟨_, rfl⟩ := hs
    -- `r` starts with an identifier character or `w` would be `not`
    have : wsPlus r = none := by
      rcases List.append_eq_append_iff.mp he with ⟨a', hsa, hra⟩ | ⟨c', hwc, hrc⟩
      · cases a' with
        | nil => simp only [List.append_nil] at hsa; exact absurd hsa.symm hnot
        | cons x a' =>
          exfalso
          have hx : isIdentChar x = true := by
            have : x ∈ ['n', 'o', 't'] := by rw [hsa]; simp
            revert this; simp only [List.mem_cons, List.not_mem_nil, or_false]
            rintro (rfl | rfl | rfl) <;> decide
          have := boundary_class hb isIdentChar (fun _ h => h) x (a' ++ r) (by simpa using hra)
          rw [hx] at this; cases this
      · cases c' with
        | nil => simp only [List.append_nil] at hwc; exact absurd hwc hnot
        | cons x c' =>
          subst hrc
          have hx : isIdentChar x = true := hw x (by simp [hwc])
          obtain ⟨h1, h2, _⟩ := isIdentChar_cases hx
          simp [wsPlus, plus, isWs, h1, h2]
    simp only [this, Option.map_none, h2]

/-! ### (5) the atoms of the fragment -/

def isBuiltinName (n : String) : Bool := (Gen.fromIdent.find? (fun r => r.1 == n)).isSome

/-- the terms of the fragment: identifiers that are not reserved words (a built-in function
    name is the `builtin` node), non-negative integer literals below 10^15 (printed as plain
    digits), `true` / `false` / `null` -/
def atomOk : Expr → Bool
  | .ident n => identShape n.toList && !Gen.grammarReserved.contains n && !isBuiltinName n
  | .builtin n => isBuiltinName n
  | .bool _ => true
  | .null => true
  | .num x => x.isFinite && x.isIntegral && !x.neg && F64.flt x.abs f64_1e15
  | _ => false

/-- the text of an atom -/
def atomText (e : Expr) : List Char := (exprToSource e).toList

theorem consumed_append (w rest : List Char) : consumed (w ++ rest) rest = w := by
  simp [consumed]

/-- every built-in name is identifier-shaped, not reserved, and converted to its own node -/
def builtinRowOk (r : String × String) : Bool :=
  identShape r.1.toList && !Gen.grammarReserved.contains r.1 &&
    (match nameTerm r.1 with | .builtin m => m == r.1 | _ => false)

theorem all_builtinRowOk : Gen.fromIdent.all builtinRowOk = true := by decide +kernel

theorem builtin_facts {n : String} (h : isBuiltinName n = true) :
    IdentShape n.toList ∧ n ∉ Gen.grammarReserved ∧ nameTerm n = .builtin n := by
  unfold isBuiltinName at h
  cases hf : Gen.fromIdent.find? (fun r => r.1 == n) with
  | none => rw [hf] at h; cases h
  | some r =>
    have hm := List.mem_of_find?_eq_some hf
    have hp := List.find?_some hf
    simp only [beq_iff_eq] at hp
    have := List.all_eq_true.mp all_builtinRowOk r hm
    simp only [builtinRowOk, Bool.and_eq_true, Bool.not_eq_true', hp] at this
    obtain ⟨⟨h1, h2⟩, h3⟩ := this
    refine ⟨h1, by simpa using h2, ?_⟩
    split at h3
    · rename_i m hm'; rw [hm']; simp only [beq_iff_eq] at h3; rw [h3]
    · cases h3

theorem isDigit_val {d : Char} (h : isDigit d = true) : 48 ≤ d.toNat ∧ d.toNat ≤ 57 := by
  simp only [isDigit, Bool.and_eq_true, decide_eq_true_eq, Char.le_def, UInt32.le_iff_toNat_le] at h
  exact h

theorem isDigit_not_start {d : Char} (h : isDigit d = true) : isIdentStart d = false := by
  have ⟨h1, h2⟩ := isDigit_val h
  have hu : d ≠ '_' := by intro e; subst e; revert h; decide
  simp only [isIdentStart, isAlpha, isUnderscore, Bool.or_eq_false_iff, Bool.and_eq_false_iff,
    decide_eq_false_iff_not, Char.le_def, UInt32.le_iff_toNat_le, beq_eq_false_iff_ne, ne_eq]
  refine ⟨⟨?_, ?_⟩, hu⟩
  · left; show ¬ (97 ≤ d.toNat); omega
  · left; show ¬ (65 ≤ d.toNat); omega

theorem dropWhile_all_true {p : Char → Bool} {l : List Char} (h : ∀ c ∈ l, p c = true) :
    l.dropWhile p = [] := by
  induction l with
  | nil => rfl
  | cons a l ih =>
    simp only [List.dropWhile, h a List.mem_cons_self]
    exact ih (fun c hc => h c (List.mem_cons_of_mem _ hc))

theorem firstLit_none_of_heads {L : List (List Char)} {c : Char} {tl : List Char}
    (h : ∀ s ∈ L, ∃ a t, s = a :: t ∧ a ≠ c) : firstLit L (c :: tl) = none := by
  induction L with
  | nil => rfl
  | cons s L ih =>
    obtain ⟨a, t, rfl, hne⟩ := h s List.mem_cons_self
    simp only [firstLit, lit, hne, if_false]
    exact ih (fun y hy => h y (List.mem_cons_of_mem _ hy))

/-! #### string literals -/

/-- the two quote characters -/
def quoteChar (dq : Bool) : Char := if dq then '"' else '\''

/-- the model's `string` rule is the one the printer lemmas (C07) are stated for -/
theorem stringRule_eq_readString (cs : List Char) : stringRule cs = PrintL.readString cs := by
  cases cs <;> rfl

theorem stringRule_nil : stringRule [] = none := rfl

theorem stringRule_none_of_head {c : Char} (X : List Char) (h1 : c ≠ '"') (h2 : c ≠ '\'') :
    stringRule (c :: X) = none := by
  simp [stringRule, h1, h2]

theorem isIdentChar_not_quote {c : Char} (h : isIdentChar c = true) : c ≠ '"' ∧ c ≠ '\'' := by
  refine ⟨?_, ?_⟩ <;> (intro e; subst e; revert h; decide)

theorem stringRule_none_word {w : List Char} (hne : w ≠ [])
    (hall : ∀ x ∈ w, isIdentChar x = true) (rest : List Char) : stringRule (w ++ rest) = none := by
  cases w with
  | nil => exact absurd rfl hne
  | cons c w =>
    obtain ⟨h1, h2⟩ := isIdentChar_not_quote (hall c List.mem_cons_self)
    exact stringRule_none_of_head _ h1 h2

/-- `q s q` with `q ∉ s` is read back as `s` -/
theorem stringRule_quoted (dq : Bool) (s rest : List Char) (h : quoteChar dq ∉ s) :
    stringRule (quoteChar dq :: (s ++ quoteChar dq :: rest)) = some (s, rest) := by
  rw [stringRule_eq_readString]
  exact PrintL.readString_quoted _ (by cases dq <;> simp [quoteChar]) s rest h

/-- an atom's text is one word `w` of identifier characters (not `not`), and in front of
    anything that is not an identifier character `term` reads it back as the atom -/
theorem atom_word {e : Expr} (h : atomOk e = true) :
    atomText e ≠ [] ∧ (∀ x ∈ atomText e, isIdentChar x = true) ∧ atomText e ≠ ['n', 'o', 't'] ∧
      ∀ rest, Boundary rest → termAtom (atomText e ++ rest) = some (e, rest) := by
  cases e with
  | ident n =>
    simp only [atomOk, Bool.and_eq_true, Bool.not_eq_true'] at h
    obtain ⟨⟨hs, hr⟩, hb⟩ := h
    have hw : IdentShape n.toList := hs
    have hres : n ∉ Gen.grammarReserved := by simpa using hr
    have hnot : n.toList ∉ reservedLits := fun hm => hres (by
      have := mem_reservedLits.mp hm; rwa [String.ofList_toList] at this)
    have ht : atomText (.ident n) = n.toList := by simp [atomText, exprToSource, exprSrc, lookupAL]
    rw [ht]
    refine ⟨hw.ne_nil, hw.all, ?_, ?_⟩
    · intro e
      apply hres
      have : n = "not" := by rw [← String.ofList_toList (s := n), e]
      rw [this]; decide
    · intro rest hbd
      have hname : nameTerm n = .ident n := by
        unfold isBuiltinName at hb
        simp only [Option.isSome_eq_false_iff, Option.isNone_iff_eq_none] at hb
        simp [nameTerm, hb]
      simp only [termAtom, boolRule_none hw hnot hbd, stringRule_none_word hw.ne_nil hw.all,
        nullRule_none hw hnot hbd, identifier_run hw hnot hbd, consumed_append,
        String.ofList_toList, hname]
  | builtin n =>
    simp only [atomOk] at h
    obtain ⟨hw, hres, hname⟩ := builtin_facts h
    have hnot : n.toList ∉ reservedLits := fun hm => hres (by
      have := mem_reservedLits.mp hm; rwa [String.ofList_toList] at this)
    have ht : atomText (.builtin n) = n.toList := by simp [atomText, exprToSource, exprSrc]
    rw [ht]
    refine ⟨hw.ne_nil, hw.all, ?_, ?_⟩
    · intro e
      apply hres
      have : n = "not" := by rw [← String.ofList_toList (s := n), e]
      rw [this]; decide
    · intro rest hbd
      simp only [termAtom, boolRule_none hw hnot hbd, stringRule_none_word hw.ne_nil hw.all,
        nullRule_none hw hnot hbd, identifier_run hw hnot hbd, consumed_append,
        String.ofList_toList, hname]
  | bool b =>
    cases b with
    | true =>
      have ht : atomText (.bool true) = trueLit := by
        simp [atomText, exprToSource, exprSrc, trueLit]
      rw [ht]
      refine ⟨by decide, by decide, by decide, ?_⟩
      intro rest hbd
      have hf : firstLit [trueLit, falseLit] (trueLit ++ rest) = some (trueLit, rest) := by
        simp [firstLit, lit_append]
      simp [termAtom, boolRule, keyword_isSome_of_firstLit hf hbd]
    | false =>
      have ht : atomText (.bool false) = falseLit := by
        simp [atomText, exprToSource, exprSrc, falseLit]
      rw [ht]
      refine ⟨by decide, by decide, by decide, ?_⟩
      intro rest hbd
      have hf : firstLit [trueLit, falseLit] (falseLit ++ rest) = some (falseLit, rest) := by
        have : lit trueLit (falseLit ++ rest) = none := by simp [trueLit, falseLit, lit]
        simp [firstLit, this, lit_append]
      have hne : (falseLit == trueLit) = false := by decide
      simp [termAtom, boolRule, keyword_isSome_of_firstLit hf hbd, hne]
  | null =>
    have ht : atomText .null = nullLit := by simp [atomText, exprToSource, exprSrc, nullLit]
    rw [ht]
    refine ⟨by decide, by decide, by decide, ?_⟩
    intro rest hbd
    have hb : boolRule (nullLit ++ rest) = none := by
      have : firstLit [trueLit, falseLit] (nullLit ++ rest) = none := by
        simp [firstLit, trueLit, falseLit, nullLit, lit]
      simp [boolRule, keyword, this]
    have hf : firstLit [nullLit] (nullLit ++ rest) = some (nullLit, rest) := by
      simp [firstLit, lit_append]
    have hs : stringRule (nullLit ++ rest) = none :=
      stringRule_none_word (w := nullLit) (by decide) (by decide) rest
    simp [termAtom, hb, hs, nullRule, keyword_isSome_of_firstLit hf hbd]
  | num x =>
    simp only [atomOk, Bool.and_eq_true, Bool.not_eq_true'] at h
    obtain ⟨⟨⟨hf, hi⟩, hn⟩, hlt⟩ := h
    have hinf := F64.isInf_of_isFinite x hf
    have hsrc : exprToSource (.num x) = x.toFixed 0 := by
      simp only [exprToSource, exprSrc]
      exact PrintL.numberToSource_int x (by simp [hinf]) hi hlt
    have hfix := F64.toFixed_zero_of_integral x hf (F64.ratio_integral_of_isIntegral x hi)
    simp only [hn, Bool.false_eq_true, if_false, String.empty_append] at hfix
    have ht : atomText (.num x) = (F64.natDigits (x.ratio.1 / x.ratio.2)).toList := by
      simp only [atomText, hsrc, hfix]
    have hdig : ∀ c ∈ atomText (.num x), isDigit c = true := by
      rw [ht]; exact F64.natDigits_all_isDigit _
    have hne : atomText (.num x) ≠ [] := by rw [ht]; exact F64.natDigits_toList_ne_nil _
    refine ⟨hne, fun c hc => digit_identChar c (hdig c hc), ?_, ?_⟩
    · intro e
      have := hdig 'n' (by rw [e]; simp)
      revert this; decide
    · intro rest hbd
      have hval : NumText.literalValue (String.ofList (atomText (.num x))) = some x := by
        rw [NumText.literalValue_plain _ (fun c hc => Or.inl (hdig c hc))]
        simp only [atomText, String.ofList_toList, hsrc]
        exact F64.parseDec_toFixed_zero x hf hi
      generalize atomText (.num x) = ds at hdig hne hval
      cases ds with
      | nil => exact absurd rfl hne
      | cons d ds =>
        have hd := hdig d List.mem_cons_self
        have hds : ∀ c ∈ ds, isDigit c = true := fun c hc => hdig c (List.mem_cons_of_mem _ hc)
        have c1 : d ≠ 't' := by intro e; subst e; revert hd; decide
        have c2 : d ≠ 'f' := by intro e; subst e; revert hd; decide
        have c3 : d ≠ 'n' := by intro e; subst e; revert hd; decide
        have hb : boolRule (d :: ds ++ rest) = none := by
          have : firstLit [trueLit, falseLit] (d :: (ds ++ rest)) = none := by
            apply firstLit_none_of_heads
            intro s hs
            simp only [List.mem_cons, List.not_mem_nil, or_false] at hs
            rcases hs with rfl | rfl
            · exact ⟨'t', _, rfl, fun e => c1 e.symm⟩
            · exact ⟨'f', _, rfl, fun e => c2 e.symm⟩
          simp [boolRule, keyword, this]
        have hnl : nullRule (d :: ds ++ rest) = none := by
          have : firstLit [nullLit] (d :: (ds ++ rest)) = none := by
            apply firstLit_none_of_heads
            intro s hs
            simp only [List.mem_cons, List.not_mem_nil, or_false] at hs
            subst hs
            exact ⟨'n', _, rfl, fun e => c3 e.symm⟩
          simp [nullRule, keyword, this]
        have hid : identifier (d :: ds ++ rest) = none := by
          have : nameBody (d :: (ds ++ rest)) = none := by
            simp [nameBody, plus, isDigit_not_start hd]
          simp only [identifier, List.cons_append, this]
          split <;> rfl
        have hpl : plus isDigit (d :: ds ++ rest) = some rest := by
          have h1 := dropWhile_append_of_boundary isDigit ds rest
            (boundary_class hbd _ digit_identChar)
          have h2 : ds.dropWhile isDigit = [] := dropWhile_all_true hds
          simp [plus, hd, h1, h2]
        have hcons : consumed (d :: ds ++ rest) rest = d :: ds := consumed_append (d :: ds) rest
        have hstr : stringRule (d :: ds ++ rest) = none :=
          stringRule_none_of_head _ (by intro e; subst e; revert hd; decide)
            (by intro e; subst e; revert hd; decide)
        simp only [termAtom, hb, hstr, hnl, hid, hpl, hcons, hval, Option.map_some]
  | _ => simp [atomOk] at h



/-- an atom is a name the `identifier` rule accepts, or a word it rejects (`true` / `false` /
    `null` in front of a boundary, a number) -/
theorem atom_ident {e : Expr} (h : atomOk e = true) :
    (∃ n : String, atomText e = n.toList ∧ IdentShape n.toList ∧ n.toList ∉ reservedLits) ∨
      (∀ X, Boundary X → identifier (atomText e ++ X) = none) := by
  cases e with
  | ident n =>
    simp only [atomOk, Bool.and_eq_true, Bool.not_eq_true'] at h
    obtain ⟨⟨hs, hr⟩, _⟩ := h
    have hres : n ∉ Gen.grammarReserved := by simpa using hr
    refine Or.inl ⟨n, by simp [atomText, exprToSource, exprSrc, lookupAL], hs, fun hm => hres ?_⟩
    have := mem_reservedLits.mp hm; rwa [String.ofList_toList] at this
  | builtin n =>
    simp only [atomOk] at h
    obtain ⟨hw, hres, _⟩ := builtin_facts h
    refine Or.inl ⟨n, by simp [atomText, exprToSource, exprSrc], hw, fun hm => hres ?_⟩
    have := mem_reservedLits.mp hm; rwa [String.ofList_toList] at this
  | bool b =>
    refine Or.inr fun X hb => ?_
    cases b with
    | true =>
      have ht : atomText (.bool true) = trueLit := by
        simp [atomText, exprToSource, exprSrc, trueLit]
      have hf : firstLit reservedLits (trueLit ++ X) = some (trueLit, X) := by
        simp [firstLit, reservedLits, Gen.grammarReserved, trueLit, lit]
      simp [ht, identifier, keyword_isSome_of_firstLit hf hb]
    | false =>
      have ht : atomText (.bool false) = falseLit := by
        simp [atomText, exprToSource, exprSrc, falseLit]
      have hf : firstLit reservedLits (falseLit ++ X) = some (falseLit, X) := by
        simp [firstLit, reservedLits, Gen.grammarReserved, falseLit, lit]
      simp [ht, identifier, keyword_isSome_of_firstLit hf hb]
  | null =>
    refine Or.inr fun X hb => ?_
    have ht : atomText .null = nullLit := by simp [atomText, exprToSource, exprSrc, nullLit]
    have hf : firstLit reservedLits (nullLit ++ X) = some (nullLit, X) := by
      simp [firstLit, reservedLits, Gen.grammarReserved, nullLit, lit]
    simp [ht, identifier, keyword_isSome_of_firstLit hf hb]
  | num x =>
    refine Or.inr fun X _ => ?_
    simp only [atomOk, Bool.and_eq_true, Bool.not_eq_true'] at h
    obtain ⟨⟨⟨hf, hi⟩, hn⟩, hlt⟩ := h
    have hinf := F64.isInf_of_isFinite x hf
    have hsrc : exprToSource (.num x) = x.toFixed 0 := by
      simp only [exprToSource, exprSrc]
      exact PrintL.numberToSource_int x (by simp [hinf]) hi hlt
    have hfix := F64.toFixed_zero_of_integral x hf (F64.ratio_integral_of_isIntegral x hi)
    simp only [hn, Bool.false_eq_true, if_false, String.empty_append] at hfix
    have ht : atomText (.num x) = (F64.natDigits (x.ratio.1 / x.ratio.2)).toList := by
      simp only [atomText, hsrc, hfix]
    have hdig : ∀ c ∈ atomText (.num x), isDigit c = true := by
      rw [ht]; exact F64.natDigits_all_isDigit _
    have hne : atomText (.num x) ≠ [] := by rw [ht]; exact F64.natDigits_toList_ne_nil _
    cases hd : atomText (.num x) with
    | nil => exact absurd hd hne
    | cons d ds =>
      rw [List.cons_append]
      exact identifier_none_of_start _ (isDigit_not_start (hdig d (by rw [hd]; exact List.mem_cons_self)))
  | _ => simp [atomOk] at h

/-! ### (6) the head of a lambda: where no lambda starts -/

/-- `=>` follows (after blanks) -/
def arrowAt (cs : List Char) : Prop := ∃ r, skipWs cs = '=' :: '>' :: r

/-- `=` follows (after blanks) only as the start of `==`: the name in front of this text starts
    no assignment (`assignment` takes `name =` and then fails at the second `=`) -/
def NoAsg (rest : List Char) : Prop := ∀ r, skipWs rest = '=' :: r → ∃ r', r = '=' :: r'

/-- neither `=>` nor `? =>` follows: no lambda head ends in front of this text — and no `=`
    that would make the name in front of it the target of an assignment -/
def NoLam (rest : List Char) : Prop :=
  (¬ arrowAt rest ∧ ∀ r1, skipWs rest = '?' :: r1 → ¬ arrowAt r1) ∧ NoAsg rest

theorem lit_arrow_none {cs : List Char} (h : ¬ arrowAt cs) : lit ['=', '>'] (skipWs cs) = none := by
  cases hl : lit ['=', '>'] (skipWs cs) with
  | none => rfl
  | some r => exact absurd ⟨r, by simpa using lit_eq_some.mp hl⟩ h

theorem skipWs_head {c : Char} (r : List Char) (h : isWs c = false) : skipWs (c :: r) = c :: r := by
  simp [skipWs, List.dropWhile, h]

theorem skipWs_ws {c : Char} (r : List Char) (h : isWs c = true) : skipWs (c :: r) = skipWs r := by
  simp [skipWs, List.dropWhile, h]

theorem skipWs_nil : skipWs [] = [] := rfl

/-- a text whose first non-blank character is neither `=` nor `?` -/
theorem noLam_of_head {c : Char} {r : List Char} (hw : isWs c = false) (h1 : c ≠ '=') (h2 : c ≠ '?') :
    NoLam (c :: r) := by
  refine ⟨⟨?_, ?_⟩, ?_⟩
  · rintro ⟨r', hr⟩
    rw [skipWs_head r hw] at hr
    simp only [List.cons.injEq] at hr
    exact h1 hr.1
  · intro r1 hr
    rw [skipWs_head r hw] at hr
    simp only [List.cons.injEq] at hr
    exact absurd hr.1 h2
  · intro r1 hr
    rw [skipWs_head r hw] at hr
    simp only [List.cons.injEq] at hr
    exact absurd hr.1 h1

theorem noLam_nil : NoLam [] :=
  ⟨⟨fun ⟨r, hr⟩ => by simp [skipWs] at hr, fun r1 hr => by simp [skipWs] at hr⟩,
    fun r1 hr => by simp [skipWs] at hr⟩

/-- layout in front does not matter: blanks are skipped, a line break is neither `=` nor `?` -/
theorem noLam_lay (l : Lay) {X : List Char} (h : NoLam X) : NoLam (layChars l ++ X) := by
  induction l with
  | nil => exact h
  | cons a l ih =>
    cases a
    · have e : skipWs (layChars (LayAtom.sp :: l) ++ X) = skipWs (layChars l ++ X) := by
        simp only [layChars, LayAtom.chars, List.cons_append, List.nil_append, List.append_assoc]
        exact skipWs_ws _ (by decide)
      exact ⟨⟨fun ⟨r, hr⟩ => ih.1.1 ⟨r, e ▸ hr⟩, fun r1 hr => ih.1.2 r1 (e ▸ hr)⟩,
        fun r1 hr => ih.2 r1 (e ▸ hr)⟩
    · have e : skipWs (layChars (LayAtom.tab :: l) ++ X) = skipWs (layChars l ++ X) := by
        simp only [layChars, LayAtom.chars, List.cons_append, List.nil_append, List.append_assoc]
        exact skipWs_ws _ (by decide)
      exact ⟨⟨fun ⟨r, hr⟩ => ih.1.1 ⟨r, e ▸ hr⟩, fun r1 hr => ih.1.2 r1 (e ▸ hr)⟩,
        fun r1 hr => ih.2 r1 (e ▸ hr)⟩
    · simp only [layChars, LayAtom.chars, List.cons_append, List.nil_append, List.append_assoc]
      exact noLam_of_head (by decide) (by decide) (by decide)
    · simp only [layChars, LayAtom.chars, List.cons_append, List.nil_append, List.append_assoc]
      exact noLam_of_head (by decide) (by decide) (by decide)

/-- the characters behind which the proofs look at a symbol operator's spelling: not `=>`, a
    `?` only as `??`; no `,` / `)` (a symbol operator is not taken for the end of an argument
    list) -/
def symLamOk (op : BinOp) : Bool :=
  match spell op with
  | [] => false
  | h :: t =>
    h != ',' && h != ')' && !isWs h &&
      (h != '=' || (match t with | c :: _ => c == '=' | [] => false)) &&
      (h != '?' || (match t with | c :: _ => c == '?' | [] => false))

theorem all_symLamOk : (BinOp.all.all fun op => isWordOp op || symLamOk op) = true := by
  decide +kernel

theorem symLamOk_of (op : BinOp) (h : isWordOp op = false) : symLamOk op = true := by
  have := List.all_eq_true.mp all_symLamOk op (PrattRT.BinOp.mem_all op)
  simpa [h] using this

/-- no lambda head ends in front of a symbol operator -/
theorem noLam_sym (op : BinOp) (hw : isWordOp op = false) (X : List Char) :
    NoLam (spell op ++ X) := by
  have h := symLamOk_of op hw
  unfold symLamOk at h
  split at h
  · cases h
  · rename_i hd t hsp
    simp only [Bool.and_eq_true, bne_iff_ne, ne_eq, Bool.not_eq_true', Bool.or_eq_true] at h
    obtain ⟨⟨⟨⟨_, _⟩, hws⟩, he⟩, hq⟩ := h
    rw [hsp, List.cons_append]
    refine ⟨⟨?_, ?_⟩, ?_⟩
    · rintro ⟨r, hr⟩
      rw [skipWs_head _ hws] at hr
      simp only [List.cons.injEq] at hr
      obtain ⟨rfl, hr2⟩ := hr
      rcases he with he | he
      · exact he rfl
      · cases t with
        | nil => cases he
        | cons c t' =>
          simp only [List.cons_append, List.cons.injEq] at hr2
          simp only [beq_iff_eq] at he
          subst he
          exact absurd hr2.1 (by decide)
    rotate_left
    · intro r hr
      rw [skipWs_head _ hws] at hr
      simp only [List.cons.injEq] at hr
      obtain ⟨rfl, rfl⟩ := hr
      rcases he with he | he
      · exact absurd rfl he
      · cases t with
        | nil => cases he
        | cons c t' =>
          simp only [beq_iff_eq] at he
          subst he
          exact ⟨t' ++ X, rfl⟩
    · intro r1 hr
      rw [skipWs_head _ hws] at hr
      simp only [List.cons.injEq] at hr
      obtain ⟨rfl, rfl⟩ := hr
      rcases hq with hq | hq
      · exact absurd rfl hq
      · cases t with
        | nil => cases hq
        | cons c t' =>
          simp only [beq_iff_eq] at hq
          subst hq
          rintro ⟨r, hr⟩
          rw [List.cons_append, skipWs_head _ (by decide)] at hr
          simp only [List.cons.injEq] at hr
          exact absurd hr.1 (by decide)

/-! #### `argument` / `argument_list` / the lambda head on given texts -/

/-- an argument name (`identifier`): identifier-shaped, not a reserved word -/
def nameOk (n : String) : Bool := identShape n.toList && !Gen.grammarReserved.contains n

theorem nameOk_facts {n : String} (h : nameOk n = true) :
    IdentShape n.toList ∧ n.toList ∉ reservedLits := by
  simp only [nameOk, Bool.and_eq_true, Bool.not_eq_true'] at h
  refine ⟨h.1, fun hm => ?_⟩
  have := mem_reservedLits.mp hm
  rw [String.ofList_toList] at this
  simp [this] at h

theorem consumed_append' (w rest : List Char) : consumed (w ++ rest) rest = w := by
  simp [consumed]

/-- a required argument in front of text that does not start (after blanks) with `?` -/
theorem argumentR_req {n : String} (hn : nameOk n = true) {Y : List Char} (hb : Boundary Y)
    (hq : ∀ r, skipWs Y ≠ '?' :: r) : argumentR (n.toList ++ Y) = some (.req n, Y) := by
  obtain ⟨hw, hnot⟩ := nameOk_facts hn
  -- the side condition of the second `match` alternative is discharged from `hq`
  simp only [argumentR, identifier_run hw hnot hb, consumed_append', String.ofList_toList]

theorem argumentR_opt {n : String} (hn : nameOk n = true) (Y : List Char) :
    argumentR (n.toList ++ '?' :: Y) = some (.opt n, Y) := by
  obtain ⟨hw, hnot⟩ := nameOk_facts hn
  have hb : Boundary ('?' :: Y) := by simp [Boundary, boundary, isIdentChar, isAlpha, isDigit, isUnderscore]
  simp only [argumentR, identifier_run hw hnot hb, consumed_append', String.ofList_toList,
    skipWs_head Y (c := '?') (by decide)]

theorem argumentR_rest {n : String} (hn : nameOk n = true) {Y : List Char} (hb : Boundary Y) :
    argumentR (spreadLit ++ (n.toList ++ Y)) = some (.rest n, Y) := by
  obtain ⟨hw, hnot⟩ := nameOk_facts hn
  have hid : identifier (spreadLit ++ (n.toList ++ Y)) = none := by
    rw [spreadLit_eq']; exact identifier_none_of_start _ (by decide)
  have hsk : skipWs (n.toList ++ Y) = n.toList ++ Y := by
    cases hn' : n.toList with
    | nil => exact absurd hn' hw.ne_nil
    | cons c t =>
      have hc := hw.all c (by rw [hn']; exact List.mem_cons_self)
      have : isWs c = false := by
        obtain ⟨h1, h2, _⟩ := isIdentChar_cases hc
        simp [isWs, h1, h2]
      rw [List.cons_append]; exact skipWs_head _ this
  simp only [argumentR, hid, lit_append, hsk, identifier_run hw hnot hb, consumed_append',
    String.ofList_toList]



theorem lambdaHead_of_argument {cs r : List Char} {a : LArg} (h : argumentR cs = some (a, r))
    (hn : ¬ arrowAt r) : lambdaHead cs = none := by
  simp only [lambdaHead, argumentList, h, lit_arrow_none hn, Option.map_none]

theorem lambdaHead_noarg {cs : List Char} (h : argumentR cs = none) (hp : ∀ r, cs ≠ '(' :: r) :
    lambdaHead cs = none := by
  -- the side condition of the last `match` alternative (not `(`) is discharged from `hp`
  simp only [lambdaHead, argumentList, h]

/-- behind a name no lambda head ends when neither `=>` nor `? =>` follows -/
theorem lambdaHead_name' {n : String} (hn : nameOk n = true) {rest : List Char} (hb : Boundary rest)
    (hl : (¬ arrowAt rest ∧ ∀ r1, skipWs rest = '?' :: r1 → ¬ arrowAt r1) ∧ True) :
    lambdaHead (n.toList ++ rest) = none := by
  obtain ⟨hw, hnot⟩ := nameOk_facts hn
  cases hs : skipWs rest with
  | nil =>
    exact lambdaHead_of_argument (argumentR_req hn hb (by rw [hs]; intro r e; cases e)) hl.1.1
  | cons c r1 =>
    by_cases hc : c = '?'
    · subst hc
      have : argumentR (n.toList ++ rest) = some (.opt n, r1) := by
        simp only [argumentR, identifier_run hw hnot hb, hs, consumed_append', String.ofList_toList]
      exact lambdaHead_of_argument this (hl.1.2 r1 hs)
    · refine lambdaHead_of_argument (argumentR_req hn hb ?_) hl.1.1
      rw [hs]; intro r e; simp only [List.cons.injEq] at e; exact hc e.1

theorem lambdaHead_name {n : String} (hn : nameOk n = true) {rest : List Char} (hb : Boundary rest)
    (hl : NoLam rest) : lambdaHead (n.toList ++ rest) = none :=
  lambdaHead_name' hn hb ⟨hl.1, trivial⟩

/-- a word that is not an `identifier` (a reserved word in front of a boundary, a number)
    starts no lambda -/
theorem lambdaHead_nonname {c : Char} {tl : List Char} (hid : identifier (c :: tl) = none)
    (hc : isIdentChar c = true) : lambdaHead (c :: tl) = none := by
  obtain ⟨_, _, _, _, _, _, _, _, h9, _⟩ := isIdentChar_cases hc
  have hdot : c ≠ '.' := by intro e; subst e; revert hc; decide
  refine lambdaHead_noarg ?_ (fun r e => by simp only [List.cons.injEq] at e; exact h9 e.1)
  have : ¬ ('.' = c) := fun e => hdot e.symm
  simp [argumentR, hid, spreadLit_eq', lit, this]

/-! #### the head of an assignment -/

theorem asgHead_none_of_ident {cs : List Char} (h : identifier cs = none) : asgHead cs = none := by
  simp only [asgHead, h]

theorem asgHead_none_of_start {c : Char} (X : List Char) (h : isIdentStart c = false) :
    asgHead (c :: X) = none := asgHead_none_of_ident (identifier_none_of_start X h)

/-- behind a name: an assignment starts iff `=` follows (after blanks) -/
theorem asgHead_name_eq {n : String} (hn : nameOk n = true) {rest : List Char} (hb : Boundary rest)
    {r' : List Char} (hs : skipWs rest = '=' :: r') :
    asgHead (n.toList ++ rest) = some (n, skipWs r') := by
  obtain ⟨hw, hnot⟩ := nameOk_facts hn
  simp only [asgHead, identifier_run hw hnot hb, consumed_append', String.ofList_toList, hs]

theorem asgHead_name_none {n : String} (hn : nameOk n = true) {rest : List Char} (hb : Boundary rest)
    (hs : ∀ r', skipWs rest ≠ '=' :: r') : asgHead (n.toList ++ rest) = none := by
  obtain ⟨hw, hnot⟩ := nameOk_facts hn
  -- the side condition of the catch-all alternative is discharged from `hs`
  simp only [asgHead, identifier_run hw hnot hb]

/-- … so none where `NoLam` holds, except in front of `==`, where it stops at the second `=` -/
theorem asgHead_name_noLam {n : String} (hn : nameOk n = true) {rest : List Char}
    (hb : Boundary rest) (hl : NoLam rest) :
    ∀ m r, asgHead (n.toList ++ rest) = some (m, r) → ∃ r', r = '=' :: r' := by
  intro m r h
  by_cases hs : ∃ r', skipWs rest = '=' :: r'
  · obtain ⟨r', hs⟩ := hs
    obtain ⟨r'', rfl⟩ := hl.2 r' hs
    rw [asgHead_name_eq hn hb hs] at h
    simp only [Option.some.injEq, Prod.mk.injEq] at h
    rw [skipWs_head _ (by decide)] at h
    exact ⟨r'', h.2.symm⟩
  · rw [asgHead_name_none hn hb (fun r' e => hs ⟨r', e⟩)] at h
    cases h

theorem boundary_lay_eq (w : Lay) (T : List Char) : Boundary (layChars w ++ '=' :: T) := by
  obtain ⟨d, tl', hX, hd⟩ := lay_head w '=' T (fun d => isIdentChar d = false)
    (by decide) (by decide) (by decide) (by decide) (by decide)
  rw [hX]; simp [Boundary, boundary, hd]

/-- the head of an assignment on its text: `name blanks = blanks` in front of a character that
    is no blank -/
theorem asgHead_run {n : String} (hn : nameOk n = true) (w l : Lay) (hw : wsOnly w = true)
    (hl : wsOnly l = true) (c : Char) (rest : List Char) (hc : isWs c = false) :
    asgHead (n.toList ++ (layChars w ++ '=' :: (layChars l ++ c :: rest))) = some (n, c :: rest) := by
  rw [asgHead_name_eq hn (boundary_lay_eq w _) (skipWs_run w hw '=' _ (by decide)),
    skipWs_run l hl c rest hc]

/-- … and no lambda head: the `=` is not the start of `=>` -/
theorem lambdaHead_asg {n : String} (hn : nameOk n = true) (w l : Lay) (hw : wsOnly w = true)
    (c : Char) (rest : List Char) (hc : c ≠ '>') :
    lambdaHead (n.toList ++ (layChars w ++ '=' :: (layChars l ++ c :: rest))) = none := by
  refine lambdaHead_name' hn (boundary_lay_eq w _) ⟨⟨?_, ?_⟩, trivial⟩
  · rintro ⟨r, hr⟩
    rw [skipWs_run w hw '=' _ (by decide)] at hr
    simp only [List.cons.injEq, true_and] at hr
    obtain ⟨d, tl', hX, hd⟩ := lay_head l c rest (fun d => d ≠ '>')
      (by decide) (by decide) (by decide) (by decide) hc
    rw [hX] at hr
    simp only [List.cons.injEq] at hr
    exact hd hr.1
  · intro r1 hr
    rw [skipWs_run w hw '=' _ (by decide)] at hr
    simp only [List.cons.injEq] at hr
    exact absurd hr.1 (by decide)

theorem lay_head_ne_comma (l : Lay) {c : Char} (rest : List Char) (hc : c ≠ ',') :
    ∀ r, layChars l ++ c :: rest ≠ ',' :: r := by
  intro r
  obtain ⟨d, tl', hX, hd⟩ := lay_head l c rest (fun d => d ≠ ',')
    (by decide) (by decide) (by decide) (by decide) hc
  rw [hX]; intro e; simp only [List.cons.injEq] at e; exact hd e.1

/-- `call_list` / `argument_list` do not end in front of a character that is neither layout
    nor `,` nor `)` -/
theorem callClose_fail (l : Lay) {d : Char} (tl : List Char) (h1 : layoutAtom (d :: tl) = none)
    (h2 : isWs d = false) (h3 : d ≠ ',') (h4 : d ≠ ')') :
    callClose (layChars l ++ d :: tl) = none := by
  obtain ⟨l', hl'⟩ := skipWs_lay l d tl h2
  simp only [callClose, hl', trailComma_other (lay_head_ne_comma l' tl h3), layoutStar_run l' _ h1]
  split
  · rename_i r heq; simp only [List.cons.injEq] at heq; exact absurd heq.1 h4
  · rfl

theorem argumentsTail_stop (n : Nat) (l : Lay) {d : Char} (tl : List Char) (h2 : isWs d = false)
    (h3 : d ≠ ',') : argumentsTail n (layChars l ++ d :: tl) = ([], layChars l ++ d :: tl) := by
  cases n with
  | zero => rfl
  | succ n =>
    obtain ⟨l', hl'⟩ := skipWs_lay l d tl h2
    simp only [argumentsTail, hl']
    split
    · rename_i r heq; exact absurd heq (lay_head_ne_comma l' tl h3 r)
    · rfl


/-! ### (7) the keywords of a conditional -/

theorem termAtom_if : termAtom ['i', 'f'] = none := by decide +kernel

theorem atomText_ne_if {e : Expr} (h : atomOk e = true) : atomText e ≠ ['i', 'f'] := by
  intro he
  have := (atom_word h).2.2.2 [] rfl
  rw [List.append_nil, he, termAtom_if] at this
  cases this

theorem ifHead_none_of_head {c : Char} (tl : List Char) (h : c ≠ 'i') : ifHead (c :: tl) = none := by
  have : ¬ ('i' = c) := fun e => h e.symm
  simp [ifHead, lit, this]

/-- a word of identifier characters other than `if` is not the keyword -/
theorem ifHead_word {w rest : List Char} (hall : ∀ x ∈ w, isIdentChar x = true)
    (hne : w ≠ ['i', 'f']) (hnn : w ≠ []) (hb : Boundary rest) : ifHead (w ++ rest) = none := by
  unfold ifHead
  cases hl : lit ['i', 'f'] (w ++ rest) with
  | none => rfl
  | some r =>
    simp only
    have he := lit_eq_some.mp hl
    -- what follows `if` is an identifier character
    match w, hall, hne, hnn, he with
    | [], _, _, hnn, _ => exact absurd rfl hnn
    | [a], hall, _, _, he =>
      exfalso
      simp only [List.cons_append, List.nil_append, List.cons.injEq] at he
      obtain ⟨rfl, he2⟩ := he
      have := boundary_class hb isIdentChar (fun _ h => h) 'f' r (by rw [he2])
      revert this; decide
    | [a, b], _, hne, _, he =>
      simp only [List.cons_append, List.nil_append, List.cons.injEq] at he
      exact absurd (by rw [he.1, he.2.1]) hne
    | a :: b :: c :: w', hall, _, _, he =>
      simp only [List.cons_append, List.cons.injEq] at he
      obtain ⟨_, _, rfl⟩ := he
      have hc : isIdentChar c = true := hall c (by simp)
      obtain ⟨h1, h2, _⟩ := isIdentChar_cases hc
      simp [wsPlus, plus, isWs, h1, h2]

theorem ifHead_run (w : Lay) (hw : w ≠ []) (hws : wsOnly w = true) (x : Char) (tl : List Char)
    (hx : isWs x = false) : ifHead ('i' :: 'f' :: (layChars w ++ x :: tl)) = some (x :: tl) := by
  simp only [ifHead, lit, if_true, wsPlus_run w hw hws x tl hx]

theorem kw_layoutAtom {kw : List Char} (h : kw = thenLit ∨ kw = elseLit) (T : List Char) :
    layoutAtom (kw ++ T) = none := by
  rcases h with rfl | rfl
  · exact layoutAtom_none (c := 't') (by decide)
  · exact layoutAtom_none (c := 'e') (by decide)

/-- `layout+ kw layout+` in front of the next expression -/
theorem kwGap_run {kw : List Char} (h : kw = thenLit ∨ kw = elseLit) (l1 l2 : Lay) (h1 : l1 ≠ [])
    (h2 : l2 ≠ []) (X : List Char) (hX : layoutAtom X = none) :
    kwGap kw (layChars l1 ++ (kw ++ (layChars l2 ++ X))) = some X := by
  simp only [kwGap, layoutPlus_run l1 h1 _ (kw_layoutAtom h _), lit_append, layoutPlus_run l2 h2 X hX]

theorem kw_heads :
    headsNe infixLits 't' = true ∧ headsNe naturalLits 't' = true ∧
      headsNe infixLits 'e' = true ∧ headsNe naturalLits 'e' = true := by decide +kernel

/-- in front of `then` / `else` no operator follows, whichever kind of expression -/
theorem infixUsage_kw (lam : Bool) {kw : List Char} (h : kw = thenLit ∨ kw = elseLit) (l : Lay)
    (T : List Char) : infixUsage lam (layChars l ++ (kw ++ T)) = none := by
  rcases h with rfl | rfl
  · exact infixUsage_none_of_heads lam l 't' _ kw_heads.1 kw_heads.2.1 (by decide)
  · exact infixUsage_none_of_heads lam l 'e' _ kw_heads.2.2.1 kw_heads.2.2.2 (by decide)

/-! ### (8) the head of a do-block: where none starts -/

theorem termAtom_do : termAtom ['d', 'o'] = none := by decide +kernel

theorem atomText_ne_do {e : Expr} (h : atomOk e = true) : atomText e ≠ ['d', 'o'] := by
  intro he
  have := (atom_word h).2.2.2 [] rfl
  rw [List.append_nil, he, termAtom_do] at this
  cases this

theorem doHead_none_of_head {c : Char} (tl : List Char) (h : c ≠ 'd') : doHead (c :: tl) = none := by
  have : ¬ ('d' = c) := fun e => h e.symm
  simp [doHead, lit, this]

theorem wnAtom_identChar {c : Char} (tl : List Char) (h : isIdentChar c = true) :
    wnAtom (c :: tl) = none := by
  obtain ⟨h1, h2, h3, h4, _⟩ := isIdentChar_cases h
  have e2 : ¬ ('\r' = c) := fun e => h4 e.symm
  have e3 : ¬ ('\n' = c) := fun e => h3 e.symm
  simp [wnAtom, orElse, whitespace, isWs, plainNewline, lit, h1, h2, e2, e3]

/-- a word of identifier characters other than `do` is not the keyword -/
theorem doHead_word {w rest : List Char} (hall : ∀ x ∈ w, isIdentChar x = true)
    (hne : w ≠ ['d', 'o']) (hnn : w ≠ []) (hb : Boundary rest) : doHead (w ++ rest) = none := by
  unfold doHead
  cases hl : lit ['d', 'o'] (w ++ rest) with
  | none => rfl
  | some r =>
    simp only
    have he := lit_eq_some.mp hl
    match w, hall, hne, hnn, he with
    | [], _, _, hnn, _ => exact absurd rfl hnn
    | [a], hall, _, _, he =>
      exfalso
      simp only [List.cons_append, List.nil_append, List.cons.injEq] at he
      obtain ⟨rfl, he2⟩ := he
      have := boundary_class hb isIdentChar (fun _ h => h) 'o' r (by rw [he2])
      revert this; decide
    | [a, b], _, hne, _, he =>
      simp only [List.cons_append, List.nil_append, List.cons.injEq] at he
      exact absurd (by rw [he.1, he.2.1]) hne
    | a :: b :: c :: w', hall, _, _, he =>
      simp only [List.cons_append, List.cons.injEq] at he
      obtain ⟨_, _, rfl⟩ := he
      have hc : isIdentChar c = true := hall c (by simp)
      simp [wnPlus, wnAtom_identChar _ hc]

end Blots.ExprPeg
