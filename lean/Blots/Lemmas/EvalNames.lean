import Blots.Lemmas.EvalEnv
/-
  The display names of function cells (`ES.names`, `ES.nextId`) under evaluation.

  The only two places that touch them: the `.lambda` case of `eval` (takes the cell `nextId`,
  `nextId := nextId + 1`) and the two assignment sites (`eval (.assign ..)`, `evalDoStmt
  (.assign ..)`), which call `setNameIfLambda s1 n (createdSince s.nextId val)` where `s` is the
  state BEFORE the right-hand side was evaluated.

  * `NamesRel n l n' l'` / `NamesExt s s'` : `n ≤ n'`, and `l' = new ++ l` where every entry of
    `new` is for a cell `≥ n` that has no name in `l`.  Reflexive, transitive.
  * `names_group` : all fifteen functions of the evaluator satisfy `NamesExt s s'`, for every
    fuel, depth, input and outcome.
  * consequences: `NamesExt.keep` (a name once given never changes), `NamesExt.old` (the name —
    or namelessness — of a cell that existed before is unchanged), `NamesExt.added`.
-/
namespace Blots

theorem nameOf_nil (id : Nat) : nameOf [] id = none := rfl

theorem nameOf_cons (p : Nat × String) (l : List (Nat × String)) (id : Nat) :
    nameOf (p :: l) id = if p.1 = id then some p.2 else nameOf l id := by
  unfold nameOf
  by_cases h : p.1 = id
  · simp [h]
  · simp [h]

theorem nameOf_append (a b : List (Nat × String)) (id : Nat) :
    nameOf (a ++ b) id = (nameOf a id).or (nameOf b id) := by
  induction a with
  | nil => simp [nameOf_nil]
  | cons p a ih =>
    rw [List.cons_append, nameOf_cons, nameOf_cons, ih]
    split <;> simp

theorem nameOf_eq_none_iff (l : List (Nat × String)) (id : Nat) :
    nameOf l id = none ↔ ∀ p ∈ l, p.1 ≠ id := by
  induction l with
  | nil => simp [nameOf_nil]
  | cons p l ih =>
    rw [nameOf_cons]
    by_cases h : p.1 = id
    · simp [h]
    · simp [h, ih]

theorem nameOf_some_mem {l : List (Nat × String)} {id : Nat} {n : String} (h : nameOf l id = some n) :
    (id, n) ∈ l := by
  induction l with
  | nil => simp [nameOf_nil] at h
  | cons p l ih =>
    rw [nameOf_cons] at h
    split at h
    · rename_i hp
      cases h
      obtain ⟨a, b⟩ := p
      simp only at hp
      subst hp
      exact List.mem_cons_self
    · exact List.mem_cons_of_mem _ (ih h)

/-- the relation between the (next cell, names) of a state and of a later state -/
structure NamesRel (n : Nat) (l : List (Nat × String)) (n' : Nat) (l' : List (Nat × String)) : Prop where
  /-- cells are never given back -/
  next : n ≤ n'
  /-- the names list only grows at the front, by entries for cells `≥ n` that had no name -/
  grow : ∃ new, l' = new ++ l ∧ ∀ p ∈ new, n ≤ p.1 ∧ nameOf l p.1 = none

/-- `s'` comes after `s` as far as function cells and their names are concerned -/
abbrev NamesExt (s s' : ES) : Prop := NamesRel s.nextId s.names s'.nextId s'.names

theorem NamesRel.refl (n : Nat) (l : List (Nat × String)) : NamesRel n l n l :=
  ⟨Nat.le_refl _, [], rfl, fun _ h => by cases h⟩

theorem NamesRel.trans {n1 n2 n3 : Nat} {l1 l2 l3 : List (Nat × String)}
    (h1 : NamesRel n1 l1 n2 l2) (h2 : NamesRel n2 l2 n3 l3) : NamesRel n1 l1 n3 l3 := by
  obtain ⟨a1, new1, e1, f1⟩ := h1
  obtain ⟨a2, new2, e2, f2⟩ := h2
  refine ⟨Nat.le_trans a1 a2, new2 ++ new1, by rw [e2, e1, List.append_assoc], ?_⟩
  intro p hp
  rcases List.mem_append.mp hp with hp | hp
  · obtain ⟨g1, g2⟩ := f2 p hp
    refine ⟨Nat.le_trans a1 g1, ?_⟩
    rw [e1, nameOf_append] at g2
    cases h : nameOf l1 p.1 with
    | none => rfl
    | some x => rw [h] at g2; cases hh : nameOf new1 p.1 <;> simp [hh] at g2
  · exact f1 p hp

theorem NamesExt.refl (s : ES) : NamesExt s s := NamesRel.refl _ _
theorem NamesExt.trans {a b c : ES} (h1 : NamesExt a b) (h2 : NamesExt b c) : NamesExt a c :=
  NamesRel.trans h1 h2

/-- (3) a name once given never changes -/
theorem NamesRel.keep {n n' : Nat} {l l' : List (Nat × String)} (h : NamesRel n l n' l')
    {id : Nat} {x : String} (hx : nameOf l id = some x) : nameOf l' id = some x := by
  obtain ⟨_, new, e, f⟩ := h
  rw [e, nameOf_append]
  cases hn : nameOf new id with
  | none => simpa using hx
  | some y =>
    have hm := nameOf_some_mem hn
    have := (f _ hm).2
    simp only at this
    rw [this] at hx; cases hx

/-- (4) the name, or the absence of a name, of a cell that existed before is unchanged -/
theorem NamesRel.old {n n' : Nat} {l l' : List (Nat × String)} (h : NamesRel n l n' l')
    {id : Nat} (hid : id < n) : nameOf l' id = nameOf l id := by
  obtain ⟨_, new, e, f⟩ := h
  rw [e, nameOf_append]
  have : nameOf new id = none := by
    rw [nameOf_eq_none_iff]
    intro p hp hpe
    have := (f p hp).1
    omega
  rw [this]; rfl

/-- every entry of the later list is an entry of the earlier one or is for a new cell -/
theorem NamesRel.added {n n' : Nat} {l l' : List (Nat × String)} (h : NamesRel n l n' l')
    {p : Nat × String} (hp : p ∈ l') : p ∈ l ∨ n ≤ p.1 := by
  obtain ⟨_, new, e, f⟩ := h
  rw [e] at hp
  rcases List.mem_append.mp hp with hp | hp
  · exact Or.inr (f p hp).1
  · exact Or.inl hp

/-- entries are never removed -/
theorem NamesRel.mem {n n' : Nat} {l l' : List (Nat × String)} (h : NamesRel n l n' l')
    {p : Nat × String} (hp : p ∈ l) : p ∈ l' := by
  obtain ⟨_, new, e, _⟩ := h
  rw [e]; exact List.mem_append_right _ hp

/-- creating a function cell -/
theorem NamesRel.alloc (n : Nat) (l : List (Nat × String)) : NamesRel n l (n + 1) l :=
  ⟨Nat.le_succ _, [], rfl, fun _ h => by cases h⟩

theorem setNameIfLambda_nextId (s : ES) (x : String) (v : Value) : (setNameIfLambda s x v).nextId = s.nextId := by
  unfold setNameIfLambda; split
  · split <;> rfl
  · rfl

/-- the assignment step: `s` the state before the right-hand side, `s1` after it -/
theorem NamesExt.assign {s s1 : ES} (h : NamesExt s s1) (x : String) (val : Value) :
    NamesExt s (setNameIfLambda s1 x (createdSince s.nextId val)) := by
  unfold createdSince
  split
  · rename_i id ps body sc
    split
    · rename_i hle
      unfold setNameIfLambda
      simp only
      split
      · rename_i hnone
        obtain ⟨a, new, e, f⟩ := h
        refine ⟨a, (id, x) :: new, by simp [e], ?_⟩
        intro p hp
        rcases List.mem_cons.mp hp with rfl | hp
        · refine ⟨hle, ?_⟩
          rw [e, nameOf_append] at hnone
          cases hh : nameOf s.names id with
          | none => rfl
          | some y => rw [hh] at hnone; cases h2 : nameOf new id <;> simp [h2] at hnone
        · exact f p hp
      · exact h
    · exact h
  · rename_i hnl
    unfold setNameIfLambda
    split
    · exact absurd rfl (hnl _ _ _ _)
    · exact h

theorem nk {α} {p : α × ES} {r : α} {s0 s1 : ES} (h1 : p = (r, s1)) (h2 : NamesExt s0 p.2) : NamesExt s0 s1 := by
  subst h1; exact h2

theorem nk2 {s t : ES} {e e' : List Frame}
    (h : NamesExt { env := e, nextId := s.nextId, names := s.names } t) :
    NamesExt s { env := e', nextId := t.nextId, names := t.names } := h

/-- the invariant for the fifteen functions of the evaluator at one fuel -/
structure NamesStep (ops : NumOps) (n : Nat) : Prop where
  eval : ∀ d e s, NamesExt s (eval ops n d e s).2
  evalList : ∀ d es s, NamesExt s (evalList ops n d es s).2
  evalItems : ∀ d es s, NamesExt s (evalItems ops n d es s).2
  evalEntries : ∀ d es acc s, NamesExt s (evalEntries ops n d es acc s).2
  evalDoStmt : ∀ d e s, NamesExt s (evalDoStmt ops n d e s).2
  evalDo : ∀ d st ret s, NamesExt s (evalDo ops n d st ret s).2
  callFn : ∀ fv this args d s, NamesExt s (callFn ops n fv this args d s).2
  mapCalls : ∀ f w L i d s, NamesExt s (mapCalls ops n f w L i d s).2
  quantCalls : ∀ f w q L i d s, NamesExt s (quantCalls ops n f w q L i d s).2
  foldCalls : ∀ f w acc L i d s, NamesExt s (foldCalls ops n f w acc L i d s).2
  keyCalls : ∀ f L d s, NamesExt s (keyCalls ops n f L d s).2
  callHof : ∀ name args d s, NamesExt s (callHof ops n name args d s).2
  evalBin : ∀ d op a b s, NamesExt s (evalBin ops n d op a b s).2
  viaPairs : ∀ la lb d s, NamesExt s (viaPairs ops n la lb d s).2
  whereCalls : ∀ f w L i d s, NamesExt s (whereCalls ops n f w L i d s).2

theorem namesStep_zero (ops : NumOps) : NamesStep ops 0 := by
  constructor <;> intros <;>
    simp [eval, evalList, evalItems, evalEntries, evalDoStmt, evalDo, callFn, mapCalls, quantCalls,
      foldCalls, keyCalls, callHof, evalBin, viaPairs, whereCalls, NamesRel.refl]

section step
variable {ops : NumOps} {n : Nat}

theorem names_eval (ih : NamesStep ops n) (d : Nat) (e : Expr) (s : ES) :
    NamesExt s (eval ops (n+1) d e s).2 := by
  obtain ⟨ihE, ihL, ihI, ihR, _, ihD, ihC, _, _, _, _, _, ihB, _, _⟩ := ih
  cases e with
  | assign x v =>
    rw [eval]
    split
    · exact NamesExt.refl _
    split
    · exact NamesExt.refl _
    split
    · exact NamesExt.refl _
    split
    · rename_i val s1 h1
      have e1 := nk h1 (ihE ..)
      split
      · exact e1
      · exact e1.assign x val
    · exact ihE ..
  | doBlock stmts ret =>
    rw [eval]
    have h := ihD d stmts ret { s with env := [] :: s.env }
    generalize evalDo ops n d stmts ret _ = p at h ⊢
    obtain ⟨r, s1⟩ := p
    exact h
  | lambda args body =>
    rw [eval]
    split
    · exact NamesExt.refl _
    · exact NamesRel.alloc _ _
  | _ =>
    rw [eval]
    repeat' split
    all_goals grind [NamesExt.trans, NamesExt.refl]

theorem names_evalList (ih : NamesStep ops n) (d : Nat) (es : List Expr) (s : ES) :
    NamesExt s (evalList ops (n+1) d es s).2 := by
  obtain ⟨ihE, ihL, _, _, _, _, _, _, _, _, _, _, _, _, _⟩ := ih
  cases es with
  | nil => rw [evalList]; exact NamesExt.refl _
  | cons e es =>
    rw [evalList]
    repeat' split
    all_goals grind [NamesExt.trans, NamesExt.refl]

theorem names_evalItems (ih : NamesStep ops n) (d : Nat) (es : List Item) (s : ES) :
    NamesExt s (evalItems ops (n+1) d es s).2 := by
  obtain ⟨ihE, _, ihI, _, _, _, _, _, _, _, _, _, _, _, _⟩ := ih
  cases es with
  | nil => rw [evalItems]; exact NamesExt.refl _
  | cons i es =>
    cases i
    rw [evalItems]
    repeat' split
    all_goals grind [NamesExt.trans, NamesExt.refl]

theorem names_evalEntries (ih : NamesStep ops n) (d : Nat) (es : List Entry) (acc : Frame) (s : ES) :
    NamesExt s (evalEntries ops (n+1) d es acc s).2 := by
  obtain ⟨ihE, _, _, ihR, _, _, _, _, _, _, _, _, _, _, _⟩ := ih
  cases es with
  | nil => rw [evalEntries]; exact NamesExt.refl _
  | cons e es =>
    obtain ⟨_, key, value, _⟩ := e
    cases key <;> rw [evalEntries] <;> repeat' split
    all_goals grind [NamesExt.trans, NamesExt.refl]

theorem names_evalDoStmt (ih : NamesStep ops n) (d : Nat) (e : Expr) (s : ES) :
    NamesExt s (evalDoStmt ops (n+1) d e s).2 := by
  obtain ⟨ihE, _, _, _, _, _, _, _, _, _, _, _, _, _, _⟩ := ih
  rw [evalDoStmt.eq_def]; dsimp only
  split
  · split
    · exact NamesExt.refl _
    · split
      · rename_i val s1 h1
        exact (nk h1 (ihE ..)).assign _ val
      · exact ihE ..
  · exact ihE ..

theorem names_evalDo (ih : NamesStep ops n) (d : Nat) (st : List Item) (ret : Item) (s : ES) :
    NamesExt s (evalDo ops (n+1) d st ret s).2 := by
  obtain ⟨_, _, _, _, ihS, ihD, _, _, _, _, _, _, _, _, _⟩ := ih
  cases st with
  | nil => cases ret; rw [evalDo]; exact ihS ..
  | cons i rest =>
    obtain ⟨_, e, _⟩ := i
    rw [evalDo]
    split
    · rename_i v1 s1 h1
      exact (nk h1 (ihS ..)).trans (ihD ..)
    · exact ihS ..

theorem names_callFn (ih : NamesStep ops n) (fv this : Value) (args : List Value) (d : Nat) (s : ES) :
    NamesExt s (callFn ops (n+1) fv this args d s).2 := by
  obtain ⟨ihE, _, _, _, _, _, _, _, _, _, _, ihH, _, _, _⟩ := ih
  rw [callFn.eq_def]; dsimp only
  repeat' split
  all_goals first
    | exact NamesExt.refl _
    | exact ihH ..
    | exact nk2 (ihE ..)

theorem names_mapCalls (ih : NamesStep ops n) (f : Value) (w : Bool) (L : List Value) (i d : Nat) (s : ES) :
    NamesExt s (mapCalls ops (n+1) f w L i d s).2 := by
  obtain ⟨_, _, _, _, _, _, ihC, ihM, _, _, _, _, _, _, _⟩ := ih
  cases L with
  | nil => rw [mapCalls]; exact NamesExt.refl _
  | cons x xs =>
    rw [mapCalls]
    repeat' split
    all_goals grind [NamesExt.trans, NamesExt.refl]

theorem names_quantCalls (ih : NamesStep ops n) (f : Value) (w q : Bool) (L : List Value) (i d : Nat) (s : ES) :
    NamesExt s (quantCalls ops (n+1) f w q L i d s).2 := by
  obtain ⟨_, _, _, _, _, _, ihC, _, ihQ, _, _, _, _, _, _⟩ := ih
  cases L with
  | nil => rw [quantCalls]; exact NamesExt.refl _
  | cons x xs =>
    rw [quantCalls]
    repeat' split
    all_goals grind [NamesExt.trans, NamesExt.refl]

theorem names_foldCalls (ih : NamesStep ops n) (f : Value) (w : Bool) (acc : Value) (L : List Value)
    (i d : Nat) (s : ES) : NamesExt s (foldCalls ops (n+1) f w acc L i d s).2 := by
  obtain ⟨_, _, _, _, _, _, ihC, _, _, ihF, _, _, _, _, _⟩ := ih
  cases L with
  | nil => rw [foldCalls]; exact NamesExt.refl _
  | cons x xs =>
    rw [foldCalls]
    repeat' split
    all_goals grind [NamesExt.trans, NamesExt.refl]

theorem names_keyCalls (ih : NamesStep ops n) (f : Value) (L : List Value) (d : Nat) (s : ES) :
    NamesExt s (keyCalls ops (n+1) f L d s).2 := by
  obtain ⟨_, _, _, _, _, _, ihC, _, _, _, ihK, _, _, _, _⟩ := ih
  cases L with
  | nil => rw [keyCalls]; exact NamesExt.refl _
  | cons x xs =>
    rw [keyCalls]
    have h1 := ihC f f [x] d s
    generalize callFn ops n f f _ d s = p at h1 ⊢
    obtain ⟨r, s1⟩ := p
    dsimp only
    have h2 := ihK f xs d s1
    generalize keyCalls ops n f xs d s1 = q at h2 ⊢
    obtain ⟨r2, s2⟩ := q
    exact h1.trans h2

theorem names_callHof (ih : NamesStep ops n) (name : String) (args : List Value) (d : Nat) (s : ES) :
    NamesExt s (callHof ops (n+1) name args d s).2 := by
  obtain ⟨_, _, _, _, _, _, _, ihM, ihQ, ihF, ihK, _, _, _, ihW⟩ := ih
  rw [callHof]
  repeat' split
  all_goals first
    | exact NamesExt.refl _
    | exact ihQ ..
    | exact ihF ..
    | exact ihW ..
    | (have h := nk ‹_› (ihM ..); exact h)
    | (have h := nk ‹_› (ihK ..); exact h)

theorem names_evalBin (ih : NamesStep ops n) (d : Nat) (op : BinOp) (a b : Value) (s : ES) :
    NamesExt s (evalBin ops (n+1) d op a b s).2 := by
  obtain ⟨_, _, _, _, _, _, ihC, ihM, _, _, _, _, _, ihV, ihW⟩ := ih
  rw [evalBin.eq_def]; dsimp only
  split
  · exact NamesExt.refl _
  split
  · exact NamesExt.refl _
  split
  all_goals repeat' split
  all_goals first
    | exact NamesExt.refl _
    | exact ihC ..
    | exact ihV ..
    | exact ihW ..
    | (have h := nk ‹_› (ihM ..); exact h)

theorem names_viaPairs (ih : NamesStep ops n) (la lb : List Value) (d : Nat) (s : ES) :
    NamesExt s (viaPairs ops (n+1) la lb d s).2 := by
  obtain ⟨_, _, _, _, _, _, ihC, _, _, _, _, _, _, ihV, _⟩ := ih
  rw [viaPairs.eq_def]; dsimp only
  repeat' split
  all_goals grind [NamesExt.trans, NamesExt.refl]

theorem names_whereCalls (ih : NamesStep ops n) (f : Value) (w : Bool) (L : List Value) (i d : Nat) (s : ES) :
    NamesExt s (whereCalls ops (n+1) f w L i d s).2 := by
  obtain ⟨_, _, _, _, _, _, ihC, _, _, _, _, _, _, _, ihW⟩ := ih
  cases L with
  | nil => rw [whereCalls]; exact NamesExt.refl _
  | cons x xs =>
    rw [whereCalls]
    repeat' split
    all_goals grind [NamesExt.trans, NamesExt.refl]

theorem namesStep_succ (ih : NamesStep ops n) : NamesStep ops (n+1) :=
  ⟨names_eval ih, names_evalList ih, names_evalItems ih, names_evalEntries ih, names_evalDoStmt ih,
   names_evalDo ih, names_callFn ih, names_mapCalls ih, names_quantCalls ih, names_foldCalls ih,
   names_keyCalls ih, names_callHof ih, names_evalBin ih, names_viaPairs ih, names_whereCalls ih⟩

end step

/-- all fifteen functions, every fuel -/
theorem names_group (ops : NumOps) : ∀ n, NamesStep ops n
  | 0 => namesStep_zero ops
  | n + 1 => namesStep_succ (names_group ops n)

theorem eval_names (ops : NumOps) (fuel d e s) : NamesExt s (eval ops fuel d e s).2 :=
  (names_group ops fuel).eval d e s

theorem runStmts_names (ops : NumOps) (fuel : Nat) : ∀ (stmts : List Expr) (s : ES),
    NamesExt s (runStmts ops fuel s stmts).2
  | [], _ => NamesExt.refl _
  | e :: es, s => (eval_names ops fuel 0 e s).trans (runStmts_names ops fuel es _)

end Blots
