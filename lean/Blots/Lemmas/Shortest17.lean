import Blots.Lemmas.Shortest
import Mathlib.Tactic.Linarith
import Mathlib.Tactic.Ring
import Mathlib.Tactic.NormNum
import Mathlib.Tactic.Positivity
import Mathlib.Tactic.FieldSimp
import Mathlib.Algebra.Order.Field.Basic
import Mathlib.Algebra.Order.Field.Power
/-
  SEVENTEEN SIGNIFICANT DIGITS ALWAYS READ BACK: the digit search of `F64.shortestDigitsWith`
  succeeds for every finite non-zero double (`ShortestFound`, until now a hypothesis of the
  read-back theorems of C16, is a theorem).

  The arithmetic is done in `ℚ` (`qv n d = n / d`, integer powers `2^e`, `10^k`); the model's
  natural-number computations are tied to it by bridge lemmas (`zpow_split`, `inWindow_iff_q`,
  `scaled_q`, `ge10_iff_q`, `goScaled_q`).

  * `rhe_near`, `rhe_near_q`   : `roundHalfEven n d = M` when `n/d` is strictly within ½ of `M`;
  * `ofRatio_near`             : NEAREST.  A fraction strictly inside
                                 `((M − ½)·2^e, (M + ½)·2^e)` — and above `(M − ¼)·2^e` when
                                 `M = 2^52`, where the gap below is half as wide — is converted
                                 by `ofRatio` to the pattern of `M × 2^e` (normal and subnormal,
                                 including the case where the fraction lies in the binade below);
  * `ofRatio_eq_abs_of_near`   : the same for a double `x` with `(M, e) = x.decode`;
  * `ofRatio_eq_abs_of_close`  : hence every fraction within RELATIVE distance `1/(2·10^16)` of
                                 `|x|` converts to `|x|` (`2^53 < 10^16`, and `2·2^52 < 10^16`
                                 at a power of two);
  * `shortestK_le`             : the decimal exponent `k` of the search satisfies `10^k ≤ |x|`
                                 (the estimate `⌊0.30103·L⌋ − 1` is checked against `2^(L−1)`
                                 for all 2200 binary exponents `L` by kernel evaluation,
                                 `kOK_all`; the three correction steps keep the invariant);
  * `round17`                  : in round `n = 17` (unit `10^(k−16) ≤ |x|/10^16`) the digit
                                 string below or the one above the exact value passes the
                                 read-back test (the nearer one is within half a unit);
  * `go_found`, `goPick_isSome`: a passing round makes the search return a non-zero mantissa;
  * `shortest_always_found`    : `ShortestFound tieUp x` for every finite non-zero `x`, both
                                 tie rules;  `parseDec_toDisplay_all`: Rust's `{}` of every
                                 finite double parses back to the identical double.
-/
namespace Blots.S17
open Blots Blots.F64

theorem zpow_split (b : ℚ) (z : ℤ) :
    b ^ z = b ^ z.toNat / b ^ (-z).toNat := by
  rcases le_total 0 z with h | h
  · have h2 : (-z).toNat = 0 := by omega
    rw [h2, pow_zero, div_one]
    conv_lhs => rw [← Int.toNat_of_nonneg h]
    rw [zpow_natCast]
  · have h2 : z.toNat = 0 := by omega
    rw [h2, pow_zero, one_div, ← zpow_natCast, Int.toNat_of_nonneg (by omega), zpow_neg, inv_inv]

/-- the rational value of a fraction of naturals -/
def qv (n d : ℕ) : ℚ := (n : ℚ) / (d : ℚ)

theorem inWindow_iff_q (n d : ℕ) (e : ℤ) (hd : 0 < d) :
    InWindow n d e ↔ 2 ^ 52 * (2:ℚ) ^ e ≤ qv n d ∧ qv n d < 2 ^ 53 * (2:ℚ) ^ e := by
  have hdq : (0:ℚ) < d := by exact_mod_cast hd
  have hB : (0:ℚ) < 2 ^ (-e).toNat := by positivity
  have hz := zpow_split 2 e
  have c1 : (d * 2 ^ (e.toNat + 52) ≤ n * 2 ^ (-e).toNat) ↔ 2 ^ 52 * (2:ℚ) ^ e ≤ qv n d := by
    unfold qv
    rw [le_div_iff₀ hdq, hz, ← Nat.cast_le (α := ℚ)]
    push_cast
    rw [show (2:ℚ) ^ 52 * (2 ^ e.toNat / 2 ^ (-e).toNat) * d
        = (d * 2 ^ (e.toNat + 52)) / 2 ^ (-e).toNat by rw [pow_add]; ring, div_le_iff₀ hB]
  have c2 : (n * 2 ^ (-e).toNat < d * 2 ^ (e.toNat + 53)) ↔ qv n d < 2 ^ 53 * (2:ℚ) ^ e := by
    unfold qv
    rw [div_lt_iff₀ hdq, hz, ← Nat.cast_lt (α := ℚ)]
    push_cast
    rw [show (2:ℚ) ^ 53 * (2 ^ e.toNat / 2 ^ (-e).toNat) * d
        = (d * 2 ^ (e.toNat + 53)) / 2 ^ (-e).toNat by rw [pow_add]; ring, lt_div_iff₀ hB]
  unfold InWindow
  rw [c1, c2]

/-- the scaled fraction of `ofRatio` has the value `q / 2^e` -/
theorem scaled_q (n d : ℕ) (e : ℤ) :
    qv (ofRatioScaled n d e).1 (ofRatioScaled n d e).2 = qv n d / (2:ℚ) ^ e := by
  rw [ofRatioScaled_eq, zpow_split 2 e]
  unfold qv
  push_cast
  have hB : (0:ℚ) < 2 ^ (-e).toNat := by positivity
  have hA : (0:ℚ) < 2 ^ e.toNat := by positivity
  by_cases hd : (d:ℚ) = 0
  · simp [hd]
  · field_simp


theorem rhe_near (N D M : ℕ) (hD : 0 < D) (h1 : 2 * M * D < 2 * N + D)
    (h2 : 2 * N < 2 * M * D + D) : roundHalfEven N D = M := by
  unfold roundHalfEven
  have hdm := Nat.div_add_mod N D
  have hr := Nat.mod_lt N hD
  generalize N / D = q at *
  generalize N % D = r at *
  subst hdm
  have hM1 : M ≤ q + 1 := by
    apply Nat.le_of_not_lt
    intro hc
    have : (q + 2) * D ≤ M * D := Nat.mul_le_mul_right D hc
    nlinarith
  have hM2 : q ≤ M := by
    apply Nat.le_of_not_lt
    intro hc
    have : (M + 1) * D ≤ q * D := Nat.mul_le_mul_right D hc
    nlinarith
  rcases Nat.lt_or_ge q M with h | h
  · have hq : M = q + 1 := by omega
    subst hq
    have c1 : 2 * r > D := by nlinarith
    simp [c1]
  · have hq : M = q := by omega
    subst hq
    have c1 : ¬ (2 * r > D) := by nlinarith
    have c2 : ¬ (2 * r = D) := by nlinarith
    simp [c1, c2]

theorem rhe_near_q (N D M : ℕ) (hD : 0 < D) (h1 : (M:ℚ) - 1 / 2 < qv N D)
    (h2 : qv N D < (M:ℚ) + 1 / 2) : roundHalfEven N D = M := by
  have hDq : (0:ℚ) < D := by exact_mod_cast hD
  unfold qv at h1 h2
  rw [lt_div_iff₀ hDq] at h1
  rw [div_lt_iff₀ hDq] at h2
  apply rhe_near N D M hD
  · have : ((2 * M * D : ℕ) : ℚ) < ((2 * N + D : ℕ) : ℚ) := by push_cast; linarith
    exact_mod_cast this
  · have : ((2 * N : ℕ) : ℚ) < ((2 * M * D + D : ℕ) : ℚ) := by push_cast; linarith
    exact_mod_cast this

theorem ofRatio_round (s : Bool) (n d : ℕ) (hn : n ≠ 0) (hd : d ≠ 0) (e2 : ℤ) (M : ℕ)
    (he2 : ofRatioExp n d = e2) (h1 : (M:ℚ) - 1 / 2 < qv n d / (2:ℚ) ^ e2)
    (h2 : qv n d / (2:ℚ) ^ e2 < (M:ℚ) + 1 / 2) :
    ofRatio s n d = ofRatioPack (if s then 2 ^ 63 else 0) e2 M := by
  have hpos : 0 < (ofRatioScaled n d e2).2 := by
    rw [ofRatioScaled_eq]
    exact Nat.mul_pos (Nat.pos_of_ne_zero hd) (Nat.two_pow_pos _)
  rw [ofRatio_eq s n d hn hd, he2,
    rhe_near_q _ _ M hpos (by rw [scaled_q]; exact h1) (by rw [scaled_q]; exact h2)]

theorem ofRatioExp_of_window (n d : ℕ) (hn : n ≠ 0) (hd : d ≠ 0) (e : ℤ)
    (h1 : 2 ^ 52 * (2:ℚ) ^ e ≤ qv n d) (h2 : qv n d < 2 ^ 53 * (2:ℚ) ^ e) :
    ofRatioExp n d = if e < -1074 then -1074 else e := by
  obtain ⟨e', hw, he'⟩ := ofRatioExp_spec n d hn hd
  have := inWindow_unique hw ((inWindow_iff_q n d e (Nat.pos_of_ne_zero hd)).2 ⟨h1, h2⟩)
  rw [he', this]

theorem ofRatioExp_of_small (n d : ℕ) (hn : n ≠ 0) (hd : d ≠ 0)
    (h : qv n d < 2 ^ 53 * (2:ℚ) ^ (-1074 : ℤ)) : ofRatioExp n d = -1074 := by
  obtain ⟨e', hw, he'⟩ := ofRatioExp_spec n d hn hd
  have hw' := (inWindow_iff_q n d e' (Nat.pos_of_ne_zero hd)).1 hw
  have h3 : (2:ℚ) ^ e' < 2 ^ (-1073 : ℤ) := by
    have : (2:ℚ) ^ (-1073 : ℤ) = 2 * 2 ^ (-1074 : ℤ) := by
      rw [show (-1073 : ℤ) = -1074 + 1 by norm_num, zpow_add_one₀ (by norm_num)]; ring
    rw [this]
    linarith [hw'.1]
  have h4 : e' < -1073 := (zpow_lt_zpow_iff_right₀ (by norm_num)).1 h3
  rw [he']
  split <;> omega

theorem pack_carry (sb : ℕ) (e : ℤ) :
    ofRatioPack sb (e - 1) (2 ^ 53) = ofRatioPack sb e (2 ^ 52) := by
  have h : e - 1 + 1 = e := by omega
  unfold ofRatioPack
  simp [h]

/-- NEAREST: a fraction strictly inside the rounding interval of `M × 2^e` (half a unit of
    `2^e` on each side, a quarter below a power of two) is converted to `M × 2^e`. -/
theorem ofRatio_near (s : Bool) (n d M : ℕ) (e : ℤ) (hd : 0 < d) (hM0 : 0 < M) (hM : M < 2 ^ 53)
    (he : -1074 ≤ e) (hnorm : e ≠ -1074 → 2 ^ 52 ≤ M)
    (hlo : ((M:ℚ) - 1 / 2) * (2:ℚ) ^ e < qv n d) (hhi : qv n d < ((M:ℚ) + 1 / 2) * (2:ℚ) ^ e)
    (hb : M = 2 ^ 52 → ((M:ℚ) - 1 / 4) * (2:ℚ) ^ e < qv n d) :
    ofRatio s n d = ofRatioPack (if s then 2 ^ 63 else 0) e M := by
  have ht : (0:ℚ) < (2:ℚ) ^ e := zpow_pos (by norm_num) e
  have hMq1 : (1:ℚ) ≤ M := by exact_mod_cast hM0
  have hMq2 : (M:ℚ) ≤ 2 ^ 53 - 1 := by
    have h1 : M + 1 ≤ 2 ^ 53 := hM
    have h2 : ((M + 1 : ℕ) : ℚ) ≤ ((2 ^ 53 : ℕ) : ℚ) := by exact_mod_cast h1
    push_cast at h2
    linarith
  have hqpos : 0 < qv n d := by nlinarith
  have hn : n ≠ 0 := by
    rintro rfl
    simp [qv] at hqpos
  have hd' : d ≠ 0 := by omega
  generalize htdef : (2:ℚ) ^ e = t at *
  by_cases hE : e = -1074
  · have hexp : ofRatioExp n d = e := by
      rw [hE]
      apply ofRatioExp_of_small n d hn hd'
      rw [← hE, htdef]
      nlinarith
    exact ofRatio_round s n d hn hd' e M hexp (by rw [htdef, lt_div_iff₀ ht]; exact hlo)
      (by rw [htdef, div_lt_iff₀ ht]; exact hhi)
  · have hM52 := hnorm hE
    have hM52q : (2:ℚ) ^ 52 ≤ M := by exact_mod_cast hM52
    by_cases hq : 2 ^ 52 * t ≤ qv n d
    · have hexp : ofRatioExp n d = e := by
        rw [ofRatioExp_of_window n d hn hd' e (by rw [htdef]; exact hq) (by rw [htdef]; nlinarith),
          if_neg (by omega)]
      exact ofRatio_round s n d hn hd' e M hexp (by rw [htdef, lt_div_iff₀ ht]; exact hlo)
        (by rw [htdef, div_lt_iff₀ ht]; exact hhi)
    · have hq' : qv n d < 2 ^ 52 * t := lt_of_not_ge hq
      have hMeq : M = 2 ^ 52 := by
        apply Nat.le_antisymm _ hM52
        apply Nat.le_of_not_lt
        intro hc
        have h1 : ((2 ^ 52 + 1 : ℕ) : ℚ) ≤ M := by exact_mod_cast hc
        push_cast at h1
        nlinarith
      have hb' := hb hMeq
      have ht' : (2:ℚ) ^ (e - 1) = t / 2 := by
        rw [zpow_sub_one₀ (by norm_num), htdef]; ring
      have hMq : (M:ℚ) = 2 ^ 52 := by rw [hMeq]; norm_num
      rw [hMq] at hb'
      have ht2 : (0:ℚ) < t / 2 := by linarith
      have hexp : ofRatioExp n d = e - 1 := by
        rw [ofRatioExp_of_window n d hn hd' (e - 1) (by rw [ht']; nlinarith) (by rw [ht']; linarith),
          if_neg (by omega)]
      rw [hMeq, ← pack_carry]
      exact ofRatio_round s n d hn hd' (e - 1) (2 ^ 53) hexp
        (by rw [ht', lt_div_iff₀ ht2]; push_cast; linarith)
        (by rw [ht', div_lt_iff₀ ht2]; push_cast; linarith)


/-! ### the double side -/

theorem decode_facts (x : F64) (hf : x.isFinite = true) (hz : x.isZero = false) :
    0 < x.decode.1 ∧ x.decode.1 < 2 ^ 53 ∧ -1074 ≤ x.decode.2 ∧ x.decode.2 ≤ 971 ∧
      (x.decode.2 ≠ -1074 → 2 ^ 52 ≤ x.decode.1) := by
  have hE := expField_lt_of_isFinite x hf
  have hfr := frac_lt x
  have hmag : x.mag ≠ 0 := by simpa [isZero] using hz
  have hEf : x.expField = 0 → x.frac ≠ 0 := by
    unfold expField frac
    unfold mag at hmag
    generalize x.nbits = N at *
    omega
  unfold decode
  split
  · next h0 =>
    have := hEf h0
    refine ⟨by simp only []; omega, by simp only []; omega, by simp, by simp, by simp⟩
  · next h0 =>
    refine ⟨by simp only []; omega, by simp only []; omega, ?_, ?_, ?_⟩
    · simp only [Int.ofNat_eq_natCast]; omega
    · simp only [Int.ofNat_eq_natCast]; omega
    · intro _; simp only []; omega

theorem ratio_q (x : F64) : qv x.ratio.1 x.ratio.2 = (x.decode.1 : ℚ) * (2:ℚ) ^ x.decode.2 := by
  unfold ratio
  generalize x.decode = p
  obtain ⟨m, e⟩ := p
  simp only []
  rw [zpow_split 2 e]
  split
  · next h =>
    have : (-e).toNat = 0 := by omega
    simp [qv, this]
  · next h =>
    have : e.toNat = 0 := by omega
    simp [qv, this]
    ring

theorem ratio_snd_pos (x : F64) : 0 < x.ratio.2 := by
  obtain ⟨k, hk⟩ := ratio_snd_two_pow x
  rw [hk]; exact Nat.two_pow_pos k

/-- the unsigned conversion of the exact value of a finite double is its magnitude -/
theorem ofRatio_false_ratio (x : F64) (hf : x.isFinite = true) :
    ofRatio false x.ratio.1 x.ratio.2 = x.abs := by
  obtain ⟨P, hP⟩ := ofRatio_sign_payload x.ratio.1 x.ratio.2
  have h1 := hP x.neg
  rw [ofRatio_ratio x hf] at h1
  have h2 := eq_ofNatBits_sign_mag x
  have h3 := (ofNatBits_eq_iff _ _).1 (h2.symm.trans h1)
  rw [hP false]
  unfold F64.abs
  apply (ofNatBits_eq_iff _ _).2
  simp only [Bool.false_eq_true, if_false]
  generalize (if x.neg = true then 2 ^ 63 else 0) = sb at h3
  omega

/-- NEAREST, for a double: a fraction strictly inside the rounding interval of `|x|` converts
    to `|x|`.  With `(m, e) = x.decode` (`|x| = m × 2^e`) the interval is
    `((m − ½)·2^e, (m + ½)·2^e)`, and `((m − ¼)·2^e, …)` when `m = 2^52` (the gap below a power
    of two is half as wide). -/
theorem ofRatio_eq_abs_of_near (x : F64) (hf : x.isFinite = true) (hz : x.isZero = false)
    (n d : ℕ) (hd : 0 < d)
    (hlo : ((x.decode.1:ℚ) - 1 / 2) * (2:ℚ) ^ x.decode.2 < qv n d)
    (hhi : qv n d < ((x.decode.1:ℚ) + 1 / 2) * (2:ℚ) ^ x.decode.2)
    (hb : x.decode.1 = 2 ^ 52 → ((x.decode.1:ℚ) - 1 / 4) * (2:ℚ) ^ x.decode.2 < qv n d) :
    ofRatio false n d = x.abs := by
  obtain ⟨h1, h2, h3, _, h5⟩ := decode_facts x hf hz
  have ht : (0:ℚ) < (2:ℚ) ^ x.decode.2 := zpow_pos (by norm_num) _
  rw [ofRatio_near false n d _ _ hd h1 h2 h3 h5 hlo hhi hb, ← ofRatio_false_ratio x hf]
  symm
  apply ofRatio_near false _ _ _ _ (ratio_snd_pos x) h1 h2 h3 h5
  · rw [ratio_q]; nlinarith
  · rw [ratio_q]; nlinarith
  · intro _; rw [ratio_q]; nlinarith

/-- 17 significant digits are enough: a fraction within relative distance `1/(2·10^16)` of
    `|x|` converts to `|x|` -/
theorem ofRatio_eq_abs_of_close (x : F64) (hf : x.isFinite = true) (hz : x.isZero = false)
    (n d : ℕ) (hd : 0 < d)
    (hlo : qv x.ratio.1 x.ratio.2 - qv x.ratio.1 x.ratio.2 / (2 * 10 ^ 16) ≤ qv n d)
    (hhi : qv n d ≤ qv x.ratio.1 x.ratio.2 + qv x.ratio.1 x.ratio.2 / (2 * 10 ^ 16)) :
    ofRatio false n d = x.abs := by
  obtain ⟨h1, h2, h3, _, h5⟩ := decode_facts x hf hz
  have ht : (0:ℚ) < (2:ℚ) ^ x.decode.2 := zpow_pos (by norm_num) _
  rw [ratio_q] at hlo hhi
  have hMq2 : (x.decode.1:ℚ) < 2 ^ 53 := by exact_mod_cast h2
  have hMt : (x.decode.1:ℚ) * (2:ℚ) ^ x.decode.2 < 2 ^ 53 * (2:ℚ) ^ x.decode.2 :=
    mul_lt_mul_of_pos_right hMq2 ht
  apply ofRatio_eq_abs_of_near x hf hz n d hd
  · linarith
  · linarith
  · intro hM
    have hM' : (x.decode.1:ℚ) = 2 ^ 52 := by rw [hM]; norm_num
    rw [hM'] at hlo ⊢
    linarith


/-! ### the decimal exponent `k` of the digit search: `10^k ≤ |x|` -/

/-- the local test `ge10` of `shortestDigitsWith`: `num/den ≥ 10^k` -/
def ge10 (num den : ℕ) (k : ℤ) : Bool :=
  if k ≥ 0 then num ≥ den * 10 ^ k.toNat else num * 10 ^ (-k).toNat ≥ den

theorem ge10_iff_q (num den : ℕ) (hden : 0 < den) (k : ℤ) :
    ge10 num den k = true ↔ (10:ℚ) ^ k ≤ qv num den := by
  have hdq : (0:ℚ) < den := by exact_mod_cast hden
  have hB : (0:ℚ) < 10 ^ (-k).toNat := by positivity
  unfold ge10 qv
  rw [le_div_iff₀ hdq, zpow_split 10 k]
  split
  · next h =>
    have h2 : (-k).toNat = 0 := by omega
    rw [h2, pow_zero, div_one, decide_eq_true_eq, ge_iff_le, ← Nat.cast_le (α := ℚ)]
    push_cast
    rw [mul_comm]
  · next h =>
    have h2 : k.toNat = 0 := by omega
    rw [h2, pow_zero, decide_eq_true_eq, ge_iff_le, ← Nat.cast_le (α := ℚ), div_mul_eq_mul_div,
      one_mul, div_le_iff₀ hB]
    push_cast
    rfl

/-- the first estimate of the decimal exponent -/
def estK (num den : ℕ) : ℤ := (Int.ofNat num.log2 - Int.ofNat den.log2) * 30103 / 100000

theorem kstep (g : ℤ → Bool) (k : ℤ) (h : g k = true) :
    g (if g (k + 1) = true then k + 1 else k) = true := by
  split
  · next h1 => exact h1
  · exact h

/-- the search for `k` only moves to exponents that passed the test `10^k ≤ v` -/
theorem shortestK_ge (num den : ℕ) (h0 : ge10 num den (estK num den - 1) = true) :
    ge10 num den (shortestK num den) = true := by
  have hk : shortestK num den =
      (let k0 := estK num den - 1
       let k1 := if ge10 num den (k0 + 1) then k0 + 1 else k0
       let k2 := if ge10 num den (k1 + 1) then k1 + 1 else k1
       if ge10 num den (k2 + 1) then k2 + 1 else k2) := rfl
  rw [hk]
  exact kstep _ _ (kstep _ _ (kstep _ _ h0))

/-- `10^(⌊0.30103·L⌋ − 1) ≤ 2^(L−1)`, as a test -/
def kOK (L : ℤ) : Bool :=
  ge10 (2 ^ (L - 1).toNat) (2 ^ (1 - L).toNat) (L * 30103 / 100000 - 1)

/-- the test holds on the whole exponent range of doubles (checked by evaluation, 2200 cases) -/
theorem kOK_all : ∀ i, i < 2200 → kOK (Int.ofNat i - 1100) = true := by decide +kernel

theorem est_le_two_pow (L : ℤ) (h1 : -1100 ≤ L) (h2 : L < 1100) :
    (10:ℚ) ^ (L * 30103 / 100000 - 1) ≤ (2:ℚ) ^ (L - 1) := by
  have h := kOK_all (L + 1100).toNat (by omega)
  have hL : Int.ofNat (L + 1100).toNat - 1100 = L := by
    simp only [Int.ofNat_eq_natCast]; omega
  rw [hL] at h
  unfold kOK at h
  rw [ge10_iff_q _ _ (Nat.two_pow_pos _)] at h
  refine le_trans h (le_of_eq ?_)
  unfold qv
  rw [zpow_split 2 (L - 1)]
  push_cast
  rw [show -(L - 1) = 1 - L by ring]

/-- bounds of a positive fraction by the binary logarithms of its terms -/
theorem log2_bounds (num den : ℕ) (hn : num ≠ 0) (hd : den ≠ 0) :
    (2:ℚ) ^ ((num.log2 : ℤ) - (den.log2 : ℤ) - 1) < qv num den ∧
      qv num den < (2:ℚ) ^ ((num.log2 : ℤ) - (den.log2 : ℤ) + 1) := by
  have ha1 : ((2 ^ num.log2 : ℕ) : ℚ) ≤ num := by exact_mod_cast Nat.log2_self_le hn
  have ha2 : (num : ℚ) < ((2 ^ (num.log2 + 1) : ℕ) : ℚ) := by exact_mod_cast @Nat.lt_log2_self num
  have hb1 : ((2 ^ den.log2 : ℕ) : ℚ) ≤ den := by exact_mod_cast Nat.log2_self_le hd
  have hb2 : (den : ℚ) < ((2 ^ (den.log2 + 1) : ℕ) : ℚ) := by exact_mod_cast @Nat.lt_log2_self den
  push_cast at ha1 ha2 hb1 hb2
  have hdq : (0:ℚ) < den := by exact_mod_cast Nat.pos_of_ne_zero hd
  have hA : (0:ℚ) < 2 ^ num.log2 := by positivity
  have hB : (0:ℚ) < 2 ^ den.log2 := by positivity
  have e1 : (2:ℚ) ^ ((num.log2 : ℤ) - (den.log2 : ℤ) - 1) = 2 ^ num.log2 / (2 ^ den.log2 * 2) := by
    rw [zpow_sub_one₀ (by norm_num), zpow_sub₀ (by norm_num), zpow_natCast, zpow_natCast]
    field_simp
  have e2 : (2:ℚ) ^ ((num.log2 : ℤ) - (den.log2 : ℤ) + 1) = 2 ^ num.log2 * 2 / 2 ^ den.log2 := by
    rw [zpow_add_one₀ (by norm_num), zpow_sub₀ (by norm_num), zpow_natCast, zpow_natCast]
    field_simp
  rw [e1, e2]
  unfold qv
  rw [pow_succ] at ha2 hb2
  constructor
  · rw [div_lt_div_iff₀ (by positivity) hdq]
    nlinarith
  · rw [div_lt_div_iff₀ hdq hB]
    nlinarith


/-- the exact value of a finite non-zero double lies in `[2^-1074, 2^1024)` -/
theorem ratio_range (x : F64) (hf : x.isFinite = true) (hz : x.isZero = false) :
    (2:ℚ) ^ (-1074 : ℤ) ≤ qv x.ratio.1 x.ratio.2 ∧ qv x.ratio.1 x.ratio.2 < (2:ℚ) ^ (1024 : ℤ) := by
  obtain ⟨h1, h2, h3, h4, _⟩ := decode_facts x hf hz
  rw [ratio_q]
  have hM1 : (1:ℚ) ≤ x.decode.1 := by exact_mod_cast h1
  have hM2 : (x.decode.1:ℚ) < 2 ^ 53 := by exact_mod_cast h2
  have ht : (0:ℚ) < (2:ℚ) ^ x.decode.2 := zpow_pos (by norm_num) _
  have hlo : (2:ℚ) ^ (-1074 : ℤ) ≤ (2:ℚ) ^ x.decode.2 := zpow_le_zpow_right₀ (by norm_num) h3
  have hhi : (2:ℚ) ^ x.decode.2 ≤ (2:ℚ) ^ (971 : ℤ) := zpow_le_zpow_right₀ (by norm_num) h4
  have e1 : (2:ℚ) ^ (1024 : ℤ) = 2 ^ 53 * (2:ℚ) ^ (971 : ℤ) := by
    rw [← zpow_natCast (2:ℚ) 53, ← zpow_add₀ (by norm_num)]; norm_num
  constructor
  · nlinarith
  · rw [e1]
    calc (x.decode.1:ℚ) * (2:ℚ) ^ x.decode.2 < 2 ^ 53 * (2:ℚ) ^ x.decode.2 :=
          mul_lt_mul_of_pos_right hM2 ht
      _ ≤ 2 ^ 53 * (2:ℚ) ^ (971 : ℤ) := mul_le_mul_of_nonneg_left hhi (by positivity)

theorem ratio_fst_ne_zero (x : F64) (hf : x.isFinite = true) (hz : x.isZero = false) :
    x.ratio.1 ≠ 0 := by
  intro h0
  have h := (ratio_range x hf hz).1
  have hp : (0:ℚ) < (2:ℚ) ^ (-1074 : ℤ) := zpow_pos (by norm_num) _
  rw [h0] at h
  unfold qv at h
  rw [Nat.cast_zero, zero_div] at h
  linarith

/-- the decimal exponent used by the digit search satisfies `10^k ≤ |x|` -/
theorem shortestK_le (x : F64) (hf : x.isFinite = true) (hz : x.isZero = false) :
    (10:ℚ) ^ shortestK x.ratio.1 x.ratio.2 ≤ qv x.ratio.1 x.ratio.2 := by
  have hn := ratio_fst_ne_zero x hf hz
  have hdp := ratio_snd_pos x
  have hd : x.ratio.2 ≠ 0 := by omega
  obtain ⟨r1, r2⟩ := ratio_range x hf hz
  obtain ⟨l1, l2⟩ := log2_bounds _ _ hn hd
  generalize hL : (x.ratio.1.log2 : ℤ) - (x.ratio.2.log2 : ℤ) = L at l1 l2
  have hL1 : L - 1 < 1024 :=
    (zpow_lt_zpow_iff_right₀ (by norm_num : (1:ℚ) < 2)).1 (lt_trans l1 r2)
  have hL2 : -1074 < L + 1 :=
    (zpow_lt_zpow_iff_right₀ (by norm_num : (1:ℚ) < 2)).1 (lt_of_le_of_lt r1 l2)
  have hest : estK x.ratio.1 x.ratio.2 = L * 30103 / 100000 := by
    unfold estK
    simp only [Int.ofNat_eq_natCast, hL]
  rw [← ge10_iff_q _ _ hdp]
  apply shortestK_ge
  rw [ge10_iff_q _ _ hdp, hest]
  exact le_trans (est_le_two_pow L (by omega) (by omega)) (le_of_lt l1)


/-! ### round 17 of the digit search -/

theorem goScaled_q (num den : ℕ) (hden : 0 < den) (sh : ℤ) :
    qv (goScaled num den sh).1 (goScaled num den sh).2 = qv num den / (10:ℚ) ^ sh := by
  have hdq : (den:ℚ) ≠ 0 := by exact_mod_cast (Nat.ne_of_gt hden)
  unfold goScaled
  rw [zpow_split 10 sh]
  split
  · next h =>
    have h2 : (-sh).toNat = 0 := by omega
    simp only [qv, h2, pow_zero, div_one]
    push_cast
    rw [div_div]
  · next h =>
    have h2 : sh.toNat = 0 := by omega
    simp only [qv, h2, pow_zero]
    push_cast
    field_simp

theorem goScaled_snd_pos (num den : ℕ) (hden : 0 < den) (sh : ℤ) : 0 < (goScaled num den sh).2 := by
  unfold goScaled
  split
  · exact Nat.mul_pos hden (Nat.pow_pos (by decide))
  · exact hden

/-- a decimal `c × 10^sh` within relative distance `1/(2·10^16)` of `|x|` reads back as `|x|` -/
theorem decVal_eq_abs_of_close (x : F64) (hf : x.isFinite = true) (hz : x.isZero = false)
    (c : ℕ) (sh : ℤ)
    (hlo : qv x.ratio.1 x.ratio.2 - qv x.ratio.1 x.ratio.2 / (2 * 10 ^ 16) ≤ (c:ℚ) * (10:ℚ) ^ sh)
    (hhi : (c:ℚ) * (10:ℚ) ^ sh ≤ qv x.ratio.1 x.ratio.2 + qv x.ratio.1 x.ratio.2 / (2 * 10 ^ 16)) :
    decVal false c sh = x.abs := by
  unfold decVal
  split
  · next h =>
    have h2 : (-sh).toNat = 0 := by omega
    have e : qv (c * 10 ^ sh.toNat) 1 = (c:ℚ) * (10:ℚ) ^ sh := by
      rw [zpow_split 10 sh, h2, pow_zero, div_one]
      unfold qv
      push_cast
      rw [div_one]
    exact ofRatio_eq_abs_of_close x hf hz _ 1 (by decide) (by rw [e]; exact hlo) (by rw [e]; exact hhi)
  · next h =>
    have h2 : sh.toNat = 0 := by omega
    have e : qv c (10 ^ (-sh).toNat) = (c:ℚ) * (10:ℚ) ^ sh := by
      rw [zpow_split 10 sh, h2, pow_zero]
      unfold qv
      push_cast
      rw [mul_one_div]
    exact ofRatio_eq_abs_of_close x hf hz _ _ (Nat.pow_pos (by decide)) (by rw [e]; exact hlo)
      (by rw [e]; exact hhi)

/-- ROUND 17: with 17 significant digits, the candidate below or the candidate above the exact
    value passes the read-back test of the search -/
theorem round17 (x : F64) (hf : x.isFinite = true) (hz : x.isZero = false) (sh : ℤ)
    (hsh : sh = shortestK x.ratio.1 x.ratio.2 - 16) :
    goRt x.abs sh ((goScaled x.ratio.1 x.ratio.2 sh).1 / (goScaled x.ratio.1 x.ratio.2 sh).2) = true ∨
    goRt x.abs sh ((goScaled x.ratio.1 x.ratio.2 sh).1 / (goScaled x.ratio.1 x.ratio.2 sh).2 + 1) = true := by
  have hk := shortestK_le x hf hz
  have hden := ratio_snd_pos x
  have hq := goScaled_q x.ratio.1 x.ratio.2 hden sh
  have hsd := goScaled_snd_pos x.ratio.1 x.ratio.2 hden sh
  have hu : (0:ℚ) < (10:ℚ) ^ sh := zpow_pos (by norm_num) _
  have hu16 : (10:ℚ) ^ sh * 10 ^ 16 = (10:ℚ) ^ shortestK x.ratio.1 x.ratio.2 := by
    rw [hsh, zpow_sub₀ (by norm_num), zpow_ofNat, div_mul_cancel₀ _ (by positivity)]
  rw [← hu16] at hk
  generalize hvdef : qv x.ratio.1 x.ratio.2 = v at *
  generalize hudef : (10:ℚ) ^ sh = u at *
  generalize (goScaled x.ratio.1 x.ratio.2 sh).1 = sn at *
  generalize (goScaled x.ratio.1 x.ratio.2 sh).2 = sd at *
  have hsdq : (0:ℚ) < sd := by exact_mod_cast hsd
  have hdm : ((sd * (sn / sd) + sn % sd : ℕ) : ℚ) = sn := by rw [Nat.div_add_mod]
  have hr := Nat.mod_lt sn hsd
  push_cast at hdm
  -- v = (lo + r/sd) * u
  have hv : v = (sn / sd : ℕ) * u + ((sn % sd : ℕ) : ℚ) / sd * u := by
    have h1 : v = qv sn sd * u := by rw [hq]; field_simp
    rw [h1]
    unfold qv
    rw [← hdm]
    field_simp
  have hlo0 : sn / sd ≠ 0 := by
    have h1 : (1:ℚ) ≤ qv sn sd := by
      rw [hq, le_div_iff₀ hu]
      nlinarith
    unfold qv at h1
    rw [le_div_iff₀ hsdq, one_mul] at h1
    have h2 : sd ≤ sn := by exact_mod_cast h1
    exact Nat.ne_of_gt (Nat.div_pos h2 hsd)
  have hB0 : (0:ℚ) ≤ ((sn % sd : ℕ) : ℚ) / sd * u := by positivity
  generalize hA : ((sn / sd : ℕ) : ℚ) * u = A at hv
  generalize hBdef : ((sn % sd : ℕ) : ℚ) / sd * u = B at hv hB0
  by_cases hcase : 2 * (sn % sd) ≤ sd
  · left
    have hB1 : B ≤ u / 2 := by
      rw [← hBdef]
      have h1 : ((sn % sd : ℕ) : ℚ) / sd ≤ 1 / 2 := by
        rw [div_le_iff₀ hsdq]
        have : ((2 * (sn % sd) : ℕ) : ℚ) ≤ sd := by exact_mod_cast hcase
        push_cast at this
        linarith
      nlinarith
    unfold goRt
    simp only [Bool.and_eq_true, decide_eq_true_eq, beq_iff_eq]
    refine ⟨hlo0, ?_⟩
    apply decVal_eq_abs_of_close x hf hz
    · rw [hvdef, hudef, hA]; linarith
    · rw [hvdef, hudef, hA]; linarith
  · right
    have hB1 : u / 2 ≤ B ∧ B ≤ u := by
      rw [← hBdef]
      have h1 : 1 / 2 ≤ ((sn % sd : ℕ) : ℚ) / sd := by
        rw [le_div_iff₀ hsdq]
        have : ((sd : ℕ) : ℚ) ≤ ((2 * (sn % sd) : ℕ) : ℚ) := by
          exact_mod_cast Nat.le_of_lt (Nat.lt_of_not_le hcase)
        push_cast at this
        linarith
      have h2 : ((sn % sd : ℕ) : ℚ) / sd ≤ 1 := by
        rw [div_le_iff₀ hsdq, one_mul]
        exact_mod_cast Nat.le_of_lt hr
      constructor <;> nlinarith
    unfold goRt
    simp only [Bool.and_eq_true, decide_eq_true_eq, beq_iff_eq]
    refine ⟨Nat.succ_ne_zero _, ?_⟩
    have hc : ((sn / sd + 1 : ℕ) : ℚ) * u = A + u := by rw [← hA]; push_cast; ring
    apply decVal_eq_abs_of_close x hf hz
    · rw [hvdef, hudef, hc]; linarith
    · rw [hvdef, hudef, hc]; linarith


/-! ### the search loop -/

/-- `pick` selects a candidate as soon as one of the two passes the read-back test -/
theorem goPick_isSome (tieUp : Bool) (sn sd : ℕ) (rt : ℕ → Bool)
    (h : rt (sn / sd) = true ∨ rt (sn / sd + 1) = true) :
    ∃ dd, goPick tieUp sn sd rt = some dd := by
  unfold goPick
  simp only []
  cases h1 : rt (sn / sd) <;> cases h2 : rt (sn / sd + 1)
  · rw [h1, h2] at h; simp at h
  · simp
  · by_cases h3 : sn % sd = 0 <;> simp [h3]
  · by_cases h3 : sn % sd = 0
    · simp [h3]
    · simp only [h3, decide_false, Bool.false_and, Bool.and_self, if_true, Bool.false_eq_true,
        if_false]
      split
      · exact ⟨_, rfl⟩
      · split
        · exact ⟨_, rfl⟩
        · split <;> exact ⟨_, rfl⟩

/-- if some round within the fuel selects a candidate, the search returns a non-zero mantissa -/
theorem go_found (tieUp : Bool) (num den : ℕ) (ax : F64) (k : ℤ) : ∀ (fuel n j : ℕ), j < fuel →
    (∃ dd, goPick tieUp (goScaled num den (k - Int.ofNat (n + j) + 1)).1
      (goScaled num den (k - Int.ofNat (n + j) + 1)).2 (goRt ax (k - Int.ofNat (n + j) + 1)) = some dd) →
    (shortestDigitsWith.go tieUp num den ax k n fuel).1 ≠ 0
  | 0, n, j, hj, _ => absurd hj (Nat.not_lt_zero _)
  | fuel + 1, n, j, hj, h => by
    rw [go_succ]
    cases hp : goPick tieUp (goScaled num den (k - Int.ofNat n + 1)).1
        (goScaled num den (k - Int.ofNat n + 1)).2 (goRt ax (k - Int.ofNat n + 1)) with
    | some dd => exact (goRt_sound _ _ _ (goPick_sound _ _ _ _ _ hp)).1
    | none =>
      cases j with
      | zero =>
        obtain ⟨dd, hdd⟩ := h
        rw [Nat.add_zero, hp] at hdd
        cases hdd
      | succ j' =>
        apply go_found tieUp num den ax k fuel (n + 1) j' (by omega)
        rw [show n + 1 + j' = n + (j' + 1) by omega]
        exact h

end Blots.S17

namespace Blots.F64
open Blots.S17

/-- THE DIGIT SEARCH ALWAYS SUCCEEDS: for every finite non-zero double, some round `n ≤ 17` of
    `shortestDigitsWith` finds a digit string that reads back (17 significant digits always do),
    under either tie rule. -/
theorem shortest_always_found (tieUp : Bool) (x : F64) (hf : x.isFinite = true)
    (hz : x.isZero = false) : ShortestFound tieUp x := by
  rw [shortestFound_iff_raw]
  unfold shortestRaw
  apply go_found tieUp _ _ _ _ 18 1 16 (by decide)
  apply goPick_isSome
  apply round17 x hf hz
  show shortestK x.ratio.1 x.ratio.2 - Int.ofNat 17 + 1 = shortestK x.ratio.1 x.ratio.2 - 16
  simp only [Int.ofNat_eq_natCast]
  omega

/-- the shortest digits of every finite non-zero double read back as its magnitude -/
theorem shortestDigitsWith_value_all (tieUp : Bool) (x : F64) (hf : x.isFinite = true)
    (hz : x.isZero = false) :
    decVal false (x.shortestDigitsWith tieUp).1 (x.shortestDigitsWith tieUp).2 = x.abs :=
  shortestDigitsWith_value tieUp x (shortest_always_found tieUp x hf hz)

theorem zero_or_found (x : F64) (hf : x.isFinite = true) :
    x.isZero = true ∨ ShortestFound true x := by
  cases hz : x.isZero
  · exact Or.inr (shortest_always_found true x hf hz)
  · exact Or.inl rfl

/-- Rust's `{}` of EVERY finite double reads back as the same double -/
theorem parseDec_toDisplay_all (x : F64) (hf : x.isFinite = true) :
    parseDec (toDisplay x) = some x :=
  parseDec_toDisplay x hf (zero_or_found x hf)


/-! ### concrete instances -/

-- the search succeeds on f64::MAX, the smallest subnormal, 2^-1022, 2^53 (a binade boundary)
example : ShortestFound true (ofNatBits 0x7FEFFFFFFFFFFFFF) :=
  shortest_always_found true _ (by decide) (by decide)
example : ShortestFound false (ofNatBits 1) := shortest_always_found false _ (by decide) (by decide)
example : ShortestFound true (ofNatBits 0x0010000000000000) :=
  shortest_always_found true _ (by decide) (by decide)
example : parseDec (toDisplay (ofNatBits 0x4340000000000000)) = some (ofNatBits 0x4340000000000000) :=
  parseDec_toDisplay_all _ (by decide)
-- `ofRatio_near` below a power of two: 2^53 − 1/4 = (2^55 − 1)/4 is above (2^52 − ¼)·2 and
-- converts to 2^53 although it lies in the binade below
example : ofRatio false (2 ^ 55 - 1) 4 = ofNatBits 0x4340000000000000 := by decide
example : ofRatio false (2 ^ 55 - 1) 4 = ofRatioPack 0 1 (2 ^ 52) :=
  ofRatio_near false (2 ^ 55 - 1) 4 (2 ^ 52) 1 (by decide) (by decide) (by decide) (by decide)
    (fun _ => by decide) (by norm_num [qv]) (by norm_num [qv]) (fun _ => by norm_num [qv])
-- the exponent estimate on the extreme binary exponents
example : kOK (-1074) = true ∧ kOK 1024 = true := by decide +kernel

end Blots.F64

