import Blots.Lemmas.AggLaws
import Blots.Lemmas.ToyOps
import Mathlib.Tactic.Linarith
import Mathlib.Tactic.Ring
import Mathlib.Tactic.Positivity
import Mathlib.Tactic.NormNum
import Mathlib.Tactic.FieldSimp
import Mathlib.Algebra.Order.Ring.Abs
import Mathlib.Algebra.Order.Field.Basic
import Mathlib.Algebra.BigOperators.Group.List.Basic
/-
  THE STANDARD MODEL OF FLOATING-POINT ARITHMETIC as an explicit hypothesis on `NumOps`, and
  the classical forward error bounds of recursive summation / multiplication under it
  (N. Higham, "Accuracy and Stability of Numerical Algorithms", 2nd ed.: model (2.4),
  §3.1 Lemma 3.1, §4.2 (4.4)).

  `NumOps` is an abstract record of float operations: nothing about rounding can be proved
  of it without a hypothesis.  `RoundingModel ops u` is that hypothesis, stated once:

      fl(a op b) = (a op b) · (1 + δ),   |δ| ≤ u,        op ∈ {+, ×, /}

  for finite operands, whenever the computed result is finite (no overflow) and — for `×`
  and `/` only — the exact result did not underflow (`NoUnderflow`: it is zero or at least
  the smallest normal double 2^-1022 in magnitude).  For `+` no underflow condition is
  needed in IEEE-754 arithmetic with gradual underflow: a sum of two doubles that lands in
  the subnormal range is exact (Hauser 1996; Higham §2.8 Problem 2.19), so the model for `+`
  is asked for every finite result.

  The inhabitant meant for the hardware operations (`NumOps.native`) is IEEE-754 binary64
  round-to-nearest with `u = 2^-53`.  That fact is NOT proved here (Lean's `Float` is
  opaque); it is what the harness validates numerically (`harness/src/props/c15.rs` compares
  the built-in results with exact rational sums / products).  `guardedOps` below is a
  concrete inhabitant for `u = 2^-53` built from the correct-rounding specification
  `F64.ofRatio`, so the structure is not vacuous.

  Contents
  * `F64.toRat`                     exact rational value of a finite pattern (the same
                                    definition as `Blots.C20.toRat`);
  * `NoUnderflow`, `RoundingModel`  the hypothesis;
  * `PartialsFinite`, `PartialProductsNoUnderflow`  the range side conditions of a left fold;
  * `foldl_add_error`, `foldl_mul_error`            the two inductions;
  * `sum_error`, `sum_perm_error`, `avg_error`, `prod_error`, `prod_perm_error`
                                    the bounds for the folds of `sum` / `avg` / `prod`;
  * `guardedOps`, `guardedOps_model`                a `NumOps` satisfying the model.
-/
namespace Blots

/-! ### pure rational arithmetic -/

namespace Rounding

/-- `E n = (1+u)^n − 1`, the accumulated relative error of `n` roundings
    (`E n ≤ γₙ = n·u/(1 − n·u)` when `n·u < 1`, Higham Lemma 3.1) -/
def E (u : ℚ) (n : ℕ) : ℚ := (1 + u) ^ n - 1

theorem E_zero (u : ℚ) : E u 0 = 0 := by simp [E]

theorem E_succ (u : ℚ) (n : ℕ) : E u (n + 1) = (1 + u) * E u n + u := by
  unfold E; ring

theorem E_nonneg {u : ℚ} (hu : 0 ≤ u) (n : ℕ) : 0 ≤ E u n := by
  have : (1 : ℚ) ≤ (1 + u) ^ n := one_le_pow₀ (by linarith)
  unfold E; linarith

theorem E_mono_succ {u : ℚ} (hu : 0 ≤ u) (n : ℕ) : E u n ≤ E u (n + 1) := by
  have h := E_nonneg hu n
  rw [E_succ]; nlinarith

/-- Higham Lemma 3.1: `(1+u)^n − 1 ≤ γₙ = n·u / (1 − n·u)` when `n·u < 1` -/
theorem E_le_gamma {u : ℚ} (hu : 0 ≤ u) (n : ℕ) (hn : (n : ℚ) * u < 1) :
    E u n ≤ (n : ℚ) * u / (1 - (n : ℚ) * u) := by
  have key : ∀ m : ℕ, (m : ℚ) * u < 1 → (1 + u) ^ m * (1 - (m : ℚ) * u) ≤ 1 := by
    intro m
    induction m with
    | zero => intro _; simp
    | succ m ih =>
      intro hm
      push_cast at hm ⊢
      have hm' : (m : ℚ) * u < 1 := by nlinarith
      have h1 := ih hm'
      have hp : (0 : ℚ) ≤ (1 + u) ^ m := by positivity
      have h2 : (1 + u) * (1 - ((m : ℚ) + 1) * u) ≤ 1 - (m : ℚ) * u := by nlinarith [sq_nonneg u]
      calc (1 + u) ^ (m + 1) * (1 - ((m : ℚ) + 1) * u)
          = (1 + u) ^ m * ((1 + u) * (1 - ((m : ℚ) + 1) * u)) := by ring
        _ ≤ (1 + u) ^ m * (1 - (m : ℚ) * u) := mul_le_mul_of_nonneg_left h2 hp
        _ ≤ 1 := h1
  have hd : 0 < 1 - (n : ℚ) * u := by linarith
  unfold E
  rw [le_div_iff₀ hd]
  have := key n hn
  nlinarith

/-- one more factor `(1+δ)`, `|δ| ≤ u`, on a factor `θ` with `|θ − 1| ≤ E n` -/
theorem theta_step {u δ θ : ℚ} {n : ℕ} (hu : 0 ≤ u) (hδ : |δ| ≤ u) (hθ : |θ - 1| ≤ E u n) :
    |(1 + δ) * θ - 1| ≤ E u (n + 1) := by
  have h1 : (1 + δ) * θ - 1 = (θ - 1) * (1 + δ) + δ := by ring
  have h2 : |1 + δ| ≤ 1 + u := by
    calc |1 + δ| ≤ |1| + |δ| := abs_add_le _ _
      _ ≤ 1 + u := by rw [abs_one]; linarith
  have hE := E_nonneg hu n
  calc |(1 + δ) * θ - 1| = |(θ - 1) * (1 + δ) + δ| := by rw [h1]
    _ ≤ |(θ - 1) * (1 + δ)| + |δ| := abs_add_le _ _
    _ = |θ - 1| * |1 + δ| + |δ| := by rw [abs_mul]
    _ ≤ E u n * (1 + u) + u := by
        have := mul_le_mul hθ h2 (abs_nonneg _) hE
        linarith
    _ = E u (n + 1) := by rw [E_succ]; ring

end Rounding

/-! ### the exact value of a double -/

namespace F64

/-- exact value of a finite pattern (sign × numerator / denominator of `F64.ratio`); a
    meaningless number for `±inf` / NaN, which is why every statement below carries
    `isFinite` hypotheses -/
def toRat (x : F64) : ℚ :=
  (if x.neg then -1 else 1) * ((x.ratio.1 : ℚ) / (x.ratio.2 : ℚ))

/-- the start value of `Iterator::sum`, `-0.0`, is worth `0` -/
theorem toRat_negZero : negZero.toRat = 0 := by
  unfold toRat
  rw [ratio_subnormal negZero (by decide)]
  have : negZero.frac = 0 := by decide
  simp only [this, Nat.cast_zero, zero_div, mul_zero]

theorem toRat_zero : zero.toRat = 0 := by
  unfold toRat
  rw [ratio_subnormal zero (by decide)]
  have : zero.frac = 0 := by decide
  simp only [this, Nat.cast_zero, zero_div, mul_zero]

/-- the start value of `Iterator::product`, `1.0`, is worth `1` -/
theorem toRat_one : one.toRat = 1 := by
  unfold toRat
  have hE : one.expField = 1023 := by decide
  have hF : one.frac = 0 := by decide
  have hN : one.neg = false := by decide
  rw [ratio_normal_neg one (by rw [hE]; decide) (by rw [hE]; decide), hE, hF, hN]
  norm_num

theorem isFinite_negZero : negZero.isFinite = true := by decide
theorem isFinite_one : one.isFinite = true := by decide

/-- `n as f64` is exact (and finite) for `0 < n < 2^53` -/
theorem toRat_ofNat (k : Nat) (hk0 : k ≠ 0) (hk : k < 2 ^ 53) :
    (ofNat k).isFinite = true ∧ (ofNat k).toRat = (k : ℚ) := by
  obtain ⟨j, m, hj, hm, hm1, hm2, hb⟩ := ofNat_bits k hk0 hk
  have hB : (1075 - j) * 2 ^ 52 + (m - 2 ^ 52) < 2 ^ 64 := by omega
  have hn : (ofNat k).nbits = (1075 - j) * 2 ^ 52 + (m - 2 ^ 52) := by
    rw [hb, nbits_ofNatBits _ hB]
  have hE : (ofNat k).expField = 1075 - j := by unfold expField; rw [hn]; omega
  have hF : (ofNat k).frac = m - 2 ^ 52 := by unfold frac; rw [hn]; omega
  have hneg : (ofNat k).neg = false := by
    unfold neg; rw [hn]
    have : ((1075 - j) * 2 ^ 52 + (m - 2 ^ 52)) / 2 ^ 63 % 2 = 0 := by omega
    rw [this]; rfl
  have hfin : (ofNat k).isFinite = true := by
    unfold isFinite; rw [hE]
    have : ¬ (1075 - j = 2047) := by omega
    simp [this]
  refine ⟨hfin, ?_⟩
  unfold toRat
  rw [hneg]
  simp only [Bool.false_eq_true, if_false, one_mul]
  have e1 : m - 2 ^ 52 + 2 ^ 52 = m := by omega
  by_cases hj0 : j = 0
  · subst hj0
    rw [ratio_normal_nonneg _ (by omega), hE, hF]
    simp only [Nat.sub_zero, Nat.sub_self, Nat.pow_zero, Nat.mul_one] at hm ⊢
    rw [e1, hm]
    simp
  · rw [ratio_normal_neg _ (by omega) (by omega), hE, hF]
    have e2 : 1075 - (1075 - j) = j := by omega
    simp only []
    rw [e1, e2, hm]
    push_cast
    rw [mul_div_assoc, div_self (by positivity), mul_one]

end F64

/-! ### the hypothesis -/

/-- the exact result `q` of an operation did not underflow: it is zero, or at least the
    smallest normal double `2^-1022` in magnitude.  (Below that, doubles are spaced `2^-1074`
    apart ABSOLUTELY and the relative error of rounding is unbounded:
    `2^-1074 × 0.5` rounds to `0`, relative error `1`.) -/
def NoUnderflow (q : ℚ) : Prop := q = 0 ∨ 1 / 2 ^ 1022 ≤ |q|

/-- THE STANDARD MODEL (Higham (2.4)) with unit roundoff `u`, for the operations the
    aggregates use.  Operands finite; computed result finite (no overflow); for `×` and `/`
    the exact result not underflowed.  Then `fl(a op b) = (a op b)(1 + δ)` with `|δ| ≤ u`. -/
structure RoundingModel (ops : NumOps) (u : ℚ) : Prop where
  u_nonneg : 0 ≤ u
  u_lt_one : u < 1
  add : ∀ a b : F64, a.isFinite = true → b.isFinite = true → (ops.add a b).isFinite = true →
    ∃ δ : ℚ, |δ| ≤ u ∧ (ops.add a b).toRat = (a.toRat + b.toRat) * (1 + δ)
  mul : ∀ a b : F64, a.isFinite = true → b.isFinite = true → (ops.mul a b).isFinite = true →
    NoUnderflow (a.toRat * b.toRat) →
    ∃ δ : ℚ, |δ| ≤ u ∧ (ops.mul a b).toRat = (a.toRat * b.toRat) * (1 + δ)
  div : ∀ a b : F64, a.isFinite = true → b.isFinite = true → b.toRat ≠ 0 →
    (ops.div a b).isFinite = true → NoUnderflow (a.toRat / b.toRat) →
    ∃ δ : ℚ, |δ| ≤ u ∧ (ops.div a b).toRat = (a.toRat / b.toRat) * (1 + δ)

/-! ### exact sums / products and the range side conditions of a left fold -/

/-- `Σ xᵢ` in ℚ -/
def exactSum (ns : List F64) : ℚ := (ns.map F64.toRat).sum
/-- `Σ |xᵢ|` in ℚ -/
def exactAbsSum (ns : List F64) : ℚ := (ns.map fun x => |x.toRat|).sum
/-- `Π xᵢ` in ℚ -/
def exactProd (ns : List F64) : ℚ := (ns.map F64.toRat).prod

theorem exactSum_perm {ns ms : List F64} (h : ns.Perm ms) : exactSum ns = exactSum ms :=
  (h.map _).sum_eq
theorem exactAbsSum_perm {ns ms : List F64} (h : ns.Perm ms) : exactAbsSum ns = exactAbsSum ms :=
  (h.map _).sum_eq
theorem exactProd_perm {ns ms : List F64} (h : ns.Perm ms) : exactProd ns = exactProd ms :=
  (h.map _).prod_eq

theorem exactAbsSum_nonneg (ns : List F64) : 0 ≤ exactAbsSum ns := by
  unfold exactAbsSum
  induction ns with
  | nil => simp
  | cons x xs ih => simp only [List.map_cons, List.sum_cons]; have := abs_nonneg x.toRat; linarith

theorem abs_exactSum_le (ns : List F64) : |exactSum ns| ≤ exactAbsSum ns := by
  unfold exactSum exactAbsSum
  induction ns with
  | nil => simp
  | cons x xs ih =>
    simp only [List.map_cons, List.sum_cons]
    exact (abs_add_le _ _).trans (by linarith)

/-- every operand is finite and every partial result `f (… (f (f a x₁) x₂) …) xₖ`,
    `0 ≤ k ≤ n`, of the left fold is finite (nothing overflowed, no NaN) -/
def PartialsFinite (f : F64 → F64 → F64) (a : F64) (ns : List F64) : Prop :=
  (∀ x ∈ ns, x.isFinite = true) ∧ ∀ k, k ≤ ns.length → ((ns.take k).foldl f a).isFinite = true

theorem PartialsFinite.cons {f : F64 → F64 → F64} {a x : F64} {xs : List F64}
    (h : PartialsFinite f a (x :: xs)) :
    a.isFinite = true ∧ x.isFinite = true ∧ (f a x).isFinite = true ∧ PartialsFinite f (f a x) xs := by
  obtain ⟨h1, h2⟩ := h
  refine ⟨by simpa using h2 0 (Nat.zero_le _), h1 x (by simp), by simpa using h2 1 (by simp),
    fun y hy => h1 y (by simp [hy]), fun k hk => ?_⟩
  simpa using h2 (k + 1) (by simpa using hk)

theorem PartialsFinite.start {f : F64 → F64 → F64} {a : F64} {ns : List F64}
    (h : PartialsFinite f a ns) : a.isFinite = true := by
  simpa using h.2 0 (Nat.zero_le _)

theorem PartialsFinite.result {f : F64 → F64 → F64} {a : F64} {ns : List F64}
    (h : PartialsFinite f a ns) : (ns.foldl f a).isFinite = true := by
  simpa using h.2 ns.length (Nat.le_refl _)

/-- no multiplication of the left fold underflows: each exact product
    `(computed partial product) × (next factor)` is zero or at least `2^-1022` in magnitude -/
def PartialProductsNoUnderflow (ops : NumOps) (a : F64) (ns : List F64) : Prop :=
  ∀ k (h : k < ns.length), NoUnderflow (((ns.take k).foldl ops.mul a).toRat * (ns[k]).toRat)

theorem PartialProductsNoUnderflow.cons {ops : NumOps} {a x : F64} {xs : List F64}
    (h : PartialProductsNoUnderflow ops a (x :: xs)) :
    NoUnderflow (a.toRat * x.toRat) ∧ PartialProductsNoUnderflow ops (ops.mul a x) xs := by
  exact ⟨h 0 (by simp), fun k hk => h (k + 1) (by simpa using hk)⟩

/-! ### the two inductions -/

open Rounding in
/-- recursive summation from an arbitrary start value `a` (Higham (4.4) with the crude
    constant): `|fl(a + x₁ + … + xₙ) − (a + Σxᵢ)| ≤ ((1+u)^n − 1)(|a| + Σ|xᵢ|)` -/
theorem foldl_add_error {ops : NumOps} {u : ℚ} (M : RoundingModel ops u) :
    ∀ (ns : List F64) (a : F64), PartialsFinite ops.add a ns →
      |(ns.foldl ops.add a).toRat - (a.toRat + exactSum ns)| ≤
        E u ns.length * (|a.toRat| + exactAbsSum ns) := by
  intro ns
  induction ns with
  | nil => intro a _; simp [exactSum, E_zero]
  | cons x xs ih =>
    intro a h
    obtain ⟨ha, hx, hax, hrest⟩ := h.cons
    obtain ⟨δ, hδ, hfl⟩ := M.add a x ha hx hax
    have IH := ih (ops.add a x) hrest
    have hu := M.u_nonneg
    have hE := E_nonneg hu xs.length
    have hS := exactAbsSum_nonneg xs
    have e1 : exactSum (x :: xs) = x.toRat + exactSum xs := by simp [exactSum]
    have e2 : exactAbsSum (x :: xs) = |x.toRat| + exactAbsSum xs := by simp [exactAbsSum]
    rw [List.foldl_cons, List.length_cons, e1, e2, E_succ]
    set r := (xs.foldl ops.add (ops.add a x)).toRat
    set a' := (ops.add a x).toRat
    have hA : |a.toRat + x.toRat| ≤ |a.toRat| + |x.toRat| := abs_add_le _ _
    have hA0 : 0 ≤ |a.toRat + x.toRat| := abs_nonneg _
    -- the local error and the size of the new partial sum
    have h1 : |a' - (a.toRat + x.toRat)| ≤ u * (|a.toRat| + |x.toRat|) := by
      have : a' - (a.toRat + x.toRat) = (a.toRat + x.toRat) * δ := by rw [hfl]; ring
      rw [this, abs_mul]
      calc |a.toRat + x.toRat| * |δ| ≤ (|a.toRat| + |x.toRat|) * u :=
            mul_le_mul hA hδ (abs_nonneg _) (by linarith [abs_nonneg a.toRat, abs_nonneg x.toRat])
        _ = u * (|a.toRat| + |x.toRat|) := by ring
    have h2 : |a'| ≤ (1 + u) * (|a.toRat| + |x.toRat|) := by
      have h3 : |1 + δ| ≤ 1 + u := by
        calc |1 + δ| ≤ |1| + |δ| := abs_add_le _ _
          _ ≤ 1 + u := by rw [abs_one]; linarith
      rw [hfl, abs_mul]
      calc |a.toRat + x.toRat| * |1 + δ| ≤ (|a.toRat| + |x.toRat|) * (1 + u) :=
            mul_le_mul hA h3 (abs_nonneg _) (by linarith [abs_nonneg a.toRat, abs_nonneg x.toRat])
        _ = (1 + u) * (|a.toRat| + |x.toRat|) := by ring
    have h4 : r - (a.toRat + (x.toRat + exactSum xs)) =
        (r - (a' + exactSum xs)) + (a' - (a.toRat + x.toRat)) := by ring
    rw [h4]
    refine (abs_add_le _ _).trans ?_
    have h5 : E u xs.length * (|a'| + exactAbsSum xs) ≤
        E u xs.length * ((1 + u) * (|a.toRat| + |x.toRat|) + exactAbsSum xs) :=
      mul_le_mul_of_nonneg_left (by linarith) hE
    have h6 : 0 ≤ u * E u xs.length * exactAbsSum xs := by positivity
    have h7 : 0 ≤ u * exactAbsSum xs := by positivity
    nlinarith

open Rounding in
/-- recursive multiplication from an arbitrary start value `a` (Higham Lemma 3.1):
    `fl(a·x₁·…·xₙ) = a·Πxᵢ·θ` with `|θ − 1| ≤ (1+u)^n − 1` -/
theorem foldl_mul_error {ops : NumOps} {u : ℚ} (M : RoundingModel ops u) :
    ∀ (ns : List F64) (a : F64), PartialsFinite ops.mul a ns →
      PartialProductsNoUnderflow ops a ns →
      ∃ θ : ℚ, |θ - 1| ≤ E u ns.length ∧
        (ns.foldl ops.mul a).toRat = a.toRat * exactProd ns * θ := by
  intro ns
  induction ns with
  | nil => intro a _ _; exact ⟨1, by simp [E_zero], by simp [exactProd]⟩
  | cons x xs ih =>
    intro a h hnu
    obtain ⟨ha, hx, hax, hrest⟩ := h.cons
    obtain ⟨hnu0, hnurest⟩ := hnu.cons
    obtain ⟨δ, hδ, hfl⟩ := M.mul a x ha hx hax hnu0
    obtain ⟨θ, hθ, hr⟩ := ih (ops.mul a x) hrest hnurest
    refine ⟨(1 + δ) * θ, theta_step M.u_nonneg hδ hθ, ?_⟩
    have e1 : exactProd (x :: xs) = x.toRat * exactProd xs := by simp [exactProd]
    rw [List.foldl_cons, hr, hfl, e1]
    ring

/-! ### `sum`, `avg`, `prod` as the model computes them -/

open Rounding in
/-- `sum`: the fold from `-0.0` -/
theorem sum_error {ops : NumOps} {u : ℚ} (M : RoundingModel ops u) (ns : List F64)
    (h : PartialsFinite ops.add F64.negZero ns) :
    |(ns.foldl ops.add F64.negZero).toRat - exactSum ns| ≤ E u ns.length * exactAbsSum ns := by
  have := foldl_add_error M ns F64.negZero h
  simpa [F64.toRat_negZero] using this

open Rounding in
/-- two orders of summation of the same numbers -/
theorem sum_perm_error {ops : NumOps} {u : ℚ} (M : RoundingModel ops u) {ns ms : List F64}
    (hp : ns.Perm ms) (h1 : PartialsFinite ops.add F64.negZero ns)
    (h2 : PartialsFinite ops.add F64.negZero ms) :
    |(ns.foldl ops.add F64.negZero).toRat - (ms.foldl ops.add F64.negZero).toRat| ≤
      2 * E u ns.length * exactAbsSum ns := by
  have e1 := sum_error M ns h1
  have e2 := sum_error M ms h2
  rw [← hp.length_eq, ← exactSum_perm hp, ← exactAbsSum_perm hp] at e2
  have : (ns.foldl ops.add F64.negZero).toRat - (ms.foldl ops.add F64.negZero).toRat =
      ((ns.foldl ops.add F64.negZero).toRat - exactSum ns) -
      ((ms.foldl ops.add F64.negZero).toRat - exactSum ns) := by ring
  rw [this]
  refine (abs_sub _ _).trans ?_
  linarith

open Rounding in
/-- `avg`: one more rounding (the division by the count, exact as a double below 2^53) -/
theorem avg_error {ops : NumOps} {u : ℚ} (M : RoundingModel ops u) (ns : List F64)
    (hne : ns ≠ []) (hlen : ns.length < 2 ^ 53)
    (h : PartialsFinite ops.add F64.negZero ns)
    (hfin : (ops.div (ns.foldl ops.add F64.negZero) (F64.ofNat ns.length)).isFinite = true)
    (hnu : NoUnderflow ((ns.foldl ops.add F64.negZero).toRat / (ns.length : ℚ))) :
    |(ops.div (ns.foldl ops.add F64.negZero) (F64.ofNat ns.length)).toRat -
        exactSum ns / (ns.length : ℚ)| ≤
      E u (ns.length + 1) * exactAbsSum ns / (ns.length : ℚ) := by
  have hn0 : ns.length ≠ 0 := fun h0 => hne (List.length_eq_zero_iff.mp h0)
  obtain ⟨hnf, hnr⟩ := F64.toRat_ofNat ns.length hn0 hlen
  have hnq : (0 : ℚ) < (ns.length : ℚ) := by exact_mod_cast Nat.pos_of_ne_zero hn0
  obtain ⟨δ, hδ, hfl⟩ := M.div _ _ h.result hnf (by rw [hnr]; exact ne_of_gt hnq) hfin
    (by rw [hnr]; exact hnu)
  rw [hnr] at hfl
  have es := sum_error M ns h
  have hT := exactAbsSum_nonneg ns
  have hS := abs_exactSum_le ns
  have hu := M.u_nonneg
  have hE := E_nonneg hu ns.length
  set s := (ns.foldl ops.add F64.negZero).toRat
  set S := exactSum ns
  set T := exactAbsSum ns
  set n : ℚ := (ns.length : ℚ)
  rw [hfl, E_succ]
  have h1 : s / n * (1 + δ) - S / n = (S * δ + (s - S) * (1 + δ)) / n := by
    field_simp; ring
  rw [h1, abs_div, abs_of_pos hnq]
  apply div_le_div_of_nonneg_right _ hnq.le
  have h3 : |1 + δ| ≤ 1 + u := by
    calc |1 + δ| ≤ |1| + |δ| := abs_add_le _ _
      _ ≤ 1 + u := by rw [abs_one]; linarith
  calc |S * δ + (s - S) * (1 + δ)| ≤ |S * δ| + |(s - S) * (1 + δ)| := abs_add_le _ _
    _ = |S| * |δ| + |s - S| * |1 + δ| := by rw [abs_mul, abs_mul]
    _ ≤ T * u + (E u ns.length * T) * (1 + u) := by
        have a1 := mul_le_mul hS hδ (abs_nonneg _) hT
        have a2 := mul_le_mul es h3 (abs_nonneg _) (by positivity)
        linarith
    _ = ((1 + u) * E u ns.length + u) * T := by ring

open Rounding in
/-- `prod`: the fold from `1.0`; the error is RELATIVE to the exact product -/
theorem prod_error {ops : NumOps} {u : ℚ} (M : RoundingModel ops u) (ns : List F64)
    (h : PartialsFinite ops.mul F64.one ns) (hnu : PartialProductsNoUnderflow ops F64.one ns) :
    |(ns.foldl ops.mul F64.one).toRat - exactProd ns| ≤ E u ns.length * |exactProd ns| := by
  obtain ⟨θ, hθ, hr⟩ := foldl_mul_error M ns F64.one h hnu
  rw [hr, F64.toRat_one, one_mul]
  have : exactProd ns * θ - exactProd ns = exactProd ns * (θ - 1) := by ring
  rw [this, abs_mul, mul_comm]
  exact mul_le_mul_of_nonneg_right hθ (abs_nonneg _)

open Rounding in
/-- two orders of multiplication of the same numbers -/
theorem prod_perm_error {ops : NumOps} {u : ℚ} (M : RoundingModel ops u) {ns ms : List F64}
    (hp : ns.Perm ms)
    (h1 : PartialsFinite ops.mul F64.one ns) (n1 : PartialProductsNoUnderflow ops F64.one ns)
    (h2 : PartialsFinite ops.mul F64.one ms) (n2 : PartialProductsNoUnderflow ops F64.one ms) :
    |(ns.foldl ops.mul F64.one).toRat - (ms.foldl ops.mul F64.one).toRat| ≤
      2 * E u ns.length * |exactProd ns| := by
  have e1 := prod_error M ns h1 n1
  have e2 := prod_error M ms h2 n2
  rw [← hp.length_eq, ← exactProd_perm hp] at e2
  have : (ns.foldl ops.mul F64.one).toRat - (ms.foldl ops.mul F64.one).toRat =
      ((ns.foldl ops.mul F64.one).toRat - exactProd ns) -
      ((ms.foldl ops.mul F64.one).toRat - exactProd ns) := by ring
  rw [this]
  refine (abs_sub _ _).trans ?_
  linarith

/-! ### an inhabitant: correct rounding by `F64.ofRatio`, guarded

  `F64.ofRatio` is the round-to-nearest-even specification of the model (Model/Num.lean).
  `roundRat q` applies it to an exact rational; `guardedRound q` returns that double when it
  is finite and within relative distance `2^-53` of `q`, and NaN otherwise.  The guard makes
  the proof of `RoundingModel guardedOps (2^-53)` immediate; it only ever fires on overflow
  and on underflowed results (where the relative model is false, see `NoUnderflow`) — that it
  never fires elsewhere is the relative-error theorem of correct rounding, which is not needed
  for an inhabitant and not proved here. -/

/-- the correctly rounded double of an exact rational -/
def roundRat (q : ℚ) : F64 := F64.ofRatio (decide (q < 0)) q.num.natAbs q.den

/-- `|q|` by a comparison (evaluates in the kernel without unfolding the lattice of ℚ) -/
def ratAbs (q : ℚ) : ℚ := if q < 0 then -q else q

theorem ratAbs_eq (q : ℚ) : ratAbs q = |q| := by
  unfold ratAbs
  split
  · next h => rw [abs_of_neg h]
  · next h => rw [abs_of_nonneg (not_lt.mp h)]

/-- the unit roundoff of binary64 -/
def u64 : ℚ := 1 / 2 ^ 53

def guardedRound (q : ℚ) : F64 :=
  if (roundRat q).isFinite = true ∧ ratAbs ((roundRat q).toRat - q) ≤ u64 * ratAbs q
  then roundRat q else F64.nan

theorem guardedRound_spec (q : ℚ) (h : (guardedRound q).isFinite = true) :
    ∃ δ : ℚ, |δ| ≤ u64 ∧ (guardedRound q).toRat = q * (1 + δ) := by
  unfold guardedRound at h ⊢
  split
  · next hc =>
    obtain ⟨_, hb⟩ := hc
    rw [ratAbs_eq, ratAbs_eq] at hb
    by_cases hq : q = 0
    · subst hq
      simp only [abs_zero, mul_zero, sub_zero] at hb
      have : (roundRat 0).toRat = 0 := abs_eq_zero.mp (le_antisymm hb (abs_nonneg _))
      exact ⟨0, by simp [u64], by rw [this]; ring⟩
    · have hq' : 0 < |q| := abs_pos.mpr hq
      refine ⟨((roundRat q).toRat - q) / q, ?_, by field_simp; ring⟩
      rw [abs_div, div_le_iff₀ hq']
      exact hb
  · next hc =>
    rw [if_neg hc] at h
    exact absurd h (by decide)

/-- correct rounding of the exact result on finite operands (NaN otherwise); the remaining
    primitives, which the aggregates `sum` / `avg` / `prod` do not use, are those of `intOps` -/
def guardedOps : NumOps :=
  { intOps with
    add := fun a b =>
      if a.isFinite = true ∧ b.isFinite = true then guardedRound (a.toRat + b.toRat) else F64.nan
    mul := fun a b =>
      if a.isFinite = true ∧ b.isFinite = true then guardedRound (a.toRat * b.toRat) else F64.nan
    div := fun a b =>
      if a.isFinite = true ∧ b.isFinite = true ∧ b.toRat ≠ 0 then guardedRound (a.toRat / b.toRat)
      else F64.nan }

/-- THE HYPOTHESIS IS SATISFIABLE, with the unit roundoff of binary64 -/
theorem guardedOps_model : RoundingModel guardedOps u64 where
  u_nonneg := by unfold u64; positivity
  u_lt_one := by unfold u64; norm_num
  add := fun a b ha hb h => by
    have e : guardedOps.add a b = guardedRound (a.toRat + b.toRat) := by
      show (if a.isFinite = true ∧ b.isFinite = true then _ else _) = _
      rw [if_pos ⟨ha, hb⟩]
    rw [e] at h ⊢
    exact guardedRound_spec _ h
  mul := fun a b ha hb h _ => by
    have e : guardedOps.mul a b = guardedRound (a.toRat * b.toRat) := by
      show (if a.isFinite = true ∧ b.isFinite = true then _ else _) = _
      rw [if_pos ⟨ha, hb⟩]
    rw [e] at h ⊢
    exact guardedRound_spec _ h
  div := fun a b ha hb hb0 h _ => by
    have e : guardedOps.div a b = guardedRound (a.toRat / b.toRat) := by
      show (if a.isFinite = true ∧ b.isFinite = true ∧ b.toRat ≠ 0 then _ else _) = _
      rw [if_pos ⟨ha, hb, hb0⟩]
    rw [e] at h ⊢
    exact guardedRound_spec _ h

/-- concrete doubles for the examples, by bit pattern: `0.1`, `0.2`, `0.3`, the smallest
    subnormal `5e-324 = 2^-1074`, `0.5` and the largest finite double -/
def dbl01 : F64 := F64.ofNatBits 0x3FB999999999999A
def dbl02 : F64 := F64.ofNatBits 0x3FC999999999999A
def dbl03 : F64 := F64.ofNatBits 0x3FD3333333333333
def dblTiny : F64 := F64.ofNatBits 1
def dblHalf : F64 := F64.ofNatBits 0x3FE0000000000000
def dblMax : F64 := F64.ofNatBits 0x7FEFFFFFFFFFFFFF

end Blots
