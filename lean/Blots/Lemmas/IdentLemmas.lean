import Blots.Model.Ident
/-
  Lemmas about the PEG word recognisers of `Blots/Model/Ident.lean` (C10, names).
  The general facts hold for ANY list of keyword literals made of identifier characters;
  the generated table `Gen.grammarReserved` enters only through `reservedLits_identChars`
  and the membership facts of `true`/`false`/`null` (re-established by evaluation whenever
  the table is regenerated).
-/
namespace Blots.Ident

/-! ### shapes -/

/-- first character an ASCII letter or `_`, all others ASCII letters, digits or `_` -/
def identShape : List Char → Bool
  | [] => false
  | c :: cs => isIdentStart c && cs.all isIdentChar

/-- `w` is identifier-shaped: nonempty, starts with an ASCII letter or `_`, and consists of
    ASCII letters, digits and `_` only -/
def IdentShape (w : List Char) : Prop := identShape w = true

instance (w : List Char) : Decidable (IdentShape w) :=
  inferInstanceAs (Decidable (identShape w = true))

def boundary : List Char → Bool
  | [] => true
  | c :: _ => !isIdentChar c

/-- `rest` is empty or starts with a character that is not an identifier character -/
def Boundary (rest : List Char) : Prop := boundary rest = true

instance (r : List Char) : Decidable (Boundary r) :=
  inferInstanceAs (Decidable (boundary r = true))

theorem isIdentStart_isIdentChar {c : Char} (h : isIdentStart c = true) : isIdentChar c = true := by
  simp only [isIdentStart, isIdentChar, Bool.or_eq_true] at *
  cases h with
  | inl h => exact Or.inl (Or.inl h)
  | inr h => exact Or.inr h

theorem IdentShape.all {w : List Char} (h : IdentShape w) : ∀ x ∈ w, isIdentChar x = true := by
  cases w with
  | nil => simp [IdentShape, identShape] at h
  | cons c cs =>
    simp only [IdentShape, identShape, Bool.and_eq_true, List.all_eq_true] at h
    intro x hx
    cases hx with
    | head => exact isIdentStart_isIdentChar h.1
    | tail _ hx => exact h.2 x hx

theorem IdentShape.ne_nil {w : List Char} (h : IdentShape w) : w ≠ [] := by
  intro e; subst e; simp [IdentShape, identShape] at h

/-! ### literals and ordered choice -/

theorem lit_eq_some {s cs r : List Char} : lit s cs = some r ↔ cs = s ++ r := by
  induction s generalizing cs with
  | nil => simp [lit, eq_comm]
  | cons a s ih =>
    cases cs with
    | nil => simp [lit]
    | cons c cs =>
      by_cases h : a = c
      · subst h; simp [lit, ih]
      · simp only [lit, h, if_false, List.cons_append, List.cons.injEq]
        constructor
        · intro h'; cases h'
        · intro h'; exact absurd h'.1.symm h

theorem lit_append (s r : List Char) : lit s (s ++ r) = some r := lit_eq_some.mpr rfl

theorem firstLit_some {L : List (List Char)} {cs s r : List Char}
    (h : firstLit L cs = some (s, r)) : s ∈ L ∧ cs = s ++ r := by
  induction L with
  | nil => simp [firstLit] at h
  | cons a L ih =>
    simp only [firstLit] at h
    cases hl : lit a cs with
    | some r' =>
      rw [hl] at h
      simp only [Option.some.injEq, Prod.mk.injEq] at h
      obtain ⟨rfl, rfl⟩ := h
      exact ⟨List.mem_cons_self, lit_eq_some.mp hl⟩
    | none =>
      rw [hl] at h
      exact ⟨List.mem_cons_of_mem _ (ih h).1, (ih h).2⟩

/-! ### greedy repetition -/

theorem dropWhile_append_of_boundary (p : Char → Bool) (u rest : List Char)
    (h : ∀ c r, rest = c :: r → p c = false) :
    (u ++ rest).dropWhile p = u.dropWhile p ++ rest := by
  induction u with
  | nil =>
    cases rest with
    | nil => rfl
    | cons c r => simp [List.dropWhile, h c r rfl]
  | cons a u ih =>
    by_cases ha : p a = true
    · simp [List.dropWhile, ha, ih]
    · simp [List.dropWhile, ha]

theorem boundary_class {rest : List Char} (hb : Boundary rest) (p : Char → Bool)
    (hp : ∀ c, p c = true → isIdentChar c = true) : ∀ c r, rest = c :: r → p c = false := by
  intro c r e
  subst e
  simp only [Boundary, boundary, Bool.not_eq_true'] at hb
  cases hpc : p c with
  | false => rfl
  | true => rw [hp c hpc] at hb; cases hb

theorem alpha_identChar (c : Char) (h : isAlpha c = true) : isIdentChar c = true := by
  simp [isIdentChar, h]
theorem digit_identChar (c : Char) (h : isDigit c = true) : isIdentChar c = true := by
  simp [isIdentChar, h]
theorem underscore_identChar (c : Char) (h : isUnderscore c = true) : isIdentChar c = true := by
  simp [isIdentChar, h]

theorem dropWhile_all {p q : Char → Bool} {u : List Char} (h : ∀ x ∈ u, q x = true) :
    ∀ x ∈ u.dropWhile p, q x = true :=
  fun x hx => h x ((List.dropWhile_sublist p).subset hx)

theorem dropWhile_length_le (p : Char → Bool) (u : List Char) : (u.dropWhile p).length ≤ u.length :=
  (List.dropWhile_sublist p).length_le

/-- one `identifier_rest` step inside a run of identifier characters: it succeeds, stays
    inside the run and strictly shortens it -/
theorem identRest_run {c : Char} {u rest : List Char} (hc : isIdentChar c = true)
    (hu : ∀ x ∈ u, isIdentChar x = true) (hb : Boundary rest) :
    ∃ u', (∀ x ∈ u', isIdentChar x = true) ∧ u'.length ≤ u.length ∧
      identRest (c :: (u ++ rest)) = some (u' ++ rest) := by
  by_cases ha : isAlpha c = true
  · refine ⟨u.dropWhile isAlpha, dropWhile_all hu, dropWhile_length_le _ _, ?_⟩
    simp [identRest, orElse, plus, ha,
      dropWhile_append_of_boundary isAlpha u rest (boundary_class hb _ alpha_identChar)]
  · by_cases hd : isDigit c = true
    · refine ⟨u.dropWhile isDigit, dropWhile_all hu, dropWhile_length_le _ _, ?_⟩
      simp [identRest, orElse, plus, ha, hd,
        dropWhile_append_of_boundary isDigit u rest (boundary_class hb _ digit_identChar)]
    · have hus : isUnderscore c = true := by
        simp only [isIdentChar, Bool.or_eq_true] at hc
        rcases hc with (h | h) | h
        · exact absurd h ha
        · exact absurd h hd
        · exact h
      refine ⟨u.dropWhile isUnderscore, dropWhile_all hu, dropWhile_length_le _ _, ?_⟩
      simp [identRest, orElse, plus, ha, hd, hus,
        dropWhile_append_of_boundary isUnderscore u rest (boundary_class hb _ underscore_identChar)]

/-- `identifier_rest` fails at a boundary -/
theorem identRest_boundary {rest : List Char} (hb : Boundary rest) : identRest rest = none := by
  cases rest with
  | nil => rfl
  | cons c r =>
    simp only [Boundary, boundary, Bool.not_eq_true', isIdentChar, Bool.or_eq_false_iff] at hb
    simp [identRest, orElse, plus, hb.1.1, hb.1.2, hb.2]

/-- `identifier_rest` succeeds in front of an identifier character -/
theorem identRest_isSome {c : Char} {r : List Char} (hc : isIdentChar c = true) :
    (identRest (c :: r)).isNone = false := by
  by_cases ha : isAlpha c = true
  · simp [identRest, orElse, plus, ha]
  · by_cases hd : isDigit c = true
    · simp [identRest, orElse, plus, ha, hd]
    · have hus : isUnderscore c = true := by
        simp only [isIdentChar, Bool.or_eq_true] at hc
        rcases hc with (h | h) | h
        · exact absurd h ha
        · exact absurd h hd
        · exact h
      simp [identRest, orElse, plus, ha, hd, hus]

/-- maximal munch of `identifier_rest*`: a run of identifier characters in front of a
    boundary is consumed entirely, whatever the fuel above its length -/
theorem star_identRest_run (n : Nat) (u rest : List Char) (hn : u.length < n)
    (hu : ∀ x ∈ u, isIdentChar x = true) (hb : Boundary rest) :
    star identRest n (u ++ rest) = rest := by
  induction n generalizing u with
  | zero => exact absurd hn (Nat.not_lt_zero _)
  | succ m ih =>
    cases u with
    | nil => simp [star, identRest_boundary hb]
    | cons c u1 =>
      obtain ⟨u', hu', hlen, h⟩ := identRest_run (c := c) (u := u1) (rest := rest)
        (hu c List.mem_cons_self) (fun x hx => hu x (List.mem_cons_of_mem _ hx)) hb
      simp only [List.cons_append, star, h]
      apply ih u' _ hu'
      simp only [List.length_cons] at hn
      omega

/-- `(ASCII_ALPHA | "_")+ ~ identifier_rest*` consumes exactly an identifier-shaped word in
    front of a boundary -/
theorem nameBody_run {w rest : List Char} (hw : IdentShape w) (hb : Boundary rest) :
    nameBody (w ++ rest) = some rest := by
  cases w with
  | nil => exact absurd rfl hw.ne_nil
  | cons c cs =>
    have hall := hw.all
    simp only [IdentShape, identShape, Bool.and_eq_true] at hw
    have hd := dropWhile_append_of_boundary isIdentStart cs rest
      (boundary_class hb _ (fun c h => isIdentStart_isIdentChar h))
    simp only [nameBody, List.cons_append, plus, hw.1, if_true, hd]
    congr 1
    apply star_identRest_run
    · simp only [List.length_append]; omega
    · exact dropWhile_all (fun x hx => hall x (List.mem_cons_of_mem _ hx))
    · exact hb

/-- a committed keyword choice followed by `!identifier_rest` fails on every word of
    identifier characters that is not itself one of the keywords -/
theorem keyword_none {L : List (List Char)} {w rest : List Char}
    (hL : ∀ s ∈ L, ∀ x ∈ s, isIdentChar x = true) (hw : ∀ x ∈ w, isIdentChar x = true)
    (hnot : w ∉ L) (hb : Boundary rest) : keyword L (w ++ rest) = none := by
  unfold keyword
  cases hf : firstLit L (w ++ rest) with
  | none => rfl
  | some sr =>
    obtain ⟨s, r⟩ := sr
    obtain ⟨hs, he⟩ := firstLit_some hf
    have : (identRest r).isNone = false := by
      rcases List.append_eq_append_iff.mp he with ⟨a', hsa, hra⟩ | ⟨c', hwc, hrc⟩
      · -- the keyword reaches beyond the word: its next character would start `rest`
        cases a' with
        | nil => simp only [List.append_nil] at hsa; exact absurd (hsa ▸ hs) hnot
        | cons x a' =>
          exfalso
          have hx : isIdentChar x = true := hL s hs x (by simp [hsa])
          have := boundary_class hb isIdentChar (fun _ h => h) x (a' ++ r) (by simpa using hra)
          rw [hx] at this; cases this
      · cases c' with
        | nil => simp only [List.append_nil] at hwc; exact absurd (hwc ▸ hs) hnot
        | cons x c' =>
          subst hrc
          exact identRest_isSome (hw x (by simp [hwc]))
    simp [this]

/-- a keyword that IS the whole word (in front of a boundary) is recognised as the first
    literal that matches -/
theorem keyword_isSome_of_firstLit {L : List (List Char)} {cs s r : List Char}
    (hf : firstLit L cs = some (s, r)) (hb : Boundary r) : keyword L cs = some (s, r) := by
  simp [keyword, hf, identRest_boundary hb]

/-! ### the generated table -/

theorem reservedLits_identChars : ∀ s ∈ reservedLits, ∀ x ∈ s, isIdentChar x = true := by
  have h : (reservedLits.all fun s => s.all isIdentChar) = true := by decide +kernel
  simpa [List.all_eq_true] using h

theorem mem_reservedLits {w : List Char} : w ∈ reservedLits ↔ String.ofList w ∈ Gen.grammarReserved := by
  simp only [reservedLits, List.mem_map]
  constructor
  · rintro ⟨s, hs, rfl⟩; simpa [String.ofList_toList] using hs
  · intro h; exact ⟨_, h, String.toList_ofList⟩

theorem literal_lits_reserved :
    trueLit ∈ reservedLits ∧ falseLit ∈ reservedLits ∧ nullLit ∈ reservedLits := by decide +kernel

theorem IdentShape.append {w t : List Char} (hw : IdentShape w)
    (ht : ∀ x ∈ t, isIdentChar x = true) : IdentShape (w ++ t) := by
  cases w with
  | nil => exact absurd rfl hw.ne_nil
  | cons c cs =>
    simp only [IdentShape, identShape, Bool.and_eq_true, List.all_eq_true, List.cons_append,
      List.mem_append] at *
    exact ⟨hw.1, fun x hx => hx.elim (hw.2 x) (ht x)⟩

theorem reserved_identShape : ∀ r ∈ Gen.grammarReserved, IdentShape r.toList := by
  decide +kernel

/-! ### identifier, input_reference, term -/

theorem identifier_run {w rest : List Char} (hw : IdentShape w) (hnot : w ∉ reservedLits)
    (hb : Boundary rest) : identifier (w ++ rest) = some rest := by
  simp [identifier, keyword_none reservedLits_identChars hw.all hnot hb, nameBody_run hw hb]

theorem inputReference_run {w rest : List Char} (hw : IdentShape w) (hb : Boundary rest) :
    inputReference ('#' :: (w ++ rest)) = some rest := by
  simp [inputReference, lit, nameBody_run hw hb]

theorem boolRule_none {w rest : List Char} (hw : IdentShape w) (hnot : w ∉ reservedLits)
    (hb : Boundary rest) : boolRule (w ++ rest) = none := by
  have hk : keyword [trueLit, falseLit] (w ++ rest) = none := by
    apply keyword_none _ hw.all _ hb
    · intro s hs
      apply reservedLits_identChars
      rcases List.mem_cons.mp hs with rfl | hs
      · exact literal_lits_reserved.1
      · rcases List.mem_cons.mp hs with rfl | hs
        · exact literal_lits_reserved.2.1
        · cases hs
    · intro hm
      rcases List.mem_cons.mp hm with rfl | hm
      · exact hnot literal_lits_reserved.1
      · rcases List.mem_cons.mp hm with rfl | hm
        · exact hnot literal_lits_reserved.2.1
        · cases hm
  simp [boolRule, hk]

theorem nullRule_none {w rest : List Char} (hw : IdentShape w) (hnot : w ∉ reservedLits)
    (hb : Boundary rest) : nullRule (w ++ rest) = none := by
  have hk : keyword [nullLit] (w ++ rest) = none := by
    apply keyword_none _ hw.all _ hb
    · intro s hs
      apply reservedLits_identChars
      rcases List.mem_cons.mp hs with rfl | hs
      · exact literal_lits_reserved.2.2
      · cases hs
    · intro hm
      rcases List.mem_cons.mp hm with rfl | hm
      · exact hnot literal_lits_reserved.2.2
      · cases hm
  simp [nullRule, hk]

theorem inputReference_none_of_identShape {w rest : List Char} (hw : IdentShape w) :
    inputReference (w ++ rest) = none := by
  cases w with
  | nil => exact absurd rfl hw.ne_nil
  | cons c cs =>
    simp only [IdentShape, identShape, Bool.and_eq_true] at hw
    have hc : ¬ ('#' = c) := by
      intro e; subst e; exact absurd hw.1 (by decide)
    simp [inputReference, lit, hc]

theorem termStart_run {w rest : List Char} (hw : IdentShape w) (hnot : w ∉ reservedLits)
    (hb : Boundary rest) : termStart (w ++ rest) = some (.ident, rest) := by
  simp [termStart, boolRule_none hw hnot hb, nullRule_none hw hnot hb,
    inputReference_none_of_identShape hw, identifier_run hw hnot hb]

theorem termStart_input_run {w rest : List Char} (hw : IdentShape w) (hb : Boundary rest) :
    termStart ('#' :: (w ++ rest)) = some (.input, rest) := by
  have h1 : boolRule ('#' :: (w ++ rest)) = none := by
    simp [boolRule, keyword, firstLit, trueLit, falseLit, lit]
  have h2 : nullRule ('#' :: (w ++ rest)) = none := by
    simp [nullRule, keyword, firstLit, nullLit, lit]
  simp [termStart, h1, h2, inputReference_run hw hb]

end Blots.Ident
