import Blots.Lemmas.Separators
import Blots.Lemmas.DisplayExact
import Blots.Lemmas.DisplayRounding
import Blots.Lemmas.Shortest17
/-
  The text-level step of the `fraction` path of `format_display_number` (C20):

  * `roundHalfEven_bounds/_rat`  the rounding inside `F64.toFixed` is within ½ of the quotient;
  * `toFixed_toList`, `toFixed_shape`  `{:.dp}` of a finite double is
        sign ++ ip ++ (dp = 0 ? "" : "." ++ fp),  ip non-empty digits without leading zero,
        fp exactly dp digits, digitsVal (ip ++ fp) = roundHalfEven (num·10^dp) den;
  * `fixed_rendering`  trimming trailing zeros and grouping the integer part give a well-formed
        numeral whose value is `m/10^dp`, within `½/10^dp` of the double.
-/
namespace Blots.Display

open Blots Blots.NumSpec

/-! ### the rounding step -/

theorem roundHalfEven_bounds (N D : Nat) (hD : 0 < D) :
    2 * (D * F64.roundHalfEven N D) ≤ 2 * N + D ∧
      2 * N ≤ 2 * (D * F64.roundHalfEven N D) + D := by
  have h1 := Nat.div_add_mod N D
  have h2 := Nat.mod_lt N hD
  unfold F64.roundHalfEven
  simp only
  split
  · next h =>
    simp only [Bool.or_eq_true, decide_eq_true_eq, Bool.and_eq_true] at h
    rw [Nat.mul_succ]
    generalize D * (N / D) = p at *
    omega
  · next h =>
    simp only [Bool.or_eq_true, decide_eq_true_eq, Bool.and_eq_true, not_or, not_and] at h
    generalize D * (N / D) = p at *
    omega

theorem roundHalfEven_rat (n d P : Nat) (hd : 0 < d) (hP : 0 < P) :
    |((F64.roundHalfEven (n * P) d : Nat) : ℚ) / (P : ℚ) - (n : ℚ) / (d : ℚ)| ≤ 1 / 2 / (P : ℚ) := by
  obtain ⟨h1, h2⟩ := roundHalfEven_bounds (n * P) d hd
  generalize F64.roundHalfEven (n * P) d = S at *
  have h1' : (2 : ℚ) * (d * S) ≤ 2 * (n * P) + d := by exact_mod_cast h1
  have h2' : (2 : ℚ) * (n * P) ≤ 2 * (d * S) + d := by exact_mod_cast h2
  have hd' : (0 : ℚ) < d := by exact_mod_cast hd
  have hP' : (0 : ℚ) < P := by exact_mod_cast hP
  have key : (S : ℚ) / P - (n : ℚ) / d = (d * S - n * P) / (d * P) := by
    field_simp
  have ha : |(d : ℚ) * S - n * P| ≤ d / 2 := by
    rw [abs_le]; constructor <;> linarith
  rw [key, abs_div, abs_of_pos (mul_pos hd' hP')]
  calc _ ≤ ((d : ℚ) / 2) / (d * P) :=
        div_le_div_of_nonneg_right ha (le_of_lt (mul_pos hd' hP'))
    _ = 1 / 2 / P := by field_simp

/-! ### the shape of `{:.dp}` -/

/-- zero padding of the digit string to at least `dp + 1` digits -/
def padDigits (dp : Nat) (nd : List Char) : List Char :=
  if nd.length ≤ dp then List.replicate (dp + 1 - nd.length) '0' ++ nd else nd

theorem toFixed_toList (x : F64) (hf : x.isFinite = true) (dp : Nat) :
    (F64.toFixed x dp).toList = (if x.neg then ['-'] else []) ++
      (if dp = 0 then
        padDigits dp (F64.natDigits (F64.roundHalfEven (x.ratio.1 * 10 ^ dp) x.ratio.2)).toList
       else
        (padDigits dp (F64.natDigits (F64.roundHalfEven (x.ratio.1 * 10 ^ dp) x.ratio.2)).toList).take
          ((padDigits dp (F64.natDigits (F64.roundHalfEven (x.ratio.1 * 10 ^ dp) x.ratio.2)).toList).length - dp)
        ++ '.' ::
        (padDigits dp (F64.natDigits (F64.roundHalfEven (x.ratio.1 * 10 ^ dp) x.ratio.2)).toList).drop
          ((padDigits dp (F64.natDigits (F64.roundHalfEven (x.ratio.1 * 10 ^ dp) x.ratio.2)).toList).length - dp)) := by
  unfold F64.toFixed padDigits
  simp only [F64.isNaN_of_isFinite x hf, F64.isInf_of_isFinite x hf, Bool.false_eq_true, if_false]
  generalize F64.natDigits (F64.roundHalfEven (x.ratio.1 * 10 ^ dp) x.ratio.2) = s
  have hlen : s.length = s.toList.length := String.length_toList.symm
  simp only [hlen]
  by_cases hl : s.toList.length ≤ dp
  · simp only [if_pos hl]
    cases x.neg <;> by_cases h0 : dp = 0 <;>
      simp [h0, F64.zeros, String.toList_append, hlen]
  · simp only [if_neg hl]
    cases x.neg <;> by_cases h0 : dp = 0 <;>
      simp [h0, String.toList_append, hlen]

theorem noLeadingZero_of_head_ne (l : List Char) (h : l.head? ≠ some '0') :
    noLeadingZero l = true := by
  match l, h with
  | [], _ => rfl
  | [a], _ => simp [noLeadingZero]
  | a :: b :: t, h =>
    have ha : a ≠ '0' := by simpa using h
    unfold noLeadingZero
    split
    · next heq => simp only [List.cons.injEq] at heq; exact absurd heq.1 ha
    · rfl

theorem padDigits_spec (dp S : Nat) :
    (∀ c ∈ padDigits dp (F64.natDigits S).toList, isDigit c = true) ∧
    dp + 1 ≤ (padDigits dp (F64.natDigits S).toList).length ∧
    digitsVal (padDigits dp (F64.natDigits S).toList) = S ∧
    noLeadingZero ((padDigits dp (F64.natDigits S).toList).take
      ((padDigits dp (F64.natDigits S).toList).length - dp)) = true := by
  have hdig := natDigits_isDigit S
  have hne := natDigits_ne_nil S
  have hval : digitsVal (F64.natDigits S).toList = S := F64.digitsVal_natDigits S
  have hpos : 0 < (F64.natDigits S).toList.length := List.length_pos_iff.2 hne
  unfold padDigits
  by_cases hl : (F64.natDigits S).toList.length ≤ dp
  · simp only [if_pos hl]
    refine ⟨?_, ?_, ?_, ?_⟩
    · intro c hc
      rcases List.mem_append.1 hc with h | h
      · rw [(List.mem_replicate.1 h).2]; decide
      · exact hdig c h
    · rw [List.length_append, List.length_replicate]; omega
    · rw [digitsVal_append, digitsVal_replicate_zero, hval]; omega
    · have hlen : (List.replicate (dp + 1 - (F64.natDigits S).toList.length) '0' ++
          (F64.natDigits S).toList).length - dp = 1 := by
        rw [List.length_append, List.length_replicate]; omega
      rw [hlen]
      obtain ⟨j, hj⟩ : ∃ j, dp + 1 - (F64.natDigits S).toList.length = j + 1 := ⟨dp - (F64.natDigits S).toList.length, by omega⟩
      rw [hj, List.replicate_succ]
      rfl
  · simp only [if_neg hl]
    refine ⟨hdig, by omega, hval, ?_⟩
    by_cases hS : S = 0
    · subst hS
      have h0 : (F64.natDigits 0).toList = ['0'] := by decide
      rw [h0] at hl ⊢
      have : dp = 0 := by simp at hl; omega
      subst this
      rfl
    · have hh := toDigits_head_ne_zero S (Nat.pos_of_ne_zero hS)
      rw [← F64.natDigits_toList] at hh
      apply noLeadingZero_of_head_ne
      generalize (F64.natDigits S).toList = l at *
      cases l with
      | nil => exact absurd rfl hne
      | cons a t =>
        have : (a :: t).length - dp = ((a :: t).length - dp - 1) + 1 := by
          simp only [List.length_cons] at hl ⊢; omega
        rw [this, List.take_succ_cons]
        simpa using hh

/-- `{:.dp}` of a finite double: sign, integer digits, and (for `dp > 0`) a point and exactly
    `dp` fraction digits; all the digits together are the correctly rounded `|x|·10^dp` -/
theorem toFixed_shape (x : F64) (hf : x.isFinite = true) (dp : Nat) :
    ∃ ip fp : List Char,
      (F64.toFixed x dp).toList =
        (if x.neg then ['-'] else []) ++ ip ++ (if dp = 0 then [] else '.' :: fp) ∧
      ip ≠ [] ∧ (∀ c ∈ ip, isDigit c = true) ∧ (∀ c ∈ fp, isDigit c = true) ∧ fp.length = dp ∧
      noLeadingZero ip = true ∧
      digitsVal (ip ++ fp) = F64.roundHalfEven (x.ratio.1 * 10 ^ dp) x.ratio.2 := by
  obtain ⟨h1, h2, h3, h4⟩ :=
    padDigits_spec dp (F64.roundHalfEven (x.ratio.1 * 10 ^ dp) x.ratio.2)
  have ht := toFixed_toList x hf dp
  generalize padDigits dp
    (F64.natDigits (F64.roundHalfEven (x.ratio.1 * 10 ^ dp) x.ratio.2)).toList = pd at *
  refine ⟨pd.take (pd.length - dp), pd.drop (pd.length - dp), ?_, ?_, ?_, ?_, ?_, h4, ?_⟩
  · rw [ht, List.append_assoc]
    congr 1
    by_cases h0 : dp = 0
    · subst h0; simp
    · simp only [if_neg h0]
  · intro h
    have := congrArg List.length h
    rw [List.length_take] at this
    simp at this; omega
  · intro c hc; exact h1 c (List.mem_of_mem_take hc)
  · intro c hc; exact h1 c (List.mem_of_mem_drop hc)
  · rw [List.length_drop]; omega
  · rw [List.take_append_drop]; exact h3

/-! ### trimming and grouping -/

/-- the trailing-zero trim and the grouping applied to `{:.dp}` of a finite double: a
    well-formed numeral (sign, grouped integer digits without leading zero, optional
    fraction digits) whose value is `m/10^dp`, `m` the correctly rounded `x·10^dp` -/
theorem fixed_rendering (x : F64) (hf : x.isFinite = true) (dp : Nat) :
    ∃ (neg : Bool) (ip fp : List Char) (m : Int),
      addThousandSeparators (trimFraction (F64.toFixed x dp).toList) =
        (if neg then ['-'] else []) ++ ip ++ (if fp = [] then [] else '.' :: fp) ∧
      isGrouped ip = true ∧ noLeadingZero ip = true ∧ (∀ c ∈ fp, isDigit c = true) ∧
      (if neg then -1 else 1) * ((digitsVal (stripCommas ip ++ fp) : ℚ) / (10 : ℚ) ^ fp.length) =
        (m : ℚ) / (10 : ℚ) ^ dp ∧
      |(m : ℚ) / (10 : ℚ) ^ dp - x.toRat| ≤ 1 / 2 / (10 : ℚ) ^ dp := by
  obtain ⟨ip0, fp0, htext, hne, hip, hfp, hlen, hnlz, hval⟩ := toFixed_shape x hf dp
  have hdot_ip : ∀ c ∈ ip0, c ≠ '.' := fun c hc he => absurd (hip c hc) (by rw [he]; decide)
  have hdot_fp : '.' ∉ fp0 := not_dot_of_isDigit fp0 hfp
  obtain ⟨n, hn⟩ := trimEnd_replicate '0' fp0
  have hfp' : ∀ c ∈ trimEnd '0' fp0, isDigit c = true :=
    fun c hc => hfp c (mem_of_mem_trimEnd '0' fp0 c hc)
  -- the trimmed text
  have htrim : trimFraction (F64.toFixed x dp).toList =
      (if x.neg then ['-'] else []) ++ ip0 ++
        (if trimEnd '0' fp0 = [] then [] else '.' :: trimEnd '0' fp0) := by
    rw [htext]
    by_cases h0 : dp = 0
    · have hfp0 : fp0 = [] := List.eq_nil_of_length_eq_zero (by omega)
      rw [if_pos h0, hfp0, trimEnd_nil, if_pos rfl]
      apply trimFraction_no_dot
      intro hm
      rw [List.append_nil, List.mem_append] at hm
      rcases hm with hm | hm
      · cases hx : x.neg <;> simp [hx] at hm
      · exact hdot_ip _ hm rfl
    · rw [if_neg h0, trimFraction_of_dot _ (by simp)]
      have hsig : '.' ∉ (if x.neg then ['-'] else []) ++ ip0 := by
        intro hm
        rcases List.mem_append.1 hm with hm | hm
        · cases hx : x.neg <;> simp [hx] at hm
        · exact hdot_ip _ hm rfl
      rw [trim2_dot _ fp0 hsig hdot_fp]
      by_cases he : trimEnd '0' fp0 = []
      · rw [if_pos he, if_pos he, List.append_nil]
      · rw [if_neg he, if_neg he]
  have hrest : (if trimEnd '0' fp0 = [] then [] else '.' :: trimEnd '0' fp0) = [] ∨
      (if trimEnd '0' fp0 = [] then [] else '.' :: trimEnd '0' fp0).head? = some '.' := by
    by_cases he : trimEnd '0' fp0 = []
    · left; rw [if_pos he]
    · right; rw [if_neg he]; rfl
  have hhead : ip0.head? ≠ some '-' := by
    intro hh
    have := hip '-' (List.mem_of_mem_head? hh)
    exact absurd this (by decide)
  have hsep : addThousandSeparators (trimFraction (F64.toFixed x dp).toList) =
      (if x.neg then ['-'] else []) ++ withCommas ip0 ++
        (if trimEnd '0' fp0 = [] then [] else '.' :: trimEnd '0' fp0) := by
    rw [htrim]
    cases x.neg with
    | false =>
      simp only [Bool.false_eq_true, if_false, List.nil_append]
      exact addThousandSeparators_unsigned ip0 _ hdot_ip hhead hrest
    | true =>
      simp only [if_true, List.singleton_append]
      exact addThousandSeparators_signed ip0 _ hdot_ip hrest
  have hden_pos : 0 < x.ratio.2 := S17.ratio_snd_pos x
  have hS : digitsVal (ip0 ++ trimEnd '0' fp0) * 10 ^ n =
      F64.roundHalfEven (x.ratio.1 * 10 ^ dp) x.ratio.2 := by
    rw [← hval, ← digitsVal_append_zeros, List.append_assoc, ← hn]
  have hdp : dp = (trimEnd '0' fp0).length + n := by
    have := congrArg List.length hn
    rw [List.length_append, List.length_replicate] at this
    omega
  have hround := roundHalfEven_rat x.ratio.1 x.ratio.2 (10 ^ dp) hden_pos (Nat.pow_pos (by decide))
  rw [← hS] at hround
  generalize trimEnd '0' fp0 = fp' at *
  refine ⟨x.neg, withCommas ip0, fp',
    (if x.neg then -1 else 1) * ((digitsVal (ip0 ++ fp') * 10 ^ n : Nat) : Int), hsep,
    withCommas_grouped ip0 hne hip, withCommas_noLeadingZero ip0 hnlz, hfp', ?_, ?_⟩
  · rw [withCommas_strip ip0 (not_comma_of_isDigit ip0 hip), hdp, pow_add]
    have h10 : (10 : ℚ) ^ n ≠ 0 := pow_ne_zero _ (by norm_num)
    have h10' : (10 : ℚ) ^ fp'.length ≠ 0 := pow_ne_zero _ (by norm_num)
    cases x.neg <;> (push_cast; field_simp)
  · unfold F64.toRat
    have hcast : (((10 : Nat) ^ dp : Nat) : ℚ) = (10 : ℚ) ^ dp := by push_cast; rfl
    rw [hcast] at hround
    cases x.neg with
    | false =>
      simp only [Bool.false_eq_true, if_false, one_mul, Int.cast_natCast]
      exact hround
    | true =>
      simp only [if_true, Int.cast_mul, Int.cast_neg, Int.cast_one, Int.cast_natCast]
      rw [show (-1 * ((digitsVal (ip0 ++ fp') * 10 ^ n : Nat) : ℚ)) / (10 : ℚ) ^ dp -
          -1 * ((x.ratio.1 : ℚ) / (x.ratio.2 : ℚ)) =
          -(((digitsVal (ip0 ++ fp') * 10 ^ n : Nat) : ℚ) / (10 : ℚ) ^ dp -
            (x.ratio.1 : ℚ) / (x.ratio.2 : ℚ)) by ring, abs_neg]
      exact hround

end Blots.Display
