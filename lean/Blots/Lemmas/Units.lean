import Blots.Model.Units
/-
  Helper lemmas for C17 (unit table): specifications of the small list functions of
  `Model/Units.lean`, the characterisation of `resolveIn`, the certificate lemmas that turn
  a whole-table Boolean check into a ∀-statement, the structure of `convert`, and the
  algebra of conversions over ℚ.
-/
namespace Blots.Units
open Blots Blots.Gen

/-! ### code lists -/

theorem codesEq_iff (a b : List Nat) : codesEq a b = true ↔ a = b := by
  induction a generalizing b with
  | nil => cases b <;> simp [codesEq]
  | cons x xs ih =>
    cases b with
    | nil => simp [codesEq]
    | cons y ys => simp [codesEq, ih]

theorem isPrefixCodes_iff (p s rest : List Nat) : isPrefixCodes p s = some rest ↔ s = p ++ rest := by
  induction p generalizing s with
  | nil => simp [isPrefixCodes, eq_comm]
  | cons x xs ih =>
    cases s with
    | nil => simp [isPrefixCodes]
    | cons y ys =>
      simp only [isPrefixCodes, List.cons_append, List.cons.injEq]
      by_cases h : x = y
      · subst h; simp [ih]
      · have : Nat.beq x y = false := by
          cases hb : Nat.beq x y with
          | false => rfl
          | true => exact absurd (Nat.eq_of_beq_eq_true hb) h
        simp [this, Ne.symm h]

theorem matchesExact_iff (u : UnitRow) (q : List Nat) : matchesExact u q = true ↔ q ∈ u.ids := by
  simp only [matchesExact, List.any_eq_true, codesEq_iff]
  constructor
  · rintro ⟨a, ha, rfl⟩; exact ha
  · intro h; exact ⟨q, h, rfl⟩

theorem matchesCase_iff (u : UnitRow) (ql : List Nat) :
    matchesCase u ql = true ↔ ∃ a ∈ u.ids, lowerCodes a = ql := by
  simp only [matchesCase, List.any_eq_true, codesEq_iff]

/-! ### `indicesFrom` -/

theorem mem_indicesFrom (p : UnitRow → Bool) (s : Nat) (us : List UnitRow) (x : Nat) :
    x ∈ indicesFrom p s us ↔ ∃ k u, x = s + k ∧ us[k]? = some u ∧ p u = true := by
  induction us generalizing s with
  | nil => simp [indicesFrom]
  | cons v rest ih =>
    simp only [indicesFrom]
    constructor
    · intro h
      by_cases hp : p v = true
      · simp only [hp, if_true, List.mem_cons] at h
        rcases h with rfl | h
        · exact ⟨0, v, rfl, rfl, hp⟩
        · obtain ⟨k, u, hx, hk, hu⟩ := (ih (s + 1)).mp h
          exact ⟨k + 1, u, by omega, by simpa using hk, hu⟩
      · simp only [hp] at h
        obtain ⟨k, u, hx, hk, hu⟩ := (ih (s + 1)).mp h
        exact ⟨k + 1, u, by omega, by simpa using hk, hu⟩
    · rintro ⟨k, u, hx, hk, hu⟩
      cases k with
      | zero =>
        simp at hk; subst hk
        simp [hu, hx]
      | succ k =>
        have : x ∈ indicesFrom p (s + 1) rest :=
          (ih (s + 1)).mpr ⟨k, u, by omega, by simpa using hk, hu⟩
        by_cases hp : p v = true
        · simp [hp, this]
        · simp [hp, this]

theorem indicesFrom_eq_nil (p : UnitRow → Bool) (s : Nat) (us : List UnitRow)
    (h : ∀ (k : Nat) (u : UnitRow), us[k]? = some u → p u = false) : indicesFrom p s us = [] := by
  cases hL : indicesFrom p s us with
  | nil => rfl
  | cons x xs =>
    have hx : x ∈ indicesFrom p s us := by simp [hL]
    obtain ⟨k, u, _, hk, hu⟩ := (mem_indicesFrom p s us x).mp hx
    simp [h k u hk] at hu

/-- exactly one row satisfies `p`: the index list is that row's position -/
theorem indicesFrom_eq_singleton (p : UnitRow → Bool) (s : Nat) (us : List UnitRow) (i : Nat)
    (u : UnitRow) (hi : us[i]? = some u) (hp : p u = true)
    (huniq : ∀ (j : Nat) (v : UnitRow), us[j]? = some v → p v = true → j = i) : indicesFrom p s us = [s + i] := by
  induction us generalizing s i with
  | nil => simp at hi
  | cons v rest ih =>
    cases i with
    | zero =>
      simp at hi; subst hi
      have hrest : indicesFrom p (s + 1) rest = [] := by
        apply indicesFrom_eq_nil
        intro k w hk
        cases hw : p w with
        | false => rfl
        | true =>
          have := huniq (k + 1) w (by simpa using hk) hw
          omega
      simp [indicesFrom, hp, hrest]
    | succ i =>
      have hv : p v = false := by
        cases hw : p v with
        | false => rfl
        | true =>
          have := huniq 0 v (by simp) hw
          omega
      have := ih (s + 1) i (by simpa using hi) (by
        intro j w hj hw
        have := huniq (j + 1) w (by simpa using hj) hw
        omega)
      simp only [indicesFrom, hv]
      rw [this]
      simp; omega

/-- two different rows satisfy `p`: the index list has at least two elements -/
theorem indicesFrom_two (p : UnitRow → Bool) (us : List UnitRow) (i j : Nat) (u v : UnitRow)
    (hi : us[i]? = some u) (hj : us[j]? = some v) (hij : i ≠ j) (hu : p u = true) (hv : p v = true) :
    ∃ a b rest, indicesFrom p 0 us = a :: b :: rest := by
  have mi : i ∈ indicesFrom p 0 us := (mem_indicesFrom p 0 us i).mpr ⟨i, u, by omega, hi, hu⟩
  have mj : j ∈ indicesFrom p 0 us := (mem_indicesFrom p 0 us j).mpr ⟨j, v, by omega, hj, hv⟩
  cases hL : indicesFrom p 0 us with
  | nil => simp [hL] at mi
  | cons a t =>
    cases t with
    | nil =>
      simp [hL] at mi mj
      omega
    | cons b rest => exact ⟨a, b, rest, rfl⟩

/-! ### `resolveIn` characterised -/

/-- listed by exactly one unit ⇒ resolves to it -/
theorem resolve_exact_unique (us : List UnitRow) (q : List Nat) (i : Nat) (u : UnitRow)
    (hi : us[i]? = some u) (hq : q ∈ u.ids)
    (huniq : ∀ (j : Nat) (v : UnitRow), us[j]? = some v → q ∈ v.ids → j = i) : resolveIn us q = .ok i := by
  have := indicesFrom_eq_singleton (fun u => matchesExact u q) 0 us i u hi
    ((matchesExact_iff u q).mpr hq)
    (fun j v hj hv => huniq j v hj ((matchesExact_iff v q).mp hv))
  simp [resolveIn, this]

/-- listed by two different units ⇒ ambiguity error (whatever else is in the table) -/
theorem resolve_exact_shared (us : List UnitRow) (q : List Nat) (i j : Nat) (u v : UnitRow)
    (hi : us[i]? = some u) (hj : us[j]? = some v) (hij : i ≠ j) (hu : q ∈ u.ids) (hv : q ∈ v.ids) :
    resolveIn us q = .ambiguous := by
  obtain ⟨a, b, rest, h⟩ := indicesFrom_two (fun u => matchesExact u q) us i j u v hi hj hij
    ((matchesExact_iff u q).mpr hu) ((matchesExact_iff v q).mpr hv)
  simp [resolveIn, h]

/-- listed by no unit, case-insensitively equal to an alias of exactly one unit ⇒ resolves to it -/
theorem resolve_case_unique (us : List UnitRow) (q : List Nat) (i : Nat) (u : UnitRow)
    (hex : ∀ (j : Nat) (v : UnitRow), us[j]? = some v → q ∉ v.ids)
    (hi : us[i]? = some u) (hq : ∃ a ∈ u.ids, lowerCodes a = lowerCodes q)
    (huniq : ∀ (j : Nat) (v : UnitRow), us[j]? = some v → (∃ a ∈ v.ids, lowerCodes a = lowerCodes q) → j = i) :
    resolveIn us q = .ok i := by
  have h0 : indicesFrom (fun u => matchesExact u q) 0 us = [] := by
    apply indicesFrom_eq_nil
    intro k w hk
    cases hw : matchesExact w q with
    | false => rfl
    | true => exact absurd ((matchesExact_iff w q).mp hw) (hex k w hk)
  have h1 := indicesFrom_eq_singleton (fun u => matchesCase u (lowerCodes q)) 0 us i u hi
    ((matchesCase_iff u _).mpr hq)
    (fun j v hj hv => huniq j v hj ((matchesCase_iff v _).mp hv))
  simp [resolveIn, h0, h1]

/-- listed by no unit, case-insensitively equal to aliases of two different units ⇒ ambiguity error -/
theorem resolve_case_shared (us : List UnitRow) (q : List Nat) (i j : Nat) (u v : UnitRow)
    (hex : ∀ (j : Nat) (v : UnitRow), us[j]? = some v → q ∉ v.ids)
    (hi : us[i]? = some u) (hj : us[j]? = some v) (hij : i ≠ j)
    (hu : ∃ a ∈ u.ids, lowerCodes a = lowerCodes q) (hv : ∃ a ∈ v.ids, lowerCodes a = lowerCodes q) :
    resolveIn us q = .ambiguous := by
  have h0 : indicesFrom (fun u => matchesExact u q) 0 us = [] := by
    apply indicesFrom_eq_nil
    intro k w hk
    cases hw : matchesExact w q with
    | false => rfl
    | true => exact absurd ((matchesExact_iff w q).mp hw) (hex k w hk)
  obtain ⟨a, b, rest, h⟩ := indicesFrom_two (fun u => matchesCase u (lowerCodes q)) us i j u v hi hj hij
    ((matchesCase_iff u _).mpr hu) ((matchesCase_iff v _).mpr hv)
  simp [resolveIn, h0, h]

/-- no exact and no case-insensitive match ⇒ unknown-unit error -/
theorem resolve_unknown (us : List UnitRow) (q : List Nat)
    (h : ∀ (j : Nat) (v : UnitRow), us[j]? = some v → ∀ a ∈ v.ids, lowerCodes a ≠ lowerCodes q) :
    resolveIn us q = .unknown := by
  have h0 : indicesFrom (fun u => matchesExact u q) 0 us = [] := by
    apply indicesFrom_eq_nil
    intro k w hk
    cases hw : matchesExact w q with
    | false => rfl
    | true => exact absurd rfl (h k w hk q ((matchesExact_iff w q).mp hw))
  have h1 : indicesFrom (fun u => matchesCase u (lowerCodes q)) 0 us = [] := by
    apply indicesFrom_eq_nil
    intro k w hk
    cases hw : matchesCase w (lowerCodes q) with
    | false => rfl
    | true =>
      obtain ⟨a, ha, hl⟩ := (matchesCase_iff w _).mp hw
      exact absurd hl (h k w hk a ha)
  simp [resolveIn, h0, h1]

/-- nothing is guessed: a successful resolution is an exact or a case-insensitive match with an
    identifier of the unit returned -/
theorem resolve_ok_sound (us : List UnitRow) (q : List Nat) (i : Nat) (h : resolveIn us q = .ok i) :
    ∃ u, us[i]? = some u ∧ (q ∈ u.ids ∨ ∃ a ∈ u.ids, lowerCodes a = lowerCodes q) := by
  unfold resolveIn at h
  split at h
  · rename_i j hj
    cases h
    have : i ∈ indicesFrom (fun u => matchesExact u q) 0 us := by simp [hj]
    obtain ⟨k, u, hx, hk, hu⟩ := (mem_indicesFrom _ 0 us i).mp this
    have : k = i := by omega
    subst this
    exact ⟨u, hk, Or.inl ((matchesExact_iff u q).mp hu)⟩
  · cases h
  · split at h
    · cases h
    · rename_i j hj
      cases h
      have : i ∈ indicesFrom (fun u => matchesCase u (lowerCodes q)) 0 us := by simp [hj]
      obtain ⟨k, u, hx, hk, hu⟩ := (mem_indicesFrom _ 0 us i).mp this
      have : k = i := by omega
      subst this
      exact ⟨u, hk, Or.inr ((matchesCase_iff u _).mp hu)⟩
    · cases h

/-! ### certificates: a lookup function that maps every identifier of unit `i` to `i`

  If such a function exists no identifier is listed by two units — whatever the function is
  (here: a generated search tree, `Gen.idTree` / `Gen.lowTree`; its shape is not trusted,
  the Boolean checks below run over the table itself). -/

/-- every identifier `q` of the row at position `s+k` has `f q = some (s+k)`, unless `q ∈ known` -/
def certExactFrom (f : List Nat → Option Nat) (known : List (List Nat)) : Nat → List UnitRow → Bool
  | _, [] => true
  | i, u :: rest =>
    u.ids.all (fun q => (match f q with | some j => Nat.beq j i | none => false) || known.any (codesEq q))
      && certExactFrom f known (i + 1) rest

theorem certExactFrom_spec (f : List Nat → Option Nat) (known : List (List Nat)) (s : Nat)
    (us : List UnitRow) (h : certExactFrom f known s us = true) :
    ∀ (k : Nat) (u : UnitRow), us[k]? = some u → ∀ q ∈ u.ids, f q = some (s + k) ∨ q ∈ known := by
  induction us generalizing s with
  | nil => intro k u hk; simp at hk
  | cons v rest ih =>
    simp only [certExactFrom, Bool.and_eq_true, List.all_eq_true, Bool.or_eq_true, List.any_eq_true,
      codesEq_iff] at h
    intro k u hk q hq
    cases k with
    | zero =>
      simp at hk; subst hk
      rcases h.1 q hq with h1 | ⟨a, ha, rfl⟩
      · left
        cases hf : f q with
        | none => simp [hf] at h1
        | some j =>
          simp only [hf] at h1
          have := Nat.eq_of_beq_eq_true h1
          simp [this]
      · exact Or.inr ha
    | succ k =>
      have := ih (s + 1) h.2 k u (by simpa using hk) q hq
      rcases this with h1 | h1
      · left; rw [h1]; congr 1; omega
      · exact Or.inr h1

/-- every identifier of every unit, except the `known` ones, resolves to its own unit -/
theorem resolve_of_cert (f : List Nat → Option Nat) (known : List (List Nat)) (us : List UnitRow)
    (hc : certExactFrom f known 0 us = true) (i : Nat) (u : UnitRow) (hi : us[i]? = some u)
    (q : List Nat) (hq : q ∈ u.ids) (hk : q ∉ known) : resolveIn us q = .ok i := by
  have spec := certExactFrom_spec f known 0 us hc
  apply resolve_exact_unique us q i u hi hq
  intro j v hj hv
  have h1 := spec i u hi q hq
  have h2 := spec j v hj q hv
  rcases h1 with h1 | h1
  · rcases h2 with h2 | h2
    · rw [h1] at h2; simp at h2; omega
    · exact absurd h2 hk
  · exact absurd h1 hk

/-- every identifier `a` of the row at position `s+k` has `f (lower a) = some (s+k)` or `some n` -/
def certCaseFrom (f : List Nat → Option Nat) (n : Nat) : Nat → List UnitRow → Bool
  | _, [] => true
  | i, u :: rest =>
    u.ids.all (fun a => match f (lowerCodes a) with | some j => Nat.beq j i || Nat.beq j n | none => false)
      && certCaseFrom f n (i + 1) rest

theorem certCaseFrom_spec (f : List Nat → Option Nat) (n s : Nat) (us : List UnitRow)
    (h : certCaseFrom f n s us = true) :
    ∀ (k : Nat) (u : UnitRow), us[k]? = some u → ∀ a ∈ u.ids,
      f (lowerCodes a) = some (s + k) ∨ f (lowerCodes a) = some n := by
  induction us generalizing s with
  | nil => intro k u hk; simp at hk
  | cons v rest ih =>
    simp only [certCaseFrom, Bool.and_eq_true, List.all_eq_true] at h
    intro k u hk a ha
    cases k with
    | zero =>
      simp at hk; subst hk
      have h1 := h.1 a ha
      cases hf : f (lowerCodes a) with
      | none => simp [hf] at h1
      | some j =>
        simp only [hf, Bool.or_eq_true] at h1
        rcases h1 with h1 | h1
        · left; simp [Nat.eq_of_beq_eq_true h1]
        · right; simp [Nat.eq_of_beq_eq_true h1]
    | succ k =>
      have := ih (s + 1) h.2 k u (by simpa using hk) a ha
      rcases this with h1 | h1
      · left; rw [h1]; congr 1; omega
      · exact Or.inr h1

/-- if the certificate function sends the lower-case of `q` to the index `i` of a unit, no other
    unit has an alias that is case-insensitively equal to `q` -/
theorem case_owner_unique (f : List Nat → Option Nat) (us : List UnitRow)
    (hc : certCaseFrom f us.length 0 us = true) (q : List Nat) (i : Nat) (hi : i < us.length)
    (hf : f (lowerCodes q) = some i) :
    ∀ (j : Nat) (v : UnitRow), us[j]? = some v → (∃ a ∈ v.ids, lowerCodes a = lowerCodes q) → j = i := by
  intro j v hj ⟨a, ha, hl⟩
  have := certCaseFrom_spec f us.length 0 us hc j v hj a ha
  rw [hl, hf] at this
  rcases this with h | h
  · simp at h; omega
  · simp at h; omega

/-! ### the structure of `convert` -/

theorem withPair_resolved {α} (us : List UnitRow) (a b : List Nat) (k : UnitRow → UnitRow → α)
    (i j : Nat) (hi : resolveIn us a = .ok i) (hj : resolveIn us b = .ok j) :
    withPair us a b k =
      if (us.getD i default).cat = (us.getD j default).cat
      then .ok (k (us.getD i default) (us.getD j default)) else .category := by
  simp only [withPair, hi, hj]
  by_cases h : (us.getD i default).cat = (us.getD j default).cat
  · simp
  · simp

/-- `convert` succeeds only when both identifiers resolve and the categories agree -/
theorem withPair_ok_inv {α} (us : List UnitRow) (a b : List Nat) (k : UnitRow → UnitRow → α) (y : α)
    (h : withPair us a b k = .ok y) :
    ∃ i j, resolveIn us a = .ok i ∧ resolveIn us b = .ok j ∧
      (us.getD i default).cat = (us.getD j default).cat ∧
      y = k (us.getD i default) (us.getD j default) := by
  unfold withPair at h
  split at h
  · cases h
  · cases h
  · rename_i i hi
    split at h
    · cases h
    · cases h
    · rename_i j hj
      refine ⟨i, j, by assumption, by assumption, ?_⟩
      simp only at h
      split at h
      · rename_i hc
        cases h
        exact ⟨Nat.eq_of_beq_eq_true hc, rfl⟩
      · cases h

/-- the identifier enters `convert` only through `resolve_unit` -/
theorem withPair_congr {α} (us : List UnitRow) (a a' b b' : List Nat) (k : UnitRow → UnitRow → α)
    (ha : resolveIn us a = resolveIn us a') (hb : resolveIn us b = resolveIn us b') :
    withPair us a b k = withPair us a' b' k := by
  simp only [withPair, ha, hb]

theorem withPair_unresolved {α} (us : List UnitRow) (a b : List Nat) (k : UnitRow → UnitRow → α)
    (h : (∀ i, resolveIn us a ≠ .ok i) ∨ (∀ j, resolveIn us b ≠ .ok j)) :
    (withPair us a b k).isErr = true := by
  unfold withPair
  rcases h with h | h
  · cases hr : resolveIn us a with
    | ok i => exact absurd hr (h i)
    | unknown => rfl
    | ambiguous => rfl
  · cases hr : resolveIn us a with
    | unknown => rfl
    | ambiguous => rfl
    | ok i =>
      cases hr2 : resolveIn us b with
      | ok j => exact absurd hr2 (h j)
      | unknown => rfl
      | ambiguous => rfl

/-! ### algebra of conversions over ℚ -/

theorem QConv.fromBase_toBase (a : QConv) (ha : a.WellFormed) (x base : Rat)
    (h : a.toBase x = some base) : a.fromBase base = some x := by
  cases a with
  | linear c =>
    simp only [QConv.WellFormed] at ha
    simp only [QConv.toBase, Option.some.injEq] at h
    subst h
    simp only [QConv.fromBase, Option.some.injEq]
    grind
  | reciprocal c =>
    simp only [QConv.WellFormed] at ha
    simp only [QConv.toBase] at h
    split at h
    · cases h
    · rename_i hx
      simp only [Option.some.injEq] at h
      subst h
      have hne : c / x ≠ 0 := by grind
      simp only [QConv.fromBase, hne, if_false, Option.some.injEq]
      grind
  | temperature toK fromK =>
    simp only [QConv.toBase, Option.some.injEq] at h
    subst h
    simp [QConv.fromBase, ha.1 x]

theorem QConv.toBase_fromBase (b : QConv) (hb : b.WellFormed) (base y : Rat)
    (h : b.fromBase base = some y) : b.toBase y = some base := by
  cases b with
  | linear c =>
    simp only [QConv.WellFormed] at hb
    simp only [QConv.fromBase, Option.some.injEq] at h
    subst h
    simp only [QConv.toBase, Option.some.injEq]
    grind
  | reciprocal c =>
    simp only [QConv.WellFormed] at hb
    simp only [QConv.fromBase] at h
    split at h
    · cases h
    · rename_i hx
      simp only [Option.some.injEq] at h
      subst h
      have hne : c / base ≠ 0 := by grind
      simp only [QConv.toBase, hne, if_false, Option.some.injEq]
      grind
  | temperature toK fromK =>
    simp only [QConv.fromBase, Option.some.injEq] at h
    subst h
    simp [QConv.toBase, hb.2 base]

theorem convQ_some (a b : QConv) (x y : Rat) (h : convQ a b x = some y) :
    ∃ base, a.toBase x = some base ∧ b.fromBase base = some y := by
  unfold convQ at h
  cases hb : a.toBase x with
  | none => simp [hb] at h
  | some base => exact ⟨base, rfl, by simpa [hb] using h⟩

/-- converting a unit to itself is the identity (whenever the result is finite) -/
theorem convQ_self (a : QConv) (ha : a.WellFormed) (x y : Rat) (h : convQ a a x = some y) : y = x := by
  obtain ⟨base, h1, h2⟩ := convQ_some a a x y h
  have := QConv.fromBase_toBase a ha x base h1
  rw [h2] at this
  exact Option.some.inj this

/-- … and the result is finite except for a reciprocal unit at zero -/
theorem convQ_self_defined (a : QConv) (ha : a.WellFormed) (x : Rat)
    (hx : (∃ c, a = .reciprocal c) → x ≠ 0) : convQ a a x = some x := by
  have hb : ∃ base, a.toBase x = some base := by
    cases a with
    | linear c => exact ⟨_, rfl⟩
    | reciprocal c =>
      have := hx ⟨c, rfl⟩
      exact ⟨c / x, by simp [QConv.toBase, this]⟩
    | temperature toK fromK => exact ⟨_, rfl⟩
  obtain ⟨base, h1⟩ := hb
  simp [convQ, h1, QConv.fromBase_toBase a ha x base h1]

/-- there and back returns the original value -/
theorem convQ_there_back (a b : QConv) (ha : a.WellFormed) (hb : b.WellFormed) (x y : Rat)
    (h : convQ a b x = some y) : convQ b a y = some x := by
  obtain ⟨base, h1, h2⟩ := convQ_some a b x y h
  simp [convQ, QConv.toBase_fromBase b hb base y h2, QConv.fromBase_toBase a ha x base h1]

/-- A → B → C equals A → C -/
theorem convQ_triangle (a b c : QConv) (hb : b.WellFormed) (x y : Rat)
    (h : convQ a b x = some y) : convQ b c y = convQ a c x := by
  obtain ⟨base, h1, h2⟩ := convQ_some a b x y h
  simp [convQ, QConv.toBase_fromBase b hb base y h2, h1]

/-! ### the generated table is well formed -/

/-- the (to_kelvin, from_kelvin) pairs that are mutually inverse -/
def tempPairOk : TempFn → TempFn → Bool
  | .kelvin_to_kelvin, .kelvin_to_kelvin => true
  | .celsius_to_kelvin, .kelvin_to_celsius => true
  | .fahrenheit_to_kelvin, .kelvin_to_fahrenheit => true
  | _, _ => false

theorem tempPairOk_inverse (a b : TempFn) (h : tempPairOk a b = true) :
    (∀ x, b.evalQ (a.evalQ x) = x) ∧ (∀ y, a.evalQ (b.evalQ y) = y) := by
  cases a <;> cases b <;> simp [tempPairOk] at h <;>
    (constructor <;> intro x <;> simp only [TempFn.evalQ] <;> grind)

/-- coefficient fraction non-zero with a non-zero denominator / inverse temperature pair -/
def convOk : Conv → Bool
  | .linear n d _ _ => !(n == 0) && !(d == 0)
  | .reciprocal n d _ _ => !(n == 0) && !(d == 0)
  | .temperature a b => tempPairOk a b

theorem coefQ_ne_zero (n : Int) (d : Nat) (hn : n ≠ 0) (hd : d ≠ 0) : coefQ n d ≠ 0 := by
  unfold coefQ
  have h1 : (n : Rat) ≠ 0 := by exact_mod_cast hn
  have h2 : (d : Rat) ≠ 0 := by exact_mod_cast hd
  grind

theorem convOk_wf (c : Conv) (h : convOk c = true) : (toQ c).WellFormed := by
  cases c with
  | linear n d b p =>
    simp [convOk] at h
    exact coefQ_ne_zero n d h.1 h.2
  | reciprocal n d b p =>
    simp [convOk] at h
    exact coefQ_ne_zero n d h.1 h.2
  | temperature a b =>
    simp only [convOk] at h
    exact tempPairOk_inverse a b h

theorem all_wf_of_check (us : List UnitRow) (h : us.all (fun u => convOk u.conv) = true) :
    ∀ u ∈ us, (toQ u.conv).WellFormed := by
  intro u hu
  exact convOk_wf u.conv (List.all_eq_true.mp h u hu)

/-- whole generated table: every coefficient a non-zero fraction, every temperature pair inverse -/
theorem units_all_convOk : units.all (fun u => convOk u.conv) = true := by decide +kernel

/-- whatever an identifier resolves to is a well-formed row of the table -/
theorem resolved_unit_wf (q : List Nat) (j : Nat) (h : resolveIn units q = .ok j) :
    (toQ (units.getD j default).conv).WellFormed := by
  obtain ⟨u, hu, _⟩ := resolve_ok_sound units q j h
  have : units.getD j default = u := by simp [List.getD, hu]
  rw [this]
  exact all_wf_of_check units units_all_convOk u (List.mem_of_getElem? hu)

/-- coefficient strictly positive -/
def coefPositive : Conv → Bool
  | .linear n d _ _ => decide (0 < n) && decide (0 < d)
  | .reciprocal n d _ _ => decide (0 < n) && decide (0 < d)
  | .temperature _ _ => true

/-- the double the code holds is the correctly rounded value of the source literal (rows whose
    coefficient is a single literal; expressions like `1.0 / 3.6` are rounded twice) -/
def coefBitsOk : Conv → Bool
  | .linear n d bits plain => !plain || (F64.ofRatio (decide (n < 0)) n.natAbs d == F64.ofNatBits bits)
  | .reciprocal n d bits plain => !plain || (F64.ofRatio (decide (n < 0)) n.natAbs d == F64.ofNatBits bits)
  | .temperature _ _ => true

/-! ### metric prefixes -/

/-- `10^k` for an integer exponent -/
def pow10 (k : Int) : Rat := if k ≥ 0 then (10 : Rat) ^ k.toNat else 1 / (10 : Rat) ^ (-k).toNat

theorem prefix_ratio_of_check (us : List UnitRow) (h : prefixAllOk us = true) :
    ∀ u ∈ us, ∀ idu ∈ u.ids, ∀ pk ∈ metricPrefixes, ∀ rest, idu = pk.1 ++ rest →
    ∀ v ∈ us, u.cat = v.cat → rest ∈ v.ids →
    ∃ nu du bu pu nv dv bv pv, u.conv = .linear nu du bu pu ∧ v.conv = .linear nv dv bv pv ∧
      ratioIsPow10 nu du nv dv pk.2 = true := by
  intro u hu idu hidu pk hpk rest hrest v hv hcat hmem
  simp only [prefixAllOk, List.all_eq_true] at h
  have h1 := h u hu idu hidu pk hpk
  have hp : isPrefixCodes pk.1 idu = some rest := (isPrefixCodes_iff pk.1 idu rest).mpr hrest
  simp only [prefixOkFor, hp, List.all_eq_true] at h1
  have h2 := h1 v hv
  have hc : Nat.beq u.cat v.cat = true := by rw [hcat]; exact Nat.beq_refl _
  have hm : matchesExact v rest = true := (matchesExact_iff v rest).mpr hmem
  simp only [hc, hm, Bool.and_self, if_true] at h2
  cases hcu : u.conv with
  | temperature a b => simp [hcu, coefFrac] at h2
  | reciprocal n d b p => simp [hcu, coefFrac] at h2
  | linear nu du bu pu =>
    cases hcv : v.conv with
    | temperature a b => simp [hcu, hcv, coefFrac] at h2
    | reciprocal n d b p => simp [hcu, hcv, coefFrac] at h2
    | linear nv dv bv pv =>
      simp only [hcu, hcv, coefFrac] at h2
      exact ⟨nu, du, bu, pu, nv, dv, bv, pv, rfl, rfl, h2⟩

theorem ten_pow_ne_zero (n : Nat) : (10 : Rat) ^ n ≠ 0 := by
  induction n with
  | zero => simp
  | succ n ih => rw [Rat.pow_succ]; grind

/-- the integer cross-multiplication test is the statement `coef u = coef v · 10^k` over ℚ -/
theorem ratioIsPow10_spec (nu : Int) (du : Nat) (nv : Int) (dv : Nat) (k : Int)
    (h : ratioIsPow10 nu du nv dv k = true) (hdu : du ≠ 0) (hdv : dv ≠ 0) :
    coefQ nu du = coefQ nv dv * pow10 k := by
  have h1 : (du : Rat) ≠ 0 := by exact_mod_cast hdu
  have h2 : (dv : Rat) ≠ 0 := by exact_mod_cast hdv
  unfold ratioIsPow10 at h
  unfold coefQ pow10
  split at h
  · rename_i hk
    simp only [decide_eq_true_eq] at h
    have hq : (nu : Rat) * (dv : Rat) = (nv : Rat) * (du : Rat) * (10 : Rat) ^ k.toNat := by
      exact_mod_cast h
    simp only [hk, if_true]
    grind
  · rename_i hk
    simp only [decide_eq_true_eq] at h
    have hq : (nu : Rat) * (dv : Rat) * (10 : Rat) ^ (-k).toNat = (nv : Rat) * (du : Rat) := by
      exact_mod_cast h
    have hp : (10 : Rat) ^ (-k).toNat ≠ 0 := ten_pow_ne_zero _
    simp only [hk, if_false]
    grind

end Blots.Units
