import Blots.Lemmas.FormatSquashDefs
/-
  `flat` against the two single-line printers:

  * `src_erase`   : `noBare e → exprSrc [] (eraseComments e) = flat e`  (`expr_to_source`);
  * `src_flat`    : … `= exprToSource e` when the tree has no comments;
  * `single_flat` : `lamOk e → hasNewline (fmtSingle e) = false → fmtSingle e = flat e`
                    (`format_single_line`, whenever `format_expr_impl` uses its result);
  * `lamOk_of_noBare`, and `eraseComments` does not change a parenthesisation decision.
-/
namespace Blots
namespace Squash
open FormatL FormatP

/-! ### `eraseComments` does not change the parenthesisation decisions -/

theorem endsOpen_erase : ∀ e : Expr, endsOpen (eraseComments e) = endsOpen e
  | .bin _ _ r => by simp only [eraseComments, endsOpen, endsOpen_erase r]
  | .un _ e => by simp only [eraseComments, endsOpen, endsOpen_erase e]
  | .lambda _ _ | .cond _ _ _ | .assign _ _ | .output _ | .num _ | .str _ | .bool _ | .null
  | .ident _ | .inref _ | .builtin _ | .list _ | .record _ | .doBlock _ _ | .call _ _
  | .access _ _ | .dot _ _ | .fact _ | .spread _ => by simp only [eraseComments, endsOpen]

theorem needsParens_erase (e : Expr) (pos : Pos) :
    needsParens (eraseComments e) pos = needsParens e pos := by
  unfold needsParens
  rw [endsOpen_erase]
  cases e <;> simp only [eraseComments]

theorem lambdaBodyNeedsParens_erase : ∀ e : Expr,
    lambdaBodyNeedsParens (eraseComments e) = lambdaBodyNeedsParens e
  | .bin _ l _ => by
    simp only [eraseComments, lambdaBodyNeedsParens, lambdaBodyNeedsParens_erase l]
  | .un _ _ | .lambda _ _ | .cond _ _ _ | .assign _ _ | .output _ | .num _ | .str _ | .bool _
  | .null | .ident _ | .inref _ | .builtin _ | .list _ | .record _ | .doBlock _ _ | .call _ _
  | .access _ _ | .dot _ _ | .fact _ | .spread _ => by
    simp only [eraseComments, lambdaBodyNeedsParens]

/-! ### without one-parameter lambdas `flat` is `expr_to_source` of the comment-free tree -/

theorem foldl_scopeRemove_nil (args : List LArg) :
    args.foldl (fun s a => scopeRemove s a.name) ([] : Scope) = [] := by
  induction args with
  | nil => rfl
  | cons a r ih => simpa [List.foldl, scopeRemove] using ih

theorem scopeAfterStmt_nil (i : Item) : scopeAfterStmt [] i = [] := by
  obtain ⟨l, e, t⟩ := i
  cases e <;> simp [scopeAfterStmt, scopeRemove]

theorem scopeAfterStmts_nil (ss : List Item) : scopeAfterStmts [] ss = [] := by
  unfold scopeAfterStmts
  induction ss with
  | nil => rfl
  | cons i r ih => simpa [List.foldl, scopeAfterStmt_nil] using ih

theorem lambdaArgsPart_not_bare (args : List LArg) (h : bareArgs args = false) :
    lambdaArgsPart args = "(" ++ ", ".intercalate (args.map lambdaArgToSource) ++ ")" := by
  unfold lambdaArgsPart
  split
  · simp [bareArgs] at h
  · rfl

theorem commentLines_nil : commentLines [] = "" := rfl

mutual
theorem src_erase : ∀ e : Expr, noBare e = true → exprSrc [] (eraseComments e) = flat e
  | .ident n, _ => by simp only [eraseComments, exprSrc, lookupAL, flat]
  | .inref f, _ => by simp only [eraseComments, exprSrc, flat]
  | .num x, _ => by simp only [eraseComments, exprSrc, flat]
  | .str s, _ => by simp only [eraseComments, exprSrc, flat]
  | .bool b, _ => by simp only [eraseComments, exprSrc, flat]
  | .null, _ => by simp only [eraseComments, exprSrc, flat]
  | .builtin n, _ => by simp only [eraseComments, exprSrc, flat]
  | .list items, h => by
    simp only [noBare] at h
    simp only [eraseComments, exprSrc, flat, src_erase_items items h]
  | .record es, h => by
    simp only [noBare] at h
    simp only [eraseComments, exprSrc, flat, src_erase_entries es h]
  | .lambda args b, h => by
    simp only [noBare, Bool.and_eq_true, Bool.not_eq_true'] at h
    simp only [eraseComments, exprSrc, flat, foldl_scopeRemove_nil, lambdaBodyNeedsParens_erase,
      src_erase b h.2, lambdaArgsPart_not_bare args h.1, String.append_assoc]
    have e1 : ∀ x : String, ") => " ++ x = ")" ++ (" => " ++ x) := fun x => by
      rw [← String.append_assoc]; rfl
    rw [e1]
  | .cond c t e, h => by
    simp only [noBare, Bool.and_eq_true] at h
    simp only [eraseComments, exprSrc, flat, src_erase c h.1, src_erase t h.2.1, src_erase e h.2.2]
  | .doBlock ss r, h => by
    simp only [noBare, Bool.and_eq_true] at h
    simp only [eraseComments, exprSrc, flat, scopeAfterStmts_nil, src_erase_stmts ss h.1,
      src_erase_ret r h.2]
  | .assign n v, h => by
    simp only [noBare] at h
    simp only [eraseComments, exprSrc, flat, src_erase v h]
  | .output e, h => by
    simp only [noBare] at h
    simp only [eraseComments, exprSrc, flat, src_erase e h]
  | .call f as, h => by
    simp only [noBare, Bool.and_eq_true] at h
    simp only [eraseComments, exprSrc, flat, needsParens_erase, src_erase f h.1,
      src_erase_exprs as h.2]
  | .access e i, h => by
    simp only [noBare, Bool.and_eq_true] at h
    simp only [eraseComments, exprSrc, flat, needsParens_erase, src_erase e h.1, src_erase i h.2]
  | .dot e f, h => by
    simp only [noBare] at h
    simp only [eraseComments, exprSrc, flat, needsParens_erase, src_erase e h]
  | .bin op l r, h => by
    simp only [noBare, Bool.and_eq_true] at h
    simp only [eraseComments, exprSrc, flat, needsParens_erase, src_erase l h.1, src_erase r h.2]
  | .un op e, h => by
    simp only [noBare] at h
    simp only [eraseComments, exprSrc, flat, needsParens_erase, src_erase e h]
  | .fact e, h => by
    simp only [noBare] at h
    simp only [eraseComments, exprSrc, flat, needsParens_erase, src_erase e h]
  | .spread e, h => by
    simp only [noBare] at h
    simp only [eraseComments, exprSrc, flat, src_erase e h]
theorem src_erase_exprs : ∀ es : List Expr, exprsNoBare es = true →
    exprsSrc [] (eraseExprs es) = flatExprs es
  | [], _ => rfl
  | e :: es, h => by
    simp only [exprsNoBare, Bool.and_eq_true] at h
    simp only [eraseExprs, exprsSrc, flatExprs, src_erase e h.1, src_erase_exprs es h.2]
theorem src_erase_item : ∀ i : Item, itemNoBare i = true → itemSrc [] (eraseItem i) = flatItem i
  | .mk _ e _, h => by
    simp only [itemNoBare] at h
    simp only [eraseItem, itemSrc, flatItem, src_erase e h]
theorem src_erase_items : ∀ is : List Item, itemsNoBare is = true →
    itemsSrc [] (eraseItems is) = flatItems is
  | [], _ => rfl
  | i :: is, h => by
    simp only [itemsNoBare, Bool.and_eq_true] at h
    simp only [eraseItems, itemsSrc, flatItems, src_erase_item i h.1, src_erase_items is h.2]
theorem src_erase_entry : ∀ en : Entry, entryNoBare en = true →
    entrySrc [] (eraseEntry en) = flatEntry en
  | .mk _ (.static k) v _, h => by
    simp only [entryNoBare, keyNoBare] at h
    simp only [eraseEntry, entrySrc, keyedSrc, flatEntry, flatKeyed, src_erase v h]
  | .mk _ (.dyn ke) v _, h => by
    simp only [entryNoBare, keyNoBare, Bool.and_eq_true] at h
    simp only [eraseEntry, entrySrc, keyedSrc, flatEntry, flatKeyed, src_erase ke h.1,
      src_erase v h.2]
  | .mk _ (.short n) v _, _ => by
    simp only [eraseEntry, entrySrc, keyedSrc, lookupAL, flatEntry, flatKeyed]
  | .mk _ (.spread e) v _, h => by
    simp only [entryNoBare, keyNoBare] at h
    simp only [eraseEntry, entrySrc, keyedSrc, flatEntry, flatKeyed, src_erase e h]
theorem src_erase_entries : ∀ es : List Entry, entriesNoBare es = true →
    entriesSrc [] (eraseEntries es) = flatEntries es
  | [], _ => rfl
  | e :: es, h => by
    simp only [entriesNoBare, Bool.and_eq_true] at h
    simp only [eraseEntries, entriesSrc, flatEntries, src_erase_entry e h.1,
      src_erase_entries es h.2]
theorem src_erase_stmts : ∀ is : List Item, itemsNoBare is = true →
    doStmtsSrc [] (eraseItems is) = flatStmts is
  | [], _ => rfl
  | (.mk l e t) :: is, h => by
    simp only [itemsNoBare, itemNoBare, Bool.and_eq_true] at h
    simp only [eraseItems, eraseItem, doStmtsSrc, stmtSrc, scopeAfterStmt_nil, flatStmts, flatStmt,
      commentLines_nil, src_erase e h.1, src_erase_stmts is h.2, String.empty_append,
      String.append_empty]
theorem src_erase_ret : ∀ i : Item, itemNoBare i = true → retSrc [] (eraseItem i) = flatRet i
  | .mk _ e _, h => by
    simp only [itemNoBare] at h
    simp only [eraseItem, retSrc, flatRet, commentLines_nil, src_erase e h, String.empty_append]
end

/-- … so for a tree without comments it is `expr_to_source` of the tree itself -/
theorem src_flat (e : Expr) (h : noBare e = true) (ha : anyComment e = false) :
    exprToSource e = flat e := by
  have := src_erase e h
  rwa [erase_id e ha] at this

/-! ### `noBare` implies `lamOk` -/

mutual
theorem lamOk_of_noBare : ∀ e : Expr, noBare e = true → lamOk e = true
  | .list items, h => by simp only [noBare] at h; simp only [lamOk, lamOk_items items h]
  | .record es, h => by simp only [noBare] at h; simp only [lamOk, lamOk_entries es h]
  | .lambda _ b, h => by
    simp only [noBare, Bool.and_eq_true] at h; simp only [lamOk, lamOk_of_noBare b h.2]
  | .cond c t e, h => by simpa only [noBare, lamOk] using h
  | .doBlock ss r, h => by
    simp only [noBare, Bool.and_eq_true] at h
    simp only [lamOk, lamOk_items ss h.1, lamOk_item r h.2, Bool.and_self]
  | .assign _ v, h => by simp only [noBare] at h; simp only [lamOk, lamOk_of_noBare v h]
  | .output e, h => by simp only [noBare] at h; simp only [lamOk, lamOk_of_noBare e h]
  | .call f as, h => by
    simp only [noBare, Bool.and_eq_true] at h
    simp only [lamOk, lamOk_of_noBare f h.1, lamOk_exprs as h.2, Bool.and_self]
  | .access e i, h => by simpa only [noBare, lamOk] using h
  | .dot e _, h => by simpa only [noBare, lamOk] using h
  | .bin _ l r, h => by simpa only [noBare, lamOk] using h
  | .un _ e, h => by simpa only [noBare, lamOk] using h
  | .fact e, h => by simpa only [noBare, lamOk] using h
  | .spread e, h => by simpa only [noBare, lamOk] using h
  | .num _, _ | .str _, _ | .bool _, _ | .null, _ | .ident _, _ | .inref _, _
  | .builtin _, _ => by simp only [lamOk]
theorem lamOk_exprs : ∀ es : List Expr, exprsNoBare es = true → exprsLamOk es = true
  | [], _ => rfl
  | e :: es, h => by
    simp only [exprsNoBare, Bool.and_eq_true] at h
    simp only [exprsLamOk, lamOk_of_noBare e h.1, lamOk_exprs es h.2, Bool.and_self]
theorem lamOk_item : ∀ i : Item, itemNoBare i = true → itemLamOk i = true
  | .mk _ e _, h => by simp only [itemNoBare] at h; simp only [itemLamOk, lamOk_of_noBare e h]
theorem lamOk_items : ∀ is : List Item, itemsNoBare is = true → itemsLamOk is = true
  | [], _ => rfl
  | i :: is, h => by
    simp only [itemsNoBare, Bool.and_eq_true] at h
    simp only [itemsLamOk, lamOk_item i h.1, lamOk_items is h.2, Bool.and_self]
theorem lamOk_entry : ∀ en : Entry, entryNoBare en = true → entryLamOk en = true
  | .mk _ (.static k) v _, h => by
    simp only [entryNoBare, keyNoBare] at h
    simp only [entryLamOk, keyLamOk, lamOk_of_noBare v h]
  | .mk _ (.dyn ke) v _, h => by
    simp only [entryNoBare, keyNoBare, Bool.and_eq_true] at h
    simp only [entryLamOk, keyLamOk, lamOk_of_noBare ke h.1, lamOk_of_noBare v h.2, Bool.and_self]
  | .mk _ (.short n) v _, _ => by simp only [entryLamOk, keyLamOk]
  | .mk _ (.spread e) v _, h => by
    simp only [entryNoBare, keyNoBare] at h
    simp only [entryLamOk, keyLamOk, lamOk_of_noBare e h]
theorem lamOk_entries : ∀ es : List Entry, entriesNoBare es = true → entriesLamOk es = true
  | [], _ => rfl
  | e :: es, h => by
    simp only [entriesNoBare, Bool.and_eq_true] at h
    simp only [entriesLamOk, lamOk_entry e h.1, lamOk_entries es h.2, Bool.and_self]
end

/-! ### when the single-line text is one line it is `flat` -/

theorem not_mem_of_intercalate {sep : String} {l : List String}
    (h : hasNewline (sep.intercalate l) = false) : ∀ x ∈ l, hasNewline x = false := by
  intro x hx
  cases hn : hasNewline x
  · rfl
  · rw [hasNewline_intercalate sep l x hx hn] at h; cases h

theorem anyComment_false_of_single {e : Expr} (hn : hasNewline (fmtSingle e) = false) :
    anyComment e = false := by
  cases h : anyComment e
  · rfl
  · rw [anyComment_forces_multiline e h] at hn; cases hn

/-- the last arm of `format_single_line` -/
theorem fallback_flat (e : Expr) (hnb : noBare e = true) (hn : hasNewline (fmtSingle e) = false)
    (hf : fmtSingle e = if containsComments e then "\n" else exprToSource e) :
    fmtSingle e = flat e := by
  have ha := anyComment_false_of_single hn
  have hc : containsComments e = false := by
    cases h : containsComments e
    · rfl
    · rw [cfm e h] at hn; cases hn
  rw [hf, hc]
  simp only [Bool.false_eq_true, if_false]
  exact src_flat e hnb ha

theorem items_any_false : ∀ items : List Item, itemsAnyComment items = false →
    items.any Item.hasComments = false
  | [], _ => rfl
  | (.mk l e t) :: is, h => by
    simp only [itemsAnyComment, itemAnyComment, Bool.or_eq_false_iff] at h
    simp only [List.any_cons, Item.hasComments, Item.leading, Item.trailing, h.1.1.1, h.1.1.2,
      Bool.or_self, items_any_false is h.2]

theorem entries_any_false : ∀ es : List Entry, entriesAnyComment es = false →
    es.any Entry.hasComments = false
  | [], _ => rfl
  | (.mk l k v t) :: es, h => by
    simp only [entriesAnyComment, entryAnyComment, Bool.or_eq_false_iff] at h
    simp only [List.any_cons, Entry.hasComments, Entry.leading, Entry.trailing, h.1.1.1, h.1.1.2,
      Bool.or_self, entries_any_false es h.2]

mutual
theorem single_flat : ∀ e : Expr, lamOk e = true → hasNewline (fmtSingle e) = false →
    fmtSingle e = flat e
  | .assign n v, hl, hn => by
    simp only [lamOk] at hl
    simp only [fmtSingle, hasNewline_append, Bool.or_eq_false_iff] at hn
    simp only [fmtSingle, flat, single_flat v hl hn.2]
  | .output e, hl, hn => by
    simp only [lamOk] at hl
    simp only [fmtSingle, hasNewline_append, Bool.or_eq_false_iff] at hn
    simp only [fmtSingle, flat, single_flat e hl hn.2]
  | .lambda args body, hl, hn => by
    simp only [lamOk] at hl
    simp only [fmtSingle] at hn
    simp only [fmtSingle, flat]
    cases hp : lambdaBodyNeedsParens body
    · simp only [hp, Bool.false_eq_true, if_false, hasNewline_append, Bool.or_eq_false_iff] at hn
      simp only [parenIf, Bool.false_eq_true, if_false, single_flat body hl hn.2]
    · simp only [hp, if_true, hasNewline_append, Bool.or_eq_false_iff] at hn
      simp only [parenIf, if_true, single_flat body hl hn.1.2, String.append_assoc]
      have e1 : ∀ x : String, " => (" ++ x = " => " ++ ("(" ++ x) := fun x => by
        rw [← String.append_assoc]; rfl
      rw [e1]
  | .call f args, hl, hn => by
    simp only [lamOk, Bool.and_eq_true] at hl
    simp only [fmtSingle, hasNewline_append, hasNewline_parenIf, Bool.or_eq_false_iff] at hn
    simp only [fmtSingle, flat, single_flat f hl.1 hn.1.1.1,
      single_flat_list args hl.2 (not_mem_of_intercalate hn.1.2)]
  | .list items, hl, hn => by
    simp only [lamOk] at hl
    have ha := anyComment_false_of_single hn
    simp only [anyComment] at ha
    simp only [fmtSingle, items_any_false items ha, Bool.false_eq_true, if_false,
      hasNewline_append, Bool.or_eq_false_iff] at hn
    simp only [fmtSingle, items_any_false items ha, Bool.false_eq_true, if_false, flat,
      single_flat_items items hl (not_mem_of_intercalate hn.1.2)]
  | .record es, hl, hn => by
    simp only [lamOk] at hl
    have ha := anyComment_false_of_single hn
    simp only [anyComment] at ha
    simp only [fmtSingle, entries_any_false es ha, Bool.false_eq_true, if_false,
      hasNewline_append, Bool.or_eq_false_iff] at hn
    simp only [fmtSingle, entries_any_false es ha, Bool.false_eq_true, if_false, flat,
      single_flat_entries es hl (not_mem_of_intercalate hn.1.2)]
  | .doBlock ss r, _, hn => by
    rw [doFmt (.doBlock ss r) (by simp only [hasDo])] at hn; cases hn
  | .cond c t e, hl, hn =>
    fallback_flat _ (by simpa only [noBare, lamOk] using hl) hn (by simp only [fmtSingle])
  | .access e i, hl, hn =>
    fallback_flat _ (by simpa only [noBare, lamOk] using hl) hn (by simp only [fmtSingle])
  | .dot e f, hl, hn =>
    fallback_flat _ (by simpa only [noBare, lamOk] using hl) hn (by simp only [fmtSingle])
  | .bin op l r, hl, hn =>
    fallback_flat _ (by simpa only [noBare, lamOk] using hl) hn (by simp only [fmtSingle])
  | .un op e, hl, hn =>
    fallback_flat _ (by simpa only [noBare, lamOk] using hl) hn (by simp only [fmtSingle])
  | .fact e, hl, hn =>
    fallback_flat _ (by simpa only [noBare, lamOk] using hl) hn (by simp only [fmtSingle])
  | .spread e, hl, hn =>
    fallback_flat _ (by simpa only [noBare, lamOk] using hl) hn (by simp only [fmtSingle])
  | .num _, _, hn => fallback_flat _ (by simp only [noBare]) hn (by simp only [fmtSingle])
  | .str _, _, hn => fallback_flat _ (by simp only [noBare]) hn (by simp only [fmtSingle])
  | .bool _, _, hn => fallback_flat _ (by simp only [noBare]) hn (by simp only [fmtSingle])
  | .null, _, hn => fallback_flat _ (by simp only [noBare]) hn (by simp only [fmtSingle])
  | .ident _, _, hn => fallback_flat _ (by simp only [noBare]) hn (by simp only [fmtSingle])
  | .inref _, _, hn => fallback_flat _ (by simp only [noBare]) hn (by simp only [fmtSingle])
  | .builtin _, _, hn => fallback_flat _ (by simp only [noBare]) hn (by simp only [fmtSingle])
theorem single_flat_list : ∀ es : List Expr, exprsLamOk es = true →
    (∀ s ∈ fmtSingleList es, hasNewline s = false) → fmtSingleList es = flatExprs es
  | [], _, _ => rfl
  | e :: es, hl, hn => by
    simp only [exprsLamOk, Bool.and_eq_true] at hl
    simp only [fmtSingleList, List.mem_cons, forall_eq_or_imp] at hn
    simp only [fmtSingleList, flatExprs, single_flat e hl.1 hn.1, single_flat_list es hl.2 hn.2]
theorem single_flat_item : ∀ i : Item, itemLamOk i = true → hasNewline (fmtSingleItem i) = false →
    fmtSingleItem i = flatItem i
  | .mk _ e _, hl, hn => by
    simp only [itemLamOk] at hl
    simp only [fmtSingleItem] at hn
    simp only [fmtSingleItem, flatItem, single_flat e hl hn]
theorem single_flat_items : ∀ is : List Item, itemsLamOk is = true →
    (∀ s ∈ fmtSingleItems is, hasNewline s = false) → fmtSingleItems is = flatItems is
  | [], _, _ => rfl
  | i :: is, hl, hn => by
    simp only [itemsLamOk, Bool.and_eq_true] at hl
    simp only [fmtSingleItems, List.mem_cons, forall_eq_or_imp] at hn
    simp only [fmtSingleItems, flatItems, single_flat_item i hl.1 hn.1,
      single_flat_items is hl.2 hn.2]
theorem single_flat_entry : ∀ en : Entry, entryLamOk en = true →
    hasNewline (fmtSingleEntry en) = false → fmtSingleEntry en = flatEntry en
  | .mk _ (.static k) v _, hl, hn => by
    simp only [entryLamOk, keyLamOk] at hl
    simp only [fmtSingleEntry, fmtSingleKeyed, hasNewline_append, Bool.or_eq_false_iff] at hn
    simp only [fmtSingleEntry, fmtSingleKeyed, flatEntry, flatKeyed, single_flat v hl hn.2]
  | .mk _ (.dyn ke) v _, hl, hn => by
    simp only [entryLamOk, keyLamOk, Bool.and_eq_true] at hl
    simp only [fmtSingleEntry, fmtSingleKeyed, hasNewline_append, Bool.or_eq_false_iff] at hn
    simp only [fmtSingleEntry, fmtSingleKeyed, flatEntry, flatKeyed, single_flat ke hl.1 hn.1.1.2,
      single_flat v hl.2 hn.2]
  | .mk _ (.short n) v _, _, _ => by
    simp only [fmtSingleEntry, fmtSingleKeyed, flatEntry, flatKeyed]
  | .mk _ (.spread e) v _, hl, hn => by
    simp only [entryLamOk, keyLamOk] at hl
    simp only [fmtSingleEntry, fmtSingleKeyed] at hn
    simp only [fmtSingleEntry, fmtSingleKeyed, flatEntry, flatKeyed, single_flat e hl hn]
theorem single_flat_entries : ∀ es : List Entry, entriesLamOk es = true →
    (∀ s ∈ fmtSingleEntries es, hasNewline s = false) → fmtSingleEntries es = flatEntries es
  | [], _, _ => rfl
  | e :: es, hl, hn => by
    simp only [entriesLamOk, Bool.and_eq_true] at hl
    simp only [fmtSingleEntries, List.mem_cons, forall_eq_or_imp] at hn
    simp only [fmtSingleEntries, flatEntries, single_flat_entry e hl.1 hn.1,
      single_flat_entries es hl.2 hn.2]
end

end Squash
end Blots
