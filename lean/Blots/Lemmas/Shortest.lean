import Blots.Lemmas.ParseDec
import Blots.Lemmas.OfRatioScale
/-
  Rust-style shortest printing reads back exactly (`F64.toDisplay` then `F64.parseDec`).

  * `ofRatio_sign`            : the sign argument of `ofRatio` only sets the sign bit;
  * `decVal_mul_ten`          : `(d * 10) × 10^e` and `d × 10^(e+1)` convert to the same double;
  * `strip_decVal`            : stripping trailing zeros keeps the converted value;
  * `go_sound`                : every candidate returned by the digit search passed the
                                read-back test of the search;
  * `shortestDigitsWith_value`: hence the digits of `shortestDigitsWith` read back as `|x|`;
  * `parseDec_toDisplay`      : `parseDec (toDisplay x) = some x` for every finite `x`.

  The one thing NOT proved here is that the search finds a candidate within its 18 rounds
  (`ShortestFound`; 17 significant digits always suffice for a double).  That fact is a
  hypothesis of the theorems and is validated on the real code by the harness.
  (It IS proved in `Blots/Lemmas/Shortest17.lean`: `shortest_always_found`,
  `parseDec_toDisplay_all`.)
-/
namespace Blots.F64

/-! ### bit patterns -/

theorem ofNatBits_eq_iff (a b : Nat) : ofNatBits a = ofNatBits b ↔ a % 2 ^ 64 = b % 2 ^ 64 := by
  constructor
  · intro h
    have h1 : (UInt64.ofNat a).toNat = (UInt64.ofNat b).toNat := congrArg (fun y : F64 => y.bits.toNat) h
    rw [UInt64.toNat_ofNat', UInt64.toNat_ofNat'] at h1
    exact h1
  · intro h
    unfold ofNatBits
    congr 1
    apply UInt64.toNat_inj.1
    rw [UInt64.toNat_ofNat', UInt64.toNat_ofNat']
    exact h

theorem mag_lt (x : F64) : x.mag < 2 ^ 63 := Nat.mod_lt _ (Nat.two_pow_pos 63)

/-- a pattern is its sign bit plus its magnitude bits -/
theorem nbits_eq_sign_mag (x : F64) : x.nbits = (if x.neg then 2 ^ 63 else 0) + x.mag := by
  have hlt := nbits_lt x
  unfold neg mag
  generalize x.nbits = N at *
  split
  · next h => simp only [decide_eq_true_eq] at h; omega
  · next h => simp only [decide_eq_true_eq] at h; omega

theorem eq_ofNatBits_sign_mag (x : F64) :
    x = ofNatBits ((if x.neg then 2 ^ 63 else 0) + x.mag) := by
  rw [← nbits_eq_sign_mag]; exact eq_ofNatBits_nbits x

/-! ### the sign argument of `ofRatio` -/

/-- everything `ofRatioPack` puts next to the sign bit -/
def ofRatioPayload (e2 : Int) (q' : Nat) : Nat :=
  let p : Nat × Int := if q' ≥ 2 ^ 53 then (q' / 2, e2 + 1) else (q', e2)
  if p.1 < 2 ^ 52 then p.1
  else
    let biased : Int := p.2 + 1075
    if biased ≥ 2047 then 0x7FF0000000000000
    else biased.toNat * 2 ^ 52 + (p.1 - 2 ^ 52)

theorem ofRatioPack_eq_payload (sb : Nat) (e2 : Int) (q' : Nat) :
    ofRatioPack sb e2 q' = ofNatBits (sb + ofRatioPayload e2 q') := by
  unfold ofRatioPack ofRatioPayload
  simp only []
  generalize (if q' ≥ 2 ^ 53 then ((q' / 2, e2 + 1) : Nat × Int) else (q', e2)) = p
  by_cases h1 : p.1 < 2 ^ 52
  · simp only [if_pos h1]
  · by_cases h2 : p.2 + 1075 ≥ 2047
    · simp only [if_neg h1, if_pos h2]
    · simp only [if_neg h1, if_neg h2, Nat.add_assoc]

/-- `ofRatio s n d` is a sign-independent payload with the sign bit added -/
theorem ofRatio_sign_payload (n d : Nat) :
    ∃ P : Nat, ∀ s : Bool, ofRatio s n d = ofNatBits ((if s then 2 ^ 63 else 0) + P) := by
  by_cases hn : n = 0
  · refine ⟨0, fun s => ?_⟩
    subst hn; rw [ofRatio_zero, Nat.add_zero]
  · by_cases hd : d = 0
    · refine ⟨0, fun s => ?_⟩
      subst hd
      simp [ofRatio]
    · exact ⟨_, fun s => (ofRatio_eq s n d hn hd).trans (ofRatioPack_eq_payload _ _ _)⟩

/-- the sign bit is simply added: if the unsigned conversion gives `|x|`, the conversion with
    the sign of `x` gives `x` -/
theorem ofRatio_sign (s : Bool) (n d : Nat) (x : F64) (h : ofRatio false n d = x.abs)
    (hs : s = x.neg) : ofRatio s n d = x := by
  obtain ⟨P, hP⟩ := ofRatio_sign_payload n d
  have h0 := hP false
  rw [h] at h0
  unfold abs at h0
  have h1 := (ofNatBits_eq_iff _ _).1 h0
  rw [hP s, hs]
  conv => rhs; rw [eq_ofNatBits_sign_mag x]
  apply (ofNatBits_eq_iff _ _).2
  simp only [Bool.false_eq_true, if_false] at h1
  generalize (if x.neg = true then 2 ^ 63 else 0) = sb
  omega

theorem decVal_sign (m : Nat) (e : Int) (x : F64) (h : decVal false m e = x.abs) :
    decVal x.neg m e = x := by
  unfold decVal at h ⊢
  split
  · next he => rw [if_pos he] at h; exact ofRatio_sign _ _ _ x h rfl
  · next he => rw [if_neg he] at h; exact ofRatio_sign _ _ _ x h rfl

/-! ### trailing zeros -/

theorem ten_pow_pos (k : Nat) : 0 < 10 ^ k := Nat.pow_pos (by decide)

/-- `(d × 10) × 10^e = d × 10^(e+1)` under `decVal` -/
theorem decVal_mul_ten (neg : Bool) (d : Nat) (e : Int) :
    decVal neg (d * 10) e = decVal neg d (e + 1) := by
  unfold decVal
  by_cases h0 : e ≥ 0
  · have h1 : e + 1 ≥ 0 := by omega
    have ht : (e + 1).toNat = e.toNat + 1 := by omega
    rw [if_pos h0, if_pos h1, ht, Nat.pow_succ, Nat.mul_assoc, Nat.mul_comm 10]
  · by_cases h1 : e + 1 ≥ 0
    · have he : e = -1 := by omega
      subst he
      rw [if_neg h0, if_pos h1]
      exact ofRatio_congr neg _ _ _ _ (ten_pow_pos _) (by decide) (by simp)
    · rw [if_neg h0, if_neg h1]
      have ht : (-e).toNat = (-(e + 1)).toNat + 1 := by omega
      rw [ht, Nat.pow_succ]
      apply ofRatio_congr neg _ _ _ _ (Nat.mul_pos (ten_pow_pos _) (by decide)) (ten_pow_pos _)
      generalize 10 ^ (-(e + 1)).toNat = p
      rw [Nat.mul_right_comm, Nat.mul_assoc]

theorem strip_zero (e : Int) (fuel : Nat) : (shortestDigitsWith.strip 0 e fuel).1 = 0 := by
  cases fuel with
  | zero => rfl
  | succ f => rfl

/-- stripping trailing zeros does not change the converted value -/
theorem strip_decVal (neg : Bool) : ∀ (fuel d : Nat) (e : Int),
    decVal neg (shortestDigitsWith.strip d e fuel).1 (shortestDigitsWith.strip d e fuel).2 =
      decVal neg d e
  | 0, d, e => rfl
  | fuel + 1, d, e => by
    rw [shortestDigitsWith.strip.eq_2]
    split
    · next h =>
      simp only [Bool.and_eq_true, decide_eq_true_eq] at h
      rw [strip_decVal neg fuel (d / 10) (e + 1), ← decVal_mul_ten]
      have : d / 10 * 10 = d := by omega
      rw [this]
    · rfl

/-- a non-zero mantissa stays non-zero -/
theorem strip_ne_zero : ∀ (fuel d : Nat) (e : Int), d ≠ 0 →
    (shortestDigitsWith.strip d e fuel).1 ≠ 0
  | 0, d, e, hd => hd
  | fuel + 1, d, e, hd => by
    rw [shortestDigitsWith.strip.eq_2]
    split
    · next h =>
      simp only [Bool.and_eq_true, decide_eq_true_eq] at h
      exact strip_ne_zero fuel (d / 10) (e + 1) (by omega)
    · exact hd

/-! ### the digit search -/

/-- the read-back test `rt` of `shortestDigitsWith.go` -/
def goRt (ax : F64) (sh : Int) (dd : Nat) : Bool :=
  dd ≠ 0 && (if sh ≥ 0 then ofRatio false (dd * 10 ^ sh.toNat) 1
             else ofRatio false dd (10 ^ (-sh).toNat)) == ax

/-- the candidate selection `pick` of `shortestDigitsWith.go` -/
def goPick (tieUp : Bool) (sn sd : Nat) (rt : Nat → Bool) : Option Nat :=
  let lo := sn / sd
  let r := sn % sd
  let hi := lo + 1
  let okLo := rt lo
  let okHi := rt hi
  if r = 0 && okLo then some lo
  else if okLo && okHi then
    (if 2 * r < sd then some lo else if 2 * r > sd then some hi
     else if !tieUp && lo % 2 = 0 then some lo else some hi)
  else if okLo then some lo
  else if okHi then some hi
  else none

/-- the scaled fraction of round `n` -/
def goScaled (num den : Nat) (sh : Int) : Nat × Nat :=
  if sh ≥ 0 then (num, den * 10 ^ sh.toNat) else (num * 10 ^ (-sh).toNat, den)

/-- one round of `shortestDigitsWith.go` in terms of the staged copies -/
theorem go_succ (tieUp : Bool) (num den : Nat) (ax : F64) (k : Int) (n fuel : Nat) :
    shortestDigitsWith.go tieUp num den ax k n (fuel + 1) =
      match goPick tieUp (goScaled num den (k - Int.ofNat n + 1)).1
          (goScaled num den (k - Int.ofNat n + 1)).2 (goRt ax (k - Int.ofNat n + 1)) with
      | some dd => (dd, k - Int.ofNat n + 1)
      | none => shortestDigitsWith.go tieUp num den ax k (n + 1) fuel := by
  rw [shortestDigitsWith.go.eq_2]
  rfl

/-- whatever `pick` selects passed the read-back test -/
theorem goPick_sound (tieUp : Bool) (sn sd : Nat) (rt : Nat → Bool) (dd : Nat)
    (h : goPick tieUp sn sd rt = some dd) : rt dd = true := by
  unfold goPick at h
  simp only [] at h
  split at h
  · next h1 =>
    simp only [Bool.and_eq_true] at h1
    cases h; exact h1.2
  · split at h
    · next h2 =>
      simp only [Bool.and_eq_true] at h2
      split at h
      · cases h; exact h2.1
      · split at h
        · cases h; exact h2.2
        · split at h
          · cases h; exact h2.1
          · cases h; exact h2.2
    · split at h
      · next h3 => cases h; exact h3
      · split at h
        · next h4 => cases h; exact h4
        · cases h

theorem goRt_sound (ax : F64) (sh : Int) (dd : Nat) (h : goRt ax sh dd = true) :
    dd ≠ 0 ∧ decVal false dd sh = ax := by
  unfold goRt at h
  simp only [Bool.and_eq_true, decide_eq_true_eq, beq_iff_eq] at h
  exact h

/-- a non-zero result of the search passed the read-back test -/
theorem go_sound (tieUp : Bool) (num den : Nat) (ax : F64) (k : Int) : ∀ (fuel n : Nat),
    (shortestDigitsWith.go tieUp num den ax k n fuel).1 ≠ 0 →
    decVal false (shortestDigitsWith.go tieUp num den ax k n fuel).1
      (shortestDigitsWith.go tieUp num den ax k n fuel).2 = ax
  | 0, n, h => by
    rw [shortestDigitsWith.go.eq_1] at h
    exact absurd rfl h
  | fuel + 1, n, h => by
    rw [go_succ] at h ⊢
    cases hp : goPick tieUp (goScaled num den (k - Int.ofNat n + 1)).1
        (goScaled num den (k - Int.ofNat n + 1)).2 (goRt ax (k - Int.ofNat n + 1)) with
    | some dd =>
      exact (goRt_sound _ _ _ (goPick_sound _ _ _ _ _ hp)).2
    | none =>
      rw [hp] at h
      exact go_sound tieUp num den ax k fuel (n + 1) h

/-! ### `shortestDigitsWith` -/

/-- the decimal exponent estimate `k` of `shortestDigitsWith` -/
def shortestK (num den : Nat) : Int :=
  let est : Int := (Int.ofNat num.log2 - Int.ofNat den.log2) * 30103 / 100000
  let ge10 (k : Int) : Bool :=
    if k ≥ 0 then num ≥ den * 10 ^ k.toNat else num * 10 ^ (-k).toNat ≥ den
  let k0 := est - 1
  let k1 := if ge10 (k0 + 1) then k0 + 1 else k0
  let k2 := if ge10 (k1 + 1) then k1 + 1 else k1
  if ge10 (k2 + 1) then k2 + 1 else k2

/-- the result of the digit search before trailing zeros are stripped -/
def shortestRaw (tieUp : Bool) (x : F64) : Nat × Int :=
  shortestDigitsWith.go tieUp x.ratio.1 x.ratio.2 x.abs (shortestK x.ratio.1 x.ratio.2) 1 18

theorem shortestDigitsWith_eq (tieUp : Bool) (x : F64) :
    x.shortestDigitsWith tieUp =
      shortestDigitsWith.strip (shortestRaw tieUp x).1 (shortestRaw tieUp x).2 20 := by
  unfold shortestDigitsWith shortestRaw shortestK
  generalize x.ratio = r
  obtain ⟨num, den⟩ := r
  simp only []

/-- the digit search of `shortestDigitsWith` found a candidate within its 18 rounds
    (17 significant digits always suffice for a double; this is validated by the harness,
    not proved) -/
def ShortestFound (tieUp : Bool) (x : F64) : Prop := (x.shortestDigitsWith tieUp).1 ≠ 0

theorem shortestFound_iff_raw (tieUp : Bool) (x : F64) :
    ShortestFound tieUp x ↔ (shortestRaw tieUp x).1 ≠ 0 := by
  unfold ShortestFound
  rw [shortestDigitsWith_eq]
  constructor
  · intro h h0
    rw [h0] at h
    exact h (strip_zero _ _)
  · exact strip_ne_zero _ _ _

/-- the digits produced by `shortestDigitsWith` read back as `|x|` -/
theorem shortestDigitsWith_value (tieUp : Bool) (x : F64) (h : ShortestFound tieUp x) :
    decVal false (x.shortestDigitsWith tieUp).1 (x.shortestDigitsWith tieUp).2 = x.abs := by
  have hraw := (shortestFound_iff_raw tieUp x).1 h
  rw [shortestDigitsWith_eq, strip_decVal]
  exact go_sound tieUp _ _ _ _ 18 1 hraw

/-! ### `toDisplay` -/

theorem toDisplay_finite (x : F64) (hf : x.isFinite = true) :
    toDisplay x = (if x.neg then "-" else "") ++
      (if x.isZero then "0" else positional (natDigits x.shortestDigits.1) x.shortestDigits.2) := by
  unfold toDisplay
  simp only [isNaN_of_isFinite x hf, isInf_of_isFinite x hf, Bool.false_eq_true, if_false]
  split <;> rfl

theorem eq_signed_zero_of_isZero (x : F64) (h : x.isZero = true) :
    x = ofNatBits (if x.neg then 2 ^ 63 else 0) := by
  have hm : x.mag = 0 := by simpa [isZero] using h
  have := eq_ofNatBits_sign_mag x
  rw [hm, Nat.add_zero] at this
  exact this

/-- Rust's `{}` of a finite double reads back as the same double (including `-0`), provided
    the digit search succeeded -/
theorem parseDec_toDisplay (x : F64) (hf : x.isFinite = true)
    (h : x.isZero = true ∨ ShortestFound true x) : parseDec (toDisplay x) = some x := by
  rw [toDisplay_finite x hf]
  by_cases hz : x.isZero = true
  · rw [if_pos hz]
    have h0 : "0" = positional (natDigits 0) 0 := by decide
    rw [h0, parseDec_positional]
    congr 1
    have : ((0 : Int) ≥ 0) := by decide
    rw [if_pos this, Nat.zero_mul, ofRatio_zero]
    exact (eq_signed_zero_of_isZero x hz).symm
  · rw [if_neg hz, parseDec_positional]
    congr 1
    have hfound : ShortestFound true x := h.resolve_left hz
    exact decVal_sign _ _ x (shortestDigitsWith_value true x hfound)

/-! ### concrete instances -/

theorem parseDec_toDisplay_neg_zero : parseDec (toDisplay negZero) = some negZero :=
  parseDec_toDisplay negZero (by decide) (Or.inl (by decide))

example : toDisplay negZero = "-0" := by decide

-- the hypotheses of `parseDec_toDisplay` are met by 0.1 (found in the first round) ...
example : ShortestFound true (ofNatBits 0x3FB999999999999A) := by unfold ShortestFound; decide
example : (ofNatBits 0x3FB999999999999A).shortestDigitsWith true = (1, -1) := by decide
example : toDisplay (ofNatBits 0x3FB999999999999A) = "0.1" := by decide
example : parseDec (toDisplay (ofNatBits 0x3FB999999999999A)) = some (ofNatBits 0x3FB999999999999A) :=
  parseDec_toDisplay _ (by decide) (Or.inr (by unfold ShortestFound; decide))
-- ... by -1/3 (16 rounds, negative) ...
example : (ofNatBits 0xBFD5555555555555).shortestDigitsWith true = (3333333333333333, -16) := by
  decide
example : toDisplay (ofNatBits 0xBFD5555555555555) = "-0.3333333333333333" := by decide
example : parseDec (toDisplay (ofNatBits 0xBFD5555555555555)) = some (ofNatBits 0xBFD5555555555555) :=
  parseDec_toDisplay _ (by decide) (Or.inr (by unfold ShortestFound; decide))
-- ... by the largest finite double (17 rounds) and the smallest subnormal
example : (ofNatBits 0x7FEFFFFFFFFFFFFF).shortestDigitsWith true = (17976931348623157, 292) := by
  decide +kernel
example : (ofNatBits 1).shortestDigitsWith true = (5, -324) := by decide +kernel
example : parseDec (toDisplay (ofNatBits 0x7FEFFFFFFFFFFFFF)) = some (ofNatBits 0x7FEFFFFFFFFFFFFF) :=
  parseDec_toDisplay _ (by decide) (Or.inr (by unfold ShortestFound; decide +kernel))
example : parseDec (toDisplay (ofNatBits 1)) = some (ofNatBits 1) :=
  parseDec_toDisplay _ (by decide) (Or.inr (by unfold ShortestFound; decide +kernel))
-- `shortestDigitsWith_value` on the tie 2^-25, both tie rules
example : (ofNatBits 0x3E60000000000000).shortestDigitsWith true = (29802322387695313, -24) := by
  decide
example : (ofNatBits 0x3E60000000000000).shortestDigitsWith false = (29802322387695312, -24) := by
  decide
example : decVal false 29802322387695312 (-24) = (ofNatBits 0x3E60000000000000).abs :=
  shortestDigitsWith_value false (ofNatBits 0x3E60000000000000) (by unfold ShortestFound; decide)
-- `ofRatio_sign` / `decVal_sign` : 3/2 with the sign of -1.5
example : ofRatio true 3 2 = ofNatBits 0xBFF8000000000000 :=
  ofRatio_sign true 3 2 (ofNatBits 0xBFF8000000000000) (by decide) (by decide)
-- trailing zeros: 1200 × 10^-3 = 12 × 10^-1 (the sign of the exponent is kept here, changed below)
example : shortestDigitsWith.strip 1200 (-3) 20 = (12, -1) := by decide
example : shortestDigitsWith.strip 1200 (-1) 20 = (12, 1) := by decide
example : decVal false 12 1 = decVal false 1200 (-1) := by
  have h := strip_decVal false 20 1200 (-1)
  rw [show shortestDigitsWith.strip 1200 (-1) 20 = (12, 1) by decide] at h
  exact h
example : decVal true (12 * 10) (-1) = decVal true 12 0 := decVal_mul_ten true 12 (-1)

end Blots.F64
