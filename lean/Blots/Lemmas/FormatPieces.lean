import Blots.Lemmas.FormatLemmas
/-
  Comment preservation of the width-driven layouts (`fmtImplP` and the per-kind layouts of
  `Model/Format.lean`), for every tree, width and indent.

  * `commentsG rt e`  : the comments of the tree in source order (`rt` = count the trailing
    comment of the `return` item of do-blocks, which `format_do_block_multiline` never prints);
  * `Good ps cs`      : the comment pieces of `ps` were copied, in order, from the comments `cs`
    (`commentOrigs ps = cs`) and every comment piece shows its comment up to the one rewrite
    the formatter performs on formatted text (`CommentKept`: carriage returns deleted, line
    feeds deleted at the end);
  * `good_impl` …     : `Good (fmtImplP w indent e) (commentsG false e)` by mutual structural
    induction over Expr / Item / Entry / Key and their lists, through every layout branch;
  * `CommentKept s o` with a clean `o` (no `'\r'`, not ending in `'\n'`) gives `s = o`.
  * `render_relineP` : the piece-level `relineP` renders to the `lines()` / `join("\n")`
    expression of `format_binary_op_multiline` (`relines`, via `joinNl_linesL`,
    `relinesL_eq_T1`).
-/
namespace Blots
namespace FormatP
open FormatL

/-! ### the comments of a tree, in source order -/

mutual
/-- every leading and trailing comment of every `Commented` wrapper of the printed tree, in
    source order.  The `value` of a shorthand or spread record entry is not part of the tree
    (the parser puts a dummy `Null` there, expressions.rs `RecordKey::Shorthand` /
    `RecordKey::Spread` arms), as in `contains_comments`. -/
def commentsG (rt : Bool) : Expr → List String
  | .list items => itemsCommentsG rt items
  | .record es => entriesCommentsG rt es
  | .lambda _ b => commentsG rt b
  | .cond c t e => commentsG rt c ++ (commentsG rt t ++ commentsG rt e)
  | .doBlock ss r => itemsCommentsG rt ss ++ retCommentsG rt r
  | .assign _ v => commentsG rt v
  | .output e => commentsG rt e
  | .call f as => commentsG rt f ++ exprsCommentsG rt as
  | .access e i => commentsG rt e ++ commentsG rt i
  | .dot e _ => commentsG rt e
  | .bin _ l r => commentsG rt l ++ commentsG rt r
  | .un _ e => commentsG rt e
  | .fact e => commentsG rt e
  | .spread e => commentsG rt e
  | _ => []
def exprsCommentsG (rt : Bool) : List Expr → List String
  | [] => []
  | e :: es => commentsG rt e ++ exprsCommentsG rt es
/-- leading comments, the comments inside the expression, the trailing comment -/
def itemCommentsG (rt : Bool) : Item → List String
  | .mk l e t => l ++ (commentsG rt e ++ t.toList)
def itemsCommentsG (rt : Bool) : List Item → List String
  | [] => []
  | i :: is => itemCommentsG rt i ++ itemsCommentsG rt is
/-- the `return` item of a do-block -/
def retCommentsG (rt : Bool) : Item → List String
  | .mk l e t => l ++ (commentsG rt e ++ (if rt then t.toList else []))
def entryCommentsG (rt : Bool) : Entry → List String
  | .mk l k v t => l ++ (keyCommentsG rt k (commentsG rt v) ++ t.toList)
def entriesCommentsG (rt : Bool) : List Entry → List String
  | [] => []
  | e :: es => entryCommentsG rt e ++ entriesCommentsG rt es
/-- key, then value (`vc` = the comments of the value) -/
def keyCommentsG (rt : Bool) : Key → List String → List String
  | .static _, vc => vc
  | .dyn k, vc => commentsG rt k ++ vc
  | .short _, _ => []
  | .spread e, _ => commentsG rt e
end

/-- all comments of the tree -/
abbrev commentsOf (e : Expr) : List String := commentsG true e

/-- the comments `format_expr` prints: all but the trailing comments of `return` items -/
abbrev printedComments (e : Expr) : List String := commentsG false e

mutual
/-- no `return` item of a do-block carries a trailing comment (true of every tree the parser
    builds: `Commented::with_comments(…, expr, None)` in the `Rule::return_statement` arm) -/
def retClean : Expr → Bool
  | .list items => itemsRetClean items
  | .record es => entriesRetClean es
  | .lambda _ b => retClean b
  | .cond c t e => retClean c && (retClean t && retClean e)
  | .doBlock ss r => itemsRetClean ss && retItemClean r
  | .assign _ v => retClean v
  | .output e => retClean e
  | .call f as => retClean f && exprsRetClean as
  | .access e i => retClean e && retClean i
  | .dot e _ => retClean e
  | .bin _ l r => retClean l && retClean r
  | .un _ e => retClean e
  | .fact e => retClean e
  | .spread e => retClean e
  | _ => true
def exprsRetClean : List Expr → Bool
  | [] => true
  | e :: es => retClean e && exprsRetClean es
def itemRetClean : Item → Bool
  | .mk _ e _ => retClean e
def itemsRetClean : List Item → Bool
  | [] => true
  | i :: is => itemRetClean i && itemsRetClean is
def retItemClean : Item → Bool
  | .mk _ e t => retClean e && t.isNone
def entryRetClean : Entry → Bool
  | .mk _ k v _ => keyRetClean k (retClean v)
def entriesRetClean : List Entry → Bool
  | [] => true
  | e :: es => entryRetClean e && entriesRetClean es
def keyRetClean : Key → Bool → Bool
  | .static _, vc => vc
  | .dyn k, vc => retClean k && vc
  | .short _, _ => true
  | .spread e, _ => retClean e
end

mutual
theorem commentsG_retClean : ∀ e : Expr, retClean e = true → commentsG true e = commentsG false e
  | .list items, h => by
    simp only [retClean] at h; simp only [commentsG, itemsG_retClean items h]
  | .record es, h => by
    simp only [retClean] at h; simp only [commentsG, entriesG_retClean es h]
  | .lambda _ b, h => by
    simp only [retClean] at h; simp only [commentsG, commentsG_retClean b h]
  | .cond c t e, h => by
    simp only [retClean, Bool.and_eq_true] at h
    simp only [commentsG, commentsG_retClean c h.1, commentsG_retClean t h.2.1,
      commentsG_retClean e h.2.2]
  | .doBlock ss r, h => by
    simp only [retClean, Bool.and_eq_true] at h
    simp only [commentsG, itemsG_retClean ss h.1, retG_retClean r h.2]
  | .assign _ v, h => by
    simp only [retClean] at h; simp only [commentsG, commentsG_retClean v h]
  | .output e, h => by
    simp only [retClean] at h; simp only [commentsG, commentsG_retClean e h]
  | .call f as, h => by
    simp only [retClean, Bool.and_eq_true] at h
    simp only [commentsG, commentsG_retClean f h.1, exprsG_retClean as h.2]
  | .access e i, h => by
    simp only [retClean, Bool.and_eq_true] at h
    simp only [commentsG, commentsG_retClean e h.1, commentsG_retClean i h.2]
  | .dot e _, h => by
    simp only [retClean] at h; simp only [commentsG, commentsG_retClean e h]
  | .bin _ l r, h => by
    simp only [retClean, Bool.and_eq_true] at h
    simp only [commentsG, commentsG_retClean l h.1, commentsG_retClean r h.2]
  | .un _ e, h => by
    simp only [retClean] at h; simp only [commentsG, commentsG_retClean e h]
  | .fact e, h => by
    simp only [retClean] at h; simp only [commentsG, commentsG_retClean e h]
  | .spread e, h => by
    simp only [retClean] at h; simp only [commentsG, commentsG_retClean e h]
  | .num _, _ | .str _, _ | .bool _, _ | .null, _ | .ident _, _ | .inref _, _
  | .builtin _, _ => by simp only [commentsG]
theorem exprsG_retClean : ∀ es : List Expr, exprsRetClean es = true →
    exprsCommentsG true es = exprsCommentsG false es
  | [], _ => rfl
  | e :: es, h => by
    simp only [exprsRetClean, Bool.and_eq_true] at h
    simp only [exprsCommentsG, commentsG_retClean e h.1, exprsG_retClean es h.2]
theorem itemG_retClean : ∀ i : Item, itemRetClean i = true →
    itemCommentsG true i = itemCommentsG false i
  | .mk _ e _, h => by
    simp only [itemRetClean] at h; simp only [itemCommentsG, commentsG_retClean e h]
theorem itemsG_retClean : ∀ is : List Item, itemsRetClean is = true →
    itemsCommentsG true is = itemsCommentsG false is
  | [], _ => rfl
  | i :: is, h => by
    simp only [itemsRetClean, Bool.and_eq_true] at h
    simp only [itemsCommentsG, itemG_retClean i h.1, itemsG_retClean is h.2]
theorem retG_retClean : ∀ i : Item, retItemClean i = true →
    retCommentsG true i = retCommentsG false i
  | .mk _ e t, h => by
    simp only [retItemClean, Bool.and_eq_true, Option.isNone_iff_eq_none] at h
    simp [retCommentsG, commentsG_retClean e h.1, h.2]
theorem entryG_retClean : ∀ en : Entry, entryRetClean en = true →
    entryCommentsG true en = entryCommentsG false en
  | .mk _ k v _, h => by
    simp only [entryRetClean] at h
    simp only [entryCommentsG]
    rw [keyG_retClean k (retClean v) _ _ (commentsG_retClean v) h]
theorem entriesG_retClean : ∀ es : List Entry, entriesRetClean es = true →
    entriesCommentsG true es = entriesCommentsG false es
  | [], _ => rfl
  | e :: es, h => by
    simp only [entriesRetClean, Bool.and_eq_true] at h
    simp only [entriesCommentsG, entryG_retClean e h.1, entriesG_retClean es h.2]
theorem keyG_retClean : ∀ (k : Key) (vb : Bool) (vt vf : List String), (vb = true → vt = vf) →
    keyRetClean k vb = true → keyCommentsG true k vt = keyCommentsG false k vf
  | .static _, _, _, _, hv, h => by
    simp only [keyRetClean] at h; simp only [keyCommentsG, hv h]
  | .dyn k, _, _, _, hv, h => by
    simp only [keyRetClean, Bool.and_eq_true] at h
    simp only [keyCommentsG, commentsG_retClean k h.1, hv h.2]
  | .short _, _, _, _, _, _ => rfl
  | .spread e, _, _, _, _, h => by
    simp only [keyRetClean] at h; simp only [keyCommentsG, commentsG_retClean e h]
end

/-! ### a tree without comments has no comments -/

theorem append_nil_of {α} {a b : List α} (ha : a = []) (hb : b = []) : a ++ b = [] := by
  subst ha; subst hb; rfl

mutual
theorem commentsG_nil : ∀ (e : Expr) (rt : Bool), anyComment e = false → commentsG rt e = []
  | .list items, rt, h => by
    simp only [anyComment] at h; simp only [commentsG, itemsG_nil items rt h]
  | .record es, rt, h => by
    simp only [anyComment] at h; simp only [commentsG, entriesG_nil es rt h]
  | .lambda _ b, rt, h => by
    simp only [anyComment] at h; simp only [commentsG, commentsG_nil b rt h]
  | .cond c t e, rt, h => by
    simp only [anyComment, Bool.or_eq_false_iff] at h
    simp only [commentsG, commentsG_nil c rt h.1.1, commentsG_nil t rt h.1.2,
      commentsG_nil e rt h.2, List.append_nil]
  | .doBlock ss r, rt, h => by
    simp only [anyComment, Bool.or_eq_false_iff] at h
    simp only [commentsG, itemsG_nil ss rt h.1, retG_nil r rt h.2, List.append_nil]
  | .assign _ v, rt, h => by
    simp only [anyComment] at h; simp only [commentsG, commentsG_nil v rt h]
  | .output e, rt, h => by
    simp only [anyComment] at h; simp only [commentsG, commentsG_nil e rt h]
  | .call f as, rt, h => by
    simp only [anyComment, Bool.or_eq_false_iff] at h
    simp only [commentsG, commentsG_nil f rt h.1, exprsG_nil as rt h.2, List.append_nil]
  | .access e i, rt, h => by
    simp only [anyComment, Bool.or_eq_false_iff] at h
    simp only [commentsG, commentsG_nil e rt h.1, commentsG_nil i rt h.2, List.append_nil]
  | .dot e _, rt, h => by
    simp only [anyComment] at h; simp only [commentsG, commentsG_nil e rt h]
  | .bin _ l r, rt, h => by
    simp only [anyComment, Bool.or_eq_false_iff] at h
    simp only [commentsG, commentsG_nil l rt h.1, commentsG_nil r rt h.2, List.append_nil]
  | .un _ e, rt, h => by
    simp only [anyComment] at h; simp only [commentsG, commentsG_nil e rt h]
  | .fact e, rt, h => by
    simp only [anyComment] at h; simp only [commentsG, commentsG_nil e rt h]
  | .spread e, rt, h => by
    simp only [anyComment] at h; simp only [commentsG, commentsG_nil e rt h]
  | .num _, _, _ | .str _, _, _ | .bool _, _, _ | .null, _, _ | .ident _, _, _ | .inref _, _, _
  | .builtin _, _, _ => by simp only [commentsG]
theorem exprsG_nil : ∀ (es : List Expr) (rt : Bool), exprsAnyComment es = false →
    exprsCommentsG rt es = []
  | [], _, _ => rfl
  | e :: es, rt, h => by
    simp only [exprsAnyComment, Bool.or_eq_false_iff] at h
    simp only [exprsCommentsG, commentsG_nil e rt h.1, exprsG_nil es rt h.2, List.append_nil]
theorem itemG_nil : ∀ (i : Item) (rt : Bool), itemAnyComment i = false → itemCommentsG rt i = []
  | .mk l e t, rt, h => by
    simp only [itemAnyComment, Bool.or_eq_false_iff, Bool.not_eq_false', List.isEmpty_iff,
      Option.isSome_eq_false_iff, Option.isNone_iff_eq_none] at h
    simp [itemCommentsG, commentsG_nil e rt h.2, h.1.1, h.1.2]
theorem itemsG_nil : ∀ (is : List Item) (rt : Bool), itemsAnyComment is = false →
    itemsCommentsG rt is = []
  | [], _, _ => rfl
  | i :: is, rt, h => by
    simp only [itemsAnyComment, Bool.or_eq_false_iff] at h
    simp only [itemsCommentsG, itemG_nil i rt h.1, itemsG_nil is rt h.2, List.append_nil]
theorem retG_nil : ∀ (i : Item) (rt : Bool), itemAnyComment i = false → retCommentsG rt i = []
  | .mk l e t, rt, h => by
    simp only [itemAnyComment, Bool.or_eq_false_iff, Bool.not_eq_false', List.isEmpty_iff,
      Option.isSome_eq_false_iff, Option.isNone_iff_eq_none] at h
    simp [retCommentsG, commentsG_nil e rt h.2, h.1.1, h.1.2]
theorem entryG_nil : ∀ (en : Entry) (rt : Bool), entryAnyComment en = false →
    entryCommentsG rt en = []
  | .mk l k v t, rt, h => by
    simp only [entryAnyComment, Bool.or_eq_false_iff, Bool.not_eq_false', List.isEmpty_iff,
      Option.isSome_eq_false_iff, Option.isNone_iff_eq_none] at h
    have hk := keyG_nil k rt (anyComment v) (commentsG rt v) (commentsG_nil v rt) h.2
    simp [entryCommentsG, hk, h.1.1, h.1.2]
theorem entriesG_nil : ∀ (es : List Entry) (rt : Bool), entriesAnyComment es = false →
    entriesCommentsG rt es = []
  | [], _, _ => rfl
  | e :: es, rt, h => by
    simp only [entriesAnyComment, Bool.or_eq_false_iff] at h
    simp only [entriesCommentsG, entryG_nil e rt h.1, entriesG_nil es rt h.2, List.append_nil]
theorem keyG_nil : ∀ (k : Key) (rt : Bool) (va : Bool) (vc : List String),
    (va = false → vc = []) → keyAnyComment k va = false → keyCommentsG rt k vc = []
  | .static _, _, _, _, hv, h => by
    simp only [keyAnyComment] at h; simp only [keyCommentsG, hv h]
  | .dyn k, rt, _, _, hv, h => by
    simp only [keyAnyComment, Bool.or_eq_false_iff] at h
    simp only [keyCommentsG, commentsG_nil k rt h.1, hv h.2, List.append_nil]
  | .short _, _, _, _, _, _ => rfl
  | .spread e, rt, _, _, _, h => by
    simp only [keyAnyComment] at h; simp only [keyCommentsG, commentsG_nil e rt h]
end

/-- the single-line text is used only when there is no comment to print -/
theorem commentsG_nil_of_single (e : Expr) (rt : Bool) (h : hasNewline (fmtSingle e) = false) :
    commentsG rt e = [] := by
  apply commentsG_nil
  cases ha : anyComment e
  · rfl
  · rw [anyComment_forces_multiline e ha] at h; cases h

/-! ### what the formatter may do to the text of a comment -/

/-- characters other than carriage returns -/
def dropCR (l : List Char) : List Char := l.filter (· != '\r')

/-- `out` is `c` with some carriage returns deleted and possibly line feeds deleted at its end -/
def keptL (out c : List Char) : Prop :=
  out.Sublist c ∧ ∃ k, dropCR c = dropCR out ++ List.replicate k '\n'

/-- the text `shown` in the output for the comment `orig` of the tree -/
def CommentKept (shown orig : String) : Prop := keptL shown.toList orig.toList

theorem keptL_refl (l : List Char) : keptL l l := ⟨List.Sublist.refl l, 0, by simp⟩

theorem replicate_append_replicate {α} (a b : Nat) (x : α) :
    List.replicate a x ++ List.replicate b x = List.replicate (a + b) x := by
  induction a with
  | zero => simp
  | succ n ih => rw [Nat.succ_add, List.replicate_succ, List.replicate_succ, List.cons_append, ih]

theorem keptL_trans {a b c : List Char} (h1 : keptL a b) (h2 : keptL b c) : keptL a c := by
  obtain ⟨s1, k1, e1⟩ := h1
  obtain ⟨s2, k2, e2⟩ := h2
  refine ⟨s1.trans s2, k1 + k2, ?_⟩
  rw [e2, e1, List.append_assoc, replicate_append_replicate]

theorem stripCRs_sublist (next : Option Char) : ∀ l : List Char, (stripCRs next l).Sublist l
  | [] => List.Sublist.slnil
  | c :: t => by
    simp only [stripCRs]
    split
    · exact List.Sublist.cons _ (stripCRs_sublist next t)
    · exact List.Sublist.cons_cons _ (stripCRs_sublist next t)

theorem dropCR_stripCRs (next : Option Char) : ∀ l : List Char, dropCR (stripCRs next l) = dropCR l
  | [] => rfl
  | c :: t => by
    simp only [stripCRs]
    split
    · rename_i h
      simp only [Bool.and_eq_true, beq_iff_eq] at h
      simp [dropCR, h.1]
      exact dropCR_stripCRs next t
    · simp only [dropCR, List.filter_cons]
      split
      · congr 1; exact dropCR_stripCRs next t
      · exact dropCR_stripCRs next t

theorem keptL_stripCRs (next : Option Char) (l : List Char) : keptL (stripCRs next l) l :=
  ⟨stripCRs_sublist next l, 0, by simp [dropCR_stripCRs]⟩

theorem keptL_dropLast (l : List Char) (h : l.getLast? = some '\n') : keptL l.dropLast l := by
  refine ⟨List.dropLast_sublist l, 1, ?_⟩
  have hl : l = l.dropLast ++ ['\n'] := by
    cases l with
    | nil => simp at h
    | cons a t =>
      have hne : a :: t ≠ [] := by simp
      have := List.dropLast_concat_getLast hne
      rw [List.getLast?_eq_some_getLast hne] at h
      injection h with h
      rw [h] at this
      exact this.symm
  conv => lhs; rw [hl]
  simp [dropCR, List.filter_append]

/-- a comment without carriage return that does not end in a line feed is shown unchanged -/
def cleanL (c : List Char) : Prop := '\r' ∉ c ∧ c.getLast? ≠ some '\n'

theorem dropCR_eq_self {c : List Char} (h : '\r' ∉ c) : dropCR c = c := by
  unfold dropCR
  rw [List.filter_eq_self]
  intro a ha
  simp only [bne_iff_ne, ne_eq]
  intro hr; subst hr; exact h ha

theorem getLast?_append_replicate_succ (a : List Char) (k : Nat) :
    (a ++ List.replicate (k + 1) '\n').getLast? = some '\n' := by
  rw [List.replicate_succ', ← List.append_assoc, List.getLast?_append]
  simp

theorem keptL_clean {out c : List Char} (h : keptL out c) (hc : cleanL c) : out = c := by
  obtain ⟨hs, k, hk⟩ := h
  rw [dropCR_eq_self hc.1] at hk
  cases k with
  | succ k => exact absurd (hk ▸ getLast?_append_replicate_succ _ k) hc.2
  | zero =>
    simp only [List.replicate_zero, List.append_nil] at hk
    apply hs.eq_of_length_le
    rw [hk]
    exact List.length_filter_le _ _

def cleanComment (c : String) : Prop := cleanL c.toList

theorem CommentKept.eq_of_clean {s o : String} (h : CommentKept s o) (hc : cleanComment o) : s = o :=
  String.toList_inj.mp (keptL_clean h hc)

/-! ### pieces: rendering, comment pieces -/

/-- a comment piece shows its comment, up to `CommentKept` -/
def _root_.Blots.Piece.Kept : Piece → Prop
  | .text _ => True
  | .comment o s => CommentKept s o

theorem render_nil : render [] = "" := rfl

theorem render_append (a b : List Piece) : render (a ++ b) = render a ++ render b := by
  apply String.toList_inj.mp
  simp [render, String.toList_join]

theorem render_cons (p : Piece) (l : List Piece) : render (p :: l) = p.shown ++ render l := by
  apply String.toList_inj.mp
  simp [render, String.toList_join]

theorem render_text (s : String) (l : List Piece) : render (.text s :: l) = s ++ render l :=
  render_cons _ _

theorem render_single (s : String) : render [.text s] = s := by
  rw [render_cons, render_nil, String.append_empty]
  rfl

theorem origs_nil : commentOrigs [] = [] := rfl
theorem origs_append (a b : List Piece) : commentOrigs (a ++ b) = commentOrigs a ++ commentOrigs b := by
  simp [commentOrigs, List.filterMap_append]
theorem origs_text (s : String) (l : List Piece) : commentOrigs (.text s :: l) = commentOrigs l :=
  List.filterMap_cons_none rfl
theorem origs_comment (o s : String) (l : List Piece) :
    commentOrigs (.comment o s :: l) = o :: commentOrigs l :=
  List.filterMap_cons_some rfl

theorem shown_text (s : String) (l : List Piece) : commentPieces (.text s :: l) = commentPieces l :=
  List.filterMap_cons_none rfl
theorem shown_comment (o s : String) (l : List Piece) :
    commentPieces (.comment o s :: l) = s :: commentPieces l :=
  List.filterMap_cons_some rfl

/-- `Good ps cs`: the comment pieces of `ps` are copies of the comments `cs`, one for one and in
    order, and each of them shows its comment (up to `CommentKept`) -/
def Good (ps : List Piece) (cs : List String) : Prop :=
  commentOrigs ps = cs ∧ ∀ p ∈ ps, p.Kept

theorem Good.nil : Good [] [] := ⟨rfl, fun _ h => by cases h⟩

theorem Good.text {l : List Piece} {c : List String} (s : String) (h : Good l c) :
    Good (.text s :: l) c :=
  ⟨by rw [origs_text]; exact h.1, fun p hp => by
    rcases List.mem_cons.mp hp with rfl | hp
    · trivial
    · exact h.2 p hp⟩

theorem Good.single (s : String) : Good [.text s] [] := Good.text s Good.nil

theorem Good.comment {l : List Piece} {c : List String} (o : String) (h : Good l c) :
    Good (.comment o o :: l) (o :: c) :=
  ⟨by rw [origs_comment, h.1], fun p hp => by
    rcases List.mem_cons.mp hp with rfl | hp
    · exact keptL_refl _
    · exact h.2 p hp⟩

theorem Good.append {a b : List Piece} {ca cb : List String} (ha : Good a ca) (hb : Good b cb) :
    Good (a ++ b) (ca ++ cb) :=
  ⟨by rw [origs_append, ha.1, hb.1], fun p hp => by
    rcases List.mem_append.mp hp with hp | hp
    · exact ha.2 p hp
    · exact hb.2 p hp⟩

theorem Good.snoc {a : List Piece} {c : List String} (s : String) (h : Good a c) :
    Good (a ++ [.text s]) c := by
  have := Good.append h (Good.single s)
  rwa [List.append_nil] at this

theorem Good.cast {a : List Piece} {c c' : List String} (h : Good a c) (e : c = c') : Good a c' :=
  e ▸ h

theorem Good.lead (ind : String) : ∀ cs : List String, Good (leadP ind cs) cs
  | [] => Good.nil
  | c :: cs => Good.text _ (Good.comment c (Good.lead ind cs))

theorem Good.trail : ∀ t : Option String, Good (trailP t) t.toList
  | none => Good.nil
  | some t => Good.text _ (Good.comment t Good.nil)

theorem Good.paren (b : Bool) {ps : List Piece} {c : List String} (h : Good ps c) :
    Good (parenP b ps) c := by
  unfold parenP
  split
  · exact Good.text _ (Good.snoc _ h)
  · exact h

theorem Good.protect {ps : List Piece} {c : List String} (h : Good ps c) : Good (protectP ps) c := by
  unfold protectP
  split
  · exact Good.text _ (Good.snoc _ h)
  · exact h

/-- `protectP` is `protect_statement_start` on the rendered text -/
theorem render_protectP (ps : List Piece) : render (protectP ps) = protectStatementStart (render ps) := by
  unfold protectP protectStatementStart
  split
  · rename_i h
    simp only [h, render_text, render_append, render_nil, String.append_empty, String.append_assoc]
  · rename_i h
    split
    · rename_i c h2
      exact absurd h2 (h _)
    · rfl

/-! #### the `lines()` round trip keeps the pieces -/

theorem Kept_withShown (p : Piece) (s : String) (hp : p.Kept) (hs : keptL s.toList p.shown.toList) :
    (p.withShown s).Kept := by
  cases p with
  | text _ => trivial
  | comment o sh => exact keptL_trans hs hp

theorem origs_withShown_cons (p : Piece) (s : String) (l : List Piece) :
    commentOrigs (p.withShown s :: l) = commentOrigs (p :: l) := by
  cases p <;> rfl

theorem origs_stripP : ∀ ps : List Piece, commentOrigs (stripP ps) = commentOrigs ps
  | [] => rfl
  | p :: rest => by
    have ih := origs_stripP rest
    simp only [stripP]
    cases p with
    | text s => simp only [Piece.withShown, origs_text, ih]
    | comment o s => simp only [Piece.withShown, origs_comment, ih]

theorem kept_stripP : ∀ ps : List Piece, (∀ p ∈ ps, p.Kept) → ∀ p ∈ stripP ps, p.Kept
  | [], _, _, h => by cases h
  | p :: rest, hk, q, hq => by
    simp only [stripP] at hq
    rcases List.mem_cons.mp hq with rfl | hq
    · apply Kept_withShown _ _ (hk p List.mem_cons_self)
      rw [String.toList_ofList]
      exact keptL_stripCRs _ _
    · exact kept_stripP rest (fun p hp => hk p (List.mem_cons_of_mem _ hp)) q hq

theorem origs_dropFinalNlRev : ∀ ps : List Piece, commentOrigs (dropFinalNlRev ps) = commentOrigs ps
  | [] => rfl
  | p :: before => by
    simp only [dropFinalNlRev]
    split
    · cases p with
      | text s => simp only [origs_text, origs_dropFinalNlRev before]
      | comment o s => simp only [origs_comment, origs_dropFinalNlRev before]
    · split
      · exact origs_withShown_cons _ _ _
      · rfl

theorem kept_dropFinalNlRev : ∀ ps : List Piece, (∀ p ∈ ps, p.Kept) →
    ∀ p ∈ dropFinalNlRev ps, p.Kept
  | [], _, _, h => by cases h
  | p :: before, hk, q, hq => by
    simp only [dropFinalNlRev] at hq
    split at hq
    · rcases List.mem_cons.mp hq with rfl | hq
      · exact hk _ List.mem_cons_self
      · exact kept_dropFinalNlRev before (fun p hp => hk p (List.mem_cons_of_mem _ hp)) q hq
    · split at hq
      · rename_i hnl
        rcases List.mem_cons.mp hq with rfl | hq
        · apply Kept_withShown _ _ (hk p List.mem_cons_self)
          rw [String.toList_ofList]
          exact keptL_dropLast _ (by simpa using hnl)
        · exact hk q (List.mem_cons_of_mem _ hq)
      · exact hk q hq

theorem origs_reverse (ps : List Piece) : commentOrigs ps.reverse = (commentOrigs ps).reverse := by
  simp [commentOrigs, List.filterMap_reverse]

theorem Good.reline {ps : List Piece} {c : List String} (h : Good ps c) : Good (relineP ps) c := by
  have hs : Good (stripP ps) c := ⟨by rw [origs_stripP]; exact h.1, kept_stripP ps h.2⟩
  unfold relineP
  simp only
  split
  · refine ⟨?_, ?_⟩
    · unfold dropFinalNl
      rw [origs_reverse, origs_dropFinalNlRev, origs_reverse, List.reverse_reverse]
      exact hs.1
    · intro p hp
      unfold dropFinalNl at hp
      rw [List.mem_reverse] at hp
      exact kept_dropFinalNlRev _ (fun q hq => hs.2 q (List.mem_reverse.mp hq)) p hp
  · exact hs

/-! ### the per-kind layouts keep the comments of the parts they are given -/

theorem good_orSingle (w indent : Nat) (e : Expr) (multi : Unit → List Piece)
    (h : Good (multi ()) (commentsG false e)) : Good (orSingle w indent e multi) (commentsG false e) := by
  unfold orSingle
  simp only
  split
  · rename_i hc
    simp only [Bool.and_eq_true, Bool.not_eq_true', decide_eq_true_eq] at hc
    rw [commentsG_nil_of_single e false hc.1]
    exact Good.single _
  · exact h

theorem good_lambdaLayout (w indent : Nat) (args : List LArg) (body : Expr) (b : List Piece)
    (bIn : Unit → List Piece) (c : List String) (hb : Good b c) (hbIn : Good (bIn ()) c) :
    Good (lambdaLayout w indent args body b bIn) c := by
  unfold lambdaLayout
  simp only
  split
  · exact Good.text _ (Good.snoc _ hb)
  · split
    · exact Good.text _ hb
    · split
      · exact Good.text _ hb
      · exact Good.text _ hbIn

theorem good_elseLayout (indent : Nat) (chain : Option (List Piece)) (plain : Unit → List Piece)
    (c : List String) (hchain : ∀ ps, chain = some ps → Good ps c) (hplain : Good (plain ()) c) :
    Good (elseLayout indent chain plain) c := by
  unfold elseLayout
  split
  · exact Good.text _ (hchain _ rfl)
  · exact Good.text _ hplain

theorem good_condLayout (w indent : Nat) (cP : List Piece) (cIn : Unit → List Piece)
    (tIn elseP : List Piece) (cc ct ce : List String) (hc : Good cP cc) (hcIn : Good (cIn ()) cc)
    (ht : Good tIn ct) (he : Good elseP ce) :
    Good (condLayout w indent cP cIn tIn elseP) (cc ++ (ct ++ ce)) := by
  unfold condLayout
  simp only
  split
  · exact Good.text _ (Good.append hc (Good.text _ (Good.append ht (Good.text _ he))))
  · exact Good.text _ (Good.append hcIn (Good.text _ (Good.append ht (Good.text _ he))))

theorem good_binLayout (w indent : Nat) (op : BinOp) (l r : Expr) (lP : List Piece)
    (rSame rIn : Unit → List Piece) (cl cr : List String) (hl : Good lP cl)
    (hrS : Good (rSame ()) cr) (hrI : Good (rIn ()) cr) :
    Good (binLayout w indent op l r lP rSame rIn) (cl ++ cr) := by
  unfold binLayout
  simp only
  split
  · split
    · split
      · exact Good.append (Good.paren _ hl) (Good.text _ (Good.reline (Good.paren _ hrS)))
      · exact Good.append (Good.paren _ hl) (Good.text _ (Good.paren _ hrS))
    · exact Good.append (Good.paren _ hl) (Good.text _ (Good.paren _ hrS))
  · exact Good.append (Good.paren _ hl) (Good.text _ (Good.paren _ hrI))

theorem good_leaf (w indent : Nat) (e : Expr) (h : commentsG false e = []) :
    Good (leafP w indent e) (commentsG false e) := by
  unfold leafP
  apply good_orSingle
  rw [h]
  exact Good.single _

/-! ### THE MAIN INDUCTION: every layout of every node keeps the comments, in order -/

mutual
theorem good_impl : ∀ (e : Expr) (w indent : Nat), Good (fmtImplP w indent e) (commentsG false e)
  | .lambda args body, w, indent => by
    simp only [fmtImplP, commentsG]
    exact good_lambdaLayout _ _ _ _ _ _ _ (good_impl body w indent) (good_impl body w _)
  | .doBlock ss r, w, indent => by
    simp only [fmtImplP, commentsG]
    exact Good.text _ (Good.append (good_stmts ss w _) (Good.snoc _ (good_ret r w _)))
  | .output e, w, indent => by
    simp only [fmtImplP]
    apply good_orSingle
    simp only [commentsG]
    exact Good.text _ (good_impl e w indent)
  | .assign n v, w, indent => by
    simp only [fmtImplP]
    apply good_orSingle
    simp only [commentsG]
    exact Good.text _ (good_impl v w indent)
  | .list items, w, indent => by
    simp only [fmtImplP]
    apply good_orSingle
    simp only [commentsG]
    split
    · rename_i h
      rw [List.isEmpty_iff] at h
      subst h
      exact Good.single _
    · exact Good.text _ (Good.snoc _ (good_items items w _))
  | .record es, w, indent => by
    simp only [fmtImplP]
    apply good_orSingle
    simp only [commentsG]
    split
    · rename_i h
      rw [List.isEmpty_iff] at h
      subst h
      exact Good.single _
    · exact Good.text _ (Good.snoc _ (good_entries es w _))
  | .cond c t e, w, indent => by
    simp only [fmtImplP]
    apply good_orSingle
    simp only [commentsG]
    exact good_condLayout _ _ _ _ _ _ _ _ _ (good_impl c w _) (good_impl c w _) (good_impl t w _)
      (good_elseLayout _ _ _ _ (fun ps h => good_chain e w indent ps h) (good_impl e w _))
  | .call f args, w, indent => by
    simp only [fmtImplP]
    apply good_orSingle
    simp only [commentsG]
    split
    · rename_i h
      rw [List.isEmpty_iff] at h
      subst h
      exact Good.append (Good.paren _ (good_impl f w indent)) (Good.single _)
    · exact Good.append (Good.paren _ (good_impl f w indent))
        (Good.text _ (Good.snoc _ (good_args args w _)))
  | .bin op l r, w, indent => by
    simp only [fmtImplP]
    apply good_orSingle
    simp only [commentsG]
    exact good_binLayout _ _ _ _ _ _ _ _ _ _ (good_impl l w _) (good_impl r w _) (good_impl r w _)
  | .un op e, w, indent => by
    simp only [fmtImplP]
    apply good_orSingle
    simp only [commentsG]
    exact Good.text _ (Good.paren _ (good_impl e w indent))
  | .fact e, w, indent => by
    simp only [fmtImplP]
    apply good_orSingle
    simp only [commentsG]
    exact Good.snoc _ (Good.paren _ (good_impl e w indent))
  | .access e i, w, indent => by
    simp only [fmtImplP]
    apply good_orSingle
    simp only [commentsG]
    exact Good.append (Good.paren _ (good_impl e w indent))
      (Good.text _ (Good.snoc _ (good_impl i w indent)))
  | .dot e f, w, indent => by
    simp only [fmtImplP]
    apply good_orSingle
    simp only [commentsG]
    exact Good.snoc _ (Good.paren _ (good_impl e w indent))
  | .spread e, w, indent => by
    simp only [fmtImplP]
    apply good_orSingle
    simp only [commentsG]
    exact Good.text _ (good_impl e w indent)
  | .num _, w, indent => by simp only [fmtImplP]; exact good_leaf _ _ _ (by simp only [commentsG])
  | .str _, w, indent => by simp only [fmtImplP]; exact good_leaf _ _ _ (by simp only [commentsG])
  | .bool _, w, indent => by simp only [fmtImplP]; exact good_leaf _ _ _ (by simp only [commentsG])
  | .null, w, indent => by simp only [fmtImplP]; exact good_leaf _ _ _ (by simp only [commentsG])
  | .ident _, w, indent => by simp only [fmtImplP]; exact good_leaf _ _ _ (by simp only [commentsG])
  | .inref _, w, indent => by simp only [fmtImplP]; exact good_leaf _ _ _ (by simp only [commentsG])
  | .builtin _, w, indent => by simp only [fmtImplP]; exact good_leaf _ _ _ (by simp only [commentsG])
theorem good_chain : ∀ (e : Expr) (w indent : Nat) (ps : List Piece),
    fmtChainP w indent e = some ps → Good ps (commentsG false e)
  | .cond c t e, w, indent, ps, h => by
    simp only [fmtChainP, Option.some.injEq] at h
    subst h
    simp only [commentsG]
    exact good_condLayout _ _ _ _ _ _ _ _ _ (good_impl c w _) (good_impl c w _) (good_impl t w _)
      (good_elseLayout _ _ _ _ (fun ps h => good_chain e w indent ps h) (good_impl e w _))
  | .num _, _, _, _, h | .str _, _, _, _, h | .bool _, _, _, _, h | .null, _, _, _, h
  | .ident _, _, _, _, h | .inref _, _, _, _, h | .builtin _, _, _, _, h | .list _, _, _, _, h
  | .record _, _, _, _, h | .lambda _ _, _, _, _, h | .doBlock _ _, _, _, _, h
  | .assign _ _, _, _, _, h | .output _, _, _, _, h | .call _ _, _, _, _, h
  | .access _ _, _, _, _, h | .dot _ _, _, _, _, h | .bin _ _ _, _, _, _, h | .un _ _, _, _, _, h
  | .fact _, _, _, _, h | .spread _, _, _, _, h => by simp [fmtChainP] at h
theorem good_item : ∀ (i : Item) (w inner : Nat), Good (fmtItemP w inner i) (itemCommentsG false i)
  | .mk lead e tr, w, inner => by
    simp only [fmtItemP, itemCommentsG]
    exact Good.append (Good.lead _ lead)
      (Good.text _ (Good.append (good_impl e w inner) (Good.text _ (Good.trail tr))))
theorem good_items : ∀ (is : List Item) (w inner : Nat),
    Good (fmtItemsP w inner is) (itemsCommentsG false is)
  | [], _, _ => by simp only [fmtItemsP, itemsCommentsG]; exact Good.nil
  | i :: rest, w, inner => by
    simp only [fmtItemsP, itemsCommentsG]
    exact Good.append (good_item i w inner) (good_items rest w inner)
theorem good_entry : ∀ (en : Entry) (w inner : Nat),
    Good (fmtEntryP w inner en) (entryCommentsG false en)
  | .mk lead k v tr, w, inner => by
    simp only [fmtEntryP, entryCommentsG]
    exact Good.append (Good.lead _ lead)
      (Good.text _ (Good.append (good_keyed k w inner _ _ (good_impl v w inner))
        (Good.text _ (Good.trail tr))))
theorem good_entries : ∀ (es : List Entry) (w inner : Nat),
    Good (fmtEntriesP w inner es) (entriesCommentsG false es)
  | [], _, _ => by simp only [fmtEntriesP, entriesCommentsG]; exact Good.nil
  | e :: rest, w, inner => by
    simp only [fmtEntriesP, entriesCommentsG]
    exact Good.append (good_entry e w inner) (good_entries rest w inner)
theorem good_keyed : ∀ (k : Key) (w inner : Nat) (vs : List Piece) (vc : List String),
    Good vs vc → Good (fmtKeyedP w inner k vs) (keyCommentsG false k vc)
  | .static _, _, _, _, _, hv => by
    simp only [fmtKeyedP, keyCommentsG]; exact Good.text _ hv
  | .dyn ke, w, inner, _, _, hv => by
    simp only [fmtKeyedP, keyCommentsG]
    exact Good.text _ (Good.append (good_impl ke w inner) (Good.text _ hv))
  | .short _, _, _, _, _, _ => by
    simp only [fmtKeyedP, keyCommentsG]; exact Good.single _
  | .spread e, w, inner, _, _, _ => by
    simp only [fmtKeyedP, keyCommentsG]; exact good_impl e w inner
theorem good_args : ∀ (as : List Expr) (w inner : Nat),
    Good (fmtArgsP w inner as) (exprsCommentsG false as)
  | [], _, _ => by simp only [fmtArgsP, exprsCommentsG]; exact Good.nil
  | a :: rest, w, inner => by
    simp only [fmtArgsP, exprsCommentsG]
    exact Good.text _ (Good.append (good_impl a w inner) (Good.text _ (good_args rest w inner)))
theorem good_stmt : ∀ (i : Item) (w inner : Nat), Good (fmtStmtP w inner i) (itemCommentsG false i)
  | .mk lead e tr, w, inner => by
    simp only [fmtStmtP, itemCommentsG]
    exact Good.append (Good.lead _ lead)
      (Good.text _ (Good.append (Good.protect (good_impl e w inner)) (Good.trail tr)))
theorem good_stmts : ∀ (is : List Item) (w inner : Nat),
    Good (fmtStmtsP w inner is) (itemsCommentsG false is)
  | [], _, _ => by simp only [fmtStmtsP, itemsCommentsG]; exact Good.nil
  | i :: rest, w, inner => by
    simp only [fmtStmtsP, itemsCommentsG]
    exact Good.append (good_stmt i w inner) (good_stmts rest w inner)
theorem good_ret : ∀ (i : Item) (w inner : Nat), Good (fmtRetP w inner i) (retCommentsG false i)
  | .mk lead e tr, w, inner => by
    simp only [fmtRetP, retCommentsG]
    have := Good.append (Good.lead (makeIndent inner) lead) (Good.text ("\n" ++ makeIndent inner ++ "return ") (good_impl e w inner))
    simpa using this
end

/-! ### the functions of `formatter.rs` one by one -/

/-- `fmtImplP` is `format_expr_impl` over `fmtLambdaP` / `fmtMultiP` -/
theorem fmtImplP_eq (w indent : Nat) (e : Expr) :
    fmtImplP w indent e =
      match e with
      | .lambda args body => fmtLambdaP w indent args body
      | .doBlock ss r => fmtMultiP w indent (.doBlock ss r)
      | e => orSingle w indent e fun _ => fmtMultiP w indent e := by
  cases e <;> simp only [fmtImplP, fmtLambdaP, fmtMultiP, fmtCondP, fmtBinP, leafP]

/-- … and the else-if chain is `format_conditional_multiline` on the else-expression -/
theorem fmtChainP_cond (w indent : Nat) (c t e : Expr) :
    fmtChainP w indent (.cond c t e) = some (fmtCondP w indent c t e) := by
  simp only [fmtChainP, fmtCondP]

theorem good_lambda (w indent : Nat) (args : List LArg) (body : Expr) :
    Good (fmtLambdaP w indent args body) (commentsG false (.lambda args body)) := by
  have := good_impl (.lambda args body) w indent
  rwa [fmtImplP_eq] at this

theorem good_cond (w indent : Nat) (c t e : Expr) :
    Good (fmtCondP w indent c t e) (commentsG false (.cond c t e)) :=
  good_chain (.cond c t e) w indent _ (fmtChainP_cond w indent c t e)

theorem good_bin (w indent : Nat) (op : BinOp) (l r : Expr) :
    Good (fmtBinP w indent op l r) (commentsG false (.bin op l r)) := by
  simp only [fmtBinP, commentsG]
  exact good_binLayout _ _ _ _ _ _ _ _ _ _ (good_impl l w _) (good_impl r w _) (good_impl r w _)

/-- `format_multiline` on every node `format_expr_impl` passes to it (everything but a lambda) -/
theorem good_multi (w indent : Nat) (e : Expr) (h : ∀ args body, e ≠ .lambda args body) :
    Good (fmtMultiP w indent e) (commentsG false e) := by
  cases e with
  | lambda args body => exact absurd rfl (h args body)
  | doBlock ss r =>
    have := good_impl (.doBlock ss r) w indent
    rwa [fmtImplP_eq] at this
  | cond c t e => exact good_cond w indent c t e
  | bin op l r => exact good_bin w indent op l r
  | output e => simp only [fmtMultiP, commentsG]; exact Good.text _ (good_impl e w indent)
  | assign n v => simp only [fmtMultiP, commentsG]; exact Good.text _ (good_impl v w indent)
  | list items =>
    simp only [fmtMultiP, commentsG]
    split
    · rename_i h
      rw [List.isEmpty_iff] at h
      subst h
      exact Good.single _
    · exact Good.text _ (Good.snoc _ (good_items items w _))
  | record es =>
    simp only [fmtMultiP, commentsG]
    split
    · rename_i h
      rw [List.isEmpty_iff] at h
      subst h
      exact Good.single _
    · exact Good.text _ (Good.snoc _ (good_entries es w _))
  | call f args =>
    simp only [fmtMultiP, commentsG]
    split
    · rename_i h
      rw [List.isEmpty_iff] at h
      subst h
      exact Good.append (Good.paren _ (good_impl f w indent)) (Good.single _)
    · exact Good.append (Good.paren _ (good_impl f w indent))
        (Good.text _ (Good.snoc _ (good_args args w _)))
  | un op e => simp only [fmtMultiP, commentsG]; exact Good.text _ (Good.paren _ (good_impl e w indent))
  | fact e => simp only [fmtMultiP, commentsG]; exact Good.snoc _ (Good.paren _ (good_impl e w indent))
  | access e i =>
    simp only [fmtMultiP, commentsG]
    exact Good.append (Good.paren _ (good_impl e w indent))
      (Good.text _ (Good.snoc _ (good_impl i w indent)))
  | dot e f => simp only [fmtMultiP, commentsG]; exact Good.snoc _ (Good.paren _ (good_impl e w indent))
  | spread e => simp only [fmtMultiP, commentsG]; exact Good.text _ (good_impl e w indent)
  | num _ | str _ | bool _ | null | ident _ | inref _ | builtin _ =>
    simp only [fmtMultiP, commentsG]; exact Good.single _

/-! ### from `Good` to the comment pieces of the output -/

/-- if the comments are clean, the output shows them exactly -/
theorem Good.shown_eq : ∀ {ps : List Piece} {cs : List String}, Good ps cs →
    (∀ c ∈ cs, cleanComment c) → commentPieces ps = cs
  | [], _, h, _ => by rw [← h.1]; rfl
  | .text s :: l, cs, h, hc => by
    rw [shown_text]
    exact Good.shown_eq (ps := l) ⟨by rw [← h.1, origs_text], fun p hp => h.2 p (List.mem_cons_of_mem _ hp)⟩ hc
  | .comment o s :: l, cs, h, hc => by
    have h1 := h.1
    rw [origs_comment] at h1
    subst h1
    have hk : CommentKept s o := h.2 _ List.mem_cons_self
    rw [shown_comment, hk.eq_of_clean (hc o List.mem_cons_self)]
    congr 1
    exact Good.shown_eq (ps := l) ⟨rfl, fun p hp => h.2 p (List.mem_cons_of_mem _ hp)⟩
      (fun c hcm => hc c (List.mem_cons_of_mem _ hcm))

/-- in general: as many comment pieces as comments, and the i-th shows the i-th comment -/
theorem Good.shown_kept : ∀ {ps : List Piece} {cs : List String}, Good ps cs →
    (commentPieces ps).length = cs.length ∧
    ∀ i (h1 : i < (commentPieces ps).length) (h2 : i < cs.length),
      CommentKept ((commentPieces ps)[i]) (cs[i])
  | [], _, h => by
    rw [← h.1]
    exact ⟨rfl, fun i h1 _ => by cases h1⟩
  | .text s :: l, cs, h => by
    rw [shown_text]
    exact Good.shown_kept (ps := l) ⟨by rw [← h.1, origs_text], fun p hp => h.2 p (List.mem_cons_of_mem _ hp)⟩
  | .comment o s :: l, cs, h => by
    have h1 := h.1
    rw [origs_comment] at h1
    subst h1
    have hk : CommentKept s o := h.2 _ List.mem_cons_self
    have ih := Good.shown_kept (ps := l) ⟨rfl, fun p hp => h.2 p (List.mem_cons_of_mem _ hp)⟩
    refine ⟨by simp only [shown_comment, List.length_cons, ih.1], ?_⟩
    intro i h1 h2
    cases i with
    | zero => simpa [shown_comment] using hk
    | succ i =>
      simp only [shown_comment, List.getElem_cons_succ]
      exact ih.2 i _ _

/-! ### `relineP` is the `lines()` / `join("\n")` expression of `format_binary_op_multiline` -/

def joinNl : List (List Char) → List Char
  | [] => []
  | [l] => l
  | l :: m :: r => l ++ '\n' :: joinNl (m :: r)

/-- delete a final line feed -/
def dropNl1 (x : List Char) : List Char := if x.getLast? = some '\n' then x.dropLast else x

/-- `relines` on characters, for a text with a line feed -/
def relinesL (cs : List Char) : List Char :=
  match linesL cs with
  | [] => cs
  | l0 :: rest => l0 ++ '\n' :: joinNl rest

/-- the description used by `relineP` -/
def T1 (cs : List Char) : List Char :=
  let q := stripCRs none cs
  if q.getLast? = some '\n' ∧ 2 ≤ q.count '\n' then q.dropLast else q

theorem head?_orElse_none (t : List Char) : (t.head? <|> none) = t.head? := by
  cases t.head? <;> rfl

theorem skip_cases {c : Char} {t : List Char} (h : (c == '\r' && t.head? == some '\n') = true) :
    c = '\r' ∧ ∃ t', t = '\n' :: t' := by
  simp only [Bool.and_eq_true, beq_iff_eq] at h
  refine ⟨h.1, ?_⟩
  cases t with
  | nil => simp at h
  | cons d t' =>
    simp only [List.head?_cons, Option.some.injEq] at h
    exact ⟨t', by rw [h.2]⟩

theorem stripCRs_none_cons (c : Char) (t : List Char) :
    stripCRs none (c :: t) =
      if (c == '\r' && t.head? == some '\n') = true then stripCRs none t else c :: stripCRs none t := by
  simp only [stripCRs, head?_orElse_none]

theorem stripCRs_nl_cons (t : List Char) : stripCRs none ('\n' :: t) = '\n' :: stripCRs none t := by
  rw [stripCRs_none_cons]
  have : ¬ (('\n' : Char) == '\r' && t.head? == some '\n') = true := by simp
  rw [if_neg this]

theorem linesL_eq_nil : ∀ cs : List Char, linesL cs = [] ↔ cs = []
  | [] => by simp [linesL]
  | c :: t => by
    simp only [linesL]
    split
    · simp
    · split
      · rename_i h
        obtain ⟨_, t', rfl⟩ := skip_cases h
        simp [linesL]
      · cases h : linesL t <;> simp [consLine]

theorem stripCRs_eq_nil : ∀ cs : List Char, stripCRs none cs = [] ↔ cs = []
  | [] => by simp [stripCRs]
  | c :: t => by
    rw [stripCRs_none_cons]
    split
    · rename_i h
      obtain ⟨_, t', rfl⟩ := skip_cases h
      simp [stripCRs_nl_cons]
    · simp

theorem joinNl_consLine (c : Char) : ∀ ls : List (List Char), joinNl (consLine c ls) = c :: joinNl ls
  | [] => rfl
  | [_] => rfl
  | _ :: _ :: _ => rfl

theorem joinNl_nil_cons (ls : List (List Char)) :
    joinNl ([] :: ls) = if ls = [] then [] else '\n' :: joinNl ls := by
  cases ls <;> simp [joinNl]

theorem dropNl1_cons (c : Char) {x : List Char} (hx : x ≠ []) : dropNl1 (c :: x) = c :: dropNl1 x := by
  unfold dropNl1
  rw [List.getLast?_cons_of_ne_nil hx] 
  split
  · rw [List.dropLast_cons_of_ne_nil hx]
  · rfl

/-- joining the lines again gives the text without the carriage returns in front of line
    feeds and without a final line feed -/
theorem joinNl_linesL : ∀ cs : List Char, joinNl (linesL cs) = dropNl1 (stripCRs none cs)
  | [] => by simp [linesL, joinNl, stripCRs, dropNl1]
  | c :: t => by
    have ih := joinNl_linesL t
    by_cases hc : c = '\n'
    · subst hc
      rw [stripCRs_nl_cons]
      simp only [linesL, beq_self_eq_true, if_true]
      rw [joinNl_nil_cons]
      by_cases ht : t = []
      · subst ht; simp [linesL, stripCRs, dropNl1]
      · have h1 : linesL t ≠ [] := fun h => ht ((linesL_eq_nil t).mp h)
        have h2 : stripCRs none t ≠ [] := fun h => ht ((stripCRs_eq_nil t).mp h)
        rw [if_neg h1, ih, dropNl1_cons _ h2]
    · have hb : (c == '\n') = false := by simpa using hc
      rw [stripCRs_none_cons]
      simp only [linesL, hb, Bool.false_eq_true, if_false]
      split
      · exact ih
      · rw [joinNl_consLine, ih]
        by_cases h2 : stripCRs none t = []
        · simp [h2, hc, dropNl1]
        · rw [dropNl1_cons _ h2]

theorem count_pos_of_getLast? {x : List Char} {a : Char} (h : x.getLast? = some a) : 1 ≤ x.count a := by
  have : a ∈ x := List.mem_of_getLast? h
  exact List.count_pos_iff.mpr this

theorem T1_nl_cons (t : List Char) : T1 ('\n' :: t) = '\n' :: dropNl1 (stripCRs none t) := by
  unfold T1
  simp only [stripCRs_nl_cons]
  by_cases h2 : stripCRs none t = []
  · simp [h2, dropNl1]
  · rw [List.getLast?_cons_of_ne_nil h2, List.count_cons_self, List.dropLast_cons_of_ne_nil h2]
    unfold dropNl1
    by_cases hl : (stripCRs none t).getLast? = some '\n'
    · have := count_pos_of_getLast? hl
      rw [if_pos ⟨hl, by omega⟩, if_pos hl]
    · rw [if_neg (fun h => hl h.1), if_neg hl]

theorem T1_cons (c : Char) (t : List Char) (hc : c ≠ '\n') (h2 : stripCRs none t ≠ [])
    (hs : ¬ (c == '\r' && t.head? == some '\n') = true) : T1 (c :: t) = c :: T1 t := by
  unfold T1
  simp only [stripCRs_none_cons, if_neg hs]
  rw [List.getLast?_cons_of_ne_nil h2, List.count_cons_of_ne hc, List.dropLast_cons_of_ne_nil h2]
  split <;> rfl

theorem T1_skip (c : Char) (t : List Char) (hs : (c == '\r' && t.head? == some '\n') = true) :
    T1 (c :: t) = T1 t := by
  unfold T1
  simp only [stripCRs_none_cons, if_pos hs]

/-- the `format!("{}\n{}", first_line, remaining_lines)` of a text with a line feed -/
theorem relinesL_eq_T1 : ∀ cs : List Char, '\n' ∈ cs → relinesL cs = T1 cs
  | [], h => by cases h
  | c :: t, h => by
    by_cases hc : c = '\n'
    · subst hc
      rw [T1_nl_cons, ← joinNl_linesL]
      simp [relinesL, linesL]
    · have hb : (c == '\n') = false := by simpa using hc
      have ht : '\n' ∈ t := by
        rcases List.mem_cons.mp h with h | h
        · exact absurd h.symm hc
        · exact h
      have hne : t ≠ [] := by intro h0; subst h0; cases ht
      have h1 : linesL t ≠ [] := fun h => hne ((linesL_eq_nil t).mp h)
      have ih := relinesL_eq_T1 t ht
      by_cases hs : (c == '\r' && t.head? == some '\n') = true
      · rw [T1_skip c t hs, ← ih]
        simp only [relinesL, linesL, hb, Bool.false_eq_true, if_false, hs, if_true]
        cases hl : linesL t with
        | nil => exact absurd hl h1
        | cons l0 rest => rfl
      · have h2 : stripCRs none t ≠ [] := fun h => hne ((stripCRs_eq_nil t).mp h)
        rw [T1_cons c t hc h2 hs, ← ih]
        simp only [relinesL, linesL, hb, Bool.false_eq_true, if_false, hs]
        cases hl : linesL t with
        | nil => exact absurd hl h1
        | cons l0 rest => simp [consLine]

theorem firstLineL_eq_head : ∀ (cs : List Char) (l0 : List Char) (rest : List (List Char)),
    linesL cs = l0 :: rest → firstLineL cs = l0
  | [], _, _, h => by simp [linesL] at h
  | c :: t, l0, rest, h => by
    simp only [linesL] at h
    simp only [firstLineL]
    split at h
    · rename_i hc
      rw [if_pos hc]
      simp only [List.cons.injEq] at h
      exact h.1
    · rename_i hc
      rw [if_neg hc]
      split at h
      · rename_i hs
        rw [if_pos hs]
        obtain ⟨_, t', rfl⟩ := skip_cases hs
        simp only [linesL, beq_self_eq_true, if_true, List.cons.injEq] at h
        exact h.1
      · rename_i hs
        rw [if_neg hs]
        cases hl : linesL t with
        | nil =>
          have : t = [] := (linesL_eq_nil t).mp hl
          subst this
          rw [hl] at h
          simp only [consLine, List.cons.injEq] at h
          simp [firstLineL, h.1]
        | cons l1 r1 =>
          rw [hl] at h
          simp only [consLine, List.cons.injEq] at h
          rw [firstLineL_eq_head t l1 r1 hl, h.1.symm]

theorem intercalate_nl : ∀ ls : List (List Char), List.intercalate ['\n'] ls = joinNl ls
  | [] => rfl
  | [l] => by simp [List.intercalate, joinNl]
  | l :: m :: r => by
    have ih := intercalate_nl (m :: r)
    simp only [List.intercalate, List.intersperse_cons_cons, List.flatten_cons] at ih ⊢
    simp [joinNl, ih]

theorem relines_toList (s : String) (h : '\n' ∈ s.toList) : (relines s).toList = T1 s.toList := by
  rw [← relinesL_eq_T1 _ h]
  have hne : s.toList ≠ [] := by intro h0; rw [h0] at h; cases h
  cases hl : linesL s.toList with
  | nil => exact absurd ((linesL_eq_nil _).mp hl) hne
  | cons l0 rest =>
    simp only [relines, restLines, rustLines, firstLine, relinesL, hl, String.toList_append,
      String.toList_ofList, firstLineL_eq_head _ _ _ hl, List.map_cons, List.drop_succ_cons,
      List.drop_zero, String.toList_intercalate, List.map_map]
    have : (List.map (String.toList ∘ String.ofList) rest) = rest := by
      induction rest with
      | nil => rfl
      | cons a r ih => simp
    rw [this, ← intercalate_nl]
    have hnl : "\n".toList = ['\n'] := by decide
    rw [hnl, List.append_assoc]
    rfl

theorem render_toList_cons (p : Piece) (l : List Piece) :
    (render (p :: l)).toList = p.shown.toList ++ (render l).toList := by
  rw [render_cons, String.toList_append]

theorem firstCharP_eq : ∀ ps : List Piece, firstCharP ps = (render ps).toList.head?
  | [] => rfl
  | p :: rest => by
    rw [render_toList_cons]
    simp only [firstCharP]
    cases h : p.shown.toList with
    | nil => simpa using firstCharP_eq rest
    | cons c t => simp

theorem orElse_head?_append (a b : List Char) (next : Option Char) :
    ((a ++ b).head? <|> next) = (a.head? <|> (b.head? <|> next)) := by
  cases a <;> simp

theorem stripCRs_append (next : Option Char) : ∀ a b : List Char,
    stripCRs next (a ++ b) = stripCRs (b.head? <|> next) a ++ stripCRs next b
  | [], b => by simp [stripCRs]
  | c :: a, b => by
    simp only [List.cons_append, stripCRs, orElse_head?_append, stripCRs_append next a b]
    split <;> simp

theorem withShown_shown (p : Piece) (s : String) : (p.withShown s).shown = s := by
  cases p <;> rfl

theorem render_stripP : ∀ ps : List Piece,
    (render (stripP ps)).toList = stripCRs none (render ps).toList
  | [] => by simp [stripP, render_nil, stripCRs]
  | p :: rest => by
    simp only [stripP]
    rw [render_toList_cons, render_toList_cons, withShown_shown, String.toList_ofList,
      stripCRs_append, render_stripP rest, firstCharP_eq]
    cases (render rest).toList.head? <;> rfl

theorem render_reverse_cons (p : Piece) (before : List Piece) :
    (render (p :: before).reverse).toList = (render before.reverse).toList ++ p.shown.toList := by
  rw [List.reverse_cons, render_append, String.toList_append, render_toList_cons, render_nil]
  simp

theorem getLast?_append_ne (a b : List Char) (h : b ≠ []) : (a ++ b).getLast? = b.getLast? := by
  rw [List.getLast?_append]
  cases b with
  | nil => exact absurd rfl h
  | cons c t =>
    rw [List.getLast?_eq_some_getLast (by simp)]
    rfl

theorem render_dropFinalNlRev : ∀ rs : List Piece,
    (render rs.reverse).toList.getLast? = some '\n' →
    (render (dropFinalNlRev rs).reverse).toList = (render rs.reverse).toList.dropLast
  | [], h => by simp [render_nil] at h
  | p :: before, h => by
    rw [render_reverse_cons] at h ⊢
    simp only [dropFinalNlRev]
    by_cases he : p.shown.toList = []
    · rw [he] at h ⊢
      simp only [List.isEmpty_nil, if_true, List.append_nil] at h ⊢
      rw [render_reverse_cons, he, List.append_nil]
      exact render_dropFinalNlRev before h
    · have hie : p.shown.toList.isEmpty = false := by simpa using he
      rw [getLast?_append_ne _ _ he] at h
      simp only [hie, Bool.false_eq_true, if_false, h, beq_self_eq_true, if_true]
      rw [render_reverse_cons, withShown_shown, String.toList_ofList,
        List.dropLast_append_of_ne_nil he]

/-- `relineP` is `relines` on the rendered text: the pieces of the via / into / where branch
    render to exactly what `format!("{} {} {}\n{}", left, op, first_line, remaining_lines)`
    gives -/
theorem render_relineP (ps : List Piece) (h : hasNewline (render ps) = true) :
    render (relineP ps) = relines (render ps) := by
  have hm : '\n' ∈ (render ps).toList := by
    simpa [hasNewline, List.contains_iff_mem] using h
  apply String.toList_inj.mp
  rw [relines_toList _ hm]
  unfold relineP T1
  simp only [render_stripP]
  by_cases hc : (stripCRs none (render ps).toList).getLast? = some '\n' ∧
      2 ≤ (stripCRs none (render ps).toList).count '\n'
  · have hb : ((stripCRs none (render ps).toList).getLast? == some '\n' &&
        decide (2 ≤ (stripCRs none (render ps).toList).count '\n')) = true := by
      simp [hc.1, hc.2]
    rw [if_pos hb, if_pos hc]
    unfold dropFinalNl
    have := render_dropFinalNlRev (stripP ps).reverse
    rw [List.reverse_reverse, render_stripP] at this
    exact this hc.1
  · have hb : ¬ ((stripCRs none (render ps).toList).getLast? == some '\n' &&
        decide (2 ≤ (stripCRs none (render ps).toList).count '\n')) = true := by
      intro hb
      simp only [Bool.and_eq_true, beq_iff_eq, decide_eq_true_eq] at hb
      exact hc hb
    rw [if_neg hb, if_neg hc, render_stripP]

/-- the via / into / where branch of `format_binary_op_multiline` with a right operand of
    several lines whose first line fits: the rendered pieces are the text of
    `format!("{} {} {}\n{}", left_str, op_str, first_line_of_right, remaining_lines)` -/
theorem render_binLayout_chain (w indent : Nat) (op : BinOp) (l r : Expr) (lP : List Piece)
    (rSame rIn : Unit → List Piece)
    (hchain : (op == .via || op == .into || op == .where_) = true) (hlam : isLambda r = true)
    (hnl : hasNewline (render (parenP (needsParens r (.binRight op)) (rSame ()))) = true)
    (hfit : indent + blen (render (parenP (needsParens l (.binLeft op)) lP) ++ " " ++ fmtSpelling op ++
      " " ++ firstLine (render (parenP (needsParens r (.binRight op)) (rSame ())))) ≤ w) :
    render (binLayout w indent op l r lP rSame rIn) =
      render (parenP (needsParens l (.binLeft op)) lP) ++ " " ++ fmtSpelling op ++ " " ++
        firstLine (render (parenP (needsParens r (.binRight op)) (rSame ()))) ++ "\n" ++
        restLines (render (parenP (needsParens r (.binRight op)) (rSame ()))) := by
  unfold binLayout
  simp only [hchain, hlam, Bool.and_self, if_true, hnl]
  rw [if_pos hfit]
  simp only [render_append, render_text, render_relineP _ hnl, relines, String.append_assoc]

end FormatP
end Blots
