import Blots.Lemmas.FormatLemmas
/-
  Comment preservation of the width-driven layouts (`fmtImplP` and the per-kind layouts of
  `Model/Format.lean`), for every tree, width and indent.

  * `commentsG rt e`  : the comments of the tree in source order (`rt` = count the trailing
    comment of the `return` item of do-blocks, which `format_do_block_multiline` never prints);
  * `Good ps cs`      : the comment pieces of `ps` are exactly the comments `cs`
    (`commentPieces ps = cs`: one for one, in order, character for character);
  * `good_impl` …     : `Good (fmtImplP w indent e) (commentsG false e)` by mutual structural
    induction over Expr / Item / Entry / Key and their lists, through every layout branch.
-/
namespace Blots
namespace FormatP
open FormatL

/-! ### the comments of a tree, in source order -/

mutual
/-- every leading and trailing comment of every `Commented` wrapper of the printed tree, in
    source order.  The `value` of a shorthand or spread record entry is not part of the tree
    (the parser puts a dummy `Null` there, expressions.rs `RecordKey::Shorthand` /
    `RecordKey::Spread` arms), as in `contains_comments`. -/
def commentsG (rt : Bool) : Expr → List String
  | .list items => itemsCommentsG rt items
  | .record es => entriesCommentsG rt es
  | .lambda _ b => commentsG rt b
  | .cond c t e => commentsG rt c ++ (commentsG rt t ++ commentsG rt e)
  | .doBlock ss r => itemsCommentsG rt ss ++ retCommentsG rt r
  | .assign _ v => commentsG rt v
  | .output e => commentsG rt e
  | .call f as => commentsG rt f ++ exprsCommentsG rt as
  | .access e i => commentsG rt e ++ commentsG rt i
  | .dot e _ => commentsG rt e
  | .bin _ l r => commentsG rt l ++ commentsG rt r
  | .un _ e => commentsG rt e
  | .fact e => commentsG rt e
  | .spread e => commentsG rt e
  | _ => []
def exprsCommentsG (rt : Bool) : List Expr → List String
  | [] => []
  | e :: es => commentsG rt e ++ exprsCommentsG rt es
/-- leading comments, the comments inside the expression, the trailing comment -/
def itemCommentsG (rt : Bool) : Item → List String
  | .mk l e t => l ++ (commentsG rt e ++ t.toList)
def itemsCommentsG (rt : Bool) : List Item → List String
  | [] => []
  | i :: is => itemCommentsG rt i ++ itemsCommentsG rt is
/-- the `return` item of a do-block -/
def retCommentsG (rt : Bool) : Item → List String
  | .mk l e t => l ++ (commentsG rt e ++ (if rt then t.toList else []))
def entryCommentsG (rt : Bool) : Entry → List String
  | .mk l k v t => l ++ (keyCommentsG rt k (commentsG rt v) ++ t.toList)
def entriesCommentsG (rt : Bool) : List Entry → List String
  | [] => []
  | e :: es => entryCommentsG rt e ++ entriesCommentsG rt es
/-- key, then value (`vc` = the comments of the value) -/
def keyCommentsG (rt : Bool) : Key → List String → List String
  | .static _, vc => vc
  | .dyn k, vc => commentsG rt k ++ vc
  | .short _, _ => []
  | .spread e, _ => commentsG rt e
end

/-- all comments of the tree -/
abbrev commentsOf (e : Expr) : List String := commentsG true e

/-- the comments `format_expr` prints: all but the trailing comments of `return` items -/
abbrev printedComments (e : Expr) : List String := commentsG false e

mutual
/-- no `return` item of a do-block carries a trailing comment (true of every tree the parser
    builds: `Commented::with_comments(…, expr, None)` in the `Rule::return_statement` arm) -/
def retClean : Expr → Bool
  | .list items => itemsRetClean items
  | .record es => entriesRetClean es
  | .lambda _ b => retClean b
  | .cond c t e => retClean c && (retClean t && retClean e)
  | .doBlock ss r => itemsRetClean ss && retItemClean r
  | .assign _ v => retClean v
  | .output e => retClean e
  | .call f as => retClean f && exprsRetClean as
  | .access e i => retClean e && retClean i
  | .dot e _ => retClean e
  | .bin _ l r => retClean l && retClean r
  | .un _ e => retClean e
  | .fact e => retClean e
  | .spread e => retClean e
  | _ => true
def exprsRetClean : List Expr → Bool
  | [] => true
  | e :: es => retClean e && exprsRetClean es
def itemRetClean : Item → Bool
  | .mk _ e _ => retClean e
def itemsRetClean : List Item → Bool
  | [] => true
  | i :: is => itemRetClean i && itemsRetClean is
def retItemClean : Item → Bool
  | .mk _ e t => retClean e && t.isNone
def entryRetClean : Entry → Bool
  | .mk _ k v _ => keyRetClean k (retClean v)
def entriesRetClean : List Entry → Bool
  | [] => true
  | e :: es => entryRetClean e && entriesRetClean es
def keyRetClean : Key → Bool → Bool
  | .static _, vc => vc
  | .dyn k, vc => retClean k && vc
  | .short _, _ => true
  | .spread e, _ => retClean e
end

mutual
theorem commentsG_retClean : ∀ e : Expr, retClean e = true → commentsG true e = commentsG false e
  | .list items, h => by
    simp only [retClean] at h; simp only [commentsG, itemsG_retClean items h]
  | .record es, h => by
    simp only [retClean] at h; simp only [commentsG, entriesG_retClean es h]
  | .lambda _ b, h => by
    simp only [retClean] at h; simp only [commentsG, commentsG_retClean b h]
  | .cond c t e, h => by
    simp only [retClean, Bool.and_eq_true] at h
    simp only [commentsG, commentsG_retClean c h.1, commentsG_retClean t h.2.1,
      commentsG_retClean e h.2.2]
  | .doBlock ss r, h => by
    simp only [retClean, Bool.and_eq_true] at h
    simp only [commentsG, itemsG_retClean ss h.1, retG_retClean r h.2]
  | .assign _ v, h => by
    simp only [retClean] at h; simp only [commentsG, commentsG_retClean v h]
  | .output e, h => by
    simp only [retClean] at h; simp only [commentsG, commentsG_retClean e h]
  | .call f as, h => by
    simp only [retClean, Bool.and_eq_true] at h
    simp only [commentsG, commentsG_retClean f h.1, exprsG_retClean as h.2]
  | .access e i, h => by
    simp only [retClean, Bool.and_eq_true] at h
    simp only [commentsG, commentsG_retClean e h.1, commentsG_retClean i h.2]
  | .dot e _, h => by
    simp only [retClean] at h; simp only [commentsG, commentsG_retClean e h]
  | .bin _ l r, h => by
    simp only [retClean, Bool.and_eq_true] at h
    simp only [commentsG, commentsG_retClean l h.1, commentsG_retClean r h.2]
  | .un _ e, h => by
    simp only [retClean] at h; simp only [commentsG, commentsG_retClean e h]
  | .fact e, h => by
    simp only [retClean] at h; simp only [commentsG, commentsG_retClean e h]
  | .spread e, h => by
    simp only [retClean] at h; simp only [commentsG, commentsG_retClean e h]
  | .num _, _ | .str _, _ | .bool _, _ | .null, _ | .ident _, _ | .inref _, _
  | .builtin _, _ => by simp only [commentsG]
theorem exprsG_retClean : ∀ es : List Expr, exprsRetClean es = true →
    exprsCommentsG true es = exprsCommentsG false es
  | [], _ => rfl
  | e :: es, h => by
    simp only [exprsRetClean, Bool.and_eq_true] at h
    simp only [exprsCommentsG, commentsG_retClean e h.1, exprsG_retClean es h.2]
theorem itemG_retClean : ∀ i : Item, itemRetClean i = true →
    itemCommentsG true i = itemCommentsG false i
  | .mk _ e _, h => by
    simp only [itemRetClean] at h; simp only [itemCommentsG, commentsG_retClean e h]
theorem itemsG_retClean : ∀ is : List Item, itemsRetClean is = true →
    itemsCommentsG true is = itemsCommentsG false is
  | [], _ => rfl
  | i :: is, h => by
    simp only [itemsRetClean, Bool.and_eq_true] at h
    simp only [itemsCommentsG, itemG_retClean i h.1, itemsG_retClean is h.2]
theorem retG_retClean : ∀ i : Item, retItemClean i = true →
    retCommentsG true i = retCommentsG false i
  | .mk _ e t, h => by
    simp only [retItemClean, Bool.and_eq_true, Option.isNone_iff_eq_none] at h
    simp [retCommentsG, commentsG_retClean e h.1, h.2]
theorem entryG_retClean : ∀ en : Entry, entryRetClean en = true →
    entryCommentsG true en = entryCommentsG false en
  | .mk _ k v _, h => by
    simp only [entryRetClean] at h
    simp only [entryCommentsG]
    rw [keyG_retClean k (retClean v) _ _ (commentsG_retClean v) h]
theorem entriesG_retClean : ∀ es : List Entry, entriesRetClean es = true →
    entriesCommentsG true es = entriesCommentsG false es
  | [], _ => rfl
  | e :: es, h => by
    simp only [entriesRetClean, Bool.and_eq_true] at h
    simp only [entriesCommentsG, entryG_retClean e h.1, entriesG_retClean es h.2]
theorem keyG_retClean : ∀ (k : Key) (vb : Bool) (vt vf : List String), (vb = true → vt = vf) →
    keyRetClean k vb = true → keyCommentsG true k vt = keyCommentsG false k vf
  | .static _, _, _, _, hv, h => by
    simp only [keyRetClean] at h; simp only [keyCommentsG, hv h]
  | .dyn k, _, _, _, hv, h => by
    simp only [keyRetClean, Bool.and_eq_true] at h
    simp only [keyCommentsG, commentsG_retClean k h.1, hv h.2]
  | .short _, _, _, _, _, _ => rfl
  | .spread e, _, _, _, _, h => by
    simp only [keyRetClean] at h; simp only [keyCommentsG, commentsG_retClean e h]
end

/-! ### a tree without comments has no comments -/

theorem append_nil_of {α} {a b : List α} (ha : a = []) (hb : b = []) : a ++ b = [] := by
  subst ha; subst hb; rfl

mutual
theorem commentsG_nil : ∀ (e : Expr) (rt : Bool), anyComment e = false → commentsG rt e = []
  | .list items, rt, h => by
    simp only [anyComment] at h; simp only [commentsG, itemsG_nil items rt h]
  | .record es, rt, h => by
    simp only [anyComment] at h; simp only [commentsG, entriesG_nil es rt h]
  | .lambda _ b, rt, h => by
    simp only [anyComment] at h; simp only [commentsG, commentsG_nil b rt h]
  | .cond c t e, rt, h => by
    simp only [anyComment, Bool.or_eq_false_iff] at h
    simp only [commentsG, commentsG_nil c rt h.1.1, commentsG_nil t rt h.1.2,
      commentsG_nil e rt h.2, List.append_nil]
  | .doBlock ss r, rt, h => by
    simp only [anyComment, Bool.or_eq_false_iff] at h
    simp only [commentsG, itemsG_nil ss rt h.1, retG_nil r rt h.2, List.append_nil]
  | .assign _ v, rt, h => by
    simp only [anyComment] at h; simp only [commentsG, commentsG_nil v rt h]
  | .output e, rt, h => by
    simp only [anyComment] at h; simp only [commentsG, commentsG_nil e rt h]
  | .call f as, rt, h => by
    simp only [anyComment, Bool.or_eq_false_iff] at h
    simp only [commentsG, commentsG_nil f rt h.1, exprsG_nil as rt h.2, List.append_nil]
  | .access e i, rt, h => by
    simp only [anyComment, Bool.or_eq_false_iff] at h
    simp only [commentsG, commentsG_nil e rt h.1, commentsG_nil i rt h.2, List.append_nil]
  | .dot e _, rt, h => by
    simp only [anyComment] at h; simp only [commentsG, commentsG_nil e rt h]
  | .bin _ l r, rt, h => by
    simp only [anyComment, Bool.or_eq_false_iff] at h
    simp only [commentsG, commentsG_nil l rt h.1, commentsG_nil r rt h.2, List.append_nil]
  | .un _ e, rt, h => by
    simp only [anyComment] at h; simp only [commentsG, commentsG_nil e rt h]
  | .fact e, rt, h => by
    simp only [anyComment] at h; simp only [commentsG, commentsG_nil e rt h]
  | .spread e, rt, h => by
    simp only [anyComment] at h; simp only [commentsG, commentsG_nil e rt h]
  | .num _, _, _ | .str _, _, _ | .bool _, _, _ | .null, _, _ | .ident _, _, _ | .inref _, _, _
  | .builtin _, _, _ => by simp only [commentsG]
theorem exprsG_nil : ∀ (es : List Expr) (rt : Bool), exprsAnyComment es = false →
    exprsCommentsG rt es = []
  | [], _, _ => rfl
  | e :: es, rt, h => by
    simp only [exprsAnyComment, Bool.or_eq_false_iff] at h
    simp only [exprsCommentsG, commentsG_nil e rt h.1, exprsG_nil es rt h.2, List.append_nil]
theorem itemG_nil : ∀ (i : Item) (rt : Bool), itemAnyComment i = false → itemCommentsG rt i = []
  | .mk l e t, rt, h => by
    simp only [itemAnyComment, Bool.or_eq_false_iff, Bool.not_eq_false', List.isEmpty_iff,
      Option.isSome_eq_false_iff, Option.isNone_iff_eq_none] at h
    simp [itemCommentsG, commentsG_nil e rt h.2, h.1.1, h.1.2]
theorem itemsG_nil : ∀ (is : List Item) (rt : Bool), itemsAnyComment is = false →
    itemsCommentsG rt is = []
  | [], _, _ => rfl
  | i :: is, rt, h => by
    simp only [itemsAnyComment, Bool.or_eq_false_iff] at h
    simp only [itemsCommentsG, itemG_nil i rt h.1, itemsG_nil is rt h.2, List.append_nil]
theorem retG_nil : ∀ (i : Item) (rt : Bool), itemAnyComment i = false → retCommentsG rt i = []
  | .mk l e t, rt, h => by
    simp only [itemAnyComment, Bool.or_eq_false_iff, Bool.not_eq_false', List.isEmpty_iff,
      Option.isSome_eq_false_iff, Option.isNone_iff_eq_none] at h
    simp [retCommentsG, commentsG_nil e rt h.2, h.1.1, h.1.2]
theorem entryG_nil : ∀ (en : Entry) (rt : Bool), entryAnyComment en = false →
    entryCommentsG rt en = []
  | .mk l k v t, rt, h => by
    simp only [entryAnyComment, Bool.or_eq_false_iff, Bool.not_eq_false', List.isEmpty_iff,
      Option.isSome_eq_false_iff, Option.isNone_iff_eq_none] at h
    have hk := keyG_nil k rt (anyComment v) (commentsG rt v) (commentsG_nil v rt) h.2
    simp [entryCommentsG, hk, h.1.1, h.1.2]
theorem entriesG_nil : ∀ (es : List Entry) (rt : Bool), entriesAnyComment es = false →
    entriesCommentsG rt es = []
  | [], _, _ => rfl
  | e :: es, rt, h => by
    simp only [entriesAnyComment, Bool.or_eq_false_iff] at h
    simp only [entriesCommentsG, entryG_nil e rt h.1, entriesG_nil es rt h.2, List.append_nil]
theorem keyG_nil : ∀ (k : Key) (rt : Bool) (va : Bool) (vc : List String),
    (va = false → vc = []) → keyAnyComment k va = false → keyCommentsG rt k vc = []
  | .static _, _, _, _, hv, h => by
    simp only [keyAnyComment] at h; simp only [keyCommentsG, hv h]
  | .dyn k, rt, _, _, hv, h => by
    simp only [keyAnyComment, Bool.or_eq_false_iff] at h
    simp only [keyCommentsG, commentsG_nil k rt h.1, hv h.2, List.append_nil]
  | .short _, _, _, _, _, _ => rfl
  | .spread e, rt, _, _, _, h => by
    simp only [keyAnyComment] at h; simp only [keyCommentsG, commentsG_nil e rt h]
end

/-- the single-line text is used only when there is no comment to print -/
theorem commentsG_nil_of_single (e : Expr) (rt : Bool) (h : hasNewline (fmtSingle e) = false) :
    commentsG rt e = [] := by
  apply commentsG_nil
  cases ha : anyComment e
  · rfl
  · rw [anyComment_forces_multiline e ha] at h; cases h

/-! ### pieces: rendering, comment pieces -/

theorem render_nil : render [] = "" := rfl

theorem render_append (a b : List Piece) : render (a ++ b) = render a ++ render b := by
  apply String.toList_inj.mp
  simp [render, String.toList_join]

theorem render_cons (p : Piece) (l : List Piece) : render (p :: l) = p.shown ++ render l := by
  apply String.toList_inj.mp
  simp [render, String.toList_join]

theorem render_text (s : String) (l : List Piece) : render (.text s :: l) = s ++ render l :=
  render_cons _ _

theorem render_single (s : String) : render [.text s] = s := by
  rw [render_cons, render_nil, String.append_empty]
  rfl

theorem shown_nil : commentPieces [] = [] := rfl
theorem shown_append (a b : List Piece) :
    commentPieces (a ++ b) = commentPieces a ++ commentPieces b := by
  simp [commentPieces, List.filterMap_append]
theorem shown_text (s : String) (l : List Piece) : commentPieces (.text s :: l) = commentPieces l :=
  List.filterMap_cons_none rfl
theorem shown_comment (s : String) (l : List Piece) :
    commentPieces (.comment s :: l) = s :: commentPieces l :=
  List.filterMap_cons_some rfl

/-- `Good ps cs`: the comment pieces of `ps` are exactly the comments `cs`, one for one, in
    order, character for character -/
def Good (ps : List Piece) (cs : List String) : Prop := commentPieces ps = cs

theorem Good.nil : Good [] [] := rfl

theorem Good.text {l : List Piece} {c : List String} (s : String) (h : Good l c) :
    Good (.text s :: l) c := by
  unfold Good; rw [shown_text]; exact h

theorem Good.single (s : String) : Good [.text s] [] := Good.text s Good.nil

theorem Good.comment {l : List Piece} {c : List String} (o : String) (h : Good l c) :
    Good (.comment o :: l) (o :: c) := by
  unfold Good at h ⊢; rw [shown_comment, h]

theorem Good.append {a b : List Piece} {ca cb : List String} (ha : Good a ca) (hb : Good b cb) :
    Good (a ++ b) (ca ++ cb) := by
  unfold Good at ha hb ⊢; rw [shown_append, ha, hb]

theorem Good.snoc {a : List Piece} {c : List String} (s : String) (h : Good a c) :
    Good (a ++ [.text s]) c := by
  have := Good.append h (Good.single s)
  rwa [List.append_nil] at this

theorem Good.cast {a : List Piece} {c c' : List String} (h : Good a c) (e : c = c') : Good a c' :=
  e ▸ h

theorem Good.lead (ind : String) : ∀ cs : List String, Good (leadP ind cs) cs
  | [] => Good.nil
  | c :: cs => Good.text _ (Good.comment c (Good.lead ind cs))

theorem Good.trail : ∀ t : Option String, Good (trailP t) t.toList
  | none => Good.nil
  | some t => Good.text _ (Good.comment t Good.nil)

theorem Good.paren (b : Bool) {ps : List Piece} {c : List String} (h : Good ps c) :
    Good (parenP b ps) c := by
  unfold parenP
  split
  · exact Good.text _ (Good.snoc _ h)
  · exact h

theorem Good.protect {ps : List Piece} {c : List String} (h : Good ps c) : Good (protectP ps) c := by
  unfold protectP
  split
  · exact Good.text _ (Good.snoc _ h)
  · exact h

/-- `protectP` is `protect_statement_start` on the rendered text -/
theorem render_protectP (ps : List Piece) : render (protectP ps) = protectStatementStart (render ps) := by
  unfold protectP protectStatementStart
  split
  · simp only [render_text, render_append, render_nil, String.append_empty, String.append_assoc]
  · rfl

/-! ### the per-kind layouts keep the comments of the parts they are given -/

theorem good_orSingle (w indent : Nat) (e : Expr) (multi : Unit → List Piece)
    (h : Good (multi ()) (commentsG false e)) : Good (orSingle w indent e multi) (commentsG false e) := by
  unfold orSingle
  simp only
  split
  · rename_i hc
    simp only [Bool.and_eq_true, Bool.not_eq_true', decide_eq_true_eq] at hc
    rw [commentsG_nil_of_single e false hc.1]
    exact Good.single _
  · exact h

theorem good_lambdaLayout (w indent : Nat) (args : List LArg) (body : Expr) (b : List Piece)
    (bIn : Unit → List Piece) (c : List String) (hb : Good b c) (hbIn : Good (bIn ()) c) :
    Good (lambdaLayout w indent args body b bIn) c := by
  unfold lambdaLayout
  simp only
  split
  · exact Good.text _ (Good.snoc _ hb)
  · split
    · exact Good.text _ hb
    · split
      · exact Good.text _ hb
      · exact Good.text _ hbIn

theorem good_elseLayout (indent : Nat) (chain : Option (List Piece)) (plain : Unit → List Piece)
    (c : List String) (hchain : ∀ ps, chain = some ps → Good ps c) (hplain : Good (plain ()) c) :
    Good (elseLayout indent chain plain) c := by
  unfold elseLayout
  split
  · exact Good.text _ (hchain _ rfl)
  · exact Good.text _ hplain

theorem good_condLayout (w indent : Nat) (cP : List Piece) (cIn : Unit → List Piece)
    (tIn elseP : List Piece) (cc ct ce : List String) (hc : Good cP cc) (hcIn : Good (cIn ()) cc)
    (ht : Good tIn ct) (he : Good elseP ce) :
    Good (condLayout w indent cP cIn tIn elseP) (cc ++ (ct ++ ce)) := by
  unfold condLayout
  simp only
  split
  · exact Good.text _ (Good.append hc (Good.text _ (Good.append ht (Good.text _ he))))
  · exact Good.text _ (Good.append hcIn (Good.text _ (Good.append ht (Good.text _ he))))

theorem good_binLayout (w indent : Nat) (op : BinOp) (l r : Expr) (lP : List Piece)
    (rSame rIn : Unit → List Piece) (cl cr : List String) (hl : Good lP cl)
    (hrS : Good (rSame ()) cr) (hrI : Good (rIn ()) cr) :
    Good (binLayout w indent op l r lP rSame rIn) (cl ++ cr) := by
  unfold binLayout
  simp only
  split
  · split
    · exact Good.append (Good.paren _ hl) (Good.text _ (Good.paren _ hrS))
    · exact Good.append (Good.paren _ hl) (Good.text _ (Good.paren _ hrS))
  · exact Good.append (Good.paren _ hl) (Good.text _ (Good.paren _ hrI))

theorem good_leaf (w indent : Nat) (e : Expr) (h : commentsG false e = []) :
    Good (leafP w indent e) (commentsG false e) := by
  unfold leafP
  apply good_orSingle
  rw [h]
  exact Good.single _

/-! ### THE MAIN INDUCTION: every layout of every node keeps the comments, in order -/

mutual
theorem good_impl : ∀ (e : Expr) (w indent : Nat), Good (fmtImplP w indent e) (commentsG false e)
  | .lambda args body, w, indent => by
    simp only [fmtImplP, commentsG]
    exact good_lambdaLayout _ _ _ _ _ _ _ (good_impl body w indent) (good_impl body w _)
  | .doBlock ss r, w, indent => by
    simp only [fmtImplP, commentsG]
    exact Good.text _ (Good.append (good_stmts ss w _) (Good.snoc _ (good_ret r w _)))
  | .output e, w, indent => by
    simp only [fmtImplP]
    apply good_orSingle
    simp only [commentsG]
    exact Good.text _ (good_impl e w indent)
  | .assign n v, w, indent => by
    simp only [fmtImplP]
    apply good_orSingle
    simp only [commentsG]
    exact Good.text _ (good_impl v w indent)
  | .list items, w, indent => by
    simp only [fmtImplP]
    apply good_orSingle
    simp only [commentsG]
    split
    · rename_i h
      rw [List.isEmpty_iff] at h
      subst h
      exact Good.single _
    · exact Good.text _ (Good.snoc _ (good_items items w _))
  | .record es, w, indent => by
    simp only [fmtImplP]
    apply good_orSingle
    simp only [commentsG]
    split
    · rename_i h
      rw [List.isEmpty_iff] at h
      subst h
      exact Good.single _
    · exact Good.text _ (Good.snoc _ (good_entries es w _))
  | .cond c t e, w, indent => by
    simp only [fmtImplP]
    apply good_orSingle
    simp only [commentsG]
    exact good_condLayout _ _ _ _ _ _ _ _ _ (good_impl c w _) (good_impl c w _) (good_impl t w _)
      (good_elseLayout _ _ _ _ (fun ps h => good_chain e w indent ps h) (good_impl e w _))
  | .call f args, w, indent => by
    simp only [fmtImplP]
    apply good_orSingle
    simp only [commentsG]
    split
    · rename_i h
      rw [List.isEmpty_iff] at h
      subst h
      exact Good.append (Good.paren _ (good_impl f w indent)) (Good.single _)
    · exact Good.append (Good.paren _ (good_impl f w indent))
        (Good.text _ (Good.snoc _ (good_args args w _)))
  | .bin op l r, w, indent => by
    simp only [fmtImplP]
    apply good_orSingle
    simp only [commentsG]
    exact good_binLayout _ _ _ _ _ _ _ _ _ _ (good_impl l w _) (good_impl r w _) (good_impl r w _)
  | .un op e, w, indent => by
    simp only [fmtImplP]
    apply good_orSingle
    simp only [commentsG]
    exact Good.text _ (Good.paren _ (good_impl e w indent))
  | .fact e, w, indent => by
    simp only [fmtImplP]
    apply good_orSingle
    simp only [commentsG]
    exact Good.snoc _ (Good.paren _ (good_impl e w indent))
  | .access e i, w, indent => by
    simp only [fmtImplP]
    apply good_orSingle
    simp only [commentsG]
    exact Good.append (Good.paren _ (good_impl e w indent))
      (Good.text _ (Good.snoc _ (good_impl i w indent)))
  | .dot e f, w, indent => by
    simp only [fmtImplP]
    apply good_orSingle
    simp only [commentsG]
    exact Good.snoc _ (Good.paren _ (good_impl e w indent))
  | .spread e, w, indent => by
    simp only [fmtImplP]
    apply good_orSingle
    simp only [commentsG]
    exact Good.text _ (good_impl e w indent)
  | .num _, w, indent => by simp only [fmtImplP]; exact good_leaf _ _ _ (by simp only [commentsG])
  | .str _, w, indent => by simp only [fmtImplP]; exact good_leaf _ _ _ (by simp only [commentsG])
  | .bool _, w, indent => by simp only [fmtImplP]; exact good_leaf _ _ _ (by simp only [commentsG])
  | .null, w, indent => by simp only [fmtImplP]; exact good_leaf _ _ _ (by simp only [commentsG])
  | .ident _, w, indent => by simp only [fmtImplP]; exact good_leaf _ _ _ (by simp only [commentsG])
  | .inref _, w, indent => by simp only [fmtImplP]; exact good_leaf _ _ _ (by simp only [commentsG])
  | .builtin _, w, indent => by simp only [fmtImplP]; exact good_leaf _ _ _ (by simp only [commentsG])
theorem good_chain : ∀ (e : Expr) (w indent : Nat) (ps : List Piece),
    fmtChainP w indent e = some ps → Good ps (commentsG false e)
  | .cond c t e, w, indent, ps, h => by
    simp only [fmtChainP, Option.some.injEq] at h
    subst h
    simp only [commentsG]
    exact good_condLayout _ _ _ _ _ _ _ _ _ (good_impl c w _) (good_impl c w _) (good_impl t w _)
      (good_elseLayout _ _ _ _ (fun ps h => good_chain e w indent ps h) (good_impl e w _))
  | .num _, _, _, _, h | .str _, _, _, _, h | .bool _, _, _, _, h | .null, _, _, _, h
  | .ident _, _, _, _, h | .inref _, _, _, _, h | .builtin _, _, _, _, h | .list _, _, _, _, h
  | .record _, _, _, _, h | .lambda _ _, _, _, _, h | .doBlock _ _, _, _, _, h
  | .assign _ _, _, _, _, h | .output _, _, _, _, h | .call _ _, _, _, _, h
  | .access _ _, _, _, _, h | .dot _ _, _, _, _, h | .bin _ _ _, _, _, _, h | .un _ _, _, _, _, h
  | .fact _, _, _, _, h | .spread _, _, _, _, h => by simp [fmtChainP] at h
theorem good_item : ∀ (i : Item) (w inner : Nat), Good (fmtItemP w inner i) (itemCommentsG false i)
  | .mk lead e tr, w, inner => by
    simp only [fmtItemP, itemCommentsG]
    exact Good.append (Good.lead _ lead)
      (Good.text _ (Good.append (good_impl e w inner) (Good.text _ (Good.trail tr))))
theorem good_items : ∀ (is : List Item) (w inner : Nat),
    Good (fmtItemsP w inner is) (itemsCommentsG false is)
  | [], _, _ => by simp only [fmtItemsP, itemsCommentsG]; exact Good.nil
  | i :: rest, w, inner => by
    simp only [fmtItemsP, itemsCommentsG]
    exact Good.append (good_item i w inner) (good_items rest w inner)
theorem good_entry : ∀ (en : Entry) (w inner : Nat),
    Good (fmtEntryP w inner en) (entryCommentsG false en)
  | .mk lead k v tr, w, inner => by
    simp only [fmtEntryP, entryCommentsG]
    exact Good.append (Good.lead _ lead)
      (Good.text _ (Good.append (good_keyed k w inner _ _ (good_impl v w inner))
        (Good.text _ (Good.trail tr))))
theorem good_entries : ∀ (es : List Entry) (w inner : Nat),
    Good (fmtEntriesP w inner es) (entriesCommentsG false es)
  | [], _, _ => by simp only [fmtEntriesP, entriesCommentsG]; exact Good.nil
  | e :: rest, w, inner => by
    simp only [fmtEntriesP, entriesCommentsG]
    exact Good.append (good_entry e w inner) (good_entries rest w inner)
theorem good_keyed : ∀ (k : Key) (w inner : Nat) (vs : List Piece) (vc : List String),
    Good vs vc → Good (fmtKeyedP w inner k vs) (keyCommentsG false k vc)
  | .static _, _, _, _, _, hv => by
    simp only [fmtKeyedP, keyCommentsG]; exact Good.text _ hv
  | .dyn ke, w, inner, _, _, hv => by
    simp only [fmtKeyedP, keyCommentsG]
    exact Good.text _ (Good.append (good_impl ke w inner) (Good.text _ hv))
  | .short _, _, _, _, _, _ => by
    simp only [fmtKeyedP, keyCommentsG]; exact Good.single _
  | .spread e, w, inner, _, _, _ => by
    simp only [fmtKeyedP, keyCommentsG]; exact good_impl e w inner
theorem good_args : ∀ (as : List Expr) (w inner : Nat),
    Good (fmtArgsP w inner as) (exprsCommentsG false as)
  | [], _, _ => by simp only [fmtArgsP, exprsCommentsG]; exact Good.nil
  | a :: rest, w, inner => by
    simp only [fmtArgsP, exprsCommentsG]
    exact Good.text _ (Good.append (good_impl a w inner) (Good.text _ (good_args rest w inner)))
theorem good_stmt : ∀ (i : Item) (w inner : Nat), Good (fmtStmtP w inner i) (itemCommentsG false i)
  | .mk lead e tr, w, inner => by
    simp only [fmtStmtP, itemCommentsG]
    exact Good.append (Good.lead _ lead)
      (Good.text _ (Good.append (Good.protect (good_impl e w inner)) (Good.trail tr)))
theorem good_stmts : ∀ (is : List Item) (w inner : Nat),
    Good (fmtStmtsP w inner is) (itemsCommentsG false is)
  | [], _, _ => by simp only [fmtStmtsP, itemsCommentsG]; exact Good.nil
  | i :: rest, w, inner => by
    simp only [fmtStmtsP, itemsCommentsG]
    exact Good.append (good_stmt i w inner) (good_stmts rest w inner)
theorem good_ret : ∀ (i : Item) (w inner : Nat), Good (fmtRetP w inner i) (retCommentsG false i)
  | .mk lead e tr, w, inner => by
    simp only [fmtRetP, retCommentsG]
    have := Good.append (Good.lead (makeIndent inner) lead) (Good.text ("\n" ++ makeIndent inner ++ "return ") (good_impl e w inner))
    simpa using this
end

/-! ### the functions of `formatter.rs` one by one -/

/-- `fmtImplP` is `format_expr_impl` over `fmtLambdaP` / `fmtMultiP` -/
theorem fmtImplP_eq (w indent : Nat) (e : Expr) :
    fmtImplP w indent e =
      match e with
      | .lambda args body => fmtLambdaP w indent args body
      | .doBlock ss r => fmtMultiP w indent (.doBlock ss r)
      | e => orSingle w indent e fun _ => fmtMultiP w indent e := by
  cases e <;> simp only [fmtImplP, fmtLambdaP, fmtMultiP, fmtCondP, fmtBinP, leafP]

/-- … and the else-if chain is `format_conditional_multiline` on the else-expression -/
theorem fmtChainP_cond (w indent : Nat) (c t e : Expr) :
    fmtChainP w indent (.cond c t e) = some (fmtCondP w indent c t e) := by
  simp only [fmtChainP, fmtCondP]

theorem good_lambda (w indent : Nat) (args : List LArg) (body : Expr) :
    Good (fmtLambdaP w indent args body) (commentsG false (.lambda args body)) := by
  have := good_impl (.lambda args body) w indent
  rwa [fmtImplP_eq] at this

theorem good_cond (w indent : Nat) (c t e : Expr) :
    Good (fmtCondP w indent c t e) (commentsG false (.cond c t e)) :=
  good_chain (.cond c t e) w indent _ (fmtChainP_cond w indent c t e)

theorem good_bin (w indent : Nat) (op : BinOp) (l r : Expr) :
    Good (fmtBinP w indent op l r) (commentsG false (.bin op l r)) := by
  simp only [fmtBinP, commentsG]
  exact good_binLayout _ _ _ _ _ _ _ _ _ _ (good_impl l w _) (good_impl r w _) (good_impl r w _)

/-- `format_multiline` on every node `format_expr_impl` passes to it (everything but a lambda) -/
theorem good_multi (w indent : Nat) (e : Expr) (h : ∀ args body, e ≠ .lambda args body) :
    Good (fmtMultiP w indent e) (commentsG false e) := by
  cases e with
  | lambda args body => exact absurd rfl (h args body)
  | doBlock ss r =>
    have := good_impl (.doBlock ss r) w indent
    rwa [fmtImplP_eq] at this
  | cond c t e => exact good_cond w indent c t e
  | bin op l r => exact good_bin w indent op l r
  | output e => simp only [fmtMultiP, commentsG]; exact Good.text _ (good_impl e w indent)
  | assign n v => simp only [fmtMultiP, commentsG]; exact Good.text _ (good_impl v w indent)
  | list items =>
    simp only [fmtMultiP, commentsG]
    split
    · rename_i h
      rw [List.isEmpty_iff] at h
      subst h
      exact Good.single _
    · exact Good.text _ (Good.snoc _ (good_items items w _))
  | record es =>
    simp only [fmtMultiP, commentsG]
    split
    · rename_i h
      rw [List.isEmpty_iff] at h
      subst h
      exact Good.single _
    · exact Good.text _ (Good.snoc _ (good_entries es w _))
  | call f args =>
    simp only [fmtMultiP, commentsG]
    split
    · rename_i h
      rw [List.isEmpty_iff] at h
      subst h
      exact Good.append (Good.paren _ (good_impl f w indent)) (Good.single _)
    · exact Good.append (Good.paren _ (good_impl f w indent))
        (Good.text _ (Good.snoc _ (good_args args w _)))
  | un op e => simp only [fmtMultiP, commentsG]; exact Good.text _ (Good.paren _ (good_impl e w indent))
  | fact e => simp only [fmtMultiP, commentsG]; exact Good.snoc _ (Good.paren _ (good_impl e w indent))
  | access e i =>
    simp only [fmtMultiP, commentsG]
    exact Good.append (Good.paren _ (good_impl e w indent))
      (Good.text _ (Good.snoc _ (good_impl i w indent)))
  | dot e f => simp only [fmtMultiP, commentsG]; exact Good.snoc _ (Good.paren _ (good_impl e w indent))
  | spread e => simp only [fmtMultiP, commentsG]; exact Good.text _ (good_impl e w indent)
  | num _ | str _ | bool _ | null | ident _ | inref _ | builtin _ =>
    simp only [fmtMultiP, commentsG]; exact Good.single _

/-- the via / into / where branch of `format_binary_op_multiline` whose first line fits: the
    rendered pieces are `format!("{} {} {}", left_str, op_str, right_str)` — the right operand
    as it was formatted -/
theorem render_binLayout_chain (w indent : Nat) (op : BinOp) (l r : Expr) (lP : List Piece)
    (rSame rIn : Unit → List Piece)
    (hchain : (op == .via || op == .into || op == .where_) = true) (hlam : isLambda r = true)
    (hfit : indent + blen (render (parenP (needsParens l (.binLeft op)) lP) ++ " " ++ fmtSpelling op ++
      " " ++ firstLine (render (parenP (needsParens r (.binRight op)) (rSame ())))) ≤ w) :
    render (binLayout w indent op l r lP rSame rIn) =
      render (parenP (needsParens l (.binLeft op)) lP) ++ " " ++ fmtSpelling op ++ " " ++
        render (parenP (needsParens r (.binRight op)) (rSame ())) := by
  unfold binLayout
  simp only [hchain, hlam, Bool.and_self, if_true]
  rw [if_pos hfit]
  simp only [render_append, render_text, String.append_assoc]

end FormatP
end Blots
