import Blots.Lemmas.EvalDepth
/-
  The callback-free built-ins do not conjure function values: every function value inside a
  result of `callPure` was inside one of its arguments.  In particular `sort_by`-free
  arguments give `sort_by`-free results (`CallPureKeepsNSB`), which makes the depth lemmas of
  `Lemmas/EvalDepthMono.lean` unconditional on the built-in table.
-/
namespace Blots

open Lean Elab Tactic Meta in
/-- `fwd_all [g₁, …]`: for every hypothesis `h` that is an equation add `gᵢ h` for each lemma
    that applies (no filtering: the lemmas are matched up to unfolding of `match` auxiliaries) -/
elab "fwd_all " "[" gs:ident,* "]" : tactic => withMainContext do
  let lctx ← getLCtx
  for d in lctx do
    if d.isImplementationDetail then continue
    let ty ← instantiateMVars d.type
    let some _ := ty.eq? | continue
    for g in gs.getElems do
      try
        let hstx ← Term.exprToSyntax d.toExpr
        evalTactic (← `(tactic| have := $g:ident $hstx))
      catch _ => pure ()

theorem arg_some {args : List Value} {i : Nat} {msg : String} {x : Value}
    (h : (match args[i]? with
          | some v => Outcome.ok v
          | none => Outcome.panic msg) = Outcome.ok x) : args[i]? = some x := by
  split at h
  · rename_i v hv; injection h with h; subst h; exact hv
  · simp at h

theorem asList_ok {v : Value} {l : List Value} (h : asList v = .ok l) : v = .list l := by
  cases v <;> simp [asList] at h; subst h; rfl

theorem asRecord_ok {v : Value} {r : List (String × Value)} (h : asRecord v = .ok r) : v = .record r := by
  cases v <;> simp [asRecord] at h; subst h; rfl

theorem nsbList_of_subset {xs ys : List Value} (hx : Value.nsbList xs = true)
    (h : ∀ y ∈ ys, y ∈ xs) : Value.nsbList ys = true :=
  (nsbList_iff ys).mpr fun y hy => nsb_of_mem_list hx (h y hy)

theorem mem_mergeBy {α} (lt : α → α → Bool) (x : α) : ∀ (l r : List α), x ∈ mergeBy lt l r → x ∈ l ∨ x ∈ r := by
  intro l r
  fun_induction mergeBy lt l r with
  | case1 r => intro h; exact Or.inr h
  | case2 l _ => intro h; exact Or.inl h
  | case3 a l b r hlt ih =>
    intro h
    simp only [List.mem_cons] at h ⊢
    rcases h with h | h
    · exact Or.inr (Or.inl h)
    · rcases ih h with h | h
      · exact Or.inl (by simpa using h)
      · exact Or.inr (Or.inr h)
  | case4 a l b r hlt ih =>
    intro h
    simp only [List.mem_cons] at h ⊢
    rcases h with h | h
    · exact Or.inl (Or.inl h)
    · rcases ih h with h | h
      · exact Or.inl (Or.inr h)
      · exact Or.inr (by simpa using h)

theorem mem_mergeSortBy {α} (lt : α → α → Bool) (x : α) : ∀ (fuel : Nat) (xs : List α),
    x ∈ mergeSortBy lt fuel xs → x ∈ xs
  | 0, xs, h => by simpa [mergeSortBy] using h
  | fuel + 1, xs, h => by
    simp only [mergeSortBy] at h
    split at h
    · exact h
    · rcases mem_mergeBy lt x _ _ h with h | h
      · exact List.mem_of_mem_take (mem_mergeSortBy lt x fuel _ h)
      · exact List.mem_of_mem_drop (mem_mergeSortBy lt x fuel _ h)

theorem mem_uniqueBy (x : Value) (xs : List Value) (h : x ∈ uniqueBy xs) : x ∈ xs := by
  unfold uniqueBy at h
  suffices hs : ∀ (ys acc : List Value), x ∈ ys.foldl (fun acc x => if acc.any (fun y => veq x y) then acc
      else acc ++ [x]) acc → x ∈ acc ∨ x ∈ ys by
    rcases hs xs [] h with h | h
    · simp at h
    · exact h
  intro ys
  induction ys with
  | nil => intro acc h; exact Or.inl h
  | cons y ys ih =>
    intro acc h
    simp only [List.foldl_cons] at h
    rcases ih _ h with h | h
    · split at h
      · exact Or.inl h
      · simp only [List.mem_append, List.mem_singleton] at h
        rcases h with h | h
        · exact Or.inl h
        · exact Or.inr (by simp [h])
    · exact Or.inr (by simp [h])

theorem nsb_chunkList (k : Nat) : ∀ (fuel : Nat) (xs : List Value), Value.nsbList xs = true →
    Value.nsbList (chunkList k fuel xs) = true
  | 0, _, _ => rfl
  | fuel + 1, xs, h => by
    simp only [chunkList]
    split
    · rfl
    · simp only [Value.nsbList, Value.nsb, Bool.and_eq_true]
      exact ⟨nsbList_of_subset h fun y hy => List.mem_of_mem_take hy,
        nsb_chunkList k fuel _ (nsbList_drop h k)⟩

theorem nsb_zipRows (lists : List (List Value)) (n : Nat)
    (h : ∀ l ∈ lists, Value.nsbList l = true) : Value.nsbList (zipRows lists n) = true := by
  unfold zipRows
  rw [nsbList_iff]
  intro x hx
  simp only [List.mem_map, List.mem_range] at hx
  obtain ⟨i, _, rfl⟩ := hx
  simp only [Value.nsb, nsbList_iff, List.mem_map]
  rintro y ⟨l, hl, rfl⟩
  exact nsb_listGetD (h l hl) i

theorem nsb_uncheckedCmp {name : String} {a b v : Value} (h : uncheckedCmp name a b = .ok v) :
    v.nsb = true := by
  unfold uncheckedCmp at h
  split at h <;> simp at h <;> (subst h; rfl)

theorem arg_nsb {args : List Value} {i : Nat} {msg : String} {x : Value}
    (h : (match args[i]? with
          | some v => Outcome.ok v
          | none => Outcome.panic msg) = Outcome.ok x) (ha : Value.nsbList args = true) :
    x.nsb = true := nsb_getElem? ha (arg_some h)

theorem nsb_headD {l : List Value} (h : Value.nsbList l = true) : (l.head?.getD .null).nsb = true := by
  cases l with
  | nil => rfl
  | cons x xs => simp only [Value.nsbList, Bool.and_eq_true] at h; simpa using h.1

theorem nsb_concat {args : List Value} (ha : Value.nsbList args = true) :
    Value.nsbList (args.flatMap fun
      | .list l => l
      | .spread (.list l) => l
      | .spread (.str s) => (chars s).map fun c => .str (String.singleton c)
      | v => [v]) = true := by
  rw [nsbList_iff]
  intro x hx
  simp only [List.mem_flatMap] at hx
  obtain ⟨a, ha', hx⟩ := hx
  have han := nsb_of_mem_list ha ha'
  split at hx
  · exact nsb_of_mem_list (by simpa [Value.nsb] using han) hx
  · exact nsb_of_mem_list (by simpa [Value.nsb] using han) hx
  · simp only [List.mem_map] at hx; obtain ⟨c, _, rfl⟩ := hx; rfl
  · simp only [List.mem_singleton] at hx; subst hx; exact han

theorem nsb_flatten {l : List Value} (hl : Value.nsbList l = true) :
    Value.nsbList (l.flatMap fun
      | .list inner => inner
      | v => [v]) = true := by
  rw [nsbList_iff]
  intro x hx
  simp only [List.mem_flatMap] at hx
  obtain ⟨a, ha', hx⟩ := hx
  have han := nsb_of_mem_list hl ha'
  split at hx
  · exact nsb_of_mem_list (by simpa [Value.nsb] using han) hx
  · simp only [List.mem_singleton] at hx; subst hx; exact han

theorem nsb_zip_lists {args : List Value} {lists : List (List Value)} (ha : Value.nsbList args = true)
    (h : Outcome.mapM' (fun v => match v with
          | Value.list l => Outcome.ok l
          | _ => Outcome.err ErrKind.type_) args = .ok lists) :
    ∀ l ∈ lists, Value.nsbList l = true := by
  obtain ⟨hl, hg⟩ := (Outcome.mapM'_ok_iff_get _ args lists).mp h
  intro l hl'
  obtain ⟨i, hi, rfl⟩ := List.getElem_of_mem hl'
  have := hg i (by omega) hi
  split at this
  · rename_i l' heq
    injection this with this
    subst this
    have := nsb_of_mem_list ha (List.getElem_mem (by omega : i < args.length))
    rw [heq] at this
    simpa [Value.nsb] using this
  · simp at this

set_option maxHeartbeats 8000000 in
/-- the callback-free built-ins keep the invariant -/
theorem callPure_keeps_nsb (ops : NumOps) : CallPureKeepsNSB ops := by
  intro name args v h ha
  unfold callPure at h
  simp only [] at h
  split at h
  all_goals (try (simp only [Option.some.injEq, reduceCtorEq] at h))
  all_goals (try (
    (try simp only [bind, pure, Outcome.bind] at h)
    (repeat' split at h) <;> (try simp at h) <;> (try (subst h)) <;> (try (simp [Value.nsb]; done))))
  all_goals (
    fwd_all [arg_nsb, asList_ok, asRecord_ok, nsb_uncheckedCmp]
    (try subst_vars)
    simp_all [Value.nsb]
    first
      | done
      | (simp [nsbList_iff, Value.nsb]; done)
      | exact nsb_headD ‹_›
      | exact nsbList_of_subset ‹_› fun y hy => List.mem_of_mem_tail hy
      | exact nsbList_of_subset ‹_› fun y hy => List.mem_of_mem_take (List.mem_of_mem_drop hy)
      | exact nsb_concat ‹_›
      | exact nsbList_of_subset ‹_› fun y hy => mem_uniqueBy y _ hy
      | exact nsbList_of_subset ‹_› fun y hy => mem_mergeSortBy _ y _ _ hy
      | exact nsbList_of_subset ‹_› fun y hy => List.mem_reverse.mp hy
      | exact nsb_flatten ‹_›
      | exact nsb_zipRows _ _ (nsb_zip_lists ‹_› ‹_›)
      | exact nsb_chunkList _ _ _ ‹_›
      | (rw [nsbList_iff]; intro x hx; simp only [List.mem_map] at hx; obtain ⟨kv, hkv, rfl⟩ := hx
         simp [Value.nsb, Value.nsbList, (nsbRec_iff _).mp ‹_› kv hkv]))

end Blots
