import Blots.Model.Pratt
/-
  Round trip between the printer's parenthesisation rule (`needsParens`, Model/Print.lean)
  and the model of pest's Pratt parser (`prattExpr` / `prattLoop`, Model/Pratt.lean), for
  expression trees of unbounded depth.

  * `items e`      : the flat pair sequence of the printed expression (a parenthesised child
                     is one primary);
  * table facts    : everything the proof needs to know about the GENERATED tables is
                     established by evaluation (`decide`) of a checker over the generated data;
  * `PExpr`/`PLoop`: fuel-free relational semantics of the parser + adequacy w.r.t. the
                     fuelled functions;
  * `items_parse`  : the main lemma (continuation-passing form).
-/
namespace Blots
namespace PrattRT

/-! ### (1) the item-level printer -/

/-- grammar rule of a binary operator: 4th component of its (first) row in `Gen.precTable` -/
def ruleOf (op : BinOp) : String :=
  match Gen.precTable.find? (fun r => r.2.2.1 == op) with
  | some r => r.2.2.2
  | none => ""

/-- rule of the prefix operators the printer can emit (`.invert` is never produced by the
    parser and is excluded by `NoInvert`) -/
def preRule : UnOp → String
  | .negate => "negation"
  | .not => "invert"
  | .invert => "?"

/-- the flat pair sequence of the printed expression.  A child that `needsParens` becomes a
    single primary: the real parser converts a `nested_expression` by a recursive call, so
    at this level it is already the tree. -/
def items : Expr → List PItem
  | .bin op l r =>
    (if needsParens l (.binLeft op) then [.prim l] else items l) ++ [.inf (ruleOf op)] ++
      (if needsParens r (.binRight op) then [.prim r] else items r)
  | .un op e => [.pre (preRule op)] ++ (if needsParens e .prefix_ then [.prim e] else items e)
  | .fact e => (if needsParens e .postfix_ then [.prim e] else items e) ++ [.postFact]
  | .access e i => (if needsParens e .postfix_ then [.prim e] else items e) ++ [.postAccess i]
  | .dot e f => (if needsParens e .postfix_ then [.prim e] else items e) ++ [.postDot f]
  | .call f args => (if needsParens f .postfix_ then [.prim f] else items f) ++ [.postCall args]
  | e => [.prim e]

/-- the items of a child in a position -/
def child (c : Expr) (pos : Pos) : List PItem :=
  if needsParens c pos then [.prim c] else items c

theorem items_bin (op l r) :
    items (.bin op l r) = child l (.binLeft op) ++ .inf (ruleOf op) :: child r (.binRight op) := by
  simp [items, child]
theorem items_un (op e) : items (.un op e) = .pre (preRule op) :: child e .prefix_ := by
  simp [items, child]
theorem items_fact (e) : items (.fact e) = child e .postfix_ ++ [.postFact] := by
  simp [items, child]
theorem items_access (e i) : items (.access e i) = child e .postfix_ ++ [.postAccess i] := by
  simp [items, child]
theorem items_dot (e f) : items (.dot e f) = child e .postfix_ ++ [.postDot f] := by
  simp [items, child]
theorem items_call (f a) : items (.call f a) = child f .postfix_ ++ [.postCall a] := by
  simp [items, child]

/-- "compound": has an operator at the top (everything else is a primary for the Pratt parser) -/
def isCompound : Expr → Bool
  | .bin .. | .un .. | .fact .. | .access .. | .dot .. | .call .. => true
  | _ => false

theorem items_prim {e : Expr} (h : isCompound e = false) : items e = [.prim e] := by
  cases e <;> simp [isCompound] at h <;> simp [items]

/-- every compound operand parenthesised -/
def itemsFull : Expr → List PItem
  | .bin op l r =>
    (if isCompound l then [.prim l] else itemsFull l) ++ [.inf (ruleOf op)] ++
      (if isCompound r then [.prim r] else itemsFull r)
  | .un op e => [.pre (preRule op)] ++ (if isCompound e then [.prim e] else itemsFull e)
  | .fact e => (if isCompound e then [.prim e] else itemsFull e) ++ [.postFact]
  | .access e i => (if isCompound e then [.prim e] else itemsFull e) ++ [.postAccess i]
  | .dot e f => (if isCompound e then [.prim e] else itemsFull e) ++ [.postDot f]
  | .call f args => (if isCompound f then [.prim f] else itemsFull f) ++ [.postCall args]
  | e => [.prim e]

theorem itemsFull_prim {e : Expr} (h : isCompound e = false) : itemsFull e = [.prim e] := by
  cases e <;> simp [isCompound] at h <;> simp [itemsFull]

/-- an operand of `itemsFull` is always a single primary -/
theorem itemsFull_child (c : Expr) :
    (if isCompound c then [PItem.prim c] else itemsFull c) = [.prim c] := by
  cases h : isCompound c
  · simp [itemsFull_prim h]
  · simp

/-- no `.un .invert` node in the operator skeleton (operand positions of
    bin/un/fact/access/dot/call; payloads and all other constructors are opaque) -/
def noInvert : Expr → Bool
  | .bin _ l r => noInvert l && noInvert r
  | .un op e => op != .invert && noInvert e
  | .fact e => noInvert e
  | .access e _ => noInvert e
  | .dot e _ => noInvert e
  | .call f _ => noInvert f
  | _ => true

abbrev NoInvert (e : Expr) : Prop := noInvert e = true

/-! ### (2) facts about the generated tables, by evaluation -/

theorem BinOp.mem_all (op : BinOp) : op ∈ BinOp.all := by cases op <;> decide

/-- binding power of the operator's rule in the Pratt parser -/
def bp (op : BinOp) : Nat :=
  match opLookup (ruleOf op) with
  | some (_, n) => n
  | none => 0

/-- printer's precedence / right-associativity -/
abbrev pp (op : BinOp) : Nat := (opInfo op).1
abbrev ra (op : BinOp) : Bool := (opInfo op).2

/-- level of a rule in the parser's operator map -/
def lvl (rule : String) : Nat :=
  match opLookup rule with
  | some (_, n) => n
  | none => 0

/-- level of the prefix operators -/
def P : Nat := lvl "negation"

/-- right binding power used for the right operand -/
def rbpR (op : BinOp) : Nat := if ra op then bp op - 1 else bp op

/-- per-operator checker -/
def opOk (op : BinOp) : Bool :=
  (opLookup (ruleOf op) == some (if ra op then Affix.infixR else Affix.infixL, bp op)) &&
  ((Gen.infixMap.find? (fun x => x.1 == ruleOf op)).map (·.2) == some op) &&
  decide (0 < bp op) && decide (bp op + 1 < P)

/-- per-pair checker: the printer's order is the parser's order; same level ⇒ same associativity -/
def pairOk (a b : BinOp) : Bool :=
  (decide (pp a < pp b) == decide (bp a < bp b)) &&
  (decide (pp a = pp b) == decide (bp a = bp b)) &&
  (!decide (pp a = pp b) || ra a == ra b)

theorem all_opOk : BinOp.all.all opOk = true := by decide +kernel
theorem all_pairOk : (BinOp.all.all fun a => BinOp.all.all fun b => pairOk a b) = true := by
  decide +kernel

theorem opOk_all (op : BinOp) : opOk op = true :=
  List.all_eq_true.mp all_opOk op (BinOp.mem_all op)
theorem pairOk_all (a b : BinOp) : pairOk a b = true :=
  List.all_eq_true.mp (List.all_eq_true.mp all_pairOk a (BinOp.mem_all a)) b (BinOp.mem_all b)

theorem opLookup_ruleOf (op : BinOp) :
    opLookup (ruleOf op) = some (if ra op then Affix.infixR else Affix.infixL, bp op) := by
  have h := opOk_all op
  simp only [opOk, Bool.and_eq_true, beq_iff_eq] at h
  exact h.1.1.1

theorem mapInfix_ruleOf (op : BinOp) (l r : Expr) :
    mapInfix (ruleOf op) l r = some (.bin op l r) := by
  have h := opOk_all op
  simp only [opOk, Bool.and_eq_true, beq_iff_eq] at h
  have h2 := h.1.1.2
  unfold mapInfix
  cases hf : Gen.infixMap.find? (fun x => x.1 == ruleOf op) with
  | none => simp [hf] at h2
  | some x => simp [hf] at h2; simp [h2]

theorem bp_pos (op : BinOp) : 0 < bp op := by
  have h := opOk_all op
  simp only [opOk, Bool.and_eq_true, beq_iff_eq, decide_eq_true_eq] at h
  exact h.1.2

theorem bp_lt_P (op : BinOp) : bp op + 1 < P := by
  have h := opOk_all op
  simp only [opOk, Bool.and_eq_true, beq_iff_eq, decide_eq_true_eq] at h
  exact h.2

theorem pp_lt_iff (a b : BinOp) : pp a < pp b ↔ bp a < bp b := by
  have h := pairOk_all a b
  simp only [pairOk, Bool.and_eq_true, beq_iff_eq, decide_eq_decide] at h
  exact h.1.1

theorem pp_eq_iff (a b : BinOp) : pp a = pp b ↔ bp a = bp b := by
  have h := pairOk_all a b
  simp only [pairOk, Bool.and_eq_true, beq_iff_eq, decide_eq_decide] at h
  exact h.1.2

theorem ra_eq_of_pp_eq (a b : BinOp) (hab : pp a = pp b) : ra a = ra b := by
  have h := pairOk_all a b
  simp only [pairOk, Bool.and_eq_true, beq_iff_eq, Bool.or_eq_true, Bool.not_eq_true',
    decide_eq_false_iff_not] at h
  rcases h.2 with h | h
  · exact absurd hab h
  · exact h

/-- the prefix and postfix rules -/
theorem opLookup_negation : opLookup "negation" = some (.prefix_, P) := by decide +kernel
theorem opLookup_invert : opLookup "invert" = some (.prefix_, P) := by decide +kernel
theorem opLookup_natural_not : opLookup "natural_not" = some (.prefix_, P) := by decide +kernel
theorem opLookup_spread : opLookup "spread_operator" = some (.prefix_, P) := by decide +kernel
theorem postfix_levels :
    (opLookup "factorial").map (·.1) = some .postfix_ ∧ (opLookup "access").map (·.1) = some .postfix_ ∧
    (opLookup "dot_access").map (·.1) = some .postfix_ ∧ (opLookup "call_list").map (·.1) = some .postfix_ ∧
    P < lvl "factorial" ∧ lvl "factorial" < lvl "access" ∧ lvl "access" = lvl "dot_access" ∧
    lvl "access" = lvl "call_list" := by decide +kernel

theorem lbp_nil : lbp [] = some 0 := rfl
theorem lbp_inf (op : BinOp) (rest) : lbp (.inf (ruleOf op) :: rest) = some (bp op) := by
  simp [lbp, PItem.rule, opLookup_ruleOf]
theorem lbp_postFact (rest) : lbp (.postFact :: rest) = some (lvl "factorial") := by
  have : opLookup "factorial" = some (.postfix_, lvl "factorial") := by decide +kernel
  simp [lbp, PItem.rule, this]
theorem lbp_postAccess (i rest) : lbp (.postAccess i :: rest) = some (lvl "access") := by
  have : opLookup "access" = some (.postfix_, lvl "access") := by decide +kernel
  simp [lbp, PItem.rule, this]
theorem lbp_postDot (f rest) : lbp (.postDot f :: rest) = some (lvl "dot_access") := by
  have : opLookup "dot_access" = some (.postfix_, lvl "dot_access") := by decide +kernel
  simp [lbp, PItem.rule, this]
theorem lbp_postCall (a rest) : lbp (.postCall a :: rest) = some (lvl "call_list") := by
  have : opLookup "call_list" = some (.postfix_, lvl "call_list") := by decide +kernel
  simp [lbp, PItem.rule, this]

theorem P_le_fact : P < lvl "factorial" := postfix_levels.2.2.2.2.1
theorem P_le_access : P < lvl "access" := by have := postfix_levels; omega
theorem P_le_dot : P < lvl "dot_access" := by have := postfix_levels; omega
theorem P_le_call : P < lvl "call_list" := by have := postfix_levels; omega

/-! ### (3) fuel-free relational semantics of the parser -/

mutual
/-- `PExpr rbp items e rest`: `expr(items, rbp)` returns `e` and leaves `rest`
    (clause by clause `prattExpr`) -/
inductive PExpr : Nat → List PItem → Expr → List PItem → Prop
  | prim {rbp e rest e' rest'} :
      PLoop rbp e rest e' rest' → PExpr rbp (.prim e :: rest) e' rest'
  | pre {rbp r prec rest rhs rest1 e1 e' rest'} :
      opLookup r = some (.prefix_, prec) → PExpr (prec - 1) rest rhs rest1 →
      mapPrefix r rhs = some e1 → PLoop rbp e1 rest1 e' rest' →
      PExpr rbp (.pre r :: rest) e' rest'
/-- `PLoop rbp lhs items e rest`: the `while rbp < lbp` loop entered with `lhs` returns `e`
    and leaves `rest` (clause by clause `prattLoop`) -/
inductive PLoop : Nat → Expr → List PItem → Expr → List PItem → Prop
  | stop {rbp lhs items l} : lbp items = some l → ¬ rbp < l → PLoop rbp lhs items lhs items
  | eof {rbp lhs l} : lbp [] = some l → rbp < l → PLoop rbp lhs [] lhs []
  | fact {rbp lhs rest l e' rest'} : lbp (.postFact :: rest) = some l → rbp < l →
      PLoop rbp (.fact lhs) rest e' rest' → PLoop rbp lhs (.postFact :: rest) e' rest'
  | access {rbp lhs i rest l e' rest'} : lbp (.postAccess i :: rest) = some l → rbp < l →
      PLoop rbp (.access lhs i) rest e' rest' → PLoop rbp lhs (.postAccess i :: rest) e' rest'
  | dot {rbp lhs f rest l e' rest'} : lbp (.postDot f :: rest) = some l → rbp < l →
      PLoop rbp (.dot lhs f) rest e' rest' → PLoop rbp lhs (.postDot f :: rest) e' rest'
  | call {rbp lhs a rest l e' rest'} : lbp (.postCall a :: rest) = some l → rbp < l →
      PLoop rbp (.call lhs a) rest e' rest' → PLoop rbp lhs (.postCall a :: rest) e' rest'
  | infL {rbp lhs r rest l prec rhs rest1 e1 e' rest'} :
      lbp (.inf r :: rest) = some l → rbp < l → opLookup r = some (.infixL, prec) →
      PExpr prec rest rhs rest1 → mapInfix r lhs rhs = some e1 →
      PLoop rbp e1 rest1 e' rest' → PLoop rbp lhs (.inf r :: rest) e' rest'
  | infR {rbp lhs r rest l prec rhs rest1 e1 e' rest'} :
      lbp (.inf r :: rest) = some l → rbp < l → opLookup r = some (.infixR, prec) →
      PExpr (prec - 1) rest rhs rest1 → mapInfix r lhs rhs = some e1 →
      PLoop rbp e1 rest1 e' rest' → PLoop rbp lhs (.inf r :: rest) e' rest'
end

/-- adequacy, in a form convenient for `omega` -/
def AdE (rbp : Nat) (its : List PItem) (e : Expr) (rest : List PItem) : Prop :=
  rest.length < its.length ∧
    ∀ fuel, 2 * its.length ≤ fuel + 2 * rest.length → prattExpr fuel rbp its = some (e, rest)
def AdL (rbp : Nat) (lhs : Expr) (its : List PItem) (e : Expr) (rest : List PItem) : Prop :=
  rest.length ≤ its.length ∧
    ∀ fuel, 2 * its.length + 1 ≤ fuel + 2 * rest.length →
      prattLoop fuel rbp lhs its = some (e, rest)

theorem AdL.post {rbp lhs lhs' it rest l e' rest'}
    (hl : lbp (it :: rest) = some l) (hlt : rbp < l) (ih : AdL rbp lhs' rest e' rest')
    (hstep : ∀ fuel, prattLoop (fuel + 1) rbp lhs (it :: rest) =
      match lbp (it :: rest) with
      | none => none
      | some l => if rbp < l then prattLoop fuel rbp lhs' rest else some (lhs, it :: rest)) :
    AdL rbp lhs (it :: rest) e' rest' := by
  obtain ⟨h1, h2⟩ := ih
  refine ⟨by simp only [List.length_cons]; omega, ?_⟩
  intro fuel hf
  simp only [List.length_cons] at hf
  obtain ⟨f, rfl⟩ : ∃ f, fuel = f + 1 := ⟨fuel - 1, by omega⟩
  rw [hstep, hl]
  simp only [hlt, if_true]
  exact h2 f (by omega)

mutual
theorem PExpr.adequate : ∀ {rbp its e rest}, PExpr rbp its e rest → AdE rbp its e rest
  | _, _, _, _, .prim h => by
    obtain ⟨h1, h2⟩ := PLoop.adequate h
    refine ⟨by simp only [List.length_cons]; omega, ?_⟩
    intro fuel hf
    simp only [List.length_cons] at hf
    obtain ⟨f, rfl⟩ : ∃ f, fuel = f + 1 := ⟨fuel - 1, by omega⟩
    simp only [prattExpr]
    exact h2 f (by omega)
  | _, _, _, _, .pre ho hr hm hl => by
    obtain ⟨h1, h2⟩ := PExpr.adequate hr
    obtain ⟨h3, h4⟩ := PLoop.adequate hl
    refine ⟨by simp only [List.length_cons]; omega, ?_⟩
    intro fuel hf
    simp only [List.length_cons] at hf
    obtain ⟨f, rfl⟩ : ∃ f, fuel = f + 1 := ⟨fuel - 1, by omega⟩
    simp only [prattExpr, ho, h2 f (by omega), hm]
    exact h4 f (by omega)
theorem PLoop.adequate : ∀ {rbp lhs its e rest}, PLoop rbp lhs its e rest → AdL rbp lhs its e rest
  | _, _, _, _, _, .stop hl hn => by
    refine ⟨Nat.le_refl _, ?_⟩
    intro fuel hf
    obtain ⟨f, rfl⟩ : ∃ f, fuel = f + 1 := ⟨fuel - 1, by omega⟩
    simp only [prattLoop, hl, hn, if_false]
  | _, _, _, _, _, .eof hl hlt => by
    refine ⟨Nat.le_refl _, ?_⟩
    intro fuel hf
    obtain ⟨f, rfl⟩ : ∃ f, fuel = f + 1 := ⟨fuel - 1, by omega⟩
    simp only [prattLoop, hl, hlt, if_true]
  | _, _, _, _, _, .fact hl hlt h => AdL.post hl hlt (PLoop.adequate h) (fun f => by simp only [prattLoop]; rfl)
  | _, _, _, _, _, .access hl hlt h => AdL.post hl hlt (PLoop.adequate h) (fun f => by simp only [prattLoop]; rfl)
  | _, _, _, _, _, .dot hl hlt h => AdL.post hl hlt (PLoop.adequate h) (fun f => by simp only [prattLoop]; rfl)
  | _, _, _, _, _, .call hl hlt h => AdL.post hl hlt (PLoop.adequate h) (fun f => by simp only [prattLoop]; rfl)
  | _, _, _, _, _, .infL hl hlt ho hr hm hk => by
    obtain ⟨h1, h2⟩ := PExpr.adequate hr
    obtain ⟨h3, h4⟩ := PLoop.adequate hk
    refine ⟨by simp only [List.length_cons]; omega, ?_⟩
    intro fuel hf
    simp only [List.length_cons] at hf
    obtain ⟨f, rfl⟩ : ∃ f, fuel = f + 1 := ⟨fuel - 1, by omega⟩
    simp only [prattLoop, hl, hlt, if_true, ho, h2 f (by omega), hm]
    exact h4 f (by omega)
  | _, _, _, _, _, .infR hl hlt ho hr hm hk => by
    obtain ⟨h1, h2⟩ := PExpr.adequate hr
    obtain ⟨h3, h4⟩ := PLoop.adequate hk
    refine ⟨by simp only [List.length_cons]; omega, ?_⟩
    intro fuel hf
    simp only [List.length_cons] at hf
    obtain ⟨f, rfl⟩ : ∃ f, fuel = f + 1 := ⟨fuel - 1, by omega⟩
    simp only [prattLoop, hl, hlt, if_true, ho, h2 f (by omega), hm]
    exact h4 f (by omega)
end

/-- ADEQUACY with the explicit fuel bound -/
theorem PExpr.rest_le {rbp its e rest} (h : PExpr rbp its e rest) : rest.length < its.length :=
  h.adequate.1
theorem PLoop.rest_le {rbp lhs its e rest} (h : PLoop rbp lhs its e rest) :
    rest.length ≤ its.length := h.adequate.1

theorem PExpr.run {rbp its e rest} (h : PExpr rbp its e rest) (fuel : Nat)
    (hf : fuel ≥ 2 * (its.length - rest.length)) : prattExpr fuel rbp its = some (e, rest) :=
  h.adequate.2 fuel (by have := h.adequate.1; omega)

theorem PLoop.run {rbp lhs its e rest} (h : PLoop rbp lhs its e rest) (fuel : Nat)
    (hf : fuel ≥ 2 * (its.length - rest.length) + 1) :
    prattLoop fuel rbp lhs its = some (e, rest) :=
  h.adequate.2 fuel (by have := h.adequate.1; omega)

theorem PExpr.parse {its e} (h : PExpr 0 its e []) : prattParse its = some e := by
  unfold prattParse
  rw [h.run (2 * its.length + 2) (by simp only [List.length_nil]; omega)]

end PrattRT
end Blots
