import Blots.Model.Pratt
/-
  Round trip between the printer's parenthesisation rule (`needsParens`, Model/Print.lean)
  and the model of pest's Pratt parser (`prattExpr` / `prattLoop`, Model/Pratt.lean), for
  expression trees of unbounded depth.

  * `items e`      : the flat pair sequence of the printed expression (a parenthesised child
                     is one primary);
  * table facts    : everything the proof needs to know about the GENERATED tables is
                     established by evaluation (`decide`) of a checker over the generated data;
  * `PExpr`/`PLoop`: fuel-free relational semantics of the parser + adequacy w.r.t. the
                     fuelled functions;
  * `items_parse`  : the main lemma (continuation-passing form).
-/
namespace Blots
namespace PrattRT

/-! ### (1) the item-level printer -/

/-- grammar rule of a binary operator: 4th component of its (first) row in `Gen.precTable` -/
def ruleOf (op : BinOp) : String :=
  match Gen.precTable.find? (fun r => r.2.2.1 == op) with
  | some r => r.2.2.2
  | none => ""

/-- rule of the prefix operators the printer can emit (`.invert` is never produced by the
    parser and is excluded by `NoInvert`) -/
def preRule : UnOp → String
  | .negate => "negation"
  | .not => "invert"
  | .invert => "?"

/-- the flat pair sequence of the printed expression.  A child that `needsParens` becomes a
    single primary: the real parser converts a `nested_expression` by a recursive call, so
    at this level it is already the tree. -/
def items : Expr → List PItem
  | .bin op l r =>
    (if needsParens l (.binLeft op) then [.prim l] else items l) ++ [.inf (ruleOf op)] ++
      (if needsParens r (.binRight op) then [.prim r] else items r)
  | .un op e => [.pre (preRule op)] ++ (if needsParens e .prefix_ then [.prim e] else items e)
  | .fact e => (if needsParens e .postfix_ then [.prim e] else items e) ++ [.postFact]
  | .access e i => (if needsParens e .postfix_ then [.prim e] else items e) ++ [.postAccess i]
  | .dot e f => (if needsParens e .postfix_ then [.prim e] else items e) ++ [.postDot f]
  | .call f args => (if needsParens f .postfix_ then [.prim f] else items f) ++ [.postCall args]
  | e => [.prim e]

/-- the items of a child in a position -/
def child (c : Expr) (pos : Pos) : List PItem :=
  if needsParens c pos then [.prim c] else items c

theorem items_bin (op l r) :
    items (.bin op l r) = child l (.binLeft op) ++ .inf (ruleOf op) :: child r (.binRight op) := by
  simp [items, child]
theorem items_un (op e) : items (.un op e) = .pre (preRule op) :: child e .prefix_ := by
  simp [items, child]
theorem items_fact (e) : items (.fact e) = child e .postfix_ ++ [.postFact] := by
  simp [items, child]
theorem items_access (e i) : items (.access e i) = child e .postfix_ ++ [.postAccess i] := by
  simp [items, child]
theorem items_dot (e f) : items (.dot e f) = child e .postfix_ ++ [.postDot f] := by
  simp [items, child]
theorem items_call (f a) : items (.call f a) = child f .postfix_ ++ [.postCall a] := by
  simp [items, child]

/-- "compound": has an operator at the top (everything else is a primary for the Pratt parser) -/
def isCompound : Expr → Bool
  | .bin .. | .un .. | .fact .. | .access .. | .dot .. | .call .. => true
  | _ => false

theorem items_prim {e : Expr} (h : isCompound e = false) : items e = [.prim e] := by
  cases e <;> simp [isCompound] at h <;> simp [items]

/-- every compound operand parenthesised -/
def itemsFull : Expr → List PItem
  | .bin op l r =>
    (if isCompound l then [.prim l] else itemsFull l) ++ [.inf (ruleOf op)] ++
      (if isCompound r then [.prim r] else itemsFull r)
  | .un op e => [.pre (preRule op)] ++ (if isCompound e then [.prim e] else itemsFull e)
  | .fact e => (if isCompound e then [.prim e] else itemsFull e) ++ [.postFact]
  | .access e i => (if isCompound e then [.prim e] else itemsFull e) ++ [.postAccess i]
  | .dot e f => (if isCompound e then [.prim e] else itemsFull e) ++ [.postDot f]
  | .call f args => (if isCompound f then [.prim f] else itemsFull f) ++ [.postCall args]
  | e => [.prim e]

theorem itemsFull_prim {e : Expr} (h : isCompound e = false) : itemsFull e = [.prim e] := by
  cases e <;> simp [isCompound] at h <;> simp [itemsFull]

/-- an operand of `itemsFull` is always a single primary -/
theorem itemsFull_child (c : Expr) :
    (if isCompound c then [PItem.prim c] else itemsFull c) = [.prim c] := by
  cases h : isCompound c
  · simp [itemsFull_prim h]
  · simp

/-- no `.un .invert` node in the operator skeleton (operand positions of
    bin/un/fact/access/dot/call; payloads and all other constructors are opaque) -/
def noInvert : Expr → Bool
  | .bin _ l r => noInvert l && noInvert r
  | .un op e => op != .invert && noInvert e
  | .fact e => noInvert e
  | .access e _ => noInvert e
  | .dot e _ => noInvert e
  | .call f _ => noInvert f
  | _ => true

abbrev NoInvert (e : Expr) : Prop := noInvert e = true

/-! ### (2) facts about the generated tables, by evaluation -/

theorem BinOp.mem_all (op : BinOp) : op ∈ BinOp.all := by cases op <;> decide

/-- binding power of the operator's rule in the Pratt parser -/
def bp (op : BinOp) : Nat :=
  match opLookup (ruleOf op) with
  | some (_, n) => n
  | none => 0

/-- printer's precedence / right-associativity -/
abbrev pp (op : BinOp) : Nat := (opInfo op).1
abbrev ra (op : BinOp) : Bool := (opInfo op).2

/-- level of a rule in the parser's operator map -/
def lvl (rule : String) : Nat :=
  match opLookup rule with
  | some (_, n) => n
  | none => 0

/-- level of the prefix operators -/
def P : Nat := lvl "negation"

/-- right binding power used for the right operand -/
def rbpR (op : BinOp) : Nat := if ra op then bp op - 1 else bp op

/-- per-operator checker -/
def opOk (op : BinOp) : Bool :=
  (opLookup (ruleOf op) == some (if ra op then Affix.infixR else Affix.infixL, bp op)) &&
  ((Gen.infixMap.find? (fun x => x.1 == ruleOf op)).map (·.2) == some op) &&
  decide (0 < bp op) && decide (bp op + 1 < P)

/-- per-pair checker: the printer's order is the parser's order; same level ⇒ same associativity -/
def pairOk (a b : BinOp) : Bool :=
  (decide (pp a < pp b) == decide (bp a < bp b)) &&
  (decide (pp a = pp b) == decide (bp a = bp b)) &&
  (!decide (pp a = pp b) || ra a == ra b)

theorem all_opOk : BinOp.all.all opOk = true := by decide +kernel
theorem all_pairOk : (BinOp.all.all fun a => BinOp.all.all fun b => pairOk a b) = true := by
  decide +kernel

theorem opOk_all (op : BinOp) : opOk op = true :=
  List.all_eq_true.mp all_opOk op (BinOp.mem_all op)
theorem pairOk_all (a b : BinOp) : pairOk a b = true :=
  List.all_eq_true.mp (List.all_eq_true.mp all_pairOk a (BinOp.mem_all a)) b (BinOp.mem_all b)

theorem opLookup_ruleOf (op : BinOp) :
    opLookup (ruleOf op) = some (if ra op then Affix.infixR else Affix.infixL, bp op) := by
  have h := opOk_all op
  simp only [opOk, Bool.and_eq_true, beq_iff_eq] at h
  exact h.1.1.1

theorem mapInfix_ruleOf (op : BinOp) (l r : Expr) :
    mapInfix (ruleOf op) l r = some (.bin op l r) := by
  have h := opOk_all op
  simp only [opOk, Bool.and_eq_true, beq_iff_eq] at h
  have h2 := h.1.1.2
  unfold mapInfix
  cases hf : Gen.infixMap.find? (fun x => x.1 == ruleOf op) with
  | none => simp [hf] at h2
  | some x => simp [hf] at h2; simp [h2]

theorem bp_pos (op : BinOp) : 0 < bp op := by
  have h := opOk_all op
  simp only [opOk, Bool.and_eq_true, beq_iff_eq, decide_eq_true_eq] at h
  exact h.1.2

theorem bp_lt_P (op : BinOp) : bp op + 1 < P := by
  have h := opOk_all op
  simp only [opOk, Bool.and_eq_true, beq_iff_eq, decide_eq_true_eq] at h
  exact h.2

theorem pp_lt_iff (a b : BinOp) : pp a < pp b ↔ bp a < bp b := by
  have h := pairOk_all a b
  simp only [pairOk, Bool.and_eq_true, beq_iff_eq, decide_eq_decide] at h
  exact h.1.1

theorem pp_eq_iff (a b : BinOp) : pp a = pp b ↔ bp a = bp b := by
  have h := pairOk_all a b
  simp only [pairOk, Bool.and_eq_true, beq_iff_eq, decide_eq_decide] at h
  exact h.1.2

theorem ra_eq_of_pp_eq (a b : BinOp) (hab : pp a = pp b) : ra a = ra b := by
  have h := pairOk_all a b
  simp only [pairOk, Bool.and_eq_true, beq_iff_eq, Bool.or_eq_true, Bool.not_eq_true',
    decide_eq_false_iff_not] at h
  rcases h.2 with h | h
  · exact absurd hab h
  · exact h

/-- the prefix and postfix rules -/
theorem opLookup_negation : opLookup "negation" = some (.prefix_, P) := by decide +kernel
theorem opLookup_invert : opLookup "invert" = some (.prefix_, P) := by decide +kernel
theorem opLookup_natural_not : opLookup "natural_not" = some (.prefix_, P) := by decide +kernel
theorem opLookup_spread : opLookup "spread_operator" = some (.prefix_, P) := by decide +kernel
theorem postfix_levels :
    (opLookup "factorial").map (·.1) = some .postfix_ ∧ (opLookup "access").map (·.1) = some .postfix_ ∧
    (opLookup "dot_access").map (·.1) = some .postfix_ ∧ (opLookup "call_list").map (·.1) = some .postfix_ ∧
    P < lvl "factorial" ∧ lvl "factorial" < lvl "access" ∧ lvl "access" = lvl "dot_access" ∧
    lvl "access" = lvl "call_list" := by decide +kernel

theorem lbp_nil : lbp [] = some 0 := rfl
theorem lbp_inf (op : BinOp) (rest) : lbp (.inf (ruleOf op) :: rest) = some (bp op) := by
  simp [lbp, PItem.rule, opLookup_ruleOf]
theorem lbp_postFact (rest) : lbp (.postFact :: rest) = some (lvl "factorial") := by
  have : opLookup "factorial" = some (.postfix_, lvl "factorial") := by decide +kernel
  simp [lbp, PItem.rule, this]
theorem lbp_postAccess (i rest) : lbp (.postAccess i :: rest) = some (lvl "access") := by
  have : opLookup "access" = some (.postfix_, lvl "access") := by decide +kernel
  simp [lbp, PItem.rule, this]
theorem lbp_postDot (f rest) : lbp (.postDot f :: rest) = some (lvl "dot_access") := by
  have : opLookup "dot_access" = some (.postfix_, lvl "dot_access") := by decide +kernel
  simp [lbp, PItem.rule, this]
theorem lbp_postCall (a rest) : lbp (.postCall a :: rest) = some (lvl "call_list") := by
  have : opLookup "call_list" = some (.postfix_, lvl "call_list") := by decide +kernel
  simp [lbp, PItem.rule, this]

theorem P_le_fact : P < lvl "factorial" := postfix_levels.2.2.2.2.1
theorem P_le_access : P < lvl "access" := by have := postfix_levels; omega
theorem P_le_dot : P < lvl "dot_access" := by have := postfix_levels; omega
theorem P_le_call : P < lvl "call_list" := by have := postfix_levels; omega

/-! ### (3) fuel-free relational semantics of the parser -/

mutual
/-- `PExpr rbp items e rest`: `expr(items, rbp)` returns `e` and leaves `rest`
    (clause by clause `prattExpr`) -/
inductive PExpr : Nat → List PItem → Expr → List PItem → Prop
  | prim {rbp e rest e' rest'} :
      PLoop rbp e rest e' rest' → PExpr rbp (.prim e :: rest) e' rest'
  | pre {rbp r prec rest rhs rest1 e1 e' rest'} :
      opLookup r = some (.prefix_, prec) → PExpr (prec - 1) rest rhs rest1 →
      mapPrefix r rhs = some e1 → PLoop rbp e1 rest1 e' rest' →
      PExpr rbp (.pre r :: rest) e' rest'
/-- `PLoop rbp lhs items e rest`: the `while rbp < lbp` loop entered with `lhs` returns `e`
    and leaves `rest` (clause by clause `prattLoop`) -/
inductive PLoop : Nat → Expr → List PItem → Expr → List PItem → Prop
  | stop {rbp lhs items l} : lbp items = some l → ¬ rbp < l → PLoop rbp lhs items lhs items
  | eof {rbp lhs l} : lbp [] = some l → rbp < l → PLoop rbp lhs [] lhs []
  | fact {rbp lhs rest l e' rest'} : lbp (.postFact :: rest) = some l → rbp < l →
      PLoop rbp (.fact lhs) rest e' rest' → PLoop rbp lhs (.postFact :: rest) e' rest'
  | access {rbp lhs i rest l e' rest'} : lbp (.postAccess i :: rest) = some l → rbp < l →
      PLoop rbp (.access lhs i) rest e' rest' → PLoop rbp lhs (.postAccess i :: rest) e' rest'
  | dot {rbp lhs f rest l e' rest'} : lbp (.postDot f :: rest) = some l → rbp < l →
      PLoop rbp (.dot lhs f) rest e' rest' → PLoop rbp lhs (.postDot f :: rest) e' rest'
  | call {rbp lhs a rest l e' rest'} : lbp (.postCall a :: rest) = some l → rbp < l →
      PLoop rbp (.call lhs a) rest e' rest' → PLoop rbp lhs (.postCall a :: rest) e' rest'
  | infL {rbp lhs r rest l prec rhs rest1 e1 e' rest'} :
      lbp (.inf r :: rest) = some l → rbp < l → opLookup r = some (.infixL, prec) →
      PExpr prec rest rhs rest1 → mapInfix r lhs rhs = some e1 →
      PLoop rbp e1 rest1 e' rest' → PLoop rbp lhs (.inf r :: rest) e' rest'
  | infR {rbp lhs r rest l prec rhs rest1 e1 e' rest'} :
      lbp (.inf r :: rest) = some l → rbp < l → opLookup r = some (.infixR, prec) →
      PExpr (prec - 1) rest rhs rest1 → mapInfix r lhs rhs = some e1 →
      PLoop rbp e1 rest1 e' rest' → PLoop rbp lhs (.inf r :: rest) e' rest'
end

/-- adequacy, in a form convenient for `omega` -/
def AdE (rbp : Nat) (its : List PItem) (e : Expr) (rest : List PItem) : Prop :=
  rest.length < its.length ∧
    ∀ fuel, 2 * its.length ≤ fuel + 2 * rest.length → prattExpr fuel rbp its = some (e, rest)
def AdL (rbp : Nat) (lhs : Expr) (its : List PItem) (e : Expr) (rest : List PItem) : Prop :=
  rest.length ≤ its.length ∧
    ∀ fuel, 2 * its.length + 1 ≤ fuel + 2 * rest.length →
      prattLoop fuel rbp lhs its = some (e, rest)

theorem AdL.post {rbp lhs lhs' it rest l e' rest'}
    (hl : lbp (it :: rest) = some l) (hlt : rbp < l) (ih : AdL rbp lhs' rest e' rest')
    (hstep : ∀ fuel, prattLoop (fuel + 1) rbp lhs (it :: rest) =
      match lbp (it :: rest) with
      | none => none
      | some l => if rbp < l then prattLoop fuel rbp lhs' rest else some (lhs, it :: rest)) :
    AdL rbp lhs (it :: rest) e' rest' := by
  obtain ⟨h1, h2⟩ := ih
  refine ⟨by simp only [List.length_cons]; omega, ?_⟩
  intro fuel hf
  simp only [List.length_cons] at hf
  obtain ⟨f, rfl⟩ : ∃ f, fuel = f + 1 := ⟨fuel - 1, by omega⟩
  rw [hstep, hl]
  simp only [hlt, if_true]
  exact h2 f (by omega)

mutual
theorem PExpr.adequate : ∀ {rbp its e rest}, PExpr rbp its e rest → AdE rbp its e rest
  | _, _, _, _, .prim h => by
    obtain ⟨h1, h2⟩ := PLoop.adequate h
    refine ⟨by simp only [List.length_cons]; omega, ?_⟩
    intro fuel hf
    simp only [List.length_cons] at hf
    obtain ⟨f, rfl⟩ : ∃ f, fuel = f + 1 := ⟨fuel - 1, by omega⟩
    simp only [prattExpr]
    exact h2 f (by omega)
  | _, _, _, _, .pre ho hr hm hl => by
    obtain ⟨h1, h2⟩ := PExpr.adequate hr
    obtain ⟨h3, h4⟩ := PLoop.adequate hl
    refine ⟨by simp only [List.length_cons]; omega, ?_⟩
    intro fuel hf
    simp only [List.length_cons] at hf
    obtain ⟨f, rfl⟩ : ∃ f, fuel = f + 1 := ⟨fuel - 1, by omega⟩
    simp only [prattExpr, ho, h2 f (by omega), hm]
    exact h4 f (by omega)
theorem PLoop.adequate : ∀ {rbp lhs its e rest}, PLoop rbp lhs its e rest → AdL rbp lhs its e rest
  | _, _, _, _, _, .stop hl hn => by
    refine ⟨Nat.le_refl _, ?_⟩
    intro fuel hf
    obtain ⟨f, rfl⟩ : ∃ f, fuel = f + 1 := ⟨fuel - 1, by omega⟩
    simp only [prattLoop, hl, hn, if_false]
  | _, _, _, _, _, .eof hl hlt => by
    refine ⟨Nat.le_refl _, ?_⟩
    intro fuel hf
    obtain ⟨f, rfl⟩ : ∃ f, fuel = f + 1 := ⟨fuel - 1, by omega⟩
    simp only [prattLoop, hl, hlt, if_true]
  | _, _, _, _, _, .fact hl hlt h => AdL.post hl hlt (PLoop.adequate h) (fun f => by simp only [prattLoop]; rfl)
  | _, _, _, _, _, .access hl hlt h => AdL.post hl hlt (PLoop.adequate h) (fun f => by simp only [prattLoop]; rfl)
  | _, _, _, _, _, .dot hl hlt h => AdL.post hl hlt (PLoop.adequate h) (fun f => by simp only [prattLoop]; rfl)
  | _, _, _, _, _, .call hl hlt h => AdL.post hl hlt (PLoop.adequate h) (fun f => by simp only [prattLoop]; rfl)
  | _, _, _, _, _, .infL hl hlt ho hr hm hk => by
    obtain ⟨h1, h2⟩ := PExpr.adequate hr
    obtain ⟨h3, h4⟩ := PLoop.adequate hk
    refine ⟨by simp only [List.length_cons]; omega, ?_⟩
    intro fuel hf
    simp only [List.length_cons] at hf
    obtain ⟨f, rfl⟩ : ∃ f, fuel = f + 1 := ⟨fuel - 1, by omega⟩
    simp only [prattLoop, hl, hlt, if_true, ho, h2 f (by omega), hm]
    exact h4 f (by omega)
  | _, _, _, _, _, .infR hl hlt ho hr hm hk => by
    obtain ⟨h1, h2⟩ := PExpr.adequate hr
    obtain ⟨h3, h4⟩ := PLoop.adequate hk
    refine ⟨by simp only [List.length_cons]; omega, ?_⟩
    intro fuel hf
    simp only [List.length_cons] at hf
    obtain ⟨f, rfl⟩ : ∃ f, fuel = f + 1 := ⟨fuel - 1, by omega⟩
    simp only [prattLoop, hl, hlt, if_true, ho, h2 f (by omega), hm]
    exact h4 f (by omega)
end

/-- ADEQUACY with the explicit fuel bound -/
theorem PExpr.rest_le {rbp its e rest} (h : PExpr rbp its e rest) : rest.length < its.length :=
  h.adequate.1
theorem PLoop.rest_le {rbp lhs its e rest} (h : PLoop rbp lhs its e rest) :
    rest.length ≤ its.length := h.adequate.1

theorem PExpr.run {rbp its e rest} (h : PExpr rbp its e rest) (fuel : Nat)
    (hf : fuel ≥ 2 * (its.length - rest.length)) : prattExpr fuel rbp its = some (e, rest) :=
  h.adequate.2 fuel (by have := h.adequate.1; omega)

theorem PLoop.run {rbp lhs its e rest} (h : PLoop rbp lhs its e rest) (fuel : Nat)
    (hf : fuel ≥ 2 * (its.length - rest.length) + 1) :
    prattLoop fuel rbp lhs its = some (e, rest) :=
  h.adequate.2 fuel (by have := h.adequate.1; omega)

theorem PExpr.parse {its e} (h : PExpr 0 its e []) : prattParse its = some e := by
  unfold prattParse
  rw [h.run (2 * its.length + 2) (by simp only [List.length_nil]; omega)]

/-! ### (4) the main lemma -/

/-- what the context `(rbp, rest)` must satisfy for `items e ++ rest`, parsed with `rbp`,
    to reach the loop state `lhs = e` / remaining input `rest`:
    * a binary `e` must bind tighter than the context on the left (`rbp < bp op`, the
      `topBp` constraint) and the next pair must not be captured by its right operand
      (`lbp rest ≤ rbpR op`, the `tailBp` constraint);
    * a prefix `e` must not be followed by a postfix operator (`lbp rest ≤ P - 1`);
    * postfix chains and primaries: no constraint. -/
def Fits (e : Expr) (rbp : Nat) (rest : List PItem) : Prop :=
  match e with
  | .bin op _ _ => rbp < bp op ∧ ∃ n, lbp rest = some n ∧ n ≤ rbpR op
  | .un _ _ => ∃ n, lbp rest = some n ∧ n ≤ P - 1
  | _ => True

theorem rbpR_le (op : BinOp) : rbpR op ≤ bp op := by unfold rbpR; split <;> omega
theorem rbpR_ge (op : BinOp) : bp op - 1 ≤ rbpR op := by unfold rbpR; split <;> omega
theorem rbpR_le_P (op : BinOp) : rbpR op ≤ P - 1 := by
  have := rbpR_le op; have := bp_lt_P op; omega

/-! unfolding of `needsParens` (its equation lemmas are not generated automatically) -/
theorem np_left (cop pop : BinOp) (a b : Expr) :
    needsParens (.bin cop a b) (.binLeft pop) =
      (endsOpen (.bin cop a b) ||
        (decide (pp cop < pp pop) || (pp cop == pp pop && ra pop))) := by
  unfold needsParens; dsimp only
theorem np_right (cop pop : BinOp) (a b : Expr) :
    needsParens (.bin cop a b) (.binRight pop) =
      (decide (pp cop < pp pop) || (pp cop == pp pop && !ra pop)) := by
  unfold needsParens; simp only [Bool.false_or]
theorem np_bin_prefix (cop : BinOp) (a b : Expr) :
    needsParens (.bin cop a b) .prefix_ = true := rfl
theorem np_bin_postfix (cop : BinOp) (a b : Expr) :
    needsParens (.bin cop a b) .postfix_ = true := by simp [needsParens.eq_def]
theorem np_un_postfix (o : UnOp) (a : Expr) :
    needsParens (.un o a) .postfix_ = true := by simp [needsParens.eq_def]

/-- what `needsParens = false` says about a binary child on the left -/
theorem left_noparens {op lop : BinOp} {a b : Expr}
    (h : needsParens (.bin lop a b) (.binLeft op) = false) :
    bp op ≤ bp lop ∧ (bp lop = bp op → ra op = false ∧ ra lop = false) := by
  simp only [np_left, Bool.or_eq_false_iff, Bool.and_eq_false_iff, decide_eq_false_iff_not,
    beq_eq_false_iff_ne, ne_eq] at h
  obtain ⟨_, h1, h2⟩ := h
  have hlt := pp_lt_iff lop op
  have heq := pp_eq_iff lop op
  refine ⟨by have := mt hlt.mpr h1; omega, fun he => ?_⟩
  have hpe := heq.mpr he
  have hra : ra op = false := by
    rcases h2 with h2 | h2
    · exact absurd hpe h2
    · simpa using h2
  exact ⟨hra, (ra_eq_of_pp_eq lop op hpe).trans hra⟩

/-- … and on the right -/
theorem right_noparens {op rop : BinOp} {a b : Expr}
    (h : needsParens (.bin rop a b) (.binRight op) = false) :
    bp op ≤ bp rop ∧ (bp rop = bp op → ra op = true ∧ ra rop = true) := by
  simp only [np_right, Bool.or_eq_false_iff, Bool.and_eq_false_iff, decide_eq_false_iff_not,
    beq_eq_false_iff_ne, ne_eq] at h
  obtain ⟨h1, h2⟩ := h
  have hlt := pp_lt_iff rop op
  have heq := pp_eq_iff rop op
  refine ⟨by have := mt hlt.mpr h1; omega, fun he => ?_⟩
  have hpe := heq.mpr he
  have hra : ra op = true := by
    rcases h2 with h2 | h2
    · exact absurd hpe h2
    · simpa using h2
  exact ⟨hra, (ra_eq_of_pp_eq rop op hpe).trans hra⟩

theorem fits_left {op : BinOp} {l : Expr} {rbp : Nat} (rest : List PItem)
    (h : needsParens l (.binLeft op) = false) (hr : rbp < bp op) :
    Fits l rbp (.inf (ruleOf op) :: rest) := by
  cases l with
  | bin lop a b =>
    obtain ⟨h1, h2⟩ := left_noparens h
    refine ⟨by omega, bp op, lbp_inf op rest, ?_⟩
    by_cases he : bp lop = bp op
    · have := (h2 he).2
      simp only [rbpR, this]; simp; omega
    · have := rbpR_ge lop; omega
  | un o c => exact ⟨bp op, lbp_inf op rest, by have := bp_lt_P op; omega⟩
  | _ => trivial

theorem fits_right {op : BinOp} {r : Expr} {rest : List PItem} {n : Nat}
    (h : needsParens r (.binRight op) = false) (hl : lbp rest = some n) (hn : n ≤ rbpR op) :
    Fits r (rbpR op) rest := by
  cases r with
  | bin rop a b =>
    obtain ⟨h1, h2⟩ := right_noparens h
    by_cases he : bp rop = bp op
    · obtain ⟨h3, h4⟩ := h2 he
      have hp := bp_pos op
      refine ⟨?_, n, hl, ?_⟩
      · simp only [rbpR, h3]; simp; omega
      · simp only [rbpR, h3, h4] at hn ⊢; simp at hn ⊢; omega
    · have := rbpR_ge rop; have := rbpR_le op
      exact ⟨by omega, n, hl, by omega⟩
  | un o c => exact ⟨n, hl, by have := rbpR_le_P op; omega⟩
  | _ => trivial

theorem fits_prefix {c : Expr} {rest : List PItem} {n : Nat}
    (h : needsParens c .prefix_ = false) (hl : lbp rest = some n) (hn : n ≤ P - 1) :
    Fits c (P - 1) rest := by
  cases c with
  | bin cop a b => simp [np_bin_prefix] at h
  | un o c => exact ⟨n, hl, hn⟩
  | _ => trivial

theorem fits_postfix {c : Expr} {rbp : Nat} {rest : List PItem}
    (h : needsParens c .postfix_ = false) : Fits c rbp rest := by
  cases c with
  | bin cop a b => simp [np_bin_postfix] at h
  | un o c => simp [np_un_postfix] at h
  | _ => trivial

/-- the statement proved for every operand by induction -/
def Parses (e : Expr) : Prop :=
  ∀ rbp rest, rbp ≤ P - 1 → Fits e rbp rest →
    ∀ e' rest', PLoop rbp e rest e' rest' → PExpr rbp (items e ++ rest) e' rest'

theorem child_parse {c : Expr} (pos : Pos) (ih : Parses c) {rbp : Nat} {rest : List PItem}
    (hr : rbp ≤ P - 1) (hfit : needsParens c pos = false → Fits c rbp rest)
    {e' : Expr} {rest' : List PItem} (hk : PLoop rbp c rest e' rest') :
    PExpr rbp (child c pos ++ rest) e' rest' := by
  unfold child
  cases h : needsParens c pos
  · simpa using ih rbp rest hr (hfit h) e' rest' hk
  · simpa using PExpr.prim hk

theorem parses_bin {op : BinOp} {l r : Expr} (ihl : Parses l) (ihr : Parses r) :
    Parses (.bin op l r) := by
  intro rbp rest hr hfit e' rest' hk
  obtain ⟨hlt, n, hl, hn⟩ := hfit
  rw [items_bin, List.append_assoc, List.cons_append]
  -- left operand, then the loop sees the operator
  apply child_parse (.binLeft op) ihl hr (fun h => fits_left _ h hlt)
  -- right operand with `rbpR op`; its loop stops at `rest`
  have hrhs : PExpr (rbpR op) (child r (.binRight op) ++ rest) r rest :=
    child_parse (.binRight op) ihr (rbpR_le_P op) (fun h => fits_right h hl hn)
      (PLoop.stop hl (by omega))
  have hm := mapInfix_ruleOf op l r
  have ho := opLookup_ruleOf op
  cases hra : ra op
  · simp only [rbpR, hra] at hrhs ho
    exact PLoop.infL (lbp_inf op _) hlt ho hrhs hm hk
  · simp only [rbpR, hra] at hrhs ho
    exact PLoop.infR (lbp_inf op _) hlt ho hrhs hm hk

theorem parses_un {op : UnOp} {c : Expr} (hop : op ≠ .invert) (ih : Parses c) :
    Parses (.un op c) := by
  intro rbp rest hr hfit e' rest' hk
  obtain ⟨n, hl, hn⟩ := hfit
  rw [items_un, List.cons_append]
  have hrhs : PExpr (P - 1) (child c .prefix_ ++ rest) c rest :=
    child_parse .prefix_ ih (Nat.le_refl _) (fun h => fits_prefix h hl hn)
      (PLoop.stop hl (by omega))
  cases op with
  | negate => exact PExpr.pre opLookup_negation hrhs rfl hk
  | not => exact PExpr.pre opLookup_invert hrhs rfl hk
  | invert => exact absurd rfl hop

theorem parses_fact {c : Expr} (ih : Parses c) : Parses (.fact c) := by
  intro rbp rest hr _ e' rest' hk
  rw [items_fact, List.append_assoc, List.singleton_append]
  exact child_parse .postfix_ ih hr (fun h => fits_postfix h)
    (PLoop.fact (lbp_postFact rest) (by have := P_le_fact; omega) hk)

theorem parses_access {c i : Expr} (ih : Parses c) : Parses (.access c i) := by
  intro rbp rest hr _ e' rest' hk
  rw [items_access, List.append_assoc, List.singleton_append]
  exact child_parse .postfix_ ih hr (fun h => fits_postfix h)
    (PLoop.access (lbp_postAccess i rest) (by have := P_le_access; omega) hk)

theorem parses_dot {c : Expr} {f : String} (ih : Parses c) : Parses (.dot c f) := by
  intro rbp rest hr _ e' rest' hk
  rw [items_dot, List.append_assoc, List.singleton_append]
  exact child_parse .postfix_ ih hr (fun h => fits_postfix h)
    (PLoop.dot (lbp_postDot f rest) (by have := P_le_dot; omega) hk)

theorem parses_call {c : Expr} {a : List Expr} (ih : Parses c) : Parses (.call c a) := by
  intro rbp rest hr _ e' rest' hk
  rw [items_call, List.append_assoc, List.singleton_append]
  exact child_parse .postfix_ ih hr (fun h => fits_postfix h)
    (PLoop.call (lbp_postCall a rest) (by have := P_le_call; omega) hk)

theorem parses_prim {e : Expr} (h : isCompound e = false) : Parses e := by
  intro rbp rest _ _ e' rest' hk
  rw [items_prim h]
  exact PExpr.prim hk

/-- MAIN LEMMA, by structural induction on the tree -/
theorem items_parse : ∀ (e : Expr), NoInvert e → Parses e
  | .bin op l r, h => by
    simp only [NoInvert, noInvert, Bool.and_eq_true] at h
    exact parses_bin (items_parse l h.1) (items_parse r h.2)
  | .un op c, h => by
    simp only [NoInvert, noInvert, Bool.and_eq_true, bne_iff_ne, ne_eq] at h
    exact parses_un h.1 (items_parse c h.2)
  | .fact c, h => parses_fact (items_parse c (by simpa [NoInvert, noInvert] using h))
  | .access c i, h => parses_access (items_parse c (by simpa [NoInvert, noInvert] using h))
  | .dot c f, h => parses_dot (items_parse c (by simpa [NoInvert, noInvert] using h))
  | .call c a, h => parses_call (items_parse c (by simpa [NoInvert, noInvert] using h))
  | .num _, _ | .str _, _ | .bool _, _ | .null, _ | .ident _, _ | .inref _, _ | .builtin _, _
  | .list _, _ | .record _, _ | .lambda _ _, _ | .cond _ _ _, _ | .doBlock _ _, _
  | .assign _ _, _ | .output _, _ | .spread _, _ => parses_prim rfl

/-- round trip at the relational level -/
theorem items_PExpr (e : Expr) (h : NoInvert e) : PExpr 0 (items e) e [] := by
  have hfit : Fits e 0 [] := by
    cases e with
    | bin op l r => exact ⟨bp_pos op, 0, rfl, Nat.zero_le _⟩
    | un o c => exact ⟨0, rfl, Nat.zero_le _⟩
    | _ => trivial
  simpa using items_parse e h 0 [] (Nat.zero_le _) hfit e [] (PLoop.stop lbp_nil (by omega))

/-- fully parenthesised form: every operand is a primary, so no precedence reasoning at all.
    (Only the top node matters: `.un .invert` has no prefix rule.) -/
theorem itemsFull_PExpr (e : Expr) (h : ∀ c, e ≠ .un .invert c) : PExpr 0 (itemsFull e) e [] := by
  have stop : ∀ (rbp : Nat) (x : Expr), PLoop rbp x [] x [] :=
    fun rbp x => PLoop.stop lbp_nil (Nat.not_lt_zero _)
  cases e with
  | bin op l r =>
    have e1 : itemsFull (.bin op l r) = [.prim l, .inf (ruleOf op), .prim r] := by
      simp [itemsFull, itemsFull_child]
    rw [e1]
    have hm := mapInfix_ruleOf op l r
    have ho := opLookup_ruleOf op
    cases hra : ra op
    · simp only [hra] at ho
      exact .prim (.infL (lbp_inf op _) (bp_pos op) ho (.prim (stop _ _)) hm (stop _ _))
    · simp only [hra] at ho
      exact .prim (.infR (lbp_inf op _) (bp_pos op) ho (.prim (stop _ _)) hm (stop _ _))
  | un op c =>
    have e1 : itemsFull (.un op c) = [.pre (preRule op), .prim c] := by
      simp [itemsFull, itemsFull_child]
    rw [e1]
    cases op with
    | negate => exact .pre opLookup_negation (.prim (stop _ _)) rfl (stop _ _)
    | not => exact .pre opLookup_invert (.prim (stop _ _)) rfl (stop _ _)
    | invert => exact absurd rfl (h c)
  | fact c =>
    have e1 : itemsFull (.fact c) = [.prim c, .postFact] := by simp [itemsFull, itemsFull_child]
    rw [e1]
    exact .prim (.fact (lbp_postFact []) (by have := P_le_fact; omega) (stop _ _))
  | access c i =>
    have e1 : itemsFull (.access c i) = [.prim c, .postAccess i] := by
      simp [itemsFull, itemsFull_child]
    rw [e1]
    exact .prim (.access (lbp_postAccess i []) (by have := P_le_access; omega) (stop _ _))
  | dot c f =>
    have e1 : itemsFull (.dot c f) = [.prim c, .postDot f] := by simp [itemsFull, itemsFull_child]
    rw [e1]
    exact .prim (.dot (lbp_postDot f []) (by have := P_le_dot; omega) (stop _ _))
  | call c a =>
    have e1 : itemsFull (.call c a) = [.prim c, .postCall a] := by simp [itemsFull, itemsFull_child]
    rw [e1]
    exact .prim (.call (lbp_postCall a []) (by have := P_le_call; omega) (stop _ _))
  | _ => exact .prim (stop _ _)

theorem NoInvert.top {e : Expr} (h : NoInvert e) : ∀ c, e ≠ .un .invert c := by
  intro c hc; subst hc; simp [NoInvert, noInvert] at h

/-! ### the documented precedence table -/

/-- surface spelling of a grammar rule (`Gen.grammarLit`; the three postfix rules with a
    payload have no single literal and keep their rule name) -/
def spell (rule : String) : String :=
  match Gen.grammarLit.find? (fun x => x.1 == rule) with
  | some x => x.2
  | none => rule

/-- the documented levels, loosest first -/
def documentedLevels : List (Affix × List String) := [
  (.infixL, ["and", "or", "&&", "||", "via", "into", "where"]),
  (.infixL, ["==", "!=", "<", "<=", ">", ">=", ".==", ".!=", ".<", ".<=", ".>", ".>="]),
  (.infixL, ["+", "-"]),
  (.infixL, ["*", "/", "%"]),
  (.infixR, ["^"]),
  (.infixL, ["??"]),
  (.prefix_, ["-", "!", "not", "..."]),
  (.postfix_, ["!"]),
  (.postfix_, ["call_list", "access", "dot_access"])]

/-- the distinct binding powers of the parser's operator map -/
def distinctLevels : List Nat :=
  prattOps.foldl (fun acc x => if acc.contains x.2.2 then acc else acc ++ [x.2.2]) []

/-- rank of a binding power = number of distinct smaller binding powers in the map -/
def rankOf (n : Nat) : Nat := (distinctLevels.filter (· < n)).length

/-- the operator map with spelled rules and levels replaced by their rank -/
def rankedOps : List (String × Affix × Nat) :=
  prattOps.map fun x => (spell x.1, x.2.1, rankOf x.2.2)

def documentedOps : List (String × Affix × Nat) :=
  let rec go (ls : List (Affix × List String)) (i : Nat) : List (String × Affix × Nat) :=
    match ls with
    | [] => []
    | (a, rules) :: rest => rules.map (fun r => (r, a, i)) ++ go rest (i + 1)
  go documentedLevels 0

/-- no rule registered twice (so "later insertions overwrite" never happens), and the
    ranked operator map has exactly the documented entries -/
def tableDocumented : Bool :=
  decide (prattOps.map (·.1)).Nodup &&
  rankedOps.all (fun x => documentedOps.contains x) &&
  documentedOps.all (fun x => rankedOps.contains x)

end PrattRT
end Blots
