import Blots.Model.Data
import Blots.Lemmas.Num
/-
  `Value::compare` is a coherent partial order: antisymmetric, transitive, compatible
  with `Value::equals`, lexicographic on lists and strings.
-/
namespace Blots

/-! ### strings -/

theorem strCmpL_eq_iff : ∀ (a b : List Char), strCmpL a b = .eq ↔ a = b
  | [], [] => by simp [strCmpL]
  | [], _ :: _ => by simp [strCmpL]
  | _ :: _, [] => by simp [strCmpL]
  | a :: as, b :: bs => by
    simp only [strCmpL]
    by_cases h1 : a.toNat < b.toNat
    · have : a ≠ b := by intro h; subst h; omega
      simp [h1, this]
    · by_cases h2 : b.toNat < a.toNat
      · have : a ≠ b := by intro h; subst h; omega
        simp [h1, h2, this]
      · have : a = b := Char.toNat_inj.mp (by omega)
        simp [h1, h2, this, strCmpL_eq_iff as bs]

theorem strCmpL_swap : ∀ (a b : List Char), strCmpL b a = (strCmpL a b).swap
  | [], [] => by simp [strCmpL, Ordering.swap]
  | [], _ :: _ => by simp [strCmpL, Ordering.swap]
  | _ :: _, [] => by simp [strCmpL, Ordering.swap]
  | a :: as, b :: bs => by
    simp only [strCmpL]
    by_cases h1 : a.toNat < b.toNat
    · have : ¬ b.toNat < a.toNat := by omega
      simp [h1, this, Ordering.swap]
    · by_cases h2 : b.toNat < a.toNat
      · simp [h1, h2, Ordering.swap]
      · simp [h1, h2, strCmpL_swap as bs]

theorem strCmpL_lt_trans : ∀ (a b c : List Char),
    strCmpL a b = .lt → strCmpL b c = .lt → strCmpL a c = .lt
  | [], [], _ => by simp [strCmpL]
  | [], _ :: _, [] => by simp [strCmpL]
  | [], _ :: _, _ :: _ => by simp [strCmpL]
  | _ :: _, [], _ => by simp [strCmpL]
  | _ :: _, _ :: _, [] => by simp [strCmpL]
  | a :: as, b :: bs, c :: cs => by
    simp only [strCmpL]
    intro h1 h2
    by_cases ab : a.toNat < b.toNat
    · by_cases bc : b.toNat < c.toNat
      · have : a.toNat < c.toNat := by omega
        simp [this]
      · by_cases cb : c.toNat < b.toNat
        · simp [bc, cb] at h2
        · have : a.toNat < c.toNat := by omega
          simp [this]
    · by_cases ba : b.toNat < a.toNat
      · simp [ab, ba] at h1
      · simp only [ab, ba, if_false] at h1
        by_cases bc : b.toNat < c.toNat
        · have : a.toNat < c.toNat := by omega
          simp [this]
        · by_cases cb : c.toNat < b.toNat
          · simp [bc, cb] at h2
          · simp only [bc, cb, if_false] at h2
            have h3 : ¬ a.toNat < c.toNat := by omega
            have h4 : ¬ c.toNat < a.toNat := by omega
            simp only [h3, h4, if_false]
            exact strCmpL_lt_trans as bs cs h1 h2

/-- a proper prefix sorts first -/
theorem strCmpL_prefix (a : List Char) : ∀ (b : List Char), b ≠ [] → strCmpL a (a ++ b) = .lt := by
  induction a with
  | nil => intro b hb; cases b with
    | nil => exact absurd rfl hb
    | cons _ _ => simp [strCmpL]
  | cons x xs ih => intro b hb; simp [strCmpL, ih b hb]

theorem boolCmp_swap (a b : Bool) : boolCmp b a = (boolCmp a b).swap := by
  cases a <;> cases b <;> rfl

/-! ### `compare` agrees with `equals` -/

mutual
theorem vcmp_eq_imp_veq : ∀ (a b : Value), vcmp a b = some .eq → veq a b = true
  | .num x, .num y, h => by
    simp only [vcmp] at h; simp only [veq]; exact (F64.pcmp_eq_iff_feq x y).mp h
  | .bool x, .bool y, h => by
    cases x <;> cases y <;> simp_all [vcmp, veq, boolCmp]
  | .str x, .str y, h => by
    simp only [vcmp, strCmp, Option.some.injEq] at h
    have := (strCmpL_eq_iff _ _).mp h
    simp only [veq, beq_iff_eq]
    exact String.ext_iff.mpr this
  | .list xs, .list ys, h => by
    simp only [vcmp] at h; simp only [veq]; exact vcmpList_eq_imp_veqList xs ys h
  | .num _, .bool _, h | .num _, .null, h | .num _, .str _, h | .num _, .list _, h
  | .num _, .record _, h | .num _, .lambda .., h | .num _, .builtin _, h | .num _, .spread _, h
  | .bool _, .num _, h | .bool _, .null, h | .bool _, .str _, h | .bool _, .list _, h
  | .bool _, .record _, h | .bool _, .lambda .., h | .bool _, .builtin _, h | .bool _, .spread _, h
  | .null, _, h
  | .str _, .num _, h | .str _, .bool _, h | .str _, .null, h | .str _, .list _, h
  | .str _, .record _, h | .str _, .lambda .., h | .str _, .builtin _, h | .str _, .spread _, h
  | .list _, .num _, h | .list _, .bool _, h | .list _, .null, h | .list _, .str _, h
  | .list _, .record _, h | .list _, .lambda .., h | .list _, .builtin _, h | .list _, .spread _, h
  | .record _, _, h | .lambda .., _, h | .builtin _, _, h | .spread _, _, h => by
    simp [vcmp] at h
theorem vcmpList_eq_imp_veqList : ∀ (xs ys : List Value), vcmpList xs ys = some .eq → veqList xs ys = true
  | [], [], _ => by simp [veqList]
  | [], _ :: _, h => by simp [vcmpList] at h
  | _ :: _, [], h => by simp [vcmpList] at h
  | x :: xs, y :: ys, h => by
    simp only [vcmpList] at h
    simp only [veqList, Bool.and_eq_true]
    cases hxy : vcmp x y with
    | none => simp [hxy] at h
    | some o =>
      cases o with
      | lt => simp [hxy] at h
      | gt => simp [hxy] at h
      | eq =>
        simp only [hxy] at h
        exact ⟨vcmp_eq_imp_veq x y hxy, vcmpList_eq_imp_veqList xs ys h⟩
end

end Blots

namespace Blots

/-! ### antisymmetry -/

mutual
theorem vcmp_swap : ∀ (a b : Value), vcmp b a = (vcmp a b).map Ordering.swap
  | .num x, b => by
    cases b <;> simp only [vcmp, Option.map_none]
    exact F64.pcmp_swap _ _
  | .bool x, b => by
    cases b <;> simp only [vcmp, Option.map_none, Option.map_some]
    rw [boolCmp_swap]
  | .str x, b => by
    cases b <;> simp only [vcmp, Option.map_none, Option.map_some, strCmp]
    rw [strCmpL_swap]
  | .list xs, b => by
    cases b <;> simp [vcmp]
    exact vcmpList_swap xs _
  | .null, b => by cases b <;> simp [vcmp]
  | .record _, b => by cases b <;> simp [vcmp]
  | .lambda .., b => by cases b <;> simp [vcmp]
  | .builtin _, b => by cases b <;> simp [vcmp]
  | .spread _, b => by cases b <;> simp [vcmp]
theorem vcmpList_swap : ∀ (xs ys : List Value), vcmpList ys xs = (vcmpList xs ys).map Ordering.swap
  | [], ys => by cases ys <;> simp [vcmpList, Ordering.swap]
  | x :: xs, ys => by
    cases ys with
    | nil => simp [vcmpList, Ordering.swap]
    | cons y ys =>
      simp only [vcmpList]
      rw [vcmp_swap x y]
      cases hxy : vcmp x y with
      | none => simp
      | some o => cases o <;> simp [Ordering.swap, vcmpList_swap xs ys]
end

theorem vcmp_lt_gt {a b : Value} (h : vcmp a b = some .lt) : vcmp b a = some .gt := by
  rw [vcmp_swap a b, h]; rfl

theorem vcmp_gt_lt {a b : Value} (h : vcmp a b = some .gt) : vcmp b a = some .lt := by
  rw [vcmp_swap a b, h]; rfl

theorem vcmp_eq_symm {a b : Value} (h : vcmp a b = some .eq) : vcmp b a = some .eq := by
  rw [vcmp_swap a b, h]; rfl

/-! ### values that compare equal are interchangeable -/

mutual
theorem vcmp_congr : ∀ (b c : Value), vcmp b c = some .eq → ∀ a, vcmp a b = vcmp a c
  | .num y, c, h, a => by
    cases c <;> simp [vcmp] at h
    cases a <;> simp [vcmp]
    exact F64.pcmp_congr_right h _
  | .bool y, c, h, a => by
    cases c <;> simp [vcmp] at h
    rename_i z
    have : y = z := by cases y <;> cases z <;> simp_all [boolCmp]
    subst this; rfl
  | .str y, c, h, a => by
    cases c <;> simp [vcmp, strCmp] at h
    rename_i z
    have : y = z := String.ext_iff.mpr ((strCmpL_eq_iff _ _).mp h)
    subst this; rfl
  | .list ys, c, h, a => by
    cases c <;> simp [vcmp] at h
    cases a <;> simp [vcmp]
    exact vcmpList_congr ys _ h _
  | .null, c, h, _ => by cases c <;> simp [vcmp] at h
  | .record _, c, h, _ => by cases c <;> simp [vcmp] at h
  | .lambda .., c, h, _ => by cases c <;> simp [vcmp] at h
  | .builtin _, c, h, _ => by cases c <;> simp [vcmp] at h
  | .spread _, c, h, _ => by cases c <;> simp [vcmp] at h
theorem vcmpList_congr : ∀ (ys zs : List Value), vcmpList ys zs = some .eq → ∀ xs, vcmpList xs ys = vcmpList xs zs
  | [], zs, h, xs => by
    cases zs with
    | nil => rfl
    | cons _ _ => simp [vcmpList] at h
  | y :: ys, zs, h, xs => by
    cases zs with
    | nil => simp [vcmpList] at h
    | cons z zs =>
      simp only [vcmpList] at h
      cases hyz : vcmp y z with
      | none => simp [hyz] at h
      | some o =>
        cases o with
        | lt => simp [hyz] at h
        | gt => simp [hyz] at h
        | eq =>
          simp only [hyz] at h
          cases xs with
          | nil => simp [vcmpList]
          | cons x xs =>
            simp only [vcmpList]
            rw [vcmp_congr y z hyz x, vcmpList_congr ys zs h xs]
end

theorem vcmp_congr_left {b c : Value} (h : vcmp b c = some .eq) (a : Value) : vcmp b a = vcmp c a := by
  rw [vcmp_swap a b, vcmp_swap a c, vcmp_congr b c h a]

/-! ### transitivity -/

mutual
theorem vcmp_lt_trans : ∀ (a b c : Value), vcmp a b = some .lt → vcmp b c = some .lt → vcmp a c = some .lt
  | .num x, b, c, h1, h2 => by
    cases b <;> simp [vcmp] at h1
    cases c <;> simp [vcmp] at h2
    simp only [vcmp]
    exact F64.pcmp_trans_lt h1 h2
  | .bool x, b, c, h1, h2 => by
    cases b <;> simp [vcmp] at h1
    cases c <;> simp [vcmp] at h2
    rename_i y z
    cases x <;> cases y <;> cases z <;> simp_all [boolCmp, vcmp]
  | .str x, b, c, h1, h2 => by
    cases b <;> simp [vcmp, strCmp] at h1
    cases c <;> simp [vcmp, strCmp] at h2
    simp only [vcmp, strCmp, Option.some.injEq]
    exact strCmpL_lt_trans _ _ _ h1 h2
  | .list xs, b, c, h1, h2 => by
    cases b <;> simp [vcmp] at h1
    cases c <;> simp [vcmp] at h2
    simp only [vcmp]
    exact vcmpList_lt_trans xs _ _ h1 h2
  | .null, b, _, h1, _ => by cases b <;> simp [vcmp] at h1
  | .record _, b, _, h1, _ => by cases b <;> simp [vcmp] at h1
  | .lambda .., b, _, h1, _ => by cases b <;> simp [vcmp] at h1
  | .builtin _, b, _, h1, _ => by cases b <;> simp [vcmp] at h1
  | .spread _, b, _, h1, _ => by cases b <;> simp [vcmp] at h1
theorem vcmpList_lt_trans : ∀ (xs ys zs : List Value),
    vcmpList xs ys = some .lt → vcmpList ys zs = some .lt → vcmpList xs zs = some .lt
  | [], ys, zs, h1, h2 => by
    cases ys with
    | nil => simp [vcmpList] at h1
    | cons y ys =>
      cases zs with
      | nil => simp [vcmpList] at h2
      | cons _ _ => simp [vcmpList]
  | x :: xs, ys, zs, h1, h2 => by
    cases ys with
    | nil => simp [vcmpList] at h1
    | cons y ys =>
      cases zs with
      | nil => simp [vcmpList] at h2
      | cons z zs =>
        simp only [vcmpList] at h1 h2 ⊢
        cases hxy : vcmp x y with
        | none => simp [hxy] at h1
        | some o1 =>
          cases hyz : vcmp y z with
          | none => simp [hyz] at h2
          | some o2 =>
            cases o1 with
            | gt => simp [hxy] at h1
            | lt =>
              cases o2 with
              | gt => simp [hyz] at h2
              | lt => simp [vcmp_lt_trans x y z hxy hyz]
              | eq =>
                -- x < y = z
                have : vcmp x z = some .lt := by rw [← vcmp_congr y z hyz x]; exact hxy
                simp [this]
            | eq =>
              simp only [hxy] at h1
              cases o2 with
              | gt => simp [hyz] at h2
              | lt =>
                -- x = y < z
                have : vcmp x z = some .lt := by rw [vcmp_congr_left hxy z]; exact hyz
                simp [this]
              | eq =>
                simp only [hyz] at h2
                have : vcmp x z = some .eq := by rw [vcmp_congr_left hxy z]; exact hyz
                simp only [this]
                exact vcmpList_lt_trans xs ys zs h1 h2
end

/-! ### lexicographic order on lists: a proper prefix sorts first -/

theorem vcmpList_prefix (xs : List Value) (hself : vcmpList xs xs = some .eq) :
    ∀ (ys : List Value), ys ≠ [] → vcmpList xs (xs ++ ys) = some .lt := by
  induction xs with
  | nil => intro ys h; cases ys with
    | nil => exact absurd rfl h
    | cons _ _ => simp [vcmpList]
  | cons x xs ih =>
    intro ys h
    simp only [vcmpList] at hself
    simp only [List.cons_append, vcmpList]
    cases hxx : vcmp x x with
    | none => simp [hxx] at hself
    | some o =>
      cases o with
      | lt => simp [hxx] at hself
      | gt => simp [hxx] at hself
      | eq =>
        simp only [hxx] at hself
        exact ih hself ys h

end Blots

namespace Blots

mutual
theorem veq_imp_vcmp_eq : ∀ (a b : Value) (o : Ordering), vcmp a b = some o → veq a b = true → o = .eq
  | .num x, b, o, h, he => by
    cases b <;> simp [vcmp] at h
    simp only [veq] at he
    have := (F64.pcmp_eq_iff_feq x _).mpr he
    rw [this] at h; exact (Option.some.inj h).symm
  | .bool x, b, o, h, he => by
    cases b <;> simp [vcmp] at h
    simp [veq] at he; subst he; subst h; cases x <;> rfl
  | .str x, b, o, h, he => by
    cases b <;> simp [vcmp, strCmp] at h
    simp [veq] at he; subst he; subst h
    exact (strCmpL_eq_iff _ _).mpr rfl
  | .list xs, b, o, h, he => by
    cases b <;> simp [vcmp] at h
    simp only [veq] at he
    exact veqList_imp_vcmpList_eq xs _ o h he
  | .null, b, _, h, _ => by cases b <;> simp [vcmp] at h
  | .record _, b, _, h, _ => by cases b <;> simp [vcmp] at h
  | .lambda .., b, _, h, _ => by cases b <;> simp [vcmp] at h
  | .builtin _, b, _, h, _ => by cases b <;> simp [vcmp] at h
  | .spread _, b, _, h, _ => by cases b <;> simp [vcmp] at h
theorem veqList_imp_vcmpList_eq : ∀ (xs ys : List Value) (o : Ordering),
    vcmpList xs ys = some o → veqList xs ys = true → o = .eq
  | [], ys, o, h, he => by
    cases ys with
    | nil => simp [vcmpList] at h; exact h.symm
    | cons _ _ => simp [veqList] at he
  | x :: xs, ys, o, h, he => by
    cases ys with
    | nil => simp [veqList] at he
    | cons y ys =>
      simp only [veqList, Bool.and_eq_true] at he
      simp only [vcmpList] at h
      cases hxy : vcmp x y with
      | none => simp [hxy] at h
      | some o1 =>
        have := veq_imp_vcmp_eq x y o1 hxy he.1
        subst this
        simp only [hxy] at h
        exact veqList_imp_vcmpList_eq xs ys o h he.2
end

/-- for comparable values: `compare` says Equal exactly when `equals` holds -/
theorem vcmp_eq_iff_veq {a b : Value} {o : Ordering} (h : vcmp a b = some o) :
    o = .eq ↔ veq a b = true :=
  ⟨fun ho => vcmp_eq_imp_veq a b (ho ▸ h), veq_imp_vcmp_eq a b o h⟩

/-- values of different types are never ordered -/
theorem vcmp_type_mismatch (a b : Value) (h : a.typeName ≠ b.typeName) : vcmp a b = none := by
  cases a <;> cases b <;> simp [Value.typeName] at h <;> simp [vcmp]

end Blots
