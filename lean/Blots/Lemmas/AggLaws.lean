import Blots.Model.Builtins
import Blots.Lemmas.Num
import Blots.Lemmas.OfRatio
/-
  Helper lemmas for C15 (aggregates `min max avg sum prod median percentile`).

  * shape lemmas: `callPure ops "<name>" args` as `aggThen args f` (list-or-varargs prologue
    `aggArgs`, emptiness check, then a pure function `f` of the numbers);
  * `aggArgs` / `numList`: what the prologue does with `[list L]`, with varargs, with
    non-numbers; behaviour under permutation;
  * bit-level facts on `F64`: `key`/`totalKey` in terms of `nbits`, `totalKey` is injective,
    `totalKey`-order refines `key`-order, `+inf`/`-inf` are the only non-NaN extremes;
  * `fmin`/`fmax` folds: the result is a member and a bound; NaNs are ignored;
  * `sortTotal` is a sorted permutation, unique for a given multiset;
  * `medianOf` / `pctOf` (the tails of `median` / `percentile`);
  * the cast fact `(F64.ofNat k).toU64 = k` for `k < 2^53`, and monotonicity of the saturating
    cast `toU64` w.r.t. the IEEE order.
-/
namespace Blots

/-! ### shapes of the seven aggregates -/

/-- prologue + emptiness check + a pure function of the numbers -/
def aggThen (args : List Value) (f : List F64 → F64) : Outcome Value :=
  (aggArgs args).bind fun ns => if ns.isEmpty then .err .domain else .ok (.num (f ns))

/-- the value `median` computes from the sorted numbers -/
def medianOf (ops : NumOps) (s : List F64) : F64 :=
  if s.length % 2 == 0 then
    ops.div (ops.add (s.getD (s.length / 2 - 1) F64.zero) (s.getD (s.length / 2) F64.zero)) f64Two
  else s.getD (s.length / 2) F64.zero

/-- the index `percentile` computes (with the float operations of `ops`) for `n` numbers -/
def pctIndex (ops : NumOps) (p : F64) (n : Nat) : Nat :=
  (ops.round (ops.mul (ops.div p hundred) (F64.ofNat (n - 1)))).toU64

/-- the tail of `percentile`: indexing the sorted numbers, a panic when out of range -/
def pctOf (ops : NumOps) (p : F64) (ns : List F64) : Outcome Value :=
  match (sortTotal ns)[pctIndex ops p (sortTotal ns).length]? with
  | some x => .ok (.num x)
  | none => .panic "nums[index] in percentile"

theorem callPure_min (ops : NumOps) (args : List Value) :
    callPure ops "min" args = some (aggThen args fun ns => ns.foldl fmin F64.inf) := rfl
theorem callPure_max (ops : NumOps) (args : List Value) :
    callPure ops "max" args = some (aggThen args fun ns => ns.foldl fmax F64.negInf) := rfl
theorem callPure_sum (ops : NumOps) (args : List Value) :
    callPure ops "sum" args = some (aggThen args fun ns => ns.foldl ops.add F64.negZero) := rfl
theorem callPure_prod (ops : NumOps) (args : List Value) :
    callPure ops "prod" args = some (aggThen args fun ns => ns.foldl ops.mul F64.one) := rfl
theorem callPure_avg (ops : NumOps) (args : List Value) :
    callPure ops "avg" args = some (aggThen args fun ns =>
      ops.div (ns.foldl ops.add F64.negZero) (F64.ofNat ns.length)) := rfl

theorem callPure_median (ops : NumOps) (args : List Value) :
    callPure ops "median" args = some (aggThen args fun ns => medianOf ops (sortTotal ns)) := by
  have h : callPure ops "median" args = some ((aggArgs args).bind fun ns =>
      if ns.isEmpty then .err .domain
      else
        if (sortTotal ns).length % 2 == 0 then
          .ok (.num (ops.div (ops.add ((sortTotal ns).getD ((sortTotal ns).length / 2 - 1) F64.zero)
            ((sortTotal ns).getD ((sortTotal ns).length / 2) F64.zero)) f64Two))
        else .ok (.num ((sortTotal ns).getD ((sortTotal ns).length / 2) F64.zero))) := rfl
  rw [h, aggThen]
  congr 1
  cases aggArgs args with
  | ok ns =>
    simp only [Outcome.bind, medianOf]
    split
    · rfl
    · split <;> rfl
  | _ => rfl

theorem callPure_percentile (ops : NumOps) (l : List Value) (p : F64) :
    callPure ops "percentile" [.list l, .num p] =
      some (if !(F64.fle F64.zero p && F64.fle p hundred) then .err .domain
            else (numList l).bind fun ns => if ns.isEmpty then .err .domain else pctOf ops p ns) := rfl

/-! ### `numList` and `aggArgs` -/

theorem numList_nil : numList [] = .ok [] := rfl

theorem numList_cons (v : Value) (L : List Value) :
    numList (v :: L) = (asNumber v).bind fun x => (numList L).bind fun xs => .ok (x :: xs) := by
  unfold numList
  cases v <;> simp only [Outcome.mapM', asNumber, Outcome.bind]
  cases Outcome.mapM' asNumber L <;> rfl

theorem numList_num_cons (x : F64) (L : List Value) :
    numList (.num x :: L) = (numList L).bind fun xs => .ok (x :: xs) := by
  rw [numList_cons]; rfl

theorem numList_map_num (ns : List F64) : numList (ns.map Value.num) = .ok ns := by
  induction ns with
  | nil => rfl
  | cons x xs ih => rw [List.map_cons, numList_num_cons, ih]; rfl

/-- `numList` succeeds exactly on lists of numbers; every failure is a type error -/
theorem numList_cases (L : List Value) :
    (∃ ns, L = ns.map Value.num ∧ numList L = .ok ns) ∨
    ((∃ v, v ∈ L ∧ ∀ x, v ≠ .num x) ∧ numList L = .err .type_) := by
  induction L with
  | nil => exact .inl ⟨[], rfl, rfl⟩
  | cons v L ih =>
    by_cases hv : ∃ x, v = .num x
    · obtain ⟨x, rfl⟩ := hv
      rcases ih with ⟨ns, h1, h2⟩ | ⟨⟨w, hw, hw'⟩, h2⟩
      · exact .inl ⟨x :: ns, by rw [h1]; rfl, by rw [numList_num_cons, h2]; rfl⟩
      · exact .inr ⟨⟨w, List.mem_cons_of_mem _ hw, hw'⟩, by rw [numList_num_cons, h2]; rfl⟩
    · refine .inr ⟨⟨v, List.mem_cons_self, fun x hx => hv ⟨x, hx⟩⟩, ?_⟩
      rw [numList_cons]
      cases v with
      | num x => exact absurd ⟨x, rfl⟩ hv
      | _ => rfl

theorem numList_ok_iff (L : List Value) (ns : List F64) :
    numList L = .ok ns ↔ L = ns.map Value.num := by
  constructor
  · intro h
    rcases numList_cases L with ⟨ms, h1, h2⟩ | ⟨_, h2⟩
    · rw [h2] at h; cases h; exact h1
    · rw [h2] at h; cases h
  · intro h; rw [h, numList_map_num]

/-- a list containing a non-number is rejected with a type error -/
theorem numList_err_of_mem (L : List Value) (v : Value) (hv : v ∈ L) (hn : ∀ x, v ≠ .num x) :
    numList L = .err .type_ := by
  rcases numList_cases L with ⟨ns, h1, _⟩ | ⟨_, h2⟩
  · rw [h1, List.mem_map] at hv
    obtain ⟨x, _, hx⟩ := hv
    exact absurd hx.symm (hn x)
  · exact h2

theorem aggArgs_list (L : List Value) : aggArgs [.list L] = numList L := rfl
theorem aggArgs_nil : aggArgs [] = .ok [] := rfl
theorem aggArgs_cons_cons (a b : Value) (r : List Value) :
    aggArgs (a :: b :: r) = numList (a :: b :: r) := by
  cases a <;> rfl

theorem numList_single (v : Value) : numList [v] = (asNumber v).bind fun x => .ok [x] := by
  rw [numList_cons]; cases v <;> rfl

/-- a single argument that is not a list is treated as a one-element list -/
theorem aggArgs_single (v : Value) (h : ∀ xs, v ≠ .list xs) :
    aggArgs [v] = (asNumber v).bind fun x => .ok [x] := by
  cases v with
  | list xs => exact absurd rfl (h xs)
  | _ => rfl

theorem aggArgs_single_num (x : F64) : aggArgs [.num x] = .ok [x] := rfl

/-- a lone argument that is neither a number nor a list is a type error -/
theorem aggArgs_single_err (v : Value) (h : ∀ xs, v ≠ .list xs) (hn : ∀ x, v ≠ .num x) :
    aggArgs [v] = .err .type_ := by
  rw [aggArgs_single v h]
  cases v with
  | num x => exact absurd rfl (hn x)
  | _ => rfl

/-- both calling conventions hand the same numbers to the aggregate, except for a
    one-element list whose element is itself a list -/
theorem aggArgs_list_eq (L : List Value) (h : L.length ≠ 1 ∨ ∃ v, L = [v] ∧ ∀ xs, v ≠ .list xs) :
    aggArgs [.list L] = aggArgs L := by
  rw [aggArgs_list]
  match L, h with
  | [], _ => rfl
  | [v], .inl h => exact absurd rfl h
  | [v], .inr ⟨w, hw, hl⟩ =>
    cases hw
    rw [aggArgs_single _ hl, numList_single]
  | a :: b :: r, _ => rw [aggArgs_cons_cons]

theorem aggArgs_map_num (ns : List F64) : aggArgs (ns.map Value.num) = .ok ns := by
  match ns with
  | [] => rfl
  | [x] => rfl
  | a :: b :: r =>
    rw [List.map_cons, List.map_cons, aggArgs_cons_cons, ← List.map_cons, ← List.map_cons,
      numList_map_num]

theorem aggThen_congr {a b : List Value} (h : aggArgs a = aggArgs b) (f : List F64 → F64) :
    aggThen a f = aggThen b f := by
  simp only [aggThen, h]

theorem aggThen_of_ok {args : List Value} {ns : List F64} (h : aggArgs args = .ok ns)
    (hne : ns ≠ []) (f : List F64 → F64) : aggThen args f = .ok (.num (f ns)) := by
  have : ns.isEmpty = false := by cases ns with | nil => exact absurd rfl hne | cons _ _ => rfl
  simp only [aggThen, h, Outcome.bind, this]
  rfl

theorem aggThen_of_empty {args : List Value} (h : aggArgs args = .ok []) (f : List F64 → F64) :
    aggThen args f = .err .domain := by
  simp only [aggThen, h, Outcome.bind]
  rfl

theorem aggThen_ok_inv {args : List Value} {f : List F64 → F64} {v : Value}
    (h : aggThen args f = .ok v) : ∃ ns, aggArgs args = .ok ns ∧ ns ≠ [] ∧ v = .num (f ns) := by
  unfold aggThen at h
  cases ha : aggArgs args with
  | ok ns =>
    rw [ha] at h
    simp only [Outcome.bind] at h
    cases ns with
    | nil => simp at h
    | cons x xs =>
      refine ⟨x :: xs, rfl, by simp, ?_⟩
      simp at h
      exact h.symm
  | err k => rw [ha] at h; simp [Outcome.bind] at h
  | panic s => rw [ha] at h; simp [Outcome.bind] at h
  | fuel => rw [ha] at h; simp [Outcome.bind] at h

def valueNum? : Value → Option F64
  | .num x => some x
  | _ => none

theorem filterMap_valueNum?_map (ns : List F64) :
    (ns.map Value.num).filterMap valueNum? = ns := by
  induction ns with
  | nil => rfl
  | cons x xs ih => simp [valueNum?, ih]

/-- permuting a list of values permutes the extracted numbers (and keeps failures) -/
theorem numList_perm {L M : List Value} (h : L.Perm M) :
    (∃ ns ms, numList L = .ok ns ∧ numList M = .ok ms ∧ ns.Perm ms) ∨
    (numList L = .err .type_ ∧ numList M = .err .type_) := by
  rcases numList_cases L with ⟨ns, h1, h2⟩ | ⟨⟨v, hv, hn⟩, h2⟩
  · rcases numList_cases M with ⟨ms, h3, h4⟩ | ⟨⟨v, hv, hn⟩, _⟩
    · refine .inl ⟨ns, ms, h2, h4, ?_⟩
      rw [h1, h3] at h
      have := h.filterMap valueNum?
      rwa [filterMap_valueNum?_map, filterMap_valueNum?_map] at this
    · have := h.symm.subset hv
      rw [h1, List.mem_map] at this
      obtain ⟨x, _, hx⟩ := this
      exact absurd hx.symm (hn x)
  · exact .inr ⟨h2, numList_err_of_mem M v (h.subset hv) hn⟩

/-! ### bit-level facts -/

namespace F64

theorem eq_of_nbits_eq {a b : F64} (h : a.nbits = b.nbits) : a = b := by
  cases a with | mk x => cases b with | mk y =>
  simp only [nbits] at h
  exact congrArg F64.mk (UInt64.toNat_inj.mp h)

theorem nbits_inf : inf.nbits = 0x7FF0000000000000 := by decide
theorem nbits_negInf : negInf.nbits = 0xFFF0000000000000 := by decide

theorem isNaN_false_iff (x : F64) :
    x.isNaN = false ↔ (x.nbits / 2 ^ 52 % 2048 ≠ 2047 ∨ x.nbits % 2 ^ 52 = 0) := by
  unfold isNaN expField frac
  by_cases h1 : x.nbits / 2 ^ 52 % 2048 = 2047 <;> by_cases h2 : x.nbits % 2 ^ 52 = 0 <;>
    simp [h1, h2]

theorem key_eq (x : F64) :
    x.key = if x.nbits / 2 ^ 63 % 2 = 1 then - ((x.nbits % 2 ^ 63 : Nat) : Int)
      else ((x.nbits % 2 ^ 63 : Nat) : Int) := by
  simp [key, neg, mag]

theorem totalKey_eq (x : F64) :
    totalKey x = if x.nbits / 2 ^ 63 % 2 = 1 then - ((x.nbits % 2 ^ 63 : Nat) : Int) - 1
      else ((x.nbits % 2 ^ 63 : Nat) : Int) := by
  simp [totalKey, neg, mag]

/-- a non-NaN value that is not below `+inf` is `+inf` (same bit pattern) -/
theorem eq_inf_of_key_ge {x : F64} (hx : x.isNaN = false) (h : inf.key ≤ x.key) : x = inf := by
  apply eq_of_nbits_eq
  rw [nbits_inf]
  have hlt := nbits_lt x
  have hk : inf.key = 0x7FF0000000000000 := by decide
  rw [hk, key_eq] at h
  rw [isNaN_false_iff] at hx
  split at h <;> omega

theorem eq_negInf_of_key_le {x : F64} (hx : x.isNaN = false) (h : x.key ≤ negInf.key) :
    x = negInf := by
  apply eq_of_nbits_eq
  rw [nbits_negInf]
  have hlt := nbits_lt x
  have hk : negInf.key = -0x7FF0000000000000 := by decide
  rw [hk, key_eq] at h
  rw [isNaN_false_iff] at hx
  split at h <;> omega

/-- `total_cmp` order refines the IEEE order (it only adds `-0 < +0` and places NaNs) -/
theorem key_le_of_totalKey_le {a b : F64} (h : totalKey a ≤ totalKey b) : a.key ≤ b.key := by
  rw [totalKey_eq, totalKey_eq] at h
  rw [key_eq, key_eq]
  split at h <;> split at h <;> simp [*] <;> omega

/-- `total_cmp` distinguishes all bit patterns -/
theorem totalKey_inj {a b : F64} (h : totalKey a = totalKey b) : a = b := by
  apply eq_of_nbits_eq
  have ha := nbits_lt a
  have hb := nbits_lt b
  rw [totalKey_eq, totalKey_eq] at h
  split at h <;> split at h <;> omega

theorem fle_iff (a b : F64) :
    fle a b = true ↔ a.isNaN = false ∧ b.isNaN = false ∧ a.key ≤ b.key := by
  simp [fle, and_assoc]

theorem fle_of_totalKey_le {a b : F64} (ha : a.isNaN = false) (hb : b.isNaN = false)
    (h : totalKey a ≤ totalKey b) : fle a b = true :=
  (fle_iff a b).mpr ⟨ha, hb, key_le_of_totalKey_le h⟩

end F64

/-! ### `fmin` / `fmax` folds -/

theorem fmin_of_not_nan {a b : F64} (ha : a.isNaN = false) (hb : b.isNaN = false) :
    fmin a b = if b.key < a.key then b else a := by
  simp [fmin, F64.flt, ha, hb]

theorem fmax_of_not_nan {a b : F64} (ha : a.isNaN = false) (hb : b.isNaN = false) :
    fmax a b = if a.key < b.key then b else a := by
  simp [fmax, F64.flt, ha, hb]

theorem fmin_nan_right {a b : F64} (ha : a.isNaN = false) (hb : b.isNaN = true) : fmin a b = a := by
  simp [fmin, ha, hb]

theorem fmax_nan_right {a b : F64} (ha : a.isNaN = false) (hb : b.isNaN = true) : fmax a b = a := by
  simp [fmax, ha, hb]

theorem inf_not_nan : F64.inf.isNaN = false := by decide
theorem negInf_not_nan : F64.negInf.isNaN = false := by decide

/-- folding from `+inf`: the first non-NaN number replaces the seed (bit-exactly) -/
theorem fmin_inf_left {x : F64} (hx : x.isNaN = false) : fmin F64.inf x = x := by
  rw [fmin_of_not_nan inf_not_nan hx]
  split
  · rfl
  · exact (F64.eq_inf_of_key_ge hx (by omega)).symm

theorem fmax_negInf_left {x : F64} (hx : x.isNaN = false) : fmax F64.negInf x = x := by
  rw [fmax_of_not_nan negInf_not_nan hx]
  split
  · rfl
  · exact (F64.eq_negInf_of_key_le hx (by omega)).symm

theorem foldl_fmin_spec : ∀ (ns : List F64) (a : F64), a.isNaN = false →
    (∀ x ∈ ns, x.isNaN = false) →
    (ns.foldl fmin a = a ∨ ns.foldl fmin a ∈ ns) ∧ (ns.foldl fmin a).isNaN = false ∧
      (ns.foldl fmin a).key ≤ a.key ∧ ∀ x ∈ ns, (ns.foldl fmin a).key ≤ x.key
  | [], a, ha, _ => ⟨.inl rfl, ha, Int.le_refl _, fun _ h => by cases h⟩
  | y :: ys, a, ha, hns => by
    have hy : y.isNaN = false := hns y List.mem_cons_self
    have hys : ∀ x ∈ ys, x.isNaN = false := fun x hx => hns x (List.mem_cons_of_mem _ hx)
    have hf := fmin_of_not_nan ha hy
    have hnan : (fmin a y).isNaN = false := by rw [hf]; split <;> assumption
    obtain ⟨h1, h2, h3, h4⟩ := foldl_fmin_spec ys (fmin a y) hnan hys
    rw [List.foldl_cons]
    have hka : (fmin a y).key ≤ a.key := by rw [hf]; split <;> omega
    have hky : (fmin a y).key ≤ y.key := by rw [hf]; split <;> omega
    refine ⟨?_, h2, by omega, ?_⟩
    · rcases h1 with h1 | h1
      · rw [h1, hf]
        split
        · exact .inr List.mem_cons_self
        · exact .inl rfl
      · exact .inr (List.mem_cons_of_mem _ h1)
    · intro x hx
      rcases List.mem_cons.mp hx with rfl | hx
      · omega
      · exact h4 x hx

theorem foldl_fmax_spec : ∀ (ns : List F64) (a : F64), a.isNaN = false →
    (∀ x ∈ ns, x.isNaN = false) →
    (ns.foldl fmax a = a ∨ ns.foldl fmax a ∈ ns) ∧ (ns.foldl fmax a).isNaN = false ∧
      a.key ≤ (ns.foldl fmax a).key ∧ ∀ x ∈ ns, x.key ≤ (ns.foldl fmax a).key
  | [], a, ha, _ => ⟨.inl rfl, ha, Int.le_refl _, fun _ h => by cases h⟩
  | y :: ys, a, ha, hns => by
    have hy : y.isNaN = false := hns y List.mem_cons_self
    have hys : ∀ x ∈ ys, x.isNaN = false := fun x hx => hns x (List.mem_cons_of_mem _ hx)
    have hf := fmax_of_not_nan ha hy
    have hnan : (fmax a y).isNaN = false := by rw [hf]; split <;> assumption
    obtain ⟨h1, h2, h3, h4⟩ := foldl_fmax_spec ys (fmax a y) hnan hys
    rw [List.foldl_cons]
    have hka : a.key ≤ (fmax a y).key := by rw [hf]; split <;> omega
    have hky : y.key ≤ (fmax a y).key := by rw [hf]; split <;> omega
    refine ⟨?_, h2, by omega, ?_⟩
    · rcases h1 with h1 | h1
      · rw [h1, hf]
        split
        · exact .inr List.mem_cons_self
        · exact .inl rfl
      · exact .inr (List.mem_cons_of_mem _ h1)
    · intro x hx
      rcases List.mem_cons.mp hx with rfl | hx
      · omega
      · exact h4 x hx

/-- `min` of a non-empty list of non-NaN numbers: a member that is `≤` every member -/
theorem foldl_fmin_inf_spec (ns : List F64) (hne : ns ≠ []) (hns : ∀ x ∈ ns, x.isNaN = false) :
    ns.foldl fmin F64.inf ∈ ns ∧ ∀ x ∈ ns, F64.fle (ns.foldl fmin F64.inf) x = true := by
  match ns, hne with
  | y :: ys, _ =>
    have hy : y.isNaN = false := hns y List.mem_cons_self
    have hys : ∀ x ∈ ys, x.isNaN = false := fun x hx => hns x (List.mem_cons_of_mem _ hx)
    rw [List.foldl_cons, fmin_inf_left hy]
    obtain ⟨h1, h2, h3, h4⟩ := foldl_fmin_spec ys y hy hys
    refine ⟨?_, ?_⟩
    · rcases h1 with h1 | h1
      · rw [h1]; exact List.mem_cons_self
      · exact List.mem_cons_of_mem _ h1
    · intro x hx
      rw [F64.fle_iff]
      rcases List.mem_cons.mp hx with rfl | hx
      · exact ⟨h2, hy, h3⟩
      · exact ⟨h2, hys x hx, h4 x hx⟩

theorem foldl_fmax_negInf_spec (ns : List F64) (hne : ns ≠ []) (hns : ∀ x ∈ ns, x.isNaN = false) :
    ns.foldl fmax F64.negInf ∈ ns ∧ ∀ x ∈ ns, F64.fle x (ns.foldl fmax F64.negInf) = true := by
  match ns, hne with
  | y :: ys, _ =>
    have hy : y.isNaN = false := hns y List.mem_cons_self
    have hys : ∀ x ∈ ys, x.isNaN = false := fun x hx => hns x (List.mem_cons_of_mem _ hx)
    rw [List.foldl_cons, fmax_negInf_left hy]
    obtain ⟨h1, h2, h3, h4⟩ := foldl_fmax_spec ys y hy hys
    refine ⟨?_, ?_⟩
    · rcases h1 with h1 | h1
      · rw [h1]; exact List.mem_cons_self
      · exact List.mem_cons_of_mem _ h1
    · intro x hx
      rw [F64.fle_iff]
      rcases List.mem_cons.mp hx with rfl | hx
      · exact ⟨hy, h2, h3⟩
      · exact ⟨hys x hx, h2, h4 x hx⟩

/-- the non-NaN members -/
def nonNaNs (ns : List F64) : List F64 := ns.filter fun x => !x.isNaN

theorem mem_nonNaNs {ns : List F64} {x : F64} : x ∈ nonNaNs ns ↔ x ∈ ns ∧ x.isNaN = false := by
  simp [nonNaNs]

/-- NaN members are ignored by the `min` fold -/
theorem foldl_fmin_nonNaNs : ∀ (ns : List F64) (a : F64), a.isNaN = false →
    ns.foldl fmin a = (nonNaNs ns).foldl fmin a
  | [], _, _ => rfl
  | y :: ys, a, ha => by
    cases hy : y.isNaN with
    | true =>
      have : nonNaNs (y :: ys) = nonNaNs ys := by simp [nonNaNs, hy]
      rw [this, List.foldl_cons, fmin_nan_right ha hy]
      exact foldl_fmin_nonNaNs ys a ha
    | false =>
      have : nonNaNs (y :: ys) = y :: nonNaNs ys := by simp [nonNaNs, hy]
      rw [this, List.foldl_cons, List.foldl_cons]
      refine foldl_fmin_nonNaNs ys _ ?_
      rw [fmin_of_not_nan ha hy]; split <;> assumption

theorem foldl_fmax_nonNaNs : ∀ (ns : List F64) (a : F64), a.isNaN = false →
    ns.foldl fmax a = (nonNaNs ns).foldl fmax a
  | [], _, _ => rfl
  | y :: ys, a, ha => by
    cases hy : y.isNaN with
    | true =>
      have : nonNaNs (y :: ys) = nonNaNs ys := by simp [nonNaNs, hy]
      rw [this, List.foldl_cons, fmax_nan_right ha hy]
      exact foldl_fmax_nonNaNs ys a ha
    | false =>
      have : nonNaNs (y :: ys) = y :: nonNaNs ys := by simp [nonNaNs, hy]
      rw [this, List.foldl_cons, List.foldl_cons]
      refine foldl_fmax_nonNaNs ys _ ?_
      rw [fmax_of_not_nan ha hy]; split <;> assumption

/-- `min` with NaNs present: `+inf` when every member is NaN, otherwise a non-NaN member that
    is `≤` every non-NaN member -/
theorem foldl_fmin_inf_general (ns : List F64) :
    (nonNaNs ns = [] ∧ ns.foldl fmin F64.inf = F64.inf) ∨
    (ns.foldl fmin F64.inf ∈ ns ∧ (ns.foldl fmin F64.inf).isNaN = false ∧
      ∀ x ∈ ns, x.isNaN = false → F64.fle (ns.foldl fmin F64.inf) x = true) := by
  rw [foldl_fmin_nonNaNs ns _ inf_not_nan]
  by_cases h : nonNaNs ns = []
  · left; rw [h]; exact ⟨rfl, rfl⟩
  · right
    obtain ⟨h1, h2⟩ := foldl_fmin_inf_spec (nonNaNs ns) h (fun x hx => (mem_nonNaNs.mp hx).2)
    exact ⟨(mem_nonNaNs.mp h1).1, (mem_nonNaNs.mp h1).2,
      fun x hx hn => h2 x (mem_nonNaNs.mpr ⟨hx, hn⟩)⟩

theorem foldl_fmax_negInf_general (ns : List F64) :
    (nonNaNs ns = [] ∧ ns.foldl fmax F64.negInf = F64.negInf) ∨
    (ns.foldl fmax F64.negInf ∈ ns ∧ (ns.foldl fmax F64.negInf).isNaN = false ∧
      ∀ x ∈ ns, x.isNaN = false → F64.fle x (ns.foldl fmax F64.negInf) = true) := by
  rw [foldl_fmax_nonNaNs ns _ negInf_not_nan]
  by_cases h : nonNaNs ns = []
  · left; rw [h]; exact ⟨rfl, rfl⟩
  · right
    obtain ⟨h1, h2⟩ := foldl_fmax_negInf_spec (nonNaNs ns) h (fun x hx => (mem_nonNaNs.mp hx).2)
    exact ⟨(mem_nonNaNs.mp h1).1, (mem_nonNaNs.mp h1).2,
      fun x hx hn => h2 x (mem_nonNaNs.mpr ⟨hx, hn⟩)⟩

/-- the `min` fold of a permuted list is IEEE-equal (`feq`) to the original one -/
theorem foldl_fmin_perm {ns ms : List F64} (h : ns.Perm ms) :
    F64.feq (ns.foldl fmin F64.inf) (ms.foldl fmin F64.inf) = true := by
  have hp : (nonNaNs ns).Perm (nonNaNs ms) := h.filter _
  rcases foldl_fmin_inf_general ns with ⟨h1, h2⟩ | ⟨h1, h2, h3⟩
  · have : nonNaNs ms = [] := by rw [h1] at hp; exact hp.symm.eq_nil
    rw [h2, foldl_fmin_nonNaNs ms _ inf_not_nan, this]; decide
  · rcases foldl_fmin_inf_general ms with ⟨g1, _⟩ | ⟨g1, g2, g3⟩
    · have : nonNaNs ns = [] := by rw [g1] at hp; exact hp.eq_nil
      have hm := mem_nonNaNs.mpr ⟨h1, h2⟩
      rw [this] at hm; cases hm
    · have a1 := (F64.fle_iff _ _).mp (h3 _ (h.symm.subset g1) g2)
      have a2 := (F64.fle_iff _ _).mp (g3 _ (h.subset h1) h2)
      have : (ns.foldl fmin F64.inf).key = (ms.foldl fmin F64.inf).key := by omega
      simp [F64.feq, h2, g2, this]

theorem foldl_fmax_perm {ns ms : List F64} (h : ns.Perm ms) :
    F64.feq (ns.foldl fmax F64.negInf) (ms.foldl fmax F64.negInf) = true := by
  have hp : (nonNaNs ns).Perm (nonNaNs ms) := h.filter _
  rcases foldl_fmax_negInf_general ns with ⟨h1, h2⟩ | ⟨h1, h2, h3⟩
  · have : nonNaNs ms = [] := by rw [h1] at hp; exact hp.symm.eq_nil
    rw [h2, foldl_fmax_nonNaNs ms _ negInf_not_nan, this]; decide
  · rcases foldl_fmax_negInf_general ms with ⟨g1, _⟩ | ⟨g1, g2, g3⟩
    · have : nonNaNs ns = [] := by rw [g1] at hp; exact hp.eq_nil
      have hm := mem_nonNaNs.mpr ⟨h1, h2⟩
      rw [this] at hm; cases hm
    · have a1 := (F64.fle_iff _ _).mp (h3 _ (h.symm.subset g1) g2)
      have a2 := (F64.fle_iff _ _).mp (g3 _ (h.subset h1) h2)
      have : (ns.foldl fmax F64.negInf).key = (ms.foldl fmax F64.negInf).key := by omega
      simp [F64.feq, h2, g2, this]

/-! ### `sortTotal` -/

/-- the order `sortTotal` sorts by -/
def TotalLe (a b : F64) : Prop := totalKey a ≤ totalKey b

theorem insertSortedF64_perm (le : F64 → F64 → Bool) (x : F64) :
    ∀ l : List F64, (insertSortedF64 le x l).Perm (x :: l)
  | [] => List.Perm.refl _
  | y :: ys => by
    unfold insertSortedF64
    split
    · exact List.Perm.refl _
    · exact ((insertSortedF64_perm le x ys).cons y).trans (List.Perm.swap x y ys)

theorem sortTotal_cons (x : F64) (xs : List F64) :
    sortTotal (x :: xs) =
      insertSortedF64 (fun a b => totalKey a ≤ totalKey b) x (sortTotal xs) := rfl

theorem sortTotal_perm : ∀ ns : List F64, (sortTotal ns).Perm ns
  | [] => List.Perm.refl _
  | x :: xs => by
    rw [sortTotal_cons]
    exact (insertSortedF64_perm _ x _).trans ((sortTotal_perm xs).cons x)

theorem sortTotal_length (ns : List F64) : (sortTotal ns).length = ns.length :=
  (sortTotal_perm ns).length_eq

theorem mem_sortTotal {ns : List F64} {x : F64} : x ∈ sortTotal ns ↔ x ∈ ns :=
  (sortTotal_perm ns).mem_iff

theorem insertSortedF64_sorted (x : F64) : ∀ l : List F64, l.Pairwise TotalLe →
    (insertSortedF64 (fun a b => totalKey a ≤ totalKey b) x l).Pairwise TotalLe
  | [], _ => List.pairwise_singleton _ _
  | y :: ys, h => by
    unfold insertSortedF64
    have hy : ∀ {z}, z ∈ ys → TotalLe y z := fun hz => List.rel_of_pairwise_cons h hz
    split
    · next hle =>
      have hle : totalKey x ≤ totalKey y := by simpa using hle
      refine List.Pairwise.cons ?_ h
      intro z hz
      rcases List.mem_cons.mp hz with rfl | hz
      · exact hle
      · exact Int.le_trans hle (hy hz)
    · next hle =>
      have hle : totalKey y ≤ totalKey x := by
        have : ¬ totalKey x ≤ totalKey y := by simpa using hle
        omega
      refine List.Pairwise.cons ?_ (insertSortedF64_sorted x ys h.tail)
      intro z hz
      have := (insertSortedF64_perm _ x ys).subset hz
      rcases List.mem_cons.mp this with rfl | hz
      · exact hle
      · exact hy hz

theorem sortTotal_sorted : ∀ ns : List F64, (sortTotal ns).Pairwise TotalLe
  | [] => List.Pairwise.nil
  | x :: xs => by
    rw [sortTotal_cons]
    exact insertSortedF64_sorted x _ (sortTotal_sorted xs)

/-- a multiset of bit patterns has exactly one `total_cmp`-sorted arrangement -/
theorem sortTotal_eq_of_perm {ns ms : List F64} (h : ns.Perm ms) : sortTotal ns = sortTotal ms := by
  refine List.Perm.eq_of_pairwise (le := TotalLe) ?_ (sortTotal_sorted ns) (sortTotal_sorted ms)
    ((sortTotal_perm ns).trans (h.trans (sortTotal_perm ms).symm))
  intro a b _ _ h1 h2
  exact F64.totalKey_inj (Int.le_antisymm h1 h2)

/-- on non-NaN inputs the sorted list is ascending for the IEEE order `fle` -/
theorem sortTotal_sorted_fle (ns : List F64) (hns : ∀ x ∈ ns, x.isNaN = false) :
    (sortTotal ns).Pairwise fun a b => F64.fle a b = true := by
  have h := sortTotal_sorted ns
  rw [List.pairwise_iff_forall_sublist] at h ⊢
  intro a b hab
  have ha : a ∈ sortTotal ns := hab.subset (by simp)
  have hb : b ∈ sortTotal ns := hab.subset (by simp)
  exact F64.fle_of_totalKey_le (hns a (mem_sortTotal.mp ha)) (hns b (mem_sortTotal.mp hb)) (h hab)

/-- index form of sortedness -/
theorem sortTotal_getElem_le (ns : List F64) {i j : Nat} {a b : F64} (hij : i ≤ j)
    (ha : (sortTotal ns)[i]? = some a) (hb : (sortTotal ns)[j]? = some b) :
    totalKey a ≤ totalKey b := by
  have h := sortTotal_sorted ns
  obtain ⟨hi, rfl⟩ := List.getElem?_eq_some_iff.mp ha
  obtain ⟨hj, rfl⟩ := List.getElem?_eq_some_iff.mp hb
  rcases Nat.lt_or_eq_of_le hij with hlt | rfl
  · exact List.pairwise_iff_getElem.mp h i j hi hj hlt
  · exact Int.le_refl _

/-! ### `median` and `percentile` tails -/

theorem medianOf_odd (ops : NumOps) (s : List F64) (h : s.length % 2 = 1) :
    ∃ x, s[s.length / 2]? = some x ∧ medianOf ops s = x := by
  have hlt : s.length / 2 < s.length := by omega
  refine ⟨s[s.length / 2], List.getElem?_eq_getElem hlt, ?_⟩
  have : ¬ (s.length % 2 == 0) = true := by simp [h]
  simp only [medianOf, if_neg this, List.getD_eq_getElem?_getD, List.getElem?_eq_getElem hlt,
    Option.getD_some]

theorem medianOf_even (ops : NumOps) (s : List F64) (h : s.length % 2 = 0) (hne : s ≠ []) :
    ∃ a b, s[s.length / 2 - 1]? = some a ∧ s[s.length / 2]? = some b ∧
      medianOf ops s = ops.div (ops.add a b) f64Two := by
  have hpos : 0 < s.length := List.length_pos_iff.mpr hne
  have hlt : s.length / 2 < s.length := by omega
  have hlt' : s.length / 2 - 1 < s.length := by omega
  refine ⟨s[s.length / 2 - 1], s[s.length / 2], List.getElem?_eq_getElem hlt',
    List.getElem?_eq_getElem hlt, ?_⟩
  have : (s.length % 2 == 0) = true := by simp [h]
  simp only [medianOf, if_pos this, List.getD_eq_getElem?_getD, List.getElem?_eq_getElem hlt,
    List.getElem?_eq_getElem hlt', Option.getD_some]

theorem pctOf_of_lt (ops : NumOps) (p : F64) (ns : List F64)
    (h : pctIndex ops p ns.length < ns.length) :
    ∃ x, (sortTotal ns)[pctIndex ops p ns.length]? = some x ∧ pctOf ops p ns = .ok (.num x) := by
  have hl := sortTotal_length ns
  have hlt : pctIndex ops p ns.length < (sortTotal ns).length := by rw [hl]; exact h
  refine ⟨(sortTotal ns)[pctIndex ops p ns.length], List.getElem?_eq_getElem hlt, ?_⟩
  simp only [pctOf, hl, List.getElem?_eq_getElem hlt]

theorem pctOf_of_ge (ops : NumOps) (p : F64) (ns : List F64)
    (h : ns.length ≤ pctIndex ops p ns.length) :
    pctOf ops p ns = .panic "nums[index] in percentile" := by
  have hl := sortTotal_length ns
  have : (sortTotal ns)[pctIndex ops p ns.length]? = none :=
    List.getElem?_eq_none (by rw [hl]; exact h)
  simp only [pctOf, hl, this]

/-! ### permuted arguments -/

/-- the two argument lists hand permuted numbers to the aggregate, or both are rejected -/
def AggPerm (a b : List Value) : Prop :=
  (∃ ns ms, aggArgs a = .ok ns ∧ aggArgs b = .ok ms ∧ ns.Perm ms) ∨
  (aggArgs a = .err .type_ ∧ aggArgs b = .err .type_)

theorem aggPerm_list {L M : List Value} (h : L.Perm M) : AggPerm [.list L] [.list M] := by
  unfold AggPerm
  rw [aggArgs_list, aggArgs_list]
  exact numList_perm h

theorem aggPerm_varargs {L M : List Value} (h : L.Perm M) : AggPerm L M := by
  by_cases h1 : L.length = 1
  · match L, h1 with
    | [v], _ =>
      have : M = [v] := List.perm_singleton.mp h.symm
      subst this
      unfold AggPerm
      by_cases hl : ∃ xs, v = .list xs
      · obtain ⟨xs, rfl⟩ := hl
        rw [aggArgs_list]
        exact numList_perm (List.Perm.refl xs)
      · have hl' : ∀ xs, v ≠ .list xs := fun xs hx => hl ⟨xs, hx⟩
        rw [← aggArgs_list_eq [v] (.inr ⟨v, rfl, hl'⟩), aggArgs_list]
        exact numList_perm (List.Perm.refl [v])
  · have h2 : M.length ≠ 1 := by rw [← h.length_eq]; exact h1
    unfold AggPerm
    rw [← aggArgs_list_eq L (.inl h1), ← aggArgs_list_eq M (.inl h2), aggArgs_list, aggArgs_list]
    exact numList_perm h

theorem aggThen_of_aggPerm {a b : List Value} (h : AggPerm a b) (f : List F64 → F64) :
    (∃ ns ms, ns.Perm ms ∧ aggThen a f = .ok (.num (f ns)) ∧ aggThen b f = .ok (.num (f ms))) ∨
    (∃ k, aggThen a f = .err k ∧ aggThen b f = .err k) := by
  rcases h with ⟨ns, ms, h1, h2, hp⟩ | ⟨h1, h2⟩
  · by_cases hne : ns = []
    · subst hne
      have : ms = [] := hp.symm.eq_nil
      subst this
      exact .inr ⟨.domain, aggThen_of_empty h1 f, aggThen_of_empty h2 f⟩
    · have hne' : ms ≠ [] := fun hm => hne (by subst hm; exact hp.eq_nil)
      exact .inl ⟨ns, ms, hp, aggThen_of_ok h1 hne f, aggThen_of_ok h2 hne' f⟩
  · refine .inr ⟨.type_, ?_, ?_⟩ <;> simp only [aggThen, h1, h2, Outcome.bind]

/-- an aggregate whose function only depends on the multiset is exactly permutation invariant -/
theorem aggThen_perm_exact {a b : List Value} (h : AggPerm a b) (f : List F64 → F64)
    (hf : ∀ ns ms, ns.Perm ms → f ns = f ms) : aggThen a f = aggThen b f := by
  rcases aggThen_of_aggPerm h f with ⟨ns, ms, hp, h1, h2⟩ | ⟨k, h1, h2⟩
  · rw [h1, h2, hf ns ms hp]
  · rw [h1, h2]

/-- the six list-or-varargs aggregates all have the shape `aggThen args f` -/
theorem callPure_agg (ops : NumOps) (name : String)
    (hname : name ∈ ["min", "max", "avg", "sum", "prod", "median"]) :
    ∃ f, ∀ args, callPure ops name args = some (aggThen args f) := by
  simp only [List.mem_cons, List.not_mem_nil, or_false] at hname
  rcases hname with rfl | rfl | rfl | rfl | rfl | rfl
  · exact ⟨_, callPure_min ops⟩
  · exact ⟨_, callPure_max ops⟩
  · exact ⟨_, callPure_avg ops⟩
  · exact ⟨_, callPure_sum ops⟩
  · exact ⟨_, callPure_prod ops⟩
  · exact ⟨_, callPure_median ops⟩

/-! ### the cast `usize as f64 as usize` is the identity below 2^53 -/

namespace F64

theorem nbits_ofNatBits (n : Nat) (h : n < 2 ^ 64) : (ofNatBits n).nbits = n := by
  simp only [ofNatBits, nbits, UInt64.toNat_ofNat']
  exact Nat.mod_eq_of_lt h

/-- bit pattern of a positive integer below 2^53: `k = m / 2^j` with `2^52 ≤ m < 2^53` -/
theorem ofNat_bits (k : Nat) (hk0 : k ≠ 0) (hk : k < 2 ^ 53) :
    ∃ j m, j ≤ 52 ∧ m = k * 2 ^ j ∧ 2 ^ 52 ≤ m ∧ m < 2 ^ 53 ∧
      ofNat k = ofNatBits ((1075 - j) * 2 ^ 52 + (m - 2 ^ 52)) := by
  have hL : k.log2 < 53 := (Nat.log2_lt hk0).mpr hk
  have h1 : 2 ^ k.log2 ≤ k := Nat.log2_self_le hk0
  have h2 : k < 2 ^ (k.log2 + 1) := Nat.lt_log2_self
  have hm1 : 2 ^ 52 ≤ k * 2 ^ (52 - k.log2) := by
    calc 2 ^ 52 = 2 ^ k.log2 * 2 ^ (52 - k.log2) := by rw [← Nat.pow_add]; congr 1; omega
      _ ≤ k * 2 ^ (52 - k.log2) := Nat.mul_le_mul_right _ h1
  have hm2 : k * 2 ^ (52 - k.log2) < 2 ^ 53 := by
    calc k * 2 ^ (52 - k.log2) < 2 ^ (k.log2 + 1) * 2 ^ (52 - k.log2) :=
          Nat.mul_lt_mul_of_pos_right h2 (Nat.two_pow_pos _)
      _ = 2 ^ 53 := by rw [← Nat.pow_add]; congr 1; omega
  refine ⟨52 - k.log2, k * 2 ^ (52 - k.log2), by omega, rfl, hm1, hm2, ?_⟩
  generalize hj : 52 - k.log2 = j at *
  unfold ofNat
  by_cases hj0 : j = 0
  · subst hj0
    have := ofRatio_normal_nonneg false k 0 (by simpa using hm1) (by simpa using hm2) (by omega)
    simp only [Nat.pow_zero, Nat.mul_one] at this ⊢
    rw [this]; simp
  · have hs := ofRatio_scale_two_pow false k 1 j (by decide)
    rw [Nat.one_mul] at hs
    rw [← hs, ofRatio_normal_neg false _ j hm1 hm2 (by omega) (by omega)]
    simp

theorem ofNat_zero : ofNat 0 = zero := by unfold ofNat; rw [ofRatio_zero]; rfl

theorem toU64_zero : zero.toU64 = 0 := by
  have ht : zero.truncInt = 0 := by
    unfold truncInt
    rw [ratio_subnormal zero (by decide)]
    have h1 : zero.frac = 0 := by decide
    have h2 : zero.neg = false := by decide
    simp only [h1, h2, Nat.zero_div]
    rfl
  have h3 : zero.isNaN = false := by decide
  have h4 : zero.isInf = false := by decide
  unfold toU64
  simp only [h3, h4, ht]
  rfl

theorem toU64_ofNat (k : Nat) (hk : k < 2 ^ 53) : (ofNat k).toU64 = k := by
  by_cases hk0 : k = 0
  · subst hk0
    rw [ofNat_zero, toU64_zero]
  · obtain ⟨j, m, hj, hm, hm1, hm2, hb⟩ := ofNat_bits k hk0 hk
    have hB : (1075 - j) * 2 ^ 52 + (m - 2 ^ 52) < 2 ^ 64 := by omega
    have hn : (ofNat k).nbits = (1075 - j) * 2 ^ 52 + (m - 2 ^ 52) := by
      rw [hb, nbits_ofNatBits _ hB]
    have hE : (ofNat k).expField = 1075 - j := by unfold expField; rw [hn]; omega
    have hF : (ofNat k).frac = m - 2 ^ 52 := by unfold frac; rw [hn]; omega
    have hneg : (ofNat k).neg = false := by
      unfold neg; rw [hn]
      have : ((1075 - j) * 2 ^ 52 + (m - 2 ^ 52)) / 2 ^ 63 % 2 = 0 := by omega
      simp [this]
    have hnan : (ofNat k).isNaN = false := by
      unfold isNaN; rw [hE]
      have : ¬ (1075 - j = 2047) := by omega
      simp [this]
    have hinf : (ofNat k).isInf = false := by
      unfold isInf; rw [hE]
      have : ¬ (1075 - j = 2047) := by omega
      simp [this]
    have hq : (ofNat k).ratio.1 / (ofNat k).ratio.2 = k := by
      by_cases hj0 : j = 0
      · subst hj0
        rw [ratio_normal_nonneg _ (by omega), hE, hF]
        simp only [Nat.sub_zero, Nat.sub_self, Nat.pow_zero, Nat.mul_one, Nat.div_one] at hm ⊢
        omega
      · rw [ratio_normal_neg _ (by omega) (by omega), hE, hF]
        have e1 : m - 2 ^ 52 + 2 ^ 52 = m := by omega
        have e2 : 1075 - (1075 - j) = j := by omega
        simp only [e1, e2]
        rw [hm]; exact Nat.mul_div_cancel _ (Nat.two_pow_pos j)
    have ht : (ofNat k).truncInt = (k : Int) := by
      unfold truncInt
      simp only [hneg, hq]
      rfl
    unfold toU64
    have a1 : ¬ ((k : Int) < 0) := by omega
    have a2 : ¬ ((k : Int) > 2 ^ 64 - 1) := by omega
    simp only [hnan, hinf, ht, Bool.false_eq_true, if_false, if_neg a1, if_neg a2]
    exact Int.toNat_natCast k


/-- the exact magnitude of a finite pattern times 2^1074 -/
def scaledVal (x : F64) : Nat :=
  if x.expField = 0 then x.frac else (x.frac + 2 ^ 52) * 2 ^ (x.expField - 1)

theorem ratio_div (x : F64) : x.ratio.1 / x.ratio.2 = x.scaledVal / 2 ^ 1074 := by
  unfold scaledVal
  by_cases h0 : x.expField = 0
  · rw [ratio_subnormal x h0, if_pos h0]
  · rw [if_neg h0]
    by_cases h1 : 1075 ≤ x.expField
    · rw [ratio_normal_nonneg x h1, Nat.div_one]
      have : x.expField - 1 = (x.expField - 1075) + 1074 := by omega
      rw [this, Nat.pow_add, ← Nat.mul_assoc, Nat.mul_div_cancel _ (Nat.two_pow_pos 1074)]
    · rw [ratio_normal_neg x (by omega) (by omega)]
      have : (1074 : Nat) = (1075 - x.expField) + (x.expField - 1) := by omega
      rw [this, Nat.pow_add, Nat.mul_div_mul_right _ _ (Nat.two_pow_pos _)]

theorem mag_eq_fields (x : F64) : x.mag = x.expField * 2 ^ 52 + x.frac := by
  unfold mag expField frac
  omega

theorem expField_lt (x : F64) : x.expField < 2048 := Nat.mod_lt _ (by decide)

theorem scaledVal_mono {a b : F64} (h : a.mag ≤ b.mag) : a.scaledVal ≤ b.scaledVal := by
  rw [mag_eq_fields, mag_eq_fields] at h
  have hfa := frac_lt a
  have hfb := frac_lt b
  unfold scaledVal
  by_cases he : a.expField = b.expField
  · rw [he] at h ⊢
    have hf : a.frac ≤ b.frac := by omega
    split
    · exact hf
    · exact Nat.mul_le_mul_right _ (by omega)
  · have hlt : a.expField < b.expField := by omega
    have hb0 : ¬ b.expField = 0 := by omega
    rw [if_neg hb0]
    have hB : 2 ^ 52 * 2 ^ (b.expField - 1) ≤ (b.frac + 2 ^ 52) * 2 ^ (b.expField - 1) :=
      Nat.mul_le_mul_right _ (by omega)
    split
    · have : 1 ≤ 2 ^ (b.expField - 1) := Nat.two_pow_pos _
      calc a.frac ≤ 2 ^ 52 * 1 := by omega
        _ ≤ 2 ^ 52 * 2 ^ (b.expField - 1) := Nat.mul_le_mul_left _ this
        _ ≤ _ := hB
    · next ha0 =>
      have h1 : (a.frac + 2 ^ 52) * 2 ^ (a.expField - 1) ≤ 2 ^ 53 * 2 ^ (a.expField - 1) :=
        Nat.mul_le_mul_right _ (by omega)
      have h2 : 2 ^ 53 * 2 ^ (a.expField - 1) = 2 ^ 52 * 2 ^ a.expField := by
        rw [← Nat.pow_add, ← Nat.pow_add]; congr 1; omega
      have h3 : 2 ^ 52 * 2 ^ a.expField ≤ 2 ^ 52 * 2 ^ (b.expField - 1) :=
        Nat.mul_le_mul_left _ (Nat.pow_le_pow_right (by decide) (by omega))
      omega

theorem toU64_eq (x : F64) (hx : x.isNaN = false) :
    x.toU64 = if x.neg then 0 else if x.isInf then 2 ^ 64 - 1
      else min (x.scaledVal / 2 ^ 1074) (2 ^ 64 - 1) := by
  unfold toU64 truncInt
  simp only [hx, Bool.false_eq_true, if_false, ratio_div]
  generalize x.scaledVal / 2 ^ 1074 = q
  simp only [Int.ofNat_eq_natCast]
  cases x.neg <;> cases x.isInf <;> simp only [Bool.false_eq_true, if_false, if_true] <;>
    (try split) <;> (try split) <;> omega

theorem toU64_mono {a b : F64} (ha : a.isNaN = false) (hb : b.isNaN = false) (h : a.key ≤ b.key) :
    a.toU64 ≤ b.toU64 := by
  rw [toU64_eq a ha, toU64_eq b hb]
  cases hna : a.neg with
  | true => simp only [↓reduceIte]; exact Nat.zero_le _
  | false =>
    simp only [Bool.false_eq_true, if_false]
    have hka : a.key = a.mag := by simp [key, hna]
    have hfa := frac_lt a
    have hfb := frac_lt b
    have hea := expField_lt a
    have heb := expField_lt b
    have hma := mag_eq_fields a
    have hmb := mag_eq_fields b
    cases hnb : b.neg with
    | true =>
      have hkb : b.key = - (b.mag : Int) := by simp [key, hnb]
      have hm0 : a.mag = 0 := by omega
      have he0 : a.expField = 0 := by omega
      have hf0 : a.frac = 0 := by omega
      have hinf : a.isInf = false := by simp [isInf, he0]
      have hs : a.scaledVal = 0 := by simp [scaledVal, he0, hf0]
      simp only [hinf, hs, Bool.false_eq_true, if_false, Nat.zero_div, Nat.zero_min]
      exact Nat.zero_le _
    | false =>
      have hkb : b.key = b.mag := by simp [key, hnb]
      have hm : a.mag ≤ b.mag := by omega
      simp only [Bool.false_eq_true, if_false]
      cases hib : b.isInf with
      | true =>
        simp only [if_true]
        split
        · exact Nat.le_refl _
        · exact Nat.min_le_right _ _
      | false =>
        have hia : a.isInf = false := by
          cases hia : a.isInf with
          | false => rfl
          | true =>
            exfalso
            simp only [isInf, Bool.and_eq_true, decide_eq_true_eq] at hia
            have : b.expField = 2047 := by omega
            have hbf : b.frac ≠ 0 := by
              intro hz; simp [isInf, this, hz] at hib
            simp [isNaN, this, hbf] at hb
        simp only [hia, Bool.false_eq_true, if_false]
        have := Nat.div_le_div_right (c := 2 ^ 1074) (scaledVal_mono hm)
        omega


theorem fle_trans {a b c : F64} (h1 : fle a b = true) (h2 : fle b c = true) : fle a c = true := by
  rw [fle_iff] at *
  exact ⟨h1.1, h2.2.1, by omega⟩

/-- `k as f64` is a non-negative number (below 2^53, where the conversion is exact) -/
theorem fle_zero_ofNat (k : Nat) (hk : k < 2 ^ 53) : fle zero (ofNat k) = true := by
  by_cases hk0 : k = 0
  · subst hk0; rw [ofNat_zero]; decide
  · obtain ⟨j, m, hj, hm, hm1, hm2, hb⟩ := ofNat_bits k hk0 hk
    have hB : (1075 - j) * 2 ^ 52 + (m - 2 ^ 52) < 2 ^ 64 := by omega
    have hn : (ofNat k).nbits = (1075 - j) * 2 ^ 52 + (m - 2 ^ 52) := by
      rw [hb, nbits_ofNatBits _ hB]
    have hnan : (ofNat k).isNaN = false := by
      rw [isNaN_false_iff, hn]; omega
    have hkey : (0 : Int) ≤ (ofNat k).key := by
      rw [key_eq, hn]; split <;> omega
    have hz : zero.key = 0 := by decide
    rw [fle_iff]
    exact ⟨by decide, hnan, by omega⟩

end F64

end Blots
