import Blots.Model.JsonText
import Blots.Lemmas.Json
import Blots.Lemmas.Shortest17
/-
  Lemmas for the JSON text layer (C06): what `jsonWrite` writes, `jsonRead` reads back.

  * strings: every character the writer emits (escaped or verbatim) is read back as
    itself (`readStrBody_escChars`);
  * numbers: EVERY JSON number literal is read as the correct rounding of its exact value
    (`readNumber_lit`, on top of `parseDec_decimal_literal`); ryu's text of every finite
    double is such a literal and its exact value rounds back to the double
    (`ryuChars_shape`, from `shortestDigitsWith_value_all` with the ties-to-even rule, and
    the bound `shortest_exp_bounds` on the decimal exponent);
  * trees: `readValue_chars` by induction over the tree.
-/

namespace Blots.JsonText
open Blots Blots.F64

/-! ### white space -/

theorem skipWs_cons (c : Char) (r : List Char) (h : jsonIsWs c = false) :
    jsonSkipWs (c :: r) = c :: r := by
  simp [jsonSkipWs, h]

/-! ### strings -/

theorem hex4_low : ∀ n : Fin 32,
    jsonHex4 '0' '0' (hexDigit (n.val / 16)) (hexDigit (n.val % 16)) = some n.val := by
  decide

theorem consChar_some (c : Char) (s r : List Char) : consChar c (some (s, r)) = some (c :: s, r) := rfl

theorem readUnicode_low (c : Char) (h : c.toNat < 0x20) (r : List Char) :
    jsonReadUnicode ('0' :: '0' :: hexDigit (c.toNat / 16) :: hexDigit (c.toNat % 16) :: r) = some (c, r) := by
  have h4 := hex4_low ⟨c.toNat, h⟩
  simp only at h4
  have h1 : ¬ (0xDC00 ≤ c.toNat ∧ c.toNat ≤ 0xDFFF) := by omega
  have h2 : ¬ (0xD800 ≤ c.toNat ∧ c.toNat ≤ 0xDBFF) := by omega
  simp only [jsonReadUnicode, h4, h1, h2, if_false, Char.ofNat_toNat]

/-- one written character is read back as itself -/
theorem readStrBody_escChar (c : Char) (fuel : Nat) (r : List Char) :
    jsonReadStrBody (fuel + 1) (jsonEscChar c ++ r) = consChar c (jsonReadStrBody fuel r) := by
  unfold jsonEscChar
  split
  · next h => subst h; rfl
  split
  · next h => subst h; rfl
  split
  · next h => subst h; rfl
  split
  · next h => subst h; rfl
  split
  · next h => subst h; rfl
  split
  · next h => subst h; rfl
  split
  · next h => subst h; rfl
  split
  · next h1 h2 h3 h4 h5 h6 h7 h =>
    have e : jsonReadEscape ('u' :: '0' :: '0' :: hexDigit (c.toNat / 16) :: hexDigit (c.toNat % 16) :: r) =
        some (c, r) := by
      rw [← readUnicode_low c h r]; rfl
    show jsonReadStrBody (fuel + 1) ('\\' :: 'u' :: '0' :: '0' :: hexDigit (c.toNat / 16) ::
      hexDigit (c.toNat % 16) :: r) = _
    rw [jsonReadStrBody]
    simp only [e]
    rfl
  · next h1 h2 h3 h4 h5 h6 h7 h =>
    show jsonReadStrBody (fuel + 1) (c :: r) = _
    rw [jsonReadStrBody]
    simp only [h1, h2, h, if_false]

theorem length_escChars (cs : List Char) : cs.length ≤ (jsonEscChars cs).length := by
  induction cs with
  | nil => exact Nat.le_refl _
  | cons c t ih =>
    have h1 : 1 ≤ (jsonEscChar c).length := by
      unfold jsonEscChar
      repeat' split
      all_goals simp
    simp only [jsonEscChars, List.length_append, List.length_cons]
    omega

/-- a written string body is read back, whatever follows the closing quote -/
theorem readStrBody_escChars (cs rest : List Char) : ∀ fuel, cs.length < fuel →
    jsonReadStrBody fuel (jsonEscChars cs ++ '"' :: rest) = some (cs, rest) := by
  induction cs with
  | nil =>
    intro fuel hf
    obtain ⟨f, rfl⟩ : ∃ f, fuel = f + 1 := ⟨fuel - 1, by omega⟩
    simp [jsonEscChars, jsonReadStrBody]
  | cons c t ih =>
    intro fuel hf
    obtain ⟨f, rfl⟩ : ∃ f, fuel = f + 1 := ⟨fuel - 1, by omega⟩
    have hf' : t.length < f := by simp only [List.length_cons] at hf; omega
    rw [jsonEscChars, List.append_assoc, readStrBody_escChar, ih f hf']
    rfl

theorem readStr_strChars (s : String) (rest : List Char) (fuel : Nat)
    (hf : (jsonStrChars s).length ≤ fuel + 1) :
    jsonReadStr fuel (jsonEscChars s.toList ++ '"' :: rest) = some (s, rest) := by
  have hl := length_escChars s.toList
  have hf' : s.toList.length < fuel := by
    simp only [jsonStrChars, List.length_cons, List.length_append, List.length_nil] at hf
    omega
  unfold jsonReadStr
  rw [readStrBody_escChars s.toList rest fuel hf']
  simp only [String.ofList_toList]

/-! ### number tokens -/

/-- what may follow a number token: not a digit, point or exponent mark -/
def NumEnd (c : Char) : Prop := isDigit c = false ∧ c ≠ '.' ∧ c ≠ 'e' ∧ c ≠ 'E'

theorem headSat_append {p : Char → Prop} (a b : List Char) (ha : a ≠ [] → HeadSat p a)
    (hb : a = [] → HeadSat p b) : HeadSat p (a ++ b) := by
  cases a with
  | nil => exact hb rfl
  | cons c t => exact ha (by simp)

theorem numLeadOk_ne_nil {ip : List Char} (h : numLeadOk ip = true) : ip ≠ [] := by
  rintro rfl; simp [numLeadOk] at h

theorem numSign_of_head (cs : List Char) (h : HeadSat (fun c => c ≠ '-') cs) :
    numSign cs = ([], cs) := by
  unfold numSign
  split
  · exact absurd rfl h
  · rfl

theorem numExpSign_of_head (cs : List Char) (h : HeadSat (fun c => c ≠ '-' ∧ c ≠ '+') cs) :
    numExpSign cs = ([], cs) := by
  unfold numExpSign
  split
  · exact absurd rfl h.1
  · exact absurd rfl h.2
  · rfl

theorem numExpSign_sign (sg : List Char) (eneg : Bool) (cs : List Char) (hs : IsSign sg eneg)
    (h : HeadSat (fun c => c ≠ '-' ∧ c ≠ '+') cs) : numExpSign (sg ++ cs) = (sg, cs) := by
  rcases hs with ⟨rfl, _⟩ | ⟨rfl, _⟩ | ⟨rfl, _⟩
  · exact numExpSign_of_head cs h
  · rfl
  · rfl

theorem NumEnd.notDigit {r : List Char} (h : HeadSat NumEnd r) : HeadSat (fun c => isDigit c = false) r := by
  cases r with
  | nil => trivial
  | cons c t => exact h.1

theorem numExp_of_isExpText (bound : Nat) (ex : List Char) (ev : Int) (rest : List Char)
    (hex : IsExpText bound ex ev) (hrest : HeadSat NumEnd rest) :
    numExp (ex ++ rest) = some (ex, rest) := by
  cases hex with
  | absent =>
    cases rest with
    | nil => rfl
    | cons c t =>
      have hc : NumEnd c := hrest
      have : (decide (c = 'e') || decide (c = 'E')) = false := by
        simp [hc.2.2.1, hc.2.2.2]
      simp only [List.nil_append, numExp, this, Bool.false_eq_true, if_false]
  | present c sg eneg es hc hsg hne hes hb =>
    have hce : (decide (c = 'e') || decide (c = 'E')) = true := by
      rcases hc with rfl | rfl <;> decide
    have hhead : HeadSat (fun c => c ≠ '-' ∧ c ≠ '+') (es ++ rest) := by
      cases es with
      | nil => exact absurd rfl hne
      | cons a t => exact MantHead.notSign (Or.inl (hes a List.mem_cons_self))
    have hss : numExpSign (sg ++ es ++ rest) = (sg, es ++ rest) := by
      rw [List.append_assoc]; exact numExpSign_sign sg eneg _ hsg hhead
    have hsp := span_digits es rest hes (NumEnd.notDigit hrest)
    have hemp : es.isEmpty = false := by
      cases es with
      | nil => exact absurd rfl hne
      | cons a t => rfl
    show numExp (c :: (sg ++ es ++ rest)) = _
    simp only [numExp, hce, if_true, hss, hsp.1, hsp.2, hemp, Bool.false_eq_true, if_false]

theorem numFrac_fracText (dot : Bool) (fp r : List Char) (hfp : ∀ c ∈ fp, isDigit c = true)
    (hdot1 : dot = false → fp = []) (hdot2 : dot = true → fp ≠ [])
    (hr : HeadSat TailHead r) : numFrac (fracText dot fp ++ r) = some (fracText dot fp, r) := by
  have hr1 : HeadSat (fun c => isDigit c = false) r := by
    cases r with
    | nil => trivial
    | cons c t => exact hr.1
  cases dot with
  | false =>
    have : fp = [] := hdot1 rfl
    subst this
    simp only [fracText, Bool.false_eq_true, if_false, List.nil_append]
    unfold numFrac
    split
    · exact absurd rfl hr.2
    · rfl
  | true =>
    have hsp := span_digits fp r hfp hr1
    have hemp : fp.isEmpty = false := by
      cases fp with
      | nil => exact absurd rfl (hdot2 rfl)
      | cons a t => rfl
    show numFrac ('.' :: (fp ++ r)) = _
    simp only [numFrac, hsp.1, hsp.2, hemp, Bool.false_eq_true, if_false, fracText, if_true]

/-- EVERY JSON number literal `-? int frac? exp?` is read as the correct rounding of its exact
    value `± digits × 10 ^ (exponent − #fraction digits)`, if that is finite -/
theorem readNumber_lit (neg : Bool) (ip fp : List Char) (dot : Bool) (ex : List Char) (ev : Int)
    (rest : List Char)
    (hip : ∀ c ∈ ip, isDigit c = true) (hlead : numLeadOk ip = true)
    (hfp : ∀ c ∈ fp, isDigit c = true) (hdot1 : dot = false → fp = []) (hdot2 : dot = true → fp ≠ [])
    (hex : IsExpText (400 + ip.length + fp.length) ex ev) (hrest : HeadSat NumEnd rest) :
    jsonReadNumber ((if neg then ['-'] else []) ++ (ip ++ fracText dot fp ++ ex) ++ rest) =
      (if (decVal neg (digitsVal (ip ++ fp)) (ev - Int.ofNat fp.length)).isFinite
       then some (.num (decVal neg (digitsVal (ip ++ fp)) (ev - Int.ofNat fp.length)), rest)
       else none) := by
  have hipne := numLeadOk_ne_nil hlead
  have hrestTail : HeadSat TailHead rest := by
    cases rest with
    | nil => trivial
    | cons c t => exact ⟨hrest.1, hrest.2.1⟩
  -- the text after the fraction
  have hexTail : HeadSat TailHead (ex ++ rest) :=
    headSat_append ex rest (fun h => by
      have := hex.headSat
      cases ex with
      | nil => exact absurd rfl h
      | cons c t => exact this) (fun _ => hrestTail)
  -- the text after the integer part
  have hafter : HeadSat (fun c => isDigit c = false) (fracText dot fp ++ (ex ++ rest)) := by
    cases dot with
    | true => show isDigit '.' = false; decide
    | false =>
      simp only [fracText, Bool.false_eq_true, if_false, List.nil_append]
      cases h : ex ++ rest with
      | nil => trivial
      | cons c t => rw [h] at hexTail; exact hexTail.1
  have hsign : numSign ((if neg then ['-'] else []) ++ (ip ++ fracText dot fp ++ ex) ++ rest) =
      ((if neg then ['-'] else []), ip ++ (fracText dot fp ++ (ex ++ rest))) := by
    cases neg with
    | true => simp [numSign]
    | false =>
      simp only [Bool.false_eq_true, if_false, List.nil_append, List.append_assoc]
      apply numSign_of_head
      cases ip with
      | nil => exact absurd rfl hipne
      | cons a t =>
        exact (MantHead.notSign (Or.inl (hip a List.mem_cons_self))).1
  have hsp := span_digits ip (fracText dot fp ++ (ex ++ rest)) hip hafter
  have hfr := numFrac_fracText dot fp (ex ++ rest) hfp hdot1 hdot2 hexTail
  have hxp := numExp_of_isExpText _ ex ev rest hex hrest
  have hpd := parseDec_decimal_literal (if neg then ['-'] else []) neg ip fp dot ex ev (isSign_ite neg)
    hip hfp (by intro h; exact hipne (List.append_eq_nil_iff.1 h).1) hdot1 hex
  unfold jsonReadNumber
  simp only [hsign, hsp.1, hsp.2, hlead, if_true, hfr, hxp, hpd]

/-! ### digit strings without a leading zero -/

/-- the text starts with a character other than `0` -/
def HeadNZ (l : List Char) : Prop := ∃ c t, l = c :: t ∧ c ≠ '0'

theorem digitChar_ne_zero : ∀ n : Fin 10, n.val ≠ 0 → Nat.digitChar n.val ≠ '0' := by decide

theorem HeadNZ.append {a : List Char} (h : HeadNZ a) (b : List Char) : HeadNZ (a ++ b) := by
  obtain ⟨c, t, rfl, hc⟩ := h
  exact ⟨c, t ++ b, rfl, hc⟩

theorem HeadNZ.take {a : List Char} (h : HeadNZ a) (k : Nat) (hk : 0 < k) : HeadNZ (a.take k) := by
  obtain ⟨c, t, rfl, hc⟩ := h
  obtain ⟨j, rfl⟩ : ∃ j, k = j + 1 := ⟨k - 1, by omega⟩
  exact ⟨c, t.take j, rfl, hc⟩

theorem HeadNZ.leadOk {a : List Char} (h : HeadNZ a) : numLeadOk a = true := by
  obtain ⟨c, t, rfl, hc⟩ := h
  unfold numLeadOk
  split
  · simp_all
  · rfl
  · next c' _ h2 =>
    simp only [List.cons.injEq] at h2
    simp [← h2.1, hc]

theorem toDigits_headNZ (n : Nat) (hn : n ≠ 0) : HeadNZ (Nat.toDigits 10 n) := by
  induction n using Nat.strongRecOn with
  | _ n ih =>
    rw [Nat.toDigits_eq_if (by decide)]
    split
    · next hlt => exact ⟨_, [], rfl, digitChar_ne_zero ⟨n, hlt⟩ hn⟩
    · next hge => exact (ih (n / 10) (by omega) (by omega)).append _

theorem natDigits_headNZ (n : Nat) (hn : n ≠ 0) : HeadNZ (natDigits n).toList := by
  rw [natDigits_toList]; exact toDigits_headNZ n hn

/-! ### the exponent of the shortest digits is small -/

theorem strip_exp : ∀ (fuel d : Nat) (e : Int),
    e ≤ (shortestDigitsWith.strip d e fuel).2 ∧ (shortestDigitsWith.strip d e fuel).2 ≤ e + fuel
  | 0, d, e => ⟨Int.le_refl _, by simp [shortestDigitsWith.strip]⟩
  | fuel + 1, d, e => by
    rw [shortestDigitsWith.strip.eq_2]
    split
    · have := strip_exp fuel (d / 10) (e + 1)
      constructor
      · omega
      · have h2 := this.2; push_cast; omega
    · exact ⟨Int.le_refl _, by push_cast; omega⟩

theorem go_exp (tieUp : Bool) (num den : Nat) (ax : F64) (k : Int) : ∀ (fuel n : Nat),
    (shortestDigitsWith.go tieUp num den ax k n fuel).2 = 0 ∨
      (k - (n + fuel : Nat) + 1 < (shortestDigitsWith.go tieUp num den ax k n fuel).2 ∧
        (shortestDigitsWith.go tieUp num den ax k n fuel).2 ≤ k - (n : Nat) + 1)
  | 0, n => Or.inl rfl
  | fuel + 1, n => by
    rw [go_succ]
    split
    · right
      simp only [Int.ofNat_eq_natCast]
      constructor
      · push_cast; omega
      · omega
    · rcases go_exp tieUp num den ax k fuel (n + 1) with h | h
      · exact Or.inl h
      · right
        constructor
        · have := h.1; push_cast at this ⊢; omega
        · have := h.2; push_cast at this ⊢; omega

theorem shortestK_near (num den : Nat) :
    S17.estK num den - 1 ≤ shortestK num den ∧ shortestK num den ≤ S17.estK num den + 2 := by
  have hk : shortestK num den =
      (let k0 := S17.estK num den - 1
       let k1 := if S17.ge10 num den (k0 + 1) then k0 + 1 else k0
       let k2 := if S17.ge10 num den (k1 + 1) then k1 + 1 else k1
       if S17.ge10 num den (k2 + 1) then k2 + 1 else k2) := rfl
  rw [hk]
  simp only []
  repeat' split
  all_goals omega

open S17 in
theorem shortestK_range (x : F64) (hf : x.isFinite = true) (hz : x.isZero = false) :
    -330 ≤ shortestK x.ratio.1 x.ratio.2 ∧ shortestK x.ratio.1 x.ratio.2 ≤ 320 := by
  have hn := ratio_fst_ne_zero x hf hz
  have hdp := ratio_snd_pos x
  have hd : x.ratio.2 ≠ 0 := by omega
  obtain ⟨r1, r2⟩ := ratio_range x hf hz
  obtain ⟨l1, l2⟩ := log2_bounds _ _ hn hd
  generalize hL : (x.ratio.1.log2 : ℤ) - (x.ratio.2.log2 : ℤ) = L at l1 l2
  have hL1 : L - 1 < 1024 :=
    (zpow_lt_zpow_iff_right₀ (by norm_num : (1:ℚ) < 2)).1 (lt_trans l1 r2)
  have hL2 : -1074 < L + 1 :=
    (zpow_lt_zpow_iff_right₀ (by norm_num : (1:ℚ) < 2)).1 (lt_of_le_of_lt r1 l2)
  have hest : estK x.ratio.1 x.ratio.2 = L * 30103 / 100000 := by
    unfold estK
    simp only [Int.ofNat_eq_natCast, hL]
  have hnear := shortestK_near x.ratio.1 x.ratio.2
  rw [hest] at hnear
  omega

theorem shortest_exp_bounds (tieUp : Bool) (x : F64) (hf : x.isFinite = true) (hz : x.isZero = false) :
    -400 ≤ (x.shortestDigitsWith tieUp).2 ∧ (x.shortestDigitsWith tieUp).2 ≤ 400 := by
  have hk := shortestK_range x hf hz
  rw [shortestDigitsWith_eq]
  have hs := strip_exp 20 (shortestRaw tieUp x).1 (shortestRaw tieUp x).2
  have hg := go_exp tieUp x.ratio.1 x.ratio.2 x.abs (shortestK x.ratio.1 x.ratio.2) 18 1
  change (shortestRaw tieUp x).2 = 0 ∨ _ at hg
  rcases hg with h | h
  · rw [h] at hs ⊢; omega
  · have h1 := h.1; have h2 := h.2
    change _ < (shortestRaw tieUp x).2 at h1
    change (shortestRaw tieUp x).2 ≤ _ at h2
    push_cast at h1 h2 hs
    omega

/-! ### the shape of ryu's text -/

/-- `ryuChars` after the sign, on the digit string and exponent -/
def ryuBody (ds : List Char) (e : Int) : List Char :=
  if 0 ≤ e ∧ Int.ofNat ds.length + e ≤ 16 then ds ++ List.replicate e.toNat '0' ++ ['.', '0']
  else if 0 < Int.ofNat ds.length + e ∧ Int.ofNat ds.length + e ≤ 16 then
    ds.take (Int.ofNat ds.length + e).toNat ++ '.' :: ds.drop (Int.ofNat ds.length + e).toNat
  else if -5 < Int.ofNat ds.length + e ∧ Int.ofNat ds.length + e ≤ 0 then
    '0' :: '.' :: (List.replicate (-(Int.ofNat ds.length + e)).toNat '0' ++ ds)
  else if ds.length = 1 then ds ++ 'e' :: ryuExpChars (Int.ofNat ds.length + e - 1)
  else ds.take 1 ++ '.' :: (ds.drop 1 ++ 'e' :: ryuExpChars (Int.ofNat ds.length + e - 1))

theorem ryuChars_eq (x : F64) :
    ryuChars x = (if x.neg then ['-'] else []) ++
      (if x.isZero then ['0', '.', '0']
       else ryuBody (natDigits (x.shortestDigitsWith false).1).toList (x.shortestDigitsWith false).2) := by
  unfold ryuChars ryuBody
  simp only []
  split
  · rfl
  · repeat' split
    all_goals rfl

theorem isExpText_ryu (bound : Nat) (v : Int) (hb : v.natAbs ≤ bound) :
    IsExpText bound ('e' :: ryuExpChars v) v := by
  have hes := natDigits_all_isDigit v.natAbs
  have hne := natDigits_toList_ne_nil v.natAbs
  have hv := digitsVal_natDigits v.natAbs
  by_cases hneg : v < 0
  · have h := IsExpText.present (bound := bound) 'e' ['-'] true (natDigits v.natAbs).toList (Or.inl rfl)
      (Or.inr (Or.inr ⟨rfl, rfl⟩)) hne hes (by rw [hv]; exact hb)
    rw [hv] at h
    have e1 : (if true = true then - Int.ofNat v.natAbs else Int.ofNat v.natAbs) = v := by
      simp only [if_true, Int.ofNat_eq_natCast]; omega
    rw [e1] at h
    simpa [ryuExpChars, hneg] using h
  · have h := IsExpText.present (bound := bound) 'e' [] false (natDigits v.natAbs).toList (Or.inl rfl)
      (Or.inl ⟨rfl, rfl⟩) hne hes (by rw [hv]; exact hb)
    rw [hv] at h
    have e1 : (if false = true then - Int.ofNat v.natAbs else Int.ofNat v.natAbs) = v := by
      simp only [Bool.false_eq_true, if_false, Int.ofNat_eq_natCast]; omega
    rw [e1] at h
    simpa [ryuExpChars, hneg] using h

/-- the five layouts of ryu are JSON number literals whose exact value is `digits × 10^e` -/
theorem ryuBody_shape (ds : List Char) (e : Int) (hds : ∀ c ∈ ds, isDigit c = true) (hnz : HeadNZ ds)
    (he1 : -400 ≤ e) (he2 : e ≤ 400) :
    ∃ (ip fp : List Char) (dot : Bool) (ex : List Char) (ev : Int),
      ryuBody ds e = ip ++ fracText dot fp ++ ex ∧
      (∀ c ∈ ip, isDigit c = true) ∧ numLeadOk ip = true ∧ (∀ c ∈ fp, isDigit c = true) ∧
      (dot = false → fp = []) ∧ (dot = true → fp ≠ []) ∧
      IsExpText (400 + ip.length + fp.length) ex ev ∧
      ∀ neg, decVal neg (digitsVal (ip ++ fp)) (ev - Int.ofNat fp.length) = decVal neg (digitsVal ds) e := by
  have hlen : 0 < ds.length := by
    obtain ⟨c, t, rfl, _⟩ := hnz; simp
  unfold ryuBody
  split
  · next h =>
    -- digits, zeros, ".0"
    refine ⟨ds ++ List.replicate e.toNat '0', ['0'], true, [], 0, by simp [fracText], ?_, (hnz.append _).leadOk,
      by decide, by simp, by simp, IsExpText.absent, ?_⟩
    · intro c hc
      rcases List.mem_append.1 hc with h | h
      · exact hds c h
      · exact all_isDigit_replicate_zero _ c h
    · intro neg
      have hv : digitsVal (ds ++ List.replicate e.toNat '0' ++ ['0']) = digitsVal ds * 10 ^ e.toNat * 10 := by
        rw [digitsVal_append, digitsVal_append_zeros]; rfl
      have he : e = Int.ofNat e.toNat := by simp only [Int.ofNat_eq_natCast]; omega
      rw [hv, show ((0 : Int) - Int.ofNat ['0'].length) = -1 from rfl, decVal_mul_ten,
        show (-1 : Int) + 1 = 0 from rfl, decVal_zero]
      conv => rhs; rw [he, decVal_nonneg]
  split
  · next h0 h =>
    -- digits with a point inside
    have hk1 : 0 < (Int.ofNat ds.length + e).toNat := by omega
    have hk2 : (Int.ofNat ds.length + e).toNat < ds.length := by
      simp only [Int.ofNat_eq_natCast] at h0 h ⊢; omega
    refine ⟨ds.take (Int.ofNat ds.length + e).toNat, ds.drop (Int.ofNat ds.length + e).toNat, true, [], 0,
      by simp [fracText], fun c hc => hds c (List.mem_of_mem_take hc), (hnz.take _ hk1).leadOk,
      fun c hc => hds c (List.mem_of_mem_drop hc), by simp, ?_, IsExpText.absent, ?_⟩
    · intro _ hnil
      have := congrArg List.length hnil
      rw [List.length_drop] at this
      simp only [List.length_nil] at this
      omega
    · intro neg
      rw [List.take_append_drop, List.length_drop]
      congr 1
      simp only [Int.ofNat_eq_natCast] at h0 h ⊢
      omega
  split
  · next h0 h1 h =>
    -- "0." zeros digits
    refine ⟨['0'], List.replicate (-(Int.ofNat ds.length + e)).toNat '0' ++ ds, true, [], 0,
      by simp [fracText], by decide, rfl, ?_, by simp, ?_, IsExpText.absent, ?_⟩
    · intro c hc
      rcases List.mem_append.1 hc with h | h
      · exact all_isDigit_replicate_zero _ c h
      · exact hds c h
    · intro _ hnil
      have := (List.append_eq_nil_iff.1 hnil).2
      subst this
      simp at hlen
    · intro neg
      have hv : digitsVal (['0'] ++ (List.replicate (-(Int.ofNat ds.length + e)).toNat '0' ++ ds)) =
          digitsVal ds := by
        rw [digitsVal_append, digitsVal_zeros_append, show digitsVal ['0'] = 0 from rfl,
          Nat.zero_mul, Nat.zero_add]
      rw [hv, List.length_append, List.length_replicate]
      congr 1
      simp only [Int.ofNat_eq_natCast] at h ⊢
      omega
  split
  · next h0 h1 h2 h =>
    -- one digit and an exponent
    refine ⟨ds, [], false, 'e' :: ryuExpChars (Int.ofNat ds.length + e - 1), Int.ofNat ds.length + e - 1,
      by simp [fracText], hds, hnz.leadOk, by simp, by simp, by simp, ?_, ?_⟩
    · apply isExpText_ryu
      simp only [Int.ofNat_eq_natCast, List.length_nil]
      omega
    · intro neg
      rw [List.append_nil]
      congr 1
      simp only [Int.ofNat_eq_natCast, List.length_nil, h]
      omega
  · next h0 h1 h2 h =>
    -- d.ddd and an exponent
    have hl2 : 2 ≤ ds.length := by omega
    refine ⟨ds.take 1, ds.drop 1, true, 'e' :: ryuExpChars (Int.ofNat ds.length + e - 1),
      Int.ofNat ds.length + e - 1, by simp [fracText], fun c hc => hds c (List.mem_of_mem_take hc),
      (hnz.take 1 (by decide)).leadOk, fun c hc => hds c (List.mem_of_mem_drop hc), by simp, ?_, ?_, ?_⟩
    · intro _ hnil
      have := congrArg List.length hnil
      rw [List.length_drop] at this
      simp only [List.length_nil] at this
      omega
    · apply isExpText_ryu
      simp only [Int.ofNat_eq_natCast, List.length_take, List.length_drop]
      omega
    · intro neg
      rw [List.take_append_drop, List.length_drop]
      congr 1
      simp only [Int.ofNat_eq_natCast]
      omega

/-- ryu's text of every finite double is a JSON number literal whose exact value rounds to
    that double -/
theorem ryuChars_shape (x : F64) (hf : x.isFinite = true) :
    ∃ (ip fp : List Char) (dot : Bool) (ex : List Char) (ev : Int),
      ryuChars x = (if x.neg then ['-'] else []) ++ (ip ++ fracText dot fp ++ ex) ∧
      (∀ c ∈ ip, isDigit c = true) ∧ numLeadOk ip = true ∧ (∀ c ∈ fp, isDigit c = true) ∧
      (dot = false → fp = []) ∧ (dot = true → fp ≠ []) ∧
      IsExpText (400 + ip.length + fp.length) ex ev ∧
      decVal x.neg (digitsVal (ip ++ fp)) (ev - Int.ofNat fp.length) = x := by
  rw [ryuChars_eq]
  cases hz : x.isZero with
  | true =>
    refine ⟨['0'], ['0'], true, [], 0, by simp [fracText], by decide, rfl, by decide, by simp, by simp,
      IsExpText.absent, ?_⟩
    have h := decVal_neg x.neg 0 1 (by decide)
    have e1 : ((0 : Int) - Int.ofNat ['0'].length) = - Int.ofNat 1 := rfl
    have e2 : digitsVal (['0'] ++ ['0']) = 0 := by decide
    rw [e1, e2, h, ofRatio_zero]
    exact (eq_signed_zero_of_isZero x hz).symm
  | false =>
    have hd : (x.shortestDigitsWith false).1 ≠ 0 := shortest_always_found false x hf hz
    have hval := decVal_sign _ _ x (shortestDigitsWith_value_all false x hf hz)
    obtain ⟨he1, he2⟩ := shortest_exp_bounds false x hf hz
    obtain ⟨ip, fp, dot, ex, ev, h1, h2, h3, h4, h5, h6, h7, h8⟩ :=
      ryuBody_shape (natDigits (x.shortestDigitsWith false).1).toList (x.shortestDigitsWith false).2
        (natDigits_all_isDigit _) (natDigits_headNZ _ hd) he1 he2
    refine ⟨ip, fp, dot, ex, ev, ?_, h2, h3, h4, h5, h6, h7, ?_⟩
    · simp only [Bool.false_eq_true, if_false, h1]
    · rw [h8 x.neg, digitsVal_natDigits]; exact hval

/-- ryu's text of a finite double reads back, under correct rounding, as that double -/
theorem parseDec_ryu (x : F64) (hf : x.isFinite = true) :
    parseDec (String.ofList (ryuChars x)) = some x := by
  obtain ⟨ip, fp, dot, ex, ev, h1, h2, h3, h4, h5, h6, h7, h8⟩ := ryuChars_shape x hf
  rw [h1, parseDec_decimal_literal _ x.neg ip fp dot ex ev (isSign_ite _) h2 h4
    (by intro h; exact numLeadOk_ne_nil h3 (List.append_eq_nil_iff.1 h).1) h5 h7, h8]

/-- … and so does the reader's number rule, whatever non-number text follows -/
theorem readNumber_ryu (x : F64) (hf : x.isFinite = true) (rest : List Char)
    (hrest : HeadSat NumEnd rest) : jsonReadNumber (ryuChars x ++ rest) = some (.num x, rest) := by
  obtain ⟨ip, fp, dot, ex, ev, h1, h2, h3, h4, h5, h6, h7, h8⟩ := ryuChars_shape x hf
  rw [h1, readNumber_lit x.neg ip fp dot ex ev rest h2 h3 h4 h5 h6 h7 hrest, h8, if_pos hf]

/-- a number text starts with `-` or a digit -/
theorem ryuChars_head (x : F64) (hf : x.isFinite = true) :
    ∃ c t, ryuChars x = c :: t ∧ (c = '-' ∨ isDigit c = true) := by
  obtain ⟨ip, fp, dot, ex, ev, h1, h2, h3, h4, h5, h6, h7, h8⟩ := ryuChars_shape x hf
  rw [h1]
  cases x.neg with
  | true => exact ⟨'-', _, rfl, Or.inl rfl⟩
  | false =>
    cases ip with
    | nil => exact absurd rfl (numLeadOk_ne_nil h3)
    | cons a t => exact ⟨a, _, rfl, Or.inr (h2 a List.mem_cons_self)⟩

/-! ### trees -/

/-- what follows a value inside the writer's output -/
def Sep (c : Char) : Prop := c = ',' ∨ c = ']' ∨ c = '}'

theorem Sep.numEnd {r : List Char} (h : HeadSat Sep r) : HeadSat NumEnd r := by
  cases r with
  | nil => trivial
  | cons c t =>
    have hc : Sep c := h
    rcases hc with rfl | rfl | rfl <;> exact ⟨by decide, by decide, by decide, by decide⟩

/-- the first character of a value -/
def ValStart (c : Char) : Prop :=
  c = 'n' ∨ c = 't' ∨ c = 'f' ∨ c = '"' ∨ c = '[' ∨ c = '{' ∨ c = '-' ∨ isDigit c = true

theorem ValStart.notWs {c : Char} (h : ValStart c) : jsonIsWs c = false := by
  rcases h with rfl | rfl | rfl | rfl | rfl | rfl | rfl | h
  any_goals decide
  have := (isDigit_iff c).1 h
  have h1 : c ≠ ' ' := by rintro rfl; revert this; decide
  have h2 : c ≠ '\n' := by rintro rfl; revert this; decide
  have h3 : c ≠ '\t' := by rintro rfl; revert this; decide
  have h4 : c ≠ '\r' := by rintro rfl; revert this; decide
  simp [jsonIsWs, h1, h2, h3, h4]

theorem ValStart.notClose {c : Char} (h : ValStart c) : c ≠ ']' ∧ c ≠ '}' := by
  rcases h with rfl | rfl | rfl | rfl | rfl | rfl | rfl | h
  any_goals (constructor <;> decide)
  have := (isDigit_iff c).1 h
  constructor
  · rintro rfl; revert this; decide
  · rintro rfl; revert this; decide

theorem chars_head (j : Json) (hf : j.finite = true) : ∃ c t, j.chars = c :: t ∧ ValStart c := by
  cases j with
  | null => exact ⟨'n', _, rfl, Or.inl rfl⟩
  | bool b => cases b
              · exact ⟨'f', _, rfl, Or.inr (Or.inr (Or.inl rfl))⟩
              · exact ⟨'t', _, rfl, Or.inr (Or.inl rfl)⟩
  | num x =>
    have hx : x.isFinite = true := by simpa [Json.finite] using hf
    obtain ⟨c, t, h1, h2⟩ := ryuChars_head x hx
    refine ⟨c, t, by simp [Json.chars, h1], ?_⟩
    rcases h2 with h | h
    · exact Or.inr (Or.inr (Or.inr (Or.inr (Or.inr (Or.inr (Or.inl h))))))
    · exact Or.inr (Or.inr (Or.inr (Or.inr (Or.inr (Or.inr (Or.inr h))))))
  | str s => exact ⟨'"', _, rfl, Or.inr (Or.inr (Or.inr (Or.inl rfl)))⟩
  | arr xs =>
    cases xs with
    | nil => exact ⟨'[', _, rfl, Or.inr (Or.inr (Or.inr (Or.inr (Or.inl rfl))))⟩
    | cons x xs =>
      exact ⟨'[', x.chars ++ Json.restChars xs, by rw [Json.chars],
        Or.inr (Or.inr (Or.inr (Or.inr (Or.inl rfl))))⟩
  | obj ms =>
    cases ms with
    | nil => exact ⟨'{', _, rfl, Or.inr (Or.inr (Or.inr (Or.inr (Or.inr (Or.inl rfl)))))⟩
    | cons kv ms =>
      obtain ⟨k, v⟩ := kv
      exact ⟨'{', jsonStrChars k ++ ':' :: (v.chars ++ Json.restMembers ms), by rw [Json.chars],
        Or.inr (Or.inr (Or.inr (Or.inr (Or.inr (Or.inl rfl)))))⟩

/-- the written text of `j`, followed by anything that starts with a separator, is read
    back as `j` by the value rule, with any fuel ≥ twice its length and any depth allowance
    above its nesting depth -/
def ReadsBack (j : Json) : Prop :=
  ∀ fuel depth rest, j.depth < depth → 2 * j.chars.length ≤ fuel → HeadSat Sep rest →
    jsonReadValue fuel depth (j.chars ++ rest) = some (j, rest)

theorem skipWs_sep (r : List Char) (h : HeadSat Sep r) : jsonSkipWs r = r := by
  cases r with
  | nil => rfl
  | cons c t =>
    have hc : Sep c := h
    apply skipWs_cons
    rcases hc with rfl | rfl | rfl <;> decide

theorem depthList_le : ∀ (xs : List Json) (x : Json), x ∈ xs → x.depth ≤ Json.depthList xs
  | y :: ys, x, h => by
    simp only [Json.depthList]
    rcases List.mem_cons.1 h with rfl | h
    · omega
    · have := depthList_le ys x h; omega

theorem depthMembers_le : ∀ (ms : List (String × Json)) (kv : String × Json), kv ∈ ms →
    kv.2.depth ≤ Json.depthMembers ms
  | (k, v) :: ms, kv, h => by
    simp only [Json.depthMembers]
    rcases List.mem_cons.1 h with rfl | h
    · simp only []; omega
    · have := depthMembers_le ms kv h; omega

theorem readsBack_null : ReadsBack .null := by
  intro fuel depth rest _ hfuel _
  obtain ⟨f, rfl⟩ : ∃ f, fuel = f + 1 := ⟨fuel - 1, by simp [Json.chars] at hfuel; omega⟩
  rfl

theorem readsBack_bool (b : Bool) : ReadsBack (.bool b) := by
  intro fuel depth rest _ hfuel _
  obtain ⟨f, rfl⟩ : ∃ f, fuel = f + 1 := ⟨fuel - 1, by cases b <;> simp [Json.chars] at hfuel <;> omega⟩
  cases b <;> rfl

theorem readsBack_str (s : String) : ReadsBack (.str s) := by
  intro fuel depth rest _ hfuel _
  have hl : 2 ≤ (jsonStrChars s).length := by simp [jsonStrChars]
  simp only [Json.chars] at hfuel
  obtain ⟨f, rfl⟩ : ∃ f, fuel = f + 1 := ⟨fuel - 1, by omega⟩
  have h := readStr_strChars s rest f (by omega)
  have e : (Json.str s).chars ++ rest = '"' :: (jsonEscChars s.toList ++ '"' :: rest) := by
    simp [Json.chars, jsonStrChars]
  rw [e, jsonReadValue]
  simp only [skipWs_cons '"' _ (by decide), h]
  rfl

theorem readsBack_num (x : F64) (hx : x.isFinite = true) : ReadsBack (.num x) := by
  intro fuel depth rest _ hfuel hrest
  obtain ⟨c, t, hct, hc⟩ := ryuChars_head x hx
  have hvs : ValStart c := by
    rcases hc with h | h
    · exact Or.inr (Or.inr (Or.inr (Or.inr (Or.inr (Or.inr (Or.inl h))))))
    · exact Or.inr (Or.inr (Or.inr (Or.inr (Or.inr (Or.inr (Or.inr h))))))
  simp only [Json.chars] at hfuel ⊢
  obtain ⟨f, rfl⟩ : ∃ f, fuel = f + 1 := ⟨fuel - 1, by rw [hct] at hfuel; simp at hfuel; omega⟩
  have hnum := readNumber_ryu x hx rest (Sep.numEnd hrest)
  rw [hct] at hnum ⊢
  have hd : ∀ d : Char, isDigit d = false → c = '-' ∨ isDigit c = true → d ≠ '-' → c ≠ d := by
    intro d hd h hm hcd
    subst hcd
    rcases h with h | h
    · exact hm h
    · rw [h] at hd; cases hd
  have n1 := hd 'n' (by decide) hc (by decide)
  have n2 := hd 't' (by decide) hc (by decide)
  have n3 := hd 'f' (by decide) hc (by decide)
  have n4 := hd '"' (by decide) hc (by decide)
  have n5 := hd '[' (by decide) hc (by decide)
  have n6 := hd '{' (by decide) hc (by decide)
  rw [List.cons_append, jsonReadValue]
  simp only [skipWs_cons c _ hvs.notWs, n1, n2, n3, n4, n5, n6, if_false]
  exact hnum

theorem restChars_sep (xs : List Json) (rest : List Char) : HeadSat Sep (Json.restChars xs ++ rest) := by
  cases xs with
  | nil => exact Or.inr (Or.inl rfl)
  | cons y ys => rw [Json.restChars]; exact Or.inl rfl

theorem restMembers_sep (ms : List (String × Json)) (rest : List Char) :
    HeadSat Sep (Json.restMembers ms ++ rest) := by
  cases ms with
  | nil => exact Or.inr (Or.inr rfl)
  | cons kv ms => obtain ⟨k, v⟩ := kv; rw [Json.restMembers]; exact Or.inl rfl

/-- the element rule reads back a written element list -/
theorem readElems_chars : ∀ (xs : List Json) (x : Json), ReadsBack x → (∀ y ∈ xs, ReadsBack y) →
    ∀ fuel depth rest, x.depth < depth → (∀ y ∈ xs, y.depth < depth) →
      2 * (x.chars ++ Json.restChars xs).length + 1 ≤ fuel →
      jsonReadElems fuel depth (x.chars ++ Json.restChars xs ++ rest) = some (x :: xs, rest)
  | [], x, hx, _, fuel, depth, rest, hd, _, hfuel => by
    obtain ⟨f, rfl⟩ : ∃ f, fuel = f + 1 := ⟨fuel - 1, by omega⟩
    simp only [Json.restChars, List.length_append, List.length_cons, List.length_nil] at hfuel
    have h := hx f depth (']' :: rest) hd (by omega) (Or.inr (Or.inl rfl))
    rw [Json.restChars, List.append_assoc, List.singleton_append, jsonReadElems, h]
    simp only [skipWs_cons ']' rest (by decide)]
  | y :: ys, x, hx, hys, fuel, depth, rest, hd, hds, hfuel => by
    obtain ⟨f, rfl⟩ : ∃ f, fuel = f + 1 := ⟨fuel - 1, by omega⟩
    simp only [Json.restChars, List.length_append, List.length_cons] at hfuel
    have h := hx f depth (',' :: (y.chars ++ Json.restChars ys ++ rest)) hd (by omega) (Or.inl rfl)
    have ih := readElems_chars ys y (hys y List.mem_cons_self)
      (fun z hz => hys z (List.mem_cons_of_mem _ hz)) f depth rest (hds y List.mem_cons_self)
      (fun z hz => hds z (List.mem_cons_of_mem _ hz))
      (by simp only [List.length_append]; omega)
    have e : x.chars ++ Json.restChars (y :: ys) ++ rest =
        x.chars ++ ',' :: (y.chars ++ Json.restChars ys ++ rest) := by
      simp [Json.restChars]
    rw [e, jsonReadElems, h]
    simp only [skipWs_cons ',' _ (by decide), ih]

/-- the member rule reads back a written member list -/
theorem readMembers_chars : ∀ (ms : List (String × Json)) (k : String) (v : Json), ReadsBack v →
    (∀ kv ∈ ms, ReadsBack kv.2) →
    ∀ fuel depth rest, v.depth < depth → (∀ kv ∈ ms, kv.2.depth < depth) →
      2 * (jsonStrChars k ++ ':' :: (v.chars ++ Json.restMembers ms)).length + 1 ≤ fuel →
      jsonReadMembers fuel depth (jsonStrChars k ++ ':' :: (v.chars ++ Json.restMembers ms) ++ rest) =
        some ((k, v) :: ms, rest)
  | [], k, v, hv, _, fuel, depth, rest, hd, _, hfuel => by
    obtain ⟨f, rfl⟩ : ∃ f, fuel = f + 1 := ⟨fuel - 1, by omega⟩
    simp only [Json.restMembers, List.length_append, List.length_cons, List.length_nil] at hfuel
    have hk := readStr_strChars k (':' :: (v.chars ++ '}' :: rest)) f (by omega)
    have h := hv f depth ('}' :: rest) hd (by omega) (Or.inr (Or.inr rfl))
    have e : jsonStrChars k ++ ':' :: (v.chars ++ Json.restMembers []) ++ rest =
        '"' :: (jsonEscChars k.toList ++ '"' :: ':' :: (v.chars ++ '}' :: rest)) := by
      simp [Json.restMembers, jsonStrChars]
    rw [e, jsonReadMembers]
    simp only [skipWs_cons '"' _ (by decide), hk, skipWs_cons ':' _ (by decide), h,
      skipWs_cons '}' _ (by decide)]
  | (k', v') :: ms, k, v, hv, hms, fuel, depth, rest, hd, hds, hfuel => by
    obtain ⟨f, rfl⟩ : ∃ f, fuel = f + 1 := ⟨fuel - 1, by omega⟩
    simp only [Json.restMembers, List.length_append, List.length_cons] at hfuel
    have hk := readStr_strChars k
      (':' :: (v.chars ++ ',' :: (jsonStrChars k' ++ ':' :: (v'.chars ++ Json.restMembers ms) ++ rest))) f
      (by omega)
    have h := hv f depth (',' :: (jsonStrChars k' ++ ':' :: (v'.chars ++ Json.restMembers ms) ++ rest)) hd
      (by omega) (Or.inl rfl)
    have ih := readMembers_chars ms k' v' (hms (k', v') List.mem_cons_self)
      (fun z hz => hms z (List.mem_cons_of_mem _ hz)) f depth rest (hds (k', v') List.mem_cons_self)
      (fun z hz => hds z (List.mem_cons_of_mem _ hz))
      (by simp only [List.length_append, List.length_cons]; omega)
    have e : jsonStrChars k ++ ':' :: (v.chars ++ Json.restMembers ((k', v') :: ms)) ++ rest =
        '"' :: (jsonEscChars k.toList ++ '"' :: ':' :: (v.chars ++ ',' ::
          (jsonStrChars k' ++ ':' :: (v'.chars ++ Json.restMembers ms) ++ rest))) := by
      simp [Json.restMembers, jsonStrChars]
    rw [e, jsonReadMembers]
    simp only [skipWs_cons '"' _ (by decide), hk, skipWs_cons ':' _ (by decide), h,
      skipWs_cons ',' _ (by decide), ih]

theorem readsBack_arr (xs : List Json) (hfin : ∀ x ∈ xs, x.finite = true) (h : ∀ x ∈ xs, ReadsBack x) :
    ReadsBack (.arr xs) := by
  intro fuel depth rest hd hfuel _
  cases xs with
  | nil =>
    obtain ⟨f, rfl⟩ : ∃ f, fuel = f + 1 := ⟨fuel - 1, by simp [Json.chars] at hfuel; omega⟩
    have hd1 : ¬ depth ≤ 1 := by simp only [Json.depth] at hd; omega
    show jsonReadValue (f + 1) depth ('[' :: ']' :: rest) = _
    rw [jsonReadValue]
    simp only [skipWs_cons '[' _ (by decide), skipWs_cons ']' _ (by decide), hd1]
    rfl
  | cons x xs =>
    rw [Json.chars] at hfuel ⊢
    simp only [List.length_cons] at hfuel
    obtain ⟨f, rfl⟩ : ∃ f, fuel = f + 1 := ⟨fuel - 1, by omega⟩
    have hdd : Json.depthList (x :: xs) + 1 < depth := by simp only [Json.depth] at hd; omega
    have hd1 : ¬ depth ≤ 1 := by omega
    have hel := readElems_chars xs x (h x List.mem_cons_self) (fun y hy => h y (List.mem_cons_of_mem _ hy))
      f (depth - 1) rest
      (by have := depthList_le (x :: xs) x List.mem_cons_self; omega)
      (fun y hy => by have := depthList_le (x :: xs) y (List.mem_cons_of_mem _ hy); omega)
      (by omega)
    obtain ⟨c, t, hct, hc⟩ := chars_head x (hfin x List.mem_cons_self)
    have hsk : jsonSkipWs (x.chars ++ Json.restChars xs ++ rest) = x.chars ++ Json.restChars xs ++ rest := by
      rw [hct]; exact skipWs_cons c _ hc.notWs
    rw [List.cons_append, jsonReadValue]
    simp only [skipWs_cons '[' _ (by decide), hd1, hsk]
    have hne : ∀ r', x.chars ++ Json.restChars xs ++ rest ≠ ']' :: r' := by
      intro r' he
      rw [hct] at he
      simp only [List.cons_append, List.cons.injEq] at he
      exact hc.notClose.1 he.1
    split
    · next hh => cases hh
    split
    · next hh => cases hh
    split
    · next hh => cases hh
    split
    · next hh => cases hh
    rw [if_pos True.intro, if_neg id]
    split
    · next r' he => exact absurd he (hne r')
    · rw [hel]

theorem readsBack_obj (ms : List (String × Json)) (h : ∀ kv ∈ ms, ReadsBack kv.2) :
    ReadsBack (.obj ms) := by
  intro fuel depth rest hd hfuel _
  cases ms with
  | nil =>
    obtain ⟨f, rfl⟩ : ∃ f, fuel = f + 1 := ⟨fuel - 1, by simp [Json.chars] at hfuel; omega⟩
    have hd1 : ¬ depth ≤ 1 := by simp only [Json.depth] at hd; omega
    show jsonReadValue (f + 1) depth ('{' :: '}' :: rest) = _
    rw [jsonReadValue]
    simp only [skipWs_cons '{' _ (by decide), skipWs_cons '}' _ (by decide), hd1]
    rfl
  | cons kv ms =>
    obtain ⟨k, v⟩ := kv
    rw [Json.chars] at hfuel ⊢
    simp only [List.length_cons] at hfuel
    obtain ⟨f, rfl⟩ : ∃ f, fuel = f + 1 := ⟨fuel - 1, by omega⟩
    have hdd : Json.depthMembers ((k, v) :: ms) + 1 < depth := by simp only [Json.depth] at hd; omega
    have hd1 : ¬ depth ≤ 1 := by omega
    have hel := readMembers_chars ms k v (h (k, v) List.mem_cons_self)
      (fun y hy => h y (List.mem_cons_of_mem _ hy)) f (depth - 1) rest
      (by have := depthMembers_le ((k, v) :: ms) (k, v) List.mem_cons_self; simp only [] at this; omega)
      (fun y hy => by have := depthMembers_le ((k, v) :: ms) y (List.mem_cons_of_mem _ hy); omega)
      (by simp only [List.length_append, List.length_cons] at hfuel ⊢; omega)
    have hq : jsonStrChars k ++ ':' :: (v.chars ++ Json.restMembers ms) ++ rest =
        '"' :: (jsonEscChars k.toList ++ '"' :: ':' :: (v.chars ++ Json.restMembers ms ++ rest)) := by
      simp [jsonStrChars]
    have hsk : jsonSkipWs (jsonStrChars k ++ ':' :: (v.chars ++ Json.restMembers ms) ++ rest) =
        jsonStrChars k ++ ':' :: (v.chars ++ Json.restMembers ms) ++ rest := by
      rw [hq]; exact skipWs_cons '"' _ (by decide)
    rw [List.cons_append, jsonReadValue]
    simp only [skipWs_cons '{' _ (by decide), hd1, hsk]
    have hne : ∀ r', jsonStrChars k ++ ':' :: (v.chars ++ Json.restMembers ms) ++ rest ≠ '}' :: r' := by
      intro r' he
      rw [hq] at he
      simp only [List.cons.injEq] at he
      exact absurd he.1 (by decide)
    split
    · next hh => cases hh
    split
    · next hh => cases hh
    split
    · next hh => cases hh
    split
    · next hh => cases hh
    split
    · next hh => cases hh
    rw [if_pos True.intro, if_neg id]
    split
    · next r' he => exact absurd he (hne r')
    · rw [hel]

/-- every tree with finite numbers is read back from its written text -/
theorem readsBack_all (j : Json) : j.finite = true → ReadsBack j := by
  induction j using Json.ind with
  | hnull => exact fun _ => readsBack_null
  | hbool b => exact fun _ => readsBack_bool b
  | hnum x => exact fun h => readsBack_num x (by simpa [Json.finite] using h)
  | hstr s => exact fun _ => readsBack_str s
  | harr xs ih =>
    intro h
    simp only [Json.finite, jfiniteList_iff] at h
    exact readsBack_arr xs h (fun x hx => ih x hx (h x hx))
  | hobj ms ih =>
    intro h
    simp only [Json.finite, jfiniteMembers_iff] at h
    exact readsBack_obj ms (fun kv hkv => ih kv hkv (h kv hkv))

/-- the text layer inverts on trees: for every recursion limit above the nesting depth -/
theorem read_write_with (limit : Nat) (j : Json) (hf : j.finite = true) (hd : j.depth < limit) :
    jsonReadWith limit (jsonWrite j) = some j := by
  unfold jsonReadWith jsonWrite
  rw [String.toList_ofList]
  have h := readsBack_all j hf (2 * j.chars.length + 2) limit [] hd (by omega) trivial
  rw [List.append_nil] at h
  rw [h]
  rfl


/-- a tree serde_json can hold has finite numbers -/
theorem finite_of_canonical (j : Json) : j.canonical = true → j.finite = true := by
  induction j using Json.ind with
  | hnull => exact fun _ => rfl
  | hbool b => exact fun _ => rfl
  | hnum x => exact fun h => by simpa [Json.canonical, Json.finite] using h
  | hstr s => exact fun _ => rfl
  | harr xs ih =>
    intro h
    simp only [Json.canonical, canonicalList_iff] at h
    simp only [Json.finite, jfiniteList_iff]
    exact fun x hx => ih x hx (h x hx)
  | hobj ms ih =>
    intro h
    simp only [Json.canonical, Bool.and_eq_true, canonicalMembers_iff] at h
    simp only [Json.finite, jfiniteMembers_iff]
    exact fun kv hkv => ih kv hkv (h.2 kv hkv)

/-! ### depth of the written tree -/

theorem depthList_le_of (b : Nat) : ∀ (xs : List Json), (∀ x ∈ xs, x.depth ≤ b) → Json.depthList xs ≤ b
  | [], _ => Nat.zero_le _
  | x :: xs, h => by
    have h1 := h x List.mem_cons_self
    have h2 := depthList_le_of b xs (fun y hy => h y (List.mem_cons_of_mem _ hy))
    simp only [Json.depthList]; omega

theorem depthMembers_le_of (b : Nat) : ∀ (ms : List (String × Json)), (∀ kv ∈ ms, kv.2.depth ≤ b) →
    Json.depthMembers ms ≤ b
  | [], _ => Nat.zero_le _
  | (k, v) :: ms, h => by
    have h1 := h (k, v) List.mem_cons_self
    have h2 := depthMembers_le_of b ms (fun y hy => h y (List.mem_cons_of_mem _ hy))
    simp only [Json.depthMembers]; simp only [] at h1; omega

theorem svDepthList_le : ∀ (xs : List SV) (x : SV), x ∈ xs → x.depth ≤ SV.depthList xs
  | y :: ys, x, h => by
    simp only [SV.depthList]
    rcases List.mem_cons.1 h with rfl | h
    · omega
    · have := svDepthList_le ys x h; omega

theorem svDepthRec_le : ∀ (r : List (String × SV)) (kv : String × SV), kv ∈ r → kv.2.depth ≤ SV.depthRec r
  | (k, v) :: r, kv, h => by
    simp only [SV.depthRec]
    rcases List.mem_cons.1 h with rfl | h
    · simp only []; omega
    · have := svDepthRec_le r kv h; omega

/-- `to_json` does not deepen a value -/
theorem toJson_depth_le (sv : SV) : (toJson sv).depth ≤ sv.depth := by
  induction sv using SV.ind with
  | hnum x => simp only [toJson]; split <;> simp [Json.depth]
  | hbool b => simp [toJson, Json.depth]
  | hnull => simp [toJson, Json.depth]
  | hstr s => simp [toJson, Json.depth]
  | hlist xs ih =>
    simp only [toJson, Json.depth, SV.depth, toJsonList_eq]
    have : Json.depthList (xs.map toJson) ≤ SV.depthList xs := by
      apply depthList_le_of
      intro j hj
      obtain ⟨x, hx, rfl⟩ := List.mem_map.1 hj
      exact Nat.le_trans (ih x hx) (svDepthList_le xs x hx)
    omega
  | hrecord r ih =>
    simp only [toJson, Json.depth, SV.depth, toJsonMembers_eq]
    have : Json.depthMembers (collectSorted (mapVals toJson r)) ≤ SV.depthRec r := by
      apply depthMembers_le_of
      intro kv hkv
      have hm := mem_collectSorted hkv
      obtain ⟨kv', hkv', rfl⟩ := List.mem_map.1 hm
      exact Nat.le_trans (ih kv' hkv') (svDepthRec_le r kv' hkv')
    omega
  | hlambda as b => simp [toJson, Json.depth, Json.depthMembers, SV.depth]
  | hbuiltin n => simp [toJson, Json.depth, Json.depthMembers, SV.depth]

end Blots.JsonText
