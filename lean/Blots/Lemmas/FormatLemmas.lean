import Blots.Model.Format
/-
  Lemmas about the formatter model (`Model/Format.lean`, mirror of `formatter.rs`).

  * `hasNewline` algebra;
  * `cfm` : an expression that `containsComments` never has a newline-free `fmtSingle`
    (mutual structural induction over Expr / Item / Entry / Key and their lists);
  * `hasDo`, `anyComment` : the same for do-blocks (whose statement comments
    `contains_comments` does not count, but which never print on one line);
  * `joinStatementsWithSpacing` : structure of the output, the gaps, stability.

  The width-driven layout functions (`fmtImpl`, `fmtMulti`, …) are `partial` in the model:
  no theorem is (or can be) stated about them.
-/
namespace Blots
namespace FormatL

theorem hasNewline_append (a b : String) : hasNewline (a ++ b) = (hasNewline a || hasNewline b) := by
  simp [hasNewline, String.toList_append]

theorem mem_intercalate {α} (sep : List α) (c : α) :
    ∀ (l : List (List α)) (x : List α), x ∈ l → c ∈ x → c ∈ sep.intercalate l
  | [], _, h, _ => by cases h
  | [y], x, h, hc => by
    rw [List.mem_singleton] at h; subst h
    simpa [List.intercalate] using hc
  | y :: z :: r, x, h, hc => by
    have ih := mem_intercalate sep c (z :: r) x
    simp only [List.intercalate, List.intersperse_cons_cons, List.flatten_cons, List.mem_append] at ih ⊢
    rcases List.mem_cons.mp h with rfl | h
    · exact Or.inl hc
    · exact Or.inr (Or.inr (ih h hc))

theorem hasNewline_intercalate (sep : String) (l : List String) (x : String) (hx : x ∈ l)
    (h : hasNewline x = true) : hasNewline (sep.intercalate l) = true := by
  unfold hasNewline at *
  rw [String.toList_intercalate]
  rw [List.contains_iff_mem] at *
  exact mem_intercalate _ _ _ x.toList (List.mem_map.mpr ⟨x, hx, rfl⟩) h

theorem hasNewline_parenIf (b : Bool) (s : String) : hasNewline (parenIf b s) = hasNewline s := by
  cases b
  · rfl
  · simp only [parenIf, if_true, hasNewline_append]
    have : hasNewline "(" = false := by decide
    have h2 : hasNewline ")" = false := by decide
    simp [this, h2]

theorem hasNewline_nl : hasNewline "\n" = true := by decide

mutual
theorem cfm : ∀ e : Expr, containsComments e = true → hasNewline (fmtSingle e) = true
  | .assign n v, h => by
    simp only [containsComments] at h
    simp only [fmtSingle, hasNewline_append, cfm v h, Bool.or_true]
  | .output e, h => by
    simp only [containsComments] at h
    simp only [fmtSingle, hasNewline_append, cfm e h, Bool.or_true]
  | .lambda args body, h => by
    simp only [containsComments] at h
    have ih := cfm body h
    simp only [fmtSingle]
    split <;> simp [hasNewline_append, ih]
  | .call f args, h => by
    simp only [containsComments, Bool.or_eq_true] at h
    simp only [fmtSingle, hasNewline_append, hasNewline_parenIf]
    rcases h with h | h
    · simp [cfm f h]
    · obtain ⟨s, hs, hn⟩ := cfm_list args h
      simp [hasNewline_intercalate _ _ s hs hn]
  | .list items, h => by
    simp only [containsComments] at h
    simp only [fmtSingle]
    split
    · decide
    · rename_i hany
      obtain ⟨s, hs, hn⟩ := cfm_items items h (by simpa using hany)
      simp [hasNewline_append, hasNewline_intercalate _ _ s hs hn]
  | .record es, h => by
    simp only [containsComments] at h
    simp only [fmtSingle]
    split
    · decide
    · rename_i hany
      obtain ⟨s, hs, hn⟩ := cfm_entries es h (by simpa using hany)
      simp [hasNewline_append, hasNewline_intercalate _ _ s hs hn]
  | .num _, h | .str _, h | .bool _, h | .null, h | .ident _, h | .inref _, h | .builtin _, h
  | .cond _ _ _, h | .doBlock _ _, h | .access _ _, h | .dot _ _, h | .bin _ _ _, h | .un _ _, h
  | .fact _, h | .spread _, h => by
    simp only [fmtSingle, h, if_true, hasNewline_nl]
theorem cfm_list : ∀ es : List Expr, exprsContainComments es = true →
    ∃ s ∈ fmtSingleList es, hasNewline s = true
  | [], h => by simp [exprsContainComments] at h
  | e :: es, h => by
    simp only [exprsContainComments, Bool.or_eq_true] at h
    simp only [fmtSingleList, List.mem_cons, exists_eq_or_imp]
    rcases h with h | h
    · exact Or.inl (cfm e h)
    · exact Or.inr (cfm_list es h)
theorem cfm_item : ∀ i : Item, itemContainsComments i = true → hasNewline (fmtSingleItem i) = true
  | .mk _ e _, h => by
    simp only [itemContainsComments] at h
    simp only [fmtSingleItem, cfm e h]
theorem cfm_items : ∀ is : List Item, itemsHaveComments is = true →
    is.any Item.hasComments = false → ∃ s ∈ fmtSingleItems is, hasNewline s = true
  | [], h, _ => by simp [itemsHaveComments] at h
  | (.mk l e t) :: is, h, hany => by
    simp only [itemsHaveComments, itemHasOrContains, Bool.or_eq_true] at h
    simp only [List.any_cons, Item.hasComments, Item.leading, Item.trailing, Bool.or_eq_false_iff] at hany
    simp only [fmtSingleItems, List.mem_cons, exists_eq_or_imp]
    rcases h with ((h | h) | h) | h
    · rw [hany.1.1] at h; cases h
    · rw [hany.1.2] at h; cases h
    · exact Or.inl (cfm_item (.mk l e t) (by simpa [itemContainsComments] using h))
    · exact Or.inr (cfm_items is h hany.2)
theorem cfm_entry : ∀ en : Entry, (match en with | .mk _ k v _ => keyContains k (containsComments v)) = true →
    hasNewline (fmtSingleEntry en) = true
  | .mk _ k v _, h => by
    simp only [fmtSingleEntry]
    exact cfm_key k (containsComments v) (fmtSingle v) (cfm v) h
theorem cfm_entries : ∀ es : List Entry, entriesHaveComments es = true →
    es.any Entry.hasComments = false → ∃ s ∈ fmtSingleEntries es, hasNewline s = true
  | [], h, _ => by simp [entriesHaveComments] at h
  | (.mk l k v t) :: es, h, hany => by
    simp only [entriesHaveComments, entryHasOrContains, Bool.or_eq_true] at h
    simp only [List.any_cons, Entry.hasComments, Entry.leading, Entry.trailing, Bool.or_eq_false_iff] at hany
    simp only [fmtSingleEntries, List.mem_cons, exists_eq_or_imp]
    rcases h with ((h | h) | h) | h
    · rw [hany.1.1] at h; cases h
    · rw [hany.1.2] at h; cases h
    · exact Or.inl (cfm_entry (.mk l k v t) h)
    · exact Or.inr (cfm_entries es h hany.2)
theorem cfm_key : ∀ (k : Key) (vc : Bool) (vs : String), (vc = true → hasNewline vs = true) →
    keyContains k vc = true → hasNewline (fmtSingleKeyed k vs) = true
  | .static _, vc, vs, hv, h => by
    simp only [keyContains] at h
    simp only [fmtSingleKeyed, hasNewline_append, hv h, Bool.or_true]
  | .dyn ke, vc, vs, hv, h => by
    simp only [keyContains, Bool.or_eq_true] at h
    simp only [fmtSingleKeyed, hasNewline_append]
    rcases h with h | h
    · simp [cfm ke h]
    · simp [hv h]
  | .short _, _, _, _, h => by simp [keyContains] at h
  | .spread e, _, _, _, h => by
    simp only [keyContains] at h
    simp only [fmtSingleKeyed, cfm e h]
end


end FormatL
end Blots
